import PdfVerif.Props.C11cpyc
/-!
C11 (continued) — the copier after a *failed* call.  The driver runs the state-returning
functions `copyObjE` … `copyRefE`, `runOpsE` (the harness goes on using the Copier after a failed
call).  They agree with the plain functions on every result (`agree_main`, `copyRefE_agrees`);
every call, failed or not, only adds objects with fresh numbers (`frame_main`); a failed
`CopyReference` leaves `trans` unchanged and the state consistent
(`failed_copy_keeps_consistent`, fixes d320179 + bdb0240); whole programs with failing calls end
consistent (`runE_consistent`) and never exhaust the driver's fuel (`fuel_suffices_E`).
-/
namespace PdfVerif.C11cpyd
open PdfVerif PdfVerif.CPY PdfVerif.C11cpy PdfVerif.C11cpyb PdfVerif.C11cpyc

/-! ### the state-returning functions agree with the plain ones -/

/-- forget the state of a failed call -/
def toPlain {α : Type} : Except CErr α × St → Except CErr (α × St)
  | (.ok a, s) => .ok (a, s)
  | (.error e, _) => .error e

section
variable (G : Graph)

def AObj (f : Nat) : Prop := ∀ s o, toPlain (copyObjE f G s o) = copyObj f G s o
def AList (f : Nat) : Prop := ∀ s xs, toPlain (copyListE f G s xs) = copyList f G s xs
def AKV (f : Nat) : Prop := ∀ s L, toPlain (copyKVE f G s L) = copyKV f G s L
def AInl (f : Nat) : Prop := ∀ s src res key, toPlain (inlineKeyE f G s src res key) = inlineKey f G s src res key
def ASD (f : Nat) : Prop := ∀ s src, toPlain (copyStreamDictE f G s src) = copyStreamDict f G s src
def AVal (f : Nat) : Prop := ∀ s v, toPlain (copyValE f G s v) = copyVal f G s v
def ARef (f : Nat) : Prop := ∀ s r, toPlain (copyRefE f G s r) = copyRef f G s r

theorem astep_obj (f : Nat) (hL : AList G f) (hK : AKV G f) (hR : ARef G f) : AObj G (f+1) := by
  intro s o
  cases o with
  | dict kv =>
    simp only [copyObjE, copyObj]
    rw [← hK s (sortedEntries kv)]
    cases h : copyKVE f G s (sortedEntries kv) with
    | mk r s1 => cases r <;> simp [toPlain]
  | arr xs =>
    simp only [copyObjE, copyObj]
    rw [← hL s xs]
    cases h : copyListE f G s xs with
    | mk r s1 => cases r <;> simp [toPlain]
  | ref n g =>
    simp only [copyObjE, copyObj]
    rw [← hR s (n, g)]
    cases h : copyRefE f G s (n, g) with
    | mk r s1 => cases r <;> simp [toPlain]
  | _ => simp [copyObjE, copyObj, toPlain]

theorem astep_list (f : Nat) (hO : AObj G f) (hL : AList G f) : AList G (f+1) := by
  intro s xs
  cases xs with
  | nil => simp [copyListE, copyList, toPlain]
  | cons x xs =>
    simp only [copyListE, copyList]
    rw [← hO s x]
    cases h : copyObjE f G s x with
    | mk r s1 =>
      cases r with
      | error e => simp [toPlain]
      | ok y =>
        simp only [toPlain]
        rw [← hL s1 xs]
        cases h2 : copyListE f G s1 xs with
        | mk r2 s2 => cases r2 <;> simp [toPlain]


def kvContE (k : Bytes) (r1 : Except CErr Obj × St) (cont : St → Except CErr KV × St) :
    Except CErr KV × St :=
  match r1 with
  | (.error e, s1) => (.error e, s1)
  | (.ok v', s1) =>
    match cont s1 with
    | (.error e, s2) => (.error e, s2)
    | (.ok rest', s2) => (.ok ((k, v') :: rest'), s2)

theorem copyKVE_cons_nonnull (f : Nat) (s : St) (k : Bytes) (v : Obj) (rest : KV) (h : v ≠ .null) :
    copyKVE (f+1) G s ((k, v) :: rest) = kvContE k (copyObjE f G s v) (fun s1 => copyKVE f G s1 rest) := by
  cases v <;> first | exact absurd rfl h | rfl

theorem astep_kv (f : Nat) (hO : AObj G f) (hK : AKV G f) : AKV G (f+1) := by
  intro s L
  cases L with
  | nil => simp [copyKVE, copyKV, toPlain]
  | cons p rest =>
    obtain ⟨k, v⟩ := p
    by_cases hv : v = .null
    · subst hv
      simp only [copyKVE, copyKV]
      rw [← hK s rest]
      cases h : copyKVE f G s rest with
      | mk r s1 => cases r <;> simp [toPlain]
    · rw [copyKVE_cons_nonnull G f s k v rest hv, copyKV_cons_nonnull G f s k v rest hv]
      rw [← hO s v]
      cases h : copyObjE f G s v with
      | mk r s1 =>
        cases r with
        | error e => simp [toPlain, kvContE, kvCont]
        | ok y =>
          simp only [toPlain, kvContE, kvCont]
          rw [← hK s1 rest]
          cases h2 : copyKVE f G s1 rest with
          | mk r2 s2 => cases r2 <;> simp [toPlain]

theorem astep_inl (f : Nat) (hO : AObj G f) : AInl G (f+1) := by
  intro s src res key
  simp only [inlineKeyE, inlineKey]
  cases hk : kvLookup key src with
  | none => simp [toPlain]
  | some val =>
    simp only
    cases hi : inlineFilterRefs G val with
    | error e => simp [toPlain]
    | ok w =>
      cases w with
      | stream d dd en => simp [toPlain]
      | obj inl =>
        simp only
        rw [← hO s inl]
        cases h : copyObjE f G s inl with
        | mk r s1 => cases r <;> simp [toPlain]

theorem astep_sd (f : Nat) (hK : AKV G f) (hI : AInl G f) : ASD G (f+1) := by
  intro s src
  simp only [copyStreamDictE, copyStreamDict]
  rw [← hK s (sortedEntries src)]
  cases h : copyKVE f G s (sortedEntries src) with
  | mk r s1 =>
    cases r with
    | error e => simp [toPlain]
    | ok res1 =>
      simp only [toPlain]
      rw [← hI s1 src res1 keyFilter]
      cases h2 : inlineKeyE f G s1 src res1 keyFilter with
      | mk r2 s2 =>
        cases r2 with
        | error e => simp [toPlain]
        | ok res2 =>
          simp only [toPlain]
          exact hI s2 src res2 keyDecodeParms

theorem astep_val (f : Nat) (hO : AObj G f) (hS : ASD G f) : AVal G (f+1) := by
  intro s v
  cases v with
  | obj o =>
    simp only [copyValE, copyVal]
    rw [← hO s o]
    cases h : copyObjE f G s o with
    | mk r s1 => cases r <;> simp [toPlain]
  | stream dict data enc =>
    simp only [copyValE, copyVal]
    rw [← hS s dict]
    cases h : copyStreamDictE f G s dict with
    | mk r s1 =>
      cases r with
      | error e => simp [toPlain]
      | ok d' =>
        simp only [toPlain]
        cases hr : streamCryptRecipe G dict enc with
        | error e => simp
        | ok rc => cases rc <;> simp

theorem astep_ref (f : Nat) (hV : AVal G f) : ARef G (f+1) := by
  intro s r
  simp only [copyRefE, copyRef]
  cases ht : assoc r s.trans with
  | some t => simp [toPlain]
  | none =>
    simp only
    cases hw : walkFrom G s.trans r with
    | fails e => simp [toPlain]
    | dead => simp [toPlain]
    | known t chain => simp [toPlain]
    | ends v chain =>
      simp only
      cases ha : alloc s with
      | error e => simp [toPlain]
      | ok p =>
        obtain ⟨n, s1⟩ := p
        simp only
        rw [← hV { s1 with trans := enter chain n s1.trans } v]
        cases h : copyValE f G { s1 with trans := enter chain n s1.trans } v with
        | mk rr s3 =>
          cases rr with
          | error e => simp [toPlain]
          | ok v' =>
            simp only [toPlain]
            cases hp : put s3 n v' with
            | error e => simp
            | ok s4 => simp

theorem agree_main : ∀ f : Nat,
    AObj G f ∧ AList G f ∧ AKV G f ∧ AInl G f ∧ ASD G f ∧ AVal G f ∧ ARef G f := by
  intro f
  induction f with
  | zero =>
    refine ⟨?_, ?_, ?_, ?_, ?_, ?_, ?_⟩
    · intro s o; simp [copyObjE, copyObj, toPlain]
    · intro s o; simp [copyListE, copyList, toPlain]
    · intro s o; simp [copyKVE, copyKV, toPlain]
    · intro s a b c; simp [inlineKeyE, inlineKey, toPlain]
    · intro s o; simp [copyStreamDictE, copyStreamDict, toPlain]
    · intro s o; simp [copyValE, copyVal, toPlain]
    · intro s o; simp [copyRefE, copyRef, toPlain]
  | succ f ih =>
    obtain ⟨hO, hL, hK, hI, hS, hV, hR⟩ := ih
    exact ⟨astep_obj G f hL hK hR, astep_list G f hO hL, astep_kv G f hO hK, astep_inl G f hO,
      astep_sd G f hK hI, astep_val G f hO hS, astep_ref G f hV⟩

/-- **copyRefE_agrees.**  The state-returning `CopyReference` of the driver has the same result
as the plain one; on success also the same state.  All theorems about `copyRef` apply. -/
theorem copyRefE_agrees (f : Nat) (s : St) (r : Ref) : toPlain (copyRefE f G s r) = copyRef f G s r :=
  (agree_main G f).2.2.2.2.2.2 s r

theorem copyRefE_ok {f : Nat} {s s' : St} {r t : Ref} :
    copyRefE f G s r = (.ok t, s') ↔ copyRef f G s r = .ok (t, s') := by
  rw [← copyRefE_agrees]
  cases h : copyRefE f G s r with
  | mk x s1 =>
    cases x with
    | error e => simp [toPlain]
    | ok t' => simp [toPlain]

end
/-! ### what every call does to `next` and to the objects written, whether it fails or not -/

/-- `next` only grows; the objects written are kept and the new ones carry distinct numbers
    taken from the numbers allocated by the call -/
def Frame (s s' : St) : Prop :=
  s.next ≤ s'.next ∧ ∃ P : List (Ref × Val), s'.puts = s.puts ++ P ∧ (P.map Prod.fst).Nodup ∧
    ∀ k ∈ P.map Prod.fst, ∃ m, k = refOf m ∧ s.next ≤ m ∧ m < s'.next

theorem Frame.refl (s : St) : Frame s s := ⟨Nat.le_refl _, [], by simp, by simp, by simp⟩

theorem Frame.trans {a b c : St} (h1 : Frame a b) (h2 : Frame b c) : Frame a c := by
  obtain ⟨n1, P1, p1, d1, m1⟩ := h1
  obtain ⟨n2, P2, p2, d2, m2⟩ := h2
  refine ⟨by omega, P1 ++ P2, by rw [p2, p1, List.append_assoc], ?_, ?_⟩
  · rw [List.map_append, List.nodup_append]
    refine ⟨d1, d2, ?_⟩
    intro x hx y hy hxy
    subst hxy
    obtain ⟨m, e1, _, h1⟩ := m1 x hx
    obtain ⟨m', e2, h2, _⟩ := m2 x hy
    rw [e1] at e2
    have := refOf_injective e2
    omega
  · intro k hk
    rw [List.map_append, List.mem_append] at hk
    rcases hk with h | h
    · obtain ⟨m, e, h1, h2⟩ := m1 k h; exact ⟨m, e, h1, by omega⟩
    · obtain ⟨m, e, h1, h2⟩ := m2 k h; exact ⟨m, e, by omega, h2⟩

/-- a frame does not care about `trans` -/
theorem Frame.of_eq {a b b' : St} (h : Frame a b) (hn : b'.next = b.next) (hp : b'.puts = b.puts) :
    Frame a b' := by
  obtain ⟨n1, P1, p1, d1, m1⟩ := h
  exact ⟨by omega, P1, by rw [hp, p1], d1, by rw [hn]; exact m1⟩

section
variable (G : Graph)


def RObj (f : Nat) : Prop := ∀ s o, Frame s (copyObjE f G s o).2
def RList (f : Nat) : Prop := ∀ s xs, Frame s (copyListE f G s xs).2
def RKV (f : Nat) : Prop := ∀ s L, Frame s (copyKVE f G s L).2
def RInl (f : Nat) : Prop := ∀ s src res key, Frame s (inlineKeyE f G s src res key).2
def RSD (f : Nat) : Prop := ∀ s src, Frame s (copyStreamDictE f G s src).2
def RVal (f : Nat) : Prop := ∀ s v, Frame s (copyValE f G s v).2
def RRef (f : Nat) : Prop := ∀ s r, Frame s (copyRefE f G s r).2

theorem rstep_obj (f : Nat) (hL : RList G f) (hK : RKV G f) (hR : RRef G f) : RObj G (f+1) := by
  intro s o
  cases o with
  | dict kv =>
    simp only [copyObjE]
    have := hK s (sortedEntries kv)
    cases h : copyKVE f G s (sortedEntries kv) with
    | mk r s1 => rw [h] at this; cases r <;> exact this
  | arr xs =>
    simp only [copyObjE]
    have := hL s xs
    cases h : copyListE f G s xs with
    | mk r s1 => rw [h] at this; cases r <;> exact this
  | ref n g =>
    simp only [copyObjE]
    have := hR s (n, g)
    cases h : copyRefE f G s (n, g) with
    | mk r s1 => rw [h] at this; cases r <;> exact this
  | _ => simp only [copyObjE]; exact Frame.refl s

theorem rstep_list (f : Nat) (hO : RObj G f) (hL : RList G f) : RList G (f+1) := by
  intro s xs
  cases xs with
  | nil => simp only [copyListE]; exact Frame.refl s
  | cons x xs =>
    simp only [copyListE]
    have h1 := hO s x
    cases h : copyObjE f G s x with
    | mk r s1 =>
      rw [h] at h1
      cases r with
      | error e => exact h1
      | ok y =>
        simp only
        have h2 := hL s1 xs
        cases h' : copyListE f G s1 xs with
        | mk r2 s2 => rw [h'] at h2; cases r2 <;> exact h1.trans h2

theorem rstep_kv (f : Nat) (hO : RObj G f) (hK : RKV G f) : RKV G (f+1) := by
  intro s L
  cases L with
  | nil => simp only [copyKVE]; exact Frame.refl s
  | cons p rest =>
    obtain ⟨k, v⟩ := p
    by_cases hv : v = .null
    · subst hv
      simp only [copyKVE]
      have := hK s rest
      cases h : copyKVE f G s rest with
      | mk r s1 => rw [h] at this; cases r <;> exact this
    · rw [copyKVE_cons_nonnull G f s k v rest hv]
      have h1 := hO s v
      cases h : copyObjE f G s v with
      | mk r s1 =>
        rw [h] at h1
        cases r with
        | error e => exact h1
        | ok y =>
          simp only [kvContE]
          have h2 := hK s1 rest
          cases h' : copyKVE f G s1 rest with
          | mk r2 s2 => rw [h'] at h2; cases r2 <;> exact h1.trans h2

theorem rstep_inl (f : Nat) (hO : RObj G f) : RInl G (f+1) := by
  intro s src res key
  simp only [inlineKeyE]
  cases hk : kvLookup key src with
  | none => exact Frame.refl s
  | some val =>
    simp only
    cases hi : inlineFilterRefs G val with
    | error e => exact Frame.refl s
    | ok w =>
      cases w with
      | stream d dd en => exact Frame.refl s
      | obj inl =>
        simp only
        have := hO s inl
        cases h : copyObjE f G s inl with
        | mk r s1 => rw [h] at this; cases r <;> exact this

theorem rstep_sd (f : Nat) (hK : RKV G f) (hI : RInl G f) : RSD G (f+1) := by
  intro s src
  simp only [copyStreamDictE]
  have h1 := hK s (sortedEntries src)
  cases h : copyKVE f G s (sortedEntries src) with
  | mk r s1 =>
    rw [h] at h1
    cases r with
    | error e => exact h1
    | ok res1 =>
      simp only
      have h2 := hI s1 src res1 keyFilter
      cases h' : inlineKeyE f G s1 src res1 keyFilter with
      | mk r2 s2 =>
        rw [h'] at h2
        cases r2 with
        | error e => exact h1.trans h2
        | ok res2 => exact (h1.trans h2).trans (hI s2 src res2 keyDecodeParms)

theorem rstep_val (f : Nat) (hO : RObj G f) (hS : RSD G f) : RVal G (f+1) := by
  intro s v
  cases v with
  | obj o =>
    simp only [copyValE]
    have := hO s o
    cases h : copyObjE f G s o with
    | mk r s1 => rw [h] at this; cases r <;> exact this
  | stream dict data enc =>
    simp only [copyValE]
    have := hS s dict
    cases h : copyStreamDictE f G s dict with
    | mk r s1 =>
      rw [h] at this
      cases r with
      | error e => exact this
      | ok d' =>
        simp only
        cases hr : streamCryptRecipe G dict enc with
        | error e => exact this
        | ok rc => cases rc <;> exact this

theorem rstep_ref (f : Nat) (hV : RVal G f) : RRef G (f+1) := by
  intro s r
  simp only [copyRefE]
  cases ht : assoc r s.trans with
  | some t => exact Frame.refl s
  | none =>
    simp only
    cases hw : walkFrom G s.trans r with
    | fails e => exact Frame.refl s
    | dead => exact Frame.refl s
    | known t chain => exact (Frame.refl s).of_eq rfl rfl
    | ends v chain =>
      simp only
      cases ha : alloc s with
      | error e => exact Frame.refl s
      | ok p =>
        obtain ⟨n, s1⟩ := p
        obtain ⟨hn, hs1⟩ := alloc_ok ha
        subst hn; subst hs1
        simp only
        have h0 : Frame s { trans := enter chain (refOf s.next) s.trans, next := s.next + 1, puts := s.puts, tgtV := s.tgtV } :=
          ⟨by simp, [], by simp, by simp, by simp⟩
        have h1 := hV { trans := enter chain (refOf s.next) s.trans, next := s.next + 1, puts := s.puts, tgtV := s.tgtV } v
        cases h : copyValE f G { trans := enter chain (refOf s.next) s.trans, next := s.next + 1, puts := s.puts, tgtV := s.tgtV } v with
        | mk rr s3 =>
          rw [h] at h1
          have h03 := h0.trans h1
          cases rr with
          | error e => exact h03.of_eq rfl rfl
          | ok v' =>
            simp only
            cases hp : put s3 (refOf s.next) v' with
            | error e => exact h03.of_eq rfl rfl
            | ok s4 =>
              simp only
              have h4 := put_ok hp
              obtain ⟨n1, P, pp, pd, pm⟩ := h1
              simp only at n1 pp pm
              have hlt : ¬ (s3.next ≤ (refOf s.next).1) := by simp only [refOf]; omega
              rw [if_neg hlt] at h4
              subst h4
              refine ⟨by simp only; omega, P ++ [(refOf s.next, v')], by simp [pp], ?_, ?_⟩
              · rw [List.map_append, List.nodup_append]
                refine ⟨pd, by simp, ?_⟩
                intro x hx y hy hxy
                simp only [List.map_cons, List.map_nil, List.mem_singleton] at hy
                subst hxy; subst hy
                obtain ⟨m, e, h1', _⟩ := pm _ hx
                have := refOf_injective e
                omega
              · intro k hk
                rw [List.map_append, List.mem_append] at hk
                rcases hk with h' | h'
                · obtain ⟨m, e, a1, a2⟩ := pm k h'; exact ⟨m, e, by omega, a2⟩
                · simp only [List.map_cons, List.map_nil, List.mem_singleton] at h'
                  exact ⟨s.next, h', Nat.le_refl _, by show s.next < s3.next; omega⟩

theorem frame_main : ∀ f : Nat,
    RObj G f ∧ RList G f ∧ RKV G f ∧ RInl G f ∧ RSD G f ∧ RVal G f ∧ RRef G f := by
  intro f
  induction f with
  | zero =>
    refine ⟨?_, ?_, ?_, ?_, ?_, ?_, ?_⟩
    · intro s o; simp only [copyObjE]; exact Frame.refl s
    · intro s o; simp only [copyListE]; exact Frame.refl s
    · intro s o; simp only [copyKVE]; exact Frame.refl s
    · intro s a b c; simp only [inlineKeyE]; exact Frame.refl s
    · intro s o; simp only [copyStreamDictE]; exact Frame.refl s
    · intro s o; simp only [copyValE]; exact Frame.refl s
    · intro s o; simp only [copyRefE]; exact Frame.refl s
  | succ f ih =>
    obtain ⟨hO, hL, hK, hI, hS, hV, hR⟩ := ih
    exact ⟨rstep_obj G f hL hK hR, rstep_list G f hO hL, rstep_kv G f hO hK, rstep_inl G f hO,
      rstep_sd G f hK hI, rstep_val G f hO hS, rstep_ref G f hV⟩

end

/-! ### a failed call leaves a consistent state -/

theorem frame_consistent {G : Graph} {Rd : List Ref} {s s' : St} (hc : Consistent G Rd s)
    (hf : Frame s s') (ht : s'.trans = s.trans) : Consistent G Rd s' := by
  obtain ⟨c1, c2, c3⟩ := hc
  obtain ⟨hn, P, hp, hd, hm⟩ := hf
  refine ⟨?_, ?_, ?_⟩
  · rw [hp, List.map_append, List.nodup_append]
    refine ⟨c1, hd, ?_⟩
    intro x hx y hy hxy
    subst hxy
    have := c2 x hx
    obtain ⟨m, e, h1, _⟩ := hm x hy
    rw [e] at this; simp only [refOf] at this; omega
  · intro k hk
    rw [hp, List.map_append, List.mem_append] at hk
    rcases hk with h | h
    · have := c2 k h; omega
    · obtain ⟨m, e, _, h2⟩ := hm k h
      rw [e]; exact h2
  · intro src t hmem hr
    rw [ht] at hmem ⊢
    obtain ⟨v, hv, him⟩ := c3 src t hmem hr
    exact ⟨v, by rw [hp, assoc_append, hv], him⟩

/-- a failed `CopyReference` leaves `trans` exactly as it was -/
theorem failed_copy_trans_unchanged {G : Graph} {f : Nat} {s s' : St} {r : Ref} {e : CErr}
    (h : copyRefE f G s r = (.error e, s')) : s'.trans = s.trans := by
  cases f with
  | zero => simp only [copyRefE] at h; cases h; rfl
  | succ f =>
    simp only [copyRefE] at h
    split at h
    · cases h
    · split at h
      · cases h; rfl
      · cases h; rfl
      · cases h
      · split at h
        · cases h; rfl
        · split at h
          · cases h; rfl
          · split at h
            · cases h; rfl
            · cases h

/-- **failed_copy_keeps_consistent.**  A `CopyReference` that fails (unreadable object, crypt
filter the library cannot decode, malformed filter chain, ...) leaves `trans` unchanged; `next`
and the set of objects written only grow; a consistent state stays consistent — in particular
no later call can return a reference to an object that was never written. -/
theorem failed_copy_keeps_consistent {G : Graph} {Rd : List Ref} {f : Nat} {s s' : St} {r : Ref}
    {e : CErr} (hc : Consistent G Rd s) (h : copyRefE f G s r = (.error e, s')) :
    s'.trans = s.trans ∧ s.next ≤ s'.next ∧ Frame s s' ∧ Consistent G Rd s' := by
  have ht := failed_copy_trans_unchanged h
  have hf : Frame s s' := by have := (frame_main G f).2.2.2.2.2.2 s r; rw [h] at this; exact this
  exact ⟨ht, hf.1, hf, frame_consistent hc hf ht⟩

/-- whatever its outcome, `CopyReference` keeps the state consistent -/
theorem copyRefE_consistent {G : Graph} (hL : LinkInv G) {Rd : List Ref} (f : Nat) (s : St) (r : Ref)
    (hc : Consistent G Rd s) : Consistent G Rd (copyRefE f G s r).2 := by
  cases h : copyRefE f G s r with
  | mk x s' =>
    cases x with
    | error e => exact (failed_copy_keeps_consistent hc h).2.2.2
    | ok t => exact copyRef_consistent hL hc ((copyRefE_ok G).mp h)

theorem consistent_weaken {G : Graph} {Rd : List Ref} {s : St} (r : Ref) (hc : Consistent G Rd s) :
    Consistent G (r :: Rd) s := by
  obtain ⟨c1, c2, c3⟩ := hc
  refine ⟨c1, c2, fun src t hm hr => c3 src t hm ?_⟩
  rintro (h | ⟨x, hx, hl⟩)
  · exact hr (Or.inl (List.mem_cons_of_mem _ h))
  · exact hr (Or.inr ⟨x, List.mem_cons_of_mem _ hx, hl⟩)

section
variable (G : Graph) (hLk : LinkInv G) (Rd : List Ref)
include hLk

def CObj (f : Nat) : Prop := ∀ s o, Consistent G Rd s → Consistent G Rd (copyObjE f G s o).2
def CList (f : Nat) : Prop := ∀ s xs, Consistent G Rd s → Consistent G Rd (copyListE f G s xs).2
def CKV (f : Nat) : Prop := ∀ s L, Consistent G Rd s → Consistent G Rd (copyKVE f G s L).2
def CInl (f : Nat) : Prop := ∀ s src res key, Consistent G Rd s → Consistent G Rd (inlineKeyE f G s src res key).2
def CSD (f : Nat) : Prop := ∀ s src, Consistent G Rd s → Consistent G Rd (copyStreamDictE f G s src).2
def CVal (f : Nat) : Prop := ∀ s v, Consistent G Rd s → Consistent G Rd (copyValE f G s v).2

theorem cstep_obj (f : Nat) (hL : CList G Rd f) (hK : CKV G Rd f) : CObj G Rd (f+1) := by
  intro s o hc
  cases o with
  | dict kv =>
    simp only [copyObjE]
    have := hK s (sortedEntries kv) hc
    cases h : copyKVE f G s (sortedEntries kv) with
    | mk r s1 => rw [h] at this; cases r <;> exact this
  | arr xs =>
    simp only [copyObjE]
    have := hL s xs hc
    cases h : copyListE f G s xs with
    | mk r s1 => rw [h] at this; cases r <;> exact this
  | ref n g =>
    simp only [copyObjE]
    have := copyRefE_consistent hLk f s (n, g) hc
    cases h : copyRefE f G s (n, g) with
    | mk r s1 => rw [h] at this; cases r <;> exact this
  | _ => simp only [copyObjE]; exact hc

theorem cstep_list (f : Nat) (hO : CObj G Rd f) (hL : CList G Rd f) : CList G Rd (f+1) := by
  intro s xs hc
  cases xs with
  | nil => simp only [copyListE]; exact hc
  | cons x xs =>
    simp only [copyListE]
    have h1 := hO s x hc
    cases h : copyObjE f G s x with
    | mk r s1 =>
      rw [h] at h1
      cases r with
      | error e => exact h1
      | ok y =>
        simp only
        have h2 := hL s1 xs h1
        cases h' : copyListE f G s1 xs with
        | mk r2 s2 => rw [h'] at h2; cases r2 <;> exact h2

theorem cstep_kv (f : Nat) (hO : CObj G Rd f) (hK : CKV G Rd f) : CKV G Rd (f+1) := by
  intro s L hc
  cases L with
  | nil => simp only [copyKVE]; exact hc
  | cons p rest =>
    obtain ⟨k, v⟩ := p
    by_cases hv : v = .null
    · subst hv
      simp only [copyKVE]
      have := hK s rest hc
      cases h : copyKVE f G s rest with
      | mk r s1 => rw [h] at this; cases r <;> exact this
    · rw [copyKVE_cons_nonnull G f s k v rest hv]
      have h1 := hO s v hc
      cases h : copyObjE f G s v with
      | mk r s1 =>
        rw [h] at h1
        cases r with
        | error e => exact h1
        | ok y =>
          simp only [kvContE]
          have h2 := hK s1 rest h1
          cases h' : copyKVE f G s1 rest with
          | mk r2 s2 => rw [h'] at h2; cases r2 <;> exact h2

theorem cstep_inl (f : Nat) (hO : CObj G Rd f) : CInl G Rd (f+1) := by
  intro s src res key hc
  simp only [inlineKeyE]
  cases hk : kvLookup key src with
  | none => exact hc
  | some val =>
    simp only
    cases hi : inlineFilterRefs G val with
    | error e => exact hc
    | ok w =>
      cases w with
      | stream d dd en => exact hc
      | obj inl =>
        simp only
        have := hO s inl hc
        cases h : copyObjE f G s inl with
        | mk r s1 => rw [h] at this; cases r <;> exact this

theorem cstep_sd (f : Nat) (hK : CKV G Rd f) (hI : CInl G Rd f) : CSD G Rd (f+1) := by
  intro s src hc
  simp only [copyStreamDictE]
  have h1 := hK s (sortedEntries src) hc
  cases h : copyKVE f G s (sortedEntries src) with
  | mk r s1 =>
    rw [h] at h1
    cases r with
    | error e => exact h1
    | ok res1 =>
      simp only
      have h2 := hI s1 src res1 keyFilter h1
      cases h' : inlineKeyE f G s1 src res1 keyFilter with
      | mk r2 s2 =>
        rw [h'] at h2
        cases r2 with
        | error e => exact h2
        | ok res2 => exact hI s2 src res2 keyDecodeParms h2

theorem cstep_val (f : Nat) (hO : CObj G Rd f) (hS : CSD G Rd f) : CVal G Rd (f+1) := by
  intro s v hc
  cases v with
  | obj o =>
    simp only [copyValE]
    have := hO s o hc
    cases h : copyObjE f G s o with
    | mk r s1 => rw [h] at this; cases r <;> exact this
  | stream dict data enc =>
    simp only [copyValE]
    have := hS s dict hc
    cases h : copyStreamDictE f G s dict with
    | mk r s1 =>
      rw [h] at this
      cases r with
      | error e => exact this
      | ok d' =>
        simp only
        cases hr : streamCryptRecipe G dict enc with
        | error e => exact this
        | ok rc => cases rc <;> exact this

/-- every function of the copier keeps a consistent state consistent, whether it fails or not -/
theorem consistent_main : ∀ f : Nat,
    CObj G Rd f ∧ CList G Rd f ∧ CKV G Rd f ∧ CInl G Rd f ∧ CSD G Rd f ∧ CVal G Rd f := by
  intro f
  induction f with
  | zero =>
    refine ⟨?_, ?_, ?_, ?_, ?_, ?_⟩
    · intro s o hc; simp only [copyObjE]; exact hc
    · intro s o hc; simp only [copyListE]; exact hc
    · intro s o hc; simp only [copyKVE]; exact hc
    · intro s a b c hc; simp only [inlineKeyE]; exact hc
    · intro s o hc; simp only [copyStreamDictE]; exact hc
    · intro s o hc; simp only [copyValE]; exact hc
  | succ f ih =>
    obtain ⟨hO, hL, hK, hI, hS, hV⟩ := ih
    exact ⟨cstep_obj G hLk Rd f hL hK, cstep_list G hLk Rd f hO hL, cstep_kv G hLk Rd f hO hK, cstep_inl G hLk Rd f hO,
      cstep_sd G hLk Rd f hK hI, cstep_val G hLk Rd f hO hS⟩

end


/-! ### programs that go on after a failed call -/

theorem allocPutE_consistent {G : Graph} {Rd : List Ref} (s : St) (v : Val) (hc : Consistent G Rd s) :
    Consistent G Rd (allocPutE s v).2 ∧ (allocPutE s v).2.trans = s.trans := by
  unfold allocPutE
  cases ha : alloc s with
  | error e => exact ⟨hc, rfl⟩
  | ok p =>
    obtain ⟨n, s1⟩ := p
    obtain ⟨hn, hs1⟩ := alloc_ok ha
    subst hn; subst hs1
    simp only
    have hc1 : Consistent G Rd { s with next := s.next + 1 } := by
      obtain ⟨c1, c2, c3⟩ := hc
      exact ⟨c1, fun k hk => by have := c2 k hk; simp only; omega, c3⟩
    cases hp : put { s with next := s.next + 1 } (refOf s.next) v with
    | error e => exact ⟨hc1, rfl⟩
    | ok s2 =>
      have hap : allocPut s v = .ok (refOf s.next, s2) := by
        unfold allocPut; rw [ha]; simp only; rw [hp]
      exact ⟨allocPut_consistent hc hap, (allocPut_ok hap).2.1⟩

theorem stepOpE_consistent {G : Graph} (hL : LinkInv G) {fuel : Nat} {Rd : List Ref} (s : St)
    (roots : List (Except CErr Ref)) (op : Op) (hc : Consistent G Rd s)
    (hfresh : ∀ r ∈ opRedirect op, assoc r s.trans = none) :
    Consistent G (opRedirect op ++ Rd) (stepOpE fuel G s roots op).2 := by
  cases op with
  | copyRef r =>
    simp only [stepOpE, opRedirect, List.nil_append]
    exact copyRefE_consistent hL fuel s r hc
  | copyGet r =>
    simp only [stepOpE, opRedirect, List.nil_append]
    cases hg : CPY.get G r true with
    | error e => exact hc
    | ok v =>
      simp only
      have h1 := (consistent_main G hL Rd fuel).2.2.2.2.2 s v hc
      cases h : copyValE fuel G s v with
      | mk x s1 =>
        rw [h] at h1
        cases x with
        | error e => exact h1
        | ok v' => exact (allocPutE_consistent s1 v' h1).1
  | copyObj o =>
    simp only [stepOpE, opRedirect, List.nil_append]
    have h1 := (consistent_main G hL Rd fuel).1 s o hc
    cases h : copyObjE fuel G s o with
    | mk x s1 =>
      rw [h] at h1
      cases x with
      | error e => exact h1
      | ok o' => exact (allocPutE_consistent s1 (.obj o') h1).1
  | redirectNew r m =>
    simp only [stepOpE, opRedirect, List.cons_append, List.nil_append]
    have h1 := allocPutE_consistent (G := G) (Rd := Rd) s (.obj m) hc
    cases h : allocPutE s (.obj m) with
    | mk x s1 =>
      rw [h] at h1
      cases x with
      | error e =>
        exact consistent_weaken r h1.1
      | ok n =>
        exact redirect_consistent h1.1 r n (by rw [h1.2]; exact hfresh r (by simp [opRedirect]))
  | redirectTo r k =>
    simp only [stepOpE, opRedirect, List.cons_append, List.nil_append]
    have weaken : Consistent G (r :: Rd) s := consistent_weaken r hc
    split
    · next t ht => exact redirect_consistent hc r t (hfresh r (by simp [opRedirect]))
    · exact weaken

/-- every `Redirect` of the run is applied to a source reference that is not translated -/
def RedirectsFreshE (fuel : Nat) (G : Graph) : St → List (Except CErr Ref) → List Op → Prop
  | _, _, [] => True
  | s, roots, op :: ops =>
    (∀ r ∈ opRedirect op, assoc r s.trans = none) ∧
    RedirectsFreshE fuel G (stepOpE fuel G s roots op).2 (roots ++ [(stepOpE fuel G s roots op).1]) ops

/-- **runE_consistent.**  A whole program of Copy / CopyReference / (fresh) Redirect calls on a
new Copier — in which any number of calls may *fail* and the caller just goes on — ends in a
consistent state: whatever is translated (and was not redirected by the caller) has been written
and is the image of its source. -/
theorem runE_consistent {G : Graph} (hL : LinkInv G) {fuel : Nat} :
    ∀ (ops : List Op) (Rd : List Ref) (s : St) (roots : List (Except CErr Ref)),
      Consistent G Rd s → RedirectsFreshE fuel G s roots ops →
      Consistent G (redirectsOf ops ++ Rd) (runOpsE fuel G s roots ops).2
  | [], Rd, s, roots, hc, _ => by simpa [runOpsE, redirectsOf] using hc
  | op :: ops, Rd, s, roots, hc, hf => by
    simp only [RedirectsFreshE] at hf
    have hc1 := stepOpE_consistent hL (fuel := fuel) s roots op hc hf.1
    have := runE_consistent hL ops _ _ _ hc1 hf.2
    simp only [runOpsE]
    simpa [redirectsOf, List.append_assoc] using this

/-! ### the driver's fuel suffices for these functions too -/

theorem toPlain_fuel {α : Type} {x : Except CErr α × St} (h : x.1 = .error .fuel) :
    toPlain x = .error .fuel := by
  obtain ⟨a, s⟩ := x
  simp only at h
  subst h
  rfl

theorem allocPutE_ne_fuel (s : St) (v : Val) : (allocPutE s v).1 ≠ .error .fuel := by
  unfold allocPutE
  cases ha : alloc s with
  | error e => intro h; simp only at h; cases h; exact alloc_ne_fuel s ha
  | ok p =>
    obtain ⟨n, s1⟩ := p
    simp only
    cases hp : put s1 n v with
    | error e => intro h; simp only at h; cases h; exact put_ne_fuel _ _ _ hp
    | ok s2 => simp

theorem stepOpE_no_fuel (G : Graph) (ops : List Op) (s : St) (roots : List (Except CErr Ref)) (op : Op)
    (hop : op ∈ ops) : (stepOpE (fuelFor G ops) G s roots op).1 ≠ .error .fuel := by
  have hmain := no_fuel_main G (allRefs G ops) (maxWeight G ops) (closed_allRefs G ops) (fuelFor G ops)
  have hag := agree_main G (fuelFor G ops)
  have hu := unv_le_length (allRefs G ops) s.trans
  have hmul : unv (allRefs G ops) s.trans * (maxWeight G ops + 6) ≤
      (allRefs G ops).length * (maxWeight G ops + 6) := Nat.mul_le_mul_right _ hu
  have hfuel : fuelFor G ops = (allRefs G ops).length * (maxWeight G ops + 6) + 2 * (maxWeight G ops + 6) := by
    unfold fuelFor; rw [Nat.add_mul]
  cases op with
  | copyRef r =>
    simp only [stepOpE]
    intro h
    have := hmain.2.2.2.2.2.2 s r (opRefs_mem hop r (by simp [opRefs])) (by omega)
    exact this (by rw [← hag.2.2.2.2.2.2 s r]; exact toPlain_fuel h)
  | copyGet r =>
    simp only [stepOpE]
    cases hg : CPY.get G r true with
    | error e => intro h; simp only at h; cases h; exact get_ne_fuel G r true hg
    | ok v =>
      simp only
      have := hmain.2.2.2.2.2.1 s v (goodVal_of_mem (get_mem hg)) (by omega)
      cases h : copyValE (fuelFor G ops) G s v with
      | mk x s1 =>
        cases x with
        | error e =>
          intro h'; simp only at h'; cases h'
          exact this (by rw [← hag.2.2.2.2.2.1 s v, h]; rfl)
        | ok v' => exact allocPutE_ne_fuel _ _
  | copyObj o =>
    simp only [stepOpE]
    have hw := opWeight_le (G := G) hop
    simp only [opWeight] at hw
    have := hmain.1 s o (fun b hb => opRefs_mem hop b (by simpa [opRefs] using hb)) (by omega)
    cases h : copyObjE (fuelFor G ops) G s o with
    | mk x s1 =>
      cases x with
      | error e =>
        intro h'; simp only at h'; cases h'
        exact this (by rw [← hag.1 s o, h]; rfl)
      | ok o' => exact allocPutE_ne_fuel _ _
  | redirectNew r m =>
    simp only [stepOpE]
    have := allocPutE_ne_fuel s (.obj m)
    cases h : allocPutE s (.obj m) with
    | mk x s1 =>
      rw [h] at this
      cases x with
      | error e => exact this
      | ok n => simp
  | redirectTo r k =>
    simp only [stepOpE]
    split <;> simp

/-- **fuel_suffices (driver).**  In the run the driver performs — `runOpsE` with `fuelFor` —
no call ever reports that the budget is exhausted. -/
theorem fuel_suffices_E (G : Graph) (ops : List Op) (s : St) (roots : List (Except CErr Ref))
    (hr : ∀ x ∈ roots, x ≠ .error .fuel) :
    ∀ x ∈ (runOpsE (fuelFor G ops) G s roots ops).1, x ≠ .error .fuel := by
  suffices h : ∀ (rest : List Op), (∀ op ∈ rest, op ∈ ops) → ∀ (s : St) (roots : List (Except CErr Ref)),
      (∀ x ∈ roots, x ≠ .error .fuel) →
      ∀ x ∈ (runOpsE (fuelFor G ops) G s roots rest).1, x ≠ .error .fuel from h ops (fun _ h => h) s roots hr
  intro rest
  induction rest with
  | nil => intro _ s roots hr; simpa [runOpsE] using hr
  | cons op rest ih =>
    intro hsub s roots hr
    simp only [runOpsE]
    apply ih (fun o ho => hsub o (List.mem_cons_of_mem _ ho))
    intro x hx
    rcases List.mem_append.mp hx with h | h
    · exact hr x h
    · simp only [List.mem_singleton] at h
      subst h
      exact stepOpE_no_fuel G ops s roots op (hsub op List.mem_cons_self)


/-! ### the witness of D19/D19b: a failure inside a cycle -/

/-- 3 → {A: 2, X: 4}, 2 → {P: 3} (a cycle), 4 cannot be read -/
def G1 : Graph :=
  [ ((2, 0), ⟨.val (.obj (.dict [([80], .ref 3 0)])), false⟩),
    ((3, 0), ⟨.val (.obj (.dict [([65], .ref 2 0), ([88], .ref 4 0)])), false⟩),
    ((4, 0), ⟨.ioErr, false⟩) ]

def errOf {α : Type} : Except CErr α → Option CErr
  | .error e => some e
  | .ok _ => none

/-- `CopyReference(3)` fails with the read error of 4 *after* object 2 has been copied and written
    (as number 3, referring to the number 2 allocated for 3, which is never written).  The state
    left behind has an empty `trans` again (before fix bdb0240 it kept `2 ↦ 3`), two numbers are
    used up, one unreachable object is in the file — and the second attempt fails the same way
    instead of answering with a stale reference. -/
example :
    let r1 := copyRefE 20 G1 (St.init 2) (3, 0)
    let r2 := copyRefE 20 G1 r1.2 (2, 0)
    errOf r1.1 = some .read ∧ r1.2.trans = [] ∧ r1.2.next = 4 ∧ r1.2.puts.map Prod.fst = [(3, 0)] ∧
    errOf r2.1 = some .read ∧ r2.2.trans = [] ∧ r2.2.next = 6 := by
  decide +kernel

/-! ### a copy the target cannot represent fails cleanly (5f1fc4f)

`Writer.Put` refuses a stream whose dictionary starts its /Filter with /Crypt when the target is
encrypted with /V < 4 (crypt filters do not exist there), and every non-Identity /Crypt filter.
Whether it does is a property of the source stream (`C11cpyb.putRefusal_map`).  For
`CopyReference` the refusal is one more failing call: `failed_copy_keeps_consistent` and
`failed_copy_trans_unchanged` above hold for every error, so the translation table is rolled
back.  Where the caller writes the result of `Copy` itself (`Op.copyGet`, `Op.copyObj`) there is
nothing to roll back — the objects nested in the value have been copied and written completely,
the value itself never had a source reference — and `stepOpE_consistent` shows that the state stays
consistent whatever the outcome of the operation. -/

/-- a stream whose (direct) dictionary starts /Filter with a well-formed /Crypt entry is refused
    by a target encrypted with /V 1, 2 or 3, whatever the crypt filter's name -/
theorem put_refuses_crypt_below_V4 {s : St} {r : Ref} {d : KV} {data : Bytes} {enc : Bool} {k : FKind}
    (hv : s.tgtV ≠ 0 ∧ s.tgtV < 4) (hk : dictCryptKind d = .ok (some k)) :
    put s r (.stream d data enc) = .error .other := by
  unfold put
  split
  · rfl
  · simp only [putRefusal, hk]
    cases k <;> simp [hv]

/-- a non-Identity /Crypt filter is refused by every target -/
theorem put_refuses_named_crypt {s : St} {r : Ref} {d : KV} {data : Bytes} {enc : Bool}
    (hk : dictCryptKind d = .ok (some .cryptCF)) :
    put s r (.stream d data enc) = .error .other := by
  unfold put
  split
  · rfl
  · simp only [putRefusal, hk]

/-- where the target has crypt filters or is not encrypted, an Identity /Crypt filter (and a
    stream without /Crypt filter, for every target) is taken -/
theorem put_takes {s : St} {r : Ref} {d : KV} {data : Bytes} {enc : Bool}
    (hfree : s.puts.any (fun p => p.1.1 == r.1) = false)
    (hk : dictCryptKind d = .ok none ∨ (dictCryptKind d = .ok (some .cryptId) ∧ (s.tgtV = 0 ∨ 4 ≤ s.tgtV))) :
    ∃ s', put s r (.stream d data enc) = .ok s' := by
  unfold put
  rw [hfree]
  rcases hk with hk | ⟨hk, hv⟩
  · simp [putRefusal, hk]
  · have : ¬ (s.tgtV ≠ 0 ∧ s.tgtV < 4) := by omega
    simp [putRefusal, hk, this]

/-- 2 → {S: 3, T: 4}, 4 → {}; 3 is a stream /Filter [/Crypt /FlateDecode] with /DecodeParms
    [<< /Name /Identity >> null] -/
def G2 : Graph :=
  [ ((2, 0), ⟨.val (.obj (.dict [([83], .ref 3 0), ([84], .ref 4 0)])), false⟩),
    ((3, 0), ⟨.val (.stream [(keyFilter, .arr [.name nameCrypt, .name [70, 108, 97, 116, 101, 68, 101, 99, 111, 100, 101]]),
                              (keyDecodeParms, .arr [.dict [(keyName, .name nameIdentity)], .null])] [1, 2, 3] false), false⟩),
    ((4, 0), ⟨.val (.obj (.dict [])), false⟩) ]

/-- Into a target encrypted with /V 2, `CopyReference(2)` fails with the refusal of the stream
    (class "other"), `trans` is empty again, the two numbers allocated are used up and nothing
    has been written; `CopyReference(4)` afterwards works.  Into an unencrypted target and into
    one with /V 4 the same call succeeds and writes the three objects. -/
example :
    let r1 := copyRefE 30 G2 (St.init 2 2) (2, 0)
    let r2 := copyRefE 30 G2 r1.2 (4, 0)
    errOf r1.1 = some .other ∧ r1.2.trans = [] ∧ r1.2.next = 4 ∧ r1.2.puts = [] ∧
    errOf r2.1 = none ∧ r2.2.trans.map Prod.fst = [(4, 0)] ∧ r2.2.puts.map Prod.fst = [(4, 0)] ∧
    errOf (copyRefE 30 G2 (St.init 2 0) (2, 0)).1 = none ∧
    (copyRefE 30 G2 (St.init 2 4) (2, 0)).2.puts.map Prod.fst = [(3, 0), (4, 0), (2, 0)] := by
  decide +kernel

/-- the caller's own `Put` of the copied stream (`v := Get(3); o := Copy(v); Put(Alloc(), o)`)
    is refused by the same target: the operation fails, one number is used up, `trans` is as
    before (the stream refers to no other object) -/
example :
    let r := stepOpE 30 G2 (St.init 2 2) [] (.copyGet (3, 0))
    errOf r.1 = some .other ∧ r.2.trans = [] ∧ r.2.next = 3 ∧ r.2.puts = [] := by
  decide +kernel

end PdfVerif.C11cpyd

import PdfVerif.Lemmas.C04ParB
import PdfVerif.Lemmas.C01Canon
/-!
# C04 — `parse_any_rendering`: every conforming serialisation of a value is read as that value

`Spec/C04Renders.lean` defines, from ISO 32000-2 §7.2–7.3 and independently of go-pdf's formatter,
the relation `Renders L o bs` ("`bs` is a specification-conforming way of writing `o`"): any white
space and comments between tokens (required only between two regular-character tokens), every
spelling of numbers, names, literal and hexadecimal strings of the lexical theorems
(`Props/C04hisc.lean`), arrays, dictionaries with their entries in any order, references `n g R`.

`parse_any_rendering` says that the scanner model reads every such `bs` as exactly `o`, for every
value within the caps that `ReadObject` guarantees for its results (`capsOK`, `Props/C01h.lean`),
with distinct dictionary keys, nested at most `maxScannerNestDepth` deep.  The proof is a mutual
structural recursion over the derivations of `Renders` / `RendersSeq` / `RendersKV`; it reuses the
loop lemmas of the C01 round trip (`Lemmas/C01Arr.lean`, `C01Dict.lean`: one iteration of
`ReadArray` / `ReadDict`, the `a b R` detection, the reference look-ahead behind an integer value).
-/
namespace PdfVerif.C04par
open PdfVerif PdfVerif.C01L PdfVerif.C04L
open PdfVerif.Spec.Renders

mutual
theorem rb_all : ∀ {o : Obj} {bs : Bytes}, Renders Gen.scanner_maxNameBytes o bs → RB o bs
  | _, _, .null => rb_null
  | _, _, .tru => rb_true
  | _, _, .fls => rb_false
  | _, _, .int i s h l => rb_int i s h l
  | _, _, .real t h l => rb_real t h l
  | _, _, .name v s h => rb_name v s h
  | _, _, .strLit v s h => rb_lit v s h
  | _, _, .strHex v s h => rb_hex v s h
  | _, _, .ref n g _ _ _ _ _ _ _ _ _ _ _ _ => rb_ref n g _
  | _, _, .arr _ _ h => rb_arr (seq_all h)
  | _, _, .dict _ _ h => rb_dict h (kv_all h)
theorem seq_all : ∀ {p : Bool} {xs : List Obj} {body : Bytes},
    RendersSeq Gen.scanner_maxNameBytes p xs body → SeqRB xs body
  | _, _, _, .nil _ w hw => seqRB_nil w hw
  | _, _, _, .cons _ _ _ _ _ _ hw hx _ ht => seqRB_cons hw hx (rb_all hx) ht (seq_all ht)
theorem kv_all : ∀ {kv : List (Bytes × Obj)} {body : Bytes},
    RendersKV Gen.scanner_maxNameBytes kv body → KVRB kv body
  | _, _, .nil w hw => kvRB_nil w hw
  | _, _, .cons _ _ _ _ _ _ _ _ hw hk hw1 hv hsep ht => kvRB_cons hw hk hw1 hv (rb_all hv) hsep ht (kv_all ht)
end

/-- the hypotheses about the value: within the caps the scanner enforces on everything it returns
    (`capsOK`: int64 integers, number tokens and names ≤ `maxNameBytes`, strings ≤ `maxStringBytes`,
    arrays ≤ `maxArrayLen`, dictionaries ≤ `maxDictLen`, references below `maxXRefSize` /
    `maxGeneration`), distinct keys in every dictionary, nesting ≤ `maxScannerNestDepth` -/
def Fits (o : Obj) : Prop :=
  capsOK o = true ∧ uniqueKeys o = true ∧ depthOf o ≤ Gen.scanner_maxScannerNestDepth

/-- **`parse_any_rendering`.**  Let `bs` be any specification-conforming serialisation of the
value `o` (`Renders`, number tokens at most `maxNameBytes` long), `o` within the caps, with
distinct dictionary keys and nesting ≤ `maxScannerNestDepth`, and not a bare reference (`n g R`
is a reference only inside an array or dictionary and in `ReadIndirectObject`).  Let `rest` be
whatever follows: it must end the last token if `o` is written with regular characters
(`EndsToken`), and behind a dictionary it must not show the keyword `stream` after white space
(that would make the dictionary a stream).  Then a fresh scanner's `ReadObject` returns exactly
`o` and stops at `rest` — behind a dictionary at `rest` with its leading white space and comments
skipped, which `ReadObject` consumes while looking for `stream`. -/
theorem parse_any_rendering (o : Obj) (bs : Bytes) (hr : Renders Gen.scanner_maxNameBytes o bs)
    (hf : Fits o) (hnr : isRefObj o = false) (rest : Bytes)
    (hend : selfDelimited o = false → EndsToken rest) (hns : isDictObj o = true → NoStream rest) :
    parseObject (bs ++ rest) = .ok (o, restAfter o rest) := by
  obtain ⟨hc, hu, hd⟩ := hf
  exact rb_all hr hc hu hnr 0 (by omega) rest hend hns (scanFuel (bs ++ rest)) (by simp [scanFuel])

/-- the property's wording: the value read is equal to `o` under the comparison form `nrm` (nil
    dictionary entries — written `null` — count as absent, dictionaries as key-sorted lists) -/
theorem parse_any_rendering_nrm (o : Obj) (bs : Bytes) (hr : Renders Gen.scanner_maxNameBytes o bs)
    (hf : Fits o) (hnr : isRefObj o = false) (rest : Bytes)
    (hend : selfDelimited o = false → EndsToken rest) (hns : isDictObj o = true → NoStream rest) :
    ∃ r rest', parseObject (bs ++ rest) = .ok (r, rest') ∧ nrm r = nrm o ∧ skipWS rest' = skipWS rest :=
  ⟨o, restAfter o rest, parse_any_rendering o bs hr hf hnr rest hend hns, rfl, skip_restAfter o rest⟩

/-- the same at any nesting depth and with any sufficient fuel (what `ReadObject` does inside
    `ReadIndirectObject`, object streams, …) -/
theorem read_any_rendering (o : Obj) (bs : Bytes) (hr : Renders Gen.scanner_maxNameBytes o bs)
    (hc : capsOK o = true) (hu : uniqueKeys o = true) (hnr : isRefObj o = false)
    (d : Nat) (hd : d + depthOf o ≤ Gen.scanner_maxScannerNestDepth) (rest : Bytes)
    (hend : selfDelimited o = false → EndsToken rest) (hns : isDictObj o = true → NoStream rest)
    (fuel : Nat) (hfuel : fuel ≥ 3 * (bs ++ rest).length + 3) :
    readObject fuel d (bs ++ rest) = .ok (o, restAfter o rest) :=
  rb_all hr hc hu hnr d hd rest hend hns fuel hfuel

/-- references are read inside arrays: any conforming spelling of `[ n g R ]` -/
theorem ref_in_array_any (n g : Nat) (bs : Bytes) (hr : Renders Gen.scanner_maxNameBytes (.arr [.ref n g]) bs)
    (hn : n < Gen.xref_maxXRefSize) (hg : g ≤ Gen.xref_maxGeneration) (rest : Bytes) :
    parseObject (bs ++ rest) = .ok (.arr [.ref n g], rest) := by
  have h1 : 1 ≤ Gen.scanner_maxArrayLen := by decide
  have h2 : 1 ≤ Gen.scanner_maxScannerNestDepth := by decide
  have := parse_any_rendering _ bs hr
    ⟨by simp [capsOK, capsList, hn, hg]; exact h1, by simp [uniqueKeys, uniqueKeysList], by simp [depthOf, depthList]; exact h2⟩
    rfl rest (by simp [selfDelimited]) (by simp [isDictObj])
  simpa [restAfter, isDictObj] using this

/-! non-vacuity: `<</A[1 2 0 R(x)]%c` LF `/B<4 1>/C/D>>` with a comment, no white space where none
is needed, a reference inside an array, a hex string with white space -/
def sampleObj : Obj :=
  .dict [([65], .arr [.int 1, .ref 2 0, .str [120]]), ([66], .str [65]), ([67], .name [68])]

def sampleBytes : Bytes :=
  [60, 60, 47, 65, 91, 49, 32, 50, 32, 48, 32, 82, 40, 120, 41, 93, 37, 99, 10,
   47, 66, 60, 52, 32, 49, 62, 47, 67, 47, 68, 62, 62]

example : Renders Gen.scanner_maxNameBytes sampleObj sampleBytes := by
  have n1 : Spec.Grammar.NameR [65] [65] := .plain 65 _ _ (by decide) (by decide) (by decide) .nil
  have n2 : Spec.Grammar.NameR [66] [66] := .plain 66 _ _ (by decide) (by decide) (by decide) .nil
  have n3 : Spec.Grammar.NameR [67] [67] := .plain 67 _ _ (by decide) (by decide) (by decide) .nil
  have n4 : Spec.Grammar.NameR [68] [68] := .plain 68 _ _ (by decide) (by decide) (by decide) .nil
  have i1 : Spec.Grammar.IntR 1 [49] := .unsigned [49] (by decide) (by decide)
  have i2 : Spec.Grammar.IntR ((2 : Nat) : Int) [50] := .unsigned [50] (by decide) (by decide)
  have i0 : Spec.Grammar.IntR ((0 : Nat) : Int) [48] := .unsigned [48] (by decide) (by decide)
  have sp : Spec.Grammar.WsR [32] := .white 32 _ (by decide) .nil
  have cap : (1 : Nat) ≤ Gen.scanner_maxNameBytes := by decide
  have sx : Spec.Grammar.StrR 1 [120] [120] := .plain 1 120 _ _ (by decide) (by decide) (by decide) (by decide) (by decide) .done
  have hx : Spec.Grammar.HexR none [65] [52, 32, 49] :=
    .hi 52 4 _ _ (by decide) (.white _ 32 _ _ (by decide) (.lo 49 1 4 _ _ (by decide) .doneEven))
  -- the array [1 2 0 R(x)]
  have arr : Renders Gen.scanner_maxNameBytes (.arr [.int 1, .ref 2 0, .str [120]])
      (91 :: ([49, 32, 50, 32, 48, 32, 82, 40, 120, 41] ++ [93])) := by
    refine .arr _ _ ?_
    exact .cons true [] [49] _ (.int 1) _ .nil (.int 1 [49] i1 cap) (fun _ => .inl rfl)
      (.cons false [32] ([50] ++ [32] ++ [48] ++ [32] ++ [82]) _ (.ref 2 0) _ sp
        (.ref 2 0 [50] [32] [48] [32] i2 cap sp (by simp) i0 cap sp (by simp)) (fun h => by simp at h)
        (.cons false [] (40 :: ([120] ++ [41])) [] (.str [120]) [] .nil (.strLit [120] [120] sx) (fun _ => .inr rfl)
          (.nil true [] .nil)))
  have kv : RendersKV Gen.scanner_maxNameBytes
      [([65], .arr [.int 1, .ref 2 0, .str [120]]), ([66], .str [65]), ([67], .name [68])]
      ([] ++ 47 :: [65] ++ [] ++ (91 :: ([49, 32, 50, 32, 48, 32, 82, 40, 120, 41] ++ [93])) ++
        ([37, 99, 10] ++ 47 :: [66] ++ [] ++ (60 :: ([52, 32, 49] ++ [62])) ++
          ([] ++ 47 :: [67] ++ [] ++ (47 :: [68]) ++ []))) :=
    .cons [] [65] [] _ _ [65] _ _ .nil n1 .nil arr (fun _ => rfl)
      (.cons [37, 99, 10] [66] [] (60 :: ([52, 32, 49] ++ [62])) _ [66] (.str [65]) _
        (.comment [99] 10 [] (by decide) (by decide) .nil) n2 .nil (.strHex [65] _ hx) (fun _ => rfl)
        (.cons [] [67] [] (47 :: [68]) [] [67] (.name [68]) [] .nil n3 .nil (.name [68] [68] n4) (fun _ => rfl)
          (.nil [] .nil)))
  exact Renders.dict _ _ kv

example : Fits sampleObj ∧ isRefObj sampleObj = false := by
  refine ⟨⟨by decide +kernel, by decide +kernel, by decide +kernel⟩, rfl⟩

example : (match parseObject (sampleBytes ++ [32, 120]) with
    | .ok (o, r) => o.wire == sampleObj.wire && r == [120] | _ => false) = true := by decide +kernel

end PdfVerif.C04par

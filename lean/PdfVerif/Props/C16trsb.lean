import PdfVerif.Props.C16trs
import PdfVerif.Lemmas.TRSDepth
/-!
# C16 (second part) — the depth invariant of `tail`: the internal panics are unreachable

`mergeNodes` panics when it is asked to merge fewer than 2 or more than `maxDegree` nodes, the
loops index `tail` at computed positions, and `checkInvariants` panics on a depth sequence that
is not weakly decreasing or has more than `maxDegree` nodes of one depth.  The theorems here
show, on the model, that none of this can happen: every `tail` satisfies `TailInv` (depths
weakly decrease, fewer than `maxDegree` nodes per depth) between operations, and the loops keep
the weaker `Inv1` (a run of `maxDegree` equal depths at most at the very end) while they run.
-/
namespace PdfVerif.C16trsb
open PdfVerif PdfVerif.TRSP PdfVerif.TRSDepth PdfVerif.C16trs
set_option linter.unusedSectionVars false

/-- the depth sequence of a `tail` -/
def ds (t : List PNode) : List Nat := t.map (·.depth)

theorem ds_length (t : List PNode) : (ds t).length = t.length := by simp [ds]

theorem ds_getElem_opt (t : List PNode) (i : Nat) : (ds t)[i]? = t[i]?.map (·.depth) := by
  simp [ds]

theorem maxDepthOf_le (x : Nat) : ∀ cs : List PNode, (∀ n ∈ cs, n.depth ≤ x) → maxDepthOf cs ≤ x
  | [], _ => by simp [maxDepthOf]
  | c :: cs, h => by
    simp only [maxDepthOf]
    have h1 := h c (by simp)
    have h2 := maxDepthOf_le x cs (fun n hn => h n (by simp [hn]))
    omega

theorem maxDepthOf_ge_head (c : PNode) (cs : List PNode) : c.depth ≤ maxDepthOf (c :: cs) := by
  simp only [maxDepthOf]; omega

/-- on a weakly decreasing tail the deepest node of a range is its first -/
theorem maxDepthOf_range {nodes : List PNode} (hd : Desc (ds nodes)) {a b : Nat} (h1 : a < b)
    (h3 : b ≤ nodes.length) :
    ∃ n, nodes[a]? = some n ∧ maxDepthOf ((nodes.drop a).take (b - a)) = n.depth := by
  have ha : a < nodes.length := by omega
  refine ⟨nodes[a], by simp [ha], ?_⟩
  have hsplit : (nodes.drop a).take (b - a) = nodes[a] :: ((nodes.drop (a + 1)).take (b - a - 1)) := by
    rw [List.drop_eq_getElem_cons ha]
    have : b - a = (b - a - 1) + 1 := by omega
    rw [this, List.take_succ_cons]
    simp
  rw [hsplit]
  apply Nat.le_antisymm
  · apply maxDepthOf_le
    intro n hn
    simp only [List.mem_cons] at hn
    rcases hn with rfl | hn
    · exact Nat.le_refl _
    · obtain ⟨i, hi⟩ := List.mem_iff_getElem?.mp hn
      rw [List.getElem?_take] at hi
      split at hi
      · rw [List.getElem?_drop] at hi
        exact hd a (a + 1 + i) nodes[a].depth n.depth (by omega)
          (by rw [ds_getElem_opt]; simp [ha]) (by rw [ds_getElem_opt, hi]; rfl)
      · cases hi
  · exact maxDepthOf_ge_head _ _

/-- **mergeNodes never panics on a valid range** of a weakly decreasing tail, and this is
    what it does to the depth sequence -/
theorem mergeNodes_depths {nodes : List PNode} (hd : Desc (ds nodes)) {a b : Nat} (c : MCtx)
    (h1 : a + 2 ≤ b) (h2 : b ≤ a + maxDegree) (h3 : b ≤ nodes.length) :
    ∃ nodes' c' x, mergeNodes nodes a b c = .ok (nodes', c') ∧ (ds nodes)[a]? = some x ∧
      ds nodes' = (ds nodes).take a ++ (x + 1) :: (ds nodes).drop b := by
  obtain ⟨n, hn, hmax⟩ := maxDepthOf_range hd (show a < b by omega) h3
  have hcond : ¬ (b > nodes.length ∨ b < a + 2 ∨ b > a + maxDegree) := by omega
  unfold mergeNodes
  simp only [hcond, if_false]
  refine ⟨_, _, n.depth, rfl, by rw [ds_getElem_opt, hn]; rfl, ?_⟩
  simp only [ds, List.map_append, List.map_cons, List.map_take, List.map_drop, hmax]

/-! ## the loop invariant of AppendPage, collapse and the first loop of merge -/

/-- position `m` starts a run: the node before it (if any) has a different depth -/
def Bnd (a : List PNode) (m : Nat) : Prop :=
  m = 0 ∨ ∃ x y, a[m - 1]? = some x ∧ a[m]? = some y ∧ x.depth ≠ y.depth

/-- `advanceStart` finds the first run start at or after `start` -/
theorem advanceStart_spec (a : List PNode) : ∀ (fuel start : Nat), start < a.length →
    fuel + start ≥ a.length + 1 → (∃ m, start ≤ m ∧ m < a.length ∧ Bnd a m) →
    ∃ e, advanceStart a fuel start = .ok e ∧ start ≤ e ∧ e < a.length ∧ Bnd a e ∧
      ∀ m, start ≤ m → m < e → ¬ Bnd a m
  | 0, start, hs, hf, _ => by omega
  | fuel + 1, start, hs, hf, hex => by
    unfold advanceStart
    by_cases h0 : start = 0
    · subst h0
      exact ⟨0, by simp, Nat.le_refl _, hs, .inl rfl, fun m h1 h2 => by omega⟩
    · simp only [h0, if_false]
      have h1 : start - 1 < a.length := by omega
      rw [List.getElem?_eq_getElem h1, List.getElem?_eq_getElem hs]
      simp only
      by_cases heq : a[start - 1].depth = a[start].depth
      · simp only [heq, beq_self_eq_true, if_true]
        have hnb : ¬ Bnd a start := by
          intro hb
          rcases hb with hb | ⟨x, y, hx, hy, hne⟩
          · exact h0 hb
          · rw [List.getElem?_eq_getElem h1] at hx
            rw [List.getElem?_eq_getElem hs] at hy
            cases hx; cases hy
            exact hne heq
        obtain ⟨m, hm1, hm2, hm3⟩ := hex
        have hm4 : start + 1 ≤ m := by
          rcases Nat.lt_or_ge start m with h | h
          · exact h
          · have : m = start := by omega
            subst this; exact absurd hm3 hnb
        obtain ⟨e, he1, he2, he3, he4, he5⟩ := advanceStart_spec a fuel (start + 1) (by omega) (by omega)
          ⟨m, hm4, hm2, hm3⟩
        refine ⟨e, he1, by omega, he3, he4, ?_⟩
        intro m' h1' h2'
        by_cases hms : m' = start
        · subst hms; exact hnb
        · exact he5 m' (by omega) h2'
      · have : (a[start - 1].depth == a[start].depth) = false := by simpa using heq
        simp only [this, Bool.false_eq_true, if_false]
        refine ⟨start, rfl, Nat.le_refl _, hs, .inr ⟨_, _, ?_, ?_, heq⟩, fun m h1 h2 => by omega⟩
        · rw [List.getElem?_eq_getElem h1]
        · rw [List.getElem?_eq_getElem hs]

/-- where no run starts, the depth stays the same -/
theorem chain_eq (a : List PNode) (s : Nat) : ∀ (k : Nat), 1 ≤ s → s + k ≤ a.length →
    (∀ m, s ≤ m → m < s + k → ¬ Bnd a m) → (ds a)[s + k - 1]? = (ds a)[s - 1]?
  | 0, _, _, _ => by simp
  | k + 1, hs, hk, hno => by
    have ih := chain_eq a s k hs (by omega) (fun m h1 h2 => hno m h1 (by omega))
    rw [← ih]
    have hnb := hno (s + k) (by omega) (by omega)
    have h1 : s + k - 1 < a.length := by omega
    have h2 : s + k < a.length := by omega
    have : a[s + k - 1].depth = a[s + k].depth := by
      apply Classical.byContradiction
      intro hne
      apply hnb
      exact .inr ⟨_, _, by rw [List.getElem?_eq_getElem h1], by rw [List.getElem?_eq_getElem h2], hne⟩
    rw [ds_getElem_opt, ds_getElem_opt]
    rw [show s + (k + 1) - 1 = s + k by omega, List.getElem?_eq_getElem h1, List.getElem?_eq_getElem h2]
    simp [this]

/-- loop invariant: depths weakly decrease, and `maxDegree` equal depths in a row occur at most
    at the very end of the tail -/
def Inv1 (a : List PNode) : Prop := Desc (ds a) ∧ WinIn maxDegree (ds a)

/-- invariant of every `tail` between operations: depths weakly decrease and there are fewer
    than `maxDegree` nodes of each depth -/
def TailInv (a : List PNode) : Prop := Desc (ds a) ∧ WinAll maxDegree (ds a)

theorem TailInv.inv1 {a : List PNode} (h : TailInv a) : Inv1 a := ⟨h.1, h.2.winIn⟩

theorem ds_get (a : List PNode) {i : Nat} (h : i < a.length) : (ds a)[i]? = some a[i].depth := by
  rw [ds_getElem_opt, List.getElem?_eq_getElem h]; rfl

/-- **one step of collapse / of merge's first loop never panics** under the loop invariant,
    and keeps it -/
theorem mergeTrailing_inv {a : List PNode} (c : MCtx) (hinv : Inv1 a) (hlen : 2 ≤ a.length) :
    ∃ a' c', mergeTrailing a c = .ok (a', c') ∧ Inv1 a' ∧ a'.length < a.length ∧ 1 ≤ a'.length := by
  have hD := maxDegree_ge_two
  obtain ⟨hd, hw⟩ := hinv
  unfold mergeTrailing
  dsimp only
  by_cases hsmall : a.length ≤ maxDegree
  · -- everything is merged
    have h0 : a.length - maxDegree = 0 := by omega
    rw [h0]
    have : advanceStart a (a.length + 2) 0 = .ok 0 := by
      rw [show a.length + 2 = (a.length + 1) + 1 by omega]
      unfold advanceStart; simp
    rw [this]
    simp only
    obtain ⟨a', c', x, hm, hx, hds⟩ := mergeNodes_depths hd c (a := 0) (b := a.length) (by omega)
      (by omega) (Nat.le_refl _)
    refine ⟨a', c', hm, ?_, ?_, ?_⟩
    · have hds' : ds a' = [x + 1] := by
        rw [hds]; simp [← ds_length]
      unfold Inv1
      rw [hds']
      refine ⟨desc_singleton _, ?_⟩
      intro i u v hi; simp at hi; omega
    · have := congrArg List.length hds
      simp [ds_length] at this; omega
    · have := congrArg List.length hds
      simp [ds_length] at this; omega
  · have hs1 : 1 ≤ a.length - maxDegree := by omega
    have hs2 : a.length - maxDegree < a.length := by omega
    -- a run starts somewhere in the window: otherwise maxDegree+1 equal depths in a row
    have hex : ∃ m, a.length - maxDegree ≤ m ∧ m < a.length ∧ Bnd a m := by
      apply Classical.byContradiction
      intro hno
      have hno' : ∀ m, a.length - maxDegree ≤ m → m < a.length - maxDegree + maxDegree → ¬ Bnd a m := by
        intro m h1 h2 hb
        exact hno ⟨m, h1, by omega, hb⟩
      have hch := chain_eq a (a.length - maxDegree) maxDegree hs1 (by omega) hno'
      rw [show a.length - maxDegree + maxDegree - 1 = a.length - 1 by omega] at hch
      rw [ds_get a (show a.length - 1 < a.length by omega),
          ds_get a (show a.length - maxDegree - 1 < a.length by omega)] at hch
      have h1 := hw (a.length - maxDegree - 1) _ _ (by rw [ds_length]; omega)
        (ds_get a (show a.length - maxDegree - 1 < a.length by omega))
        (by rw [show a.length - maxDegree - 1 + maxDegree - 1 = a.length - 2 by omega]
            exact ds_get a (show a.length - 2 < a.length by omega))
      have h2 := hd (a.length - 2) (a.length - 1) _ _ (by omega)
        (ds_get a (show a.length - 2 < a.length by omega))
        (ds_get a (show a.length - 1 < a.length by omega))
      simp only [Option.some.injEq] at hch
      omega
    obtain ⟨e, he1, he2, he3, he4, he5⟩ := advanceStart_spec a (a.length + 2) (a.length - maxDegree)
      hs2 (by omega) hex
    rw [he1]
    simp only
    have he0 : 1 ≤ e := by omega
    -- strict drop at e
    have hstrict : a[e].depth < a[e - 1].depth := by
      rcases he4 with h | ⟨x, y, hx, hy, hne⟩
      · omega
      · rw [List.getElem?_eq_getElem (show e - 1 < a.length by omega)] at hx
        rw [List.getElem?_eq_getElem he3] at hy
        cases hx; cases hy
        have := hd (e - 1) e _ _ (by omega) (ds_get a (show e - 1 < a.length by omega)) (ds_get a he3)
        omega
    -- at least two nodes are merged
    have he6 : e + 2 ≤ a.length := by
      apply Classical.byContradiction
      intro hcon
      have hel : e = a.length - 1 := by omega
      have hch := chain_eq a (a.length - maxDegree) (e - (a.length - maxDegree)) hs1 (by omega)
        (fun m h1 h2 => he5 m h1 (by omega))
      rw [show a.length - maxDegree + (e - (a.length - maxDegree)) - 1 = a.length - 2 by omega] at hch
      rw [ds_get a (show a.length - 2 < a.length by omega),
          ds_get a (show a.length - maxDegree - 1 < a.length by omega)] at hch
      have h1 := hw (a.length - maxDegree - 1) _ _ (by rw [ds_length]; omega)
        (ds_get a (show a.length - maxDegree - 1 < a.length by omega))
        (by rw [show a.length - maxDegree - 1 + maxDegree - 1 = a.length - 2 by omega]
            exact ds_get a (show a.length - 2 < a.length by omega))
      simp only [Option.some.injEq] at hch
      omega
    obtain ⟨a', c', x, hm, hx, hds⟩ := mergeNodes_depths hd c (a := e) (b := a.length) he6
      (by omega) (Nat.le_refl _)
    rw [ds_get a he3] at hx
    cases hx
    have hds' : ds a' = (ds a).take e ++ [a[e].depth + 1] := by
      rw [hds]; simp [← ds_length]
    refine ⟨a', c', hm, ?_, ?_, ?_⟩
    · unfold Inv1
      rw [hds']
      refine ⟨desc_take_snoc hd e _ (by rw [ds_length]; omega) ?_,
        winIn_take_snoc (by omega) hw e _ (by rw [ds_length]; omega)⟩
      intro y _ hy
      rw [ds_get a (show e - 1 < a.length by omega)] at hy
      cases hy; omega
    · have := congrArg List.length hds'
      simp [ds_length] at this; omega
    · have := congrArg List.length hds'
      simp [ds_length] at this; omega

/-- **collapse never panics and terminates** within its loop bound -/
theorem collapse_inv : ∀ (fuel : Nat) (a : List PNode) (c : MCtx), Inv1 a → fuel ≥ a.length + 1 →
    ∃ a' c', collapse fuel a c = .ok (a', c') ∧ a'.length ≤ 1
  | 0, a, _, _, hf => by omega
  | fuel + 1, a, c, hinv, hf => by
    unfold collapse
    by_cases hl : a.length ≤ 1
    · simp only [hl, if_true]; exact ⟨a, c, rfl, hl⟩
    · simp only [hl, if_false]
      obtain ⟨a1, c1, hm, hinv1, hlt, _⟩ := mergeTrailing_inv c hinv (by omega)
      rw [hm]
      simp only
      exact collapse_inv fuel a1 c1 hinv1 (by omega)

/-- **the merge loop of AppendPage never panics, terminates, and restores the invariant** -/
theorem appendLoop_inv : ∀ (fuel : Nat) (t : List PNode) (c : MCtx), Inv1 t → fuel ≥ t.length + 1 →
    ∃ t' c', appendLoop fuel t c = .ok (t', c') ∧ TailInv t'
  | 0, t, _, _, hf => by omega
  | fuel + 1, t, c, hinv, hf => by
    have hD := maxDegree_ge_two
    obtain ⟨hd, hw⟩ := hinv
    unfold appendLoop
    dsimp only
    by_cases hn : t.length < maxDegree
    · simp only [hn, if_true]
      refine ⟨t, c, rfl, hd, ?_⟩
      intro i x y hi; rw [ds_length] at hi; omega
    · simp only [hn, if_false]
      have h1 : t.length - 1 < t.length := by omega
      have h2 : t.length - maxDegree < t.length := by omega
      rw [List.getElem?_eq_getElem h1, List.getElem?_eq_getElem h2]
      simp only
      by_cases heq : t[t.length - 1].depth = t[t.length - maxDegree].depth
      · have : (t[t.length - 1].depth != t[t.length - maxDegree].depth) = false := by simp [heq]
        simp only [this, Bool.false_eq_true, if_false]
        obtain ⟨t1, c1, x, hm, hx, hds⟩ := mergeNodes_depths hd c (a := t.length - maxDegree)
          (b := t.length) (by omega) (by omega) (Nat.le_refl _)
        rw [hm]
        simp only
        rw [ds_get t h2] at hx
        cases hx
        have hds' : ds t1 = (ds t).take (t.length - maxDegree) ++ [t[t.length - maxDegree].depth + 1] := by
          rw [hds]; simp [← ds_length]
        have hlen1 : t1.length = t.length - maxDegree + 1 := by
          have := congrArg List.length hds'
          simp [ds_length] at this; omega
        apply appendLoop_inv fuel t1 c1 ?_ (by omega)
        unfold Inv1
        rw [hds']
        refine ⟨desc_take_snoc hd _ _ (by rw [ds_length]; omega) ?_,
          winIn_take_snoc (by omega) hw _ _ (by rw [ds_length]; omega)⟩
        intro y h1' hy
        rw [ds_get t (show t.length - maxDegree - 1 < t.length by omega)] at hy
        cases hy
        have hwin := hw (t.length - maxDegree - 1) _ _ (by rw [ds_length]; omega)
          (ds_get t (show t.length - maxDegree - 1 < t.length by omega))
          (by rw [show t.length - maxDegree - 1 + maxDegree - 1 = t.length - 2 by omega]
              exact ds_get t (show t.length - 2 < t.length by omega))
        have hle := hd (t.length - 2) (t.length - 1) _ _ (by omega)
          (ds_get t (show t.length - 2 < t.length by omega)) (ds_get t h1)
        omega
      · have : (t[t.length - 1].depth != t[t.length - maxDegree].depth) = true := by simp [heq]
        simp only [this, if_true]
        refine ⟨t, c, rfl, hd, ?_⟩
        intro i x y hi hx hy
        rw [ds_length] at hi
        by_cases hend : i + maxDegree = t.length
        · have hi' : i = t.length - maxDegree := by omega
          subst hi'
          rw [ds_get t h2] at hx
          rw [show t.length - maxDegree + maxDegree - 1 = t.length - 1 by omega, ds_get t h1] at hy
          cases hx; cases hy
          have := hd (t.length - maxDegree) (t.length - 1) _ _ (by omega) (ds_get t h2) (ds_get t h1)
          omega
        · exact hw i x y (by rw [ds_length]; omega) hx hy

/-- a fresh page (depth 0) at the end of a tail that satisfies the invariant -/
theorem inv1_snoc_leaf {t : List PNode} (h : TailInv t) (n : PNode) (hn : n.depth = 0) : Inv1 (t ++ [n]) := by
  obtain ⟨hd, hw⟩ := h
  have hD := maxDegree_ge_two
  unfold Inv1
  have e : ds (t ++ [n]) = ds t ++ [0] := by simp [ds, hn]
  rw [e]
  refine ⟨Desc.snoc hd 0 (fun _ _ => Nat.zero_le _), ?_⟩
  intro i x y hi hx hy
  simp only [List.length_append, List.length_cons, List.length_nil] at hi
  rw [getElem?_snoc_lt (by omega)] at hx hy
  exact hw i x y (by omega) hx hy


/-! ## checkInvariants -/

/-- `checkInvariants` accepts a run of `num` nodes of depth `cur` followed by `rest` if `rest`
    never goes above `cur`, weakly decreases, and no depth occurs more than `maxDegree` times in a
    row (counting the `num` nodes already seen) -/
theorem depthsOK_aux : ∀ (rest : List PNode) (cur num : Nat), 1 ≤ num →
    Desc (cur :: ds rest) →
    (∀ j, j < rest.length → (∀ m, m ≤ j → (ds rest)[m]? = some cur) → num + j + 1 ≤ maxDegree) →
    WinAll (maxDegree + 1) (ds rest) →
    depthsOK (some (cur, num)) rest = true
  | [], _, _, _, _, _, _ => by simp [depthsOK]
  | n :: rest, cur, num, hnum, hd, hrun, hw => by
    have hle : n.depth ≤ cur := hd 0 1 cur n.depth (by omega) (by simp) (by simp [ds])
    have hd' : Desc (n.depth :: ds rest) := by
      intro i j x y hij hx hy
      exact hd (i + 1) (j + 1) x y (by omega) (by simpa [ds] using hx) (by simpa [ds] using hy)
    have hw' : WinAll (maxDegree + 1) (ds rest) := by
      intro i x y hi hx hy
      exact hw (i + 1) x y (by simp [ds] at hi ⊢; omega) (by simpa [ds] using hx)
        (by rw [show i + 1 + (maxDegree + 1) - 1 = (i + (maxDegree + 1) - 1) + 1 by omega]; simpa [ds] using hy)
    unfold depthsOK
    by_cases hlt : n.depth < cur
    · simp only [hlt, if_true]
      apply depthsOK_aux rest n.depth 1 (Nat.le_refl _) hd' ?_ hw'
      intro j hj hall
      -- j+2 equal depths in a row starting at n
      apply Classical.byContradiction
      intro hcon
      have hbig : maxDegree ≤ j + 1 := by omega
      have := hw 0 n.depth n.depth (by simp [ds]; omega) (by simp [ds])
        (by
          rw [show 0 + (maxDegree + 1) - 1 = (maxDegree - 1) + 1 by
            have := maxDegree_ge_two; omega]
          have := hall (maxDegree - 1) (by omega)
          simpa [ds] using this)
      omega
    · have heq : n.depth = cur := by omega
      have h1 : ¬ n.depth < cur := hlt
      have h2 : ¬ n.depth > cur := by omega
      simp only [h1, h2, if_false]
      have hfirst := hrun 0 (by simp) (by
        intro m hm
        have : m = 0 := by omega
        subst this; simp [ds, heq])
      have h3 : ¬ num + 1 > maxDegree := by omega
      simp only [h3, if_false]
      apply depthsOK_aux rest cur (num + 1) (by omega) (by rw [← heq]; exact hd') ?_ hw'
      intro j hj hall
      have := hrun (j + 1) (by simp; omega) (by
        intro m hm
        cases m with
        | zero => simp [ds, heq]
        | succ m' => simpa [ds] using hall m' (by omega))
      omega

/-- **checkInvariants never panics** on a tail that satisfies the invariant -/
theorem depthsOK_of_tailInv {t : List PNode} (h : TailInv t) : depthsOK none t = true := by
  obtain ⟨hd, hw⟩ := h
  have hD := maxDegree_ge_two
  cases t with
  | nil => simp [depthsOK]
  | cons n rest =>
    unfold depthsOK
    have hd' : Desc (n.depth :: ds rest) := by simpa [ds] using hd
    have hw1 : WinAll (maxDegree + 1) (ds rest) := by
      intro i x y hi hx hy
      -- a window of maxDegree+1 contains a window of maxDegree
      have hi' : i + maxDegree - 1 < (ds rest).length := by omega
      have hz := List.getElem?_eq_getElem hi'
      have h1 := hw (i + 1) x _ (by simp [ds] at hi ⊢; omega) (by simpa [ds] using hx)
        (by rw [show i + 1 + maxDegree - 1 = (i + maxDegree - 1) + 1 by omega]
            simpa [ds] using hz)
      have h2 := hd (i + maxDegree - 1 + 1) (i + (maxDegree + 1) - 1 + 1) _ y (by omega)
        (by simpa [ds] using hz) (by simpa [ds] using hy)
      omega
    apply depthsOK_aux rest n.depth 1 (Nat.le_refl _) hd' ?_ hw1
    intro j hj hall
    apply Classical.byContradiction
    intro hcon
    have hbig : maxDegree ≤ j + 1 := by omega
    have := hw 0 n.depth n.depth (by simp [ds]; omega) (by simp [ds])
      (by
        rw [show 0 + maxDegree - 1 = (maxDegree - 2) + 1 by omega]
        have := hall (maxDegree - 2) (by omega)
        simpa [ds] using this)
    omega

/-- **AppendPage on a single writer**: with the invariant on `tail`, appending a page and
    running the merge loop never panics, needs no more than the loop bound, restores the
    invariant, and `checkInvariants` accepts the result -/
theorem append_tail_ok {tail : List PNode} (h : TailInv tail) (n : PNode) (hn : n.depth = 0) (c : MCtx) :
    ∃ tail2 c2, appendLoop ((tail ++ [n]).length + 1) (tail ++ [n]) c = .ok (tail2, c2) ∧
      TailInv tail2 ∧ depthsOK none tail2 = true := by
  obtain ⟨t2, c2, h1, h2⟩ := appendLoop_inv _ _ c (inv1_snoc_leaf h n hn) (Nat.le_refl _)
  exact ⟨t2, c2, h1, h2, depthsOK_of_tailInv h2⟩

/-- **root Close of a writer without sub-ranges**: `collapse` never panics -/
theorem collapse_ok {tail : List PNode} (h : TailInv tail) (c : MCtx) :
    ∃ t c', collapse (tail.length + 1) tail c = .ok (t, c') ∧ t.length ≤ 1 :=
  collapse_inv _ _ c h.inv1 (Nat.le_refl _)

theorem tailInv_nil : TailInv [] := by
  refine ⟨by simpa [ds] using desc_nil, ?_⟩
  intro i x y hi hx; simp [ds] at hx

/-! ## joining two tails: the last loop of merge -/

theorem mergeNodes_mergeAt {nodes : List PNode} (hd : Desc (ds nodes)) {a n : Nat} (c : MCtx)
    (h1 : 2 ≤ n) (h2 : n ≤ maxDegree) (h3 : a + n ≤ nodes.length) :
    ∃ nodes' c' x, mergeNodes nodes a (a + n) c = .ok (nodes', c') ∧ (ds nodes)[a]? = some x ∧
      ds nodes' = mergeAt (ds nodes) a n x := by
  obtain ⟨nodes', c', x, hm, hx, hds⟩ := mergeNodes_depths hd c (a := a) (b := a + n) (by omega) (by omega) h3
  exact ⟨nodes', c', x, hm, hx, by rw [hds]; rfl⟩

/-- `backStart`: walk back over the nodes of depth `d` -/
theorem backStart_spec (a : List PNode) (d : Nat) : ∀ (start : Nat), start ≤ a.length →
    backStart a d start ≤ start ∧
    (∀ m, backStart a d start ≤ m → m < start → (ds a)[m]? = some d) ∧
    (backStart a d start = 0 ∨ (ds a)[backStart a d start - 1]? ≠ some d)
  | 0, _ => by simp [backStart]
  | start + 1, hs => by
    unfold backStart
    have h1 : start < a.length := by omega
    rw [List.getElem?_eq_getElem h1]
    simp only
    by_cases heq : a[start].depth = d
    · simp only [heq, beq_self_eq_true, if_true]
      obtain ⟨i1, i2, i3⟩ := backStart_spec a d start (by omega)
      refine ⟨by omega, ?_, i3⟩
      intro m hm1 hm2
      by_cases hms : m = start
      · subst hms; rw [ds_get a h1, heq]
      · exact i2 m hm1 (by omega)
    · have : (a[start].depth == d) = false := by simpa using heq
      simp only [this, Bool.false_eq_true, if_false]
      refine ⟨Nat.le_refl _, fun m h1' h2' => by omega, .inr ?_⟩
      simp only [Nat.add_sub_cancel]
      rw [ds_get a h1]
      simpa using heq

/-- `fwdEnd`: walk forward over the nodes of depth `d` -/
theorem fwdEnd_spec (a : List PNode) (d : Nat) : ∀ (fuel stop : Nat), stop ≤ a.length →
    fuel + stop ≥ a.length + 1 →
    stop ≤ fwdEnd a d fuel stop ∧ fwdEnd a d fuel stop ≤ a.length ∧
    (∀ m, stop ≤ m → m < fwdEnd a d fuel stop → (ds a)[m]? = some d) ∧
    (fwdEnd a d fuel stop = a.length ∨ (ds a)[fwdEnd a d fuel stop]? ≠ some d)
  | 0, stop, hs, hf => by omega
  | fuel + 1, stop, hs, hf => by
    unfold fwdEnd
    by_cases hlt : stop < a.length
    · rw [List.getElem?_eq_getElem hlt]
      simp only
      by_cases heq : a[stop].depth = d
      · simp only [heq, beq_self_eq_true, if_true]
        obtain ⟨i1, i2, i3, i4⟩ := fwdEnd_spec a d fuel (stop + 1) (by omega) (by omega)
        refine ⟨by omega, i2, ?_, i4⟩
        intro m hm1 hm2
        by_cases hms : m = stop
        · subst hms; rw [ds_get a hlt, heq]
        · exact i3 m (by omega) hm2
      · have : (a[stop].depth == d) = false := by simpa using heq
        simp only [this, Bool.false_eq_true, if_false]
        refine ⟨Nat.le_refl _, by omega, fun m h1 h2 => by omega, .inr ?_⟩
        rw [ds_get a hlt]
        simpa using heq
    · have : stop = a.length := by omega
      subst this
      simp only [List.getElem?_eq_none (Nat.le_refl _)]
      exact ⟨Nat.le_refl _, Nat.le_refl _, fun m h1 h2 => by omega, .inl trivial⟩

/-- the inner loop does nothing on a window of fewer than `maxDegree` nodes -/
theorem mergeInner_none (fuel : Nat) (a : List PNode) (start stop : Nat) (ch : Bool) (c : MCtx)
    (h : stop < start + maxDegree) :
    mergeInner (fuel + 1) a start stop ch c = .ok (a, start, stop, ch, c) := by
  unfold mergeInner
  have : ¬ stop ≥ start + maxDegree := by omega
  simp [this]

/-- the inner loop merges once on a window of `maxDegree` to `2·maxDegree - 1` nodes -/
theorem mergeInner_once (fuel : Nat) (a : List PNode) (hd : Desc (ds a)) (start stop : Nat) (ch : Bool)
    (c : MCtx) (h1 : start + maxDegree ≤ stop) (h2 : stop < start + 2 * maxDegree) (h3 : stop ≤ a.length) :
    ∃ a' c' x, mergeInner (fuel + 2) a start stop ch c = .ok (a', start + 1, stop - (maxDegree - 1), true, c') ∧
      (ds a)[start]? = some x ∧ ds a' = mergeAt (ds a) start maxDegree x := by
  have hD := maxDegree_ge_two
  obtain ⟨a', c', x, hm, hx, hds⟩ := mergeNodes_mergeAt hd c (a := start) (n := maxDegree) hD
    (Nat.le_refl _) (by omega)
  refine ⟨a', c', x, ?_, hx, hds⟩
  unfold mergeInner
  have : stop ≥ start + maxDegree := h1
  simp only [this, if_true, hm]
  exact mergeInner_none fuel a' (start + 1) (stop - (maxDegree - 1)) true c' (by omega)

/-- a constant window inside a list without constant windows of `maxDegree` is shorter -/
theorem run_short {L : List PNode} (hw : WinAll maxDegree (ds L)) {start stop dw : Nat} (hs : stop ≤ L.length)
    (hrun : ∀ m, start ≤ m → m < stop → (ds L)[m]? = some dw) : stop < start + maxDegree := by
  have hD := maxDegree_ge_two
  apply Classical.byContradiction
  intro hcon
  have := hw start dw dw (by rw [ds_length]; omega) (hrun start (Nat.le_refl _) (by omega))
    (hrun (start + maxDegree - 1) (by omega) (by omega))
  omega

/-- once the list is in order, the rest of the loop changes nothing -/
theorem depthLoop_good : ∀ (fuel : Nat) (L : List PNode) (start stop δ pd : Nat) (c : MCtx),
    WinAll maxDegree (ds L) → start ≤ stop → stop ≤ L.length →
    (∃ dw, ∀ m, start ≤ m → m < stop → (ds L)[m]? = some dw) →
    fuel ≥ 1 → fuel + δ ≥ pd + 2 →
    mergeDepthLoop fuel L start stop δ pd c = .ok (L, c)
  | 0, _, _, _, _, _, _, _, _, _, _, h1, _ => by omega
  | fuel + 1, L, start, stop, δ, pd, c, hw, hss, hs, ⟨dw, hrun⟩, _, hf => by
    unfold mergeDepthLoop
    rw [mergeInner_none L.length L start stop false c (run_short hw hs hrun)]
    simp only
    by_cases hbreak : ((decide (δ > pd) && !false) || decide (start = 0)) = true
    · simp only [hbreak, if_true]
    · simp only [hbreak, Bool.false_eq_true, if_false]
      have hδ : δ ≤ pd := by
        apply Classical.byContradiction
        intro h; apply hbreak; simp; left; omega
      have hb := backStart_spec L (δ + 1) start (by omega)
      exact depthLoop_good fuel L (backStart L (δ + 1) start) start (δ + 1) pd c hw hb.1 (by omega)
        ⟨δ + 1, hb.2.1⟩ (by omega) (by omega)

/-- state at the top of an iteration of merge's last loop after something was merged: the only
    window that may be constant ends at `stop - 1`, the node there has depth `dd ≥ δ`, and the
    loop will not stop before it has looked at depth `dd` -/
structure St (L : List PNode) (start stop δ pd : Nat) : Prop where
  desc : Desc (ds L)
  stop_pos : 1 ≤ stop
  stop_le : stop ≤ L.length
  start_eq : start = backStart L δ stop
  win : WinExcept maxDegree (stop - 1) (ds L)
  dd : ∃ dd, (ds L)[stop - 1]? = some dd ∧ (dd = δ ∨ (δ < dd ∧ dd ≤ pd + 1))

theorem tailInv_of_winExcept {L : List PNode} (hd : Desc (ds L)) {p : Nat}
    (hw : WinExcept maxDegree p (ds L))
    (hp : ∀ x y, p + 1 ≥ maxDegree → (ds L)[p + 1 - maxDegree]? = some x → (ds L)[p]? = some y → y < x) :
    TailInv L := by
  have hD := maxDegree_ge_two
  refine ⟨hd, ?_⟩
  intro i x y hi hx hy
  by_cases hne : i + maxDegree - 1 = p
  · have hi' : i = p + 1 - maxDegree := by omega
    subst hi'
    exact hp x y (by omega) hx (by rw [← hne]; exact hy)
  · exact hw i x y hi hx hy hne

/-- **the cascade**: from such a state the loop never panics, terminates within its bound and
    leaves a tail with fewer than `maxDegree` nodes per depth -/
theorem depthLoop_cascade : ∀ (fuel : Nat) (L : List PNode) (start stop δ pd : Nat) (c : MCtx),
    St L start stop δ pd → fuel ≥ (pd + 2 - δ) + L.length + 1 →
    ∃ R c', mergeDepthLoop fuel L start stop δ pd c = .ok (R, c') ∧ TailInv R
  | 0, _, _, _, _, _, _, _, hf => by omega
  | fuel + 1, L, start, stop, δ, pd, c, st, hf => by
    have hD := maxDegree_ge_two
    obtain ⟨hd, hsp, hsl, hse, hwin, dd, hdd, hcase⟩ := st
    have hb := backStart_spec L δ stop hsl
    rw [← hse] at hb
    obtain ⟨hb1, hb2, hb3⟩ := hb
    have hlast : stop - 1 < L.length := by omega
    rw [ds_get L hlast] at hdd
    simp only [Option.some.injEq] at hdd
    unfold mergeDepthLoop
    rcases hcase with heq | ⟨hlt, hle⟩
    · -- the node at stop-1 has depth δ: the window is the run of δ ending there
      have hstart_lt : start < stop := by
        apply Classical.byContradiction
        intro hcon
        have hss : start = stop := by omega
        -- backStart stopped at once although the node has depth δ
        rcases hb3 with h0 | hne
        · omega
        · rw [hss, ds_get L hlast, hdd, heq] at hne
          exact hne rfl
      -- the node before the window is deeper
      have hprev : ∀ y, 1 ≤ start → (ds L)[start - 1]? = some y → δ + 1 ≤ y := by
        intro y h1 hy
        rcases hb3 with h0 | hne
        · omega
        · have := hd (start - 1) start y δ (by omega) hy (hb2 start (Nat.le_refl _) hstart_lt)
          have : y ≠ δ := by
            intro he; apply hne; rw [hy, he]
          omega
      -- the window has at most maxDegree nodes
      have hwle : stop ≤ start + maxDegree := by
        apply Classical.byContradiction
        intro hcon
        have := hwin (stop - 1 - maxDegree) δ δ (by rw [ds_length]; omega)
          (hb2 _ (by omega) (by omega))
          (hb2 _ (by omega) (by omega)) (by omega)
        omega
      by_cases hfull : stop = start + maxDegree
      · -- merge the run
        obtain ⟨L', c', x, hm, hx, hds⟩ := mergeInner_once (L.length - 1) L hd start stop false c
          (by omega) (by omega) hsl
        rw [show L.length + 1 = L.length - 1 + 2 by omega, hm]
        simp only
        rw [hb2 start (Nat.le_refl _) hstart_lt] at hx
        cases hx
        have hbr : ((decide (δ > pd) && !true) || decide (start + 1 = 0)) = false := by simp
        simp only [hbr, Bool.false_eq_true, if_false]
        have hlen' := length_mergeAt (l := ds L) (s := start) (n := maxDegree) (v := δ) (by rw [ds_length]; omega)
        rw [← hds, ds_length, ds_length] at hlen'
        apply depthLoop_cascade fuel L' (backStart L' (δ + 1) (start + 1)) (start + 1) (δ + 1) pd c' ?_ (by omega)
        refine ⟨?_, by omega, by omega, rfl, ?_, δ + 1, ?_, .inl rfl⟩
        · rw [hds]
          exact desc_mergeAt hd (by omega) (by rw [ds_length]; omega) (hb2 start (Nat.le_refl _) hstart_lt) hprev
        · rw [hds, show start + 1 - 1 = start by omega]
          apply winExcept_mergeAt hD hd (by omega) (by rw [ds_length]; omega)
            (hb2 start (Nat.le_refl _) hstart_lt) hprev
          · intro i x y hi hx hy
            exact hwin i x y (by rw [ds_length]; omega) hx hy (by omega)
          · intro i x y hi1 hi2 hx hy
            exact hwin i x y hi2 hx hy (by omega)
        · rw [hds, show start + 1 - 1 = start by omega]
          exact getElem?_mergeAt_eq (by rw [ds_length]; omega)
      · -- nothing to merge: the list is in order
        rw [mergeInner_none L.length L start stop false c (by omega)]
        simp only
        have hgood : TailInv L := by
          apply tailInv_of_winExcept hd hwin
          intro x y hp hx hy
          rw [show stop - 1 + 1 - maxDegree = stop - maxDegree by omega] at hx
          rw [ds_get L hlast] at hy
          cases hy
          -- position stop - maxDegree lies before the window
          have h1 : 1 ≤ start := by omega
          have h2 := hprev _ h1 (ds_get L (show start - 1 < L.length by omega))
          have h3 := hd (stop - maxDegree) (start - 1) x _ (by omega) hx
            (ds_get L (show start - 1 < L.length by omega))
          omega
        by_cases hbreak : ((decide (δ > pd) && !false) || decide (start = 0)) = true
        · simp only [hbreak, if_true]
          exact ⟨L, c, rfl, hgood⟩
        · simp only [hbreak, Bool.false_eq_true, if_false]
          have hδ : δ ≤ pd := by
            apply Classical.byContradiction
            intro h; apply hbreak; simp; left; omega
          have hb' := backStart_spec L (δ + 1) start (by omega)
          rw [depthLoop_good fuel L _ start (δ + 1) pd c hgood.2 hb'.1 (by omega) ⟨δ + 1, hb'.2.1⟩
            (by omega) (by omega)]
          exact ⟨L, c, rfl, hgood⟩
    · -- the node at stop-1 is deeper than δ: the window is empty
      have hss : start = stop := by
        rw [hse, show stop = (stop - 1) + 1 by omega]
        unfold backStart
        rw [List.getElem?_eq_getElem hlast]
        have : (L[stop - 1].depth == δ) = false := by
          simp; omega
        simp [this]
      rw [hss, mergeInner_none L.length L stop stop false c (by omega)]
      simp only
      have hbr : ((decide (δ > pd) && !false) || decide (stop = 0)) = false := by
        simp; omega
      simp only [hbr, Bool.false_eq_true, if_false]
      apply depthLoop_cascade fuel L (backStart L (δ + 1) stop) stop (δ + 1) pd c ?_ (by omega)
      refine ⟨hd, hsp, hsl, rfl, hwin, dd, by rw [ds_get L hlast, hdd], ?_⟩
      by_cases h : dd = δ + 1
      · exact .inl h
      · exact .inr ⟨by omega, hle⟩

theorem ds_app_lt (a b : List PNode) {i : Nat} (h : i < a.length) : (ds (a ++ b))[i]? = (ds a)[i]? := by
  simp only [ds, List.map_append]
  rw [List.getElem?_append_left (by simpa using h)]

theorem ds_app_ge (a b : List PNode) {i : Nat} (h : a.length ≤ i) :
    (ds (a ++ b))[i]? = (ds b)[i - a.length]? := by
  simp only [ds, List.map_append]
  rw [List.getElem?_append_right (by simpa using h)]
  simp

/-- the join of a tail whose last node is at least as deep as the first node of the next -/
theorem desc_join {a b : List PNode} (ha : Desc (ds a)) (hb : Desc (ds b)) {nd pd : Nat}
    (hnd : (ds b)[0]? = some nd) (hpd : (ds a)[a.length - 1]? = some pd) (hge : nd ≤ pd) :
    Desc (ds (a ++ b)) := by
  intro i j x y hij hx hy
  by_cases hj : j < a.length
  · rw [ds_app_lt a b hj] at hy
    rw [ds_app_lt a b (by omega)] at hx
    exact ha i j x y hij hx hy
  · rw [ds_app_ge a b (by omega)] at hy
    by_cases hi : i < a.length
    · rw [ds_app_lt a b hi] at hx
      have h1 := ha i (a.length - 1) x pd (by omega) hx hpd
      have h2 := hb 0 (j - a.length) nd y (by omega) hnd hy
      omega
    · rw [ds_app_ge a b (by omega)] at hx
      exact hb (i - a.length) (j - a.length) x y (by omega) hx hy

/-- **the last part of merge** (from `prevDepth := …` on) never panics, terminates within its
    loop bound and produces a tail with fewer than `maxDegree` nodes per depth -/
theorem mergeJoin_inv {a b : List PNode} (c : MCtx) (ha : Inv1 a) (hb : TailInv b)
    (hane : 1 ≤ a.length) (hbne : 1 ≤ b.length) {nd pd : Nat}
    (hnd : (ds b)[0]? = some nd) (hpd : (ds a)[a.length - 1]? = some pd) (hge : nd ≤ pd) :
    ∃ R c', mergeJoin a b nd c = .ok (R, c') ∧ TailInv R := by
  have hD := maxDegree_ge_two
  obtain ⟨had, haw⟩ := ha
  obtain ⟨hbd, hbw⟩ := hb
  have hJd := desc_join had hbd hnd hpd hge
  have hJlen : (a ++ b).length = a.length + b.length := by simp
  have hlastlt : a.length - 1 < a.length := by omega
  have hpd' : a[a.length - 1].depth = pd := by
    rw [ds_get a hlastlt] at hpd; simpa using hpd
  unfold mergeJoin
  rw [List.getLast?_eq_getElem?, List.getElem?_eq_getElem hlastlt]
  simp only [hpd']
  -- the window
  have hS := backStart_spec (a ++ b) pd a.length (by omega)
  have hE := fwdEnd_spec (a ++ b) nd ((a ++ b).length + 1) (a.length + 1) (by omega) (by omega)
  generalize hs : backStart (a ++ b) pd a.length = s at hS ⊢
  generalize he : fwdEnd (a ++ b) nd ((a ++ b).length + 1) (a.length + 1) = e at hE ⊢
  obtain ⟨hS1, hS2, hS3⟩ := hS
  obtain ⟨hE1, hE2, hE3, hE4⟩ := hE
  have hJpos1 : (ds (a ++ b))[a.length - 1]? = some pd := by rw [ds_app_lt a b hlastlt]; exact hpd
  have hJpos : (ds (a ++ b))[a.length]? = some nd := by
    rw [ds_app_ge a b (Nat.le_refl _)]; simpa using hnd
  have hS4 : s + 1 ≤ a.length := by
    apply Classical.byContradiction
    intro hcon
    have : s = a.length := by omega
    rcases hS3 with h0 | hne
    · omega
    · rw [this, hJpos1] at hne; exact hne rfl
  have hE3' : ∀ m, a.length ≤ m → m < e → (ds (a ++ b))[m]? = some nd := by
    intro m h1 h2
    by_cases hm : m = a.length
    · subst hm; exact hJpos
    · exact hE3 m (by omega) h2
  have hprev : ∀ y, 1 ≤ s → (ds (a ++ b))[s - 1]? = some y → pd + 1 ≤ y := by
    intro y h1 hy
    rcases hS3 with h0 | hne
    · omega
    · have := hJd (s - 1) s y pd (by omega) hy (hS2 s (Nat.le_refl _) (by omega))
      have : y ≠ pd := by intro h; apply hne; rw [hy, h]
      omega
  have hnext : ∀ m y, e ≤ m → (ds (a ++ b))[m]? = some y → y < nd := by
    intro m y h1 hy
    rcases hE4 with hlen | hne
    · rw [List.getElem?_eq_none (by rw [ds_length]; omega)] at hy; cases hy
    · have hel : e < (a ++ b).length := by
        have : m < (ds (a ++ b)).length := by
          apply Classical.byContradiction
          intro hc
          rw [List.getElem?_eq_none (by omega)] at hy; cases hy
        rw [ds_length] at this; omega
      have h2 := hJd a.length e nd _ (by omega) hJpos (ds_get (a ++ b) hel)
      have h3 := hJd e m _ y h1 (ds_get (a ++ b) hel) hy
      rw [ds_get (a ++ b) hel] at hne
      have : (a ++ b)[e].depth ≠ nd := by intro h; apply hne; rw [h]
      omega
  -- at most maxDegree nodes of depth pd at the end of a, fewer than maxDegree of depth nd in b
  have hM1 : a.length ≤ s + maxDegree := by
    apply Classical.byContradiction
    intro hcon
    have h1 := hS2 (a.length - maxDegree - 1) (by omega) (by omega)
    have h2 := hS2 (a.length - 2) (by omega) (by omega)
    rw [ds_app_lt a b (by omega)] at h1 h2
    have := haw (a.length - maxDegree - 1) pd pd (by rw [ds_length]; omega) h1
      (by rw [show a.length - maxDegree - 1 + maxDegree - 1 = a.length - 2 by omega]; exact h2)
    omega
  have hK1 : e + 1 ≤ a.length + maxDegree := by
    apply Classical.byContradiction
    intro hcon
    have h2 := hE3' (a.length + maxDegree - 1) (by omega) (by omega)
    rw [ds_app_ge a b (by omega)] at h2
    have := hbw 0 nd nd (by rw [ds_length]; omega) hnd
      (by rw [show 0 + maxDegree - 1 = a.length + maxDegree - 1 - a.length by omega]; exact h2)
    omega
  have hfuel : pd + (a ++ b).length + 2 = (pd + (a ++ b).length + 1) + 1 := by omega
  rw [hfuel]
  unfold mergeDepthLoop
  by_cases hsmall : e < s + maxDegree
  · -- nothing to merge: the concatenation is already in order
    rw [mergeInner_none (a ++ b).length (a ++ b) s e false c hsmall]
    simp only
    have hgood : TailInv (a ++ b) := by
      refine ⟨hJd, ?_⟩
      intro i x y hi hx hy
      rw [ds_length, hJlen] at hi
      by_cases h1 : i + maxDegree < a.length
      · rw [ds_app_lt a b (by omega)] at hx hy
        exact haw i x y (by rw [ds_length]; omega) hx hy
      · by_cases h2 : a.length ≤ i
        · rw [ds_app_ge a b h2] at hx
          rw [ds_app_ge a b (by omega)] at hy
          exact hbw (i - a.length) x y (by rw [ds_length]; omega) hx
            (by rw [show i - a.length + maxDegree - 1 = i + maxDegree - 1 - a.length by omega]; exact hy)
        · -- the window touches the end of a or crosses into b
          apply Classical.byContradiction
          intro hcon
          have hxge : pd ≤ x := hJd i (a.length - 1) x pd (by omega) hx hJpos1
          by_cases h3 : i + maxDegree = a.length
          · -- ends at the last node of a
            rw [show i + maxDegree - 1 = a.length - 1 by omega, hJpos1] at hy
            cases hy
            have hs1 : 1 ≤ s := by omega
            have := hprev _ hs1 (ds_get (a ++ b) (show s - 1 < (a ++ b).length by omega))
            have h4 := hJd i (s - 1) x _ (by omega) hx (ds_get (a ++ b) (show s - 1 < (a ++ b).length by omega))
            omega
          · have hyle : y ≤ nd := hJd a.length (i + maxDegree - 1) nd y (by omega) hJpos hy
            have hxy : x = pd ∧ pd = nd ∧ y = nd := by omega
            have his : s ≤ i := by
              apply Classical.byContradiction
              intro hc
              have hs1 : 1 ≤ s := by omega
              have := hprev _ hs1 (ds_get (a ++ b) (show s - 1 < (a ++ b).length by omega))
              have h4 := hJd i (s - 1) x _ (by omega) hx (ds_get (a ++ b) (show s - 1 < (a ++ b).length by omega))
              omega
            have hie : i + maxDegree - 1 < e := by
              apply Classical.byContradiction
              intro hc
              have := hnext (i + maxDegree - 1) y (by omega) hy
              omega
            omega
    by_cases hbreak : ((decide (nd > pd) && !false) || decide (s = 0)) = true
    · simp only [hbreak, if_true]
      exact ⟨a ++ b, c, rfl, hgood⟩
    · simp only [hbreak, Bool.false_eq_true, if_false]
      have hb' := backStart_spec (a ++ b) (nd + 1) s (by omega)
      rw [depthLoop_good _ (a ++ b) _ s (nd + 1) pd c hgood.2 hb'.1 (by omega) ⟨nd + 1, hb'.2.1⟩
        (by omega) (by omega)]
      exact ⟨a ++ b, c, rfl, hgood⟩
  · -- one merge; then the cascade
    obtain ⟨L', c', x, hm, hx, hds⟩ := mergeInner_once ((a ++ b).length - 1) (a ++ b) hJd s e false c
      (by omega) (by omega) hE2
    rw [show (a ++ b).length + 1 = (a ++ b).length - 1 + 2 by omega, hm]
    simp only
    rw [hS2 s (Nat.le_refl _) (by omega)] at hx
    cases hx
    have hbr : ((decide (nd > pd) && !true) || decide (s + 1 = 0)) = false := by simp
    simp only [hbr, Bool.false_eq_true, if_false]
    have hlen' := length_mergeAt (l := ds (a ++ b)) (s := s) (n := maxDegree) (v := pd)
      (by rw [ds_length]; omega)
    rw [← hds, ds_length, ds_length] at hlen'
    apply depthLoop_cascade _ L' _ (s + 1) (nd + 1) pd c' ?_ (by omega)
    refine ⟨?_, by omega, by omega, rfl, ?_, pd + 1, ?_, ?_⟩
    · rw [hds]
      exact desc_mergeAt hJd (by omega) (by rw [ds_length]; omega) (hS2 s (Nat.le_refl _) (by omega)) hprev
    · rw [hds, show s + 1 - 1 = s by omega]
      apply winExcept_mergeAt hD hJd (by omega) (by rw [ds_length]; omega)
        (hS2 s (Nat.le_refl _) (by omega)) hprev
      · intro i x y hi hx hy
        rw [ds_app_lt a b (by omega)] at hx hy
        exact haw i x y (by rw [ds_length]; omega) hx hy
      · intro i x y hi1 hi2 hx hy
        rw [ds_length, hJlen] at hi2
        rw [ds_app_ge a b (by omega)] at hx hy
        exact hbw (i - a.length) x y (by rw [ds_length]; omega) hx
          (by rw [show i - a.length + maxDegree - 1 = i + maxDegree - 1 - a.length by omega]; exact hy)
    · rw [hds, show s + 1 - 1 = s by omega]
      exact getElem?_mergeAt_eq (by rw [ds_length]; omega)
    · by_cases h : pd = nd
      · exact .inl (by omega)
      · exact .inr ⟨by omega, Nat.le_refl _⟩

/-- **the first loop of merge** never panics, terminates within its loop bound, keeps the loop
    invariant, and ends with a single node or with a last node at least as deep as `nextDepth` -/
theorem mergeLoop1_inv : ∀ (fuel : Nat) (a : List PNode) (nd : Nat) (c : MCtx), Inv1 a → 1 ≤ a.length →
    fuel ≥ a.length + 1 →
    ∃ a1 c1, mergeLoop1 fuel a nd c = .ok (a1, c1) ∧ Inv1 a1 ∧ 1 ≤ a1.length ∧
      (a1.length ≤ 1 ∨ ∃ pd, (ds a1)[a1.length - 1]? = some pd ∧ nd ≤ pd)
  | 0, a, _, _, _, _, hf => by omega
  | fuel + 1, a, nd, c, hinv, hne, hf => by
    unfold mergeLoop1
    by_cases hl : a.length ≤ 1
    · simp only [hl, if_true]
      exact ⟨a, c, rfl, hinv, hne, .inl hl⟩
    · simp only [hl, if_false]
      have hlast : a.length - 1 < a.length := by omega
      rw [List.getElem?_eq_getElem hlast]
      simp only
      by_cases hlt : a[a.length - 1].depth < nd
      · simp only [hlt, if_true]
        obtain ⟨a1, c1, hm, hinv1, hlen1, hpos1⟩ := mergeTrailing_inv c hinv (by omega)
        rw [hm]
        simp only
        exact mergeLoop1_inv fuel a1 nd c1 hinv1 hpos1 (by omega)
      · simp only [hlt, if_false]
        exact ⟨a, c, rfl, hinv, hne, .inr ⟨_, ds_get a hlast, by omega⟩⟩

theorem inv1_singleton (x : PNode) : Inv1 [x] := by
  refine ⟨by simpa [ds] using desc_singleton x.depth, ?_⟩
  intro i u v hi
  have := maxDegree_ge_two
  simp [ds] at hi; omega

/-- `a[0].depth = nextDepth` for a single shallower node -/
theorem liftSingle_inv {a : List PNode} {nd : Nat} (hinv : Inv1 a) (hne : 1 ≤ a.length)
    (hlast : a.length ≤ 1 ∨ ∃ pd, (ds a)[a.length - 1]? = some pd ∧ nd ≤ pd) :
    Inv1 (liftSingle a nd) ∧ 1 ≤ (liftSingle a nd).length ∧
      ∃ pd, (ds (liftSingle a nd))[(liftSingle a nd).length - 1]? = some pd ∧ nd ≤ pd := by
  unfold liftSingle
  split
  · rename_i x
    split
    · exact ⟨inv1_singleton _, by simp, nd, by simp [ds], Nat.le_refl _⟩
    · rename_i hx
      exact ⟨inv1_singleton _, by simp, x.depth, by simp [ds], by omega⟩
  · rename_i hno
    rcases hlast with h1 | h2
    · exfalso
      cases a with
      | nil => simp at hne
      | cons x xs =>
        cases xs with
        | nil => exact hno x rfl
        | cons y ys => simp at h1
    · exact ⟨hinv, hne, h2⟩

/-- **merge never panics**: joining two tails that satisfy the invariant never leaves the
    range `mergeNodes` accepts nor the slice bounds, terminates within the loop bounds of the
    model, and the result satisfies the invariant again -/
theorem merge_inv {a b : List PNode} (c : MCtx) (ha : TailInv a) (hb : TailInv b) :
    ∃ r c', merge a b c = .ok (r, c') ∧ TailInv r := by
  unfold merge
  split
  · exact ⟨b, c, rfl, hb⟩
  · exact ⟨a, c, rfl, ha⟩
  · rename_i x xs b0 bs
    obtain ⟨a1, c1, h1, hinv1, hlen1, hlast1⟩ := mergeLoop1_inv ((x :: xs).length + 1) (x :: xs) b0.depth c
      ha.inv1 (by simp) (Nat.le_refl _)
    rw [h1]
    simp only
    obtain ⟨hinv2, hlen2, pd, hpd, hge⟩ := liftSingle_inv (nd := b0.depth) hinv1 hlen1 hlast1
    exact mergeJoin_inv c1 hinv2 hb hlen2 (by simp) (by simp [ds]) hpd hge

/-! ## whole programs never panic -/

/-- the three panics of the Go code: `mergeNodes`' range check, an index out of range,
    `checkInvariants` -/
def IsPanic (e : PErr) : Prop := e = .panicRange ∨ e = .panicIndex ∨ e = .panicInv

/-- errors of the futureInt part of the model (an exhausted loop bound or an id outside the
    heap); they are not panics of the tree code -/
def HeapErr (e : PErr) : Prop := e = .fuel ∨ e = .dangling

theorem HeapErr.not_panic {e : PErr} (h : HeapErr e) : ¬ IsPanic e := by
  rcases h with rfl | rfl <;> (intro hp; rcases hp with h | h | h <;> cases h)

theorem foldl_err {α : Type} (F : Except PErr Heap → α → Except PErr Heap)
    (hF : ∀ acc x, (∀ e, acc = .error e → HeapErr e) → ∀ e, F acc x = .error e → HeapErr e) :
    ∀ (xs : List α) (acc : Except PErr Heap), (∀ e, acc = .error e → HeapErr e) →
      ∀ e, xs.foldl F acc = .error e → HeapErr e
  | [], acc, hacc, e, h => hacc e h
  | x :: xs, acc, hacc, e, h => by
    simp only [List.foldl_cons] at h
    exact foldl_err F hF xs (F acc x) (hF acc x hacc) e h

theorem updateFut_err : ∀ (fuel g : Nat) (n : Int) (h : Heap) (e : PErr),
    updateFut fuel g n h = .error e → HeapErr e
  | 0, _, _, _, e, he => by simp [updateFut] at he; exact .inl he.symm
  | fuel + 1, g, n, h, e, he => by
    unfold updateFut at he
    split at he
    · cases he; exact .inr rfl
    · rename_i f hf
      dsimp only at he
      generalize (if n < 0 ∨ f.val < 0 then (-1 : Int) else f.val + n) = val at he
      split at he
      · refine foldl_err _ ?_ _ _ (by intro e h; cases h) e he
        intro acc cb hacc e' h'
        split at h'
        · rename_i e'' ; cases h'; exact hacc _ rfl
        · split at h'
          · cases h'
          · exact updateFut_err fuel _ _ _ e' h'
      · cases he

theorem callCb_err {cb : FCb} {n : Int} {h : Heap} {e : PErr} (he : callCb cb n h = .error e) : HeapErr e := by
  unfold callCb at he
  split at he
  · cases he
  · exact updateFut_err _ _ _ _ _ he

theorem callAll_err : ∀ (cbs : List FCb) (n : Int) (h : Heap) (e : PErr), callAll cbs n h = .error e → HeapErr e
  | [], _, _, _, he => by simp [callAll] at he
  | cb :: rest, n, h, e, he => by
    unfold callAll at he
    split at he
    · rename_i e' hc; cases he; exact callCb_err hc
    · exact callAll_err rest n _ e he

theorem whenAvailable_err {f : Nat} {cb : FCb} {h : Heap} {e : PErr} (he : whenAvailable f cb h = .error e) :
    HeapErr e := by
  unfold whenAvailable at he
  split at he
  · cases he; exact .inr rfl
  · split at he
    · exact callCb_err he
    · cases he

theorem whenAvailableAll_err (f : Nat) : ∀ (cbs : List FCb) (h : Heap) (e : PErr),
    whenAvailableAll f cbs h = .error e → HeapErr e
  | [], _, _, he => by simp [whenAvailableAll] at he
  | cb :: rest, h, e, he => by
    unfold whenAvailableAll at he
    split at he
    · rename_i e' hc; cases he; exact whenAvailable_err hc
    · exact whenAvailableAll_err f rest _ e he

theorem incFut_err {f : Nat} {h : Heap} {e : PErr} (he : incFut f h = .error e) : HeapErr e := by
  unfold incFut at he
  split at he
  · cases he; exact .inr rfl
  · split at he
    · cases he
    · dsimp only at he
      split at he
      · rename_i e' hc; cases he; exact whenAvailable_err hc
      · cases he

mutual
/-- every `tail` in the tree of writers satisfies the invariant -/
def TailsOK : PW → Prop
  | .mk _ _ children tail _ _ _ => TailInv tail ∧ TailsOKList children
def TailsOKList : List PW → Prop
  | [] => True
  | c :: cs => TailsOK c ∧ TailsOKList cs
end

mutual
/-- `checkInvariants` (recursively over the children) accepts such a tree -/
theorem invOK_of_tailsOK : ∀ w : PW, TailsOK w → w.invOK = true
  | .mk _ _ children tail _ _ _, h => by
    simp only [TailsOK] at h
    simp only [PW.invOK, invOKList_of_tailsOK children h.2, depthsOK_of_tailInv h.1, Bool.and_self]
theorem invOKList_of_tailsOK : ∀ cs : List PW, TailsOKList cs → invOKList cs = true
  | [], _ => by simp [invOKList]
  | c :: cs, h => by
    simp only [TailsOKList] at h
    simp only [invOKList, invOK_of_tailsOK c h.1, invOKList_of_tailsOK cs h.2, Bool.and_self]
end

theorem TailsOKList_append (a b : List PW) : TailsOKList (a ++ b) ↔ TailsOKList a ∧ TailsOKList b := by
  induction a with
  | nil => simp [TailsOKList]
  | cons x xs ih => simp [TailsOKList, ih, and_assoc]

/-- what "does not panic and keeps the invariant" means for an operation on a writer -/
def Safe (r : Except PErr (PW × G)) : Prop :=
  match r with
  | .error e => ¬ IsPanic e
  | .ok (w', _) => TailsOK w'

theorem not_panic_closed : ¬ IsPanic .closed := by intro h; rcases h with h | h | h <;> cases h
theorem not_panic_dangling : ¬ IsPanic .dangling := by intro h; rcases h with h | h | h <;> cases h

/-- **AppendPage never panics** -/
theorem appendHere_safe (id : Nat) (attrs : Attrs) (w : PW) (g : G) (hok : TailsOK w) :
    Safe (appendHere id attrs w g) := by
  obtain ⟨isB, closed, children, tail, npn, npnCb, numPagesCb⟩ := w
  simp only [TailsOK] at hok
  unfold appendHere
  dsimp only
  split
  · exact not_panic_closed
  · split
    · exact not_panic_dangling
    · split
      · rename_i e he; exact (whenAvailableAll_err _ _ _ _ he).not_panic
      · split
        · rename_i e he; exact (incFut_err he).not_panic
        · rename_i f' h2 hinc
          obtain ⟨tail2, c2, hl, hinv2, _⟩ := append_tail_ok hok.1
            { tree := .page id none attrs, count := 1, depth := 0 } rfl g.ctx
          rw [hl]
          simp only
          have hall : TailsOK (PW.mk isB closed children tail2 (some f') [] numPagesCb) := by
            simp only [TailsOK]; exact ⟨hinv2, hok.2⟩
          rw [invOK_of_tailsOK _ hall]
          simp only [if_true]
          exact hall

/-- **NewRange never panics** -/
theorem newRangeHere_safe (w : PW) (g : G) (hok : TailsOK w) : Safe (newRangeHere w g) := by
  obtain ⟨isB, closed, children, tail, npn, npnCb, numPagesCb⟩ := w
  simp only [TailsOK] at hok
  unfold newRangeHere
  dsimp only
  split
  · exact not_panic_closed
  · split
    · exact not_panic_dangling
    · split
      · rename_i e he; exact (whenAvailable_err he).not_panic
      · simp only [Safe, TailsOK]
        refine ⟨tailInv_nil, ?_⟩
        rw [TailsOKList_append]
        refine ⟨?_, by simp [TailsOKList, TailsOK, tailInv_nil]⟩
        split
        · rw [TailsOKList_append]
          exact ⟨hok.2, by simp [TailsOKList, TailsOK, hok.1]⟩
        · exact hok.2

theorem nextPageNumberHere_safe (k : Nat) (w : PW) (g : G) (hok : TailsOK w) :
    Safe (nextPageNumberHere k w g) := by
  obtain ⟨isB, closed, children, tail, npn, npnCb, numPagesCb⟩ := w
  unfold nextPageNumberHere
  dsimp only
  split
  · exact hok
  · simp only [Safe, TailsOK] at hok ⊢; exact hok

def CloseSafe (r : Except PErr (PW × G)) : Prop :=
  match r with
  | .error e => ¬ IsPanic e
  | .ok (w', _) => TailInv w'.tail ∧ w'.children = []

def NodesSafe (r : Except PErr (List PNode × G)) : Prop :=
  match r with
  | .error e => ¬ IsPanic e
  | .ok (nodes', _) => TailInv nodes'

mutual
/-- **Close never panics**, and the closed writer's `tail` satisfies the invariant -/
theorem close_safe : ∀ (w : PW) (g : G), TailsOK w → CloseSafe (w.close g)
  | .mk isB closed children tail npn npnCb numPagesCb, g, hok => by
    simp only [TailsOK] at hok
    unfold PW.close
    split
    · exact not_panic_closed
    · have hcc := closeChildren_safe children [] g hok.2 tailInv_nil
      split
      · rename_i e he; rw [he] at hcc; exact hcc
      · rename_i nodes g1 he
        rw [he] at hcc
        simp only [NodesSafe] at hcc
        obtain ⟨t1, c2, hm, hinv⟩ := merge_inv g1.ctx hcc hok.1
        rw [hm]
        simp only
        rw [depthsOK_of_tailInv hinv]
        simp only [Bool.not_true, Bool.false_eq_true, if_false]
        split
        · rename_i e he2; exact (callAll_err _ _ _ _ he2).not_panic
        · split
          · rename_i e he3; exact (callAll_err _ _ _ _ he3).not_panic
          · exact ⟨hinv, rfl⟩
theorem closeChildren_safe : ∀ (children : List PW) (nodes : List PNode) (g : G), TailsOKList children →
    TailInv nodes → NodesSafe (closeChildren children nodes g)
  | [], nodes, g, _, hn => by simp only [closeChildren]; exact hn
  | child :: rest, nodes, g, hok, hn => by
    simp only [TailsOKList] at hok
    unfold closeChildren
    split
    · -- already closed: its tail is merged
      have hct : TailInv child.tail := by
        obtain ⟨isB, closed, children, tail, npn, npnCb, numPagesCb⟩ := child
        have := hok.1; simp only [TailsOK] at this; exact this.1
      obtain ⟨n1, c1, hm, hinv⟩ := merge_inv g.ctx hn hct
      rw [hm]
      simp only
      exact closeChildren_safe rest n1 _ hok.2 hinv
    · have hc := close_safe child g hok.1
      split
      · rename_i e he; rw [he] at hc; exact hc
      · rename_i child' g1 he
        rw [he] at hc
        simp only [CloseSafe] at hc
        obtain ⟨n1, c1, hm, hinv⟩ := merge_inv g1.ctx hn hc.1
        rw [hm]
        simp only
        exact closeChildren_safe rest n1 _ hok.2 hinv
end


theorem TailsOKList_get : ∀ (children : List PW) (j : Nat) (c : PW), TailsOKList children →
    children[j]? = some c → TailsOK c
  | [], _, _, _, h => by simp at h
  | x :: xs, 0, c, h, hj => by simp at hj; subst hj; simp only [TailsOKList] at h; exact h.1
  | x :: xs, j + 1, c, h, hj => by
    simp only [TailsOKList] at h
    simp only [List.getElem?_cons_succ] at hj
    exact TailsOKList_get xs j c h.2 hj

theorem TailsOKList_set : ∀ (children : List PW) (j : Nat) (c : PW), TailsOKList children → TailsOK c →
    TailsOKList (children.set j c)
  | [], _, _, _, _ => by simp [TailsOKList]
  | x :: xs, 0, c, h, hc => by simp only [TailsOKList] at h; simp [TailsOKList, hc, h.2]
  | x :: xs, j + 1, c, h, hc => by
    simp only [TailsOKList] at h
    simp only [List.set_cons_succ, TailsOKList]
    exact ⟨h.1, TailsOKList_set xs j c h.2 hc⟩

/-- an operation that is safe on every writer is safe on the writer at any path -/
theorem updateAt_safe (f : PW → G → Except PErr (PW × G)) (hf : ∀ w g, TailsOK w → Safe (f w g)) :
    ∀ (path : List Nat) (root : PW) (g : G), TailsOK root → Safe (root.updateAt f path g)
  | [], root, g, hok => by simp only [PW.updateAt]; exact hf root g hok
  | i :: rest, .mk isB closed children tail npn npnCb numPagesCb, g, hok => by
    simp only [TailsOK] at hok
    unfold PW.updateAt
    split
    · exact not_panic_closed
    · rename_i j hs
      split
      · exact not_panic_closed
      · rename_i child hj
        have hc := TailsOKList_get children j child hok.2 hj
        have := updateAt_safe f hf rest child g hc
        split
        · rename_i e he; rw [he] at this; exact this
        · rename_i child' g' he
          rw [he] at this
          simp only [Safe] at this ⊢
          simp only [TailsOK]
          exact ⟨hok.1, TailsOKList_set children j child' hok.2 this⟩

theorem close_safe_w (w : PW) (g : G) (hok : TailsOK w) : Safe (w.close g) := by
  have := close_safe w g hok
  unfold CloseSafe at this
  unfold Safe
  split
  · rename_i e he; rw [he] at this; exact this
  · rename_i w' g' he
    rw [he] at this
    simp only at this
    obtain ⟨isB, closed, children, tail, npn, npnCb, numPagesCb⟩ := w'
    simp only [PW.tail, PW.children] at this
    simp only [TailsOK, this.2, TailsOKList, and_true]
    exact this.1

def RootSafe (r : Except PErr (PW × G × Option PTree)) : Prop :=
  match r with
  | .error e => ¬ IsPanic e
  | .ok (w', _, _) => TailsOK w'

/-- **Close of the root never panics** -/
theorem closeRoot_safe (w : PW) (g : G) (hok : TailsOK w) : RootSafe (closeRoot w g) := by
  have hc := close_safe w g hok
  unfold closeRoot
  split
  · rename_i e he; rw [he] at hc; exact hc
  · rename_i w1 g1 he
    rw [he] at hc
    simp only [CloseSafe] at hc
    obtain ⟨t, c', hcol, _⟩ := collapse_ok hc.1 g1.ctx
    rw [hcol]
    simp only
    obtain ⟨isB, cl, ch, t1, npn, cb, np⟩ := w1
    simp only [PW.children] at hc
    simp only
    split
    · simp only [RootSafe, TailsOK, hc.2, TailsOKList, and_true]; exact tailInv_nil
    · simp only [RootSafe, TailsOK, hc.2, TailsOKList, and_true]; exact tailInv_nil

def StepSafe (r : Except PErr (PState × Outcome)) : Prop :=
  match r with
  | .error e => ¬ IsPanic e
  | .ok (s', _) => TailsOK s'.root

theorem step_safe (s : PState) (op : POp) (hok : TailsOK s.root) : StepSafe (step s op) := by
  cases op with
  | append path id attrs =>
    have := updateAt_safe (appendHere id attrs) (appendHere_safe id attrs) path s.root s.g hok
    simp only [step]
    split
    · exact hok
    · rename_i e hne he; rw [he] at this; exact this
    · rename_i r g he; rw [he] at this; exact this
  | newRange path =>
    have := updateAt_safe newRangeHere newRangeHere_safe path s.root s.g hok
    simp only [step]
    split
    · exact hok
    · rename_i e hne he; rw [he] at this; exact this
    · rename_i r g he; rw [he] at this; exact this
  | nextPageNumber path k =>
    have := updateAt_safe (nextPageNumberHere k) (nextPageNumberHere_safe k) path s.root s.g hok
    simp only [step]
    split
    · exact hok
    · rename_i e hne he; rw [he] at this; exact this
    · rename_i r g he; rw [he] at this; exact this
  | close path =>
    cases path with
    | nil =>
      have := closeRoot_safe s.root s.g hok
      simp only [step]
      split
      · exact hok
      · rename_i e hne he; rw [he] at this; exact this
      · rename_i r g t he; rw [he] at this; exact this
      · rename_i r g he; rw [he] at this; exact this
    | cons i rest =>
      have := updateAt_safe PW.close close_safe_w (i :: rest) s.root s.g hok
      simp only [step]
      split
      · exact hok
      · rename_i e hne he; rw [he] at this; exact this
      · rename_i r g he; rw [he] at this; exact this

def RunSafe (r : Except PErr (PState × List Outcome)) : Prop :=
  match r with
  | .error e => ¬ IsPanic e
  | .ok (s', _) => TailsOK s'.root

theorem run_safe : ∀ (ops : List POp) (s : PState), TailsOK s.root → RunSafe (run s ops)
  | [], s, hok => by simp only [run]; exact hok
  | op :: rest, s, hok => by
    have h1 := step_safe s op hok
    simp only [run]
    split
    · rename_i e he; rw [he] at h1; exact h1
    · rename_i s1 o he
      rw [he] at h1
      have h2 := run_safe rest s1 h1
      split
      · rename_i e he2; rw [he2] at h2; exact h2
      · rename_i s2 os he2; rw [he2] at h2; exact h2

/-- **C16, depth invariant: the internal panics are unreachable.**  For every program (any
    interleaving of AppendPage, NewRange, Close, NextPageNumber on nested writers, including
    operations on closed writers and repeated Close), every choice of hints and both version
    classes: the run never ends in `mergeNodes`' range panic, an index out of range, or a
    `checkInvariants` panic, and every `tail` of every writer satisfies `TailInv` (depths weakly
    decrease, fewer than `maxDegree` nodes per depth) after every operation. -/
theorem no_panic (old : Bool) (hints : List Hint) (ops : List POp) :
    (∀ e, run (PState.init old hints) ops = .error e → ¬ IsPanic e) ∧
    (∀ s outs, run (PState.init old hints) ops = .ok (s, outs) → TailsOK s.root) := by
  have h := run_safe ops (PState.init old hints)
    (by simp [PState.init, TailsOK, TailsOKList, tailInv_nil])
  constructor
  · intro e he; rw [he] at h; exact h
  · intro s outs he; rw [he] at h; exact h

end PdfVerif.C16trsb

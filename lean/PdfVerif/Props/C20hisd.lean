import PdfVerif.Model.HISSeq
import PdfVerif.Props.C20hisb
import PdfVerif.Props.C20hisc
import PdfVerif.Props.C02fiod
import PdfVerif.Props.C04hisb
/-!
# C20 (part 4) — `scan_recovers` on the model, for writer-shaped input

For an input of the shape `pre ++ q ++ (LF N G obj LF body LF endobj)* ++ rest` — `rest` is
arbitrary, in particular the remainder of a file cut at ANY offset — this file proves on
`Model/HISObj.lean` / `Model/HISSeq.lean`:

* `his_indirect_obj_rt`, `complete_object_checked`: every completely written object (every good
  object of C01, any reference in range, any formatting mode) is read back by
  `ReadIndirectObject` at its offset whatever follows it, and `checkObjects` records it unbroken
  with its end offset;
* `ok_implies_endobj_after`, `cut_object_broken`: an object whose remaining bytes do not contain
  `endobj` (the object containing the cut) is recorded as Broken if it is listed at all;
* `flat_lists`: the scan loop over the **un-windowed** leftmost-first matcher locates every one
  of the objects at its offset, if no marker can start inside the bodies (`Quiet`, with the
  syntactic criterion `lineQuiet`: no line starts with a digit, `x`, `t`, `s` or `%`);
* `scan_recovers_flat_partial`: the three together; `cut_shape`: every cut of a writer-shaped
  file has the shape assumed.

* `find_hit`, `find_first`, `locLoop_mono`, `window_lists`, `locate_single_window_partial`: the
  windowed `locateObjects` itself, for inputs that fit into one window (at most `scannerBufSize`
  bytes): if it returns a listing, every object is in it at its offset.

**Partial**: for inputs longer than one window the equality "windowed Find = leftmost match over
the whole input" is NOT proved (it is false without quietness hypotheses: `^` also matches at
every window restart, word boundaries at every window end; with them it needs a case analysis of
where a window ends relative to a header — markers shorter than the overlap — which is not
done).  Termination of the windowed loop (the result is `.ok`) is a hypothesis of the
single-window theorem.
-/
namespace PdfVerif.C20hisd
open PdfVerif PdfVerif.HIS PdfVerif.C01b PdfVerif.C01L PdfVerif.C01d PdfVerif.C20hisb PdfVerif.C20hisc


/-- `"\nendobj"` -/
def k7 : Bytes := [10, 101, 110, 100, 111, 98, 106]

theorem readInt_eq (inp : Bytes) : HIS.readInt inp = FIO.readIntegerE inp := by
  unfold HIS.readInt FIO.readIntegerE
  rfl

theorem k7_cont (ns : Bool) (rest : Bytes) : Cont ns (k7 ++ rest) := by
  have h : k7 ++ rest = 10 :: 101 :: ([110, 100, 111, 98, 106] ++ rest) := by simp [k7]
  rw [h]
  exact .inr ⟨.inr rfl, 101, _, rfl, by simp [tokStart]⟩

theorem skipWS_k7 (rest : Bytes) :
    skipWS (k7 ++ rest) = (101 :: ([110, 100, 111, 98, 106] ++ rest), false) := by
  have h : k7 ++ rest = 10 :: 101 :: ([110, 100, 111, 98, 106] ++ rest) := by simp [k7]
  rw [h, skipWS_lf]
  exact skipWS_tok 101 _ (by simp [tokStart])

/-- `readObjectTop` agrees with `readObject` whenever the latter succeeds -/
theorem readObjectTop_of_readObject (file : Bytes) (p : Nat) (getInt : Obj → Except Err Int) (v : Obj) (k : Bytes)
    (h : readObject (objFuel (file.drop p)) 0 (file.drop p) = .ok (v, k)) (limit : Option Nat := none) :
    readObjectTop file p getInt false limit = .ok (.obj v, file.length - k.length) := by
  unfold readObjectTop
  generalize file.drop p = inp at h
  simp only []
  split
  · rename_i t
    have hf : objFuel (60 :: 60 :: t) = (3 * (60 :: 60 :: t).length + 7) + 1 := by simp [objFuel]
    rw [hf] at h
    have hcase : readObject (3 * (60 :: 60 :: t).length + 7 + 1) 0 (60 :: 60 :: t)
        = dictResult (readDict (3 * (60 :: 60 :: t).length + 7) 0 (60 :: 60 :: t)) := by
      rw [readObject]
      simp [startsWith, isPrefixOf, kw_null, kw_true, kw_false, isDigit, dictResult]
      cases readDict (3 * (t.length + 1 + 1) + 7) 0 (60 :: 60 :: t) with
      | error e => rfl
      | ok p => rfl
    rw [hcase] at h
    cases hd : readDict (3 * (60 :: 60 :: t).length + 7) 0 (60 :: 60 :: t) with
    | error e => rw [hd] at h; simp [dictResult] at h
    | ok pr =>
      obtain ⟨d, r⟩ := pr
      rw [hd] at h
      have hm := (mono_all (3 * (60 :: 60 :: t).length + 7)).2.2.2.1 0 (60 :: 60 :: t) (d, r) hd
      rw [hf, hm]
      simp only [dictResult] at h
      split at h
      · simp at h
      · rename_i hns
        simp only [Except.ok.injEq, Prod.mk.injEq] at h
        obtain ⟨rfl, rfl⟩ := h
        simp [hns]
  · rename_i t
    simp only [Bool.false_eq_true, if_false]
    rw [h]
  · rw [h]

/-- the text of one object as `Writer.Put` emits it, without the final line feed:
    `N G obj\n`, the formatted object, `\nendobj` -/
def objText (num gen : Nat) (body : Bytes) : Bytes := FIO.objHeader num gen ++ body ++ k7

/-- **A completely written object reads back, whatever surrounds it.**  For every good object
(C01's limits; not a bare reference), every reference in range, every formatting mode, every
`pre`, every `rest` (in particular the empty rest of a file cut right behind `endobj`) and every `getInt`:
`ReadIndirectObject` at the offset of the object returns it (up to the normal form `nrm`), with
its reference, and stops behind `endobj`. -/
theorem his_indirect_obj_rt (opt : FmtOpt) (o : Obj) (hg : good o = true) (hd : depthOk o) (hr : isRefObj o = false)
    (num gen : Nat) (hnum : num < Gen.his_xref_maxXRefSize) (hgen : gen ≤ Gen.his_xref_maxGeneration) :
    ∃ body, format opt [o] = some body ∧ nrm (rd o.canon) = nrm o ∧
      ∀ (pre rest : Bytes) (getInt : Obj → Except Err Int) (limit : Option Nat),
      readIndirect (pre ++ (objText num gen body ++ rest)) pre.length getInt false limit
        = .ok { val := .obj (rd o.canon), num := num, gen := gen, endPos := pre.length + (objText num gen body).length } := by
  have hgc := good_canon o hg
  obtain ⟨⟨bs, ns'⟩, hf⟩ := fmtObj_some opt o.canon hgc false
  obtain ⟨tok, c, t, hf', htok, hstart, hbs⟩ := fmtObj_shape opt false o.canon bs ns' hgc hf
  have hbt : bs = tok := by
    rcases hbs with ⟨h, _⟩ | ⟨h, _⟩
    · exact h
    · cases h
  subst hbt
  refine ⟨bs, (format_single opt o bs).mpr ⟨ns', hf⟩, nrm_rd_canon o hg, ?_⟩
  intro pre rest getInt limit
  have hdc : 0 + depthOf o.canon ≤ Gen.scanner_maxScannerNestDepth := by
    have := depth_canon o; unfold depthOk at hd; omega
  obtain ⟨k', h1, h2, _⟩ := readsBack_all opt o.canon hgc (by rw [isRefObj_canon]; exact hr) 0 hdc
    bs ns' hf (k7 ++ rest) (k7_cont ns' rest) (objFuel (bs ++ (k7 ++ rest))) (by simp [objFuel])
  -- the file and its suffixes
  let hdr := FIO.objHeader num gen
  let file := pre ++ (objText num gen bs ++ rest)
  have hfile1 : file = pre ++ (hdr ++ (bs ++ (k7 ++ rest))) := by simp [file, objText, hdr, List.append_assoc]
  have hdrop0 : file.drop pre.length = hdr ++ (bs ++ (k7 ++ rest)) := by
    rw [hfile1]; exact C04hisb.drop_len_append _ _
  have hlen1 : file.length - (bs ++ (k7 ++ rest)).length = (pre ++ hdr).length := by
    rw [hfile1]; simp; omega
  have hdrop1 : file.drop (file.length - (bs ++ (k7 ++ rest)).length) = bs ++ (k7 ++ rest) := by
    rw [hlen1]
    have : file = (pre ++ hdr) ++ (bs ++ (k7 ++ rest)) := by rw [hfile1]; simp [List.append_assoc]
    rw [this]; exact C04hisb.drop_len_append _ _
  have htop := readObjectTop_of_readObject file (file.length - (bs ++ (k7 ++ rest)).length) getInt (rd o.canon) k'
    (by rw [hdrop1]; exact h1) limit
  have hk' : skipWS k' = (101 :: ([110, 100, 111, 98, 106] ++ rest), false) := by
    rcases h2 with h | h
    · rw [h]; exact skipWS_k7 rest
    · rw [h, skipWS_k7]; exact skipWS_tok 101 _ (by simp [tokStart])
  -- `k'` is a suffix of the file: either `"\nendobj" ++ rest` or `"endobj" ++ rest`
  have hk'drop : file.drop (file.length - k'.length) = k' := by
    rcases h2 with h | h
    · rw [h]
      have : file = (pre ++ hdr ++ bs) ++ (k7 ++ rest) := by rw [hfile1]; simp [List.append_assoc]
      have hl : file.length - (k7 ++ rest).length = (pre ++ hdr ++ bs).length := by rw [this]; simp; omega
      rw [hl, this]; exact C04hisb.drop_len_append _ _
    · rw [h, skipWS_k7]
      have : file = (pre ++ hdr ++ bs ++ [10]) ++ (101 :: ([110, 100, 111, 98, 106] ++ rest)) := by
        rw [hfile1]; simp [List.append_assoc, k7]
      have hl : file.length - (101 :: ([110, 100, 111, 98, 106] ++ rest)).length = (pre ++ hdr ++ bs ++ [10]).length := by
        rw [this]; simp; omega
      rw [hl, this]; exact C04hisb.drop_len_append _ _
  -- the header
  have e0 : hdr ++ (bs ++ (k7 ++ rest))
      = FIO.decOf num ++ (32 :: (FIO.decOf gen ++ (32 :: 111 :: 98 :: 106 :: 10 :: (bs ++ (k7 ++ rest))))) := by
    simp [hdr, FIO.objHeader, FIO.kObj]
  have e1 : readInt (FIO.decOf num ++ (32 :: (FIO.decOf gen ++ (32 :: 111 :: 98 :: 106 :: 10 :: (bs ++ (k7 ++ rest))))))
      = .ok ((num : Int), 32 :: (FIO.decOf gen ++ (32 :: 111 :: 98 :: 106 :: 10 :: (bs ++ (k7 ++ rest))))) := by
    rw [readInt_eq]
    exact C02fioc.readIntegerE_decOf num (by simp [Gen.his_xref_maxXRefSize] at hnum; omega) _ (by simp [C02fioc.NumEnd, C02fioc.isDigit_32])
  have e2 : readInt (32 :: (FIO.decOf gen ++ (32 :: 111 :: 98 :: 106 :: 10 :: (bs ++ (k7 ++ rest)))))
      = .ok ((gen : Int), 32 :: 111 :: 98 :: 106 :: 10 :: (bs ++ (k7 ++ rest))) := by
    rw [readInt_eq, C02fioc.readIntegerE_ws 32 (.inl rfl)]
    exact C02fioc.readIntegerE_decOf gen (by simp [Gen.his_xref_maxGeneration] at hgen; omega) _ (by simp [C02fioc.NumEnd, C02fioc.isDigit_32])
  have e3 : skipWS (32 :: 111 :: 98 :: 106 :: 10 :: (bs ++ (k7 ++ rest)))
      = (111 :: 98 :: 106 :: 10 :: (bs ++ (k7 ++ rest)), false) := by
    rw [skipWS_sp]
    have h111 : isSpace 111 = false := by decide +kernel
    simp [skipWS, h111]
  have e4 : skipWS (10 :: (bs ++ (k7 ++ rest))) = (bs ++ (k7 ++ rest), false) := by
    rw [skipWS_lf, htok]
    exact skipWS_tok c _ (objStart_tokStart hstart)
  show readIndirect file pre.length getInt false limit = _
  unfold readIndirect
  rw [hdrop0, e0, e1]
  simp only [e2, e3]
  have hobj : startsWith (111 :: 98 :: 106 :: 10 :: (bs ++ (k7 ++ rest))) kwObj = true := by
    simp [startsWith, kwObj, isPrefixOf]
  simp only [hobj, Bool.not_true, Bool.false_eq_true, ↓reduceIte, List.drop_succ_cons, List.drop_zero, e4]
  have hr' : (decide ((num : Int) < 0) || decide ((num : Int) ≥ (Gen.his_xref_maxXRefSize : Nat)) || decide ((gen : Int) < 0) ||
      decide ((gen : Int) > (Gen.his_xref_maxGeneration : Nat))) = false := by
    simp; omega
  simp only [hr', Bool.false_eq_true, ↓reduceIte]
  rw [htop]
  simp only [hk'drop, hk']
  have hend : startsWith (101 :: ([110, 100, 111, 98, 106] ++ rest)) kwEndobj = true := by
    simp [startsWith, kwEndobj, isPrefixOf]
  have hpos : file.length - (101 :: ([110, 100, 111, 98, 106] ++ rest)).length + 6
      = pre.length + (objText num gen bs).length := by
    rw [hfile1]; simp [objText, k7, hdr]; omega
  simp only [List.cons_append, List.nil_append, List.length_cons] at hend hpos
  cases hv : rd o.canon <;> simp [hend, hpos]



theorem IsSuffix.len {r g : Bytes} (h : IsSuffix r g) : r.length ≤ g.length := by
  obtain ⟨q, rfl⟩ := h; simp

theorem isSuffix_drop_ge (file : Bytes) (pos p : Nat) (h : pos ≤ p) : IsSuffix (file.drop p) (file.drop pos) :=
  ⟨p - pos, by rw [List.drop_drop]; congr 1; omega⟩

theorem recoverExtent_after (file : Bytes) (start : Nat) (ext : StreamExt) (limit : Option Nat := none)
    (h : recoverExtent file start limit = .ok ext) : start ≤ ext.after := by
  unfold recoverExtent at h
  repeat' (first | (cases h; done) | split at h)
  all_goals (cases h; simp only []; omega)

/-- `findLimit` (1430e5c): a recovered extent under the limit `l` (the start of the next located
    object) is the extent found without a limit, and its EOL+`endstream` begins in front of `l`;
    a first EOL+`endstream` at or behind `l` is an error (the object becomes Broken instead of
    swallowing its successor) -/
theorem recoverExtent_limit (file : Bytes) (start l : Nat) :
    (∀ ext, recoverExtent file start (some l) = .ok ext →
        recoverExtent file start none = .ok ext ∧ ext.after < l + 10) ∧
    (∀ ext, recoverExtent file start none = .ok ext → ext.after ≥ l + 10 →
        recoverExtent file start (some l) = .error .malformed) := by
  unfold recoverExtent
  cases findEolEndstream (file.drop start) with
  | none => exact ⟨fun ext h => (by cases h), fun ext h => (by cases h)⟩
  | some i =>
    simp only [Bool.false_eq_true, if_false, decide_eq_true_eq]
    by_cases hl : start + i ≥ l
    · simp only [hl, if_true]
      exact ⟨fun ext h => (by cases h), fun ext _ _ => trivial⟩
    · simp only [hl, if_false]
      refine ⟨fun ext h => ⟨h, ?_⟩, fun ext h hge => ?_⟩
      · cases h; simp only []; omega
      · cases h; simp only [] at hge; omega

theorem readStreamData_after (file : Bytes) (p : Nat) (declared : Option Nat) (ext : StreamExt) (limit : Option Nat := none)
    (h : readStreamData file p declared limit = .ok ext) : p ≤ ext.after := by
  unfold readStreamData at h
  repeat' (first | (cases h; done) | (have := recoverExtent_after _ _ _ _ h; omega) | split at h | simp only [] at h)
  all_goals first
    | (cases h; simp only []; omega)
    | skip
  all_goals (
    rename_i hsw
    cases h
    simp only []
    rename_i _ r heq
    generalize hX : List.drop _ file = X at heq
    have hXl := congrArg List.length hX
    simp only [List.length_drop] at hXl
    have h2 := C20hisb.skipWS_len X
    rw [heq] at h2
    have h3 : r.length ≥ 1 := by
      cases r with
      | nil => simp [startsWith, kwEndstream, isPrefixOf] at hsw
      | cons _ _ => simp
    simp only at h2
    omega)

theorem readObjectTop_after (file : Bytes) (pos : Nat) (getInt : Obj → Except Err Int) (so : Bool)
    (v : Val) (p : Nat) (limit : Option Nat := none) (h : readObjectTop file pos getInt so limit = .ok (v, p)) : pos ≤ p := by
  unfold readObjectTop at h
  have hobj : ∀ (v : Val) (p : Nat), (match readObject (objFuel (file.drop pos)) 0 (file.drop pos) with
      | .error e => (Except.error e : Except Err (Val × Nat))
      | .ok (o, r) => .ok (.obj o, file.length - r.length)) = .ok (v, p) → pos ≤ p := by
    intro v p h
    have hg := readObject_good 0 (file.drop pos)
    split at h
    · cases h
    · rename_i o r he
      rw [he] at hg
      simp only [GoodLt, List.length_drop] at hg
      cases h; omega
  simp only [] at h
  split at h
  · split at h
    · cases h
    · have hg := readDict_good 0 (file.drop pos)
      split at h
      · cases h
      · rename_i d r hd
        rw [hd] at hg
        simp only [GoodLt, List.length_drop] at hg
        have hs := C20hisb.skipWS_len r
        split at h
        · split at h
          · cases h
          · split at h
            · cases h
            · rename_i ext hext
              have := readStreamData_after _ _ _ _ _ hext
              cases h; omega
        · cases h; omega
  · split at h
    · cases h
    · exact hobj v p h
  · exact hobj v p h

/-- **A successful `ReadIndirectObject` at `pos` has seen the keyword `endobj` at or behind
`pos`.** -/
theorem ok_implies_endobj_after (file : Bytes) (pos : Nat) (getInt : Obj → Except Err Int) (scalarOnly : Bool)
    (ind : Indirect) (limit : Option Nat := none) (h : readIndirect file pos getInt scalarOnly limit = .ok ind) :
    ∃ q, isPrefixOf kwEndobj ((file.drop pos).drop q) = true := by
  have fin : ∀ (v : Val) (r : Bytes) (num gen : Nat), IsSuffix r (file.drop pos) →
      (if startsWith r kwEndobj = true then
        (Except.ok { val := v, num := num, gen := gen, endPos := file.length - r.length + 6 } : Except Err Indirect)
       else .error .malformed) = .ok ind → ∃ q, isPrefixOf kwEndobj ((file.drop pos).drop q) = true := by
    intro v r num gen hs hfin
    obtain ⟨q, rfl⟩ := hs
    split at hfin
    · rename_i hsw; exact ⟨q, hsw⟩
    · cases hfin
  unfold readIndirect at h
  have hg0 : IsSuffix (file.drop pos) (file.drop pos) := ⟨0, rfl⟩
  split at h
  · cases h
  · rename_i number r1 h1
    have s1 := readInt_suffix hg0 h1
    split at h
    · cases h
    · rename_i generation r2 h2
      have s2 := readInt_suffix s1 h2
      have s3 := s2.skipWS
      split at h
      · cases h
      · rename_i r3 hs3
        rw [hs3] at s3
        simp only at s3
        split at h
        · cases h
        · have s4 := (s3.drop 3).skipWS
          split at h
          · cases h
          · rename_i r4 hs4
            rw [hs4] at s4
            simp only at s4
            have hl4 := IsSuffix.len s4
            simp only [List.length_drop] at hl4
            split at h
            · cases h
            · split at h
              · cases h
              · rename_i v p hv
                have hp := readObjectTop_after _ _ _ _ _ _ _ hv
                -- the reader continues at `p`, which is not before `pos`
                by_cases hpos : pos ≤ file.length
                · have hpp : pos ≤ p := by omega
                  have hsuf0 : IsSuffix (skipWS (file.drop p)).1 (file.drop pos) :=
                    (isSuffix_drop_ge file pos p hpp).skipWS
                  split at h
                  · cases h
                  · rename_i r hs
                    have hsuf : IsSuffix r (file.drop pos) := by rw [hs] at hsuf0; exact hsuf0
                    simp only [] at h
                    split at h
                    · split at h
                      · rename_i hsw; obtain ⟨q, hq⟩ := hsuf; subst hq; exact ⟨q, hsw⟩
                      · split at h
                        · cases h
                        · rename_i b r2' hb
                          have hs2 := readInt_suffix hsuf hb
                          have hs3' := hs2.skipWS
                          split at h
                          · cases h
                          · rename_i r3' hs3''
                            rw [hs3''] at hs3'
                            simp only at hs3'
                            split at h
                            · rename_i r4'
                              have hs5 := (hs3'.tail).skipWS
                              split at h
                              · cases h
                              · rename_i r5 hs5'
                                rw [hs5'] at hs5
                                simp only at hs5
                                split at h
                                · cases h
                                · split at h
                                  · rename_i hsw; obtain ⟨q, hq⟩ := hs5; subst hq; exact ⟨q, hsw⟩
                                  · cases h
                            · cases h
                    · split at h
                      · rename_i hsw; obtain ⟨q, hq⟩ := hsuf; subst hq; exact ⟨q, hsw⟩
                      · cases h
                · -- nothing can be read behind the end of the file
                  have : file.drop pos = [] := List.drop_eq_nil_of_le (by omega)
                  rw [this] at h1
                  simp [readInt, skipWS] at h1



/-! ## the un-windowed scan -/

/-- `locateObjects`' loop over an un-windowed `Find`: the leftmost match in the rest of the
    input, with `^` at the position where the search starts -/
def flatLoop (file : Bytes) : Nat → Nat → LocState → LocState
  | 0, _, s => s
  | f+1, p, s =>
    match matchMarker (file.drop p) with
    | none => s
    | some m => flatLoop file f (p + m.b) (locStep s (p + m.a + m.tag.1) m.tag.2)

/-- all objects recorded so far -/
def allObjs (s : LocState) : List FileObject := s.done.flatMap (·.objects) ++ s.cur.objects

/-- an unused current section holds no object -/
def WF (s : LocState) : Prop := s.used = false → s.cur.objects = []

theorem wf_finish (s : LocState) : WF s.finish := by
  intro _; rfl

theorem mem_finish (s : LocState) (hw : WF s) (fo : FileObject) (h : fo ∈ allObjs s) : fo ∈ allObjs s.finish := by
  unfold allObjs LocState.finish at *
  cases hu : s.used with
  | false =>
    have := hw hu
    simp only [this, List.append_nil, List.not_mem_nil, or_false, List.mem_append] at h
    simp only [Bool.false_eq_true, if_false, List.mem_append]
    exact .inl h
  | true =>
    simp only [if_true, List.flatMap_cons, List.mem_append, List.mem_reverse] at h ⊢
    rcases h with h | h
    · exact .inl (.inr h)
    · exact .inl (.inl h)

theorem wf_locStep (s : LocState) (pos : Nat) (m : Marker) (hw : WF s) : WF (locStep s pos m) := by
  cases m with
  | obj n g =>
    simp only [locStep]
    split
    · exact hw
    · split
      · exact hw
      · split
        · exact hw
        · intro h; simp at h
  | xref => intro h; simp [locStep] at h
  | trailer => intro h; simp [locStep] at h
  | startxref => intro h; simp [locStep] at h
  | eof => simp only [locStep]; exact wf_finish _

theorem mem_locStep (s : LocState) (pos : Nat) (m : Marker) (hw : WF s) (fo : FileObject)
    (h : fo ∈ allObjs s) : fo ∈ allObjs (locStep s pos m) := by
  cases m with
  | obj n g =>
    simp only [locStep]
    split
    · exact h
    · split
      · exact h
      · split
        · exact h
        · by_cases ht : s.inTrailer = true
          · have := mem_finish s hw fo h
            simp only [ht, if_true]
            unfold allObjs at this ⊢
            simp only [List.mem_append, List.mem_cons] at this ⊢
            rcases this with h1 | h1
            · exact .inl h1
            · exact .inr (.inr h1)
          · simp only [ht, Bool.false_eq_true, if_false]
            unfold allObjs at h ⊢
            simp only [List.mem_append, List.mem_cons] at h ⊢
            rcases h with h1 | h1
            · exact .inl h1
            · exact .inr (.inr h1)
  | xref => simpa [locStep, allObjs] using h
  | trailer => simpa [locStep, allObjs] using h
  | startxref => simpa [locStep, allObjs] using h
  | eof =>
    simp only [locStep]
    apply mem_finish
    · intro hu; exact hw hu
    · simpa [allObjs] using h

theorem flatLoop_mono (file : Bytes) : ∀ (f p : Nat) (s : LocState), WF s → ∀ fo, fo ∈ allObjs s →
    fo ∈ allObjs (flatLoop file f p s) ∧ WF (flatLoop file f p s) := by
  intro f
  induction f with
  | zero => intro p s hw fo h; exact ⟨h, hw⟩
  | succ f ih =>
    intro p s hw fo h
    simp only [flatLoop]
    split
    · exact ⟨h, hw⟩
    · exact ih _ _ (wf_locStep _ _ _ hw) fo (mem_locStep _ _ _ hw fo h)

/-! ## regions in which no marker can start -/

/-- first bytes of the five markers: a digit, `x`, `t`, `s`, `%` -/
def starter (c : Nat) : Bool := isDigit c || c == 120 || c == 116 || c == 115 || c == 37

theorem body_none_nil : matchMarkerBody [] = none := by
  simp [matchMarkerBody, spanP, isPrefixOf, kwObj, kwXref, kwTrailer, kwStartxref, kwEOF]

theorem body_none (c : Nat) (t : Bytes) (h : starter c = false) : matchMarkerBody (c :: t) = none := by
  simp only [starter, Bool.or_eq_false_iff, beq_eq_false_iff_ne] at h
  obtain ⟨⟨⟨⟨h1, h2⟩, h3⟩, h4⟩, h5⟩ := h
  simp [matchMarkerBody, spanP, h1, isPrefixOf, kwXref, kwTrailer, kwStartxref, kwEOF, h2, h3, h4, h5,
    Ne.symm h2, Ne.symm h3, Ne.symm h4, Ne.symm h5]

/-- semantic quietness: wherever the search starts in `q` and whatever follows `q`, no match
    starts inside `q` (`atStart` refers to the first byte of `q`) -/
def Quiet (q : Bytes) : Prop :=
  ∀ (y : Bytes) (j : Nat), j < q.length → matchMarkerAt (j == 0) ((q ++ y).drop j) = none

/-- syntactic criterion: every byte that follows an EOL byte is not a marker start, and the
    last byte is not an EOL byte -/
def lineQuiet : Bytes → Bool
  | [] => true
  | [c] => !isEolByte c
  | c :: d :: t => (!isEolByte c || !starter d) && lineQuiet (d :: t)

theorem quiet_head (c : Nat) (t y : Bytes) (hq : lineQuiet (c :: t) = true) (atStart : Bool)
    (hs : atStart = true → starter c = false) : matchMarkerAt atStart ((c :: t) ++ y) = none := by
  have hstart : (if atStart = true then (matchMarkerBody ((c :: t ++ y).drop 0)).map (fun x => (0 + x.1, 0, x.2)) else none) = none := by
    cases atStart with
    | false => rfl
    | true => simp [body_none c (t ++ y) (hs rfl)]
  have h10 : starter 10 = false := by decide
  unfold matchMarkerAt
  -- the three EOL alternatives
  by_cases hc13 : c = 13
  · subst hc13
    cases t with
    | nil => simp [lineQuiet, isEolByte] at hq
    | cons d t' =>
      have hd : starter d = false := by simp [lineQuiet, isEolByte] at hq; exact hq.1
      by_cases hd10 : d = 10
      · subst hd10
        cases t' with
        | nil => simp [lineQuiet, isEolByte] at hq
        | cons e t'' =>
          have he : starter e = false := by simp [lineQuiet, isEolByte] at hq; exact hq.2.1
          simp [body_none e _ he, body_none 10 _ h10]
          cases atStart with
          | false => intro h; cases h
          | true => simp [body_none 13 _ (hs rfl)]
      · simp [hd10, body_none d _ hd]
        cases atStart with
        | false => intro h; cases h
        | true => simp [body_none 13 _ (hs rfl)]
  · by_cases hc10 : c = 10
    · subst hc10
      cases t with
      | nil => simp [lineQuiet, isEolByte] at hq
      | cons d t' =>
        have hd : starter d = false := by simp [lineQuiet, isEolByte] at hq; exact hq.1
        simp [body_none d _ hd]
        cases atStart with
        | false => intro h; cases h
        | true => simp [body_none 10 _ h10]
    · simp [hc13, hc10]
      cases atStart with
      | false => intro h; cases h
      | true => simp [body_none c _ (hs rfl)]

theorem lineQuiet_tail (c : Nat) (t : Bytes) (h : lineQuiet (c :: t) = true) (ht : t ≠ []) : lineQuiet t = true := by
  cases t with
  | nil => exact absurd rfl ht
  | cons d t' => simp [lineQuiet] at h; exact h.2

theorem quiet_aux : ∀ (j : Nat) (q : Bytes) (at0 : Bool), lineQuiet q = true →
    (at0 = true → ∀ c t, q = c :: t → starter c = false) → ∀ (y : Bytes), j < q.length →
    matchMarkerAt (j == 0 && at0) ((q ++ y).drop j) = none := by
  intro j
  induction j with
  | zero =>
    intro q at0 hq hhead y hj
    cases q with
    | nil => simp at hj
    | cons c t =>
      simp only [List.drop_zero, beq_self_eq_true, Bool.true_and]
      exact quiet_head c t y hq at0 (fun h => hhead h c t rfl)
  | succ j ih =>
    intro q at0 hq _ y hj
    cases q with
    | nil => simp at hj
    | cons c t =>
      have ht : t ≠ [] := by intro h; subst h; simp at hj
      have hqt := lineQuiet_tail c t hq ht
      have := ih t false hqt (fun h => by cases h) y (by simp at hj ⊢; omega)
      simp only [Bool.and_false] at this
      simpa using this

/-- **the syntactic criterion implies quietness** (the first byte must not be a marker start
    either, because `^` matches where the search starts) -/
theorem quiet_of_lineQuiet (q : Bytes) (hq : lineQuiet q = true)
    (hhead : ∀ c t, q = c :: t → starter c = false) : Quiet q := by
  intro y j hj
  have := quiet_aux j q true hq (fun _ => hhead) y hj
  simpa using this

/-! ## one step of the scan: the next header behind a quiet region is found and recorded -/

/-- `N G obj` as the writer prints it -/
def hdr7 (num gen : Nat) : Bytes := headerBytes (FIO.decOf num) [32] (FIO.decOf gen) [32]

theorem decOf_digits (n : Nat) (hn : n < 10 ^ 19) :
    (∀ x ∈ FIO.decOf n, isDigit x = true) ∧ FIO.decOf n ≠ [] ∧ digitsVal (FIO.decOf n) 0 = n := by
  obtain ⟨h1, h2, h3, _⟩ := C02fioc.decOf_spec n 19 hn (by omega)
  exact ⟨fun x hx => by simpa using (List.all_eq_true.mp h1) x hx, h3, h2⟩

theorem flatLoop_step (pre q : Bytes) (num gen : Nat) (tail : Bytes) (hq : Quiet q)
    (hnum : num < Gen.his_xref_maxXRefSize) (hgen : gen < 65536) (f : Nat) (s : LocState) :
    flatLoop (pre ++ (q ++ (10 :: (hdr7 num gen ++ (10 :: tail))))) (f + 1) pre.length s
      = flatLoop (pre ++ (q ++ (10 :: (hdr7 num gen ++ (10 :: tail))))) f
          (pre.length + q.length + 1 + (hdr7 num gen).length)
          (locStep s (pre.length + q.length + 1) (.obj (FIO.decOf num) (FIO.decOf gen))) := by
  obtain ⟨hn1, hn2, _⟩ := decOf_digits num (by simp [Gen.his_xref_maxXRefSize] at hnum; omega)
  obtain ⟨hg1, hg2, _⟩ := decOf_digits gen (by omega)
  have hws : ∀ x ∈ [32], isMarkerWS x = true := by simp [isMarkerWS]
  have hrec := header_recognised [10] (FIO.decOf num) [32] (FIO.decOf gen) [32] (10 :: tail) (.inl rfl)
    hn2 (by simp) hg2 (by simp) hn1 hg1 hws hws (by simp [wordEnd, isWordByte, isDigit]) (q.length == 0)
  have hfound := marker_found_at q 10 (hdr7 num gen ++ (10 :: tail)) _ _ _
    (fun j hj => hq _ j hj) (by simpa [hdr7] using hrec)
  have hdrop : (pre ++ (q ++ (10 :: (hdr7 num gen ++ (10 :: tail))))).drop pre.length
      = q ++ (10 :: (hdr7 num gen ++ (10 :: tail))) := C04hisb.drop_len_append _ _
  simp only [flatLoop, hdrop]
  cases hm : matchMarker (q ++ 10 :: (hdr7 num gen ++ 10 :: tail)) with
  | none => rw [hm] at hfound; simp at hfound
  | some m =>
    rw [hm] at hfound
    simp only [Option.map, Option.some.injEq, Prod.mk.injEq] at hfound
    obtain ⟨ha, hb, ht⟩ := hfound
    have hlen : (hdr7 num gen).length = (FIO.decOf num).length + 1 + (FIO.decOf gen).length + 1 + 3 := by
      simp [hdr7, headerBytes, kwObj]; omega
    simp only [ha, hb, ht, List.length_cons, List.length_nil]
    congr 1 <;> omega

/-! ## all objects of a writer-shaped input are found -/

/-- the objects as the writer emits them, each preceded by the line feed that ends the previous
    line: `\n N G obj \n body \nendobj` -/
def objsText : List (Nat × Nat × Bytes) → Bytes
  | [] => []
  | (n, g, b) :: os => 10 :: (hdr7 n g ++ (10 :: (b ++ k7))) ++ objsText os

/-- the headers one expects to be located, given the offset of the first line feed -/
def expected : Nat → List (Nat × Nat × Bytes) → List FileObject
  | _, [] => []
  | off, (n, g, b) :: os =>
    { num := n, gen := g, start := off + 1 } :: expected (off + 1 + (hdr7 n g).length + 1 + b.length + 7) os

/-- reference in range, and no marker can start between `obj` and the end of `endobj` -/
def ObjOK (o : Nat × Nat × Bytes) : Prop :=
  o.1 < Gen.his_xref_maxXRefSize ∧ o.2.1 < 65536 ∧ Quiet (10 :: (o.2.2 ++ k7))

theorem flat_lists : ∀ (os : List (Nat × Nat × Bytes)) (pre q rest : Bytes) (f : Nat) (s : LocState),
    Quiet q → WF s → (∀ o ∈ os, ObjOK o) → os.length ≤ f →
    ∀ fo ∈ expected (pre.length + q.length) os,
      fo ∈ allObjs (flatLoop (pre ++ (q ++ (objsText os ++ rest))) f pre.length s) := by
  intro os
  induction os with
  | nil => intro pre q rest f s _ _ _ _ fo hfo; simp [expected] at hfo
  | cons o os ih =>
    intro pre q rest f s hq hw hok hf fo hfo
    obtain ⟨n, g, b⟩ := o
    obtain ⟨hn, hg, hqb⟩ := hok (n, g, b) (by simp)
    simp only at hn hg hqb
    cases f with
    | zero => simp at hf
    | succ f =>
      have hfile : pre ++ (q ++ (objsText ((n, g, b) :: os) ++ rest))
          = pre ++ (q ++ (10 :: (hdr7 n g ++ (10 :: (b ++ k7 ++ objsText os ++ rest))))) := by
        simp [objsText, List.append_assoc]
      rw [hfile, flatLoop_step pre q n g _ hq hn hg f s]
      have hw' := wf_locStep s (pre.length + q.length + 1) (.obj (FIO.decOf n) (FIO.decOf g)) hw
      simp only [expected, List.mem_cons] at hfo
      rcases hfo with rfl | hfo
      · -- the object just recorded stays recorded
        obtain ⟨_, _, hvn⟩ := decOf_digits n (by simp [Gen.his_xref_maxXRefSize] at hn; omega)
        obtain ⟨_, _, hvg⟩ := decOf_digits g (by omega)
        have hrec := (locStep_records s (pre.length + q.length + 1) (FIO.decOf n) (FIO.decOf g)
          (by rw [hvn]; exact hn) (by rw [hvg]; exact hg)).1
        rw [hvn, hvg] at hrec
        have hmem : ({ num := n, gen := g, start := pre.length + q.length + 1 } : FileObject)
            ∈ allObjs (locStep s (pre.length + q.length + 1) (.obj (FIO.decOf n) (FIO.decOf g))) := by
          unfold allObjs
          apply List.mem_append_right
          cases hc : (locStep s (pre.length + q.length + 1) (.obj (FIO.decOf n) (FIO.decOf g))).cur.objects with
          | nil => rw [hc] at hrec; simp at hrec
          | cons x xs => rw [hc] at hrec; simp at hrec; rw [hrec]; simp
        exact (flatLoop_mono _ _ _ _ hw' _ hmem).1
      · -- the rest: the same situation behind this header
        have hfile2 : pre ++ (q ++ (10 :: (hdr7 n g ++ (10 :: (b ++ k7 ++ objsText os ++ rest)))))
            = (pre ++ q ++ 10 :: hdr7 n g) ++ ((10 :: (b ++ k7)) ++ (objsText os ++ rest)) := by
          simp [List.append_assoc]
        have hlen : (pre ++ q ++ 10 :: hdr7 n g).length = pre.length + q.length + 1 + (hdr7 n g).length := by
          simp; omega
        rw [hfile2, ← hlen]
        apply ih (pre ++ q ++ 10 :: hdr7 n g) (10 :: (b ++ k7)) rest f _ hqb hw'
          (fun o ho => hok o (by simp [ho])) (by simp at hf; omega)
        have hoff : (pre ++ q ++ 10 :: hdr7 n g).length + (10 :: (b ++ k7)).length
            = pre.length + q.length + 1 + (hdr7 n g).length + 1 + b.length + 7 := by
          simp [k7]; omega
        rw [hoff]; exact hfo


theorem objText_eq (num gen : Nat) (body : Bytes) :
    objText num gen body = hdr7 num gen ++ (10 :: (body ++ k7)) := by
  simp [objText, hdr7, headerBytes, FIO.objHeader, FIO.kObj, kwObj, List.append_assoc]

/-- **`checkObjects` on a completely written object**: not Broken, with the end offset of
`endobj` (what `FileInfo.Read` returns is `his_indirect_obj_rt`'s value). -/
theorem complete_object_checked (file : Bytes) (secs : List HIS.Section) (fo : FileObject) (r : Obj) (e : Nat)
    (h : ∀ getInt limit, readIndirect file fo.start getInt false limit
        = .ok { val := .obj r, num := fo.num, gen := fo.gen, endPos := e }) :
    ∃ c, checkObject file secs fo = .ok c ∧ c.broken = false ∧ c.start = fo.start ∧ c.endPos = e
      ∧ c.num = fo.num ∧ c.gen = fo.gen := by
  unfold checkObject
  simp only [h]
  exact ⟨_, rfl, rfl, rfl, rfl, rfl, rfl⟩

/-- **The object containing the cut is Broken** (if its header is listed at all): when the
bytes from its offset to the end of the data do not contain `endobj`. -/
theorem cut_object_broken (file : Bytes) (secs : List HIS.Section) (fo : FileObject)
    (hx : NoEndobj (file.drop fo.start)) :
    ∃ c, checkObject file secs fo = .ok c ∧ c.broken = true := by
  unfold checkObject
  simp only []
  cases hr : readIndirect file fo.start (fun o => (safeGetInt file secs 12 [] o).2) false (nextStart secs fo.start) with
  | ok ind =>
    obtain ⟨q, hq⟩ := ok_implies_endobj_after _ _ _ _ _ _ hr
    rw [hx q] at hq; cases hq
  | error e =>
    rcases readIndirect_typed _ _ _ (fun o => safeGetInt_typed file secs 12 [] o) _ _ e hr with rfl | rfl
    · exact ⟨_, rfl, rfl⟩
    · exact ⟨_, rfl, rfl⟩

/-- every cut of `objects ++ tail` consists of some of the objects, complete, and a remainder
    that is shorter than the next object -/
theorem cut_shape : ∀ (os : List (Nat × Nat × Bytes)) (tail : Bytes) (t : Nat),
    ∃ k rest, (objsText os ++ tail).take t = objsText (os.take k) ++ rest ∧
      (∀ o os', os.drop k = o :: os' → rest.length < (objsText [o]).length) := by
  intro os
  induction os with
  | nil => intro tail t; exact ⟨0, tail.take t, by simp [objsText], by intro o os' h; simp at h⟩
  | cons o os ih =>
    intro tail t
    by_cases ht : t < (objsText [o]).length
    · refine ⟨0, (objsText (o :: os) ++ tail).take t, by simp [objsText], ?_⟩
      intro o' os' h
      simp only [List.drop_zero, List.cons.injEq] at h
      obtain ⟨rfl, _⟩ := h
      simp only [List.length_take]; omega
    · obtain ⟨k, rest, h1, h2⟩ := ih tail (t - (objsText [o]).length)
      refine ⟨k + 1, rest, ?_, ?_⟩
      · have hsplit : objsText (o :: os) ++ tail = objsText [o] ++ (objsText os ++ tail) := by
          obtain ⟨n, g, b⟩ := o; simp [objsText, List.append_assoc]
        have hsplit2 : objsText ((o :: os).take (k + 1)) = objsText [o] ++ objsText (os.take k) := by
          obtain ⟨n, g, b⟩ := o; simp [objsText, List.append_assoc]
        rw [hsplit, hsplit2, List.take_append, List.take_of_length_le (by omega), h1, List.append_assoc]
      · intro o' os' h; exact h2 o' os' (by simpa using h)

/-- the part of the window lemma that holds unconditionally: a match inside the current window
    of `Find` is returned as it is (position, length and tag), and the scanner continues behind it -/
theorem find_hit {τ} (file : Bytes) (matcher : Bytes → Option (Match τ)) (fuel : Nat) (w : Win) (m : Match τ)
    (h : matcher ((file.drop (w.base + w.pos)).take (w.used - w.pos)) = some m) :
    find file matcher (fuel + 1) w = .ok ({ w with pos := w.pos + m.b }, w.base + w.pos + m.a, m.b - m.a, m.tag) := by
  simp only [find, h]

theorem mem_done_of_mem (s : LocState) (hw : WF s) (fo : FileObject) (h : fo ∈ allObjs s) :
    s.finish.done ≠ [] := by
  unfold allObjs at h
  unfold LocState.finish
  rcases List.mem_append.mp h with h | h
  · cases hd : s.done with
    | nil => rw [hd] at h; simp at h
    | cons x xs => cases s.used <;> simp
  · have hu : s.used = true := by
      cases hu : s.used with
      | true => rfl
      | false => rw [hw hu] at h; cases h
    simp [hu]

theorem flatLoop_wf (file : Bytes) : ∀ (f p : Nat) (s : LocState), WF s → WF (flatLoop file f p s) := by
  intro f
  induction f with
  | zero => intro p s hw; exact hw
  | succ f ih =>
    intro p s hw
    simp only [flatLoop]
    split
    · exact hw
    · exact ih _ _ (wf_locStep _ _ _ hw)

/-- every expected header sits in front of the complete text of its object -/
theorem expected_decomp : ∀ (os : List (Nat × Nat × Bytes)) (x rest : Bytes) (fo : FileObject),
    fo ∈ expected x.length os →
    ∃ n g b pre' rest', (n, g, b) ∈ os ∧ fo = { num := n, gen := g, start := pre'.length } ∧
      x ++ (objsText os ++ rest) = pre' ++ (objText n g b ++ rest') := by
  intro os
  induction os with
  | nil => intro x rest fo h; simp [expected] at h
  | cons o os ih =>
    intro x rest fo h
    obtain ⟨n, g, b⟩ := o
    simp only [expected, List.mem_cons] at h
    rcases h with rfl | h
    · refine ⟨n, g, b, x ++ [10], objsText os ++ rest, by simp, by simp, ?_⟩
      simp [objsText, objText_eq, List.append_assoc]
    · have hx : x.length + 1 + (hdr7 n g).length + 1 + b.length + 7 = (x ++ (10 :: (hdr7 n g ++ (10 :: (b ++ k7))))).length := by
        simp [k7]; omega
      rw [hx] at h
      obtain ⟨n', g', b', pre', rest', hm, hfo, hfile⟩ := ih _ rest fo h
      refine ⟨n', g', b', pre', rest', by simp [hm], hfo, ?_⟩
      rw [← hfile]; simp [objsText, List.append_assoc]

/-- **`scan_recovers`, over the un-windowed matcher.**  Let the data be `pre ++ q ++ objects ++ rest`
where the scan stands at `|pre|`, no marker can start in `q` nor between an object's `obj` and
the end of its `endobj` (`Quiet`), every object is `LF N G obj LF body LF endobj` with the
reference in range, and `rest` is ARBITRARY (what a cut at any offset leaves: `cut_shape`).
Then, for every one of the objects:
1. the scan loop lists it at its offset (and therefore the scan does not end with "no PDF content");
2. if its body is the formatted text of a good object `o`, `checkObjects` records it unbroken with
   its end offset, and reading it (`FileInfo.Read`) gives `o` (up to `nrm`);
and 3. any listed header whose remaining bytes do not contain `endobj` (the object containing the
cut) is recorded as Broken.  `checkObjects` never aborts (`checkObject_total`). -/
theorem scan_recovers_flat_partial (opt : FmtOpt) (pre q rest : Bytes)
    (hq : Quiet q) (s : LocState) (hw : WF s) (f : Nat)
    (os : List (Nat × Nat × Bytes)) (hok : ∀ o ∈ os, ObjOK o) (hf : os.length ≤ f) (secs : List HIS.Section) :
    let file := pre ++ (q ++ (objsText os ++ rest))
    let sfin := flatLoop file f pre.length s
    (∀ fo ∈ expected (pre.length + q.length) os, fo ∈ allObjs sfin) ∧
    (os ≠ [] → sfin.finish.done ≠ []) ∧
    (∀ fo ∈ expected (pre.length + q.length) os, ∃ n g b, (n, g, b) ∈ os ∧ fo.num = n ∧ fo.gen = g ∧
      ∀ o, good o = true → depthOk o → isRefObj o = false → format opt [o] = some b →
        g ≤ Gen.his_xref_maxGeneration →
        nrm (rd o.canon) = nrm o ∧
        (∀ getInt, readIndirect file fo.start getInt false
          = .ok { val := .obj (rd o.canon), num := n, gen := g, endPos := fo.start + (objText n g b).length }) ∧
        ∃ c, checkObject file secs fo = .ok c ∧ c.broken = false ∧ c.start = fo.start ∧
          c.endPos = fo.start + (objText n g b).length) ∧
    (∀ fo, NoEndobj (file.drop fo.start) → ∃ c, checkObject file secs fo = .ok c ∧ c.broken = true) := by
  intro file sfin
  have h1 := flat_lists os pre q rest f s hq hw hok hf
  refine ⟨h1, ?_, ?_, fun fo hx => cut_object_broken file secs fo hx⟩
  rotate_left
  · intro fo hfo
    have hlen : pre.length + q.length = (pre ++ q).length := by simp
    rw [hlen] at hfo
    obtain ⟨n, g, b, pre', rest', hm, hfoeq, hfile⟩ := expected_decomp os (pre ++ q) rest fo hfo
    refine ⟨n, g, b, hm, by rw [hfoeq], by rw [hfoeq], ?_⟩
    intro o hg hd hr hfmt hgen
    obtain ⟨hn, _, _⟩ := hok (n, g, b) hm
    obtain ⟨body, hf', hnrm, hread⟩ := his_indirect_obj_rt opt o hg hd hr n g hn hgen
    have hb : body = b := by rw [hfmt] at hf'; cases hf'; rfl
    subst hb
    have hfile' : file = pre' ++ (objText n g body ++ rest') := by
      simp only [file]; rw [← hfile]; simp [List.append_assoc]
    have hstart : fo.start = pre'.length := by rw [hfoeq]
    have hr2 : ∀ getInt limit, readIndirect file fo.start getInt false limit
        = .ok { val := .obj (rd o.canon), num := fo.num, gen := fo.gen, endPos := fo.start + (objText n g body).length } := by
      intro gi lim; rw [hfile', hstart, hfoeq]; exact hread pre' rest' gi lim
    refine ⟨hnrm, ?_, ?_⟩
    · intro gi; have := hr2 gi none; rw [hfoeq] at this ⊢; exact this
    · obtain ⟨c, hc, h2, h3, h4, _, _⟩ := complete_object_checked file secs fo (rd o.canon) _ hr2
      exact ⟨c, hc, h2, h3, h4⟩
  intro hne
  cases os with
  | nil => exact absurd rfl hne
  | cons o os' =>
    obtain ⟨n, g, b⟩ := o
    have hmem := h1 ⟨n, g, pre.length + q.length + 1⟩ (by simp [expected])
    exact mem_done_of_mem sfin (flatLoop_wf file f pre.length s hw) _ hmem


/-! ## the windowed scan on inputs that fit into one window -/

/-- whatever `locLoop` does afterwards, what has been recorded stays recorded -/
theorem locLoop_mono (file : Bytes) : ∀ (fuel : Nat) (w : Win) (s : LocState) (sfin : LocState) (wfin : Win),
    WF s → locLoop file fuel w s = .ok (sfin, wfin) → (∀ fo ∈ allObjs s, fo ∈ allObjs sfin) ∧ WF sfin := by
  intro fuel
  induction fuel with
  | zero => intro w s sfin wfin _ h; simp [locLoop] at h
  | succ fuel ih =>
    intro w s sfin wfin hw h
    unfold locLoop at h
    split at h
    · cases h; exact ⟨fun fo hfo => hfo, hw⟩
    · cases h
    · rename_i w' pos len lead m hfind
      by_cases hl : lineInitial file pos lead = true
      · simp only [hl, if_true] at h
        obtain ⟨h1, h2⟩ := ih _ _ _ _ (wf_locStep s (pos + lead) m hw) h
        exact ⟨fun fo hfo => h1 fo (mem_locStep s (pos + lead) m hw fo hfo), h2⟩
      · simp only [hl, if_false] at h
        exact ih _ _ _ _ hw h

/-- one step of the real loop when the whole rest of the input is in the window -/
theorem locLoop_step_single (pre q : Bytes) (num gen : Nat) (tail : Bytes) (hq : Quiet q)
    (hnum : num < Gen.his_xref_maxXRefSize) (hgen : gen < 65536) (fuel : Nat) (s : LocState) :
    let file := pre ++ (q ++ (10 :: (hdr7 num gen ++ (10 :: tail))))
    locLoop file (fuel + 1) { base := 0, pos := pre.length, used := file.length } s
      = locLoop file fuel { base := 0, pos := pre.length + q.length + 1 + (hdr7 num gen).length, used := file.length }
          (locStep s (pre.length + q.length + 1) (.obj (FIO.decOf num) (FIO.decOf gen))) := by
  intro file
  obtain ⟨hn1, hn2, _⟩ := decOf_digits num (by simp [Gen.his_xref_maxXRefSize] at hnum; omega)
  obtain ⟨hg1, hg2, _⟩ := decOf_digits gen (by omega)
  have hws : ∀ x ∈ [32], isMarkerWS x = true := by simp [isMarkerWS]
  have hrec := header_recognised [10] (FIO.decOf num) [32] (FIO.decOf gen) [32] (10 :: tail) (.inl rfl)
    hn2 (by simp) hg2 (by simp) hn1 hg1 hws hws (by simp [wordEnd, isWordByte, isDigit]) (q.length == 0)
  have hfound := marker_found_at q 10 (hdr7 num gen ++ (10 :: tail)) _ _ _
    (fun j hj => hq _ j hj) (by simpa [hdr7] using hrec)
  have hdrop : file.drop pre.length = q ++ (10 :: (hdr7 num gen ++ (10 :: tail))) := C04hisb.drop_len_append _ _
  have htext : (file.drop (0 + pre.length)).take (file.length - pre.length) = q ++ (10 :: (hdr7 num gen ++ (10 :: tail))) := by
    rw [Nat.zero_add, hdrop]
    apply List.take_of_length_le
    simp [file]
  cases hm : matchMarker (q ++ 10 :: (hdr7 num gen ++ 10 :: tail)) with
  | none => rw [hm] at hfound; simp at hfound
  | some m =>
    rw [hm] at hfound
    simp only [Option.map, Option.some.injEq, Prod.mk.injEq] at hfound
    obtain ⟨ha, hb, ht⟩ := hfound
    have hf : file.length + 8 = (file.length + 7) + 1 := rfl
    have hhit := find_hit file matchMarker (file.length + 7) { base := 0, pos := pre.length, used := file.length } m
      (by simp only []; rw [htext]; exact hm)
    rw [locLoop]
    rw [hf, hhit]
    have hlen : (hdr7 num gen).length = (FIO.decOf num).length + 1 + (FIO.decOf gen).length + 1 + 3 := by
      simp [hdr7, headerBytes, kwObj]; omega
    have hli : ∀ x, lineInitial file x 1 = true := by intro x; simp [lineInitial]
    simp only [ht, ha, hb, List.length_cons, List.length_nil, Nat.zero_add, hli, if_true]
    congr 2 <;> omega

theorem window_lists : ∀ (os : List (Nat × Nat × Bytes)) (pre q rest : Bytes) (fuel : Nat) (s sfin : LocState) (wfin : Win),
    Quiet q → WF s → (∀ o ∈ os, ObjOK o) →
    locLoop (pre ++ (q ++ (objsText os ++ rest))) fuel
      { base := 0, pos := pre.length, used := (pre ++ (q ++ (objsText os ++ rest))).length } s = .ok (sfin, wfin) →
    ∀ fo ∈ expected (pre.length + q.length) os, fo ∈ allObjs sfin := by
  intro os
  induction os with
  | nil => intro pre q rest fuel s sfin wfin _ _ _ _ fo hfo; simp [expected] at hfo
  | cons o os ih =>
    intro pre q rest fuel s sfin wfin hq hw hok hloop fo hfo
    obtain ⟨n, g, b⟩ := o
    obtain ⟨hn, hg, hqb⟩ := hok (n, g, b) (by simp)
    simp only at hn hg hqb
    cases fuel with
    | zero => simp [locLoop] at hloop
    | succ fuel =>
      have hfile : pre ++ (q ++ (objsText ((n, g, b) :: os) ++ rest))
          = pre ++ (q ++ (10 :: (hdr7 n g ++ (10 :: (b ++ k7 ++ objsText os ++ rest))))) := by
        simp [objsText, List.append_assoc]
      rw [hfile] at hloop
      have hstep := locLoop_step_single pre q n g (b ++ k7 ++ objsText os ++ rest) hq hn hg fuel s
      simp only [] at hstep
      rw [hstep] at hloop
      have hw' := wf_locStep s (pre.length + q.length + 1) (.obj (FIO.decOf n) (FIO.decOf g)) hw
      simp only [expected, List.mem_cons] at hfo
      rcases hfo with rfl | hfo
      · obtain ⟨_, _, hvn⟩ := decOf_digits n (by simp [Gen.his_xref_maxXRefSize] at hn; omega)
        obtain ⟨_, _, hvg⟩ := decOf_digits g (by omega)
        have hrec := (locStep_records s (pre.length + q.length + 1) (FIO.decOf n) (FIO.decOf g)
          (by rw [hvn]; exact hn) (by rw [hvg]; exact hg)).1
        rw [hvn, hvg] at hrec
        have hmem : ({ num := n, gen := g, start := pre.length + q.length + 1 } : FileObject)
            ∈ allObjs (locStep s (pre.length + q.length + 1) (.obj (FIO.decOf n) (FIO.decOf g))) := by
          unfold allObjs
          apply List.mem_append_right
          cases hc : (locStep s (pre.length + q.length + 1) (.obj (FIO.decOf n) (FIO.decOf g))).cur.objects with
          | nil => rw [hc] at hrec; simp at hrec
          | cons x xs => rw [hc] at hrec; simp at hrec; rw [hrec]; simp
        exact (locLoop_mono _ _ _ _ _ _ hw' hloop).1 _ hmem
      · have hfile2 : pre ++ (q ++ (10 :: (hdr7 n g ++ (10 :: (b ++ k7 ++ objsText os ++ rest)))))
            = (pre ++ q ++ 10 :: hdr7 n g) ++ ((10 :: (b ++ k7)) ++ (objsText os ++ rest)) := by
          simp [List.append_assoc]
        have hlen : (pre ++ q ++ 10 :: hdr7 n g).length = pre.length + q.length + 1 + (hdr7 n g).length := by
          simp; omega
        rw [hfile2, ← hlen] at hloop
        have hoff : (pre ++ q ++ 10 :: hdr7 n g).length + (10 :: (b ++ k7)).length
            = pre.length + q.length + 1 + (hdr7 n g).length + 1 + b.length + 7 := by
          simp [k7]; omega
        apply ih (pre ++ q ++ 10 :: hdr7 n g) (10 :: (b ++ k7)) rest fuel _ sfin wfin hqb hw'
          (fun o ho => hok o (by simp [ho])) hloop
        rw [hoff]; exact hfo

/-- the first `Find` of `locateObjects` on an input that fits into the buffer: one refill, then
    the header match on the whole input -/
theorem find_first (file : Bytes) (m : Match Bytes) (hpos : 0 < file.length)
    (hlen : file.length ≤ Gen.his_scanner_scannerBufSize) (hms : matchStart file = some m) :
    find file matchStart (file.length + 8) { base := 0, pos := 0, used := 0 }
      = .ok ({ base := 0, pos := m.b, used := file.length }, m.a, m.b - m.a, m.tag) := by
  have hf : file.length + 8 = (file.length + 6) + 1 + 1 := rfl
  have hnil : matchStart [] = none := rfl
  have hrefill : ({ base := 0, pos := 0, used := 0 } : Win).refill file.length = { base := 0, pos := 0, used := file.length } := by
    simp only [Win.refill, Nat.sub_self, Nat.zero_add, Nat.sub_zero]
    congr 1
    exact Nat.min_eq_right hlen
  have hne : ¬ (file.length = 0) := by omega
  rw [hf, find]
  simp only [Nat.zero_add, Nat.sub_self, List.take_zero, hnil, List.drop_zero]
  have hp : (if (0 : Nat) ≥ Gen.his_scanner_regexpOverlap + 0 + 1 then 0 - Gen.his_scanner_regexpOverlap else 0) = 0 := by
    simp [Gen.his_scanner_regexpOverlap]
  simp only [hp, hrefill]
  have hc : ((0 : Nat) < Gen.his_scanner_scannerBufSize && (0 : Nat) == file.length) = false := by
    simp [Gen.his_scanner_scannerBufSize]; omega
  simp only [hc, Bool.false_eq_true, if_false]
  have hhit := find_hit file matchStart (file.length + 6) { base := 0, pos := 0, used := file.length } m
    (by simp only [Nat.zero_add, Nat.sub_zero, List.drop_zero, List.take_length]; exact hms)
  rw [hhit]
  simp

/-- **The windowed `locateObjects` on an input that fits into one window** (at most
`scannerBufSize` bytes): if it returns a listing, the listing contains every one of the objects at
its offset.  Hypotheses as in `scan_recovers_flat_partial`; `hdr` is what the header match
consumes (`%PDF-x.y` and the byte behind it). -/
theorem locate_single_window_partial (hdr q rest : Bytes) (os : List (Nat × Nat × Bytes)) (m : Match Bytes)
    (hq : Quiet q) (hok : ∀ o ∈ os, ObjOK o)
    (hlen : (hdr ++ (q ++ (objsText os ++ rest))).length ≤ Gen.his_scanner_scannerBufSize)
    (hms : matchStart (hdr ++ (q ++ (objsText os ++ rest))) = some m) (hmb : m.b = hdr.length)
    (loc : Located) (hloc : locateObjects (hdr ++ (q ++ (objsText os ++ rest))) = .ok loc) :
    ∀ fo ∈ expected (hdr.length + q.length) os, fo ∈ loc.sections.flatMap (·.objects) := by
  intro fo hfo
  generalize hfile : hdr ++ (q ++ (objsText os ++ rest)) = file at *
  have hpos : 0 < file.length := by
    cases file with
    | nil => simp [matchStart, matchStartFrom] at hms
    | cons _ _ => simp
  unfold locateObjects at hloc
  rw [find_first file m hpos hlen hms] at hloc
  simp only [] at hloc
  split at hloc
  · cases hloc
  · rename_i s w hloop
    have hw0 : WF ({ done := [], cur := {}, used := false, inTrailer := false } : LocState) := by intro _; rfl
    rw [hmb] at hloop
    have hmem : fo ∈ allObjs s := by
      subst hfile
      exact window_lists os hdr q rest _ _ s w hq hw0 hok hloop fo hfo
    have hwf := (locLoop_mono file _ _ _ _ _ hw0 hloop).2
    have hfin := mem_finish s hwf fo hmem
    split at hloc
    · cases hloc
    · cases hloc
      simp only [List.mem_flatMap, List.mem_reverse]
      unfold allObjs at hfin
      have hc : s.finish.cur.objects = [] := by unfold LocState.finish; rfl
      rw [hc, List.append_nil, List.mem_flatMap] at hfin
      exact hfin


/-! ## non-vacuity and the writer's own header -/

/-- quietness when the first byte is a marker start that nevertheless starts no marker -/
theorem quiet_of_lineQuiet_head (q : Bytes) (hq : lineQuiet q = true)
    (h0 : ∀ y, matchMarkerAt true (q ++ y) = none) : Quiet q := by
  intro y j hj
  cases j with
  | zero => simpa using h0 y
  | succ j =>
    cases q with
    | nil => simp at hj
    | cons c t =>
      have ht : t ≠ [] := by intro h; subst h; simp at hj
      have := quiet_aux j t false (lineQuiet_tail c t hq ht) (fun h => by cases h) y (by simp at hj ⊢; omega)
      simpa using this

/-- the binary comment line `%\x80\x80\x80\x80` which the Writer puts behind the header is quiet -/
theorem quiet_binary_comment : Quiet [37, 128, 128, 128, 128] := by
  apply quiet_of_lineQuiet_head _ (by decide)
  intro y
  simp [matchMarkerAt, matchMarkerBody, spanP, isDigit, isPrefixOf, kwXref, kwTrailer, kwStartxref, kwEOF]

-- a formatted dictionary body is quiet between `obj` and the end of `endobj`
example : ObjOK (7, 0, bytesOfString "<</Type/Catalog/Pages 2 0 R>>") :=
  ⟨by decide, by decide, quiet_of_lineQuiet _ (by decide +kernel) (by intro c t h; cases h; decide)⟩

-- the un-windowed scan of a two-object file cut inside the third object: both complete objects
-- are listed at their offsets, the third header is listed too (and is Broken)
def exFile : Bytes := bytesOfString "%PDF-1.7\n%" ++ [128, 128, 128, 128] ++
  bytesOfString "\n1 0 obj\n<</A 1>>\nendobj\n2 0 obj\n[/N]\nendobj\n3 0 obj\n<</B"
example : ((allObjs (flatLoop exFile 9 9 { done := [], cur := {}, used := false, inTrailer := false })).map
    fun o => (o.num, o.gen, o.start)) = [(3, 0, 59), (2, 0, 39), (1, 0, 15)] := by
  decide +kernel

end PdfVerif.C20hisd

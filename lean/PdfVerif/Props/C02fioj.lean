import PdfVerif.Props.C02fioi
/-!
# C02 (work package FIO) — opening a file with a cross-reference stream

The writer invariant "no stream open ⇒ no deferred `Put`s" (`run_na`), the form of the file after
`Close` in object-stream mode (`close_xrefstream_form`), and the opening sequence of the reader.
-/
namespace PdfVerif.C02fioj
open PdfVerif PdfVerif.FIO PdfVerif.C01b PdfVerif.C01L PdfVerif.C01d PdfVerif.C02fio PdfVerif.C02fioc PdfVerif.C02fiob PdfVerif.C02fioe PdfVerif.C02fiof PdfVerif.C02fiog PdfVerif.C02fioh PdfVerif.C02fioi

/-! ## no stream open ⇒ no deferred `Put`s -/

/-- no stream is open and nothing is queued -/
def Quiet (s : WState) : Prop := s.stm = none ∧ s.after = []
/-- the queue of deferred `Put`s is only used while a stream is open -/
def NoAfter (s : WState) : Prop := s.stm = none → s.after = []

theorem putPlain_q {s s' : WState} {num gen : Nat} {o : Obj} (hq : Quiet s) (h : putPlain s num gen o = .ok s') : Quiet s' := by
  unfold putPlain at h
  split at h
  · simp at h
  · split at h
    · simp at h
    · simp only [Except.ok.injEq] at h
      subst h
      exact ⟨by simpa [emit] using hq.1, by simpa [emit] using hq.2⟩

def PutSQ (putS : WState → Nat → Nat → List (Bytes × Obj) → Option Int → Bytes → Except Err WState) : Prop :=
  ∀ {s s' : WState} {n g : Nat} {d : List (Bytes × Obj)} {ul : Option Int} {raw : Bytes},
    putS s n g d ul raw = .ok s' → Quiet s'

theorem replayWith_q {putS} (hp : PutSQ putS) (l : List (Nat × Nat × PutObj)) :
    ∀ {s s' : WState}, Quiet s → replayWith putS s l = .ok s' → Quiet s' := by
  induction l with
  | nil => intro s s' hq h; simp [replayWith] at h; subst h; exact hq
  | cons x rest ih =>
    intro s s' hq h
    obtain ⟨num, gen, po⟩ := x
    cases po with
    | plain o =>
      simp only [replayWith] at h
      split at h
      · simp at h
      · rename_i s1 h1
        exact ih (putPlain_q hq h1) h
    | stream d ul raw =>
      simp only [replayWith] at h
      split at h
      · simp at h
      · rename_i s1 h1
        exact ih (hp h1) h

theorem streamCloseWith_q {putS} (hp : PutSQ putS) {s s' : WState} (h : streamCloseWith putS s = .ok s') : Quiet s' := by
  unfold streamCloseWith at h
  split at h
  · simp at h
  · split at h
    · simp at h
    · split at h
      · simp at h
      · exact replayWith_q hp _ ⟨rfl, rfl⟩ h

theorem putStreamWith_q {close : WState → Except Err WState}
    (hcc : ∀ {s s' : WState}, close s = .ok s' → Quiet s')
    {s s' : WState} {num gen : Nat} {d : List (Bytes × Obj)} {ul : Option Int} {raw : Bytes}
    (h : putStreamWith close s num gen d ul raw = .ok s') : Quiet s' := by
  unfold putStreamWith at h
  split at h
  · simp at h
  · split at h
    · simp at h
    · exact hcc h

theorem noDeferredStream_q : PutSQ noDeferredStream := by
  intro s s' n g d ul raw h; simp [noDeferredStream] at h

theorem putStream0_q : PutSQ putStream0 := by
  intro s s' n g d ul raw h
  exact putStreamWith_q (fun h => streamCloseWith_q noDeferredStream_q h) h

theorem streamClose_q {s s' : WState} (h : streamClose s = .ok s') : Quiet s' := streamCloseWith_q putStream0_q h

theorem put_q {s s' : WState} {num gen : Nat} {o : PutObj} (hq : Quiet s) (h : put s num gen o = .ok s') : Quiet s' := by
  unfold put at h
  split at h
  · rename_i st hs; rw [hq.1] at hs; cases hs
  · split at h
    · exact putPlain_q hq h
    · exact putStreamWith_q (fun h => streamClose_q h) h

theorem putAll_q (l : List (Nat × Nat × Obj)) : ∀ {s s' : WState}, Quiet s → putAll s l = .ok s' → Quiet s' := by
  induction l with
  | nil => intro s s' hq h; simp [putAll] at h; subst h; exact hq
  | cons x rest ih =>
    intro s s' hq h
    obtain ⟨num, gen, o⟩ := x
    simp only [putAll] at h
    split at h
    · simp at h
    · rename_i s1 hp
      exact ih (put_q hq hp) h

theorem alloc_q {s s' : WState} {r : Nat} (h : alloc s = some (s', r)) : s'.stm = s.stm ∧ s'.after = s.after := by
  unfold alloc at h
  split at h
  · simp at h
  · simp only [Option.some.injEq, Prod.mk.injEq] at h
    obtain ⟨rfl, _⟩ := h
    exact ⟨rfl, rfl⟩

theorem optPut_q {s s' : WState} {o : Option Obj} {r : Option Nat} (hq : Quiet s) (h : optPut s o = .ok (s', r)) : Quiet s' := by
  unfold optPut at h
  split at h
  · simp only [Except.ok.injEq, Prod.mk.injEq] at h
    obtain ⟨rfl, _⟩ := h
    exact hq
  · split at h
    · simp at h
    · rename_i s1 r1 ha
      obtain ⟨a, b⟩ := alloc_q ha
      split at h
      · simp at h
      · rename_i s2 hp
        simp only [Except.ok.injEq, Prod.mk.injEq] at h
        obtain ⟨rfl, _⟩ := h
        exact put_q ⟨by rw [a, hq.1], by rw [b, hq.2]⟩ hp

theorem writeObjStmAt_q {s s' : WState} {items : List (Nat × Nat × Obj)} {raw : Bytes}
    (h : writeObjStmAt s items raw = .ok s') : Quiet s' := by
  unfold writeObjStmAt at h
  split at h
  · simp at h
  · split at h
    · simp at h
    · split at h
      · simp at h
      · simp only at h
        split at h
        · simp at h
        · split at h
          · simp at h
          · exact streamClose_q h

theorem writeObjStms_q (fuel : Nat) : ∀ {s s' : WState} {items : List (Nat × Nat × Obj)} {raws : List Bytes},
    writeObjStms fuel s items raws = .ok s' → Quiet s' := by
  induction fuel with
  | zero => intro s s' items raws h; simp [writeObjStms] at h
  | succ f ih =>
    intro s s' items raws h
    simp only [writeObjStms] at h
    split at h
    · split at h
      · simp at h
      · exact ih h
    · exact writeObjStmAt_q h

theorem writeCompressed_q {s s' : WState} {items : List (Nat × Nat × Obj)} {raws : List Bytes}
    (hna : NoAfter s) (h : writeCompressed s items raws = .ok s') : Quiet s' := by
  unfold writeCompressed at h
  split at h
  · simp at h
  · rename_i hs
    have hs' : s.stm = none := by simpa using hs
    have hq : Quiet s := ⟨hs', hna hs'⟩
    split at h
    · simp at h
    · split at h
      · simp only [Except.ok.injEq] at h; subst h; exact hq
      · split at h
        · exact putAll_q items hq h
        · exact writeObjStms_q _ h


theorem close_q {s s' : WState} {cat : Obj} {info : Option Obj} {tr : List (Bytes × Obj)} {raw : Bytes}
    (hna : NoAfter s) (h : close s cat info tr raw = .ok s') : Quiet s' := by
  unfold close at h
  split at h
  · simp at h
  · rename_i hs
    have hs' : s.stm = none := by simpa using hs
    have hq : Quiet s := ⟨hs', hna hs'⟩
    split at h
    · simp at h
    · rename_i s1 catRef h1
      split at h
      · simp at h
      · rename_i s2 infoRef h2
        have q2 := optPut_q (optPut_q hq h1) h2
        simp only at h
        split at h
        · split at h
          · simp at h
          · split at h
            · simp at h
            · split at h
              · simp at h
              · split at h
                · simp at h
                · rename_i s6 h6
                  simp only [Except.ok.injEq] at h
                  subst h
                  obtain ⟨a, b⟩ := streamClose_q h6
                  exact ⟨by simpa [emit] using a, by simpa [emit] using b⟩
        · split at h
          · simp only [Except.ok.injEq] at h
            subst h
            exact q2
          · simp at h

theorem step_na {s s' : WState} {op : Op} (hi : Inv s) (hna : NoAfter s) (h : step s op = .ok s') : NoAfter s' := by
  cases op with
  | alloc =>
    simp only [step] at h
    split at h
    · rename_i s1 r ha
      simp only [Except.ok.injEq] at h
      subst h
      obtain ⟨a, b⟩ := alloc_q ha
      intro hs; rw [b]; exact hna (by rw [← a]; exact hs)
    · simp at h
  | put num gen o =>
    cases hs : s.stm with
    | none => exact fun _ => (put_q ⟨hs, hna hs⟩ h).2
    | some st =>
      simp only [step] at h
      unfold put at h
      simp only [hs] at h
      simp only [Except.ok.injEq] at h
      subst h
      intro h1; simp [hs] at h1
  | openStream num gen dict ul =>
    obtain ⟨_, _, st, hst, _⟩ := openStream_sm h
    intro h1; rw [hst] at h1; cases h1
  | write p =>
    obtain ⟨_, _, _, ⟨st, hst⟩, _⟩ := streamWrite_inv hi h
    intro h1; rw [hst] at h1; cases h1
  | closeStream => exact fun _ => (streamClose_q h).2
  | writeCompressed items raw => exact fun _ => (writeCompressed_q hna h).2
  | close cat info tr raw => exact fun _ => (close_q hna h).2
  | openStreamFail num gen =>
    obtain ⟨hs, _, n, _, _, rfl⟩ := openStreamFail_fields h
    exact fun _ => hna hs
  | rejected op => rw [rejected_fields h]; exact hna

theorem run_na (ops : List Op) : ∀ {s s' : WState} {i : Nat}, Inv s → NoAfter s → run s ops i = .ok s' → NoAfter s' := by
  induction ops with
  | nil => intro s s' i _ hna h; simp [run] at h; subst h; exact hna
  | cons op rest ih =>
    intro s s' i hi hna h
    simp only [run] at h
    split at h
    · simp at h
    · rename_i s1 h1
      exact ih (step_inv hi h1).1 (step_na hi hna h1) h

theorem init_na (o : WOpts) (s0 : WState) (h0 : initState o = some s0) : NoAfter s0 := by
  unfold initState at h0
  cases hh : header o with
  | none => simp [hh] at h0
  | some hd => simp only [hh, Option.map_some, Option.some.injEq] at h0; subst h0; exact fun _ => rfl

/-- a stream opened with a caller-supplied `/Length` uses neither the seek-back patch nor an
    indirect length object -/
def DirectLen (st : OpenStm) : Prop := st.userLen.isSome = true ∧ st.lenRef = none ∧ st.patchPos = none

theorem startWriting_direct {s s1 : WState} {st st1 : OpenStm} {known : Option Nat} (hd : DirectLen st)
    (h : startWriting s st known = .ok (s1, st1)) :
    DirectLen st1 ∧ s1.after = s.after ∧ s1.xref = s.xref ∧ s1.nextRef = s.nextRef ∧ ∃ bs, s1.out = s.out ++ bs := by
  obtain ⟨hu, hl, hp⟩ := hd
  obtain ⟨l, hl'⟩ := Option.isSome_iff_exists.1 hu
  unfold startWriting at h
  simp only [hl'] at h
  split at h
  · simp at h
  · rename_i db off hf
    simp only [Option.isNone_some, Bool.false_and, Bool.false_eq_true, ↓reduceIte, Except.ok.injEq, Prod.mk.injEq] at h
    obtain ⟨rfl, rfl⟩ := h
    exact ⟨⟨by simp [hl'], hl, rfl⟩, rfl, rfl, rfl, objHeader st.num st.gen ++ (db ++ (kStream ++ st.buf)), by simp [emit, List.append_assoc]⟩

theorem streamWrite_direct {s s' : WState} {p : Bytes} {st : OpenStm} (hs : s.stm = some st) (hd : DirectLen st)
    (h : streamWrite s p = .ok s') :
    (∃ st', s'.stm = some st' ∧ DirectLen st') ∧ s'.after = s.after ∧ s'.xref = s.xref ∧ s'.nextRef = s.nextRef ∧
      ∃ bs, s'.out = s.out ++ bs := by
  unfold streamWrite at h
  rw [hs] at h
  simp only at h
  split at h
  · simp only [Except.ok.injEq] at h
    subst h
    exact ⟨⟨st, by simp [emit, hs], hd⟩, rfl, rfl, rfl, p, rfl⟩
  · split at h
    · simp only [Except.ok.injEq] at h
      subst h
      exact ⟨⟨_, rfl, hd⟩, rfl, rfl, rfl, [], by simp⟩
    · split at h
      · simp at h
      · rename_i s1 st1 hsw
        simp only [Except.ok.injEq] at h
        subst h
        obtain ⟨d1, a1, x1, n1, bs, o1⟩ := startWriting_direct hd hsw
        exact ⟨⟨st1, by simp [emit], d1⟩, by simpa [emit] using a1, by simpa [emit] using x1, by simpa [emit] using n1,
          bs ++ p, by simp [emit, o1]⟩

theorem closeLength_direct {s s1 : WState} {st st1 : OpenStm} {len : Nat} (hd : DirectLen st)
    (h : closeLength s st = .ok (s1, st1, len)) :
    s1.after = s.after ∧ s1.xref = s.xref ∧ s1.nextRef = s.nextRef ∧ ∃ bs, s1.out = s.out ++ bs := by
  obtain ⟨hu, hl, hp⟩ := hd
  unfold closeLength at h
  split at h
  · simp only [hl, hp] at h
    simp only [Except.ok.injEq, Prod.mk.injEq] at h
    obtain ⟨rfl, _, _⟩ := h
    exact ⟨rfl, rfl, rfl, [], by simp⟩
  · simp only at h
    split at h
    · simp at h
    · rename_i s' st' hsw
      simp only [Except.ok.injEq, Prod.mk.injEq] at h
      obtain ⟨rfl, _, _⟩ := h
      obtain ⟨_, a1, x1, n1, o1⟩ := startWriting_direct ⟨hu, hl, hp⟩ hsw
      exact ⟨a1, x1, n1, o1⟩

/-- `Close` of a stream with a direct `/Length` while nothing is queued: the table is unchanged,
    the output ends with `endstream endobj` -/
theorem streamClose_direct {s s' : WState} {st : OpenStm} (hs : s.stm = some st) (hd : DirectLen st)
    (ha : s.after = []) (h : streamClose s = .ok s') :
    s'.xref = s.xref ∧ s'.nextRef = s.nextRef ∧ ∃ bs, s'.out = s.out ++ bs ++ kEndstream ++ prettyNL s.opts := by
  unfold streamClose streamCloseWith at h
  rw [hs] at h
  simp only at h
  split at h
  · simp at h
  · rename_i s1 st1 len hr
    obtain ⟨a1, x1, n1, bs, o1⟩ := closeLength_direct hd hr
    split at h
    · simp at h
    · have : (emit s1 (kEndstream ++ prettyNL s.opts)).after = [] := by simp [emit, a1, ha]
      rw [this] at h
      simp only [replayWith, Except.ok.injEq] at h
      subst h
      exact ⟨by simpa [emit] using x1, by simpa [emit] using n1, bs, by simp [emit, o1, List.append_assoc]⟩


/-- **close_xrefstream_form.**  `Close` in object-stream mode, from a state of a program (`Inv`,
`NoAfter`): `s3` is the state in which the rows are encoded — the cross-reference stream's own
number `ref` is allocated, its entry not yet made.  The final table is `s3`'s table plus that one
entry (at the offset `startxref` names), the stream object is recorded with the dictionary
`xrefStreamDict` for `s3`'s table and the bytes `raw`, and the file ends with `endstream endobj`,
`startxref`, the offset, `%%EOF`. -/
theorem close_xrefstream_form {s s' : WState} {cat : Obj} {info : Option Obj} {tr : List (Bytes × Obj)} {raw : Bytes}
    (hi : Inv s) (hna : NoAfter s) (hobj : s.opts.objStm = true) (h : close s cat info tr raw = .ok s') :
    ∃ (s3 : WState) (ref : Nat) (cr ir : Option Nat) (mid : Bytes),
      (∃ c, cr = some c ∧ c < Gen.fio_maxXRefSize) ∧
      (info = none → ir = none) ∧ (∀ v, info = some v → ∃ n, ir = some n ∧ n < Gen.fio_maxXRefSize) ∧
      Inv s3 ∧ s3.opts = s.opts ∧ s3.xref.get ref = none ∧ ref < s3.nextRef ∧ s.out.length ≤ s3.out.length ∧
      (∀ j, s'.xref.get j = if j = ref then some ⟨0, (s3.pos : Int), 0⟩ else s3.xref.get j) ∧
      (ref, 0, xrefStreamDict ((tr.filter fun e => e.1 != kRoot && e.1 != kInfo && e.1 != kSize) ++
          refOfO cr kRoot ++ refOfO ir kInfo) s3.nextRef (fieldWidth (maxFields s3.xref 0 s3.nextRef).1)
        (fieldWidth (maxFields s3.xref 0 s3.nextRef).2), raw) ∈ s'.sdoc ∧
      s'.out = s3.out ++ mid ++ kEndstream ++ kStartxref ++ decOf s3.pos ++ kEOF ∧
      s'.nextRef = s3.nextRef ∧ ref + 1 = s3.nextRef ∧ (∀ k e, s.xref.get k = some e → s3.xref.get k = some e) := by
  unfold close at h
  split at h
  · simp at h
  · rename_i hs
    have hs' : s.stm = none := by simpa using hs
    have hq : Quiet s := ⟨hs', hna hs'⟩
    split at h
    · simp at h
    · rename_i s1 catRef h1
      obtain ⟨i1, n1, o1⟩ := optPut_inv hi hs' h1
      have q1 := optPut_q hq h1
      have g1 := (optPut_grow hi hs' h1).len
      split at h
      · simp at h
      · rename_i s2 infoRef h2
        obtain ⟨i2, n2, o2⟩ := optPut_inv i1 n1 h2
        have q2 := optPut_q q1 h2
        have g2 := (optPut_grow i1 n1 h2).len
        simp only [hobj, ↓reduceIte] at h
        split at h
        · simp at h
        · rename_i s3 ref ha
          obtain ⟨i3, hout3, hpos3, hst3, hx3, haft3, hop3, hr3, hn3⟩ := alloc_inv i2 ha
          split at h
          · simp at h
          · rename_i s4 h4
            have hnone := (openStream_inv i3 h4).2.2.2.2.1
            obtain ⟨e4, hd4, st4, hst4, hn4, hg4, hdict4⟩ := openStream_sm h4
            -- the fields of `s4`
            have h4' := h4
            unfold openStream at h4'
            rw [show s3.stm = none by rw [hst3, n2]] at h4'
            simp only at h4'
            split at h4'
            · simp at h4'
            · rename_i x n hset
              obtain ⟨_, hx, _, _⟩ := setXRef_ok hset
              have hnn : n = s3.nextRef := by
                unfold setXRef at hset
                split at hset
                · simp at hset
                · simp only [Option.some.injEq, Prod.mk.injEq] at hset
                  rw [← hset.2, if_neg (by omega)]
              simp only [Except.ok.injEq] at h4'
              have hn4' : s4.nextRef = s3.nextRef := by subst h4'; exact hnn
              have hdl4 : DirectLen st4 := by
                subst h4'
                simp only [Option.some.injEq] at hst4
                subst hst4
                exact ⟨rfl, rfl, rfl⟩
              have ha4 : s4.after = [] := by subst h4'; simp only; rw [haft3, q2.2]
              have hx4 : s4.xref = s3.xref.set ref ⟨0, (s3.pos : Int), 0⟩ := by subst h4'; exact hx
              have ho4 : s4.out = s3.out := by subst h4'; rfl
              have hop4 : s4.opts = s3.opts := by subst h4'; rfl
              split at h
              · simp at h
              · rename_i s5 h5
                obtain ⟨⟨st5, hst5, hdl5⟩, ha5, hx5, hn5', bs5, ho5⟩ := streamWrite_direct hst4 hdl4 h5
                obtain ⟨e5, hd5, st5', hst5', hn5, hg5, hdict5⟩ := streamWrite_sm hst4 h5
                have hop5 := (streamWrite_inv (openStream_inv i3 h4).1 h5).2.2.1
                split at h
                · simp at h
                · rename_i s6 h6
                  obtain ⟨hx6, hn6', bs6, ho6⟩ := streamClose_direct hst5 hdl5 (by rw [ha5, ha4]) h6
                  have hrec := (streamClose_sm h6).2 st5' hst5'
                  simp only [Except.ok.injEq] at h
                  subst h
                  have hhum : prettyNL s5.opts = [] := by
                    rw [hop5, hop4, hop3, o2, o1]
                    have : s.opts.human = false := by
                      simp [WOpts.objStm] at hobj; exact hobj.2
                    simp [prettyNL, this]
                  obtain ⟨_, hcr⟩ := optPut_ref hs' h1
                  obtain ⟨c, hc1, hc2, _⟩ := hcr cat rfl
                  obtain ⟨hir0, hir1⟩ := optPut_ref n1 h2
                  refine ⟨s3, ref, catRef, infoRef, bs5 ++ bs6, ⟨c, hc1, hc2⟩, hir0,
                    fun v hv => by obtain ⟨n, a, b, _⟩ := hir1 v hv; exact ⟨n, a, b⟩, i3, by rw [hop3, o2, o1], hnone, by omega, by rw [hout3]; omega, ?_, ?_, ?_,
                      by simp only [emit]; rw [hn6', hn5', hn4'], by omega,
                      fun k e hk => by rw [hx3]; exact (optPut_grow i1 n1 h2).mono _ _ ((optPut_grow hi hs' h1).mono _ _ hk)⟩
                  · intro j
                    simp only [emit]
                    rw [hx6, hx5, hx4, C02fiob.get_set]
                  · simp only [emit]
                    rw [hn5, hg5, hdict5, hn4, hg4, hdict4, hd5, hd4] at hrec
                    subst hc1
                    cases infoRef <;> simpa [refOfO] using hrec
                  · simp only [emit]
                    rw [ho6, ho5, ho4, hhum, hpos3]
                    simp [List.append_assoc]


/-! ## the reader's opening sequence on a cross-reference stream -/

/-- the dictionary of the cross-reference stream of a file without fixed trailer entries
    (`Root`, `Info` if any, and the entries `writeXRefStream` adds), the `/DecodeParms` given -/
def xsDict' (c : Nat) (ir : Option Nat) (n w2 w3 : Nat) (parms : List (Bytes × Obj)) : List (Bytes × Obj) :=
  [(kRoot, Obj.ref c 0)] ++ refOfO ir kInfo ++
    [(kType, .name nXRef), (kSize, .int n), (kW, .arr [.int 1, .int w2, .int w3]), (kFilter, .name nFlate),
     (kDecodeParms, .dict parms)]
def XsParms (parms : List (Bytes × Obj)) : Prop :=
  parms = [(kPredictor, .int 12)] ∨ ∃ k : Nat, k ≤ 17 ∧ parms = [(kPredictor, .int 12), (kColumns, .int k)]

theorem xsDict_eq (c : Nat) (ir : Option Nat) (n w2 w3 : Nat) :
    xrefStreamDict (([] : List (Bytes × Obj)).filter (fun e => e.1 != kRoot && e.1 != kInfo && e.1 != kSize) ++
      refOfO (some c) kRoot ++ refOfO ir kInfo) n w2 w3 =
    xsDict' c ir n w2 w3 ([(kPredictor, .int 12)] ++ (if (1 + w2 + w3 != 1) = true then [(kColumns, .int ((1 + w2 + w3 : Nat) : Int))] else [])) := by
  cases ir with
  | none => rfl
  | some i => rfl

set_option maxHeartbeats 1000000 in
theorem xsDict_get (c : Nat) (ir : Option Nat) (n w2 w3 : Nat) (parms : List (Bytes × Obj)) (hp : XsParms parms) :
    dictGet (rdKV (sdBefore (xsDict' c ir n w2 w3 parms)) ++ rdKV (sdAfter (xsDict' c ir n w2 w3 parms))) kSize = some (.int n) ∧
    dictGet (rdKV (sdBefore (xsDict' c ir n w2 w3 parms)) ++ rdKV (sdAfter (xsDict' c ir n w2 w3 parms))) kW
      = some (.arr [.int 1, .int w2, .int w3]) ∧
    dictGet (rdKV (sdBefore (xsDict' c ir n w2 w3 parms)) ++ rdKV (sdAfter (xsDict' c ir n w2 w3 parms))) kIndex = none := by
  rcases hp with rfl | ⟨k, _, rfl⟩
  · cases ir with
    | none => exact ⟨rfl, rfl, rfl⟩
    | some i => exact ⟨rfl, rfl, rfl⟩
  · cases ir with
    | none => exact ⟨rfl, rfl, rfl⟩
    | some i => exact ⟨rfl, rfl, rfl⟩

theorem goodName_keys : goodName kRoot = true ∧ goodName kInfo = true ∧ goodName kType = true ∧ goodName kSize = true ∧
    goodName kW = true ∧ goodName kFilter = true ∧ goodName kDecodeParms = true ∧ goodName kLength = true ∧
    goodName kPredictor = true ∧ goodName kColumns = true ∧ goodName nXRef = true ∧ goodName nFlate = true := by
  decide +kernel

theorem xsDict_good (c : Nat) (ir : Option Nat) (n w2 w3 : Nat) (parms : List (Bytes × Obj)) (hp : XsParms parms)
    (hc : c < Gen.fio_maxXRefSize) (hir : ∀ i, ir = some i → i < Gen.fio_maxXRefSize)
    (hn : n ≤ Gen.fio_maxXRefSize) (hw2 : w2 ≤ 8) (hw3 : w3 ≤ 8) :
    good (.dict (sdKv0 (xsDict' c ir n w2 w3 parms))) = true ∧
    depthOf (.dict (sdKv0 (xsDict' c ir n w2 w3 parms))) ≤ Gen.scanner_maxScannerNestDepth := by
  obtain ⟨g1, g2, g3, g4, g5, g6, g7, g8, g9, g10, g11, g12⟩ := goodName_keys
  have hcx : c < Gen.xref_maxXRefSize := by simpa [Gen.fio_maxXRefSize, Gen.xref_maxXRefSize] using hc
  have hn' : n ≤ 16777216 := by simpa [Gen.fio_maxXRefSize] using hn
  have hir' : ∀ i, ir = some i → i < Gen.xref_maxXRefSize := fun i hi => by
    simpa [Gen.fio_maxXRefSize, Gen.xref_maxXRefSize] using hir i hi
  rcases hp with rfl | ⟨k, hk, rfl⟩ <;> cases ir with
  | none =>
    refine ⟨?_, by rw [show depthOf (.dict (sdKv0 (xsDict' c _ n w2 w3 _))) = 2 from rfl]; decide⟩
    simp only [sdKv0, xsDict', refOfO, List.filter, List.append_nil, List.cons_append, List.nil_append,
      show (kRoot != kLength) = true by decide +kernel, show (kType != kLength) = true by decide +kernel,
      show (kSize != kLength) = true by decide +kernel, show (kW != kLength) = true by decide +kernel,
      show (kFilter != kLength) = true by decide +kernel, show (kDecodeParms != kLength) = true by decide +kernel,
      good, goodKV, goodList, g1, g2, g3, g4, g5, g6, g7, g8, g9, g10, g11, g12, hcx, Bool.and_true, Bool.true_and,
      Bool.and_eq_true, decide_eq_true_eq]
    repeat' (apply And.intro)
    all_goals first | omega | trivial | (simp [Gen.scanner_maxArrayLen, Gen.scanner_maxDictLen, Gen.xref_maxGeneration]; done) | (simp only [keysOf, List.map]; decide +kernel)
  | some i =>
    have := hir' i rfl
    refine ⟨?_, by rw [show depthOf (.dict (sdKv0 (xsDict' c _ n w2 w3 _))) = 2 from rfl]; decide⟩
    simp only [sdKv0, xsDict', refOfO, List.filter, List.append_nil, List.cons_append, List.nil_append,
      show (kRoot != kLength) = true by decide +kernel, show (kType != kLength) = true by decide +kernel,
      show (kSize != kLength) = true by decide +kernel, show (kW != kLength) = true by decide +kernel,
      show (kInfo != kLength) = true by decide +kernel,
      show (kFilter != kLength) = true by decide +kernel, show (kDecodeParms != kLength) = true by decide +kernel,
      good, goodKV, goodList, g1, g2, g3, g4, g5, g6, g7, g8, g9, g10, g11, g12, hcx, this, Bool.and_true, Bool.true_and,
      Bool.and_eq_true, decide_eq_true_eq]
    repeat' (apply And.intro)
    all_goals first | omega | trivial | (simp [Gen.scanner_maxArrayLen, Gen.scanner_maxDictLen, Gen.xref_maxGeneration]; done) | (simp only [keysOf, List.map]; decide +kernel)


/-- the reader's opening sequence on a file whose `startxref` names a cross-reference stream:
    the offset, `ReadIndirectObject` there, `checkXRefStreamDict` on the dictionary read, and —
    for the form `writeXRefStream` produces: `/W [1 w2 w3]`, no `/Index` — the data through
    `decodeXRefData` (other forms are outside this model: `Err.other`) -/
def openXRefStream (file : Bytes) (inflate : Bytes → Option Bytes) (getInt : Obj → Except Err Int) : Except Err XMap :=
  match findXRef file 0 with
  | .error e => .error e
  | .ok off =>
    match readIndirectObject (file.drop off) off getInt with
    | .error e => .error e
    | .ok (.plain _, _, _, _) => .error .malformed
    | .ok (.stream d start len, _, _, _) =>
      match checkXRefStreamDict d (len : Int) with
      | .error e => .error e
      | .ok ([1, w2, w3], [(0, n)]) => decodeXRefData inflate w2 w3 n ((file.drop start).take len)
      | .ok _ => .error .other

theorem open_xrefstream_file (file pre : Bytes) (p : Nat) (opt : FmtOpt) (ref c : Nat) (ir : Option Nat) (n w2 w3 : Nat)
    (parms : List (Bytes × Obj)) (raw dictBytes value : Bytes) (off : Nat) (doc : List (Nat × Nat × Obj))
    (hfile : file = pre ++ [10] ++ kStartxref ++ decOf p ++ kEOF) (hp0 : 0 < p) (hpl : p ≤ pre.length)
    (hfmt : fmtDictLen opt false (xsDict' c ir n w2 w3 parms) value = some (dictBytes, off))
    (hlt : LenText doc value raw.length)
    (hat : At file p (objHeader ref 0 ++ dictBytes ++ kStream ++ raw ++ kEndstream))
    (hpm : XsParms parms) (hc : c < Gen.fio_maxXRefSize) (hir : ∀ i, ir = some i → i < Gen.fio_maxXRefSize)
    (hw2 : w2 ≤ 8) (hw3 : w3 ≤ 8) (href : ref < Gen.fio_maxXRefSize)
    (hfs : file.length < 9223372036854775808)
    (hcap : n ≤ min Gen.fio_maxXRefSize (Gen.fio_XRefEntriesBase + Gen.fio_XRefEntriesPerByte * raw.length))
    (inflate : Bytes → Option Bytes) (getInt : Obj → Except Err Int)
    (hgi : ∀ i, getInt (.int i) = .ok i)
    (hgr : ∀ r len, (r, 0, Obj.int len) ∈ doc → getInt (.ref r 0) = .ok len) :
    openXRefStream file inflate getInt = decodeXRefData inflate w2 w3 n raw := by
  have hn : n ≤ Gen.fio_maxXRefSize := by omega
  obtain ⟨hg, hd⟩ := xsDict_good c ir n w2 w3 parms hpm hc hir hn hw2 hw3
  have hrl : raw.length ≤ 9223372036854775807 := by
    have := hat.end_le
    simp only [List.length_append] at this
    omega
  have hmget : XMap.get [(ref, ({ inStream := 0, pos := (p : Int), gen := 0 } : XEntry))] ref
      = some { inStream := 0, pos := (p : Int), gen := 0 } := by simp [XMap.get]
  obtain ⟨start, hget, hbody⟩ := get_stream_rt file [(ref, ⟨0, (p : Int), 0⟩)] opt ref 0 (xsDict' c ir n w2 w3 parms) raw
    (p : Int) dictBytes value off doc hmget (by omega) hfmt hlt (by simpa using hat) hg hd href
    (by simp [Gen.fio_maxGeneration]) hrl hfs inflate getInt hgi hgr
  have hu : entryUsable (some { inStream := 0, pos := (p : Int), gen := 0 }) 0 = true := by
    simp [entryUsable, isFree]
  unfold readerGet at hget
  simp only [hmget, hu, Bool.not_true, Bool.false_eq_true, ↓reduceIte, bne_self_eq_false, Nat.add_zero,
    Int.toNat_natCast] at hget
  obtain ⟨hsz, hw, hidx⟩ := xsDict_get c ir n w2 w3 parms hpm
  unfold openXRefStream
  have hfx : findXRef file 0 = .ok p := by
    rw [hfile]
    exact findXRef_tail pre p hp0 (by simp; omega) (by rw [hfile] at hfs; simp at hfs; omega)
  rw [hfx]
  simp only
  split at hget
  · simp at hget
  · rename_i ob n' g' rest hrio
    split at hget
    · simp at hget
    · simp only [Except.ok.injEq, Option.some.injEq] at hget
      subst hget
      rw [hrio]
      simp only [hbody]
      have hchk : checkXRefStreamDict (rdKV (sdBefore (xsDict' c ir n w2 w3 parms)) ++ rdKV (sdAfter (xsDict' c ir n w2 w3 parms)))
          ((raw.length : Nat) : Int) = .ok ([1, w2, w3], [(0, n)]) := by
        unfold checkXRefStreamDict
        have h1 : (decide ((n : Int) < 0) || decide ((n : Int) > (Gen.fio_maxXRefSize : Nat))) = false := by
          simp; omega
        have h2 : widthsOf [.int 1, .int (w2 : Int), .int (w3 : Int)] = some [1, w2, w3] := by
          have a2 : (decide ((w2 : Int) < 0) || decide ((w2 : Int) > 8)) = false := by simp; omega
          have a3 : (decide ((w3 : Int) < 0) || decide ((w3 : Int) > 8)) = false := by simp; omega
          simp [widthsOf, a2, a3]
        simp only [hsz, hw, hidx, h1, h2, Bool.false_eq_true, ↓reduceIte, List.length_cons, List.length_nil]
        have h3 : ([1, w2, w3].foldl (· + ·) 0 == 0) = false := by simp
        have h4 : ¬ ((raw.length : Int) < 0) := by omega
        simp [h3, h4]
        omega
      rw [hchk]
      simp only []

theorem kEndstream_split : ∃ kes, kEndstream = kes ++ [10] := ⟨kEndstream.dropLast, by decide +kernel⟩

theorem open_xrefstream_rt (o : WOpts) (s0 s : WState) (ops : List Op)
    (cat : Obj) (info : Option Obj) (raw : Bytes)
    (henc : o.encrypted = false) (hobj : o.objStm = true)
    (h0 : initState o = some s0)
    (h : run s0 (ops ++ [.close cat info [] raw]) 0 = .ok s)
    (hsize : s.out.length < 9223372036854775808)
    (hlim : ∀ n e, s.xref.get n = some e → e.gen ≤ 65535 ∧ e.pos < (two63 : Int) ∧ e.inStream < Gen.fio_maxXRefSize ∧
      (e.inStream ≠ 0 → 0 ≤ e.pos))
    (hcap : s.nextRef ≤ min Gen.fio_maxXRefSize (Gen.fio_XRefEntriesBase + Gen.fio_XRefEntriesPerByte * raw.length))
    (inflate : Bytes → Option Bytes) (getInt : Obj → Except Err Int)
    (hgi : ∀ i, getInt (.int i) = .ok i)
    (hgr : ∀ r len, (r, 0, Obj.int len) ∈ s.doc → getInt (.ref r 0) = .ok len)
    (hz : ∀ x : XMap, (∀ j, x.get j = if j + 1 = s.nextRef then none else s.xref.get j) →
      inflate raw = some (xrefStreamPayload x s.nextRef).2.2) :
    ∃ m ref, ref + 1 = s.nextRef ∧ openXRefStream s.out inflate getInt = .ok m ∧
      (∀ n e, n ≠ ref → s.xref.get n = some e → e.inStream = 0 → 0 ≤ e.pos →
        m.get n = some { inStream := 0, pos := e.pos, gen := e.gen }) ∧
      (∀ n, n ≠ ref → (s.xref.get n = none ∨ ∃ e, s.xref.get n = some e ∧ e.inStream = 0 ∧ e.pos < 0) →
        (m.get n = none ∨ ∃ x, m.get n = some x ∧ x.pos < 0)) ∧
      (∀ n e, s.xref.get n = some e → e.inStream ≠ 0 → 0 ≤ e.pos →
        m.get n = some { inStream := e.inStream, pos := e.pos, gen := 0 }) ∧
      (∃ e, s.xref.get ref = some e ∧ e.inStream = 0) ∧
      (∀ s1, run s0 ops 0 = .ok s1 → ∀ k e, s1.xref.get k = some e → k ≠ ref) ∧
      (m.get ref = none ∨ ∃ x, m.get ref = some x ∧ x.pos < 0) := by
  obtain ⟨hopts0, _, _, rest0, hout0⟩ := initState_facts o s0 h0
  have hi0 := init_inv o s0 h0
  have his := run_inv _ hi0 h
  have hoptss : s.opts = o := by rw [run_opts _ hi0 h, hopts0]
  have hlit : s.opts.litStr = false := by rw [hoptss]; simp [WOpts.litStr, henc]
  obtain ⟨_, hsdoc, _⟩ := C02fioh.writer_objects_stay o s0 s _ h0 h
  obtain ⟨s1, hr1, hclose⟩ := run_append ops _ h
  simp only [step] at hclose
  have hi1 := run_inv _ hi0 hr1
  have hna1 := run_na _ hi0 (init_na o s0 h0) hr1
  have hopts1 : s1.opts = o := by rw [run_opts _ hi0 hr1, hopts0]
  have hlen1 : s0.out.length ≤ s1.out.length := by
    have hc0 : Cover s0 := by
      intro n e hg _ hp
      unfold initState at h0
      cases hh : header o with
      | none => simp [hh] at h0
      | some hd =>
        simp only [hh, Option.map_some, Option.some.injEq] at h0
        subst h0
        simp only [XMap.get, List.lookup_cons, List.lookup_nil] at hg
        split at hg
        · simp at hg; subst hg; simp at hp
        · simp at hg
    exact (run_step ops hi0 (OpenInv.of_none (initState_facts o s0 h0).2.2.1) hc0 hr1).grow.len
  obtain ⟨s3, ref, cr, ir, mid, ⟨c, hcr, hc⟩, hir0, hir1, i3, hop3, hnone, hreflt, hlen3, hxs, hrec, hout, hnr, hrefn, hmono⟩ :=
    close_xrefstream_form hi1 hna1 (by rw [hopts1]; exact hobj) hclose
  subst hcr
  -- the table encoded and its widths
  have hok : ∀ j, j < s3.nextRef → EntryOK (s3.xref.get j) := by
    intro j _
    cases hg : s3.xref.get j with
    | none => trivial
    | some e =>
      have hne : j ≠ ref := by intro heq; subst heq; rw [hnone] at hg; cases hg
      have := hxs j
      rw [if_neg hne, hg] at this
      exact hlim j e this
  obtain ⟨hw2, hw3, _⟩ := xref_stream_rt s3.xref s3.nextRef hok
  have hinf : inflate raw = some (xrefStreamPayload s3.xref s3.nextRef).2.2 := by
    rw [← hnr]
    refine hz s3.xref (fun j => ?_)
    have := hxs j
    by_cases hj : j = ref
    · subst hj; rw [if_pos (by omega)]; exact hnone
    · rw [if_neg (by omega)]; rw [if_neg hj] at this; exact this.symm
  obtain ⟨m, hdec, hm1, hm2, hm3⟩ := xrefstream_map_agrees s3.xref s3.nextRef hok (fun j e hj => i3.below j e hj) inflate raw hinf
  have hp1 : (xrefStreamPayload s3.xref s3.nextRef).1 = fieldWidth (maxFields s3.xref 0 s3.nextRef).1 := rfl
  have hp2 : (xrefStreamPayload s3.xref s3.nextRef).2.1 = fieldWidth (maxFields s3.xref 0 s3.nextRef).2 := rfl
  rw [hp1, hp2] at hdec
  -- the stream object in the file
  obtain ⟨e, dictBytes, value, off, hxe, heg, hins, hpos, hfd, hlt, hat, _⟩ := hsdoc _ hrec
  simp only at hxe heg hfd hlt hat
  have hxref := hxs ref
  rw [if_pos rfl, hxe] at hxref
  simp only [Option.some.injEq] at hxref
  subst hxref
  simp only [Int.toNat_natCast] at hat
  rw [hlit, xsDict_eq] at hfd
  have hpm : XsParms ([(kPredictor, .int 12)] ++
      (if (1 + fieldWidth (maxFields s3.xref 0 s3.nextRef).1 + fieldWidth (maxFields s3.xref 0 s3.nextRef).2 != 1) = true
       then [(kColumns, .int ((1 + fieldWidth (maxFields s3.xref 0 s3.nextRef).1 + fieldWidth (maxFields s3.xref 0 s3.nextRef).2 : Nat) : Int))]
       else [])) := by
    split
    · exact .inr ⟨_, by omega, rfl⟩
    · exact .inl rfl
  obtain ⟨kes, hkes⟩ := kEndstream_split
  have hfile : s.out = (s3.out ++ mid ++ kes) ++ [10] ++ kStartxref ++ decOf s3.pos ++ kEOF := by
    rw [hout, hkes]; simp [List.append_assoc]
  have hp0 : 0 < s3.pos := by
    rw [i3.pos_eq]
    have : 5 ≤ s0.out.length := by rw [hout0]; simp [kPdf]
    omega
  have hopen := open_xrefstream_file s.out (s3.out ++ mid ++ kes) s3.pos s.opts.fmt ref c ir s3.nextRef _ _ _ raw dictBytes value off s.doc
    hfile hp0 (by rw [i3.pos_eq]; simp) hfd hlt hat hpm hc
    (fun i hi => by
      cases hinfo : info with
      | none => rw [hir0 hinfo] at hi; cases hi
      | some v => obtain ⟨n, a, b⟩ := hir1 v hinfo; rw [a] at hi; cases hi; exact b)
    hw2 hw3 (by have := his.below ref _ hxe; omega) hsize (by rw [← hnr]; exact hcap) inflate getInt hgi hgr
  refine ⟨m, ref, by omega, by rw [hopen, hdec], ?_, ?_, ?_, ⟨_, hxe, rfl⟩, ?_, hm2 ref (.inl hnone)⟩
  rotate_right
  · intro sx hsx k e' hk heq
    rw [hr1] at hsx
    simp only [Except.ok.injEq] at hsx
    subst hsx
    subst heq
    rw [hmono _ _ hk] at hnone
    cases hnone
  · intro n e hne hx hi' hp'
    have := hxs n
    rw [if_neg hne, hx] at this
    exact hm1 n e this.symm hi' hp'
  · intro n hne hfree
    have := hxs n
    rw [if_neg hne] at this
    exact hm2 n (by rw [← this]; exact hfree)
  · intro n e hx hi' hp'
    have hne : n ≠ ref := by
      intro heq; subst heq
      rw [hxe] at hx; cases hx
      exact hi' rfl
    have := hxs n
    rw [if_neg hne, hx] at this
    exact hm3 n e this.symm hi' hp'


/-- **file_rt_xrefstream.**  The whole-file round trip for files with a CROSS-REFERENCE STREAM and
OBJECT STREAMS.  For every program of Writer operations the model accepts in object-stream mode
(PDF ≥ 1.5, not human-readable, unencrypted; Alloc, Put of plain and stream objects, OpenStream /
Write / Close with all `/Length` strategies, Put while a stream is open, WriteCompressed, failed
operations) ending in `Close`, the reader model applied to NOTHING BUT THE BYTES of the file

* opens it (`openXRefStream`): finds the last `startxref`, reads the cross-reference stream object
  there with `ReadIndirectObject`, accepts its dictionary (`checkXRefStreamDict`: `/Size`,
  `/W [1 w2 w3]`, no `/Index`) and decodes the data (`decodeXRefData`) into a map `m`;

and `Reader.get` with that map returns

* for every plain object written directly an object equal to it up to C01's comparison form,
* for every completed stream object (object streams included) a stream whose extent holds exactly
  the bytes handed to `Write`, with the dictionary given (without `/Length`),
* `null` for every never-written or free number — and for the cross-reference stream's own number
  `ref` (the last one): `writeXRefStream` encodes the rows before its own entry is made, so the
  file's table has that number free (that is why the first three clauses say `n ≠ ref`),
* for every member of every `WriteCompressed` (of at most `maxObjStmObjects` members: one object
  stream) the object written, up to comparison form.

Hypotheses, all about the final state, the parameters or C01's limits — none about intermediate
states: the file is below 2^63 bytes; generations ≤ 65535, offsets below 2^63, container numbers
below 2^24 (`hlim`); `Size` within the reader's budget `min(2^24, 8192 + 32·len(raw))` (`hcap`:
beyond it the reader refuses the file — the known finding D26); zlib is trusted, exactly as for
`file_rt_table`'s compression parameter: `inflate raw` = the predicted rows of the table without the
own entry (`hz`), and per object stream `inflate raws.head` = the content assembled; `getInt`
resolves `/Length` (`hgi`, `hgr`); objects within C01's limits.

RESTRICTIONS (not proved beyond them): no fixed trailer entries (`trailer = []`: a file without
`/ID`; with `/ID` the dictionary read back has further entries and `checkXRefStreamDict` needs a
lookup lemma through the sorted form); `WriteCompressed` calls of more than `maxObjStmObjects`
members (split over several object streams) are covered by the writer-side invariants only;
`openXRefStream` is the composition, made here, of the separately modelled and implementation-
compared steps `findXRef`, `readIndirectObject`, `checkXRefStreamDict`, `decodeXRefStream` with the
Flate/PNG-Up layer as in `decodeXRefData` (it does not read `/Filter` and `/DecodeParms` from the
dictionary: the writer's are fixed); the trailer entries `Root`/`Info` of the dictionary read back
are not part of the conclusion. -/
theorem file_rt_xrefstream (o : WOpts) (s0 s : WState) (ops : List Op)
    (cat : Obj) (info : Option Obj) (raw : Bytes)
    (henc : o.encrypted = false) (hobj : o.objStm = true)
    (h0 : initState o = some s0)
    (h : run s0 (ops ++ [.close cat info [] raw]) 0 = .ok s)
    (hsize : s.out.length < 9223372036854775808)
    (hlim : ∀ n e, s.xref.get n = some e → e.gen ≤ 65535 ∧ e.pos < (two63 : Int) ∧ e.inStream < Gen.fio_maxXRefSize ∧
      (e.inStream ≠ 0 → 0 ≤ e.pos))
    (hcap : s.nextRef ≤ min Gen.fio_maxXRefSize (Gen.fio_XRefEntriesBase + Gen.fio_XRefEntriesPerByte * raw.length))
    (inflate : Bytes → Option Bytes) (getInt : Obj → Except Err Int)
    (hgi : ∀ i, getInt (.int i) = .ok i)
    (hgr : ∀ r len, (r, 0, Obj.int len) ∈ s.doc → getInt (.ref r 0) = .ok len)
    (hz : ∀ x : XMap, (∀ j, x.get j = if j + 1 = s.nextRef then none else s.xref.get j) →
      inflate raw = some (xrefStreamPayload x s.nextRef).2.2) :
    ∃ m ref, ref + 1 = s.nextRef ∧ openXRefStream s.out inflate getInt = .ok m ∧
      (∀ n g ob, n ≠ ref → (n, g, ob) ∈ s.doc → good ob = true → depthOk ob → isRefObj ob = false →
        ∃ r, readerGet s.out m 0 inflate getInt n g = .ok (some (.plain r)) ∧ nrm r = nrm ob) ∧
      (∀ n g d body, n ≠ ref → (n, g, d, body) ∈ s.sdoc → good (.dict (sdKv0 d)) = true → depthOk (.dict (sdKv0 d)) →
        ∃ rdict start, readerGet s.out m 0 inflate getInt n g = .ok (some (.stream rdict start body.length)) ∧
          (s.out.drop start).take body.length = body ∧
          nrm (.dict rdict) = nrm (.dict (d.filter fun e => e.1 != kLength))) ∧
      (∀ n g, n ≠ ref → (s.xref.get n = none ∨ ∃ e, s.xref.get n = some e ∧ e.inStream = 0 ∧ e.pos < 0) →
        readerGet s.out m 0 inflate getInt n g = .ok none) ∧
      (∀ g, readerGet s.out m 0 inflate getInt ref g = .ok none) ∧
      (∀ ops1 items raws ops2, ops = ops1 ++ .writeCompressed items raws :: ops2 →
        items ≠ [] → items.length ≤ Gen.fio_maxObjStmObjects →
        (∀ it ∈ items, good it.2.2 = true ∧ depthOk it.2.2) →
        ∀ content cnt first,
          objStmContent o.fmtPlain (items.map fun (num, _, ob) => (num, ob)) = some (content, cnt, first) →
          inflate (raws.headD []) = some content → content.length ≤ 9223372036854775807 →
          ∀ (j num g : Nat) (ob : Obj), items[j]? = some (num, g, ob) →
            ∃ r, readerGet s.out m 0 inflate getInt num 0 = .ok (some (.plain r)) ∧ nrm r = nrm ob) := by
  obtain ⟨m, ref, hrefn, hopen, hm, hmfree, hmstm, ⟨eref, hxref, _⟩, hpre, hown⟩ :=
    open_xrefstream_rt o s0 s ops cat info raw henc hobj h0 h hsize hlim hcap inflate getInt hgi hgr hz
  have hnr : s.nextRef ≤ Gen.fio_maxXRefSize := by omega
  obtain ⟨c1, c2, c3⟩ := file_rt_xrefstream_partial o s0 s ops cat info [] raw henc h0 h hsize
    (fun n e hx => (hlim n e hx).1) hnr m (· ≠ ref)
    (fun n e hP hx hi hp => hm n e hP hx hi hp) (fun n hP hf => hmfree n hP hf) inflate getInt hgi hgr
  refine ⟨m, ref, hrefn, hopen, c1, c2, c3, ?_, ?_⟩
  · -- the cross-reference stream's own number is free in the map it encodes
    intro g
    rcases hown with h1 | ⟨x, h1, h2⟩
    · exact get_free s.out m ref g default (.inl h1) inflate getInt
    · exact get_free s.out m ref g x (.inr ⟨h1, h2⟩) inflate getInt
  · intro ops1 items raws ops2 hops hne hcapi hgood content cnt first hc hinf hclen j num g ob hj
    subst hops
    obtain ⟨sRef, _, _, hcont, hmem⟩ := file_rt_xrefstream_members o s0 s ops1 ops2 items raws cat info [] raw henc hobj h0 h
      hsize hnr m (· ≠ ref) (fun n e hP hx hi hp => hm n e hP hx hi hp) hmstm inflate getInt hgi hgr hne hcapi hgood
      content cnt first hc hinf hclen
    obtain ⟨s1, hr1, _⟩ := run_append _ _ h
    obtain ⟨e1, he1⟩ := hcont s1 hr1
    exact hmem (hpre s1 hr1 sRef e1 he1) j num g ob hj


-- non-vacuity of `file_rt_xrefstream` on the file of `C02fioh`'s example (plain objects 1, 3, 7, the
-- 1030-byte stream object 2, the object stream 6 with members 4 and 5, the cross-reference stream
-- 8; zlib replaced by "stored": `inflate := some`): the hypotheses hold — object-stream mode, no
-- fixed trailer entries, the limits `hlim`, the budget `hcap` (9 ≤ 8192 + 32·54), `hz` (the bytes
-- given to `Close` are the predicted rows of the table without the own entry) — and the
-- conclusions are observed on nothing but the bytes: `openXRefStream` succeeds, the map has the
-- in-use and compressed entries and object 8 free, `Reader.get` returns every object, the stream
-- data, both members, and null for 8 and 9
example : (match initState C02fioh.exOpts with
    | some s0 => (match run s0 (C02fioh.exProg []) 0 with
      | .ok sa =>
        let pl := xrefStreamPayload (sa.xref.filter (fun (p : Nat × XEntry) => p.1 != 8)) sa.nextRef
        (match run s0 (C02fioh.exProg pl.2.2) 0 with
         | .ok s =>
           (match openXRefStream s.out some C02fioh.exGetInt with
            | .ok m =>
              C02fioh.exOpts.objStm && !C02fioh.exOpts.encrypted && s.nextRef == 9 &&
              decide (s.out.length < 9223372036854775808) &&
              decide (s.nextRef ≤ min Gen.fio_maxXRefSize (Gen.fio_XRefEntriesBase + Gen.fio_XRefEntriesPerByte * pl.2.2.length)) &&
              (List.range 9).all (fun n => match s.xref.get n with
                | none => false
                | some e => decide (e.gen ≤ 65535) && decide (e.pos < (two63 : Int)) &&
                    decide (e.inStream < Gen.fio_maxXRefSize) && (e.inStream == 0 || decide (0 ≤ e.pos))) &&
              (xrefStreamPayload (s.xref.filter (fun (p : Nat × XEntry) => p.1 + 1 != s.nextRef)) s.nextRef).2.2 == pl.2.2 &&
              m.get 8 == some ⟨0, -1, 0⟩ && m.get 4 == some ⟨6, 0, 0⟩ && m.get 2 == s.xref.get 2 && m.get 9 == none &&
              (match readerGet s.out m 0 some C02fioh.exGetInt 1 0 with | .ok (some (.plain (.int 5))) => true | _ => false) &&
              (match readerGet s.out m 0 some C02fioh.exGetInt 3 0 with | .ok (some (.plain (.name [65]))) => true | _ => false) &&
              (match readerGet s.out m 0 some C02fioh.exGetInt 7 0 with | .ok (some (.plain (.dict [([84], .int 1)]))) => true | _ => false) &&
              (match readerGet s.out m 0 some C02fioh.exGetInt 2 0 with
               | .ok (some (.stream [] start 1030)) => (s.out.drop start).take 1030 == List.replicate 1030 65
               | _ => false) &&
              (match readerGet s.out m 0 some C02fioh.exGetInt 6 0 with
               | .ok (some (.stream _ start len)) => (s.out.drop start).take len == C02fioh.exObjStm
               | _ => false) &&
              (match readerGet s.out m 0 some C02fioh.exGetInt 4 0 with | .ok (some (.plain (.int 7))) => true | _ => false) &&
              (match readerGet s.out m 0 some C02fioh.exGetInt 5 0 with | .ok (some (.plain (.name [66]))) => true | _ => false) &&
              (match readerGet s.out m 0 some C02fioh.exGetInt 8 0 with | .ok none => true | _ => false) &&
              (match readerGet s.out m 0 some C02fioh.exGetInt 9 0 with | .ok none => true | _ => false)
            | .error _ => false)
         | _ => false)
      | _ => false)
    | none => false) = true := by decide +kernel

end PdfVerif.C02fioj

import PdfVerif.Model.ROBErr
import PdfVerif.Model.ROBScanBuf
import PdfVerif.Props.C05robbuf
/-!
# C19 — I/O failures surface as I/O failures: property theorems

Models: `Model/ROBErr.lean` (error.go, reader.go/sequential.go `shouldExit`, container.go
`sourceErrChecker`/`sourceAwareReader`), `Model/ROBScanBuf.lean` (scanner.go buffer and latch).
-/
namespace PdfVerif.C19rob
open PdfVerif PdfVerif.ROB PdfVerif.C05robbuf

/-! ## error algebra -/

theorem appendLoc_isMalformed (e : GoErr) (loc : String) : (e.appendLoc loc).isMalformed = e.isMalformed := by
  induction e with
  | sentinel id => rfl
  | malformed inner l ih => rfl
  | wrapf m inner ih => simpa [GoErr.appendLoc, GoErr.isMalformed] using ih
  | other m => rfl

theorem appendLoc_is (e : GoErr) (loc : String) (t : Nat) : (e.appendLoc loc).is t = e.is t := by
  induction e with
  | sentinel id => rfl
  | malformed inner l ih => rfl
  | wrapf m inner ih => simpa [GoErr.appendLoc, GoErr.is] using ih
  | other m => rfl

/-- **wrap_preserves_class.**  `Wrap` never changes whether an error is nil, whether it is a
malformed-file error, or which sentinel errors `errors.Is` finds in it (in particular an injected
source error stays findable and stays non-malformed). -/
theorem wrap_preserves_class (err : Option GoErr) (loc : String) :
    (wrap err loc).isSome = err.isSome ∧
    isMalformed (wrap err loc) = isMalformed err ∧
    ∀ t, (match wrap err loc with | some e => e.is t | none => false) =
         (match err with | some e => e.is t | none => false) := by
  cases err with
  | none => simp [wrap, isMalformed]
  | some e =>
    by_cases h : e.isMalformed = true
    · simp [wrap, h, isMalformed, appendLoc_isMalformed, appendLoc_is]
    · simp [wrap, h, isMalformed, GoErr.isMalformed, GoErr.is]

example : isMalformed (wrap (some (.wrapf "x" (.sentinel 2))) "loc") = false ∧
    (match wrap (some (.wrapf "x" (.sentinel 2))) "loc" with | some e => e.is 2 | none => false) = true := by
  decide

/-- **optional_hides_only_malformed.**  `Optional` turns exactly the malformed errors into
"absent" (zero value, nil error); every other error is returned unchanged, and a successful
value is returned unchanged. -/
theorem optional_hides_only_malformed {α : Type} (zero value : α) (err : Option GoErr) :
    (isMalformed err = true → optionalGo zero value err = (zero, none)) ∧
    (isMalformed err = false → err.isSome = true → optionalGo zero value err = (zero, err)) ∧
    (err = none → optionalGo zero value err = (value, none)) := by
  refine ⟨?_, ?_, ?_⟩
  · intro h; simp [optionalGo, h]
  · intro h hs
    cases err with
    | none => simp at hs
    | some e => simp [optionalGo, h]
  · intro h; subst h; simp [optionalGo, isMalformed]

example : optionalGo 0 7 (some (.wrapf "object 3 0 R" (.sentinel 2))) = (0, some (.wrapf "object 3 0 R" (.sentinel 2))) := by
  decide

/-- **open_fault (decision logic).**  In every `ReaderErrorHandling` mode (indeed for every
value of the mode variable) `shouldExit` of `NewReader`/`MakeReader` is true for every non-nil
error that is not a malformed-file error, and such an error is never diverted to `r.Errors`. -/
theorem open_fault (mode : Nat) (e : GoErr) (h : e.isMalformed = false) :
    shouldExit mode (some e) = (true, none) := by
  simp [shouldExit, h]

/-- what `shouldExit` does with malformed errors, for completeness: Recover continues, Report
records and continues, Stop exits -/
theorem shouldExit_malformed (e : GoErr) (h : e.isMalformed = true) :
    shouldExit Gen.rob_reader_ErrorHandlingRecover (some e) = (false, none) ∧
    shouldExit Gen.rob_reader_ErrorHandlingReport (some e) = (false, some e) ∧
    shouldExit Gen.rob_reader_ErrorHandlingStop (some e) = (true, none) := by
  simp [shouldExit, h, Gen.rob_reader_ErrorHandlingRecover, Gen.rob_reader_ErrorHandlingReport,
    Gen.rob_reader_ErrorHandlingStop]


/-- `open_fault` at the catalog step of `NewReader`/`MakeReader`: a non-malformed error of the
    catalog decode is returned as it is, in every mode, with or without `/Pages` -/
theorem catalog_fault (seq : Bool) (mode : Nat) (e : GoErr) (h : e.isMalformed = false) (hasPages : Bool) :
    catalogStep seq mode (some e) hasPages = (true, some e, false) := by
  simp [catalogStep, shouldExit, h]

example : shouldExit 0 (some (.wrapf "document catalog" (.wrapf "object 1 0 R" (.sentinel 2)))) = (true, none) := by
  decide

/-! ## `sourceErrChecker` / `sourceAwareReader` under arbitrary filter layers

A filter stack is *any* function from its state to a program of reads on the checker
(`Model/ROBErr.lean:Prog`), so the theorems quantify over everything a deterministic layer can
do: swallow the error, replace it (flate's `io.ErrUnexpectedEOF`), wrap it into a
`*MalformedFileError`, report it later, or report `io.EOF`. -/

/-- the errors the raw reader returned to the calls a program made, in order -/
def trace {α : Type} (src : RawSrc) : Prog α → Chk → List (Option GoErr)
  | .ret _, _ => []
  | .read want k, c =>
    let r := src c.calls want
    r.2 :: trace src (k r) (c.observe r.2)

/-- the first error of a trace that is not `io.EOF` -/
def firstFault : List (Option GoErr) → Option GoErr
  | [] => none
  | none :: rest => firstFault rest
  | some e :: rest => if e.is idEOF then firstFault rest else some e

theorem observe_some (c : Chk) (s : GoErr) (h : c.srcErr = some s) (e : Option GoErr) :
    (c.observe e).srcErr = some s := by
  unfold Chk.observe
  cases e with
  | none => simp [h]
  | some x => simp [h]

/-- the checker is sticky: once an error is recorded no program changes it -/
theorem run_sticky {α : Type} (src : RawSrc) (p : Prog α) (c : Chk) (s : GoErr)
    (h : c.srcErr = some s) : (p.run src c).2.srcErr = some s := by
  induction p generalizing c with
  | ret a => simpa [Prog.run] using h
  | read want k ih =>
    simp only [Prog.run]
    exact ih _ _ (observe_some c s h _)

/-- what is recorded is the first non-EOF error the raw reader returned -/
theorem run_records {α : Type} (src : RawSrc) (p : Prog α) (c : Chk) (h : c.srcErr = none) :
    (p.run src c).2.srcErr = firstFault (trace src p c) := by
  induction p generalizing c with
  | ret a => simp [Prog.run, trace, firstFault, h]
  | read want k ih =>
    simp only [Prog.run, trace]
    cases hr : (src c.calls want).2 with
    | none =>
      simp only [firstFault]
      apply ih
      simp [Chk.observe, h]
    | some e =>
      by_cases he : e.is idEOF = true
      · simp only [firstFault, he, if_true]
        apply ih
        simp [Chk.observe, he, h]
      · simp only [firstFault, he]
        have : (c.observe (some e)).srcErr = some e := by
          simp [Chk.observe, he, h]
        rw [run_sticky src _ _ e this]
        simp


theorem topRead_srcErr {σ : Type} (L : Layers σ) (src : RawSrc) (st : σ × Chk) (want : Nat) :
    (topRead L src st want).2.2 = ((L.read st.1 want).run src st.2).2 := by
  simp [topRead]

theorem topRead_err {σ : Type} (L : Layers σ) (src : RawSrc) (st : σ × Chk) (want : Nat) (s : GoErr)
    (h : (topRead L src st want).2.2.srcErr = some s) :
    (topRead L src st want).1.2 = none ∨ (topRead L src st want).1.2 = some s := by
  rw [topRead_srcErr] at h
  simp only [topRead]
  cases ho : ((L.read st.1 want).run src st.2).1.1.2 with
  | none => left; simp [ho]
  | some e => right; simp [h]

/-- **source_error_wins** (one `Read` of the reader returned by `DecodeStream`).  Whatever the
filter layers do: (1) if after the call the checker holds a source error `s`, the call returned
no error or exactly `s`; (2) what the checker holds is what it held before, else the first
non-EOF error the raw reader returned during this call — so a source failure is visible in the
very `Read` in which it happens, and no layer can replace it. -/
theorem source_error_wins {σ : Type} (L : Layers σ) (src : RawSrc) (st : σ × Chk) (want : Nat) :
    let r := topRead L src st want
    (∀ s, r.2.2.srcErr = some s → r.1.2 = none ∨ r.1.2 = some s) ∧
    r.2.2.srcErr = (match st.2.srcErr with
      | some s => some s
      | none => firstFault (trace src (L.read st.1 want) st.2)) := by
  refine ⟨fun s h => topRead_err L src st want s h, ?_⟩
  rw [topRead_srcErr]
  cases h : st.2.srcErr with
  | some s => exact run_sticky src _ _ s h
  | none => exact run_records src _ _ h

/-- once the source has failed with `s`, every error any later `Read` returns is `s` -/
theorem source_error_wins_history {σ : Type} (L : Layers σ) (src : RawSrc) (wants : List Nat) :
    ∀ (st : σ × Chk) (s : GoErr), st.2.srcErr = some s →
      ∀ o ∈ (topReads L src st wants).1, o.2 = none ∨ o.2 = some s := by
  induction wants with
  | nil => intro st s _ o ho; simp [topReads] at ho
  | cons w ws ih =>
    intro st s h o ho
    have h1 : (topRead L src st w).2.2.srcErr = some s := by
      rw [topRead_srcErr]; exact run_sticky src _ _ s h
    simp only [topReads, List.mem_cons] at ho
    rcases ho with ho | ho
    · subst ho; exact topRead_err L src st w s h1
    · exact ih _ s h1 o ho

/-- `DecodeStream` while building the chain: if a layer's constructor fails after the raw reader
failed (e.g. a header read), the error returned is the source's (`promote`) -/
theorem construct_promotes {σ : Type} (ctor : Prog (Except GoErr σ)) (src : RawSrc) (e : GoErr)
    (h : construct ctor src = .error e) :
    ∀ s, firstFault (trace src ctor ⟨0, none⟩) = some s → e = s := by
  intro s hs
  have hrec := run_records src ctor ⟨0, none⟩ rfl
  rw [hs] at hrec
  unfold construct at h
  revert h
  cases hr : (ctor.run src ⟨0, none⟩).1 with
  | ok st => simp [hr]
  | error e' =>
    simp [hr, Chk.promote, hrec]
    intro h; exact h.symm


/-- non-vacuity: a layer that reads twice, hides the source's error 2 behind a fresh malformed
error: the caller still gets error 2 -/
example :
    let src : RawSrc := fun k _ => if k = 0 then ([1, 2], none) else ([], some (.sentinel 2))
    let L : Layers Unit := ⟨fun _ _ => .read 8 fun _ => .read 8 fun _ =>
      .ret (([1, 2], some (.malformed (.other "bad data") [])), ())⟩
    (topRead L src ((), ⟨0, none⟩) 64).1 = ([1, 2], some (.sentinel 2)) := by decide

/-! ## `scanner_fault` — the scanner's buffer over a failing reader

`FaultyOver d e0 src` (Props/C05robbuf.lean): `src` serves the bytes `d`; any `Read` may fail with
`e0`, delivering any prefix of the data together with the error ("fail from call k on", "fail
only call k", short reads with error, chunked readers are all instances: `faultySrc_faultyOver`).
`view d s` is the remaining input the parser would see without faults. -/

/-- regression witness of the former finding ROB-1 (fixed as D33): the input `endobj`, the first
    `Read` delivers `end` together with an error.  `PeekN(6)` used to answer `end` with a nil error;
    it now reports the reader's error. -/
example : (peekN (faultySrc [101, 110, 100, 111, 98, 106] 0 (.onlyK 0 3) .io) 6 (SB.init 0)).2 =
    ([101, 110, 100], some .io) := by decide

/-- **scanner_fault** (full strength).  For every reader that serves the bytes `d` and may fail
    with `e0` at any call — from call k on, only at call k, with any number of bytes delivered
    together with the error, with any chunking — every entry point of the scanner's buffer returns
    the fault-free result (the function of `Model/Scan.lean` on the whole remaining input) or the
    reader's error `e0`: `ReadByte`, `ScanBytes` (any acceptor; it also terminates),
    `SkipWhiteSpace`, `PeekN` and `SkipString`.  (Before the fix D33 the `PeekN`/`SkipString`
    clauses were false: former finding ROB-1.) -/
theorem scanner_fault {d : Bytes} {e0 : Err} {src : Source} (h : FaultyOver d e0 src) (s : SB)
    (c : Coh d e0 s) :
    -- ReadByte
    ((((readByte src s).2, view d (readByte src s).1) = readByteSpec (view d s)) ∨ (readByte src s).2 = .error e0) ∧
    -- ScanBytes (any acceptor), with termination
    (∀ {σ : Type} (acc : σ → Nat → Option σ) (empty : Bool) (st : σ),
      (scanBytes src acc (scanBytesFuel (d.length - s.srcOff)) empty st s).1.hang = false ∧
      ((scanSpec acc st (view d s) =
          ((scanBytes src acc (scanBytesFuel (d.length - s.srcOff)) empty st s).2.1,
           view d (scanBytes src acc (scanBytesFuel (d.length - s.srcOff)) empty st s).1,
           decide ((scanBytes src acc (scanBytesFuel (d.length - s.srcOff)) empty st s).2.2 = some .eof)) ∧
        ((scanBytes src acc (scanBytesFuel (d.length - s.srcOff)) empty st s).2.2 = none ∨
         (scanBytes src acc (scanBytesFuel (d.length - s.srcOff)) empty st s).2.2 = some .eof)) ∨
       (scanBytes src acc (scanBytesFuel (d.length - s.srcOff)) empty st s).2.2 = some e0)) ∧
    -- SkipWhiteSpace
    ((skipWS (view d s) =
        (view d (skipWhiteSpace src (scanBytesFuel (d.length - s.srcOff)) s).1,
         decide ((skipWhiteSpace src (scanBytesFuel (d.length - s.srcOff)) s).2 = some .eof)) ∧
      ((skipWhiteSpace src (scanBytesFuel (d.length - s.srcOff)) s).2 = none ∨
       (skipWhiteSpace src (scanBytesFuel (d.length - s.srcOff)) s).2 = some .eof)) ∨
     (skipWhiteSpace src (scanBytesFuel (d.length - s.srcOff)) s).2 = some e0) ∧
    -- PeekN
    (∀ n, n ≤ bufSize →
      ((peekN src n s).2.2 = none ∧ (peekN src n s).2.1 = (view d s).take n) ∨ (peekN src n s).2.2 = some e0) ∧
    -- SkipString
    (∀ pat : Bytes, pat.length ≤ bufSize →
      ((skipString src pat s).2 = none ∧ (view d s).take pat.length = pat ∧
        view d (skipString src pat s).1 = (view d s).drop pat.length) ∨
      ((skipString src pat s).2 = some .malformed ∧ (view d s).take pat.length ≠ pat ∧
        view d (skipString src pat s).1 = view d s) ∨
      (skipString src pat s).2 = some e0) := by
  refine ⟨?_, ?_, ?_, ?_, ?_⟩
  · rcases (readByte_spec h s c).2 with h1 | ⟨h1, _⟩
    · exact Or.inl h1
    · exact Or.inr h1
  · intro σ acc empty st
    obtain ⟨c1, h1⟩ := scanBytes_spec h acc (scanBytesFuel (d.length - s.srcOff)) empty st s c (by simp [scanBytesFuel])
    refine ⟨c1.nohang, ?_⟩
    rcases h1 with ⟨a, b⟩ | ⟨a, _⟩
    · exact Or.inl ⟨b, a⟩
    · exact Or.inr a
  · obtain ⟨_, h1⟩ := skipWhiteSpace_spec h s c (scanBytesFuel (d.length - s.srcOff)) (by simp [scanBytesFuel])
    rcases h1 with ⟨a, b⟩ | ⟨a, _⟩
    · exact Or.inl ⟨b, a⟩
    · exact Or.inr a
  · intro n hn
    rcases (peekN_spec h n hn s c).out with h1 | ⟨h1, _⟩
    · exact Or.inl h1
    · exact Or.inr h1
  · intro pat hn
    rcases (skipString_spec h pat hn s c).2 with h1 | h1 | ⟨h1, _⟩
    · exact Or.inl h1
    · exact Or.inr (Or.inl h1)
    · exact Or.inr (Or.inr h1)

-- non-vacuity: the reader fails from the third call on (7 bytes per call): ReadByte still hands
-- out the 14 buffered bytes one by one, then reports the reader's error, never EOF
example :
    (let d : Bytes := List.replicate 40 65
     let src := faultySrc d 7 (.fromK 2 0) .io
     let s1 := (peekN src 1 (SB.init 0)).1
     match (readByte src s1).2, (readByte src { s1 with pos := 14 }).2 with
     | .ok 65, .error .io => true
     | _, _ => false) = true := by decide +kernel

/-! ## `io.SectionReader` over an `io.ReaderAt` is such a reader

`Reader.scannerFrom` reads through an `io.SectionReader` over the file's `ReaderAt`; if the
`ReaderAt` keeps its contract (a call delivers all the bytes asked for, or an error) it satisfies
`FaultyOver`, so `scanner_fault` applies to the scanners the `Reader` creates. -/

/-- the `ReaderAt` serves `d`; every call inside the data delivers everything asked for, or fails
    with `e0` and no data -/
def CleanReaderAt (d : Bytes) (e0 : Err) (ra : ReaderAtFn) : Prop :=
  ∀ k off n, off + n ≤ d.length →
    ra k off n = ((d.drop off).take n, none) ∨ ra k off n = ([], some e0)

theorem sectionSrc_cases {d : Bytes} {e0 : Err} {ra : ReaderAtFn} (h : CleanReaderAt d e0 ra) (k off want : Nat) :
    (off ≥ d.length ∧ sectionSrc ra d.length k off want = ([], some .eof)) ∨
    (off < d.length ∧ sectionSrc ra d.length k off want = ((d.drop off).take (min want (d.length - off)), none)) ∨
    (off < d.length ∧ sectionSrc ra d.length k off want = ([], some e0)) := by
  by_cases ho : off ≥ d.length
  · left; exact ⟨ho, by simp [sectionSrc, ho]⟩
  · right
    have hlt : off < d.length := by omega
    simp only [sectionSrc, ho, if_false]
    rcases h k off (min want (d.length - off)) (by omega) with hk | hk
    · left; exact ⟨hlt, hk⟩
    · right; exact ⟨hlt, hk⟩

theorem sectionSrc_faultyOver {d : Bytes} {e0 : Err} {ra : ReaderAtFn} (h : CleanReaderAt d e0 ra)
    (he : e0 ≠ .eof) : FaultyOver d e0 (sectionSrc ra d.length) := by
  refine ⟨?_, ?_, ?_, ?_, he⟩
  · intro k off want
    rcases sectionSrc_cases h k off want with ⟨_, hk⟩ | ⟨_, hk⟩ | ⟨_, hk⟩ <;> rw [hk]
    · simp
    · exact (List.take_prefix _ _).trans (List.take_prefix _ _)
    · simp
  · intro k off want hw hn
    rcases sectionSrc_cases h k off want with ⟨_, hk⟩ | ⟨ho, hk⟩ | ⟨_, hk⟩ <;> rw [hk] at hn ⊢
    · cases hn
    · intro hc
      have := congrArg List.length hc
      simp at this
      omega
    · cases hn
  · intro k off want hx
    rcases sectionSrc_cases h k off want with ⟨ho, hk⟩ | ⟨_, hk⟩ | ⟨_, hk⟩ <;> rw [hk] at hx ⊢
    · simp [List.drop_eq_nil_of_le ho]
    · cases hx
    · simp at hx; exact absurd hx he
  · intro k off want x hx
    rcases sectionSrc_cases h k off want with ⟨_, hk⟩ | ⟨_, hk⟩ | ⟨_, hk⟩ <;> rw [hk] at hx
    · simp at hx; exact Or.inl hx.symm
    · cases hx
    · simp at hx; exact Or.inr hx.symm

-- non-vacuity: a ReaderAt whose third call fails is clean
example (d : Bytes) : CleanReaderAt d .io (fun k off n => if k = 2 then ([], some .io) else ((d.drop off).take n, none)) := by
  intro k off n _
  by_cases hk : k = 2
  · right; simp [hk]
  · left; simp [hk]

end PdfVerif.C19rob

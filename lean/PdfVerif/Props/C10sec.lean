import PdfVerif.Props.C09sec
import PdfVerif.Spec.SECStdSec
/-!
# C10 — encrypted files follow the standard algorithms and leak no plaintext: property theorems

`Model/SECSecurity.lean` (the model of `crypto.go`, tied to the code by the correspondence run)
against `Spec/SECStdSec.lean` (an independent transcription of ISO 32000-2 §7.6, itself run
against real files by the C10 harness).  `model_eq_spec_*`: each derivation of the model equals
the transcription — a slip made identically when writing and reading (49 instead of 50 rounds,
a dropped generation byte or "sAlT", a wrong `/P` byte order) would pass every round trip but
break one of these equalities or the correspondence.  `key_input_injective`, `fresh_iv`,
`no_plaintext_obj`.
The primitives are parameters; what is assumed about them is `PrimsOK` (hypothesis, not axiom).
-/
namespace PdfVerif.C10sec
open PdfVerif PdfVerif.SEC

/-- **key_input_injective.**  The five bytes Algorithm 1 appends to the file key determine the
object number below 2^24 and the generation below 2^16: distinct objects get distinct MD5 inputs
(distinct *keys* need MD5 to be collision free on these inputs — not provable). -/
theorem key_input_injective (n g n' g' : Nat) (hn : n < 2 ^ 24) (hg : g < 2 ^ 16)
    (hn' : n' < 2 ^ 24) (hg' : g' < 2 ^ 16) (h : refBytes n g = refBytes n' g') : n = n' ∧ g = g' := by
  simp [refBytes] at h
  omega

/-- beyond these bounds the bytes wrap: this is why `NewReference` caps object numbers at 2^24 − 1 -/
example : refBytes (2 ^ 24 + 5) 0 = refBytes 5 0 := by decide


/-- the Spec's primitives when the model's are `P`: the same functions; RC4 of a message is XOR
with the key stream -/
def specOf (P : Prims) : SpecSec.Crypto where
  md5 := P.md5
  sha256 := P.sha256
  sha384 := P.sha384
  sha512 := P.sha512
  rc4 := fun k x => rc4 P k x
  aesBlockEnc := P.aesEnc
  aesBlockDec := P.aesDec

/-- the Spec's view of a handler -/
def paramsOf (sec : Sec) : SpecSec.Params :=
  { R := sec.R, n := sec.keyBytes, O := sec.O, U := sec.U, P := sec.P, id0 := sec.ID,
    encryptMetadata := !sec.unencMeta, OE := sec.OE, UE := sec.UE, Perms := sec.Perms }

/-! ## small equalities between the two vocabularies -/

theorem padString_eq : SpecSec.padString = Gen.sec_passwdPad := by decide

theorem xor_eq : ∀ (a b : Bytes), SpecSec.xor a b = xorBytes a b
  | [], _ => by simp [SpecSec.xor, xorBytes]
  | _ :: _, [] => by simp [SpecSec.xor, xorBytes]
  | x :: xs, y :: ys => by
    have := xor_eq xs ys
    simp only [SpecSec.xor, xorBytes, List.zipWith_cons_cons] at this ⊢
    rw [this]; rfl

theorem xorKey_eq (k : Bytes) (i : Nat) : SpecSec.xorKey k i = xorKey k i := rfl

theorem le32_eq (p : Nat) : SpecSec.leBytes 4 p = le32 p := by
  have h1 : p / 256 / 256 = p / 65536 := by omega
  have h2 : p / 65536 / 256 = p / 16777216 := by omega
  simp [SpecSec.leBytes, le32, h1, h2]

theorem refBytes_eq (num gen : Nat) : SpecSec.leBytes 3 num ++ SpecSec.leBytes 2 gen = refBytes num gen := by
  have h1 : num / 256 / 256 = num / 65536 := by omega
  simp [SpecSec.leBytes, refBytes, h1]

theorem padPasswd_eq (pw : Bytes) : padPasswd (some pw) = .ok (SpecSec.padPassword pw) := by
  simp only [padPasswd, SpecSec.padPassword, padString_eq, Except.ok.injEq]
  rw [List.take_append]
  by_cases h : pw.length ≤ 32
  · rw [Nat.min_eq_left h, List.take_of_length_le h, List.take_of_length_le (Nat.le_refl _)]
  · have h' : 32 ≤ pw.length := by omega
    rw [Nat.min_eq_right h']
    simp [Nat.sub_eq_zero_of_le h']

theorem iterate_eq (P : Prims) (n : Nat) : ∀ (r : Nat) (h : Bytes),
    md5Iter P n r h = SpecSec.iterate (fun d => P.md5 (d.take n)) r h := by
  intro r
  induction r with
  | zero => intro h; rfl
  | succ r ih => intro h; simp [md5Iter, SpecSec.iterate, ih]

/-! ## model_eq_spec: Algorithm 1 -/

/-- the crypt filter method the Spec speaks of -/
def methodOf (R : Nat) (c : Cipher) : SpecSec.Method :=
  if R = 5 ∨ R = 6 then .aesv3 else match c with | .rc4 => .v2 | .aes => .aesv2

/-- **model_eq_spec_objkey.**  `KeyForRef` computes the key of Algorithm 1 (R 2–4: MD5 over the
file key, the low three bytes of the number, the low two of the generation, "sAlT" for AES; the
first n + 5 ≤ 16 bytes) and of Algorithm 1.A (R 5, 6: the file key itself). -/
theorem model_eq_spec_objkey (P : Prims) (sec : Sec) (cf : CryptFilter) (num gen : Nat) (fk : Bytes)
    (hk : sec.key = some fk) (hl : fk.length = sec.keyBytes) (hR : 2 ≤ sec.R ∧ sec.R ≤ 6) :
    keyForRef P sec cf num gen = .ok (SpecSec.objectKey (specOf P) (methodOf sec.R cf.cipher) fk num gen) := by
  unfold keyForRef
  simp only [hk]
  by_cases h234 : sec.R = 2 ∨ sec.R = 3 ∨ sec.R = 4
  · have h56 : ¬ (sec.R = 5 ∨ sec.R = 6) := by omega
    simp only [h234, ↓reduceIte, methodOf, h56, Except.ok.injEq]
    cases hc : cf.cipher with
    | rc4 => simp [SpecSec.objectKey, specOf, ← refBytes_eq, hl]
    | aes => simp [SpecSec.objectKey, specOf, ← refBytes_eq, hl, saltAES]
  · have h56 : sec.R = 5 ∨ sec.R = 6 := by omega
    simp [h234, h56, methodOf, SpecSec.objectKey]




/-! ## model_eq_spec: Algorithms 2–7 -/

/-- **model_eq_spec_filekey** (Algorithm 2): for every handler and every password string -/
theorem model_eq_spec_filekey (P : Prims) (sec : Sec) (pw : Bytes) :
    computeFileKey P sec (SpecSec.padPassword pw) = SpecSec.alg2 (specOf P) (paramsOf sec) pw := by
  unfold computeFileKey SpecSec.alg2
  simp only [paramsOf, specOf, le32_eq, iterate_eq]
  have hc : (if (sec.unencMeta && decide (sec.R ≥ 4)) = true then [255, 255, 255, 255] else ([] : Bytes)) =
      (if sec.R ≥ 4 ∧ ¬ (!sec.unencMeta) = true then [0xFF, 0xFF, 0xFF, 0xFF] else []) := by
    cases sec.unencMeta <;> by_cases h : sec.R ≥ 4 <;> simp [h]
  rw [hc]
  split <;> rfl

/-- the 50 re-hash rounds of `computeO`/`authenticateOwner` on the first `keyBytes` bytes are the
Spec's rounds on the whole digest when the key has (at least) the digest's 16 bytes -/
theorem md5Iter_full {P : Prims} (ok : PrimsOK P) (n : Nat) (hn : 16 ≤ n) : ∀ (r : Nat) (h : Bytes),
    h.length = 16 → md5Iter P n r h = SpecSec.iterate P.md5 r h := by
  intro r
  induction r with
  | zero => intro h _; rfl
  | succ r ih =>
    intro h hl
    simp only [md5Iter, SpecSec.iterate]
    rw [List.take_of_length_le (by omega), ih _ (ok.md5_len _)]

/-- **model_eq_spec_ownerKey** (Algorithm 3 a–d), for R 2 and for keys of 128 bits -/
theorem model_eq_spec_ownerKey_partial {P : Prims} (ok : PrimsOK P) (sec : Sec) (pw : Bytes)
    (h : sec.R < 3 ∨ 16 ≤ sec.keyBytes) :
    ownerRC4Key P sec (SpecSec.padPassword pw) = SpecSec.ownerKey (specOf P) (paramsOf sec) pw := by
  unfold ownerRC4Key SpecSec.ownerKey
  simp only [paramsOf, specOf]
  by_cases h3 : sec.R ≥ 3
  · have hk : 16 ≤ sec.keyBytes := by omega
    simp only [h3, ↓reduceIte]
    rw [md5Iter_full ok _ hk _ _ (ok.md5_len _)]
  · simp [h3]

/-- the full statement, for every revision and key length … -/
def model_eq_spec_ownerKey_full : Prop :=
  ∀ (P : Prims), PrimsOK P → ∀ (sec : Sec) (pw : Bytes),
    ownerRC4Key P sec (SpecSec.padPassword pw) = SpecSec.ownerKey (specOf P) (paramsOf sec) pw

/-- … is false: for R 3 with a 40-bit key `crypto.go` re-hashes 5 bytes, ISO 32000-2 Algorithm 3
step (c) the whole digest (witness: the toy primitives; the harness replays the difference on real
files with real MD5: known finding `C10-owner-key-md5-input-R3-short-key`) -/
theorem model_eq_spec_ownerKey_full_false : ¬ model_eq_spec_ownerKey_full := by
  intro h
  have := h toyPrims toyOK { R := 3, ID := [], O := [], U := [], P := 0, keyBytes := 5 } []
  revert this
  decide +kernel

theorem rc4Chain_map (P : Prims) (k : Bytes) (f : Nat → Nat) : ∀ (l : List Nat) (x : Bytes),
    rc4Chain P k (l.map f) x = l.foldl (fun acc i => rc4 P (xorKey k (f i)) acc) x := by
  intro l
  induction l with
  | nil => intro x; rfl
  | cons i is ih => intro x; simp [rc4Chain, ih]

theorem up19_eq : up19 = (List.range 19).map (· + 1) := by decide

theorem rc4Chain_up19 (P : Prims) (k x : Bytes) :
    rc4Chain P k up19 x = (List.range 19).foldl (fun acc i => rc4 P (xorKey k (i + 1)) acc) x := by
  rw [up19_eq, rc4Chain_map]

theorem rc4Chain_down19 (P : Prims) (k x : Bytes) :
    rc4Chain P k down19 x = (List.range 20).reverse.foldl (fun acc i => rc4 P (xorKey k i) acc) x := by
  have := rc4Chain_map P k id (List.range 20).reverse x
  simpa [down19] using this

/-- **model_eq_spec_O** (Algorithm 3) -/
theorem model_eq_spec_O_partial {P : Prims} (ok : PrimsOK P) (sec : Sec) (userPw ownerPw : Bytes)
    (h : sec.R < 3 ∨ 16 ≤ sec.keyBytes) :
    computeO P sec (SpecSec.padPassword userPw) (SpecSec.padPassword ownerPw) =
      SpecSec.alg3 (specOf P) (paramsOf sec) ownerPw userPw := by
  unfold computeO SpecSec.alg3
  rw [model_eq_spec_ownerKey_partial ok sec ownerPw h]
  simp only [rc4Chain_up19]
  rfl

/-- **model_eq_spec_U** (Algorithms 4 and 5) -/
theorem model_eq_spec_U (P : Prims) (sec : Sec) (fileKey : Bytes) :
    computeU P sec fileKey =
      if sec.R = 2 then .ok (SpecSec.alg4 (specOf P) fileKey)
      else if sec.R = 3 ∨ sec.R = 4 then
        .ok ((SpecSec.alg5 (specOf P) (paramsOf sec) fileKey).take 16 ++ List.replicate 16 0)
      else .error .other := by
  unfold computeU SpecSec.alg4 SpecSec.alg5
  simp only [rc4Chain_up19, padString_eq]
  rfl

theorem alg5_length {P : Prims} (ok : PrimsOK P) (sec : Sec) (k : Bytes) :
    (SpecSec.alg5 (specOf P) (paramsOf sec) k).length = 16 := by
  unfold SpecSec.alg5
  show (List.foldl (fun acc i => rc4 P (xorKey k (i + 1)) acc) _ (List.range 19)).length = 16
  rw [← rc4Chain_up19, rc4Chain_length ok]
  show (rc4 P k _).length = 16
  rw [rc4_length ok]
  exact ok.md5_len _

/-- **model_eq_spec_authUser** (Algorithm 6): the model accepts a user password exactly when the
Spec does, and with the same key -/
theorem model_eq_spec_authUser {P : Prims} (ok : PrimsOK P) (sec : Sec) (pw : Bytes)
    (hR : sec.R = 2 ∨ sec.R = 3 ∨ sec.R = 4) :
    authenticateUser P sec (SpecSec.padPassword pw) =
      match SpecSec.alg6 (specOf P) (paramsOf sec) pw with
      | some k => .ok { sec with key := some k }
      | none => .error .auth := by
  unfold authenticateUser SpecSec.alg6
  simp only [model_eq_spec_filekey, model_eq_spec_U]
  by_cases h2 : sec.R = 2
  · simp only [h2, ↓reduceIte, paramsOf, beq_iff_eq]
    split <;> rename_i h <;> simp [h]
  · have h34 : sec.R = 3 ∨ sec.R = 4 := by omega
    have hp : (paramsOf sec).R = sec.R := rfl
    have hu : (paramsOf sec).U = sec.U := rfl
    simp only [h2, ↓reduceIte, h34, hp, hu, beq_iff_eq]
    rw [List.take_append_of_le_length (by simp [alg5_length ok]), List.take_take, Nat.min_self]
    split <;> rename_i h <;> simp [h]

theorem padPassword_32 (x : Bytes) (h : x.length = 32) : SpecSec.padPassword x = x := by
  simp [SpecSec.padPassword, List.take_append_of_le_length (Nat.le_of_eq h.symm), List.take_of_length_le (Nat.le_of_eq h)]

/-- **model_eq_spec_authOwner** (Algorithm 7), for R 2 and for keys of 128 bits (see
`model_eq_spec_ownerKey_full_false` for the rest) -/
theorem model_eq_spec_authOwner_partial {P : Prims} (ok : PrimsOK P) (sec : Sec) (pw : Bytes)
    (hR : sec.R = 2 ∨ sec.R = 3 ∨ sec.R = 4) (hO : sec.O.length = 32)
    (h : sec.R < 3 ∨ 16 ≤ sec.keyBytes) :
    authenticateOwner P sec (SpecSec.padPassword pw) =
      match SpecSec.alg7 (specOf P) (paramsOf sec) pw with
      | some k => .ok { sec with key := some k }
      | none => .error .auth := by
  have hc : copy32 sec.O = sec.O := by
    unfold copy32
    rw [List.take_append_of_le_length (by omega), List.take_of_length_le (by omega)]
  -- the purported user password, as the Spec computes it
  let u : Bytes :=
    if sec.R = 2 then rc4 P (SpecSec.ownerKey (specOf P) (paramsOf sec) pw) sec.O
    else (List.range 20).reverse.foldl
      (fun acc i => rc4 P (xorKey (SpecSec.ownerKey (specOf P) (paramsOf sec) pw) i) acc) sec.O
  have hl : u.length = 32 := by
    simp only [u]
    split
    · rw [rc4_length ok, hO]
    · rw [← rc4Chain_down19, rc4Chain_length ok, hO]
  have hm : authenticateOwner P sec (SpecSec.padPassword pw) = authenticateUser P sec u := by
    unfold authenticateOwner
    simp only [hc, model_eq_spec_ownerKey_partial ok sec pw h, rc4Chain_down19, u]
    by_cases h2 : sec.R = 2
    · simp [h2]
    · have h34 : sec.R = 3 ∨ sec.R = 4 := by omega
      simp [h2, h34]
  have hs : SpecSec.alg7 (specOf P) (paramsOf sec) pw = SpecSec.alg6 (specOf P) (paramsOf sec) u := rfl
  rw [hm, hs, ← model_eq_spec_authUser ok sec u hR, padPassword_32 u hl]




/-! ## model_eq_spec: CBC, Algorithm 2.B, Algorithms 8–13 -/

theorem cbcEnc_eq (P : Prims) (k : Bytes) : ∀ (n : Nat) (iv d : Bytes),
    (cbcEncBlocks P k n iv d).1 = (SpecSec.cbcEncList (specOf P) k iv (SpecSec.blocks n d)).flatten := by
  intro n
  induction n with
  | zero => intro iv d; rfl
  | succ n ih =>
    intro iv d
    simp only [cbcEncBlocks, SpecSec.blocks, SpecSec.cbcEncList, List.flatten_cons, xor_eq, ih]
    rfl

theorem cbcDec_eq (P : Prims) (k : Bytes) : ∀ (n : Nat) (iv d : Bytes),
    (cbcDecBlocks P k n iv d).1 = (SpecSec.cbcDecList (specOf P) k iv (SpecSec.blocks n d)).flatten := by
  intro n
  induction n with
  | zero => intro iv d; rfl
  | succ n ih =>
    intro iv d
    simp only [cbcDecBlocks, SpecSec.blocks, SpecSec.cbcDecList, List.flatten_cons, xor_eq, ih]
    rfl

/-- **model_eq_spec_cbc**: the model's `CryptBlocks` machine is CBC mode as SP 800-38A defines it -/
theorem model_eq_spec_cbc (P : Prims) (k iv d : Bytes) :
    cbcEncrypt P k iv d = SpecSec.cbcEnc (specOf P) k iv d ∧
    cbcDecrypt P k iv d = SpecSec.cbcDec (specOf P) k iv d :=
  ⟨cbcEnc_eq P k _ iv d, cbcDec_eq P k _ iv d⟩

/-- `crypto.go` adds the 16 bytes and reduces mod 3; the standard reads them as a big-endian
number: the same, because 256 ≡ 1 (mod 3) -/
theorem sum_mod3 (bs : Bytes) : sumBytes bs % 3 = SpecSec.beValue bs % 3 := by
  have gen : ∀ (l : Bytes) (acc : Nat),
      (l.foldl (fun a b => a * 256 + b) acc) % 3 = (acc + sumBytes l) % 3 := by
    intro l
    induction l with
    | nil => intro acc; simp [sumBytes]
    | cons b bs ih =>
      intro acc
      simp only [List.foldl_cons, sumBytes]
      rw [ih]
      omega
  unfold SpecSec.beValue
  rw [gen bs 0]
  simp

theorem lastByte_eq (e : Bytes) : SpecSec.lastByte e = (match e.getLast? with | some b => b | none => 0) := by
  unfold SpecSec.lastByte
  rw [List.getLast?_eq_head?_reverse]
  cases e.reverse <;> rfl

/-- one round of Algorithm 2.B -/
theorem round_eq (P : Prims) (pw u K : Bytes) :
    (slowHashRound P pw u K).1 = (SpecSec.hashRound (specOf P) pw u K).1 ∧
    (slowHashRound P pw u K).2 = SpecSec.lastByte (SpecSec.hashRound (specOf P) pw u K).2 := by
  unfold slowHashRound SpecSec.hashRound
  simp only [lastByte_eq, (model_eq_spec_cbc P _ _ _).1, sum_mod3]
  refine ⟨?_, rfl⟩
  generalize SpecSec.beValue _ % 3 = r
  match r with
  | 0 => rfl
  | 1 => rfl
  | n + 2 => simp [specOf]

/-- the first 64 rounds -/
theorem loop_first64 (P : Prims) (pw u : Bytes) : ∀ (n fuel i : Nat) (K : Bytes) (last : Nat) (E : Bytes),
    i + n ≤ 64 → last = SpecSec.lastByte E →
    ∃ K' E', SpecSec.iterate (fun ke => SpecSec.hashRound (specOf P) pw u ke.1) n (K, E) = (K', E') ∧
      slowHashLoop P pw u (fuel + n) i K last = slowHashLoop P pw u fuel (i + n) K' (SpecSec.lastByte E') := by
  intro n
  induction n with
  | zero => intro fuel i K last E _ hl; exact ⟨K, E, rfl, by simp [hl]⟩
  | succ n ih =>
    intro fuel i K last E hi hl
    have hc : i < 64 ∨ last + 32 > i := by left; omega
    obtain ⟨h1, h2⟩ := round_eq P pw u K
    obtain ⟨K', E', he, hm⟩ := ih fuel (i + 1) (SpecSec.hashRound (specOf P) pw u K).1
      (SpecSec.lastByte (SpecSec.hashRound (specOf P) pw u K).2) (SpecSec.hashRound (specOf P) pw u K).2
      (by omega) rfl
    refine ⟨K', E', ?_, ?_⟩
    · simpa [SpecSec.iterate] using he
    · have e : fuel + (n + 1) = (fuel + n) + 1 := by omega
      rw [e]
      simp only [slowHashLoop, hc, ↓reduceIte, h1, h2]
      rw [hm]
      congr 1
      omega

/-- the rounds from number 64 on -/
theorem loop_extra (P : Prims) (pw u : Bytes) : ∀ (fuel i : Nat) (K E : Bytes), 64 ≤ i →
    slowHashLoop P pw u fuel i K (SpecSec.lastByte E) = SpecSec.extraRounds (specOf P) pw u fuel i (K, E) := by
  intro fuel
  induction fuel with
  | zero => intro i K E _; rfl
  | succ f ih =>
    intro i K E hi
    obtain ⟨h1, h2⟩ := round_eq P pw u K
    simp only [slowHashLoop, SpecSec.extraRounds]
    by_cases hc : SpecSec.lastByte E > i - 32
    · have hc' : i < 64 ∨ SpecSec.lastByte E + 32 > i := by right; omega
      simp only [hc, hc', ↓reduceIte, h1, h2]
      exact ih (i + 1) _ _ (by omega)
    · have hc' : ¬ (i < 64 ∨ SpecSec.lastByte E + 32 > i) := by omega
      simp [hc, hc']

/-- **model_eq_spec_slowHash** (Algorithm 2.B): `slowHash`'s single loop with the combined
condition `i < 64 || last > i-32` is 64 rounds followed by the extra rounds of steps (e), (f) -/
theorem model_eq_spec_slowHash (P : Prims) (pw salt u : Bytes) :
    slowHash P pw salt u = SpecSec.alg2B (specOf P) pw salt u := by
  unfold slowHash SpecSec.alg2B
  obtain ⟨K', E', he, hm⟩ := loop_first64 P pw u 64 224 0 (P.sha256 (pw ++ salt ++ u)) 0 [] (by omega) rfl
  have e : (224 : Nat) + 64 = 288 := rfl
  rw [e] at hm
  rw [hm]
  show _ = (SpecSec.extraRounds (specOf P) pw u 224 64
    (SpecSec.iterate (fun ke => SpecSec.hashRound (specOf P) pw u ke.1) 64 (P.sha256 (pw ++ salt ++ u), []))).take 32
  rw [he, loop_extra P pw u 224 64 K' E' (by omega)]




theorem zeroIV_eq : SpecSec.zeroIV = Gen.sec_zero16 := by decide

/-- **model_eq_spec_UUE** (Algorithm 8): `buf` are the 16 random bytes, validation salt first -/
theorem model_eq_spec_UUE (P : Prims) (fileKey pw buf : Bytes) (hb : buf.length = 16) :
    computeUAndUE P fileKey pw buf = SpecSec.alg8 (specOf P) fileKey pw (buf.take 8) (buf.drop 8) := by
  unfold computeUAndUE SpecSec.alg8
  simp only [model_eq_spec_slowHash, (model_eq_spec_cbc P _ _ _).1, zeroIV_eq, List.append_assoc,
    List.take_append_drop]

/-- **model_eq_spec_OOE** (Algorithm 9) -/
theorem model_eq_spec_OOE (P : Prims) (fileKey pw u buf : Bytes) (hb : buf.length = 16) :
    computeOAndOE P fileKey pw u buf = SpecSec.alg9 (specOf P) fileKey pw u (buf.take 8) (buf.drop 8) := by
  unfold computeOAndOE SpecSec.alg9
  simp only [model_eq_spec_slowHash, (model_eq_spec_cbc P _ _ _).1, zeroIV_eq, List.append_assoc,
    List.take_append_drop]

theorem permsPlain_eq (p : Nat) (um : Bool) (rnd : Bytes) (hp : p < 2 ^ 32) (hr : rnd.length = 4) :
    SpecSec.permsPlain p (!um) rnd = permsHead p um ++ rnd := by
  unfold SpecSec.permsPlain permsHead
  have h8 : SpecSec.leBytes 8 (p + 0xFFFFFFFF * 2 ^ 32) = le32 p ++ [255, 255, 255, 255] := by
    simp only [SpecSec.leBytes, le32]
    simp only [List.cons_append, List.nil_append, List.cons.injEq, and_true]
    refine ⟨by omega, by omega, by omega, by omega, by omega, by omega, by omega, by omega⟩
  rw [h8, List.take_of_length_le (by omega)]
  cases um <;> simp

/-- **model_eq_spec_Perms** (Algorithm 10): `/P` low byte first, four bytes 0xFF, 'T'/'F', "adb",
four random bytes, one AES-256 block -/
theorem model_eq_spec_Perms (P : Prims) (sec : Sec) (fileKey rnd : Bytes) (hp : sec.P < 2 ^ 32)
    (hr : rnd.length = 4) :
    computePerms P sec fileKey rnd =
      SpecSec.alg10 (specOf P) fileKey sec.P (paramsOf sec).encryptMetadata rnd := by
  unfold computePerms SpecSec.alg10
  simp only [paramsOf, permsPlain_eq _ _ _ hp hr]
  rfl

/-- **model_eq_spec_checkPerms** (Algorithm 13).  `checkPerms` tests everything Algorithm 13
tests; it *also* insists on 0xFF in bytes 4–7 (Algorithm 10 writes them, Algorithm 13 does not
look at them), so the implication goes one way only. -/
theorem model_eq_spec_checkPerms (P : Prims) (sec : Sec) (fileKey : Bytes)
    (h : checkPerms P sec fileKey = true) :
    SpecSec.alg13 (specOf P) (paramsOf sec) fileKey = true := by
  unfold checkPerms at h
  unfold SpecSec.alg13
  simp only [beq_iff_eq] at h
  simp only [paramsOf, specOf, le32_eq, decide_eq_true_eq]
  generalize P.aesDec fileKey sec.Perms = d at h ⊢
  have h4 : d.take 4 = le32 sec.P := by
    have := congrArg (List.take 4) h
    simpa [permsHead, le32, List.take_take] using this
  have h9 : (d.drop 9).take 3 = [0x61, 0x64, 0x62] := by
    have := congrArg (fun l => (l.drop 9).take 3) h
    simp only [permsHead, le32] at this
    rw [List.drop_take] at this
    simpa [List.take_take] using this
  have h8 : (d.drop 8).take 1 = [if (!sec.unencMeta) = true then 0x54 else 0x46] := by
    have := congrArg (fun l => (l.drop 8).take 1) h
    simp only [permsHead, le32] at this
    rw [List.drop_take] at this
    cases hu : sec.unencMeta <;> simpa [List.take_take, hu] using this
  exact ⟨h9, h4, h8⟩




/-- **model_eq_spec_P**: `/P` is written as a signed 32-bit integer and read back modulo 2^32 -/
theorem model_eq_spec_P (p : Nat) (i : Int) :
    toI32 p = SpecSec.pAsInteger p ∧ toU32 i = SpecSec.pOfInteger i := by
  constructor
  · unfold toI32 SpecSec.pAsInteger
    by_cases h : p ≥ 2147483648
    · have : ¬ p < 2 ^ 31 := by omega
      simp [h, this]
    · have : p < 2 ^ 31 := by omega
      simp [h, this]
  · rfl

theorem P_roundtrip (p : Nat) (h : p < 2 ^ 32) : toU32 (toI32 p) = p := by
  unfold toU32 toI32
  split <;> omega

/-- **model_eq_spec_authUser6** (Algorithm 11 with 2.A (d)–(f)).  The model accepts a user
password for R 6 exactly when Algorithm 11 yields a key and `checkPerms` accepts it (which
implies Algorithm 13, `model_eq_spec_checkPerms`), with that key. -/
theorem model_eq_spec_authUser6 (P : Prims) (sec : Sec) (pw : Bytes) (hR : sec.R = 6) :
    authenticateUser6 P sec pw =
      match SpecSec.alg11 (specOf P) (paramsOf sec) pw with
      | some k => if checkPerms P sec k then .ok { sec with key := some k } else .error .auth
      | none => .error .auth := by
  unfold authenticateUser6 SpecSec.alg11
  have h5 : ¬ sec.R = 5 := by omega
  simp only [hashRev, h5, ↓reduceIte, model_eq_spec_slowHash, (model_eq_spec_cbc P _ _ _).2, zeroIV_eq, paramsOf]
  by_cases h : SpecSec.alg2B (specOf P) pw ((sec.U.drop 32).take 8) [] = sec.U.take 32
  · simp [h]
  · simp [h]

/-- **model_eq_spec_authOwner6** (Algorithm 12 with 2.A (b), (c), (e), (f)) -/
theorem model_eq_spec_authOwner6 (P : Prims) (sec : Sec) (pw : Bytes) (hR : sec.R = 6) :
    authenticateOwner6 P sec pw =
      match SpecSec.alg12 (specOf P) (paramsOf sec) pw with
      | some k => if checkPerms P sec k then .ok { sec with key := some k } else .error .auth
      | none => .error .auth := by
  unfold authenticateOwner6 SpecSec.alg12
  have h5 : ¬ sec.R = 5 := by omega
  simp only [hashRev, h5, ↓reduceIte, model_eq_spec_slowHash, (model_eq_spec_cbc P _ _ _).2, zeroIV_eq, paramsOf]
  by_cases h : SpecSec.alg2B (specOf P) pw ((sec.O.drop 32).take 8) sec.U = sec.O.take 32
  · simp [h]
  · simp [h]

theorem pad16_eq (x : Bytes) : SpecSec.pad16 x = pkcs7Pad x := rfl

/-- **model_eq_spec_encrypt.**  What `EncryptBytes` stores for a string of object `(num, gen)` is
what the standard prescribes (Algorithm 1 / 1.A): RC4 under the object key, or IV ‖ AES-CBC of
the padded string under the object key (the file key for AESV3), with the next 16 random bytes
as IV. -/
theorem model_eq_spec_encrypt (P : Prims) (enc : EncInfo) (cf : CryptFilter) (num gen : Nat)
    (fk buf rng out rng' : Bytes) (hf : enc.strF = some cf)
    (hk : enc.sec.key = some fk) (hl : fk.length = enc.sec.keyBytes) (hR : 2 ≤ enc.sec.R ∧ enc.sec.R ≤ 6)
    (hv3 : (enc.sec.R = 5 ∨ enc.sec.R = 6) → cf.cipher = .aes)
    (h : encryptBytes P enc num gen buf rng = .ok (out, rng')) :
    out = SpecSec.encryptData (specOf P) (methodOf enc.sec.R cf.cipher) fk num gen (rng.take 16) buf := by
  unfold encryptBytes at h
  simp only [hf, model_eq_spec_objkey P enc.sec cf num gen fk hk hl hR] at h
  unfold SpecSec.encryptData
  cases hc : cf.cipher with
  | rc4 =>
    have h56 : ¬ (enc.sec.R = 5 ∨ enc.sec.R = 6) := by intro h'; rw [hv3 h'] at hc; cases hc
    simp only [hc, Except.ok.injEq, Prod.mk.injEq] at h
    simp only [methodOf, h56, ↓reduceIte] at h ⊢
    exact h.1.symm
  | aes =>
    simp only [hc] at h
    by_cases hlen : rng.length < 16
    · simp [hlen] at h
    · simp only [hlen, ↓reduceIte] at h
      split at h
      · simp at h
      · simp only [Except.ok.injEq, Prod.mk.injEq] at h
        rw [← h.1, C09sec.encryptAES_eq, (model_eq_spec_cbc P _ _ _).1, pad16_eq]
        by_cases h56 : enc.sec.R = 5 ∨ enc.sec.R = 6
        · simp [methodOf, h56]
        · simp [methodOf, h56]




/-! ## fresh_iv -/

/-- with AES filters a single encryption call reads exactly the next 16 random bytes: they are its
IV (the first 16 bytes of its output), the rest of the stream is left untouched, and the output
is a function of the call and these 16 bytes alone -/
theorem encCall_local (P : Prims) (enc : EncInfo) (l1 l2 : Nat)
    (hs : enc.strF = some ⟨.aes, l1⟩) (hm : enc.stmF = some ⟨.aes, l2⟩)
    (c : EncCall) (rng o r' : Bytes) (h : encCall P enc c rng = .ok (o, r')) :
    16 ≤ rng.length ∧ r' = rng.drop 16 ∧ o.take 16 = rng.take 16 ∧
    encCall P enc c (rng.take 16) = .ok (o, []) := by
  cases c with
  | str n g b =>
    simp only [encCall, encryptBytes, hs] at h ⊢
    cases hk : keyForRef P enc.sec ⟨.aes, l1⟩ n g with
    | error e => simp [hk] at h
    | ok key =>
      simp only [hk] at h ⊢
      by_cases hl : rng.length < 16
      · simp [hl] at h
      · by_cases hko : aesKeyOk key = true
        · simp only [hl, ↓reduceIte, hko, Bool.not_true, Bool.false_eq_true, Except.ok.injEq,
            Prod.mk.injEq] at h
          have hl' : ¬ (rng.take 16).length < 16 := by simp; omega
          refine ⟨by omega, h.2.symm, ?_, ?_⟩
          · rw [← h.1, C09sec.encryptAES_eq]; exact List.take_left' (by simp; omega)
          · simp only [hl', ↓reduceIte, hko, Bool.not_true, Bool.false_eq_true, List.take_take,
              Nat.min_self, Except.ok.injEq, Prod.mk.injEq]
            exact ⟨h.1, by simp⟩
        · simp [hl, hko] at h
  | stm n g cs =>
    simp only [encCall, encryptStream, hm] at h ⊢
    cases hk : keyForRef P enc.sec ⟨.aes, l2⟩ n g with
    | error e => simp [hk] at h
    | ok key =>
      simp only [hk] at h ⊢
      by_cases hko : aesKeyOk key = true
      · by_cases hl : rng.length < 16
        · simp [hl, hko] at h
        · simp only [hl, ↓reduceIte, hko, Bool.not_true, Bool.false_eq_true, Except.ok.injEq,
            Prod.mk.injEq] at h
          have hl' : ¬ (rng.take 16).length < 16 := by simp; omega
          refine ⟨by omega, h.2.symm, ?_, ?_⟩
          · rw [← h.1]; exact List.take_left' (by simp; omega)
          · simp only [hl', ↓reduceIte, hko, Bool.not_true, Bool.false_eq_true, List.take_take,
              Nat.min_self, Except.ok.injEq, Prod.mk.injEq]
            exact ⟨h.1, by simp⟩
      · simp [hko] at h

/-- **fresh_iv.**  In a document encrypted with AES, the k-th encryption call (string or stream,
in the order of writing) takes the bytes `[16k, 16k+16)` of the random stream as its IV, its
output depends on no other random byte, and after n calls exactly 16·n bytes are used up.  That
IVs never repeat is then a property of the random source alone. -/
theorem fresh_iv (P : Prims) (enc : EncInfo) (l1 l2 : Nat)
    (hs : enc.strF = some ⟨.aes, l1⟩) (hm : enc.stmF = some ⟨.aes, l2⟩) :
    ∀ (calls : List EncCall) (rng : Bytes) (outs : List Bytes) (rng' : Bytes),
      encCalls P enc calls rng = .ok (outs, rng') →
      16 * calls.length ≤ rng.length ∧ rng' = rng.drop (16 * calls.length) ∧ outs.length = calls.length ∧
      ∀ k c, calls[k]? = some c → ∃ o, outs[k]? = some o ∧
        o.take 16 = (rng.drop (16 * k)).take 16 ∧
        encCall P enc c ((rng.drop (16 * k)).take 16) = .ok (o, []) := by
  intro calls
  induction calls with
  | nil =>
    intro rng outs rng' h
    simp only [encCalls, Except.ok.injEq, Prod.mk.injEq] at h
    simp [← h.1, ← h.2]
  | cons c cs ih =>
    intro rng outs rng' h
    simp only [encCalls] at h
    cases h1 : encCall P enc c rng with
    | error e => simp [h1] at h
    | ok p1 =>
      obtain ⟨o, r1⟩ := p1
      simp only [h1] at h
      cases h2 : encCalls P enc cs r1 with
      | error e => simp [h2] at h
      | ok p2 =>
        obtain ⟨os, r2⟩ := p2
        simp only [h2, Except.ok.injEq, Prod.mk.injEq] at h
        obtain ⟨hl, hr1, hiv, hloc⟩ := encCall_local P enc l1 l2 hs hm c rng o r1 h1
        obtain ⟨ihl, ihr, ihn, ihk⟩ := ih r1 os r2 h2
        subst hr1
        rw [List.length_drop] at ihl
        refine ⟨by simp; omega, ?_, ?_, ?_⟩
        · rw [← h.2, ihr, List.drop_drop]; congr 1; simp; omega
        · rw [← h.1]; simp [ihn]
        · intro k c' hk
          cases k with
          | zero =>
            simp only [List.getElem?_cons_zero, Option.some.injEq] at hk
            subst hk
            exact ⟨o, by rw [← h.1]; rfl, by simpa using hiv, by simpa using hloc⟩
          | succ k =>
            simp only [List.getElem?_cons_succ] at hk
            obtain ⟨o', ho, hiv', hloc'⟩ := ihk k c' hk
            have e : 16 * (k + 1) = 16 + 16 * k := by omega
            refine ⟨o', by rw [← h.1]; simpa using ho, ?_, ?_⟩
            · rw [e, ← List.drop_drop]; exact hiv'
            · rw [e, ← List.drop_drop]; exact hloc'


/-! ## no_plaintext for objects: every string leaf goes through `EncryptBytes` -/

theorem encCalls_append (P : Prims) (enc : EncInfo) : ∀ (a b : List EncCall) (rng : Bytes) (o1 o2 : List Bytes) (r1 r2 : Bytes),
    encCalls P enc a rng = .ok (o1, r1) → encCalls P enc b r1 = .ok (o2, r2) →
    encCalls P enc (a ++ b) rng = .ok (o1 ++ o2, r2) := by
  intro a
  induction a with
  | nil =>
    intro b rng o1 o2 r1 r2 h1 h2
    simp only [encCalls, Except.ok.injEq, Prod.mk.injEq] at h1
    obtain ⟨e1, e2⟩ := h1
    subst e1 e2
    simpa using h2
  | cons c cs ih =>
    intro b rng o1 o2 r1 r2 h1 h2
    simp only [encCalls] at h1
    cases hc : encCall P enc c rng with
    | error e => simp [hc] at h1
    | ok p =>
      obtain ⟨o, r⟩ := p
      simp only [hc] at h1
      cases hcs : encCalls P enc cs r with
      | error e => simp [hcs] at h1
      | ok q =>
        obtain ⟨os, r'⟩ := q
        simp only [hcs, Except.ok.injEq, Prod.mk.injEq] at h1
        have := ih b r os o2 r' r2 hcs (by rw [h1.2]; exact h2)
        simp [encCalls, hc, this, ← h1.1]

mutual
theorem encObj_spec (P : Prims) (enc : EncInfo) (num gen : Nat) :
    ∀ (o : Obj) (rng : Bytes) (o' : Obj) (rng' : Bytes), encObj P enc num gen o rng = .ok (o', rng') →
      encCalls P enc ((strLeaves o).map (EncCall.str num gen)) rng = .ok (strLeaves o', rng') ∧
      skeleton o' = skeleton o
  | .str s, rng, o', rng', h => by
    simp only [encObj] at h
    cases he : encryptBytes P enc num gen s rng with
    | error e => simp [he] at h
    | ok p =>
      obtain ⟨c, r⟩ := p
      simp only [he, Except.ok.injEq, Prod.mk.injEq] at h
      simp [← h.1, ← h.2, strLeaves, skeleton, encCalls, encCall, he]
  | .arr xs, rng, o', rng', h => by
    simp only [encObj] at h
    cases he : encList P enc num gen xs rng with
    | error e => simp [he] at h
    | ok p =>
      obtain ⟨ys, r⟩ := p
      simp only [he, Except.ok.injEq, Prod.mk.injEq] at h
      obtain ⟨h1, h2⟩ := encList_spec P enc num gen xs rng ys r he
      simp [← h.1, ← h.2, strLeaves, skeleton, h1, h2]
  | .dict kv, rng, o', rng', h => by
    simp only [encObj] at h
    cases he : encKV P enc num gen kv rng with
    | error e => simp [he] at h
    | ok p =>
      obtain ⟨kv', r⟩ := p
      simp only [he, Except.ok.injEq, Prod.mk.injEq] at h
      obtain ⟨h1, h2⟩ := encKV_spec P enc num gen kv rng kv' r he
      simp [← h.1, ← h.2, strLeaves, skeleton, h1, h2]
  | .null, rng, o', rng', h => by simp [encObj] at h; simp [← h.1, ← h.2, strLeaves, encCalls]
  | .nilArr, rng, o', rng', h => by simp [encObj] at h; simp [← h.1, ← h.2, strLeaves, encCalls]
  | .bool _, rng, o', rng', h => by simp [encObj] at h; simp [← h.1, ← h.2, strLeaves, encCalls]
  | .int _, rng, o', rng', h => by simp [encObj] at h; simp [← h.1, ← h.2, strLeaves, encCalls]
  | .real _, rng, o', rng', h => by simp [encObj] at h; simp [← h.1, ← h.2, strLeaves, encCalls]
  | .name _, rng, o', rng', h => by simp [encObj] at h; simp [← h.1, ← h.2, strLeaves, encCalls]
  | .op _, rng, o', rng', h => by simp [encObj] at h; simp [← h.1, ← h.2, strLeaves, encCalls]
  | .ref _ _, rng, o', rng', h => by simp [encObj] at h; simp [← h.1, ← h.2, strLeaves, encCalls]
theorem encList_spec (P : Prims) (enc : EncInfo) (num gen : Nat) :
    ∀ (xs : List Obj) (rng : Bytes) (ys : List Obj) (rng' : Bytes), encList P enc num gen xs rng = .ok (ys, rng') →
      encCalls P enc ((strLeavesList xs).map (EncCall.str num gen)) rng = .ok (strLeavesList ys, rng') ∧
      skeletonList ys = skeletonList xs
  | [], rng, ys, rng', h => by
    simp only [encList, Except.ok.injEq, Prod.mk.injEq] at h
    simp [← h.1, ← h.2, strLeavesList, skeletonList, encCalls]
  | x :: xs, rng, ys, rng', h => by
    simp only [encList] at h
    cases hx : encObj P enc num gen x rng with
    | error e => simp [hx] at h
    | ok p =>
      obtain ⟨y, r⟩ := p
      simp only [hx] at h
      cases hxs : encList P enc num gen xs r with
      | error e => simp [hxs] at h
      | ok q =>
        obtain ⟨ys', r'⟩ := q
        simp only [hxs, Except.ok.injEq, Prod.mk.injEq] at h
        obtain ⟨a1, a2⟩ := encObj_spec P enc num gen x rng y r hx
        obtain ⟨b1, b2⟩ := encList_spec P enc num gen xs r ys' r' hxs
        refine ⟨?_, by simp [← h.1, skeletonList, a2, b2]⟩
        simp only [← h.1, ← h.2, strLeavesList, List.map_append]
        exact encCalls_append P enc _ _ _ _ _ _ _ a1 b1
theorem encKV_spec (P : Prims) (enc : EncInfo) (num gen : Nat) :
    ∀ (kv : List (Bytes × Obj)) (rng : Bytes) (kv' : List (Bytes × Obj)) (rng' : Bytes),
      encKV P enc num gen kv rng = .ok (kv', rng') →
      encCalls P enc ((strLeavesKV kv).map (EncCall.str num gen)) rng = .ok (strLeavesKV kv', rng') ∧
      skeletonKV kv' = skeletonKV kv
  | [], rng, kv', rng', h => by
    simp only [encKV, Except.ok.injEq, Prod.mk.injEq] at h
    simp [← h.1, ← h.2, strLeavesKV, skeletonKV, encCalls]
  | (k, v) :: rest, rng, kv', rng', h => by
    simp only [encKV] at h
    cases hx : encObj P enc num gen v rng with
    | error e => simp [hx] at h
    | ok p =>
      obtain ⟨v', r⟩ := p
      simp only [hx] at h
      cases hxs : encKV P enc num gen rest r with
      | error e => simp [hxs] at h
      | ok q =>
        obtain ⟨rest', r'⟩ := q
        simp only [hxs, Except.ok.injEq, Prod.mk.injEq] at h
        obtain ⟨a1, a2⟩ := encObj_spec P enc num gen v rng v' r hx
        obtain ⟨b1, b2⟩ := encKV_spec P enc num gen rest r rest' r' hxs
        refine ⟨?_, by simp [← h.1, skeletonKV, a2, b2]⟩
        simp only [← h.1, ← h.2, strLeavesKV, List.map_append]
        exact encCalls_append P enc _ _ _ _ _ _ _ a1 b1
end


theorem encCalls_each (P : Prims) (enc : EncInfo) : ∀ (calls : List EncCall) (rng : Bytes) (outs : List Bytes) (rng' : Bytes),
    encCalls P enc calls rng = .ok (outs, rng') →
    outs.length = calls.length ∧
    ∀ (k : Nat) c, calls[k]? = some c → ∃ o r r', outs[k]? = some o ∧ encCall P enc c r = .ok (o, r') := by
  intro calls
  induction calls with
  | nil =>
    intro rng outs rng' h
    simp only [encCalls, Except.ok.injEq, Prod.mk.injEq] at h
    simp [← h.1]
  | cons c cs ih =>
    intro rng outs rng' h
    simp only [encCalls] at h
    cases hc : encCall P enc c rng with
    | error e => simp [hc] at h
    | ok p =>
      obtain ⟨o, r⟩ := p
      simp only [hc] at h
      cases hcs : encCalls P enc cs r with
      | error e => simp [hcs] at h
      | ok q =>
        obtain ⟨os, r'⟩ := q
        simp only [hcs, Except.ok.injEq, Prod.mk.injEq] at h
        obtain ⟨hl, hk⟩ := ih r os r' hcs
        refine ⟨by rw [← h.1]; simp [hl], ?_⟩
        intro k c' hk'
        cases k with
        | zero =>
          simp only [List.getElem?_cons_zero, Option.some.injEq] at hk'
          subst hk'
          exact ⟨o, rng, r, by rw [← h.1]; rfl, hc⟩
        | succ k =>
          simp only [List.getElem?_cons_succ] at hk'
          obtain ⟨o', r1, r2, ho, hc'⟩ := hk k c' hk'
          exact ⟨o', r1, r2, by rw [← h.1]; simpa using ho, hc'⟩

/-- **no_plaintext (objects).**  When an object of `(num, gen)` is formatted on the encrypting
writer, the result has the same shape (everything except string contents is unchanged), it has
as many string leaves as the object, and the k-th stored string is a ciphertext of the k-th
string: `DecryptBytes` for the same object turns it back.  No string leaf is written as it is
(unless there is no string filter), whatever the nesting in arrays and dictionaries. -/
theorem no_plaintext_obj {P : Prims} (ok : PrimsOK P) (enc : EncInfo) (num gen : Nat) (o o' : Obj)
    (rng rng' : Bytes) (h : encObj P enc num gen o rng = .ok (o', rng')) :
    skeleton o' = skeleton o ∧ (strLeaves o').length = (strLeaves o).length ∧
    ∀ (k : Nat) s, (strLeaves o)[k]? = some s →
      ∃ c, (strLeaves o')[k]? = some c ∧ decryptBytes P enc num gen c = .ok s := by
  obtain ⟨h1, h2⟩ := encObj_spec P enc num gen o rng o' rng' h
  obtain ⟨hl, hk⟩ := encCalls_each P enc _ _ _ _ h1
  refine ⟨h2, by simpa using hl, ?_⟩
  intro k s hs
  obtain ⟨c, r, r', hc, he⟩ := hk k (EncCall.str num gen s) (by simp [hs])
  exact ⟨c, hc, C09sec.encrypt_decrypt_bytes ok enc num gen s r c r' he⟩

/-- with AES the k-th string leaf gets the k-th 16-byte slice of the random stream as IV -/
theorem obj_fresh_iv (P : Prims) (enc : EncInfo) (l1 l2 : Nat)
    (hs : enc.strF = some ⟨.aes, l1⟩) (hm : enc.stmF = some ⟨.aes, l2⟩) (num gen : Nat) (o o' : Obj)
    (rng rng' : Bytes) (h : encObj P enc num gen o rng = .ok (o', rng')) :
    rng' = rng.drop (16 * (strLeaves o).length) ∧
    ∀ (k : Nat) c, (strLeaves o')[k]? = some c → k < (strLeaves o).length → c.take 16 = (rng.drop (16 * k)).take 16 := by
  obtain ⟨h1, _⟩ := encObj_spec P enc num gen o rng o' rng' h
  obtain ⟨_, hr, hl, hk⟩ := fresh_iv P enc l1 l2 hs hm _ _ _ _ h1
  refine ⟨by simpa using hr, ?_⟩
  intro k c hc hlt
  have : ((strLeaves o).map (EncCall.str num gen))[k]? = some (EncCall.str num gen ((strLeaves o)[k]'hlt)) := by
    simp [List.getElem?_eq_getElem hlt]
  obtain ⟨o2, ho2, hiv, _⟩ := hk k _ this
  rw [hc] at ho2
  cases ho2
  exact hiv


/-! ## non-vacuity -/

example : slowHash toyPrims [1] [2] [] = SpecSec.alg2B (specOf toyPrims) [1] [2] [] := model_eq_spec_slowHash _ _ _ _
example : ∃ outs r, encCalls toyPrims C09sec.toyEnc [.str 7 0 [104, 105], .stm 8 1 [[1, 2], [3]]] (List.range 40)
    = .ok (outs, r) := ⟨_, _, rfl⟩

end PdfVerif.C10sec

import PdfVerif.Model.FNTWidths
import PdfVerif.Model.FNTSimple
import PdfVerif.Lemmas.FNTMap
/-!
# C14 (work package FNT) — width arrays: `widths_rt`

Composite fonts: `decodeCompositeWidths (encodeCompositeWidths m)` performs exactly the
assignments `res[cid] = m[cid]` in ascending CID order (`w_roundtrip`), hence returns every
recorded width (`w_lookup`).  Simple fonts: every code that has a glyph reads back its width
through `FirstChar`/`Widths`/`MissingWidth`, whatever default width was chosen
(`simple_widths_rt`).  Models: `Model/FNTWidths.lean` (tied to `font/dict/metrics.go` and
`graphics/extract/font-metrics.go` by the `wenc`/`wdec`/`swenc`/`swdec` correspondence lines).
-/
namespace PdfVerif.C14fntc
open PdfVerif PdfVerif.FNT

/-! ## composite: the W array -/

/-- consecutive CIDs from `c` paired with the given widths -/
def zipFrom : Nat → List Int → List (Nat × Int)
  | _, [] => []
  | c, w :: ws => (c, w) :: zipFrom (c + 1) ws

/-- the assignments an item stands for -/
def expandItem : WItem → List (Nat × Int)
  | .range c0 c1 w => zipFrom c0 (List.replicate (c1 - c0 + 1) w)
  | .list c0 ws => zipFrom c0 ws

def expandAll (items : List WItem) : List (Nat × Int) := items.flatMap expandItem

def ItemOk : WItem → Prop
  | .range c0 c1 _ => c0 ≤ c1
  | .list _ _ => True

theorem zipFrom_append (c : Nat) (a b : List Int) :
    zipFrom c (a ++ b) = zipFrom c a ++ zipFrom (c + a.length) b := by
  induction a generalizing c with
  | nil => simp [zipFrom]
  | cons x xs ih =>
    simp only [List.cons_append, zipFrom, List.length_cons, ih]
    have : c + 1 + xs.length = c + (xs.length + 1) := by omega
    rw [this]

theorem zipFrom_length (c : Nat) (a : List Int) : (zipFrom c a).length = a.length := by
  induction a generalizing c with
  | nil => simp [zipFrom]
  | cons x xs ih => simp [zipFrom, ih]

theorem zipFrom_mem_ge (c : Nat) (a : List Int) (p : Nat × Int) (h : p ∈ zipFrom c a) :
    c ≤ p.1 ∧ p.1 < c + a.length := by
  induction a generalizing c with
  | nil => simp [zipFrom] at h
  | cons x xs ih =>
    simp [zipFrom] at h
    rcases h with rfl | h
    · simp
    · have := ih (c + 1) h; simp; omega

theorem zipFrom_last_mem (c : Nat) (a : List Int) (h : a ≠ []) :
    ∃ w, (c + a.length - 1, w) ∈ zipFrom c a := by
  induction a generalizing c with
  | nil => exact absurd rfl h
  | cons x xs ih =>
    cases xs with
    | nil => exact ⟨x, by simp [zipFrom]⟩
    | cons y ys =>
      obtain ⟨w, hw⟩ := ih (c + 1) (by simp)
      refine ⟨w, ?_⟩
      simp only [zipFrom, List.length_cons] at hw ⊢
      have e : c + 1 + (ys.length + 1) - 1 = c + (ys.length + 1 + 1) - 1 := by omega
      rw [e] at hw
      exact List.mem_cons_of_mem _ hw

/-- all elements equal the head -/
def AllEq : List Int → Prop
  | [] => True
  | w0 :: ws => ∀ w ∈ ws, w = w0

theorem allEq_replicate (w0 : Int) (ws : List Int) (h : AllEq (w0 :: ws)) :
    w0 :: ws = List.replicate (ws.length + 1) w0 := by
  induction ws with
  | nil => simp [List.replicate]
  | cons x xs ih =>
    have hx : x = w0 := h x (by simp)
    have hxs : AllEq (w0 :: xs) := fun w hw => h w (List.mem_cons_of_mem _ hw)
    have := ih hxs
    subst hx
    simp only [List.length_cons, List.replicate_succ] at this ⊢
    rw [List.cons.injEq] at this ⊢
    exact ⟨rfl, by rw [← List.replicate_succ]; simpa [List.replicate_succ] using this.2 ▸ rfl⟩

/-- state invariant of the encoder loop: the run covers the CIDs `rs … re` -/
def RunInv (rs re : Nat) (run : List Int) (ae : Bool) : Prop :=
  run ≠ [] → re + 1 = rs + run.length ∧ (ae = true → AllEq run)

theorem flushRun_spec (rs re : Nat) (run : List Int) (ae : Bool) (h : RunInv rs re run ae) :
    expandAll (flushRun rs re run ae) = zipFrom rs run ∧ ∀ it ∈ flushRun rs re run ae, ItemOk it := by
  unfold flushRun
  cases run with
  | nil => simp [expandAll, zipFrom]
  | cons w0 ws =>
    obtain ⟨hre, hae⟩ := h (by simp)
    simp only
    split
    · rename_i hc
      simp at hc
      have hall := hae hc.1
      have hrep := allEq_replicate w0 ws hall
      have hlen : re - rs + 1 = ws.length + 1 := by simp at hre; omega
      refine ⟨?_, ?_⟩
      · simp only [expandAll, List.flatMap_cons, List.flatMap_nil, List.append_nil, expandItem, hlen]
        rw [← hrep]
      · intro it hit; simp at hit; subst hit; simp [ItemOk]; simp at hre; omega
    · refine ⟨by simp [expandAll, expandItem], ?_⟩
      intro it hit; simp at hit; subst hit; simp [ItemOk]

theorem expandAll_append (a b : List WItem) : expandAll (a ++ b) = expandAll a ++ expandAll b := by
  simp [expandAll]

/-- **the encoder loses nothing**: the items expand to the pending run followed by the
remaining entries, and every range item is ascending -/
theorem encLoop_spec (l : List (Nat × Int)) (rs re : Nat) (run : List Int) (ae : Bool)
    (h : RunInv rs re run ae) :
    expandAll (encLoop l rs re run ae) = zipFrom rs run ++ l ∧
    ∀ it ∈ encLoop l rs re run ae, ItemOk it := by
  induction l generalizing rs re run ae with
  | nil =>
    unfold encLoop
    have := flushRun_spec rs re run ae h
    simpa using this
  | cons p rest ih =>
    obtain ⟨cid, w⟩ := p
    cases run with
    | nil =>
      unfold encLoop
      have hinv : RunInv cid cid [w] true := by
        intro _; exact ⟨by simp, fun _ => by simp [AllEq]⟩
      have := ih cid cid [w] true hinv
      simpa [zipFrom] using this
    | cons w0 run' =>
      unfold encLoop
      obtain ⟨hre, hae⟩ := h (by simp)
      split
      · -- break: flush, start a new run
        have hf := flushRun_spec rs re (w0 :: run') ae h
        have hinv : RunInv cid cid [w] true := by
          intro _; exact ⟨by simp, fun _ => by simp [AllEq]⟩
        have hr := ih cid cid [w] true hinv
        refine ⟨?_, ?_⟩
        · rw [expandAll_append, hf.1, hr.1]; simp [zipFrom]
        · intro it hit
          rcases List.mem_append.mp hit with hit | hit
          · exact hf.2 it hit
          · exact hr.2 it hit
      · rename_i hnb
        simp at hnb
        have hcid : cid = re + 1 := hnb.1
        have hinv : RunInv rs cid (w0 :: run' ++ [w]) (ae && w == w0) := by
          intro _
          refine ⟨by simp at hre ⊢; omega, ?_⟩
          intro hae'
          simp at hae'
          have hall := hae hae'.1
          intro x hx
          simp at hx
          rcases hx with hx | hx
          · exact hall x hx
          · rw [hx]; exact hae'.2
        have hr := ih rs cid (w0 :: run' ++ [w]) (ae && w == w0) hinv
        refine ⟨?_, hr.2⟩
        rw [hr.1, zipFrom_append]
        have : rs + (run'.length + 1) = cid := by simp at hre; omega
        simp [this, zipFrom]

theorem encodeW_expand (l : List (Nat × Int)) :
    expandAll (encodeW l) = l ∧ ∀ it ∈ encodeW l, ItemOk it := by
  have := encLoop_spec l 0 0 [] false (by intro h; exact absurd rfl h)
  simpa [encodeW, zipFrom] using this

/-! ### the decoder on a flattened item list -/

theorem assignRange_spec (wi : Int) (n c count : Nat) (log : List (Nat × Int))
    (h : count + n ≤ K.maxWEntries) :
    assignRange wi n c count log = .ok (count + n, (zipFrom c (List.replicate n wi)).reverse ++ log) := by
  induction n generalizing c count log with
  | zero => simp [assignRange, zipFrom]
  | succ k ih =>
    unfold assignRange
    have h1 : ¬ (count + 1 > K.maxWEntries) := by omega
    simp only [h1, ↓reduceIte]
    rw [ih (c + 1) (count + 1) ((c, wi) :: log) (by omega)]
    simp [List.replicate_succ, zipFrom]; omega

theorem assignList_spec (ws : List Int) (c0 count : Nat) (log : List (Nat × Int))
    (hc : ws ≠ [] → c0 + ws.length ≤ K.maxCID + 1) (h : count + ws.length ≤ K.maxWEntries) :
    assignList (ws.map fun w => Obj.int w) (c0 : Int) count log =
      .ok (count + ws.length, (zipFrom c0 ws).reverse ++ log) := by
  induction ws generalizing c0 count log with
  | nil => simp [assignList, zipFrom]
  | cons w ws ih =>
    simp only [List.map_cons, assignList, asInt]
    have hc' := hc (by simp)
    simp only [List.length_cons] at hc' h
    have h0 : ¬ ((c0 : Int) > (K.maxCID : Nat)) := by
      have : c0 ≤ K.maxCID := by omega
      omega
    have h1 : ¬ (count + 1 > K.maxWEntries) := by omega
    simp only [h0, h1, ↓reduceIte]
    have := ih (c0 + 1) (count + 1) ((c0, w) :: log) (by intro _; omega) (by omega)
    simp only [Int.toNat_natCast]
    have e : ((c0 : Int) + 1) = ((c0 + 1 : Nat) : Int) := by omega
    rw [e, this]
    simp [zipFrom]; omega

/-- bounds an item must meet for the decoder to accept it -/
def ItemFits (it : WItem) : Prop := ItemOk it ∧ ∀ p ∈ expandItem it, p.1 ≤ K.maxCID

theorem range_c1_le (c0 c1 : Nat) (w : Int) (h : ItemFits (.range c0 c1 w)) : c1 ≤ K.maxCID := by
  obtain ⟨hok, hb⟩ := h
  simp [ItemOk] at hok
  obtain ⟨w', hw'⟩ := zipFrom_last_mem c0 (List.replicate (c1 - c0 + 1) w) (by simp)
  have := hb _ hw'
  simp at this
  omega

theorem list_fits (c0 : Nat) (ws : List Int) (h : ItemFits (.list c0 ws)) (hne : ws ≠ []) :
    c0 + ws.length ≤ K.maxCID + 1 := by
  obtain ⟨w', hw'⟩ := zipFrom_last_mem c0 ws hne
  have := h.2 _ hw'
  have hl : ws.length ≥ 1 := by
    cases ws with
    | nil => exact absurd rfl hne
    | cons _ _ => simp
  simp at this
  omega

theorem decodeWAux_spec (items : List WItem) (fuel count : Nat) (log : List (Nat × Int))
    (hf : fuel ≥ items.length + 1) (hfit : ∀ it ∈ items, ItemFits it)
    (hcount : count + (expandAll items).length ≤ K.maxWEntries) :
    decodeWAux fuel (flattenW items) count log = .ok ((expandAll items).reverse ++ log) := by
  induction items generalizing fuel count log with
  | nil =>
    cases fuel with
    | zero => simp at hf
    | succ f => simp [flattenW, decodeWAux, expandAll]
  | cons it rest ih =>
    cases fuel with
    | zero => simp at hf
    | succ f =>
      have hf' : f ≥ rest.length + 1 := by simp at hf; omega
      have hfit' : ∀ it ∈ rest, ItemFits it := fun x hx => hfit x (List.mem_cons_of_mem _ hx)
      have hit := hfit it (List.mem_cons_self)
      have hexp : expandAll (it :: rest) = expandItem it ++ expandAll rest := by simp [expandAll]
      rw [hexp] at hcount ⊢
      simp only [List.length_append] at hcount
      cases it with
      | range c0 c1 w =>
        have hok : c0 ≤ c1 := hit.1
        have hc1 := range_c1_le c0 c1 w hit
        have hlen : (expandItem (.range c0 c1 w)).length = c1 - c0 + 1 := by
          simp [expandItem, zipFrom_length]
        rw [hlen] at hcount
        simp only [flattenW, List.flatMap_cons, WItem.toObjs, List.cons_append, List.nil_append,
          decodeWAux, asInt]
        have g1 : ¬ ((c0 : Int) < 0 ∨ (c1 : Int) < (c0 : Int) ∨ (c1 : Int) > (K.maxCID : Nat)) := by omega
        have e1 : ((c1 : Int) - (c0 : Int) + 1).toNat = c1 - c0 + 1 := by omega
        simp only [Bool.or_eq_true, decide_eq_true_eq, g1, ↓reduceIte, e1, Int.toNat_natCast]
        rw [assignRange_spec w (c1 - c0 + 1) c0 count log (by omega)]
        simp only
        have := ih f (count + (c1 - c0 + 1)) ((zipFrom c0 (List.replicate (c1 - c0 + 1) w)).reverse ++ log)
          hf' hfit' (by omega)
        simp only [flattenW] at this
        rw [this]
        simp [expandItem]
        exact ⟨hok, hc1⟩
      | list c0 ws =>
        have hlen : (expandItem (.list c0 ws)).length = ws.length := by
          simp [expandItem, zipFrom_length]
        rw [hlen] at hcount
        simp only [flattenW, List.flatMap_cons, WItem.toObjs, List.cons_append, List.nil_append,
          decodeWAux, asInt, asArr]
        have g1 : ¬ ((c0 : Int) < 0) := by omega
        simp only [g1, ↓reduceIte]
        rw [assignList_spec ws c0 count log (fun hne => list_fits c0 ws hit hne) (by omega)]
        simp only
        have := ih f (count + ws.length) ((zipFrom c0 ws).reverse ++ log) hf' hfit' (by omega)
        simp only [flattenW] at this
        rw [this]
        simp [expandItem]

theorem flattenW_length_ge (items : List WItem) : items.length ≤ (flattenW items).length := by
  induction items with
  | nil => simp [flattenW]
  | cons it rest ih =>
    have h1 : (flattenW (it :: rest)).length = it.toObjs.length + (flattenW rest).length := by
      simp [flattenW]
    have h2 : it.toObjs.length ≥ 1 := by cases it <;> simp [WItem.toObjs]
    rw [h1]; simp only [List.length_cons]; omega

theorem mem_expandAll {items : List WItem} {it : WItem} (h : it ∈ items) (p : Nat × Int)
    (hp : p ∈ expandItem it) : p ∈ expandAll items := by
  simp only [expandAll, List.mem_flatMap]
  exact ⟨it, h, hp⟩

/-- **widths_rt (composite fonts).**  For every width table — given as the entries of the Go map
in ascending CID order; neither order nor distinctness is needed for this statement — whose
CIDs are at most 65535 and which has at most 65536 entries, decoding the W array written by
`encodeCompositeWidths` performs exactly the assignments `res[cid] = width`, in order: nothing is
lost, nothing invented, no entry is rejected. -/
theorem w_roundtrip (l : List (Nat × Int)) (hcid : ∀ p ∈ l, p.1 ≤ K.maxCID)
    (hlen : l.length ≤ K.maxWEntries) :
    decodeW (flattenW (encodeW l)) = .ok l := by
  obtain ⟨hexp, hok⟩ := encodeW_expand l
  have hfit : ∀ it ∈ encodeW l, ItemFits it := by
    intro it hit
    refine ⟨hok it hit, ?_⟩
    intro p hp
    have := mem_expandAll hit p hp
    rw [hexp] at this
    exact hcid p this
  unfold decodeW
  rw [decodeWAux_spec (encodeW l) _ 0 [] (by have := flattenW_length_ge (encodeW l); omega) hfit
    (by rw [hexp]; omega)]
  simp [hexp, Except.map]

/-- keys of a Go map are distinct -/
def DistinctKeys (l : List (Nat × Int)) : Prop := Map.NodupKeys l

theorem get_reverse_of_mem (l : List (Nat × Int)) (h : DistinctKeys l) (cid : Nat) (w : Int)
    (hm : (cid, w) ∈ l) : Map.get l.reverse cid = some w := by
  induction l with
  | nil => simp at hm
  | cons p rest ih =>
    obtain ⟨k, v⟩ := p
    have hnd : (k :: Map.keys rest).Nodup := by simpa [DistinctKeys, Map.NodupKeys, Map.keys] using h
    have hk : k ∉ Map.keys rest := (List.nodup_cons.mp hnd).1
    have hrest : DistinctKeys rest := (List.nodup_cons.mp hnd).2
    -- get on an append
    have happ : ∀ (a b : List (Nat × Int)) (c : Nat), Map.get (a ++ b) c =
        match Map.get a c with | some x => some x | none => Map.get b c := by
      intro a b c
      induction a with
      | nil => simp
      | cons q qs ihq =>
        obtain ⟨k', v'⟩ := q
        simp only [List.cons_append, Map.get_cons]
        split <;> simp_all
    simp only [List.reverse_cons, happ]
    rcases List.mem_cons.mp hm with heq | hmem
    · cases heq
      have : Map.get rest.reverse cid = none := by
        apply Map.get_none_iff_not_mem_keys.mpr
        simpa [Map.keys] using hk
      simp [this, Map.get_cons]
    · rw [ih hrest hmem]

/-- **widths_rt, as the reader sees it**: after `extract` has decoded the W array, the width of
every recorded CID is the recorded width (and `DW` applies only to CIDs that were not recorded) -/
theorem w_lookup (l : List (Nat × Int)) (hd : DistinctKeys l) (hcid : ∀ p ∈ l, p.1 ≤ K.maxCID)
    (hlen : l.length ≤ K.maxWEntries) (dw : Int) :
    ∃ log, decodeW (flattenW (encodeW l)) = .ok log ∧
      (∀ cid w, (cid, w) ∈ l → cidWidth log dw cid = w) ∧
      (∀ cid, cid ∉ Map.keys l → cidWidth log dw cid = dw) := by
  refine ⟨l, w_roundtrip l hcid hlen, ?_, ?_⟩
  · intro cid w hm
    simp [cidWidth, logGet, get_reverse_of_mem l hd cid w hm]
  · intro cid hn
    have : Map.get l.reverse cid = none := by
      apply Map.get_none_iff_not_mem_keys.mpr
      simpa [Map.keys] using hn
    simp [cidWidth, logGet, this]

/-- ISO 32000-2, Table 115 (entries in a CIDFont dictionary): "DW … Default value: 1000".  The
writer omits DW when it equals `dict.DefaultWidthDefault` and the reader assumes that constant when
DW is absent; both sides agree with each other by construction, this pins them to the standard
(over the regenerated `Generated/FNTFacts.lean`). -/
theorem dw_default_is_spec : defaultDW = 1000 := by decide

-- non-vacuity: a table with a run of equal widths, a run of different widths, a gap and the
-- last CID meets the hypotheses, uses both item forms and round-trips
example : encodeW [(1, 500), (2, 500), (3, 500), (4, 600), (5, 250), (9, 0), (65535, 1000)] =
    [.range 1 3 500, .list 4 [600, 250], .list 9 [0], .list 65535 [1000]] ∧
    (match decodeW (flattenW (encodeW [(1, 500), (2, 500), (3, 500), (4, 600), (5, 250), (9, 0), (65535, 1000)])) with
      | .ok l => l == [(1, 500), (2, 500), (3, 500), (4, 600), (5, 250), (9, 0), (65535, 1000)]
      | .error _ => false) = true := by
  decide +kernel

/-! ## simple fonts -/

theorem lastCharFrom_le (skip : Nat → Bool) (n : Nat) : lastCharFrom skip n ≤ n := by
  induction n with
  | zero => simp [lastCharFrom]
  | succ k ih => unfold lastCharFrom; split <;> omega

theorem lastCharFrom_skipped (skip : Nat → Bool) (n c : Nat) (h1 : lastCharFrom skip n < c) (h2 : c ≤ n) :
    skip c = true := by
  induction n with
  | zero => omega
  | succ k ih =>
    unfold lastCharFrom at h1
    split at h1
    · rename_i hs
      by_cases hc : c = k + 1
      · subst hc; exact hs
      · exact ih h1 (by omega)
    · omega

theorem firstCharFrom_spec (skip : Nat → Bool) (last fuel f : Nat) (hf : f ≤ last) :
    f ≤ firstCharFrom skip last fuel f ∧ firstCharFrom skip last fuel f ≤ last ∧
    ∀ c, f ≤ c → c < firstCharFrom skip last fuel f → skip c = true := by
  induction fuel generalizing f with
  | zero => simp [firstCharFrom]; exact ⟨hf, fun c h1 h2 => by omega⟩
  | succ k ih =>
    unfold firstCharFrom
    split
    · rename_i hc
      simp at hc
      obtain ⟨a, b, c'⟩ := ih (f + 1) (by omega)
      refine ⟨by omega, b, ?_⟩
      intro x hx1 hx2
      by_cases hxf : x = f
      · subst hxf; exact hc.2
      · exact c' x (by omega) hx2
    · exact ⟨Nat.le_refl _, hf, fun c h1 h2 => by omega⟩

theorem assignSimple_range (ww : Nat → Int) (n a : Nat) (g : Nat → Int) (h : a + n ≤ 256) :
    assignSimple ((List.range' a n).map fun c => Obj.int (ww c)) (a : Int) g =
      fun c => if a ≤ c ∧ c < a + n then ww c else g c := by
  induction n generalizing a g with
  | zero => funext c; simp [assignSimple]; omega
  | succ k ih =>
    simp only [List.range'_succ, List.map_cons, assignSimple, asInt]
    have ha : ((a : Int) < 256) := by omega
    simp only [ha, ↓reduceIte]
    have e : ((a : Int) + 1) = ((a + 1 : Nat) : Int) := by omega
    rw [e, ih (a + 1) _ (by omega)]
    funext c
    simp only [Int.toNat_natCast]
    by_cases h1 : a + 1 ≤ c ∧ c < a + 1 + k
    · have : a ≤ c ∧ c < a + (k + 1) := by omega
      simp [h1, this]
    · by_cases h2 : c = a
      · subst h2; simp
      · have : ¬ (a ≤ c ∧ c < a + (k + 1)) := by omega
        simp [h1, h2, this]

/-- **widths_rt (simple fonts).**  For every width vector, every encoding and every default
width (whatever `DefaultWidth()` returned): the reader accepts what `setSimpleWidths` wrote, and
every code that has a glyph gets its width back — from the `Widths` array if it lies inside
`FirstChar..LastChar`, from `MissingWidth` otherwise. -/
theorem simple_widths_rt (ww : Nat → Int) (mapped : Nat → Bool) (dw : Int) :
    let r := encodeSimpleW ww mapped dw
    let d := decodeSimpleW r.firstChar (some (r.widths.map fun w => Obj.int w)) dw
    d.1 = true ∧ r.firstChar ≤ r.lastChar ∧ r.lastChar ≤ 255 ∧
    r.widths.length = r.lastChar - r.firstChar + 1 ∧
    ∀ c, c < 256 → mapped c = true → d.2 c = ww c := by
  intro r d
  have hlast : r.lastChar ≤ 255 := by
    simp only [r, encodeSimpleW]; exact lastCharFrom_le _ 255
  obtain ⟨_, hfl, hfs⟩ := firstCharFrom_spec (fun c => !mapped c || ww c == dw) r.lastChar 256 0 (Nat.zero_le _)
  have hfl' : r.firstChar ≤ r.lastChar := hfl
  have hwl : r.widths.length = r.lastChar - r.firstChar + 1 := by
    simp [r, encodeSimpleW]
  have hd : d = (true, assignSimple (r.widths.map fun w => Obj.int w) r.firstChar (fun _ => dw)) := by
    simp only [d, decodeSimpleW]
    have g : ¬ (r.widths.length > 256 ∨ (r.firstChar : Int) < 0 ∨ (r.firstChar : Int) ≥ 256) := by
      rw [hwl]; omega
    simp [g]
    omega
  refine ⟨by rw [hd], hfl', hlast, hwl, ?_⟩
  intro c hc hm
  rw [hd]
  simp only
  have hw : r.widths.map (fun w => Obj.int w) =
      (List.range' r.firstChar (r.lastChar - r.firstChar + 1)).map fun c => Obj.int (ww c) := by
    simp [r, encodeSimpleW]
  rw [hw, assignSimple_range ww _ r.firstChar _ (by omega)]
  simp only
  split
  · rfl
  · rename_i hout
    -- outside FirstChar..LastChar: the code was skipped, so its width is the default width
    have hskip : (fun c => !mapped c || ww c == dw) c = true := by
      by_cases h1 : c < r.firstChar
      · exact hfs c (Nat.zero_le _) h1
      · have hlc : r.lastChar < c := by omega
        simp only [r, encodeSimpleW] at hlc
        exact lastCharFrom_skipped _ 255 c hlc (by omega)
    simp [hm] at hskip
    exact hskip.symm

-- non-vacuity: three mapped codes, the outer two at the default width
example :
    let ww : Nat → Int := fun c => if c == 65 then 722 else if c == 66 then 600 else if c == 200 then 500 else 0
    let mapped : Nat → Bool := fun c => c == 65 || c == 66 || c == 200
    encodeSimpleW ww mapped 500 = ⟨65, 66, [722, 600]⟩ ∧
    (decodeSimpleW 65 (some [.int 722, .int 600]) 500).2 200 = 500 := by
  decide +kernel

/-- `dict.Width[c]` as the simple embedders fill it (`for c, info := range MappedCodes()`):
    the recorded width for mapped codes, 0 elsewhere -/
def dictWidth (s : Simple) (c : Nat) : Int :=
  match s.info.get c with
  | some i => i.width
  | none => 0

/-- **codes_readback, width through the file (simple fonts).**  Compose the encoder state with the
width pipeline of the font dictionary: whatever `MissingWidth` the embedder chose, the width the
reader finds for a code that has an entry and a glyph name is the width `Codes` reports on the
writer side — the width recorded by `Encode`. -/
theorem simple_pipeline_width (s : Simple) (dw : Int) (c : Nat) (i : Info) (hlt : c < 256)
    (hc : s.info.get c = some i) (hname : s.encodingName c ≠ []) :
    let r := encodeSimpleW (dictWidth s) (fun c => s.encodingName c != []) dw
    (decodeSimpleW r.firstChar (some (r.widths.map fun w => Obj.int w)) dw).2 c = (s.codeOut c).width ∧
    (s.codeOut c).width = i.width := by
  intro r
  have h := (simple_widths_rt (dictWidth s) (fun c => s.encodingName c != []) dw).2.2.2.2 c hlt
    (by simp [hname])
  refine ⟨?_, by simp [Simple.codeOut, Simple.getInfo, hc]⟩
  rw [h]
  simp [dictWidth, Simple.codeOut, Simple.getInfo, hc]

end PdfVerif.C14fntc

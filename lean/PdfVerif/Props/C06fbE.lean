import PdfVerif.Props.C06fbA
/-!
# C06 (CCITTFax, work package FB): Group 3 one-dimensional rows with EOL codes (K = 0, EndOfLine)

Every row is preceded by the EOL code `000000000001`.  The 1-D loop of the reader meets it at
`xpos = 0`: `decodeRun` answers `S_EOL` for eleven zeros, `waitForOne` consumes the `1`, the EOL
counter goes to 1 (six in a row are the return-to-control sequence) and the loop goes on with the
row's runs.  Here without EncodedByteAlign.
-/
namespace PdfVerif.C06fbE
open PdfVerif PdfVerif.FB PdfVerif.Gen PdfVerif.C06fbt PdfVerif.C06faC PdfVerif.C06fbA

/-- **one EOL code at the start of a row**: consumed, counted, the line stays empty -/
theorem dec1D_eol (p : CParams) (hc : 0 < p.columns) (r : Rd) (tl : Bits) (f n : Nat) (nt : Bool)
    (hn : n + 1 < 6) (he : Rd.clean r) (hline : r.line = []) (hs : Rd.stream r = codeBits 1 12 ++ tl) :
    ∃ r2, Rd.decode1DGo r p (f + 1) 0 true n nt = Rd.decode1DGo r2 p f 0 true (n + 1) false ∧
      Rd.clean r2 ∧ Rd.stream r2 = tl ∧ r2.line = [] := by
  rw [eol12_bits, List.append_assoc] at hs
  have hlen : 12 ≤ (Rd.stream r).length := by rw [hs]; simp
  obtain ⟨p1, p2, p3, p4⟩ := peek_spec r 12 he (by omega) hlen
  have hv : (r.peek 12).1 = 1 := by
    rw [p1, hs]
    have : (List.replicate 11 false ++ ([true] ++ tl)).take 12
        = List.replicate 11 false ++ [true] := by
      rw [← List.append_assoc, List.take_append_of_le_length (by simp), List.take_of_length_le (by simp)]
    rw [this]; rfl
  obtain ⟨w1, w2, w3⟩ := white_eol_entry
  obtain ⟨c1, c2, c3⟩ := consume_spec (r.peek 12).2 11 p2 (by omega) (by rw [p3]; omega)
  rw [p3, hs, List.drop_append_of_le_length (by simp), List.drop_of_length_le (by simp), List.nil_append] at c2
  have hdr : r.decodeRun true = (0, ccitt_S_EOL, (r.peek 12).2.consume 11) := by
    unfold Rd.decodeRun
    simp only [if_true]
    rcases hpk : r.peek 12 with ⟨v, r1⟩
    rw [hpk] at hv
    simp only at hv ⊢
    subst hv
    simp [w1, w2, w3]
  rw [Rd.decode1DGo, if_pos ⟨Or.inl hc, he.1⟩, hdr]
  simp only [Nat.zero_le, Nat.min_eq_left, Nat.add_zero, if_true]
  have hfill : fillRow ((r.peek 12).2.consume 11).line ((0 : Nat) : Int) (((0 : Nat) : Int) + ((0 : Nat) : Int)) (true != p.blackIs1) = [] := by
    unfold fillRow; simp [c3, p4, hline]
  rw [hfill]
  generalize hr2 : ({ ((r.peek 12).2.consume 11) with line := [] } : Rd) = r2
  have hs2 : Rd.stream r2 = true :: tl := by
    rw [← hr2]
    show Rd.stream ((r.peek 12).2.consume 11) = _
    rw [c2]; rfl
  have he2 : Rd.clean r2 := by rw [← hr2]; exact c1
  have hl2 : r2.line = [] := by rw [← hr2]
  have hbl : r2.bitsLeft + 2 = (r2.bitsLeft + 1) + 1 := by omega
  obtain ⟨v1, v2, v3⟩ := waitForOne_one r2 _ (r2.bitsLeft + 1) he2 hs2
  rw [hbl]
  have : ¬ ((!p.ignoreEOB) = true ∧ n + 1 ≥ 6) := by omega
  rw [if_neg this]
  have hmk : isMakeUp ccitt_S_EOL = false := by decide
  rw [hmk]
  exact ⟨_, rfl, v1, v2, by rw [v3, hl2]⟩

/-- **Group 3 one-dimensional row with its EOL code**: `decodeG3ScanLine1D` consumes the EOL code
and the row's code, raises no error and leaves the row's bytes in the line buffer (the fill bits,
if any, are skipped by the final `alignRow`) -/
theorem ccitt_g3_1d_row_rt_eol_pre (p : CParams) (row : Bytes) (r : Rd) (rest : Bits)
    (hc : 0 < p.columns) (hlen : row.length = p.lineBytes) (hpad : paddingOk p row = true)
    (he : Rd.clean r) (hs : Rd.stream r = codeBits 1 12 ++ (encode1DLine p (pixelsOf p row) ++ rest)) (hrest : 13 ≤ rest.length) :
    ∃ r', r.decode1D p = r'.alignRow p ∧ Rd.clean r' ∧ Rd.stream r' = rest ∧ r'.line = bytesToBits row := by
  have hpx := pixelsOf_eq p row hlen
  have hwb := whiteBit_eq p
  unfold encode1DLine at hs
  rw [hpx, hwb] at hs
  generalize hruns : runs1D (b2n (true != p.blackIs1)) ((rowPixels p row).map b2n) = runs at *
  have hruns' : runs1D (b2n (true != p.blackIs1)) (((bytesToBits row).take p.columns).map b2n) = runs := hruns
  rw [hruns'] at hs
  have hsum : runs.sum = p.columns := by
    rw [← hruns, runs1D_sum, List.length_map, rowPixels_length p row hlen]
  have hexp : runBits p.blackIs1 true runs = rowPixels p row := by
    rw [runBits_eq_expand, ← hruns, runs1D_expand]
  have htail : ∀ x ∈ runs.tail, 1 ≤ x := hruns ▸ runs1D_tail_pos _ _
  unfold Rd.decode1D
  simp only []
  have hbl : ({ r with line := [] } : Rd).bitsLeft = r.bitsLeft := rfl
  have hfuel : codesCount runs + 2 ≤ r.bitsLeft + 2 := by
    have := codesCount_le runs true
    have h2 := stream_length r
    rw [hs] at h2
    simp only [List.length_append, codeBits_length] at h2
    omega
  obtain ⟨f, hf⟩ : ∃ f, r.bitsLeft + 2 = (f + codesCount runs) + 1 := ⟨r.bitsLeft + 2 - codesCount runs - 1, by omega⟩
  rw [hbl, hf]
  obtain ⟨r2, e1, e2, e3, e4⟩ := dec1D_eol p hc { r with line := [] } _ (f + codesCount runs) 0 false (by omega) he rfl hs
  rw [e1]
  obtain ⟨r', h1, h2, h3, h4⟩ := dec1D_runs p rest hrest 1 runs true [] r2 f (by omega) e2 e3
    (by simpa using hsum) (fun _ => by simpa using hc) htail (by rw [e4]; exact lineIs_nil)
  simp only [List.length_nil] at h1
  refine ⟨r', h1, h2, h3, ?_⟩
  unfold LineIs at h4
  rw [List.nil_append, hexp, rowPixels_length p row hlen] at h4
  rw [h4]
  exact (row_padding p row hc hlen hpad).symm

/-! ## the row loop and the stream, with or without EncodedByteAlign -/

/-- the fill bits the writer adds after a row -/
def padOf (p : CParams) (bits : Bits) : Bits := if p.byteAlign then alignPad bits else []

theorem padOf_length_lt (p : CParams) (bits : Bits) : (padOf p bits).length < 8 := by
  unfold padOf; split
  · exact alignPad_length_lt _
  · simp

/-- `alignRow` skips the writer's fill bits (none without EncodedByteAlign) -/
theorem alignRow_padOf (p : CParams) (r : Rd) (bits suffix : Bits) (he : Rd.clean r)
    (hs : Rd.stream r = padOf p bits ++ suffix) (hm : p.byteAlign = true → suffix.length % 8 = 0) :
    Rd.clean (r.alignRow p) ∧ Rd.stream (r.alignRow p) = suffix ∧ (r.alignRow p).line = r.line := by
  by_cases hal : p.byteAlign = true
  · exact alignRow_spec p hal r _ _ he hs (padOf_length_lt p bits) (hm hal)
  · have hal' : p.byteAlign = false := by simpa using hal
    have h0 : r.alignRow p = r := by unfold Rd.alignRow; simp [hal']
    rw [h0]
    refine ⟨he, ?_, rfl⟩
    rw [hs]; unfold padOf; simp [hal']

/-- the bits of a sequence of 1-D rows with EOL codes (and fill bits, if any) -/
def rows1DBitsE (p : CParams) : List Bytes → Bits
  | [] => []
  | row :: rest =>
    (eol12 ++ encode1DLine p (pixelsOf p row)) ++ padOf p (eol12 ++ encode1DLine p (pixelsOf p row)) ++ rows1DBitsE p rest

theorem rows1DBitsE_mod (p : CParams) (hal : p.byteAlign = true) : ∀ (rows : List Bytes), (rows1DBitsE p rows).length % 8 = 0 := by
  intro rows
  induction rows with
  | nil => rfl
  | cons row rest ih =>
    have h1 := alignPad_mod (eol12 ++ encode1DLine p (pixelsOf p row))
    simp only [rows1DBitsE, padOf, hal, if_true, List.length_append] at h1 ih ⊢
    omega

theorem rows1DBitsE_length (p : CParams) : ∀ rows : List Bytes, rows.length ≤ (rows1DBitsE p rows).length := by
  intro rows
  induction rows with
  | nil => simp [rows1DBitsE]
  | cons row rest ih =>
    have : (eol12 : Bits).length = 12 := by decide
    simp only [rows1DBitsE, List.length_append, List.length_cons, this] at ih ⊢
    omega

theorem rows1DBitsE_maxRows (p : CParams) (M : Nat) : ∀ rows : List Bytes,
    rows1DBitsE { p with maxRows := M } rows = rows1DBitsE p rows := by
  intro rows
  induction rows with
  | nil => rfl
  | cons row rest ih => simp only [rows1DBitsE]; rw [ih]; rfl

/-- **the reader's row loop over 1-D rows with EOL codes and the return-to-control sequence** -/
theorem readRows_1dE (p : CParams) (hk : p.k = 0) (hc : 0 < p.columns) (hig : p.ignoreEOB = false)
    (pad : Bits) (hmod : p.byteAlign = true → ((List.replicate 6 (codeBits 1 12)).flatten ++ pad).length % 8 = 0) :
    ∀ (rows : List Bytes) (r : Rd) (numRows fuel : Nat), Rd.clean r →
      Rd.stream r = rows1DBitsE p rows ++ ((List.replicate 6 (codeBits 1 12)).flatten ++ pad) →
      Rows1DOk p rows → (p.maxRows = 0 ∨ numRows + rows.length ≤ p.maxRows) → rows.length < fuel →
      Rd.readRows r p fuel numRows [] = (rows, 1) := by
  intro rows
  induction rows with
  | nil =>
    intro r numRows fuel he hs _ _ hf
    obtain ⟨f, rfl⟩ : ∃ f, fuel = f + 1 := ⟨fuel - 1, by simp at hf; omega⟩
    rw [Rd.readRows]
    by_cases hg : r.err = 0 ∧ (p.maxRows = 0 ∨ numRows < p.maxRows)
    · rw [if_pos hg]
      simp only [rows1DBitsE, List.nil_append] at hs
      have hbl : 72 ≤ r.bitsLeft := by
        rw [← stream_length, hs]; simp [codeBits_length]; omega
      obtain ⟨f2, hf2⟩ : ∃ f2, r.bitsLeft + 2 = f2 + 6 := ⟨r.bitsLeft + 2 - 6, by omega⟩
      have hrtc := dec1D_rtc p hc hig pad 6 { r with line := [] } f2 (by omega) (by omega) he rfl hs
      have hd : (r.decodeScanLine p []).1 = Rd.decode1DGo { r with line := [] } p (f2 + 6) 0 true 0 false := by
        unfold Rd.decodeScanLine
        have hk1 : ¬ p.k < 0 := by omega
        simp only [hk1, if_false, hk, if_true]
        unfold Rd.decode1D
        show Rd.decode1DGo _ p (r.bitsLeft + 2) 0 true 0 false = _
        rw [hf2]
      rcases hds : r.decodeScanLine p [] with ⟨r1, ref1⟩
      rw [hds] at hd
      simp only at hd ⊢
      rw [hd]
      simp only [Nat.sub_self] at hrtc
      simp [hrtc.1, hrtc.2]
    · rw [if_neg hg, if_pos he.1]
  | cons row rest ih =>
    intro r numRows fuel he hs hok hmax hf
    obtain ⟨f, rfl⟩ : ∃ f, fuel = f + 1 := ⟨fuel - 1, by simp at hf; omega⟩
    obtain ⟨h1, h2, h3⟩ := hok row (by simp)
    have hg : r.err = 0 ∧ (p.maxRows = 0 ∨ numRows < p.maxRows) := ⟨he.1, by simp only [List.length_cons] at hmax; omega⟩
    rw [Rd.readRows, if_pos hg]
    simp only [rows1DBitsE, List.append_assoc] at hs
    have hsufm : p.byteAlign = true →
        (rows1DBitsE p rest ++ ((List.replicate 6 (codeBits 1 12)).flatten ++ pad)).length % 8 = 0 := by
      intro hal
      have := rows1DBitsE_mod p hal rest
      have := hmod hal
      rw [List.length_append]; omega
    have hrest : 13 ≤ (padOf p (eol12 ++ encode1DLine p (pixelsOf p row)) ++
        (rows1DBitsE p rest ++ ((List.replicate 6 (codeBits 1 12)).flatten ++ pad))).length := by
      simp [codeBits_length]; omega
    obtain ⟨r', e0, g2, g3, g4⟩ := ccitt_g3_1d_row_rt_eol_pre p row r _ hc h1 h3 he hs hrest
    obtain ⟨a1, a2, a3⟩ := alignRow_padOf p r' _ _ g2 g3 hsufm
    rw [← e0] at a1 a2 a3
    have d3 : (r.decode1D p).line = bytesToBits row := by rw [a3, g4]
    have hds : r.decodeScanLine p [] = (r.decode1D p, []) := by
      unfold Rd.decodeScanLine
      have hk1 : ¬ p.k < 0 := by omega
      simp [hk1, hk]
    rw [hds]
    simp only []
    have hne : (r.decode1D p).line.isEmpty = false := by
      rw [d3]
      have hl := bytesToBits_length row
      have : 0 < p.lineBytes := by unfold CParams.lineBytes; omega
      cases hb : bytesToBits row with
      | nil => rw [hb] at hl; simp at hl; omega
      | cons a as => rfl
    rw [hne]
    simp only [Bool.false_eq_true, if_false]
    have hrec := ih { (r.decode1D p) with line := [] } (numRows + 1) f a1 a2
      (fun r' hr' => hok r' (by simp [hr'])) (by simp only [List.length_cons] at hmax; omega) (by simp at hf; omega)
    rw [hrec, d3, packBits_bytes row h2]

theorem encodeRowBits_k0_eol (p : CParams) (hk : p.k = 0) (heol : p.endOfLine = true) (c2 : Nat) (ref px : List Nat) :
    encodeRowBits p c2 ref px = (eol12 ++ encode1DLine p px, c2) := by
  unfold encodeRowBits
  simp [hk, heol]

theorem allRowBits_k0E (p : CParams) (hk : p.k = 0) (heol : p.endOfLine = true) (hal : p.byteAlign = false) :
    ∀ (rows : List Bytes) (c2 : Nat) (ref : List Nat), allRowBits p rows c2 ref = rows1DBitsE p rows := by
  intro rows
  induction rows with
  | nil => intro _ _; rfl
  | cons row rest ih =>
    intro c2 ref
    simp only [allRowBits, encodeRowBits_k0_eol p hk heol, ih, rows1DBitsE, padOf, hal, Bool.false_eq_true, if_false,
      List.append_nil]

theorem allRowBitsA_k0E (p : CParams) (hk : p.k = 0) (heol : p.endOfLine = true) (hal : p.byteAlign = true) :
    ∀ (rows : List Bytes) (c2 : Nat) (ref : List Nat), allRowBitsA p rows c2 ref = rows1DBitsE p rows := by
  intro rows
  induction rows with
  | nil => intro _ _; rfl
  | cons row rest ih =>
    intro c2 ref
    simp only [allRowBitsA, encodeRowBits_k0_eol p hk heol, ih, rows1DBitsE, padOf, hal, if_true]

/-- **Group 3 one-dimensional stream round trip with EOL codes** (K = 0, EndOfLine, with or
without EncodedByteAlign, with the return-to-control sequence) -/
theorem ccitt_g3_1d_stream_rtE (p : CParams) (M : Nat) (rows : List Bytes)
    (hk : p.k = 0) (heol : p.endOfLine = true) (hig : p.ignoreEOB = false)
    (hc : 0 < p.columns) (hok : Rows1DOk p rows) (hmaxE : p.maxRows = 0 ∨ rows.length ≤ p.maxRows)
    (hmaxD : M = 0 ∨ rows.length ≤ M) :
    decodeAll { p with maxRows := M } (encodeAll p rows.flatten).1 = (rows.flatten, 1) := by
  have hlb := lineBytes_pos p hc
  have heob : endOfBlockBits p = (List.replicate 6 (codeBits 1 12)).flatten := by
    unfold endOfBlockBits; simp [hig, hk]
  -- the encoder's bits, in both alignment modes
  have henc : ∃ k, k < 8 ∧ (p.byteAlign = true → ((List.replicate 6 (codeBits 1 12)).flatten ++ List.replicate k false).length % 8 = 0) ∧
      bytesToBits (encodeAll p rows.flatten).1 =
        rows1DBitsE p rows ++ ((List.replicate 6 (codeBits 1 12)).flatten ++ List.replicate k false) := by
    by_cases hal : p.byteAlign = true
    · obtain ⟨_, k, hk8, hmod, hbits⟩ := encodeAll_bitsA p rows hal hlb (fun r hr => (hok r hr).1) (fun r hr => (hok r hr).2.2) hmaxE
      rw [allRowBitsA_k0E p hk heol hal, heob] at hbits
      rw [heob] at hmod
      exact ⟨k, hk8, fun _ => hmod, hbits⟩
    · have hal' : p.byteAlign = false := by simpa using hal
      obtain ⟨_, k, hk8, hbits⟩ := encodeAll_bits p rows hal' hlb (fun r hr => (hok r hr).1) (fun r hr => (hok r hr).2.2) hmaxE
      rw [allRowBits_k0E p hk heol hal', heob, List.append_assoc] at hbits
      exact ⟨k, hk8, fun h => absurd h hal, hbits⟩
  obtain ⟨k, hk8, hmod, hbits⟩ := henc
  generalize (encodeAll p rows.flatten).1 = data at hbits
  unfold decodeAll decodeRows
  have hk' : ({ p with maxRows := M } : CParams).k = 0 := hk
  have href : (if ({ p with maxRows := M } : CParams).k ≠ 0 then
      List.replicate (({ p with maxRows := M } : CParams).lineBytes * 8) (!({ p with maxRows := M } : CParams).blackIs1) else []) = [] := by
    rw [if_neg (by rw [hk']; simp)]
  simp only [href]
  have hfuel : rows.length < 8 * data.length + 8 := by
    have h1 := rows1DBitsE_length p rows
    have h2 := congrArg List.length hbits
    rw [bytesToBits_length, List.length_append] at h2
    omega
  have := readRows_1dE { p with maxRows := M } hk hc hig (List.replicate k false) hmod rows
    { win := [], src := data, err := 0, line := [] } 0 (8 * data.length + 8) ⟨rfl, rfl, rfl⟩
    (by
      have hsame := rows1DBitsE_maxRows p M rows
      show bytesToBits data = _
      rw [hsame]; exact hbits) hok (by simpa using hmaxD) hfuel
  rw [this]

/-! ## the statement of C06fbt: what is a theorem now -/

/-- the parameter classes for which the round trip is a THEOREM (every pixel content, every
number of rows up to the cap), all with the end-of-block pattern (`IgnoreEndOfBlock = false`):

* K < 0 (Group 4), EncodedByteAlign any — `C06faC.ccitt_g4_stream_rt`, `C06fbA.ccitt_g4_stream_rtA`
* K = 0 (Group 3 1-D), EndOfLine any, EncodedByteAlign any — `C06faC.ccitt_g3_1d_stream_rt`,
  `C06fbA.ccitt_g3_1d_stream_rtA`, `ccitt_g3_1d_stream_rtE`

Validated only (oracle `fb-ccitt-rt`, model correspondence, x/image/ccitt on every run):

* IgnoreEndOfBlock (no EOFB/RTC: termination by `/Rows`; the look-ahead runs beyond the end of the
  data, `srcErr`/`fake`: `Rd.clean` does not hold at the last rows)
* K > 0 (rows tagged 1-D/2-D, RTC of six EOL+1 recognised by the eleven-zeros test) -/
def provedClass (f : FCCITT) : Prop := f.ignoreEOB = false ∧ f.k ≤ 0

/-- **`ccitt_rt_statement` for K ≤ 0 with the end-of-block pattern**: Group 4 and Group 3 1-D, with
and without EOL codes, with and without EncodedByteAlign -/
theorem ccitt_rt_supported_partial : ccitt_rt_supported_statement provedClass := by
  intro f rows hv hadm hrows ⟨hig, hk0⟩
  by_cases hmode : f.k < 0 ∨ (f.k = 0 ∧ f.endOfLine = false)
  · exact C06fbA.ccitt_rt_supported_partial f rows hv hadm hrows ⟨hig, hmode⟩
  · have hkz : f.k = 0 := by
      by_cases h : f.k < 0
      · exact absurd (Or.inl h) hmode
      · omega
    have heol : f.endOfLine = true := by
      cases h : f.endOfLine
      · exact absurd (Or.inr ⟨hkz, h⟩) hmode
      · rfl
    have hcols : 0 < f.encParams.columns := by
      unfold FCCITT.validate at hv
      show 0 < f.cols.toNat
      unfold FCCITT.cols
      split at hv
      · simp at hv
      · rename_i h1
        split <;> omega
    obtain ⟨hadm1, hadm2⟩ := hadm
    have hM : f.decodeMaxRows.toNat = 0 ∨ rows.length ≤ f.decodeMaxRows.toNat := by right; omega
    show decodeAll { f.encParams with maxRows := f.decodeMaxRows.toNat } _ = _
    exact ccitt_g3_1d_stream_rtE f.encParams _ rows hkz heol hig hcols hadm1 hadm2 hM

-- non-vacuity: K = 0 with EOL codes, without and with fill bits
example : (⟨0, true, false, 10, 0, false, true, 0⟩ : FCCITT).validate = true ∧
    ccittAdmissible (⟨0, true, false, 10, 0, false, true, 0⟩ : FCCITT).encParams [[0xAA, 0x80], [0xFF, 0xC0]] ∧
    provedClass ⟨0, true, false, 10, 0, false, true, 0⟩ := by
  refine ⟨by decide, by decide, rfl, by decide⟩
example : decodeAll (⟨0, true, true, 10, 0, false, true, 0⟩ : FCCITT).decParams
    (encodeAll (⟨0, true, true, 10, 0, false, true, 0⟩ : FCCITT).encParams [0xAA, 0x80, 0xFF, 0xC0]).1 =
      ([0xAA, 0x80, 0xFF, 0xC0], 1) := by decide +kernel
example : provedClass ⟨0, true, true, 10, 0, false, true, 0⟩ := ⟨rfl, by decide⟩

end PdfVerif.C06fbE

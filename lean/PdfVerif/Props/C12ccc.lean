import PdfVerif.Props.C12ccb
/-!
# C12 (part 3) — descriptors and the lineariser

`desc_injective`: equal descriptors ⇒ equal sub-trees.  `linearize_repr`: the node array built
by `linearize` (sharing sub-trees by descriptor) represents the tree of `newTree`, whenever
`NewCodec` accepts it (`index_fits`: at most `maxNodes` nodes).  Together with part 2 this
gives `decode_spec` without any side condition.
-/
namespace PdfVerif.C12ccc
open PdfVerif PdfVerif.CC PdfVerif.C12cc PdfVerif.C12ccb

/-! ## descriptors are injective -/

theorem desc_head (n : Node) : ∃ t, n.desc = 0 :: t ∨ n.desc = 1 :: t := by
  cases n with
  | valid => exact ⟨[Gen.cc_descValidEnd], Or.inr (by simp [Node.desc, Gen.cc_descValidBegin])⟩
  | invalid k => exact ⟨[k % 256], Or.inl (by simp [Node.desc, Gen.cc_descInvalid])⟩
  | sub cs => exact ⟨kidsDesc cs ++ [Gen.cc_descValidEnd], Or.inr (by simp [Node.desc, Gen.cc_descValidBegin])⟩

mutual
/-- a descriptor is a prefix code: it determines the sub-tree and where it ends -/
theorem desc_prefix (n1 n2 : Node) (r1 r2 : Bytes) (h1 : n1.wf = true) (h2 : n2.wf = true)
    (h : n1.desc ++ r1 = n2.desc ++ r2) : n1 = n2 ∧ r1 = r2 := by
  match n1, n2 with
  | .valid, .valid => simp [Node.desc] at h; exact ⟨rfl, h⟩
  | .valid, .invalid k => simp [Node.desc, Gen.cc_descValidBegin, Gen.cc_descInvalid] at h
  | .invalid k, .valid => simp [Node.desc, Gen.cc_descValidBegin, Gen.cc_descInvalid] at h
  | .invalid k1, .invalid k2 =>
    simp only [Node.wf, decide_eq_true_eq] at h1 h2
    simp only [Node.desc, List.cons_append, List.nil_append, List.cons.injEq, true_and] at h
    have : k1 = k2 := by omega
    exact ⟨by rw [this], h.2⟩
  | .valid, .sub cs =>
    simp only [Node.wf, Bool.and_eq_true, Bool.not_eq_true', List.isEmpty_eq_false_iff] at h2
    simp only [Node.desc, List.cons_append, List.nil_append, List.cons.injEq, true_and, List.append_assoc] at h
    cases cs with
    | nil => exact absurd rfl h2.1
    | cons kid rest =>
      obtain ⟨hi, n⟩ := kid
      obtain ⟨t, ht⟩ := desc_head n
      simp only [kidsDesc, List.append_assoc, Gen.cc_descValidEnd] at h
      rcases ht with ht | ht <;> rw [ht] at h <;> simp at h
  | .sub cs, .valid =>
    simp only [Node.wf, Bool.and_eq_true, Bool.not_eq_true', List.isEmpty_eq_false_iff] at h1
    simp only [Node.desc, List.cons_append, List.nil_append, List.cons.injEq, true_and, List.append_assoc] at h
    cases cs with
    | nil => exact absurd rfl h1.1
    | cons kid rest =>
      obtain ⟨hi, n⟩ := kid
      obtain ⟨t, ht⟩ := desc_head n
      simp only [kidsDesc, List.append_assoc, Gen.cc_descValidEnd] at h
      rcases ht with ht | ht <;> rw [ht] at h <;> simp at h
  | .invalid k, .sub cs => simp [Node.desc, Gen.cc_descValidBegin, Gen.cc_descInvalid] at h
  | .sub cs, .invalid k => simp [Node.desc, Gen.cc_descValidBegin, Gen.cc_descInvalid] at h
  | .sub cs1, .sub cs2 =>
    simp only [Node.wf, Bool.and_eq_true] at h1 h2
    simp only [Node.desc, List.cons_append, List.cons.injEq, true_and, List.append_assoc, List.singleton_append] at h
    have := kidsDesc_prefix cs1 cs2 r1 r2 h1.2 h2.2 h
    exact ⟨by rw [this.1], this.2⟩
theorem kidsDesc_prefix (cs1 cs2 : List (Nat × Node)) (r1 r2 : Bytes) (h1 : kidsWf cs1 = true) (h2 : kidsWf cs2 = true)
    (h : kidsDesc cs1 ++ (Gen.cc_descValidEnd :: r1) = kidsDesc cs2 ++ (Gen.cc_descValidEnd :: r2)) :
    cs1 = cs2 ∧ r1 = r2 := by
  match cs1, cs2 with
  | [], [] => simp [kidsDesc] at h; exact ⟨rfl, h⟩
  | [], (hi, n) :: rest =>
    obtain ⟨t, ht⟩ := desc_head n
    simp only [kidsDesc, List.nil_append, List.append_assoc, Gen.cc_descValidEnd] at h
    rcases ht with ht | ht <;> rw [ht] at h <;> simp at h
  | (hi, n) :: rest, [] =>
    obtain ⟨t, ht⟩ := desc_head n
    simp only [kidsDesc, List.nil_append, List.append_assoc, Gen.cc_descValidEnd] at h
    rcases ht with ht | ht <;> rw [ht] at h <;> simp at h
  | (hi1, n1) :: rest1, (hi2, n2) :: rest2 =>
    simp only [kidsWf, Bool.and_eq_true] at h1 h2
    simp only [kidsDesc, List.append_assoc, List.cons_append] at h
    have := desc_prefix n1 n2 _ _ h1.1 h2.1 h
    obtain ⟨e1, e2⟩ := this
    simp only [List.cons.injEq] at e2
    have := kidsDesc_prefix rest1 rest2 r1 r2 h1.2 h2.2 e2.2
    exact ⟨by rw [e1, e2.1, this.1], this.2⟩
end

/-- **`desc_injective`.**  Equal descriptors ⇒ equal sub-trees (hence equal semantics): sharing
nodes by descriptor in the lineariser never merges sub-trees that behave differently.  (Before
the fix of D2 the descriptor omitted invalid gaps and this was false.) -/
theorem desc_injective (n1 n2 : Node) (h1 : n1.wf = true) (h2 : n2.wf = true) (h : n1.desc = n2.desc) :
    n1 = n2 := by
  have := desc_prefix n1 n2 [] [] h1 h2 (by simp [h])
  exact this.1


/-! ## `newTree` builds well-formed trees -/

theorem mapE_all {α β : Type} (f : α → Except CErr β) (P : β → Prop) :
    ∀ (l : List α) (out : List β), mapE f l = .ok out → (∀ a b, a ∈ l → f a = .ok b → P b) → ∀ b ∈ out, P b := by
  intro l
  induction l with
  | nil => intro out h _ b hb; simp [mapE] at h; subst h; simp at hb
  | cons a l ih =>
    intro out h hP b hb
    simp only [mapE] at h
    split at h
    · cases h
    · rename_i b0 hb0
      split at h
      · cases h
      · rename_i bs hbs
        injection h with h; subst h
        rcases List.mem_cons.mp hb with rfl | hb
        · exact hP a _ (by simp) hb0
        · exact ih bs hbs (fun a' b' ha' => hP a' b' (by simp [ha'])) b hb

theorem kidsWf_iff (cs : List (Nat × Node)) : kidsWf cs = true ↔ ∀ kid ∈ cs, kid.2.wf = true := by
  induction cs with
  | nil => simp [kidsWf]
  | cons kid cs ih => obtain ⟨hi, n⟩ := kid; simp [kidsWf, ih]

theorem minLength_le4 (S : CSR) (h : ∀ r ∈ S, r.low.length ≤ 4) : minLength S ≤ 4 := by
  rw [← shortest_eq_minLength]
  cases S with
  | nil => simp [Spec.CodeSpace.shortest]
  | cons r S =>
    simp only [List.map_cons, Spec.CodeSpace.shortest]
    have := (foldl_min_bounds (S.map fun r => r.low.length) r.low.length 0 (by omega) (by simp)).2
    have := h r (by simp)
    omega

theorem kidsCover_ne_nil (cs : List (Nat × Node)) (h : kidsCover cs = true) : cs ≠ [] := by
  intro h0; subst h0; simp [kidsCover] at h

theorem newTree_wf : ∀ (fuel : Nat) (S : CSR) (d : Nat) (cs : List (Nat × Node)),
    newTree fuel S d = .ok cs → (∀ r ∈ S, r.low.length ≤ 4) → kidsWf cs = true := by
  intro fuel
  induction fuel with
  | zero => intro S d cs h; simp [newTree] at h
  | succ fuel ih =>
    intro S d cs h hS
    simp only [newTree] at h
    split at h
    · cases h
    · rw [kidsWf_iff]
      refine mapE_all _ (fun kid => kid.2.wf = true) _ cs h ?_
      intro iv kid _ hkid
      simp only [nodeFor] at hkid
      split at hkid
      · injection hkid with hkid; subst hkid
        have := minLength_le4 S hS
        simp [Node.wf]; omega
      · split at hkid
        · injection hkid with hkid; subst hkid; simp [Node.wf]
        · split at hkid
          · split at hkid
            · rename_i cs' hcs'
              injection hkid with hkid; subst hkid
              have hsub : ∀ r ∈ overlapping S d iv.1 iv.2, r.low.length ≤ 4 := by
                intro r hr; exact hS r (List.mem_filter.mp hr).1
              have h1 := ih _ _ _ hcs' hsub
              have h2 := kidsCover_ne_nil _ (newTree_covers _ _ _ _ hcs')
              simp only [Node.wf, h1, Bool.and_true, Bool.not_eq_true', List.isEmpty_eq_false_iff]
              exact h2
            · cases hkid
          · cases hkid

/-! ## the lineariser: invariant -/

abbrev Groups := List (Nat × List (Nat × Node))

/-- the child value `c` stands for the node `n`: a special value for a leaf, the index of a
registered group for a sub-tree -/
def ChildOKg (groups : Groups) : Node → Nat → Prop
  | .valid, c => c = 0
  | .invalid k, c => k ≤ 3 ∧ c = 65535 - k
  | .sub cs, c => c ≠ 0 ∧ c < 65532 ∧ (c, cs) ∈ groups

/-- the slots `idx, idx+1, …` carry the bounds of `cs` and child values standing for its nodes -/
def SlotsOK (nodes : List LNode) (groups : Groups) (idx : Nat) (cs : List (Nat × Node)) : Prop :=
  ∀ j kid, cs[j]? = some kid →
    ∃ ln, nodes[idx + j]? = some ln ∧ ln.bound = kid.1 ∧ ChildOKg groups kid.2 ln.child

structure Inv (l : Lin) (groups : Groups) : Prop where
  ok : ∀ g ∈ groups, SlotsOK l.nodes groups g.1 g.2 ∧ g.1 + g.2.length ≤ l.nodes.length
  done : ∀ d c, lookupDesc d l.done = some c → ∀ n, n.wf = true → n.desc = d → ChildOKg groups n c
  leafV : (lookupDesc Node.valid.desc l.done).isSome = true
  leafI : ∀ k, k ≤ 3 → (lookupDesc (Node.invalid k).desc l.done).isSome = true

theorem ChildOKg_mono (g1 g2 : Groups) (h : ∀ g ∈ g1, g ∈ g2) (n : Node) (c : Nat) :
    ChildOKg g1 n c → ChildOKg g2 n c := by
  cases n with
  | valid => exact id
  | invalid k => exact id
  | sub cs => intro ⟨a, b, c'⟩; exact ⟨a, b, h _ c'⟩

theorem SlotsOK_mono (nodes : List LNode) (g1 g2 : Groups) (h : ∀ g ∈ g1, g ∈ g2) (idx : Nat)
    (cs : List (Nat × Node)) : SlotsOK nodes g1 idx cs → SlotsOK nodes g2 idx cs := by
  intro hs j kid hk
  obtain ⟨ln, a, b, c⟩ := hs j kid hk
  exact ⟨ln, a, b, ChildOKg_mono g1 g2 h _ _ c⟩

theorem setChild_length (nodes : List LNode) (i c : Nat) : (setChild nodes i c).length = nodes.length := by
  unfold setChild; split <;> simp

theorem setChild_ne (nodes : List LNode) (i c p : Nat) (h : p ≠ i) : (setChild nodes i c)[p]? = nodes[p]? := by
  unfold setChild; split
  · rw [List.getElem?_set_ne (by omega)]
  · rfl

theorem setChild_eq (nodes : List LNode) (i c : Nat) (ln : LNode) (h : nodes[i]? = some ln) :
    (setChild nodes i c)[i]? = some { ln with child := c } := by
  unfold setChild
  rw [h]
  have : i < nodes.length := (List.getElem?_eq_some_iff.mp h).1
  simp [List.getElem?_set_self this]

theorem lookupDesc_cons (k d : Bytes) (v : Nat) (rest : List (Bytes × Nat)) :
    lookupDesc d ((k, v) :: rest) = if k == d then some v else lookupDesc d rest := rfl

theorem fillKids_cons (l : Lin) (base i hi : Nat) (n : Node) (rest : List (Nat × Node)) :
    fillKids l base i ((hi, n) :: rest) =
      match lookupDesc n.desc l.done with
      | some idx => fillKids { l with nodes := setChild l.nodes (base + i) idx } base (i + 1) rest
      | none =>
        match appendNodes l n.kids with
        | .error e => .error e
        | .ok (l', childPos) =>
          if l'.nodes.length > Gen.cc_maxNodes then .ok (l', true)
          else if childPos ≤ base + i then .error .panic
          else
            fillKids { nodes := setChild l'.nodes (base + i) childPos,
                       done := (n.desc, childPos) :: l'.done } base (i + 1) rest := by
  cases n <;> simp only [fillKids, Node.kids] <;> rfl

theorem appendNodes_eq (l : Lin) (cs : List (Nat × Node)) : appendNodes l cs =
  if l.nodes.length + cs.length > Gen.cc_maxNodes then
    .ok ({ l with nodes := l.nodes ++ List.replicate cs.length ⟨0, 0⟩ }, 0)
  else
    match fillKids { l with nodes := l.nodes ++ cs.map fun c => ⟨c.1, 0⟩ } l.nodes.length 0 cs with
    | .error e => .error e
    | .ok (l', aborted) => if aborted then .ok (l', 0) else .ok (l', l.nodes.length % 65536) := by
  rw [appendNodes]
  split
  · rfl
  · cases fillKids { l with nodes := l.nodes ++ cs.map fun c => ⟨c.1, 0⟩ } l.nodes.length 0 cs with
    | error e => rfl
    | ok p => obtain ⟨l', a⟩ := p; rfl

/-- an aborted fill loop has exceeded the node limit -/
theorem fillKids_aborted (rest : List (Nat × Node)) : ∀ (l l' : Lin) (base i : Nat),
    fillKids l base i rest = .ok (l', true) → l'.nodes.length > 65532 := by
  induction rest with
  | nil => intro l l' base i h; simp [fillKids] at h
  | cons kid rest ih =>
    intro l l' base i h
    obtain ⟨hi, n⟩ := kid
    rw [fillKids_cons] at h
    split at h
    · exact ih _ _ _ _ h
    · split at h
      · cases h
      · rename_i l1 childPos happ
        split at h
        · rename_i hgt
          injection h with h
          injection h with h1 h2
          subst h1
          simpa [Gen.cc_maxNodes] using hgt
        · split at h
          · cases h
          · exact ih _ _ _ _ h

mutual
theorem appendNodes_inv (cs : List (Nat × Node)) (l l' : Lin) (idx : Nat) (groups : Groups)
    (hinv : Inv l groups) (hwf : kidsWf cs = true) (_hne : cs ≠ [])
    (h : appendNodes l cs = .ok (l', idx)) (hsz : l'.nodes.length ≤ 65532) :
    ∃ groups', Inv l' groups' ∧ (∀ g ∈ groups, g ∈ groups') ∧ (idx, cs) ∈ groups' ∧ idx = l.nodes.length ∧
      (∀ g ∈ groups', g ∈ groups ∨ l.nodes.length ≤ g.1) ∧
      (∀ p, p < l.nodes.length → l'.nodes[p]? = l.nodes[p]?) ∧ l.nodes.length ≤ l'.nodes.length := by
  rw [appendNodes_eq] at h
  split at h
  · rename_i hov
    injection h with h; injection h with h1 h2; subst h1
    simp [Gen.cc_maxNodes] at hov hsz; omega
  · rename_i hov
    simp only [Gen.cc_maxNodes, Nat.not_lt] at hov
    split at h
    · cases h
    · rename_i l'' aborted hfill
      cases aborted with
      | true =>
        simp only [if_true] at h
        injection h with h; injection h with h1 h2; subst h1
        have := fillKids_aborted cs _ _ _ _ hfill
        omega
      | false =>
        simp only [Bool.false_eq_true, if_false] at h
        injection h with h; injection h with h1 h2; subst h1
        -- the state after reserving the slots
        have hinv0 : Inv { l with nodes := l.nodes ++ cs.map fun c => ⟨c.1, 0⟩ } groups := by
          refine ⟨?_, hinv.done, hinv.leafV, hinv.leafI⟩
          intro g hg
          obtain ⟨a, b⟩ := hinv.ok g hg
          refine ⟨?_, by simp; omega⟩
          intro j kid hk
          obtain ⟨ln, e1, e2, e3⟩ := a j kid hk
          refine ⟨ln, ?_, e2, e3⟩
          have : g.1 + j < l.nodes.length := (List.getElem?_eq_some_iff.mp e1).1
          simp only [List.getElem?_append_left this, e1]
        obtain ⟨groups1, i1, i2, i3, i4, i5, i6⟩ := fillKids_inv cs _ l'' l.nodes.length 0 groups hinv0 hwf
          (by
            intro j kid hk
            have hj : j < cs.length := (List.getElem?_eq_some_iff.mp hk).1
            refine ⟨⟨kid.1, 0⟩, ?_, rfl⟩
            simp only [Nat.add_zero]
            rw [List.getElem?_append_right (by omega)]
            simp [hk])
          (by intro g hg; left; exact (hinv.ok g hg).2)
          (by simp)
          hfill hsz
        have hlen0 : l.nodes.length + cs.length ≤ l''.nodes.length := by
          simp only [List.length_append, List.length_map] at i6; exact i6
        have hbase : l.nodes.length % 65536 = l.nodes.length := by
          apply Nat.mod_eq_of_lt; omega
        refine ⟨(l.nodes.length, cs) :: groups1, ?_, ?_, ?_, ?_, ?_, ?_, by omega⟩
        · refine ⟨?_, ?_, i1.leafV, i1.leafI⟩
          · intro g hg
            rcases List.mem_cons.mp hg with rfl | hg
            · refine ⟨SlotsOK_mono _ groups1 _ (fun g hg => List.mem_cons_of_mem _ hg) _ _ (by simpa using i3), hlen0⟩
            · obtain ⟨a, b⟩ := i1.ok g hg
              exact ⟨SlotsOK_mono _ groups1 _ (fun g hg => List.mem_cons_of_mem _ hg) _ _ a, b⟩
          · intro d c hd n hn he
            exact ChildOKg_mono groups1 _ (fun g hg => List.mem_cons_of_mem _ hg) _ _ (i1.done d c hd n hn he)
        · intro g hg; exact List.mem_cons_of_mem _ (i2 g hg)
        · rw [← h2, hbase]; simp
        · rw [← h2, hbase]
        · intro g hg
          rcases List.mem_cons.mp hg with rfl | hg
          · right; simp
          · rcases i4 g hg with a | a
            · left; exact a
            · right; simp only [List.length_append, List.length_map] at a; omega
        · intro p hp
          have := i5 p (by simp; omega) (Or.inl (by omega))
          rw [this]
          simp only [List.getElem?_append_left hp]
termination_by (sizeOf cs, 1)
theorem fillKids_inv (rest : List (Nat × Node)) (l l' : Lin) (base i : Nat) (groups : Groups)
    (hinv : Inv l groups) (hwf : kidsWf rest = true)
    (hslots : ∀ j kid, rest[j]? = some kid → ∃ ln, l.nodes[base + i + j]? = some ln ∧ ln.bound = kid.1)
    (hdisj : ∀ g ∈ groups, g.1 + g.2.length ≤ base ∨ base + i + rest.length ≤ g.1)
    (hbound : base + i + rest.length ≤ l.nodes.length)
    (h : fillKids l base i rest = .ok (l', false)) (hsz : l'.nodes.length ≤ 65532) :
    ∃ groups', Inv l' groups' ∧ (∀ g ∈ groups, g ∈ groups') ∧
      SlotsOK l'.nodes groups' (base + i) rest ∧
      (∀ g ∈ groups', g ∈ groups ∨ l.nodes.length ≤ g.1) ∧
      (∀ p, p < l.nodes.length → (p < base + i ∨ base + i + rest.length ≤ p) → l'.nodes[p]? = l.nodes[p]?) ∧
      l.nodes.length ≤ l'.nodes.length := by
  match rest with
  | [] =>
    simp only [fillKids] at h
    injection h with h; injection h with h1 h2; subst h1
    exact ⟨groups, hinv, fun g hg => hg, by intro j kid hk; simp at hk, fun g hg => Or.inl hg,
      fun p _ _ => rfl, Nat.le_refl _⟩
  | (hi, n) :: rest' =>
    simp only [kidsWf, Bool.and_eq_true] at hwf
    obtain ⟨hnwf, hwf'⟩ := hwf
    simp only [List.length_cons] at hdisj hbound
    obtain ⟨ln0, hln0, hb0⟩ := hslots 0 (hi, n) (by simp)
    simp only [Nat.add_zero] at hln0 hb0
    have hslot_lt : base + i < l.nodes.length := by omega
    rw [fillKids_cons] at h
    cases hlk : lookupDesc n.desc l.done with
    | some idx =>
      simp only [hlk] at h
      -- a descriptor seen before: share the sub-tree
      have hinv1 : Inv { l with nodes := setChild l.nodes (base + i) idx } groups := by
        refine ⟨?_, hinv.done, hinv.leafV, hinv.leafI⟩
        intro g hg
        obtain ⟨a, b⟩ := hinv.ok g hg
        refine ⟨?_, by simp only [setChild_length]; exact b⟩
        intro j kid hk
        obtain ⟨ln, e1, e2, e3⟩ := a j kid hk
        have hj : j < g.2.length := (List.getElem?_eq_some_iff.mp hk).1
        refine ⟨ln, ?_, e2, e3⟩
        rw [setChild_ne _ _ _ _ (by rcases hdisj g hg with d | d <;> omega)]
        exact e1
      obtain ⟨groups1, i1, i2, i3, i4, i5, i6⟩ := fillKids_inv rest' _ l' base (i + 1) groups hinv1 hwf'
        (by
          intro j kid hk
          obtain ⟨ln, e1, e2⟩ := hslots (j + 1) kid (by simpa using hk)
          refine ⟨ln, ?_, e2⟩
          rw [setChild_ne _ _ _ _ (by omega)]
          rw [← e1]; congr 1; omega)
        (by intro g hg; rcases hdisj g hg with d | d; left; exact d; right; omega)
        (by simp only [setChild_length]; omega)
        h hsz
      simp only [setChild_length] at i4 i5 i6
      refine ⟨groups1, i1, i2, ?_, i4, ?_, i6⟩
      · intro j kid hk
        cases j with
        | zero =>
          simp only [List.getElem?_cons_zero, Option.some.injEq] at hk
          subst hk
          refine ⟨{ ln0 with child := idx }, ?_, hb0, ?_⟩
          · rw [Nat.add_zero, i5 (base + i) hslot_lt (Or.inl (by omega))]
            exact setChild_eq _ _ _ _ hln0
          · exact ChildOKg_mono groups _ i2 _ _ (hinv.done _ _ hlk n hnwf rfl)
        | succ j =>
          obtain ⟨ln, e1, e2, e3⟩ := i3 j kid (by simpa using hk)
          refine ⟨ln, ?_, e2, e3⟩
          rw [← e1]; congr 1; omega
      · intro p hp hout
        rw [i5 p hp (by rcases hout with d | d; left; omega; right; simp only [List.length_cons] at d; omega)]
        exact setChild_ne _ _ _ _ (by rcases hout with d | d; omega; simp only [List.length_cons] at d; omega)
    | none =>
      simp only [hlk] at h
      -- a new descriptor: `n` is not a leaf (leaves are pre-registered)
      cases n with
      | valid => have := hinv.leafV; simp [hlk] at this
      | invalid k =>
        simp only [Node.wf, decide_eq_true_eq] at hnwf
        have := hinv.leafI k hnwf; simp [hlk] at this
      | sub cs' =>
        simp only [Node.wf, Bool.and_eq_true, Bool.not_eq_true', List.isEmpty_eq_false_iff] at hnwf
        simp only [Node.kids] at h
        split at h
        · cases h
        · rename_i l1 childPos happ
          split at h
          · injection h with h; injection h with h1 h2; cases h2
          · rename_i hsz1
            simp only [Gen.cc_maxNodes, Nat.not_lt] at hsz1
            split at h
            · cases h
            · rename_i hpos
              obtain ⟨groups1, a1, a2, a3, a4, a5, a6, a7⟩ :=
                appendNodes_inv cs' l l1 childPos groups hinv hnwf.2 hnwf.1 happ hsz1
              have hcp : childPos + cs'.length ≤ l1.nodes.length := (a1.ok _ a3).2
              have hcs' : 0 < cs'.length := List.length_pos_iff.mpr hnwf.1
              have hinv2 : Inv { nodes := setChild l1.nodes (base + i) childPos,
                                 done := ((Node.sub cs').desc, childPos) :: l1.done } groups1 := by
                refine ⟨?_, ?_, ?_, ?_⟩
                · intro g hg
                  obtain ⟨a, b⟩ := a1.ok g hg
                  refine ⟨?_, by simp only [setChild_length]; exact b⟩
                  intro j kid hk
                  obtain ⟨ln, e1, e2, e3⟩ := a j kid hk
                  refine ⟨ln, ?_, e2, e3⟩
                  rw [setChild_ne _ _ _ _ (by
                    rcases a5 g hg with d | d
                    · have hj : j < g.2.length := (List.getElem?_eq_some_iff.mp hk).1
                      rcases hdisj g d with d' | d' <;> omega
                    · omega)]
                  exact e1
                · intro d c hd n' hn' he
                  rw [lookupDesc_cons] at hd
                  split at hd
                  · rename_i heq
                    injection hd with hd; subst hd
                    have hdeq : (Node.sub cs').desc = d := by simpa using heq
                    have : n' = Node.sub cs' := desc_injective n' (Node.sub cs') hn'
                      (by simp [Node.wf, hnwf.2]; exact hnwf.1) (by rw [he, hdeq])
                    subst this
                    exact ⟨by omega, by omega, a3⟩
                  · exact a1.done d c hd n' hn' he
                · rw [lookupDesc_cons]; split; rfl; exact a1.leafV
                · intro k hk; rw [lookupDesc_cons]; split; rfl; exact a1.leafI k hk
              obtain ⟨groups2, i1, i2, i3, i4, i5, i6⟩ := fillKids_inv rest' _ l' base (i + 1) groups1 hinv2 hwf'
                (by
                  intro j kid hk
                  obtain ⟨ln, e1, e2⟩ := hslots (j + 1) kid (by simpa using hk)
                  refine ⟨ln, ?_, e2⟩
                  rw [setChild_ne _ _ _ _ (by omega)]
                  have hlt : base + i + (j + 1) < l.nodes.length := (List.getElem?_eq_some_iff.mp e1).1
                  rw [show base + (i + 1) + j = base + i + (j + 1) by omega, a6 _ hlt]
                  exact e1)
                (by
                  intro g hg
                  rcases a5 g hg with d | d
                  · rcases hdisj g d with d' | d'; left; exact d'; right; omega
                  · right; omega)
                (by simp only [setChild_length]; omega)
                h hsz
              simp only [setChild_length] at i4 i5 i6
              refine ⟨groups2, i1, fun g hg => i2 g (a2 g hg), ?_, ?_, ?_, by omega⟩
              · intro j kid hk
                cases j with
                | zero =>
                  simp only [List.getElem?_cons_zero, Option.some.injEq] at hk
                  subst hk
                  refine ⟨{ ln0 with child := childPos }, ?_, hb0, ?_⟩
                  · rw [Nat.add_zero, i5 (base + i) (by omega) (Or.inl (by omega))]
                    apply setChild_eq
                    rw [a6 _ hslot_lt]; exact hln0
                  · show childPos ≠ 0 ∧ childPos < 65532 ∧ _
                    exact ⟨by omega, by omega, i2 _ a3⟩
                | succ j =>
                  obtain ⟨ln, e1, e2, e3⟩ := i3 j kid (by simpa using hk)
                  refine ⟨ln, ?_, e2, e3⟩
                  rw [← e1]; congr 1; omega
              · intro g hg
                rcases i4 g hg with d | d
                · rcases a5 g d with d' | d'
                  · left; exact d'
                  · right; exact d'
                · right; omega
              · intro p hp hout
                rw [i5 p (by omega) (by rcases hout with d | d; left; omega; right; simp only [List.length_cons] at d; omega)]
                rw [setChild_ne _ _ _ _ (by rcases hout with d | d; omega; simp only [List.length_cons] at d; omega)]
                exact a6 p hp
termination_by (sizeOf rest, 0)
end


/-! ## from the invariant to the representation certificate -/

mutual
theorem childOK_of (nodes : List LNode) (groups : Groups)
    (hG : ∀ g ∈ groups, SlotsOK nodes groups g.1 g.2) (n : Node) (c : Nat)
    (h : ChildOKg groups n c) : childOK nodes n c = true := by
  match n with
  | .valid => simp only [ChildOKg] at h; simp [childOK, h, Gen.cc_validLeaf]
  | .invalid k => simp only [ChildOKg] at h; simp [childOK, h.1, h.2, Gen.cc_invalidConsume0]
  | .sub cs' =>
    simp only [ChildOKg] at h
    have := reprOK_of nodes groups hG cs' c (hG _ h.2.2)
    simp [childOK, this, h.1, h.2.1, Gen.cc_validLeaf, Gen.cc_maxNodes]
theorem reprOK_of (nodes : List LNode) (groups : Groups)
    (hG : ∀ g ∈ groups, SlotsOK nodes groups g.1 g.2) (cs : List (Nat × Node)) (idx : Nat)
    (h : SlotsOK nodes groups idx cs) : reprOK nodes cs idx = true := by
  match cs with
  | [] => simp [reprOK]
  | (hi, n) :: rest =>
    obtain ⟨ln, e1, e2, e3⟩ := h 0 (hi, n) (by simp)
    simp only [Nat.add_zero] at e1
    have h1 := childOK_of nodes groups hG n ln.child e3
    have h2 := reprOK_of nodes groups hG rest (idx + 1) (by
      intro j kid hk
      obtain ⟨ln', a, b, c⟩ := h (j + 1) kid (by simpa using hk)
      exact ⟨ln', by rw [← a]; congr 1; omega, b, c⟩)
    simp only [reprOK, e1]
    simp only at e2
    simp [e2, h1, h2]
end

theorem inv_newLin : Inv newLin [] := by
  refine ⟨by simp, ?_, by decide, ?_⟩
  · intro d c hd n hn he
    simp only [newLin, lookupDesc, Gen.cc_descValidBegin, Gen.cc_descValidEnd, Gen.cc_descInvalid,
      Gen.cc_validLeaf, Gen.cc_invalidConsume0, Gen.cc_invalidConsume1, Gen.cc_invalidConsume2,
      Gen.cc_invalidConsume3] at hd
    split at hd
    · rename_i h0
      have : n = Node.valid := desc_injective n .valid hn rfl (by rw [he]; have e := h0; simp only [beq_iff_eq] at e; rw [← e]; rfl)
      subst this; injection hd with hd; subst hd; simp [ChildOKg]
    · split at hd
      · rename_i _ h0
        have : n = Node.invalid 3 := desc_injective n (.invalid 3) hn rfl (by rw [he]; have e := h0; simp only [beq_iff_eq] at e; rw [← e]; rfl)
        subst this; injection hd with hd; subst hd; simp [ChildOKg]
      · split at hd
        · rename_i _ _ h0
          have : n = Node.invalid 2 := desc_injective n (.invalid 2) hn rfl (by rw [he]; have e := h0; simp only [beq_iff_eq] at e; rw [← e]; rfl)
          subst this; injection hd with hd; subst hd; simp [ChildOKg]
        · split at hd
          · rename_i _ _ _ h0
            have : n = Node.invalid 1 := desc_injective n (.invalid 1) hn rfl (by rw [he]; have e := h0; simp only [beq_iff_eq] at e; rw [← e]; rfl)
            subst this; injection hd with hd; subst hd; simp [ChildOKg]
          · split at hd
            · rename_i _ _ _ _ h0
              have : n = Node.invalid 0 := desc_injective n (.invalid 0) hn rfl (by rw [he]; have e := h0; simp only [beq_iff_eq] at e; rw [← e]; rfl)
              subst this; injection hd with hd; subst hd; simp [ChildOKg]
            · cases hd
  · intro k hk
    have : k = 0 ∨ k = 1 ∨ k = 2 ∨ k = 3 := by omega
    rcases this with rfl | rfl | rfl | rfl <;> decide

/-- **`linearize_repr`** (with `index_fits`).  Whenever `NewCodec` accepts a range set — which
includes the check that at most `maxNodes` nodes were produced, so that every node index stays
below the special child values — the node array of the codec represents the tree built by
`newTree`: sharing sub-trees by descriptor preserves the semantics. -/
theorem linearize_repr (csr : CSR) (tree : List (Nat × Node)) (c : Codec)
    (hT : newTree 4 csr 0 = .ok tree) (hC : newCodec csr = .ok c) :
    reprOK c.nodes tree 0 = true ∧ c.nodes.length ≤ Gen.cc_maxNodes := by
  unfold newCodec at hC
  split at hC
  · cases hC
  · rename_i hv
    simp only [Bool.not_eq_true', Bool.not_eq_false, List.all_eq_true] at hv
    rw [hT] at hC
    simp only at hC
    split at hC
    · cases hC
    · rename_i l idx happ
      split at hC
      · cases hC
      · rename_i hsz
        injection hC with hC; subst hC
        simp only [Gen.cc_maxNodes, Nat.not_lt] at hsz
        have hwf := newTree_wf 4 csr 0 tree hT (fun r hr => (isValid_len r (hv r hr)).2)
        have hne := kidsCover_ne_nil tree (newTree_covers 4 csr 0 tree hT)
        obtain ⟨groups, a1, _, a3, a4, _, _, _⟩ := appendNodes_inv tree newLin l idx [] inv_newLin hwf hne happ hsz
        have hidx : idx = 0 := by rw [a4]; rfl
        subst hidx
        exact ⟨reprOK_of l.nodes groups (fun g hg => (a1.ok g hg).1) tree 0 (a1.ok _ a3).1, by simpa [Gen.cc_maxNodes] using hsz⟩


theorem newCodec_ok (csr : CSR) (c : Codec) (hC : newCodec csr = .ok c) :
    (∀ r ∈ csr, r.isValid = true) ∧ ∃ tree, newTree 4 csr 0 = .ok tree := by
  unfold newCodec at hC
  split at hC
  · cases hC
  · rename_i hv
    simp only [Bool.not_eq_true', Bool.not_eq_false, List.all_eq_true] at hv
    refine ⟨hv, ?_⟩
    cases hT : newTree 4 csr 0 with
    | error e => simp [hT] at hC
    | ok tree => exact ⟨tree, rfl⟩

/-- **`decode_spec`.**  For every range set accepted by `NewCodec` and every byte string,
`Codec.Decode` returns exactly what ISO 32000-2 9.7.6.3 prescribes — bytes consumed, validity,
and as code the little-endian value of the consumed bytes — and never panics. -/
theorem newCodec_decode_spec (csr : CSR) (c : Codec) (hC : newCodec csr = .ok c) (s : Bytes) (hs : AllBytes s) :
    c.decode s = .ok (Spec.CodeSpace.codeValue (s.take (Spec.CodeSpace.decode (toSpec csr) s).1),
                      (Spec.CodeSpace.decode (toSpec csr) s).1, (Spec.CodeSpace.decode (toSpec csr) s).2) := by
  obtain ⟨hv, tree, hT⟩ := newCodec_ok csr c hC
  exact decode_spec csr tree c hv hT (linearize_repr csr tree c hT hC).1 s hs

/-- **Consumption bounds** for every accepted range set: at least one byte of a non-empty input,
never more than available, at most four; `(0, 0, false)` at the end of input. -/
theorem newCodec_decode_consumed (csr : CSR) (c : Codec) (hC : newCodec csr = .ok c) (s : Bytes) (hs : AllBytes s) :
    ∃ code n v, c.decode s = .ok (code, n, v) ∧ n ≤ s.length ∧ n ≤ 4 ∧ (s ≠ [] → 1 ≤ n) ∧
      (s = [] → code = 0 ∧ v = false) := by
  obtain ⟨hv, tree, hT⟩ := newCodec_ok csr c hC
  exact decode_consumed csr tree c hv hT (linearize_repr csr tree c hT hC).1 s hs

/-- **`index_fits`.**  A codec returned by `NewCodec` has at most `maxNodes` nodes: every node
index is smaller than the special child values (D3: before the fix the indices wrapped). -/
theorem index_fits (csr : CSR) (c : Codec) (hC : newCodec csr = .ok c) : c.nodes.length ≤ Gen.cc_maxNodes := by
  obtain ⟨_, tree, hT⟩ := newCodec_ok csr c hC
  exact (linearize_repr csr tree c hT hC).2

/-- non-vacuity: the two-byte range set `<0000>-<007F>`, `<0110>-<017F>` (the D2 witness) is
accepted by `NewCodec` (`appendNodes` is defined by well-founded recursion, so this is shown by
rewriting with its equations rather than by `decide`) -/
example : ∃ c, newCodec [⟨[0x00, 0x00], [0x00, 0x7f]⟩, ⟨[0x01, 0x10], [0x01, 0x7f]⟩] = .ok c := by
  have hT : newTree 4 [⟨[0x00, 0x00], [0x00, 0x7f]⟩, ⟨[0x01, 0x10], [0x01, 0x7f]⟩] 0 =
      .ok [(0, .sub [(127, .valid), (255, .invalid 0)]), (1, .sub [(15, .invalid 0), (127, .valid), (255, .invalid 0)]),
           (255, .invalid 1)] := by rfl
  simp only [newCodec, hT]
  simp [appendNodes_eq, fillKids_cons, fillKids, newLin, lookupDesc, Node.desc, kidsDesc, Node.kids, setChild,
    Gen.cc_maxNodes, Gen.cc_descValidBegin, Gen.cc_descValidEnd, Gen.cc_descInvalid, Gen.cc_validLeaf,
    Gen.cc_invalidConsume0, Gen.cc_invalidConsume1, Gen.cc_invalidConsume2, Gen.cc_invalidConsume3, Range.isValid, leAll]

end PdfVerif.C12ccc

import PdfVerif.Props.C08tr
import PdfVerif.Model.FBParams
import PdfVerif.Generated.FnCcitt
import PdfVerif.Generated.FnFrag
/-!
# C06/C07/C08 (translator bridge): the FB hand models = the code GENERATED from the Go sources

`Model/FBPredict.lean` and `Model/FBParams.lean` (on which `Props/C0{6,7,8}fb*.lean` are proved) model
`predict.Params.Validate`, the derived sizes, `paethPredictor`, `FlatePredictor.isValid`,
`validateFlateLZW`, the filter `validate` methods and `limits.StreamBudget` by hand.  Each of them is
proved equal here to the function that `tools/extract` re-creates from the Go source on every run
(`Gen.pred_*`, `Gen.pdf_*`, `Gen.lim_*`), so the hand-model theorems transfer to the translated code.
-/
namespace PdfVerif.C08trb
open PdfVerif PdfVerif.Gen PdfVerif.Go PdfVerif.C08tr

/-- the generated parameter record of a hand-model record -/
def gp (p : FB.PParams) : pred_Params := ⟨p.colors, p.bpc, p.columns, p.predictor⟩

theorem wrap64_eq (x : Int) : FB.wrap64 x = i64 x := rfl

theorem tdiv8_bounds (a : Int) : (0 ≤ a → 0 ≤ Int.tdiv a 8 ∧ Int.tdiv a 8 ≤ a) ∧ (a < 0 → a ≤ Int.tdiv a 8 ∧ Int.tdiv a 8 ≤ 0) := by
  constructor
  · intro h
    rw [Int.tdiv_eq_ediv_of_nonneg h]; omega
  · intro h
    have e : a = -(-a) := by omega
    rw [e, Int.neg_tdiv, Int.tdiv_eq_ediv_of_nonneg (by omega)]; omega

theorem quoK_i64 {a : Int} (h : IsI64 a) : quoK a 8 = Int.tdiv a 8 := by
  unfold quoK
  unfold IsI64 at h
  have := tdiv8_bounds a
  apply i64_of_bounds <;> omega

theorem paeth_bridge (a b c : UInt8) :
    FB.paeth a.toNat b.toNat c.toNat = (pred_paethPredictor a b c).toNat := by
  rw [paeth_spec]
  unfold FB.paeth Spec.Png.paethSel
  simp only []
  by_cases h1 : ((a.toNat : Int) + b.toNat - c.toNat - a.toNat).natAbs ≤ ((a.toNat : Int) + b.toNat - c.toNat - b.toNat).natAbs ∧
      ((a.toNat : Int) + b.toNat - c.toNat - a.toNat).natAbs ≤ ((a.toNat : Int) + b.toNat - c.toNat - c.toNat).natAbs
  · simp [h1]
  · by_cases h2 : ((a.toNat : Int) + b.toNat - c.toNat - b.toNat).natAbs ≤ ((a.toNat : Int) + b.toNat - c.toNat - c.toNat).natAbs
    · simp [h1, h2]
    · simp [h1, h2]

theorem bitsPerPixel_bridge (p : FB.PParams) : p.bitsPerPixel = pred_Params_bitsPerPixel (gp p) := rfl
theorem bitsPerRow_bridge (p : FB.PParams) : p.bitsPerRow = pred_Params_bitsPerRow (gp p) := rfl

theorem bytesPerPixel_bridge (p : FB.PParams) (h : p.bitsPerPixel + 7 < 9223372036854775808) :
    p.bytesPerPixel = pred_Params_bytesPerPixel (gp p) := by
  unfold FB.PParams.bytesPerPixel pred_Params_bytesPerPixel
  simp only [Id.run, pure]
  rw [← bitsPerPixel_bridge]
  have hr := i64_isI64 (p.colors * p.bpc)
  have e : p.bitsPerPixel = i64 (p.colors * p.bpc) := rfl
  unfold IsI64 at hr
  rw [i64_of_bounds (x := p.bitsPerPixel + 7) (by rw [e]; omega) h, quoK_i64 (by unfold IsI64; rw [e] at h ⊢; omega)]

theorem bytesPerRow_bridge (p : FB.PParams) (h : p.bitsPerRow + 7 < 9223372036854775808) :
    p.bytesPerRow = pred_Params_bytesPerRow (gp p) := by
  unfold FB.PParams.bytesPerRow pred_Params_bytesPerRow
  simp only [Id.run, pure]
  rw [← bitsPerRow_bridge]
  have hr := i64_isI64 (p.bitsPerPixel * p.columns)
  have e : p.bitsPerRow = i64 (p.bitsPerPixel * p.columns) := rfl
  unfold IsI64 at hr
  rw [i64_of_bounds (x := p.bitsPerRow + 7) (by rw [e]; omega) h, quoK_i64 (by unfold IsI64; rw [e] at h ⊢; omega)]

theorem model_validate_iff (p : FB.PParams) (hp : p.predictor ≠ 1) :
    p.validate = true ↔
      (p.predictor = 2 ∧ 1 ≤ p.colors ∧ p.colors ≤ 60 ∨ (10 ≤ p.predictor ∧ p.predictor ≤ 15) ∧ 1 ≤ p.colors ∧ p.colors ≤ 256) ∧
      (p.bpc = 1 ∨ p.bpc = 2 ∨ p.bpc = 4 ∨ p.bpc = 8 ∨ p.bpc = 16) ∧
      1 ≤ p.columns ∧ p.columns ≤ lim_MaxImageWidth ∧
      (p.colors * p.bpc * p.columns + 7) / 8 ≤ lim_MaxImageWidth * lim_MaxImageChannels * 16 / 8 := by
  obtain ⟨colors, bpc, cols, pred⟩ := p
  simp only at hp ⊢
  unfold FB.PParams.validate FB.isBpc limits_MaxImageWidth predict_maxBytesPerRow lim_MaxImageWidth lim_MaxImageChannels
  have c1 : ((65536 : Nat) : Int) = 65536 := rfl
  have c2 : ((4194304 : Nat) : Int) = 4194304 := rfl
  have c3 : ((32 : Nat) : Int) = 32 := rfl
  simp only [wrap64_eq, hp, if_false, c1, c2, c3, Bool.or_eq_false_iff, beq_eq_false_iff_ne, ne_eq]
  by_cases hall : (1 ≤ colors ∧ colors ≤ 256) ∧ (bpc = 1 ∨ bpc = 2 ∨ bpc = 4 ∨ bpc = 8 ∨ bpc = 16) ∧ 1 ≤ cols ∧ cols ≤ 65536
  · obtain ⟨hc, hb, hk1, hk2⟩ := hall
    obtain ⟨a1, a2, a3, a4⟩ := prod_bounds hc.1 hc.2 hb hk1 hk2
    have e1 : i64 (colors * bpc) = colors * bpc := i64_of_bounds (by omega) (by omega)
    have e2 : i64 (colors * bpc * cols) = colors * bpc * cols := i64_of_bounds (by omega) (by omega)
    have e3 : (colors * bpc * cols + 7).tdiv 8 = (colors * bpc * cols + 7) / 8 := Int.tdiv_eq_ediv_of_nonneg (by omega)
    simp only [e1, e2, e3]
    generalize (colors * bpc * cols + 7) / 8 = row
    split <;> (try split) <;> (try split) <;> (try split) <;> (try split) <;> (try split) <;> simp <;> omega
  · split <;> (try split) <;> (try split) <;> (try split) <;> (try split) <;> (try split) <;> simp <;> omega

theorem validate_bridge (p : FB.PParams) : p.validate = (pred_Params_Validate (gp p)).isNone := by
  by_cases hp : p.predictor = 1
  · obtain ⟨colors, bpc, cols, pred⟩ := p
    simp only at hp
    subst hp
    unfold FB.PParams.validate pred_Params_Validate gp
    simp [Id.run, pure]
  · have h1 := model_validate_iff p hp
    have h2 := validate_ok_iff (gp p) hp
    rw [Bool.eq_iff_iff, h1, Option.isNone_iff_eq_none, h2]
    rfl

theorem predictorValid_bridge (p : Int) : FB.predictorValid p = pdf_FlatePredictor_isValid p := by
  rw [Bool.eq_iff_iff, predictor_isValid_iff]
  unfold FB.predictorValid filter_FlatePredictorNone filter_FlatePredictorTIFF filter_FlatePredictorPNGNone
    filter_FlatePredictorPNGSub filter_FlatePredictorPNGUp filter_FlatePredictorPNGAverage
    filter_FlatePredictorPNGPaeth filter_FlatePredictorPNGOptimum
  simp only [Bool.or_eq_true, beq_iff_eq]
  omega

theorem ccitt_validate_bridge (f : FB.FCCITT) (v : Int) :
    f.validate = true ↔
      pdf_FilterCCITTFax_validate ⟨f.k, f.endOfLine, f.byteAlign, f.columns, f.rows, f.ignoreEOB, f.blackIs1, f.damaged⟩ v = some none := by
  rw [ccitt_validate_iff]
  have hg : FB.geoMax f.cols = max 1 (min 65536 (134217728 / max (if f.columns = 0 then 1728 else f.columns) 1)) := by
    unfold FB.geoMax FB.FCCITT.cols
    have hp : (Gen.limits_MaxImagePixels : Int) = 134217728 := by decide
    have hh : (Gen.limits_MaxImageHeight : Int) = 65536 := by decide
    rw [hp, hh, Int.tdiv_eq_ediv_of_nonneg (by omega)]
  unfold FB.FCCITT.validate FB.maxDimV filter_FilterCCITTFax_validate_maxDim
  rw [hg]
  simp only []
  generalize max 1 (min 65536 (134217728 / max (if f.columns = 0 then 1728 else f.columns) 1)) = M
  split <;> (try split) <;> (try split) <;> simp <;> omega
/-- **bridge**: `predictParams` of the hand model = generated `predictParams` -/
theorem predictParams_bridge (p colors bpc columns : Int) :
    gp (FB.predictParams p colors bpc columns) = pdf_predictParams p colors bpc columns := by
  rw [predictParams_eq]
  rfl

/-- **bridge** (all arguments, after library fix 879cf71): hand model `validateFlateLZW` (its own
checks and, with a predictor, `predict.Params.Validate` on `predictParams(…)`) = generated function -/
theorem validateFlateLZW_bridge (v : Nat) (p colors bpc columns : Int) :
    FB.validateFlateLZW v p colors bpc columns = (pdf_validateFlateLZW (v : Int) p colors bpc columns).isNone := by
  unfold FB.validateFlateLZW
  rw [validate_bridge, predictParams_bridge]
  cases hE : pred_Params_Validate (pdf_predictParams p colors bpc columns) with
  | some err =>
    -- the predictor rejects: then a predictor is in use, and the generated function cannot return nil
    have hu : ¬ (p = 0 ∨ p = 1) := fun hu => by
      rw [validate_predictParams_noPredictor p colors bpc columns hu] at hE; cases hE
    have hgen : (pdf_validateFlateLZW (v : Int) p colors bpc columns).isNone = false := by
      rw [Bool.eq_false_iff]
      intro hh
      rw [Option.isNone_iff_eq_none] at hh
      rw [C08tr.validate_ok_encode_ok _ _ _ _ _ hh] at hE; cases hE
    have husing : FB.usingPredictor p = true := by
      unfold FB.usingPredictor filter_FlatePredictorNone; simp; omega
    rw [hgen, husing]
    simp
  | none =>
    simp only [Option.isNone_none, Bool.or_true, Bool.and_true]
    unfold FB.validateFlateLZWBase pdf_validateFlateLZW pdf_checkVersionV FB.usingPredictor
    rw [predictorValid_bridge]
    unfold filter_FlatePredictorNone meta_V1_3 meta_V1_5
    simp only [Id.run, pure, hE]
    cases hv : pdf_FlatePredictor_isValid p
    · simp
    · have c1 : ((1 : Nat) : Int) = 1 := rfl
      simp only [c1, Bool.not_true, Bool.false_eq_true, if_false]
      by_cases hu : p = 0 ∨ p = 1
      · have e : (p != 0 && p != 1) = false := by rcases hu with h0 | h0 <;> subst h0 <;> decide
        simp only [e]
        by_cases c1 : colors = 0 <;> by_cases c2 : bpc = 0 <;> by_cases c3 : columns = 0 <;> simp [c1, c2, c3]
      · have e : (p != 0 && p != 1) = true := by simp; omega
        simp only [e, Bool.not_true, Bool.false_eq_true, false_and, if_false, if_true, Option.isSome_none]
        by_cases hc0 : colors = 0 <;> by_cases hb0 : bpc = 0 <;> by_cases hk0 : columns = 0 <;>
          by_cases hv6 : (v : Int) ≥ 6 <;>
          simp [hc0, hb0, hk0, hv6] <;>
          (first | done |
            (rw [Bool.eq_iff_iff]
             simp only [Option.isNone_iff_eq_none, Bool.and_eq_true, Bool.or_eq_true, Bool.not_eq_true', decide_eq_true_eq,
               decide_eq_false_iff_not]
             split <;> (try split) <;> (try split) <;> (try simp) <;> omega))

/-- **validate_ok_encode_ok** transferred through the bridges: the hand-model statement
(`C08fb.validate_ok_encode_ok`) and the statement on the generated code (`C08tr.validate_ok_encode_ok`)
are the same fact -/
theorem validate_ok_encode_ok_model (v : Nat) (p colors bpc columns : Int)
    (h : FB.validateFlateLZW v p colors bpc columns = true) : (FB.predictParams p colors bpc columns).validate = true := by
  rw [validateFlateLZW_bridge, Option.isNone_iff_eq_none] at h
  have := C08tr.validate_ok_encode_ok (v : Int) p colors bpc columns h
  rw [validate_bridge, predictParams_bridge, this]
  rfl

/-- `FilterFlate.validate` -/
theorem flate_validate_bridge (f : FB.FFlate) (v : Nat) :
    f.validate v = (pdf_FilterFlate_validate ⟨f.predictor, f.colors, f.bpc, f.columns⟩ (v : Int)).isNone := by
  unfold FB.FFlate.validate pdf_FilterFlate_validate meta_V1_2
  simp only [Id.run, pure]
  rw [validateFlateLZW_bridge]
  by_cases h : v < 3
  · have : ((v : Int) < 3) := by omega
    simp [h, this]
  · have : ¬ ((v : Int) < 3) := by omega
    simp [h, this]

/-- `FilterLZW.validate` -/
theorem lzw_validate_bridge (f : FB.FLZW) (v : Nat) :
    f.validate v = (pdf_FilterLZW_validate ⟨f.predictor, f.colors, f.bpc, f.columns, f.offByOne⟩ (v : Int)).isNone := by
  unfold FB.FLZW.validate pdf_FilterLZW_validate
  simp only [Id.run, pure]
  exact validateFlateLZW_bridge v _ _ _ _

/-- `limits.StreamBudget` on the non-negative lengths the hand model covers -/
theorem streamBudget_bridge (n : Nat) (h : n < 9223372036854775808) :
    (FB.streamBudget n : Int) = lim_StreamBudget (n : Int) := by
  rw [streamBudget_spec (n : Int) ⟨by omega, by omega⟩]
  unfold FB.streamBudget limits_StreamBudgetBase limits_StreamBudgetHardCap limits_StreamBudgetMultiplier
    lim_StreamBudgetBase lim_StreamBudgetHardCap lim_StreamBudgetMultiplier
  split <;> omega

/-! ## internal/filter/ccittfax -/

/-- the generated ccittfax parameter record of a hand-model record (`Columns` already defaulted) -/
def gc (p : FB.CParams) : ccitt_Params :=
  ⟨p.columns, p.k, p.maxRows, p.endOfLine, p.byteAlign, p.blackIs1, p.ignoreEOB, 0⟩

/-- **bridge**: `ccittfax.BufferBytes` = the hand model's `bufferBytes` (positive column counts up to 2⁴⁰) -/
theorem bufferBytes_bridge (p : FB.CParams) (h0 : 0 < p.columns) (h1 : p.columns ≤ 1099511627776) :
    ccitt_BufferBytes (gc p) = (FB.bufferBytes p : Int) := by
  unfold ccitt_BufferBytes FB.bufferBytes FB.CParams.lineBytes gc
  simp only [Id.run, pure]
  have c0 : ((p.columns : Int) == 0) = false := by simp; omega
  have c1 : decide ((p.columns : Int) < 0) = false := by simp
  simp only [c0, c1, Bool.false_eq_true, if_false]
  rw [i64_of_bounds (x := (p.columns : Int) + 7) (by omega) (by omega), quoK_pos (by omega) (by omega) (by omega)]
  by_cases hk : p.k = 0
  · simp [hk]
  · have : (p.k != 0) = true := by simp [hk]
    simp only [this, if_true, hk, ne_eq, not_false_eq_true]
    rw [i64_of_bounds (x := 2 * (((p.columns : Int) + 7) / 8)) (by omega) (by omega),
      i64_of_bounds (x := (p.columns : Int) * 8) (by omega) (by omega), i64_of_bounds (by omega) (by omega)]
    omega

/-- `BufferBytes` applies the default width 1728 to `Columns == 0` and returns 0 for negative widths -/
theorem bufferBytes_default (p : ccitt_Params) (h : p.Columns = 0) :
    ccitt_BufferBytes p = ccitt_BufferBytes { p with Columns := 1728 } := by
  unfold ccitt_BufferBytes
  simp [Id.run, h]

/-- `getPixel` never panics; inside the image it is bit `x` of the line (most significant first),
outside it is the white value -/
theorem getPixel_spec (p : ccitt_Params) (line : List UInt8) (x : Int) (hx : IsI64 x) :
    ccitt_Params_getPixel p line x = some (
      if 0 ≤ x ∧ x < p.Columns ∧ x / 8 < line.length then
        (line.getD (x / 8).toNat 0 >>> UInt8.ofNat (7 - (x % 8).toNat)) &&& 1
      else ccitt_Params_whiteBit p) := by
  unfold ccitt_Params_getPixel ccitt_Params_whiteBit
  unfold IsI64 at hx
  simp only [pure, bind, Id.run]
  by_cases hin : 0 ≤ x ∧ x < p.Columns ∧ x / 8 < line.length
  · obtain ⟨h0, h1, h2⟩ := hin
    have e1 : quoK x 8 = x / 8 := quoK_pos h0 (by omega) (by omega)
    have e2 : remK x 8 = x % 8 := by unfold remK; exact Int.tmod_eq_emod_of_nonneg h0
    rw [e1, e2]
    have c : (decide (x < 0) || decide (x ≥ p.Columns) || decide (x / 8 ≥ len line)) = false := by
      unfold len; simp; omega
    simp only [c, Bool.false_eq_true, if_false, h0, h1, h2, and_self, if_true]
    have e3 : i64 (7 - x % 8) = 7 - x % 8 := i64_of_bounds (by omega) (by omega)
    have e4 : idx line (x / 8) = some (line.getD (x / 8).toNat 0) := by
      obtain ⟨m, hm, hml⟩ : ∃ m : Nat, x / 8 = (m : Int) ∧ m < line.length := ⟨(x / 8).toNat, by omega, by omega⟩
      rw [hm, getD_idx _ _ hml, Int.toNat_natCast]
    rw [e3, e4]
    simp only [Option.bind_some]
    congr 2
    unfold shr8 toU64
    have hb : (7 - x % 8) % 18446744073709551616 = 7 - x % 8 := by omega
    rw [hb]
    have hn : (7 - x % 8).toNat < 8 := by omega
    have : ¬ ((UInt64.ofNat (7 - x % 8).toNat).toNat ≥ 8) := by
      simp only [UInt64.toNat_ofNat']; omega
    simp only [this, if_false]
    congr 1
    apply UInt8.toNat_inj.mp
    simp only [UInt64.toNat_ofNat', Nat.toUInt8_eq, UInt8.toNat_ofNat']
    omega
  · have c : (decide (x < 0) || decide (x ≥ p.Columns) || decide (quoK x 8 ≥ len line)) = true := by
      by_cases h0 : 0 ≤ x
      · have e1 : quoK x 8 = x / 8 := quoK_pos h0 (by omega) (by omega)
        rw [e1]; unfold len; simp; omega
      · simp; omega
    simp only [c, if_true, hin, if_false]
    cases p.BlackIs1 <;> simp


/-! ### the geometry clamp of `FilterCCITTFax.Decode` (fragments translated from filter.go) -/

/-- **bridge**: `cols := max(params.Columns, 1)`; `geoMax := max(1, min(MaxImageHeight, MaxImagePixels/cols))`
is the hand model's `FB.geoMax`; the division cannot panic because `cols ≥ 1` -/
theorem geoMax_bridge (columns : Int) (h : IsI64 columns) :
    frag_FilterCCITTFax_Decode_geoMax (frag_FilterCCITTFax_Decode_cols columns) = some (FB.geoMax columns) := by
  unfold frag_FilterCCITTFax_Decode_geoMax frag_FilterCCITTFax_Decode_cols FB.geoMax quo64
    limits_MaxImageHeight limits_MaxImagePixels
  unfold IsI64 at h
  have hc : max columns 1 ≠ 0 := by omega
  have hq : (0 : Int) ≤ Int.tdiv 134217728 (max columns 1) ∧ Int.tdiv 134217728 (max columns 1) ≤ 134217728 := by
    rw [Int.tdiv_eq_ediv_of_nonneg (by omega)]
    exact ⟨Int.ediv_nonneg (by omega) (by omega), Int.ediv_le_self _ (by omega)⟩
  simp only [pure, bind, hc, if_false, Option.bind_some]
  rw [i64_of_bounds (by omega) (by omega)]
  rfl

/-- **bridge**: the rows limit the decoder works with = `FB.FCCITT.decodeMaxRows` (every filter record) -/
theorem decodeMaxRows_bridge (f : FB.FCCITT) (h : IsI64 f.cols) :
    frag_FilterCCITTFax_Decode_geoMax (frag_FilterCCITTFax_Decode_cols f.cols) = some (FB.geoMax f.cols) ∧
    f.decodeMaxRows = (if frag_FilterCCITTFax_Decode_clamp f.rows (FB.geoMax f.cols) then FB.geoMax f.cols else f.rows) := by
  refine ⟨geoMax_bridge f.cols h, ?_⟩
  unfold FB.FCCITT.decodeMaxRows frag_FilterCCITTFax_Decode_clamp
  simp only [Bool.or_eq_true, decide_eq_true_eq]

/-- the clamp keeps the row limit between 1 and `MaxImageHeight`, and `rows·cols ≤ MaxImagePixels`
whenever more than one row is allowed (the bound the decoder's output relies on) -/
theorem geoMax_bounds (columns : Int) :
    1 ≤ FB.geoMax columns ∧ FB.geoMax columns ≤ 65536 ∧
    (1 < FB.geoMax columns → FB.geoMax columns * max columns 1 ≤ 134217728) := by
  unfold FB.geoMax limits_MaxImageHeight limits_MaxImagePixels
  have hpos : (0 : Int) < max columns 1 := by omega
  rw [Int.tdiv_eq_ediv_of_nonneg (by omega)]
  have hm : max columns 1 * (134217728 / max columns 1) ≤ 134217728 := Int.mul_ediv_self_le (by omega)
  have hq0 : (0 : Int) ≤ 134217728 / max columns 1 := Int.ediv_nonneg (by omega) (by omega)
  generalize max columns 1 = c at *
  generalize (134217728 : Int) / c = q at *
  refine ⟨by omega, by omega, ?_⟩
  intro h1
  have hle : max 1 (min ((65536 : Nat) : Int) q) ≤ q := by omega
  have : max 1 (min ((65536 : Nat) : Int) q) * c ≤ q * c := Int.mul_le_mul_of_nonneg_right hle (by omega)
  rw [Int.mul_comm q c] at this
  omega

end PdfVerif.C08trb

import PdfVerif.Props.C14fnt
/-!
# C14 (work package FNT) — glyph names: the naming loop of `makeGlyphName` terminates

After fix 2fa3edb (an invalid `base.altN` clears `base`, so that the next round takes the generic
`ornNNN` names) the loop ends for **every** input: `nameLoop_total` gives the fuel bound
`len(glyphNameUsed) + 2`, from the two pigeonhole arguments the Go comments appeal to (the used
`base.altN` names are pairwise different, and so are the `len+1` names `orn000 … ornLEN`).
`makeGlyphName_total`: from every state with at most 999 names in use, `makeGlyphName` returns a
name that is valid and — when it is new — not in use.  `encode_names_total`: in every state the
exact model reaches, the fuel of the executable model (1024) suffices, i.e. the `none` branch of
`Simple.encode` is dead.  Before the fix the statement was false (`Encode(5, ".notdef", …)`).
-/
namespace PdfVerif.C14fntn
open PdfVerif PdfVerif.FNT PdfVerif.C14fnt

/-! ### `%d` and `%03d` are injective -/

/-- the number a digit string stands for -/
def val (l : Bytes) : Nat := l.foldl (fun v b => v * 10 + (b - 48)) 0

theorem val_append_singleton (l : Bytes) (x : Nat) : val (l ++ [x]) = val l * 10 + (x - 48) := by
  simp [val, List.foldl_append]

theorem decAux_val (fuel n : Nat) (h : n < fuel) : val (decAux fuel n) = n := by
  induction fuel generalizing n with
  | zero => omega
  | succ f ih =>
    unfold decAux
    split
    · simp [val]
    · rw [val_append_singleton, ih (n / 10) (by omega)]; omega

theorem dec_val (n : Nat) : val (dec n) = n := decAux_val _ _ (by omega)

theorem val_zeros (k : Nat) (l : Bytes) : val (List.replicate k 48 ++ l) = val l := by
  induction k with
  | zero => simp
  | succ k ih =>
    have : val (48 :: (List.replicate k 48 ++ l)) = val (List.replicate k 48 ++ l) := by
      simp [val]
    simp only [List.replicate_succ, List.cons_append, this, ih]

theorem pad3_val (n : Nat) : val (pad3 n) = n := by
  unfold pad3; rw [val_zeros, dec_val]

theorem ornName_injective (a b : Nat) (h : ornName a = ornName b) : a = b := by
  unfold ornName at h
  have h' : pad3 a = pad3 b := List.append_cancel_left h
  have := congrArg val h'
  simpa [pad3_val] using this

theorem altName_drop (base : Bytes) (k : Nat) :
    (altName base k).drop (base.length + 4) = dec k := by
  unfold altName
  have : (base ++ [46, 97, 108, 116]).length = base.length + 4 := by simp
  rw [← this, List.drop_left]

/-! ### the generic names never run out -/

theorem ornSearch_none (used : Map Bytes Bool) (idx : Nat) (h : ornSearch used idx = none) :
    ∀ i, i ≤ idx → Simple.nameUsed used (ornName i) = true := by
  induction idx with
  | zero =>
    unfold ornSearch at h
    split at h
    · rename_i hu; intro i hi; have : i = 0 := by omega
      subst this; exact hu
    · simp at h
  | succ k ih =>
    unfold ornSearch at h
    split at h
    · rename_i hu
      intro i hi
      by_cases hik : i = k + 1
      · subst hik; exact hu
      · exact ih h i (by omega)
    · simp at h

theorem used_mem_keys (used : Map Bytes Bool) (n : Bytes) (h : Simple.nameUsed used n = true) :
    n ∈ Map.keys used := by
  unfold Simple.nameUsed at h
  split at h
  · rename_i b hg; exact Map.mem_keys_of_get hg
  · simp at h

/-- "Try one more name than glyphNameUsed has elements.  This guarantees that we find a free name." -/
theorem ornSearch_some (used : Map Bytes Bool) : ∃ n, ornSearch used used.size = some n := by
  cases h : ornSearch used used.size with
  | some n => exact ⟨n, rfl⟩
  | none =>
    exfalso
    have hall := ornSearch_none used used.size h
    have hsub : (List.range (used.size + 1)).map ornName ⊆ Map.keys used := by
      intro n hn
      obtain ⟨i, hi, rfl⟩ := List.mem_map.mp hn
      exact used_mem_keys used _ (hall i (by have := List.mem_range.mp hi; omega))
    have hnd : ((List.range (used.size + 1)).map ornName).Nodup := by
      have hr : (List.range (used.size + 1)).Nodup := List.nodup_range
      unfold List.Nodup at hr ⊢
      exact List.Pairwise.map ornName (fun a b hab he => hab (ornName_injective a b he)) hr
    have := List.Nodup.length_le_of_subset hnd hsub
    simp [Map.keys, Map.size] at this
    omega

/-! ### the `.altN` candidates cannot all be in use -/

/-- `n` is `base.altK` for some `K > alt` -/
def altAbove (base : Bytes) (alt : Nat) (n : Bytes) : Bool :=
  (n == altName base (val (n.drop (base.length + 4)))) && decide (alt < val (n.drop (base.length + 4)))

theorem altAbove_altName (base : Bytes) (alt k : Nat) :
    altAbove base alt (altName base k) = decide (alt < k) := by
  simp [altAbove, altName_drop, dec_val]

/-- the measure: used names of the form `base.altK` with `K > alt` -/
def remaining (used : Map Bytes Bool) (base : Bytes) (alt : Nat) : Nat :=
  ((Map.keys used).filter (altAbove base alt)).length

theorem filter_length_mono {α : Type} (l : List α) (p q : α → Bool) (hqp : ∀ x, q x = true → p x = true) :
    (l.filter q).length ≤ (l.filter p).length := by
  induction l with
  | nil => simp
  | cons y ys ih =>
    simp only [List.filter_cons]
    by_cases hq : q y = true
    · simp [hq, hqp y hq]; exact ih
    · by_cases hp : p y = true
      · simp [hq, hp]; omega
      · simp [hq, hp]; exact ih

theorem filter_length_lt {α : Type} (l : List α) (p q : α → Bool) (hqp : ∀ x, q x = true → p x = true)
    (x : α) (hx : x ∈ l) (hpx : p x = true) (hqx : q x = false) :
    (l.filter q).length < (l.filter p).length := by
  induction l with
  | nil => simp at hx
  | cons y ys ih =>
    simp only [List.filter_cons]
    rcases List.mem_cons.mp hx with rfl | hmem
    · have := filter_length_mono ys p q hqp
      simp [hpx, hqx]; omega
    · have := ih hmem
      by_cases hq : q y = true
      · simp [hq, hqp y hq]; exact this
      · by_cases hp : p y = true
        · simp [hq, hp]; omega
        · simp [hq, hp]; exact this

theorem remaining_decreases (used : Map Bytes Bool) (base : Bytes) (alt : Nat)
    (hu : Simple.nameUsed used (altName base (alt + 1)) = true) :
    remaining used base (alt + 1) < remaining used base alt := by
  unfold remaining
  apply filter_length_lt _ _ _ _ (altName base (alt + 1)) (used_mem_keys used _ hu)
  · simp [altAbove_altName]
  · simp [altAbove_altName]
  · intro x hx
    simp only [altAbove, Bool.and_eq_true, decide_eq_true_eq] at hx ⊢
    exact ⟨hx.1, by omega⟩

/-- a round that starts with an empty base ends the loop with a generic name -/
theorem nameLoop_empty_base (used : Map Bytes Bool) (fuel : Nat) (g : Bytes) (alt : Nat)
    (hbad : (!isValidName g || Simple.nameUsed used g) = true) :
    ∃ n, nameLoop used (fuel + 1) [] g alt = some n := by
  obtain ⟨n, hn⟩ := ornSearch_some used
  exact ⟨n, by simp [nameLoop, hbad, hn]⟩

/-- **the naming loop terminates**: `len(glyphNameUsed) + 2` rounds are enough for every base
name, candidate and counter (more precisely: the number of used `base.altK`, `K > alt`, plus 2) -/
theorem nameLoop_total (used : Map Bytes Bool) (fuel : Nat) (base g : Bytes) (alt : Nat)
    (hf : fuel ≥ remaining used base alt + 2) : ∃ n, nameLoop used fuel base g alt = some n := by
  induction fuel generalizing g alt with
  | zero => omega
  | succ f ih =>
    by_cases hbad : (!isValidName g || Simple.nameUsed used g) = true
    · by_cases horn : (base.length == 0 || g.length > K.maxNameLen) = true
      · obtain ⟨n, hn⟩ := ornSearch_some used
        exact ⟨n, by simp only [nameLoop, hbad, horn, hn, ↓reduceIte]⟩
      · -- the next candidate base.alt(alt+1)
        have hstep : nameLoop used (f + 1) base g alt =
            nameLoop used f (if isValidName (altName base (alt + 1)) then base else [])
              (altName base (alt + 1)) (alt + 1) := by
          simp only [nameLoop, hbad, horn, ↓reduceIte]
          simp
        rw [hstep]
        cases f with
        | zero => omega
        | succ f' =>
          by_cases hv : isValidName (altName base (alt + 1)) = true
          · simp only [hv, ↓reduceIte]
            by_cases hu : Simple.nameUsed used (altName base (alt + 1)) = true
            · exact ih _ _ (by have := remaining_decreases used base alt hu; omega)
            · refine ⟨altName base (alt + 1), ?_⟩
              have hu' : Simple.nameUsed used (altName base (alt + 1)) = false := by simpa using hu
              simp [nameLoop, hv, hu']
          · have hv' : isValidName (altName base (alt + 1)) = false := by simpa using hv
            simp only [hv', Bool.false_eq_true, ↓reduceIte]
            exact nameLoop_empty_base used f' _ _ (by simp [hv'])
    · refine ⟨g, ?_⟩
      have : (!isValidName g || Simple.nameUsed used g) = false := by simpa using hbad
      simp [nameLoop, this]

theorem remaining_le_size (used : Map Bytes Bool) (base : Bytes) (alt : Nat) :
    remaining used base alt ≤ used.size := by
  unfold remaining
  have := List.length_filter_le (altAbove base alt) (Map.keys used)
  simpa [Map.keys, Map.size] using this

/-! ### the generic names are valid -/

theorem ornName_valid : ∀ i, i < 1000 → isValidName (ornName i) = true := by decide +kernel

/-! ### `makeGlyphName` is total -/

/-- names stored for glyphs are valid -/
def NamesValid (s : Simple) : Prop := ∀ g n, s.glyphName.get g = some n → isValidName n = true

/-- **makeGlyphName returns a fresh valid name for every input.**  From any state with at most 999
names in use (a reachable state has at most 257) and only valid stored names, for every glyph,
font-supplied name and AGL name of the text: the call returns (fuel suffices), the name is valid,
it is recorded for the glyph, and if the glyph had no name before it was not in use. -/
theorem makeGlyphName_total (s : Simple) (gid : Nat) (d f : Bytes)
    (hsz : s.glyphNameUsed.size ≤ 999) (hval : NamesValid s) :
    ∃ s1 n, s.makeGlyphName gid d f = some (s1, n) ∧ isValidName n = true ∧
      s1.glyphName.get gid = some n ∧ NamesValid s1 ∧
      (s.glyphName.get gid = none → Simple.nameUsed s.glyphNameUsed n = false) := by
  unfold Simple.makeGlyphName
  cases hg : s.glyphName.get gid with
  | some n0 =>
    exact ⟨s, n0, rfl, hval gid n0 hg, hg, hval, by intro h; simp at h⟩
  | none =>
    obtain ⟨n, hn⟩ := nameLoop_total s.glyphNameUsed nameFuel (startName d f) (startName d f) 0 (by
      have := remaining_le_size s.glyphNameUsed (startName d f) 0
      simp only [nameFuel]; omega)
    obtain ⟨hfresh, hvo⟩ := nameLoop_fresh _ _ _ _ _ _ hn
    have hvalid : isValidName n = true := by
      rcases hvo with h | ⟨i, hi, rfl⟩
      · exact h
      · exact ornName_valid i (by omega)
    simp only [hn]
    refine ⟨_, n, rfl, hvalid, by simp, ?_, fun _ => hfresh⟩
    intro g m hm
    simp only [Map.get_insert] at hm
    split at hm
    · simp at hm; subst hm; exact hvalid
    · exact hval g m hm

/-! ### the fuel of the executable model suffices in every reachable state -/

/-- bookkeeping invariant of the exact model: at most one name more than codes -/
structure NameCount (s : Simple) : Prop where
  reach : Reach s
  count : s.glyphNameUsed.size ≤ s.info.size + 1
  valid : NamesValid s

theorem size_insert_le {α β : Type} [DecidableEq α] (m : Map α β) (k : α) (v : β) :
    (m.insert k v).size ≤ m.size + 1 := by
  have := Map.size_erase_le m k
  simp [Map.insert, Map.size] at this ⊢
  exact this

theorem nameCount_init (w : Int) : NameCount (Simple.init w) := by
  refine ⟨Reach.init w, by simp [Simple.init, Map.size], ?_⟩
  intro g n h
  simp [Simple.init, Map.get_cons] at h
  obtain ⟨_, rfl⟩ := h
  decide

theorem encode_eq_dup (base : Nat → Bytes) (s : Simple) (a : EncArgs)
    (hd : (s.code.get (a.gid, a.text)).isSome = true) : s.encode base a = (s, .dup, none) := by
  simp [Simple.encode, hd]

theorem encode_eq_full (base : Nat → Bytes) (s : Simple) (a : EncArgs)
    (hd : ¬ (s.code.get (a.gid, a.text)).isSome = true) (hfull : s.info.size ≥ K.simpleMaxCodes) :
    s.encode base a = ({ s with err := true }, .overflow, none) := by
  simp [Simple.encode, hd, hfull]

theorem encode_eq_new (base : Nat → Bytes) (s : Simple) (a : EncArgs)
    (hd : ¬ (s.code.get (a.gid, a.text)).isSome = true) (hfull : ¬ s.info.size ≥ K.simpleMaxCodes)
    (s1 : Simple) (n : Bytes) (hm : s.makeGlyphName a.gid a.baseName a.fromUni = some (s1, n)) :
    s.encode base a =
      ((s1.encodeAt a.gid a.text a.width (chooseCode base n a.r fun c => s1.info.contains c)).1,
       (s1.encodeAt a.gid a.text a.width (chooseCode base n a.r fun c => s1.info.contains c)).2, some n) := by
  simp [Simple.encode, hd, hfull, hm]

theorem encodeAt_eq_new (s : Simple) (gid : Nat) (text : Bytes) (width : Int) (pick : Nat)
    (hd : ¬ (s.code.get (gid, text)).isSome = true) (hfull : ¬ s.info.size ≥ K.simpleMaxCodes) :
    s.encodeAt gid text width pick =
      ({ s with info := s.info.insert pick ⟨gid, width, text⟩, code := s.code.insert (gid, text) pick }, .ok pick) := by
  simp [Simple.encodeAt, hd, hfull]

theorem nameCount_encode (base : Nat → Bytes) (s : Simple) (a : EncArgs) (h : NameCount s) :
    NameCount (s.encode base a).1 ∧
    ((s.encode base a).2.2 = none → (s.code.get (a.gid, a.text)).isSome = true ∨ s.info.size ≥ K.simpleMaxCodes) := by
  have hr' := reach_encode base s a h.reach
  have hsize := (reach_inv h.reach).sizeLe
  by_cases hd : (s.code.get (a.gid, a.text)).isSome = true
  · rw [encode_eq_dup base s a hd]
    exact ⟨h, fun _ => Or.inl hd⟩
  · by_cases hfull : s.info.size ≥ K.simpleMaxCodes
    · rw [encode_eq_full base s a hd hfull] at hr' ⊢
      exact ⟨⟨hr', h.count, h.valid⟩, fun _ => Or.inr hfull⟩
    · obtain ⟨s1, n, hm, _, _, hv1, _⟩ := makeGlyphName_total s a.gid a.baseName a.fromUni
        (by have := h.count; simp only [K.simpleMaxCodes] at hsize hfull; omega) h.valid
      rw [encode_eq_new base s a hd hfull s1 n hm] at hr' ⊢
      obtain ⟨hc, hi, _, _, hs1⟩ := makeGlyphName_maps s s1 a.gid a.baseName a.fromUni n hm
      -- names grew by at most one
      have hcount1 : s1.glyphNameUsed.size ≤ s.glyphNameUsed.size + 1 := by
        unfold Simple.makeGlyphName at hm
        split at hm
        · simp at hm; obtain ⟨rfl, _⟩ := hm; omega
        · split at hm
          · simp at hm
          · simp at hm; obtain ⟨rfl, _⟩ := hm
            exact size_insert_le _ _ _
      -- the code table grows by exactly one
      have hsz1 : s1.info.size < K.simpleMaxCodes := by rw [hi]; omega
      obtain ⟨c, hc1, hc2⟩ := exists_free_code (s := s1) hsz1
      have hfree := chooseCode_free base n a.r (fun c => s1.info.contains c)
        ⟨c, hc1, by simp [Map.contains, hc2]⟩
      have hpf : s1.info.get (chooseCode base n a.r fun c => s1.info.contains c) = none := by
        have h2 := hfree.2
        simp [Map.contains] at h2
        exact h2
      have hnd1 : ¬ (s1.code.get (a.gid, a.text)).isSome = true := by rw [hc]; exact hd
      have hnf1 : ¬ s1.info.size ≥ K.simpleMaxCodes := by omega
      refine ⟨⟨hr', ?_, ?_⟩, by simp⟩
      · rw [encodeAt_eq_new s1 _ _ _ _ hnd1 hnf1]
        simp only
        rw [Map.size_insert_of_none _ _ _ hpf, hi]
        have := h.count
        omega
      · intro g m hg
        rw [encodeAt_eq_new s1 _ _ _ _ hnd1 hnf1] at hg
        exact hv1 g m hg

theorem nameCount_runExact (base : Nat → Bytes) (as : List EncArgs) (s : Simple) (h : NameCount s) :
    NameCount (runExact base s as) := by
  induction as generalizing s with
  | nil => exact h
  | cons a as ih => exact ih _ (nameCount_encode base s a h).1

/-- **the `none` branch of `Simple.encode` is dead**: in every state the exact model reaches from
`NewSimple`, an `Encode` that gets past the duplicate and overflow tests makes a glyph name — the
fuel 1024 of the executable model is never exhausted, for any glyph id, names and text. -/
theorem encode_names_total (base : Nat → Bytes) (w : Int) (as : List EncArgs) (a : EncArgs) :
    let s := runExact base (Simple.init w) as
    (s.encode base a).2.2 = none →
      (s.code.get (a.gid, a.text)).isSome = true ∨ s.info.size ≥ K.simpleMaxCodes :=
  (nameCount_encode base _ a (nameCount_runExact base as _ (nameCount_init w))).2

/-- every glyph name the exact model ever stores is valid (`names.IsValid`) -/
theorem glyph_names_valid (base : Nat → Bytes) (w : Int) (as : List EncArgs) (g : Nat) (n : Bytes)
    (h : (runExact base (Simple.init w) as).glyphName.get g = some n) : isValidName n = true :=
  (nameCount_runExact base as _ (nameCount_init w)).valid g n h

-- non-vacuity / regression of D27: a second glyph called ".notdef" gets the first generic name,
-- a third one the next; a glyph whose name is taken gets `.alt1`
example : ((Simple.init 0).makeGlyphName 5 nameNotdef [120]).map (·.2) = some (ornName 1) := by
  decide +kernel
example :
    (runExact (fun _ => nameNotdef) (Simple.init 0)
      [⟨5, nameNotdef, [120], 120, [120], 500⟩, ⟨6, nameNotdef, [121], 121, [121], 500⟩,
       ⟨7, [65], [65], 65, [65], 500⟩, ⟨8, [65], [65], 65, [66], 500⟩]).glyphName
      = [(8, altName [65] 1), (7, [65]), (6, ornName 2), (5, ornName 1), (0, nameNotdef)] := by
  decide +kernel

end PdfVerif.C14fntn

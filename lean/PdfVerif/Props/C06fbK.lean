import PdfVerif.Props.C06fbE
/-!
# C06 (CCITTFax, work package FB): mixed one- and two-dimensional coding (K > 0)

Rows are tagged (`1` = 1-D, `0` = 2-D, every K-th row 1-D), optionally preceded by an EOL code and
followed by fill bits; the data end with the return-to-control sequence of six `EOL+1`.  The
reader (`decodeG3ScanLine2D`) skips EOL codes (`skipEOLs`), reads the tag bit, recognises the
return-to-control sequence by "tag 1 followed by eleven zeros" and otherwise runs the 1-D or the
2-D row decoder, for which `C06faC` / `C06fbE` have the row theorems.
-/
namespace PdfVerif.C06fbK
open PdfVerif PdfVerif.FB PdfVerif.Gen PdfVerif.C06fbt PdfVerif.C06faC PdfVerif.C06fbA PdfVerif.C06fbE

/-! ## bit strings that do not start with eleven zeros -/

theorem bitsToNat_take_append (a t : Bits) (n : Nat) (h1 : a.length ≤ n) (h2 : n ≤ (a ++ t).length) :
    bitsToNat ((a ++ t).take n) = bitsToNat a * 2 ^ (n - a.length) + bitsToNat (t.take (n - a.length)) := by
  rw [List.length_append] at h2
  rw [List.take_append, List.take_of_length_le h1, bitsToNat_append, List.length_take, Nat.min_eq_left (by omega)]

/-- a prefix with a non-zero value makes every longer prefix non-zero -/
theorem take_ne_zero (a t : Bits) (n : Nat) (ha : 1 ≤ bitsToNat a) (h1 : a.length ≤ n) (h2 : n ≤ (a ++ t).length) :
    bitsToNat ((a ++ t).take n) ≠ 0 := by
  rw [bitsToNat_take_append a t n h1 h2]
  have : 1 ≤ 2 ^ (n - a.length) := Nat.one_le_two_pow
  have := Nat.mul_le_mul ha this
  omega

theorem code_pos_bool : allLt 104 (fun i => Nat.ble 1 (codeEntry true i).1) = true := by decide +kernel

theorem white_code_pos (i : Nat) (hi : i < 104) : 1 ≤ (codeEntry true i).1 := by
  have := allLt_spec _ _ code_pos_bool i hi
  simpa [Nat.ble_eq] using this

/-- a 1-D row starts with a white code word -/
theorem encode1DLine_head (p : CParams) (px : List Nat) (h : px ≠ []) :
    ∃ i tail, i < 104 ∧ encode1DLine p px = codeWord true i ++ tail := by
  unfold encode1DLine
  have hne : runs1D p.whiteBit px ≠ [] := by
    cases px with
    | nil => exact absurd rfl h
    | cons q rest =>
      simp only [runs1D]
      split
      · exact groupRuns_ne_nil rest q 1
      · simp
  cases hr : runs1D p.whiteBit px with
  | nil => exact absurd hr hne
  | cons len rs =>
    simp only [encodeRuns]
    obtain ⟨hall, pre, t, hsplit, _, _⟩ := run_codes_shape len
    rw [encodeRun_eq, hsplit]
    cases pre with
    | nil =>
      refine ⟨t, encodeRuns (!true) rs, hall t (by rw [hsplit]; simp), ?_⟩
      simp [codeWord]
    | cons a as =>
      refine ⟨a, ((as ++ [t]).map fun i => codeBits (codeEntry true i).1 (codeEntry true i).2.1).flatten ++ encodeRuns (!true) rs,
        hall a (by rw [hsplit]; simp), ?_⟩
      simp only [List.cons_append, List.map_cons, List.flatten_cons, List.append_assoc, codeWord]

/-! ## `skipEOLs`, the tag bit -/

/-- no EOL code ahead: `skipEOLs` only looks -/
theorem skipEOLs_none (r : Rd) (f : Nat) (he : Rd.clean r) (h11 : 11 ≤ (Rd.stream r).length)
    (hnz : bitsToNat ((Rd.stream r).take 11) ≠ 0) :
    Rd.clean (r.skipEOLs (f + 1)) ∧ Rd.stream (r.skipEOLs (f + 1)) = Rd.stream r ∧ (r.skipEOLs (f + 1)).line = r.line := by
  obtain ⟨p1, p2, p3, p4⟩ := peek_spec r 11 he (by omega) h11
  rw [Rd.skipEOLs, if_pos he.1]
  rcases hpk : r.peek 11 with ⟨v, r1⟩
  rw [hpk] at p1 p2 p3 p4
  simp only at p1 p2 p3 p4 ⊢
  rw [if_neg (by rw [p1]; exact hnz)]
  exact ⟨p2, p3, p4⟩

/-- one EOL code ahead, no second one behind it: consumed -/
theorem skipEOLs_one (r : Rd) (tl : Bits) (f : Nat) (he : Rd.clean r) (hs : Rd.stream r = codeBits 1 12 ++ tl)
    (h11 : 11 ≤ tl.length) (hnz : bitsToNat (tl.take 11) ≠ 0) :
    Rd.clean (r.skipEOLs (f + 2)) ∧ Rd.stream (r.skipEOLs (f + 2)) = tl ∧ (r.skipEOLs (f + 2)).line = r.line := by
  rw [eol12_bits, List.append_assoc] at hs
  have hlen : 11 ≤ (Rd.stream r).length := by rw [hs]; simp
  obtain ⟨p1, p2, p3, p4⟩ := peek_spec r 11 he (by omega) hlen
  have hv : (r.peek 11).1 = 0 := by
    rw [p1, hs, List.take_append_of_le_length (by simp), List.take_of_length_le (by simp)]
    decide
  obtain ⟨c1, c2, c3⟩ := consume_spec (r.peek 11).2 11 p2 (by omega) (by rw [p3]; omega)
  rw [p3, hs, List.drop_append_of_le_length (by simp), List.drop_of_length_le (by simp), List.nil_append] at c2
  rw [Rd.skipEOLs, if_pos he.1]
  rcases hpk : r.peek 11 with ⟨v, r1⟩
  rw [hpk] at hv c1 c2 c3 p4
  simp only at hv c1 c2 c3 p4 ⊢
  rw [if_pos hv]
  generalize hr2 : r1.consume 11 = r2 at c1 c2 c3
  have hbl : r2.bitsLeft + 2 = (r2.bitsLeft + 1) + 1 := by omega
  obtain ⟨v1, v2, v3⟩ := waitForOne_one r2 tl (r2.bitsLeft + 1) c1 (by rw [c2]; rfl)
  rw [hbl]
  obtain ⟨s1, s2, s3⟩ := skipEOLs_none (r2.waitForOne (r2.bitsLeft + 1 + 1)) f v1 (by rw [v2]; exact h11) (by rw [v2]; exact hnz)
  exact ⟨s1, by rw [s2, v2], by rw [s3, v3, c3, p4]⟩

/-- reading one bit -/
theorem readBits_one (r : Rd) (b : Bool) (tl : Bits) (he : Rd.clean r) (hs : Rd.stream r = b :: tl) :
    (r.readBits 1).1 = (if b then 1 else 0) ∧ Rd.clean (r.readBits 1).2 ∧ Rd.stream (r.readBits 1).2 = tl ∧
    (r.readBits 1).2.line = r.line := by
  have hlen : 1 ≤ (Rd.stream r).length := by rw [hs]; simp
  obtain ⟨p1, p2, p3, p4⟩ := peek_spec r 1 he (by omega) hlen
  obtain ⟨c1, c2, c3⟩ := consume_spec (r.peek 1).2 1 p2 (by omega) (by rw [p3]; exact hlen)
  unfold Rd.readBits
  simp only []
  refine ⟨?_, c1, ?_, by rw [c3, p4]⟩
  · rw [p1, hs]; cases b <;> rfl
  · rw [c2, p3, hs]; rfl

/-! ## one tagged row -/

theorem white_head_bool : allLt 104 (fun i =>
    Nat.ble 1 (bitsToNat ((codeBits (codeEntry true i).1 (codeEntry true i).2.1).take 11))) = true := by decide +kernel

/-- no white code word starts with eleven zeros (the reader's test for the return-to-control
sequence cannot fire on a 1-D row) -/
theorem white_head_nz (i : Nat) (hi : i < 104) (t : Bits) (h : 11 ≤ (codeWord true i ++ t).length) :
    bitsToNat ((codeWord true i ++ t).take 11) ≠ 0 := by
  have hb := allLt_spec _ _ white_head_bool i hi
  simp only [Nat.ble_eq] at hb
  unfold codeWord at h ⊢
  generalize (codeEntry true i).1 = c at *
  generalize (codeEntry true i).2.1 = w at *
  by_cases hw : 11 ≤ w
  · rw [List.take_append_of_le_length (by rw [codeBits_length]; exact hw)]; omega
  · rw [List.take_of_length_le (by rw [codeBits_length]; omega)] at hb
    exact take_ne_zero _ t 11 hb (by rw [codeBits_length]; omega) h

/-- the EOL code in front of a row, if `EndOfLine` is set -/
def eolp (p : CParams) : Bits := if p.endOfLine then eol12 else []

/-- `skipEOLs` in front of a tagged row -/
theorem skip_to_tag (p : CParams) (r : Rd) (tl : Bits) (he : Rd.clean r) (hs : Rd.stream r = eolp p ++ tl)
    (h11 : 11 ≤ tl.length) (hnz : bitsToNat (tl.take 11) ≠ 0) :
    Rd.clean (r.skipEOLs (r.bitsLeft + 2)) ∧ Rd.stream (r.skipEOLs (r.bitsLeft + 2)) = tl := by
  unfold eolp at hs
  by_cases heol : p.endOfLine = true
  · simp only [heol, if_true] at hs
    obtain ⟨a, b, _⟩ := skipEOLs_one r tl r.bitsLeft he hs h11 hnz
    exact ⟨a, b⟩
  · have heol' : p.endOfLine = false := by simpa using heol
    simp only [heol', Bool.false_eq_true, if_false, List.nil_append] at hs
    have hbl : r.bitsLeft + 2 = (r.bitsLeft + 1) + 1 := by omega
    rw [hbl]
    obtain ⟨a, b, _⟩ := skipEOLs_none r (r.bitsLeft + 1) he (by rw [hs]; exact h11) (by rw [hs]; exact hnz)
    exact ⟨a, by rw [b, hs]⟩

/-- **a 1-D coded row of a mixed stream** (optional EOL code, tag bit 1, the row's 1-D code) -/
theorem g32d_row_1d (p : CParams) (hc : 0 < p.columns) (row : Bytes) (r : Rd) (rest refLine : Bits)
    (hlen : row.length = p.lineBytes) (hpad : paddingOk p row = true) (he : Rd.clean r)
    (hs : Rd.stream r = eolp p ++ (true :: (encode1DLine p (pixelsOf p row) ++ rest))) (hrest : 13 ≤ rest.length) :
    ∃ r', r.decodeG32D p refLine = r'.alignRow p ∧ Rd.clean r' ∧ Rd.stream r' = rest ∧ r'.line = bytesToBits row := by
  have hne : pixelsOf p row ≠ [] := by
    intro h; have := pixelsOf_length p row; rw [h] at this; simp at this; omega
  obtain ⟨i, tail, hi, hhead⟩ := encode1DLine_head p (pixelsOf p row) hne
  have h11 : 11 ≤ (true :: (encode1DLine p (pixelsOf p row) ++ rest)).length := by
    simp only [List.length_cons, List.length_append]; omega
  have hnz : bitsToNat ((true :: (encode1DLine p (pixelsOf p row) ++ rest)).take 11) ≠ 0 :=
    take_ne_zero [true] _ 11 (by decide) (by simp) (by simpa using h11)
  obtain ⟨s1, s2⟩ := skip_to_tag p r _ he hs h11 hnz
  unfold Rd.decodeG32D
  simp only []
  generalize r.skipEOLs (r.bitsLeft + 2) = r1 at s1 s2
  obtain ⟨t1, t2, t3, _⟩ := readBits_one r1 true _ s1 s2
  rcases hrb : r1.readBits 1 with ⟨tp, r2⟩
  rw [hrb] at t1 t2 t3
  simp only at t1 t2 t3 ⊢
  subst t1
  simp only [if_true]
  -- the return-to-control test looks at eleven bits of the row's first code word
  have h11' : 11 ≤ (Rd.stream r2).length := by rw [t3]; simp only [List.length_append]; omega
  obtain ⟨p1, p2, p3, _⟩ := peek_spec r2 11 t2 (by omega) h11'
  have hv : (r2.peek 11).1 ≠ 0 := by
    rw [p1, t3, hhead, List.append_assoc]
    apply white_head_nz i hi
    rw [← List.append_assoc, ← hhead, ← t3]; exact h11'
  rcases hpk : r2.peek 11 with ⟨v, r3⟩
  rw [hpk] at p2 p3 hv
  simp only at p2 p3 hv ⊢
  have hd := ccitt_g3_1d_row_rt_pre p row r3 rest hc hlen hpad p2 (by rw [p3, t3]) hrest
  by_cases hg : (!p.ignoreEOB) = true ∧ r2.err = 0
  · rw [if_pos hg, if_neg hv]; exact hd
  · rw [if_neg hg]
    -- without the test the row decoder starts from r2 itself
    exact ccitt_g3_1d_row_rt_pre p row r2 rest hc hlen hpad t2 t3 hrest

/-- **a 2-D coded row of a mixed stream** (optional EOL code, tag bit 0, the row's 2-D code) -/
theorem g32d_row_2d (p : CParams) (hc : 0 < p.columns) (row : Bytes) (r : Rd) (rest refLine : Bits)
    (hlen : row.length = p.lineBytes) (hpad : paddingOk p row = true) (he : Rd.clean r)
    (hs : Rd.stream r = eolp p ++ (false :: (encode2DLine p ((refLine.take p.columns).map b2n) (pixelsOf p row) ++ rest)))
    (hrest : 13 ≤ rest.length) :
    ∃ r', r.decodeG32D p refLine = r'.alignRow p ∧ Rd.clean r' ∧ Rd.stream r' = rest ∧ r'.line = bytesToBits row := by
  obtain ⟨i, tail, hi, hhead⟩ := encode2DLine_head p hc ((refLine.take p.columns).map b2n) (pixelsOf p row)
  obtain ⟨hfit, hw1, hw7⟩ := modeEntry_fits i hi
  have hpos := modeEntry_code_pos i hi
  have h11 : 11 ≤ (false :: (encode2DLine p ((refLine.take p.columns).map b2n) (pixelsOf p row) ++ rest)).length := by
    simp only [List.length_cons, List.length_append]; omega
  have hnz : bitsToNat ((false :: (encode2DLine p ((refLine.take p.columns).map b2n) (pixelsOf p row) ++ rest)).take 11) ≠ 0 := by
    rw [hhead]
    have e : false :: (codeBits (modeEntry i).1 (modeEntry i).2.1 ++ tail ++ rest) =
        (false :: codeBits (modeEntry i).1 (modeEntry i).2.1) ++ (tail ++ rest) := by simp
    rw [e]
    apply take_ne_zero
    · rw [bitsToNat_cons, bitsToNat_codeBits, Nat.mod_eq_of_lt hfit]; simp; omega
    · simp only [List.length_cons, codeBits_length]; omega
    · rw [← e, ← hhead]; exact h11
  obtain ⟨s1, s2⟩ := skip_to_tag p r _ he hs h11 hnz
  unfold Rd.decodeG32D
  simp only []
  generalize r.skipEOLs (r.bitsLeft + 2) = r1 at s1 s2
  obtain ⟨t1, t2, t3, _⟩ := readBits_one r1 false _ s1 s2
  rcases hrb : r1.readBits 1 with ⟨tp, r2⟩
  rw [hrb] at t1 t2 t3
  simp only at t1 t2 t3 ⊢
  subst t1
  simp only [Bool.false_eq_true, if_false]
  rw [if_neg (by decide)]
  obtain ⟨d1, d2, d3⟩ := ccitt_g4_row_rt p refLine row r2 rest hc hlen hpad t2 t3 hrest
  exact ⟨_, rfl, d1, d2, d3⟩

/-! ## the return-to-control sequence -/

theorem eol1_bits : codeBits 3 13 = codeBits 1 12 ++ [true] := by decide

def rtcK : Bits := (List.replicate 6 (codeBits 3 13)).flatten

theorem rtcK_split : rtcK = codeBits 1 12 ++ (true :: (List.replicate 11 false ++
    ([true, true] ++ (List.replicate 4 (codeBits 3 13)).flatten))) := by decide

theorem rtcK_length : rtcK.length = 78 := by decide

/-- **the return-to-control sequence of a mixed stream**: EOL+1 followed by another EOL ends the data -/
theorem g32d_rtc (p : CParams) (hig : p.ignoreEOB = false) (r : Rd) (pad refLine : Bits) (he : Rd.clean r)
    (hs : Rd.stream r = rtcK ++ pad) :
    (r.decodeG32D p refLine).err = 1 ∧ (r.decodeG32D p refLine).line = [] := by
  rw [rtcK_split, List.append_assoc] at hs
  generalize htl : List.replicate 11 false ++ ([true, true] ++ (List.replicate 4 (codeBits 3 13)).flatten) = z at hs
  have hz : 11 ≤ z.length := by rw [← htl]; simp
  have hz0 : z.take 11 = List.replicate 11 false := by
    rw [← htl, List.take_append_of_le_length (by simp), List.take_of_length_le (by simp)]
  have h11 : 11 ≤ ((true :: z) ++ pad).length := by simp only [List.length_append, List.length_cons]; omega
  have hnz : bitsToNat (((true :: z) ++ pad).take 11) ≠ 0 := by
    have e : (true :: z) ++ pad = [true] ++ (z ++ pad) := by simp
    rw [e]
    exact take_ne_zero [true] _ 11 (by decide) (by simp) (by rw [← e]; exact h11)
  obtain ⟨s1, s2, _⟩ := skipEOLs_one r ((true :: z) ++ pad) r.bitsLeft he (by rw [hs]) h11 hnz
  unfold Rd.decodeG32D
  simp only []
  generalize r.skipEOLs (r.bitsLeft + 2) = r1 at s1 s2
  obtain ⟨t1, t2, t3, _⟩ := readBits_one r1 true (z ++ pad) s1 (by rw [s2]; simp)
  rcases hrb : r1.readBits 1 with ⟨tp, r2⟩
  rw [hrb] at t1 t2 t3
  simp only at t1 t2 t3 ⊢
  subst t1
  simp only [if_true]
  have h11' : 11 ≤ (Rd.stream r2).length := by rw [t3, List.length_append]; omega
  obtain ⟨p1, p2, p3, _⟩ := peek_spec r2 11 t2 (by omega) h11'
  have hv : (r2.peek 11).1 = 0 := by
    rw [p1, t3, List.take_append_of_le_length hz, hz0]; decide
  rcases hpk : r2.peek 11 with ⟨v, r3⟩
  rw [hpk] at hv
  simp only at hv ⊢
  rw [if_pos ⟨by simp [hig], t2.1⟩, if_pos hv]
  exact ⟨rfl, rfl⟩

/-! ## the row loop -/

/-- bits of the complete rows of a mixed stream (with the fill bits, if any) -/
def allRowBitsP (p : CParams) : List Bytes → Nat → List Nat → Bits
  | [], _, _ => []
  | row :: rest, c2, ref =>
    (encodeRowBits p c2 ref (pixelsOf p row)).1 ++ padOf p (encodeRowBits p c2 ref (pixelsOf p row)).1 ++
      allRowBitsP p rest (encodeRowBits p c2 ref (pixelsOf p row)).2 (pixelsOf p row)

theorem allRowBitsP_mod (p : CParams) (hal : p.byteAlign = true) : ∀ (rows : List Bytes) (c2 : Nat) (ref : List Nat),
    (allRowBitsP p rows c2 ref).length % 8 = 0 := by
  intro rows
  induction rows with
  | nil => intro _ _; rfl
  | cons row rest ih =>
    intro c2 ref
    have h1 := alignPad_mod (encodeRowBits p c2 ref (pixelsOf p row)).1
    have h2 := ih (encodeRowBits p c2 ref (pixelsOf p row)).2 (pixelsOf p row)
    simp only [allRowBitsP, padOf, hal, if_true, List.length_append] at h1 h2 ⊢
    omega

theorem allRowBitsP_eq (p : CParams) (hal : p.byteAlign = false) : ∀ (rows : List Bytes) (c2 : Nat) (ref : List Nat),
    allRowBitsP p rows c2 ref = allRowBits p rows c2 ref := by
  intro rows
  induction rows with
  | nil => intro _ _; rfl
  | cons row rest ih =>
    intro c2 ref
    simp only [allRowBitsP, allRowBits, ih, padOf, hal, Bool.false_eq_true, if_false, List.append_nil]

theorem allRowBitsP_eqA (p : CParams) (hal : p.byteAlign = true) : ∀ (rows : List Bytes) (c2 : Nat) (ref : List Nat),
    allRowBitsP p rows c2 ref = allRowBitsA p rows c2 ref := by
  intro rows
  induction rows with
  | nil => intro _ _; rfl
  | cons row rest ih =>
    intro c2 ref
    simp only [allRowBitsP, allRowBitsA, ih, padOf, hal, if_true]

/-- the bits of one row of a mixed stream -/
theorem encodeRowBits_kpos (p : CParams) (hk : p.k > 0) (c2 : Nat) (ref px : List Nat) :
    encodeRowBits p c2 ref px =
      if (c2 : Int) ≥ p.k - 1 then (eolp p ++ (true :: encode1DLine p px), 0)
      else (eolp p ++ (false :: encode2DLine p ref px), c2 + 1) := by
  unfold encodeRowBits eolp
  simp only [hk, if_true]
  split <;> simp

/-- **the reader's row loop over a mixed stream and the return-to-control sequence** -/
theorem readRows_kpos (p : CParams) (hk : p.k > 0) (hc : 0 < p.columns) (hig : p.ignoreEOB = false)
    (pad : Bits) (hmod : p.byteAlign = true → (rtcK ++ pad).length % 8 = 0) :
    ∀ (rows : List Bytes) (r : Rd) (numRows fuel : Nat) (refLine : Bits) (c2 : Nat), Rd.clean r →
      refLine.length = 8 * p.lineBytes →
      Rd.stream r = allRowBitsP p rows c2 ((refLine.take p.columns).map b2n) ++ (rtcK ++ pad) →
      Rows2DOk p rows → (p.maxRows = 0 ∨ numRows + rows.length ≤ p.maxRows) → rows.length < fuel →
      Rd.readRows r p fuel numRows refLine = (rows, 1) := by
  have hk1 : ¬ p.k < 0 := by omega
  have hk2 : ¬ p.k = 0 := by omega
  intro rows
  induction rows with
  | nil =>
    intro r numRows fuel refLine c2 he _ hs _ _ hf
    obtain ⟨f, rfl⟩ : ∃ f, fuel = f + 1 := ⟨fuel - 1, by simp at hf; omega⟩
    rw [Rd.readRows]
    by_cases hg : r.err = 0 ∧ (p.maxRows = 0 ∨ numRows < p.maxRows)
    · rw [if_pos hg]
      simp only [allRowBitsP, List.nil_append] at hs
      obtain ⟨e1, e2⟩ := g32d_rtc p hig r pad refLine he hs
      have hds : (r.decodeScanLine p refLine).1 = r.decodeG32D p refLine := by
        unfold Rd.decodeScanLine; simp [hk1, hk2]
      rcases hdsl : r.decodeScanLine p refLine with ⟨rr, ref1⟩
      rw [hdsl] at hds
      simp only at hds ⊢
      rw [hds, e2, e1]
      simp
    · rw [if_neg hg, if_pos he.1]
  | cons row rest ih =>
    intro r numRows fuel refLine c2 he hrl hs hok hmax hf
    obtain ⟨f, rfl⟩ : ∃ f, fuel = f + 1 := ⟨fuel - 1, by simp at hf; omega⟩
    obtain ⟨h1, h2, h3⟩ := hok row (by simp)
    have hg : r.err = 0 ∧ (p.maxRows = 0 ∨ numRows < p.maxRows) := ⟨he.1, by simp only [List.length_cons] at hmax; omega⟩
    rw [Rd.readRows, if_pos hg]
    simp only [allRowBitsP] at hs
    generalize hpx : (refLine.take p.columns).map b2n = refpx at hs
    -- the row, its fill bits, the rest
    have hrow : ∃ r', r.decodeG32D p refLine = r'.alignRow p ∧ Rd.clean r' ∧
        Rd.stream r' = padOf p (encodeRowBits p c2 refpx (pixelsOf p row)).1 ++
          (allRowBitsP p rest (encodeRowBits p c2 refpx (pixelsOf p row)).2 (pixelsOf p row) ++ (rtcK ++ pad)) ∧
        r'.line = bytesToBits row := by
      have hrest : ∀ (x y : Bits), 13 ≤ (x ++ (y ++ (rtcK ++ pad))).length := by
        intro x y; simp only [List.length_append, rtcK_length]; omega
      rw [encodeRowBits_kpos p hk] at hs ⊢
      by_cases h1d : (c2 : Int) ≥ p.k - 1
      · simp only [h1d, if_true] at hs ⊢
        apply g32d_row_1d p hc row r _ refLine h1 h3 he _ (hrest _ _)
        rw [hs]; simp [List.append_assoc]
      · simp only [h1d, if_false] at hs ⊢
        apply g32d_row_2d p hc row r _ refLine h1 h3 he _ (hrest _ _)
        rw [hs, hpx]; simp [List.append_assoc]
    obtain ⟨r', e0, g2, g3, g4⟩ := hrow
    have hsufm : p.byteAlign = true →
        (allRowBitsP p rest (encodeRowBits p c2 refpx (pixelsOf p row)).2 (pixelsOf p row) ++ (rtcK ++ pad)).length % 8 = 0 := by
      intro hal
      have := allRowBitsP_mod p hal rest (encodeRowBits p c2 refpx (pixelsOf p row)).2 (pixelsOf p row)
      have := hmod hal
      rw [List.length_append]; omega
    obtain ⟨a1, a2, a3⟩ := alignRow_padOf p r' _ _ g2 g3 hsufm
    rw [← e0] at a1 a2 a3
    have d3 : (r.decodeG32D p refLine).line = bytesToBits row := by rw [a3, g4]
    have hds : r.decodeScanLine p refLine = (r.decodeG32D p refLine, bytesToBits row) := by
      unfold Rd.decodeScanLine
      simp only [hk1, hk2, if_false]
      rw [d3]
      have hbl := bytesToBits_length row
      rw [h1] at hbl
      simp [hrl, hbl]
      rw [List.take_of_length_le (by omega), List.drop_of_length_le (by omega), List.append_nil]
    rw [hds]
    simp only []
    have hne : (r.decodeG32D p refLine).line.isEmpty = false := by
      rw [d3]
      have hl := bytesToBits_length row
      have : 0 < p.lineBytes := lineBytes_pos p hc
      cases hb : bytesToBits row with
      | nil => rw [hb] at hl; simp at hl; omega
      | cons a as => rfl
    rw [hne]
    simp only [Bool.false_eq_true, if_false]
    have hnewref : ((bytesToBits row).take p.columns).map b2n = pixelsOf p row := (pixelsOf_eq p row h1).symm
    have hrec := ih { (r.decodeG32D p refLine) with line := [] } (numRows + 1) f (bytesToBits row)
      (encodeRowBits p c2 refpx (pixelsOf p row)).2 a1 (by rw [bytesToBits_length, h1])
      (by show Rd.stream (r.decodeG32D p refLine) = _; rw [a2, hnewref])
      (fun r' hr' => hok r' (by simp [hr'])) (by simp only [List.length_cons] at hmax; omega) (by simp at hf; omega)
    rw [hrec, d3, packBits_bytes row h2]

/-! ## the stream -/

theorem allRowBitsP_maxRows (p : CParams) (M : Nat) : ∀ (rows : List Bytes) (c2 : Nat) (ref : List Nat),
    allRowBitsP { p with maxRows := M } rows c2 ref = allRowBitsP p rows c2 ref := by
  have hl : ∀ ref row, encode2DLine { p with maxRows := M } ref (pixelsOf p row) = encode2DLine p ref (pixelsOf p row) := by
    intro ref row
    have := rows2DBits_params p { p with maxRows := M } rfl rfl [row] ref
    have hpx : pixelsOf { p with maxRows := M } row = pixelsOf p row := rfl
    simpa [rows2DBits, hpx] using this
  have hrb : ∀ c2 ref row, encodeRowBits { p with maxRows := M } c2 ref (pixelsOf p row) = encodeRowBits p c2 ref (pixelsOf p row) := by
    intro c2 ref row
    unfold encodeRowBits
    simp only [hl]
    rfl
  intro rows
  induction rows with
  | nil => intro _ _; rfl
  | cons row rest ih =>
    intro c2 ref
    have hpx : pixelsOf { p with maxRows := M } row = pixelsOf p row := rfl
    simp only [allRowBitsP, hpx, hrb, ih]
    rfl

/-- **mixed one- and two-dimensional stream round trip** (K > 0, EndOfLine any, EncodedByteAlign any,
with the return-to-control sequence): every list of admissible rows is decoded back, for any row
limit `M` of the reader that is `0` or not below the number of rows -/
theorem ccitt_kpos_stream_rt (p : CParams) (M : Nat) (rows : List Bytes)
    (hk : p.k > 0) (hig : p.ignoreEOB = false)
    (hc : 0 < p.columns) (hok : Rows2DOk p rows) (hmaxE : p.maxRows = 0 ∨ rows.length ≤ p.maxRows)
    (hmaxD : M = 0 ∨ rows.length ≤ M) :
    decodeAll { p with maxRows := M } (encodeAll p rows.flatten).1 = (rows.flatten, 1) := by
  have hlb := lineBytes_pos p hc
  have heob : endOfBlockBits p = rtcK := by
    unfold endOfBlockBits rtcK
    have h1 : ¬ p.k < 0 := by omega
    have h2 : ¬ p.k = 0 := by omega
    simp [hig, h1, h2]
  have henc : ∃ k, k < 8 ∧ (p.byteAlign = true → (rtcK ++ List.replicate k false).length % 8 = 0) ∧
      bytesToBits (encodeAll p rows.flatten).1 =
        allRowBitsP p rows 0 (List.replicate p.columns p.whiteBit) ++ (rtcK ++ List.replicate k false) := by
    by_cases hal : p.byteAlign = true
    · obtain ⟨_, k, hk8, hmod, hbits⟩ := encodeAll_bitsA p rows hal hlb (fun r hr => (hok r hr).1) (fun r hr => (hok r hr).2.2) hmaxE
      rw [← allRowBitsP_eqA p hal, heob] at hbits
      rw [heob] at hmod
      exact ⟨k, hk8, fun _ => hmod, hbits⟩
    · have hal' : p.byteAlign = false := by simpa using hal
      obtain ⟨_, k, hk8, hbits⟩ := encodeAll_bits p rows hal' hlb (fun r hr => (hok r hr).1) (fun r hr => (hok r hr).2.2) hmaxE
      rw [← allRowBitsP_eq p hal', heob, List.append_assoc] at hbits
      exact ⟨k, hk8, fun h => absurd h hal, hbits⟩
  obtain ⟨k, hk8, hmod, hbits⟩ := henc
  generalize (encodeAll p rows.flatten).1 = data at hbits
  unfold decodeAll decodeRows
  have hk' : ({ p with maxRows := M } : CParams).k ≠ 0 := by show p.k ≠ 0; omega
  simp only [hk', ne_eq, not_false_eq_true, if_true]
  have hfuel : rows.length < 8 * data.length + 8 := by
    have h2 := congrArg List.length hbits
    rw [bytesToBits_length] at h2
    have h3 : rows.length ≤ (allRowBitsP p rows 0 (List.replicate p.columns p.whiteBit)).length := by
      have : ∀ (rows : List Bytes) (c2 : Nat) (ref : List Nat), rows.length ≤ (allRowBitsP p rows c2 ref).length := by
        intro rows
        induction rows with
        | nil => intro _ _; simp [allRowBitsP]
        | cons row rest ih =>
          intro c2 ref
          have h1 := ih (encodeRowBits p c2 ref (pixelsOf p row)).2 (pixelsOf p row)
          have h0 : 1 ≤ (encodeRowBits p c2 ref (pixelsOf p row)).1.length := by
            rw [encodeRowBits_kpos p hk]; split <;> simp <;> omega
          simp only [allRowBitsP, List.length_append, List.length_cons] at h1 ⊢
          omega
      exact this rows 0 _
    simp only [List.length_append] at h2
    omega
  have hrefpx : ((List.replicate (p.lineBytes * 8) (!p.blackIs1)).take p.columns).map b2n = List.replicate p.columns p.whiteBit := by
    have hle : p.columns ≤ p.lineBytes * 8 := by unfold CParams.lineBytes; omega
    rw [List.take_replicate, Nat.min_eq_left hle, List.map_replicate, whiteBit_eq]
    congr 1
    cases p.blackIs1 <;> rfl
  have := readRows_kpos { p with maxRows := M } hk hc hig (List.replicate k false) hmod rows
    { win := [], src := data, err := 0, line := [] } 0 (8 * data.length + 8)
    (List.replicate (p.lineBytes * 8) (!p.blackIs1)) 0 ⟨rfl, rfl, rfl⟩ (by simp; exact Nat.mul_comm _ _)
    (by
      show bytesToBits data = allRowBitsP { p with maxRows := M } rows 0 (((List.replicate (p.lineBytes * 8) (!p.blackIs1)).take p.columns).map b2n) ++ _
      rw [allRowBitsP_maxRows p M, hrefpx]; exact hbits) hok (by simpa using hmaxD) hfuel
  have hlb' : ({ p with maxRows := M } : CParams).lineBytes = p.lineBytes := rfl
  have hb1' : ({ p with maxRows := M } : CParams).blackIs1 = p.blackIs1 := rfl
  rw [hlb', hb1', this]

/-! ## the statement of C06fbt: what is a theorem now -/

/-- the parameter classes for which the round trip is a THEOREM: EVERY K (Group 4, Group 3 1-D,
mixed), EndOfLine any, EncodedByteAlign any — with the end-of-block pattern.  Validated only
(oracle `fb-ccitt-rt`, model correspondence, x/image/ccitt on every run): `IgnoreEndOfBlock`
(no EOFB/RTC, termination by `/Rows`; the reader's look-ahead runs beyond the end of the data, so
`Rd.clean` does not hold at the last rows; `regress_noeob` evaluates one such stream). -/
def provedClass (f : FCCITT) : Prop := f.ignoreEOB = false

/-- **`ccitt_rt_statement` for every filter value with the end-of-block pattern** -/
theorem ccitt_rt_supported_partial : ccitt_rt_supported_statement provedClass := by
  intro f rows hv hadm hrows hig
  by_cases hk0 : f.k ≤ 0
  · exact C06fbE.ccitt_rt_supported_partial f rows hv hadm hrows ⟨hig, hk0⟩
  · have hcols : 0 < f.encParams.columns := by
      unfold FCCITT.validate at hv
      show 0 < f.cols.toNat
      unfold FCCITT.cols
      split at hv
      · simp at hv
      · rename_i h1
        split <;> omega
    obtain ⟨hadm1, hadm2⟩ := hadm
    have hM : f.decodeMaxRows.toNat = 0 ∨ rows.length ≤ f.decodeMaxRows.toNat := by right; omega
    show decodeAll { f.encParams with maxRows := f.decodeMaxRows.toNat } _ = _
    exact ccitt_kpos_stream_rt f.encParams _ rows (by show f.k > 0; omega) hig hcols hadm1 hadm2 hM

-- non-vacuity: K = 2 with EOL codes and fill bits, three rows (1-D, 2-D, 1-D)
example : (⟨2, true, true, 10, 0, false, false, 0⟩ : FCCITT).validate = true ∧
    ccittAdmissible (⟨2, true, true, 10, 0, false, false, 0⟩ : FCCITT).encParams [[0xAA, 0x80], [0xFF, 0xC0], [0x0F, 0x00]] ∧
    provedClass ⟨2, true, true, 10, 0, false, false, 0⟩ := by
  refine ⟨by decide, by decide, rfl⟩
example : decodeAll (⟨2, true, true, 10, 0, false, false, 0⟩ : FCCITT).decParams
    (encodeAll (⟨2, true, true, 10, 0, false, false, 0⟩ : FCCITT).encParams [0xAA, 0x80, 0xFF, 0xC0, 0x0F, 0x00]).1 =
      ([0xAA, 0x80, 0xFF, 0xC0, 0x0F, 0x00], 1) := by decide +kernel
example : decodeAll (⟨4, false, false, 10, 0, false, true, 0⟩ : FCCITT).decParams
    (encodeAll (⟨4, false, false, 10, 0, false, true, 0⟩ : FCCITT).encParams [0xAA, 0x80, 0xFF, 0xC0, 0x0F, 0x00]).1 =
      ([0xAA, 0x80, 0xFF, 0xC0, 0x0F, 0x00], 1) := by decide +kernel

end PdfVerif.C06fbK

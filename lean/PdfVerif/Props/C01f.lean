import PdfVerif.Props.C01d
/-!
# C01 (part f) — the documented array limit alone suffices (former finding C01-F1, fixed)

Before the fix "scanner accepts an array of exactly maxArrayLen elements ending in a reference"
`ReadArray` applied its cap while a trailing reference was still two integers, and the sequence
statement with `xs.length ≤ maxArrayLen` as its only length hypothesis was false (this file then
held `seq_rt_full_false`).  `ReadArray` now allows one transient extra element and enforces the cap
at `]`; the model mirrors it, `good` asks for `xs.length ≤ maxArrayLen` only, and the
full-strength statement is a theorem.  The former counter-example is kept as a regression theorem
(`cap_witness_reads`): it holds for every value of the generated constant `maxArrayLen ≥ 1` and
breaks if the model's cap rule is reverted; the harness replays the same array on the real code on
every run (oracle `roundtrip-maxlen`, class key `array-maxlen-trailing-ref`).
-/
namespace PdfVerif.C01f
open PdfVerif PdfVerif.C01b PdfVerif.C01L PdfVerif.C01d

/-- the full-strength sequence statement: the documented array limit is the only length hypothesis -/
def seq_rt_full : Prop :=
  ∀ (opt : FmtOpt) (xs : List Obj), goodList xs = true → xs.length ≤ Gen.scanner_maxArrayLen →
    depthList xs < Gen.scanner_maxScannerNestDepth → ∀ rest : Bytes,
    ∃ body r, format opt xs = some body ∧
      parseObject (91 :: (body ++ 93 :: rest)) = .ok (.arr r, rest) ∧ nrmList r = nrmList xs

/-- **The documented array limit alone gives the round trip.** -/
theorem seq_rt_full_holds : seq_rt_full :=
  fun opt xs hg hlen hd rest => seq_rt opt xs hg hlen hd rest

/-- the former counter-example: `m` integers followed by one reference -/
def witness (m : Nat) : List Obj := List.replicate m (.int 7) ++ [.ref 5 0]

theorem witness_succ (m : Nat) : witness (m + 1) = .int 7 :: witness m := by
  simp [witness, List.replicate_succ]

theorem witness_good (m : Nat) : goodList (witness m) = true := by
  induction m with
  | zero => decide
  | succ m ih => rw [witness_succ]; simp only [goodList, ih, Bool.and_true]; decide

theorem witness_flat (m : Nat) : ∀ x ∈ witness m, C01c.isFlat x = true := by
  intro x hx
  simp [witness] at hx
  rcases hx with ⟨_, rfl⟩ | rfl <;> decide

theorem cap_pos : 1 ≤ Gen.scanner_maxArrayLen := by decide

/-- **Regression theorem for C01-F1**: the array of exactly `maxArrayLen` elements ending in a
reference — rejected by `ReadArray` before the fix — is read back, under either value of
`OptPretty`. -/
theorem cap_witness_reads (opt : FmtOpt) (rest : Bytes) :
    (witness (Gen.scanner_maxArrayLen - 1)).length = Gen.scanner_maxArrayLen ∧
    ∃ body, format opt (witness (Gen.scanner_maxArrayLen - 1)) = some body ∧
      parseObject (91 :: (body ++ 93 :: rest))
        = .ok (.arr (rdList (witness (Gen.scanner_maxArrayLen - 1))), rest) := by
  have hpos := cap_pos
  have hlen : (witness (Gen.scanner_maxArrayLen - 1)).length = Gen.scanner_maxArrayLen := by
    simp [witness]; omega
  refine ⟨hlen, ?_⟩
  obtain ⟨body, hb⟩ := C01c.format_flat_some opt _ (witness_flat _) (witness_good _)
  exact ⟨body, hb, C01c.flat_array_rt opt _ (witness_flat _) (witness_good _) (by omega) body hb rest⟩

-- non-vacuity of the shape of the witness
example : witness 2 = [.int 7, .int 7, .ref 5 0] := rfl

end PdfVerif.C01f

import PdfVerif.Model.Scan
import PdfVerif.Lemmas.TRGo
import PdfVerif.Generated.FnPdf
/-!
# C01 (translator part): facts about the Lean code GENERATED from scanner.go / types.go

`Gen.pdf_hexDigit`, `Gen.pdf_Name_isSecondClassName`, `Gen.pdf_Name_isThirdClassName` are
re-created from the Go sources by `tools/extract` on every run, so these proofs are re-run
whenever the source changes; the C01 harness run `TR` compares the generated functions with the
real ones.
-/
namespace PdfVerif.C01tr
open PdfVerif PdfVerif.Gen PdfVerif.Go

/-- the hand model's `hexVal` (used by all C01 theorems) is the generated `hexDigit`, with
`none` ↦ 255, on every byte -/
theorem hexDigit_eq_hexVal : ∀ c, c < 256 →
    (pdf_hexDigit (UInt8.ofNat c)).toNat = (hexVal c).getD 255 := by decide +kernel

/-- `hexDigit` never returns a value in 16..254: either a digit value or the marker 255 -/
theorem hexDigit_range : ∀ c, c < 256 →
    (pdf_hexDigit (UInt8.ofNat c)).toNat < 16 ∨ pdf_hexDigit (UInt8.ofNat c) = 255 := by decide +kernel

/-- the generated `hexDigit` inverts the formatter's digit function `hexLower` (types.go writes
`#xx` and `<…>` with these digits) -/
theorem hexDigit_hexLower : ∀ v, v < 16 → (pdf_hexDigit (UInt8.ofNat (hexLower v))).toNat = v := by
  decide +kernel

/-- … and the upper-case digits -/
theorem hexDigit_upper : ∀ v, v < 16 →
    (pdf_hexDigit (UInt8.ofNat (if v < 10 then 48 + v else 55 + v))).toNat = v := by decide +kernel

/-- both nibbles of every byte survive `hexLower` then `hexDigit` -/
theorem hexDigit_byte_rt : ∀ c, c < 256 →
    (pdf_hexDigit (UInt8.ofNat (hexLower (c / 16)))).toNat * 16 +
      (pdf_hexDigit (UInt8.ofNat (hexLower (c % 16)))).toNat = c := by decide +kernel

example : (pdf_hexDigit 70).toNat = 15 ∧ pdf_hexDigit 71 = 255 := by decide +kernel

/-! ## name classes (types.go) -/

/-- `isThirdClassName` never panics and says exactly "the first two bytes are XX" -/
theorem isThirdClassName_spec (x : List UInt8) :
    pdf_Name_isThirdClassName x = some (decide (x.take 2 = [88, 88])) := by
  unfold pdf_Name_isThirdClassName
  match x with
  | [] => simp [Go.len, Go.idx]
  | [a] => simp [Go.len, Go.idx]
  | a :: b :: rest =>
    have h : ∀ a b : UInt8, 2 ≤ Go.len (a :: b :: rest) := by intro a b; simp [Go.len]; omega
    by_cases ha : a = 88 <;> by_cases hb : b = 88 <;> simp [h, Go.idx, ha, hb]

/-- `isSecondClassName`: never panics; true iff one of the first five bytes is `:` or `_` -/
theorem isSecondClassName_spec (x : List UInt8) :
    pdf_Name_isSecondClassName x = some ((x.take 5).any fun c => c == 58 || c == 95) := by
  unfold pdf_Name_isSecondClassName
  simp only [pure, bind]
  have hs : slice x 0 (min (len x) 5) = some (x.take 5) := by
    rw [slice_zero _ _ (by unfold len; omega) (by unfold len; omega)]
    congr 1
    unfold len
    by_cases h : x.length ≤ 5
    · have : (min (x.length : Int) 5).toNat = x.length := by omega
      rw [this, List.take_of_length_le h, List.take_of_length_le (Nat.le_refl _)]
    · have : (min (x.length : Int) 5).toNat = 5 := by omega
      rw [this]
  rw [hs]
  simp only [Option.bind_some]
  rw [forIn_option_search (x.take 5) (fun _ => True) _ (fun c => c == 58 || c == 95) (none, ()) (some true, ())
    (fun k _ => rfl) (fun _ _ => trivial)]
  cases ((x.take 5).any fun c => c == 58 || c == 95) <;> simp

example : pdf_Name_isSecondClassName [65, 66, 67, 68, 69, 58] = some false ∧
    pdf_Name_isSecondClassName [65, 95] = some true := by decide +kernel

example : pdf_Name_isThirdClassName [88, 88, 65] = some true := by decide +kernel

/-! ## references (types.go) -/

theorem ref_value (n : UInt32) (g : UInt16) :
    (n.toUInt64 ||| shl64 g.toUInt64 32).toNat = n.toNat + g.toNat * 4294967296 := by
  rw [UInt64.toNat_or]
  have hg := g.toNat_lt
  have hn := n.toNat_lt
  have e1 : (shl64 g.toUInt64 32).toNat = g.toNat <<< 32 := by
    unfold shl64
    simp [UInt64.toNat_shiftLeft, Nat.shiftLeft_eq]
    omega
  have e2 : n.toUInt64.toNat = n.toNat := by simp
  rw [e1, e2, Nat.or_comm, ← Nat.shiftLeft_add_eq_or_of_lt (by omega : n.toNat < 2 ^ 32), Nat.shiftLeft_eq]
  omega

/-- **ref_rt**: a reference built from an object number below 2²⁴ (`maxXRefSize`) and any
generation gives back exactly these two numbers; larger object numbers make `NewReference` panic -/
theorem ref_rt (n : UInt32) (g : UInt16) :
    (n.toNat < 16777216 → ∃ r, pdf_NewReference n g = some r ∧
      pdf_Reference_Number r = n ∧ pdf_Reference_Generation r = g) ∧
    (16777216 ≤ n.toNat → pdf_NewReference n g = none) := by
  unfold pdf_NewReference
  simp only [pure, bind]
  have hc : (n ≥ 16777216) ↔ 16777216 ≤ n.toNat := by
    rw [ge_iff_le, UInt32.le_iff_toNat_le]; rfl
  constructor
  · intro h
    have : ¬ (n ≥ 16777216) := by rw [hc]; omega
    refine ⟨n.toUInt64 ||| shl64 g.toUInt64 32, by simp [this], ?_, ?_⟩
    · unfold pdf_Reference_Number
      simp only [Id.run, pure]
      apply UInt32.toNat_inj.mp
      rw [UInt64.toNat_toUInt32, ref_value]
      have := n.toNat_lt
      omega
    · unfold pdf_Reference_Generation
      simp only [Id.run, pure]
      apply UInt16.toNat_inj.mp
      have hs : (shr64 (n.toUInt64 ||| shl64 g.toUInt64 32) 32).toNat = (n.toNat + g.toNat * 4294967296) / 4294967296 := by
        unfold shr64
        simp only [ge_iff_le, Nat.reduceLeDiff, if_false]
        rw [UInt64.toNat_shiftRight, ref_value]
        simp [Nat.shiftRight_eq_div_pow]
      rw [UInt64.toNat_toUInt16, hs]
      have := n.toNat_lt
      have := g.toNat_lt
      omega
  · intro h
    have : (n ≥ 16777216) := by rw [hc]; omega
    simp [this, Go.panic]

example : pdf_NewReference 5 2 = some 8589934597 ∧ pdf_NewReference 16777216 0 = none := by decide +kernel

end PdfVerif.C01tr

import PdfVerif.Model.HISReader
import PdfVerif.Props.C04his
/-!
# C04 (part 4) — the byte-level decoders implement "first entry wins"

`first_wins_eq_last_wins` (part 1) is about `fillSection`/`fillAll` on decoded entries.  This file
connects the byte-level decoders of `Model/HISReader.lean` to them:

* `decodeXRefStream` **is** `fillSection` of the entries the stream data encodes
  (`decodeXRefStream_fill`, for every `/W`, `/Index` and data);
* `decodeXRefSection` never rebinds a number, provided the off-by-one repair cannot trigger
  (`first ≠ 1`) — and a concrete table shows that it does rebind when the repair triggers
  (discrepancy 2 of `notes/C04.md`).
-/
namespace PdfVerif.C04hisd
open PdfVerif PdfVerif.HIS PdfVerif.C04his

theorem fillSection_append {β} (a : List (Nat × β)) : ∀ (m : List (Nat × β)) (b : List (Nat × β)),
    fillSection m (a ++ b) = fillSection (fillSection m a) b := by
  induction a with
  | nil => intro m b; rfl
  | cons p rest ih => intro m b; obtain ⟨n, e⟩ := p; simp only [List.cons_append, fillSection, ih]

/-- the entries a subsection of `k` fields of width `wT` encodes, numbered from `cur` -/
def subEntries : Nat → Bytes → (cur wT w0 w1 w2 : Nat) → List (Nat × XEntry)
  | 0, _, _, _, _, _, _ => []
  | k+1, data, cur, wT, w0, w1, w2 =>
    if data.length < wT then [] else
    (match decodeEntry (data.take wT) w0 w1 w2 with
     | some e => [(cur, e)]
     | none => []) ++ subEntries k (data.drop wT) (cur + 1) wT w0 w1 w2

theorem subEntries_succ (k : Nat) (data : Bytes) (cur wT w0 w1 w2 : Nat) :
    subEntries (k + 1) data cur wT w0 w1 w2 =
      if data.length < wT then [] else
      (match decodeEntry (data.take wT) w0 w1 w2 with
       | some e => [(cur, e)]
       | none => []) ++ subEntries k (data.drop wT) (cur + 1) wT w0 w1 w2 := rfl

theorem xrefStreamSub_fill : ∀ (k : Nat) (m : XMap) (data : Bytes) (cur wT w0 w1 w2 : Nat) (m' : XMap) (rest : Bytes),
    xrefStreamSub k m data cur wT w0 w1 w2 = .ok (m', rest) →
      m' = fillSection m (subEntries k data cur wT w0 w1 w2) ∧ rest = data.drop (k * wT) := by
  intro k
  induction k with
  | zero => intro m data cur wT w0 w1 w2 m' rest h; simp [xrefStreamSub] at h; simp [subEntries, fillSection, h.1, h.2]
  | succ k ih =>
    intro m data cur wT w0 w1 w2 m' rest h
    unfold xrefStreamSub at h
    by_cases hl : data.length < wT
    · rw [if_pos hl] at h; split at h <;> cases h
    · rw [if_neg hl] at h
      obtain ⟨h1, h2⟩ := ih _ _ _ _ _ _ _ _ _ h
      refine ⟨?_, ?_⟩
      · rw [h1]
        rw [subEntries_succ, if_neg hl, fillSection_append]
        congr 1
        unfold xrefStreamEntry
        cases decodeEntry (data.take wT) w0 w1 w2 <;> simp [fillSection]
      · rw [h2, List.drop_drop]; congr 1; rw [Nat.add_mul]; omega

/-- all entries of a cross-reference stream with subsections `ss` -/
def streamEntries (data : Bytes) (w0 w1 w2 : Nat) : List (Nat × Nat) → List (Nat × XEntry)
  | [] => []
  | (start, size) :: ss =>
    subEntries size data start (w0 + w1 + w2) w0 w1 w2 ++ streamEntries (data.drop (size * (w0 + w1 + w2))) w0 w1 w2 ss

/-- **The stream decoder is `fillSection`.**  For every map `m`, data, widths and subsection
list: if `decodeXRefStream` succeeds, the new map is exactly `m` filled — first entry wins —
with the entries the data encodes, in file order. -/
theorem decodeXRefStream_fill (w0 w1 w2 : Nat) : ∀ (ss : List (Nat × Nat)) (m : XMap) (data : Bytes) (m' : XMap),
    decodeXRefStream m data w0 w1 w2 ss = .ok m' → m' = fillSection m (streamEntries data w0 w1 w2 ss) := by
  intro ss
  induction ss with
  | nil => intro m data m' h; simp [decodeXRefStream] at h; simp [streamEntries, fillSection, h]
  | cons p ss ih =>
    intro m data m' h
    obtain ⟨start, size⟩ := p
    unfold decodeXRefStream at h
    split at h
    · cases h
    · rename_i m1 data1 hsub
      obtain ⟨h1, h2⟩ := xrefStreamSub_fill _ _ _ _ _ _ _ _ _ _ hsub
      have := ih _ _ _ h
      rw [this, h1, h2]
      simp only [streamEntries, fillSection_append]

/-- consequence: a binding that exists before a cross-reference stream is decoded survives it -/
theorem stream_decoder_first_wins (w0 w1 w2 : Nat) (ss : List (Nat × Nat)) (m : XMap) (data : Bytes) (m' : XMap)
    (h : decodeXRefStream m data w0 w1 w2 ss = .ok m') (k : Nat) (e : XEntry) (hk : m.lookup k = some e) :
    m'.lookup k = some e := by
  rw [decodeXRefStream_fill w0 w1 w2 ss m data m' h, lookup_fillSection, hk]

-- non-vacuity: /W [1 1 1], /Index [3 2]: object 3 in use at 16, object 4 free; 3 was bound before
example : (match decodeXRefStream [(3, ⟨99, 0, 0⟩)] [1, 16, 0, 0, 0, 1] 1 1 1 [(3, 2)] with
    | .ok m => m == [(4, ⟨-1, 1, 0⟩), (3, ⟨99, 0, 0⟩)]
    | _ => false) = true := by decide +kernel

/-! ## classic tables -/

theorem lookup_setEntry_ne {β} (m : List (Nat × β)) (n k : Nat) (e : β) (h : k ≠ n) :
    (setEntry m n e).lookup k = m.lookup k := by
  have : (k == n) = false := by simpa using h
  simp [setEntry, List.lookup_cons, this]

/-- **The table decoder never rebinds a number** when the off-by-one repair cannot trigger
(the subsection does not start at object 1).  For every input, map and subsection. -/
theorem table_decoder_first_wins : ∀ (n : Nat) (m : XMap) (inp : Bytes) (first cur end_ : Nat) (m' : XMap) (rest : Bytes),
    first ≠ 1 → decodeXRefSection n m inp first cur end_ 0 = .ok (m', rest) →
    ∀ k e, m.lookup k = some e → m'.lookup k = some e := by
  intro n
  induction n with
  | zero => intro m inp first cur end_ m' rest _ h k e hk; simp [decodeXRefSection] at h; rw [← h.1]; exact hk
  | succ n ih =>
    intro m inp first cur end_ m' rest hf h k e hk
    unfold decodeXRefSection at h
    by_cases hc : cur ≥ end_
    · rw [if_pos hc] at h; cases h; exact hk
    · rw [if_neg hc] at h
      cases hl : m.lookup cur with
      | some x =>
        rw [hl] at h
        simp only at h
        split at h
        · cases h
        · exact ih _ _ _ _ _ _ _ hf h k e hk
      | none =>
        rw [hl] at h
        simp only at h
        have hne : k ≠ cur := by intro heq; subst heq; rw [hl] at hk; cases hk
        have hoff : ∀ (a : Int) (b : Nat), (if (cur == first && first == 1 && a == 0 && b == Gen.his_xref_maxGeneration) = true then 1 else 0) = 0 := by
          intro a b
          have : (first == 1) = false := by simpa using hf
          simp [this]
        split at h
        · cases h
        · split at h
          · cases h
          · split at h
            · cases h
            · rename_i a _ b c _
              simp only [hoff] at h
              split at h
              · exact ih _ _ _ _ _ _ _ hf h k e (by rw [lookup_setEntry_ne _ _ _ _ (by simpa using hne)]; exact hk)
              · split at h
                · exact ih _ _ _ _ _ _ _ hf h k e (by rw [lookup_setEntry_ne _ _ _ _ (by simpa using hne)]; exact hk)
                · cases h

/-- the repair path is different: a subsection `1 3` whose first line is the head of the free
    list makes the decoder store line `i` under number `i-1` without looking at `xref[i-1]` —
    here object 2, already bound by a newer section to offset 777, is rebound to offset 99
    (discrepancy 2 in notes/C04.md; such a table is malformed, outside C04's quantifier) -/
example :
    (match decodeXRefSection 3 [(2, ⟨777, 0, 0⟩)]
        (bytesOfString "0000000000 65535 f \n0000000016 00000 n \n0000000099 00000 n \n") 1 1 4 0 with
      | .ok (m, _) => m.lookup 2 == some ⟨99, 0, 0⟩
      | _ => false) = true := by decide +kernel

/-! ## the `/Prev` loop of the concrete reader model terminates -/

/-- the concrete step of `readXRef` only ever adds the `/XRefStm` position to `seen` -/
theorem xrefStep_seenGrows (file : Bytes) (hdr : Nat) (decodedAt : Nat → Option Bytes) :
    SeenGrows (xrefStep file hdr decodedAt) := by
  intro st seen start st' seen' nx h x hx
  unfold xrefStep at h
  split at h
  · cases h
  · simp only [] at h
    split at h
    · cases h
    · rename_i m d seen2 hres
      have hs2 : x ∈ seen2 := by
        split at hres
        · split at hres
          · cases hres
          · split at hres
            · cases hres; exact hx
            · split at hres
              · cases hres; exact hx
              · split at hres
                · cases hres
                · split at hres
                  · cases hres
                  · cases hres; exact List.mem_cons_of_mem _ hx
            · cases hres
        · split at hres
          · cases hres
          · cases hres; exact hx
      split at h
      · cases h; exact hs2
      · cases h; exact hs2
      · cases h

theorem findXRef_range (file : Bytes) (hdr start : Nat) (h : findXRef file hdr = .ok start) :
    start < file.length := by
  unfold findXRef at h
  split at h
  · cases h
  · split at h
    · cases h
    · cases h
    · split at h
      · cases h
      · rename_i x _ _ hx
        cases h
        simp only [Bool.or_eq_true, decide_eq_true_eq, not_or, Int.not_le] at hx
        omega

/-- **`readXRef` terminates on every file**: the fuel `size + 1` given to the `/Prev` loop of the
reader model is never exhausted, whatever the bytes are (cyclic, self-referential or forward
`/Prev` chains, shared or cyclic `/XRefStm`). -/
theorem readXRef_loop_terminates (file : Bytes) (hdr : Nat) (decodedAt : Nat → Option Bytes) (start : Nat)
    (h : findXRef file hdr = .ok start) :
    (prevLoop file.length hdr (xrefStep file hdr decodedAt) (file.length + 1) {} [] start).isSome = true :=
  prev_chain_terminates file.length hdr _ (xrefStep_seenGrows file hdr decodedAt) {} start
    (by omega) (by have := findXRef_range file hdr start h; omega)

end PdfVerif.C04hisd

import PdfVerif.Props.C16trsf
/-!
# C16 (seventh part) — the tree side of the page-number clause: what each writer is promised

`WInv gh fired ρ o w`: the writer `w`, whose first page has `o` pages before it in document
order when every range `r` that is still open ends up with `ρ r` pages, satisfies

* its pending callbacks are user callbacks;
* if it is open, the futureInt of its next page is promised
  `o + (sizes of its children under ρ) + (pages in its tail)` — the number of pages before that
  next page, a prefix sum over everything that precedes it;
* if it is a sub-range, its `numPagesCb` is the `Update` of a futureInt that waits for a range,
  recorded in `fired` with the range's page count exactly when the range is closed;
* the same holds for its children, each at its own offset.

The size of a sub-range under `ρ` is `ρ (its range id)` whether it is open or closed (for a
closed one `Cons fired ρ` pins it to its page count), so whatever happens inside a range does
not move its later siblings.
-/
namespace PdfVerif.C16trsg
open PdfVerif PdfVerif.TRSP PdfVerif.C16trs PdfVerif.C16trsc PdfVerif.C16trsd PdfVerif.C16trsf
set_option linter.unusedSectionVars false
set_option linter.unusedSimpArgs false

def tailLen (t : List PNode) : Int := ((pagesOf t).length : Nat)

/-- the futureInt that waits for the page count of the range `w` -/
def rangeId (w : PW) : Option Nat :=
  match w.numPagesCb with
  | [.update g] => some g
  | _ => none

/-- pages of a child under `ρ` -/
def childSize (ρ : Rho) (c : PW) : Int :=
  if c.isBefore then tailLen c.tail
  else match rangeId c with
    | some g => ρ g
    | none => 0

def childrenSize (ρ : Rho) : List PW → Int
  | [] => 0
  | c :: cs => childSize ρ c + childrenSize ρ cs

theorem childrenSize_append (ρ : Rho) (a b : List PW) :
    childrenSize ρ (a ++ b) = childrenSize ρ a + childrenSize ρ b := by
  induction a with
  | nil => simp [childrenSize]
  | cons x xs ih => simp only [List.cons_append, childrenSize, ih]; omega

mutual
/-- the futureInts of the next pages of the open writers -/
def openFuts : PW → List Nat
  | .mk isB closed children _ npn _ _ =>
    (if closed || isB then [] else npn.toList) ++ openFutsList children
def openFutsList : List PW → List Nat
  | [] => []
  | c :: cs => openFuts c ++ openFutsList cs
end

/-- the part of `WInv` about the writer itself -/
def WLocal (gh : List GFut) (fired : List (Nat × Int)) (ρ : Rho) (o : Int)
    (isB closed : Bool) (children : List PW) (tail : List PNode) (npn : Option Nat)
    (npnCb numPagesCb : List FCb) : Prop :=
  (∀ c ∈ npnCb, ∃ k, c = FCb.user k) ∧
  (closed = false → isB = false → ∃ f γ, npn = some f ∧ gh[f]? = some γ ∧
    γ.m ρ = o + childrenSize ρ children + tailLen tail) ∧
  (isB = true ∨ numPagesCb = [] ∨ ∃ g γ, numPagesCb = [.update g] ∧ gh[g]? = some γ ∧ γ.isRange = true ∧
    (closed = true → (g, tailLen tail) ∈ fired) ∧
    (closed = false → (fired.map (·.1)).contains g = false))

mutual
def WInv (gh : List GFut) (fired : List (Nat × Int)) (ρ : Rho) : Int → PW → Prop
  | o, .mk isB closed children tail npn npnCb numPagesCb =>
    WLocal gh fired ρ o isB closed children tail npn npnCb numPagesCb ∧ WInvList gh fired ρ o children
def WInvList (gh : List GFut) (fired : List (Nat × Int)) (ρ : Rho) : Int → List PW → Prop
  | _, [] => True
  | o, c :: cs => WInv gh fired ρ o c ∧ WInvList gh fired ρ (o + childSize ρ c) cs
end

theorem WInvList_append {gh : List GFut} {fired : List (Nat × Int)} {ρ : Rho} :
    ∀ (a b : List PW) (o : Int),
      WInvList gh fired ρ o (a ++ b) ↔ WInvList gh fired ρ o a ∧ WInvList gh fired ρ (o + childrenSize ρ a) b
  | [], b, o => by simp [WInvList, childrenSize]
  | c :: cs, b, o => by
    simp only [List.cons_append, WInvList, childrenSize, WInvList_append cs b]
    rw [show o + childSize ρ c + childrenSize ρ cs = o + (childSize ρ c + childrenSize ρ cs) by omega]
    exact and_assoc.symm

/-! ## the ghost list may grow or change where no open writer looks -/

mutual
theorem WInv_frame {gh gh' : List GFut} {fired : List (Nat × Int)} {ρ : Rho} (bad : List Nat)
    (hfr : ∀ (i : Nat) (γ : GFut), gh[i]? = some γ → i ∉ bad → gh'[i]? = some γ)
    (hrg : ∀ (i : Nat) (γ : GFut), gh[i]? = some γ → ∃ γ' : GFut, gh'[i]? = some γ' ∧ γ'.isRange = γ.isRange) :
    ∀ (w : PW) (o : Int), WInv gh fired ρ o w → (∀ i ∈ openFuts w, i ∉ bad) → WInv gh' fired ρ o w
  | .mk isB closed children tail npn npnCb numPagesCb, o, h, hd => by
    simp only [WInv] at h ⊢
    obtain ⟨⟨h1, h2, h3⟩, h4⟩ := h
    simp only [openFuts, List.mem_append] at hd
    refine ⟨⟨h1, ?_, ?_⟩, WInvList_frame bad hfr hrg children o h4 (fun i hi => hd i (Or.inr hi))⟩
    · intro hc hb
      obtain ⟨f, γ, hn, hg, hm⟩ := h2 hc hb
      refine ⟨f, γ, hn, hfr f γ hg (hd f (Or.inl ?_)), hm⟩
      simp [hc, hb, hn]
    · rcases h3 with h | h | ⟨g, γ, a, b, c, d, e⟩
      · exact Or.inl h
      · exact Or.inr (Or.inl h)
      · obtain ⟨γ', hg', hr'⟩ := hrg g γ b
        exact Or.inr (Or.inr ⟨g, γ', a, hg', by rw [hr']; exact c, d, e⟩)
theorem WInvList_frame {gh gh' : List GFut} {fired : List (Nat × Int)} {ρ : Rho} (bad : List Nat)
    (hfr : ∀ (i : Nat) (γ : GFut), gh[i]? = some γ → i ∉ bad → gh'[i]? = some γ)
    (hrg : ∀ (i : Nat) (γ : GFut), gh[i]? = some γ → ∃ γ' : GFut, gh'[i]? = some γ' ∧ γ'.isRange = γ.isRange) :
    ∀ (cs : List PW) (o : Int), WInvList gh fired ρ o cs → (∀ i ∈ openFutsList cs, i ∉ bad) →
      WInvList gh' fired ρ o cs
  | [], _, _, _ => by simp [WInvList]
  | c :: cs, o, h, hd => by
    simp only [WInvList] at h ⊢
    simp only [openFutsList, List.mem_append] at hd
    exact ⟨WInv_frame bad hfr hrg c o h.1 (fun i hi => hd i (Or.inl hi)),
      WInvList_frame bad hfr hrg cs _ h.2 (fun i hi => hd i (Or.inr hi))⟩
end

/-- appending to the ghost list changes nothing for the writers -/
theorem WInvList_push {gh : List GFut} {fired : List (Nat × Int)} {ρ : Rho} (γn : GFut)
    (cs : List PW) (o : Int) (h : WInvList gh fired ρ o cs) : WInvList (gh ++ [γn]) fired ρ o cs :=
  WInvList_frame (gh' := gh ++ [γn]) []
    (fun i γ hg _ => by rw [List.getElem?_append_left (lt_of_getElem? hg)]; exact hg)
    (fun i γ hg => ⟨γ, by rw [List.getElem?_append_left (lt_of_getElem? hg)]; exact hg, rfl⟩)
    cs o h (fun _ _ => by simp)

/-! ## preservation, on the writer the operation is applied to -/

/-- `NextPageNumber` on an open writer: one more pending user callback -/
theorem nextPageNumberHere_preserves {gh : List GFut} {fired : List (Nat × Int)} {ρ : Rho} {o : Int}
    {w w' : PW} {g g' : G} (k : Nat) (hw : WInv gh fired ρ o w) (hopen : w.closed = false)
    (h : nextPageNumberHere k w g = .ok (w', g')) : WInv gh fired ρ o w' ∧ g' = g := by
  obtain ⟨isB, closed, children, tail, npn, npnCb, numPagesCb⟩ := w
  simp only [PW.closed] at hopen
  subst hopen
  simp only [nextPageNumberHere, Bool.false_eq_true, if_false, Except.ok.injEq, Prod.mk.injEq] at h
  obtain ⟨rfl, rfl⟩ := h
  refine ⟨?_, rfl⟩
  simp only [WInv] at hw ⊢
  obtain ⟨⟨h1, h2, h3⟩, h4⟩ := hw
  refine ⟨⟨?_, h2, h3⟩, h4⟩
  intro c hc
  rcases List.mem_append.mp hc with hc | hc
  · exact h1 c hc
  · simp only [List.mem_singleton] at hc
    exact ⟨k, hc⟩

theorem tailLen_nil : tailLen [] = 0 := by simp [tailLen, pagesOf]

/-- **`NewRange`** on an open writer at offset `o`: the new sub-range starts where the writer's
    next page would have been and inherits that promise; the writer's own next page is now
    promised that position plus the final size `ρ gid` of the new range -/
theorem newRangeHere_preserves {futs : List Fut} {gh : List GFut} {fired : List (Nat × Int)} {ρ : Rho}
    (hheap : HeapInv futs gh [] fired ρ) (hc : Cons fired ρ) {o : Int} {w w' : PW} {g' : G}
    (hw : WInv gh fired ρ o w) (hnb : w.isBefore = false)
    (hnf : (fired.map (·.1)).contains futs.length = false) {log : List (Nat × Int)} {ctx : MCtx}
    (h : newRangeHere w { heap := { futs := futs, log := log }, ctx := ctx } = .ok (w', g')) :
    ∃ γ' L, g'.heap.log = log ++ L ∧ g'.ctx = ctx ∧ g'.heap.futs.length = futs.length + 1 ∧
      HeapInv g'.heap.futs (gh ++ [γ']) [] fired ρ ∧ WInv (gh ++ [γ']) fired ρ o w' := by
  obtain ⟨isB, closed, children, tail, npn, npnCb, numPagesCb⟩ := w
  simp only [PW.isBefore] at hnb
  subst hnb
  simp only [WInv] at hw
  obtain ⟨⟨h1, h2, h3⟩, h4⟩ := hw
  unfold newRangeHere at h
  dsimp only at h
  split at h
  · cases h
  · rename_i hcl
    have hcl' : closed = false := by simpa using hcl
    subst hcl'
    obtain ⟨f, γf, hn, hgf, hmf⟩ := h2 rfl rfl
    subst hn
    dsimp only at h
    have hflt : f < futs.length := by rw [← hheap.len]; exact lt_of_getElem? hgf
    obtain ⟨futs', L, γ', hwa, hinv', hr', hp', hm'⟩ :=
      newRange_heap_spec hheap hc (List.getElem?_eq_getElem hflt) hgf hnf log
    rw [hwa] at h
    simp only [Except.ok.injEq, Prod.mk.injEq] at h
    obtain ⟨rfl, rfl⟩ := h
    have hlen' : futs'.length = futs.length + 1 := by
      have a := hinv'.len
      have b := hheap.len
      simp at a; omega
    have hgid : (gh ++ [γ'])[futs.length]? = some γ' := by rw [← hheap.len]; simp
    have hold : ∀ (i : Nat) (γ : GFut), gh[i]? = some γ → (gh ++ [γ'])[i]? = some γ := by
      intro i γ hg
      rw [List.getElem?_append_left (lt_of_getElem? hg)]; exact hg
    refine ⟨γ', L, rfl, rfl, hlen', hinv', ?_⟩
    -- the children of the writer after the call
    have hsize1 : childrenSize ρ (if tail.length > 0 then children ++ [PW.mk true false [] tail none [] []] else children)
        = childrenSize ρ children + tailLen tail := by
      split
      · rw [childrenSize_append]; simp [childrenSize, childSize, PW.isBefore, PW.tail]
      · rename_i ht
        have : tail = [] := by
          cases tail with
          | nil => rfl
          | cons _ _ => simp at ht
        subst this
        simp [tailLen_nil]
    have hinv1 : WInvList (gh ++ [γ']) fired ρ o
        (if tail.length > 0 then children ++ [PW.mk true false [] tail none [] []] else children) := by
      split
      · rw [WInvList_append]
        refine ⟨WInvList_push γ' children o h4, ?_⟩
        simp only [WInvList, WInv, WLocal]
        refine ⟨⟨⟨?_, ?_, Or.inl trivial⟩, trivial⟩, trivial⟩
        · intro c hc; cases hc
        · intro _ hb; cases hb
      · exact WInvList_push γ' children o h4
    simp only [WInv]
    refine ⟨⟨h1, ?_, ?_⟩, ?_⟩
    · intro _ _
      refine ⟨futs.length, γ', rfl, hgid, ?_⟩
      have hs : childrenSize ρ [PW.mk false false [] [] (some f) [] [FCb.update futs.length]] = ρ futs.length := by
        simp [childrenSize, childSize, PW.isBefore, rangeId, PW.numPagesCb]
      rw [hm', hmf, childrenSize_append, hsize1, hs, tailLen_nil]
      omega
    · rcases h3 with hb | hb | ⟨g, γ, a, b, c, d, e⟩
      · cases hb
      · exact Or.inr (Or.inl hb)
      · have e' := e rfl
        exact Or.inr (Or.inr ⟨g, γ, a, hold g γ b, c, (fun hcl => by cases hcl), (fun _ => e')⟩)
    · rw [WInvList_append]
      refine ⟨hinv1, ?_⟩
      simp only [WInvList, WInv, WLocal]
      refine ⟨⟨⟨?_, ?_, ?_⟩, trivial⟩, trivial⟩
      · intro c hc; cases hc
      · intro _ _
        refine ⟨f, γf, rfl, hold f γf hgf, ?_⟩
        rw [hmf, hsize1, tailLen_nil]
        simp only [childrenSize]
        omega
      · exact Or.inr (Or.inr ⟨futs.length, γ', rfl, hgid, hr', (fun hcl => by cases hcl), (fun _ => hnf)⟩)

/-- `Inc`, with what it does to the ghost list: either the promise of `f` itself grows by one
    (nobody waits at `f`), or a new futureInt is appended; no user callback fires -/
theorem incFut_spec2 {futs : List Fut} {gh : List GFut} {fired : List (Nat × Int)} {ρ : Rho}
    (hinv : HeapInv futs gh [] fired ρ) (hc : Cons fired ρ) {f : Nat} {x : Fut} {γf : GFut}
    (hf : futs[f]? = some x) (hγ : gh[f]? = some γf) (log : List (Nat × Int)) :
    ∃ f' futs' gh' γ', incFut f { futs := futs, log := log } = .ok (f', { futs := futs', log := log }) ∧
      HeapInv futs' gh' [] fired ρ ∧ gh'[f']? = some γ' ∧ γ'.m ρ = γf.m ρ + 1 ∧
      ((f' = f ∧ gh' = gh.set f { γf with m := fun ρ => γf.m ρ + 1 }) ∨ (gh' = gh ++ [γ'])) := by
  by_cases hemp : x.cb = []
  · refine ⟨f, _, _, _, ?_, heapInv_inc_inplace hinv hf hγ hemp, List.getElem?_set_self (lt_of_getElem? hγ), rfl,
      Or.inl ⟨rfl, rfl⟩⟩
    simp [incFut, hf, hemp]
  · have hne : x.cb.isEmpty = false := by
      cases hcb : x.cb with
      | nil => exact absurd hcb hemp
      | cons _ _ => rfl
    have hnm : x.numMissing ≠ 0 := fun h0 => hemp ((hinv.ok f x γf hf hγ).res h0)
    obtain ⟨futs', L, hw, hi, _, hL, _⟩ := derive_spec hinv hc hf hγ 1 (by decide) false (by simp) log
    obtain ⟨hL0, _⟩ := hL hnm
    subst hL0
    have hd : derivedF 1 false = { val := 1, numMissing := 1, cb := [] } := by simp [derivedF, b2i]
    rw [hd] at hw
    simp only [List.append_nil] at hw
    refine ⟨futs.length, futs', gh ++ [derivedG γf f futs.length 1 false], derivedG γf f futs.length 1 false,
      ?_, hi, by rw [← hinv.len]; simp, ?_, Or.inr rfl⟩
    · simp only [incFut, hf, hne, Bool.false_eq_true, if_false, hw]
    · simp [derivedG]; omega

theorem users_eq_map : ∀ (l : List FCb), (∀ c ∈ l, ∃ k, c = FCb.user k) → l = (usersOf l).map FCb.user
  | [], _ => by simp [usersOf]
  | c :: cs, h => by
    obtain ⟨k, rfl⟩ := h c (by simp)
    have ih := users_eq_map cs (fun c hc => h c (by simp [hc]))
    simp only [usersOf, List.filterMap_cons, List.map_cons]
    rw [← usersOf, ← ih]

theorem tailLen_snoc_page (tail : List PNode) (id : Nat) (a : Attrs) :
    tailLen (tail ++ [{ tree := .page id none a, count := 1, depth := 0 }]) = tailLen tail + 1 := by
  simp [tailLen, pagesOf_append, pagesOf, effPages]

/-- **`AppendPage*`** on an open writer at offset `o`: the pending callbacks are handed to the
    futureInt of the page being appended, whose promise is the number of pages before that page
    (`o` + sizes of the children + pages already in the tail): they are logged with exactly that
    value, or wait for it; the futureInt of the NEXT page is promised one more.  `hdist`: no
    open writer below shares the writer's futureInt. -/
theorem appendHere_preserves {futs : List Fut} {gh : List GFut} {fired : List (Nat × Int)} {ρ : Rho}
    (hheap : HeapInv futs gh [] fired ρ) (hc : Cons fired ρ) {o : Int} {w w' : PW} {g' : G}
    (hw : WInv gh fired ρ o w) (hnb : w.isBefore = false)
    (hdist : ∀ i ∈ openFutsList w.children, w.npn ≠ some i)
    {id : Nat} {a : Attrs} {log : List (Nat × Int)} {ctx : MCtx}
    (h : appendHere id a w { heap := { futs := futs, log := log }, ctx := ctx } = .ok (w', g')) :
    ∃ gh' L, g'.heap.log = log ++ L ∧ HeapInv g'.heap.futs gh' [] fired ρ ∧ WInv gh' fired ρ o w' ∧
      (L = [] ∨ L = (usersOf w.npnCb).map fun k => (k, o + childrenSize ρ w.children + tailLen w.tail)) := by
  obtain ⟨isB, closed, children, tail, npn, npnCb, numPagesCb⟩ := w
  simp only [PW.isBefore] at hnb
  subst hnb
  simp only [PW.children, PW.npn] at hdist
  simp only [WInv] at hw
  obtain ⟨⟨h1, h2, h3⟩, h4⟩ := hw
  unfold appendHere at h
  dsimp only at h
  split at h
  · cases h
  · rename_i hcl
    have hcl' : closed = false := by simpa using hcl
    subst hcl'
    obtain ⟨f, γf, hn, hgf, hmf⟩ := h2 rfl rfl
    subst hn
    dsimp only at h
    have hflt : f < futs.length := by rw [← hheap.len]; exact lt_of_getElem? hgf
    have hfx := List.getElem?_eq_getElem hflt
    -- the pending callbacks go to `f`
    obtain ⟨futs1, L, hwa, hinv1, hcase⟩ := whenAvailableAll_users hgf (usersOf npnCb) futs futs[f] log hheap hfx
    rw [← users_eq_map npnCb h1] at hwa
    rw [hwa] at h
    dsimp only at h
    have hf1 : ∃ x1, futs1[f]? = some x1 := by
      have : f < futs1.length := by
        rcases hcase with ⟨_, e, _⟩ | ⟨_, _, e⟩
        · rw [e]; exact hflt
        · rw [e]; simpa using hflt
      exact ⟨_, List.getElem?_eq_getElem this⟩
    obtain ⟨x1, hx1⟩ := hf1
    obtain ⟨f', futs2, gh', γ', hinc, hinv2, hg', hm', hgh⟩ := incFut_spec2 hinv1 hc hx1 hgf (log ++ L)
    rw [hinc] at h
    dsimp only at h
    split at h
    · cases h
    · rename_i tail2 ctx2 hl
      split at h
      · simp only [Except.ok.injEq, Prod.mk.injEq] at h
        obtain ⟨rfl, rfl⟩ := h
        obtain ⟨hsame, _⟩ := appendLoop_same _ _ _ _ _ hl
        have htl : tailLen tail2 = tailLen tail + 1 := by
          rw [← tailLen_snoc_page tail id a]
          simp only [tailLen, hsame.pages]
        refine ⟨gh', L, rfl, hinv2, ?_, ?_⟩
        · -- the writer after the call
          have hfr : ∀ (i : Nat) (γ : GFut), gh[i]? = some γ → i ∉ [f] → gh'[i]? = some γ := by
            intro i γ hg hi
            rcases hgh with ⟨_, e⟩ | e
            · rw [e, List.getElem?_set_ne (by simpa [eq_comm] using hi)]; exact hg
            · rw [e, List.getElem?_append_left (lt_of_getElem? hg)]; exact hg
          have hrg : ∀ (i : Nat) (γ : GFut), gh[i]? = some γ → ∃ γ'' : GFut, gh'[i]? = some γ'' ∧ γ''.isRange = γ.isRange := by
            intro i γ hg
            rcases hgh with ⟨_, e⟩ | e
            · by_cases hif : i = f
              · subst hif
                rw [hgf] at hg; cases hg
                exact ⟨{ γf with m := fun ρ => γf.m ρ + 1 }, by rw [e]; exact List.getElem?_set_self (lt_of_getElem? hgf), rfl⟩
              · exact ⟨γ, by rw [e, List.getElem?_set_ne (Ne.symm hif)]; exact hg, rfl⟩
            · exact ⟨γ, by rw [e, List.getElem?_append_left (lt_of_getElem? hg)]; exact hg, rfl⟩
          simp only [WInv]
          refine ⟨⟨(by intro c hc; cases hc), ?_, ?_⟩, ?_⟩
          · intro _ _
            exact ⟨f', γ', rfl, hg', by rw [hm', hmf, htl]; omega⟩
          · rcases h3 with hb | hb | ⟨g, γ, a1, b1, c1, d1, e1⟩
            · cases hb
            · exact Or.inr (Or.inl hb)
            · obtain ⟨γ'', hg'', hr''⟩ := hrg g γ b1
              exact Or.inr (Or.inr ⟨g, γ'', a1, hg'', by rw [hr'']; exact c1, (fun hcl => by cases hcl), e1⟩)
          · exact WInvList_frame [f] hfr hrg children o h4 (fun i hi => by
              simp only [List.mem_singleton]
              intro hif
              exact hdist i hi (by rw [hif]))
        · rcases hcase with ⟨_, _, e⟩ | ⟨_, e, _⟩
          · right
            rw [e, hmf]
            simp [PW.npnCb, PW.children, PW.tail]
          · exact Or.inl e
      · cases h

/-! ## from the writer to the tree: operations addressed by a path -/

/-- one child is replaced by a child of the same size that satisfies the invariant for the new
    ghost list; its siblings do not look at the changed entries -/
theorem WInvList_set {gh gh' : List GFut} {fired : List (Nat × Int)} {ρ : Rho} (bad : List Nat)
    (hfr : ∀ (i : Nat) (γ : GFut), gh[i]? = some γ → i ∉ bad → gh'[i]? = some γ)
    (hrg : ∀ (i : Nat) (γ : GFut), gh[i]? = some γ → ∃ γ' : GFut, gh'[i]? = some γ' ∧ γ'.isRange = γ.isRange)
    {c c' : PW} (hsize : childSize ρ c' = childSize ρ c)
    (hc : ∀ o', WInv gh fired ρ o' c → WInv gh' fired ρ o' c') :
    ∀ (cs : List PW) (j : Nat) (o : Int), cs[j]? = some c → WInvList gh fired ρ o cs →
      (∀ i ∈ openFutsList (cs.take j) ++ openFutsList (cs.drop (j + 1)), i ∉ bad) →
      WInvList gh' fired ρ o (cs.set j c') ∧ childrenSize ρ (cs.set j c') = childrenSize ρ cs
  | [], j, o, hj, _, _ => by simp at hj
  | x :: rest, 0, o, hj, h, hd => by
    simp only [List.getElem?_cons_zero, Option.some.injEq] at hj
    subst hj
    simp only [WInvList] at h
    simp only [List.set_cons_zero, WInvList, childrenSize, hsize]
    refine ⟨⟨hc o h.1, ?_⟩, trivial⟩
    exact WInvList_frame bad hfr hrg rest _ h.2 (fun i hi => hd i (by simp [openFutsList, hi]))
  | x :: rest, j + 1, o, hj, h, hd => by
    simp only [List.getElem?_cons_succ] at hj
    simp only [WInvList] at h
    have hd' : ∀ i ∈ openFutsList (rest.take j) ++ openFutsList (rest.drop (j + 1)), i ∉ bad := by
      intro i hi
      apply hd i
      simp only [List.take_succ_cons, List.drop_succ_cons, openFutsList, List.mem_append] at hi ⊢
      rcases hi with hi | hi
      · exact Or.inl (Or.inr hi)
      · exact Or.inr hi
    obtain ⟨ih1, ih2⟩ := WInvList_set bad hfr hrg hsize hc rest j (o + childSize ρ x) hj h.2 hd'
    simp only [List.set_cons_succ, WInvList, childrenSize, ih2]
    refine ⟨⟨?_, ih1⟩, trivial⟩
    exact WInv_frame bad hfr hrg x o h.1 (fun i hi => hd i (by
      simp only [List.take_succ_cons, openFutsList, List.mem_append]
      exact Or.inl (Or.inl hi)))

/-- the futureInts of the open writers that are NOT in the subtree addressed by `path` -/
def outsideFuts : List Nat → PW → List Nat
  | [], _ => []
  | i :: rest, .mk isB closed children _ npn _ _ =>
    (if closed || isB then [] else npn.toList) ++
      match subIndex children i with
      | none => []
      | some j =>
        match children[j]? with
        | none => []
        | some c => openFutsList (children.take j) ++ outsideFuts rest c ++ openFutsList (children.drop (j + 1))

/-- **an operation addressed by a path**: if, on the writer it reaches, the operation keeps the
    invariant (for the ghost list `gh'` after it) and the writer's size as a child, and no open
    writer outside that subtree looks at a changed ghost entry, then the whole tree keeps it -/
theorem updateAt_preserves {gh gh' : List GFut} {fired : List (Nat × Int)} {ρ : Rho} (bad : List Nat)
    (hfr : ∀ (i : Nat) (γ : GFut), gh[i]? = some γ → i ∉ bad → gh'[i]? = some γ)
    (hrg : ∀ (i : Nat) (γ : GFut), gh[i]? = some γ → ∃ γ' : GFut, gh'[i]? = some γ' ∧ γ'.isRange = γ.isRange)
    (F : PW → G → Except PErr (PW × G)) (g g' : G)
    (hloc : ∀ (o : Int) (wt wt' : PW), F wt g = .ok (wt', g') → WInv gh fired ρ o wt →
      WInv gh' fired ρ o wt' ∧ childSize ρ wt' = childSize ρ wt) :
    ∀ (path : List Nat) (w w' : PW) (o : Int), PW.updateAt F path w g = .ok (w', g') →
      WInv gh fired ρ o w → (∀ i ∈ outsideFuts path w, i ∉ bad) →
      WInv gh' fired ρ o w' ∧ childSize ρ w' = childSize ρ w
  | [], w, w', o, h, hw, _ => by
    simp only [PW.updateAt] at h
    exact hloc o w w' h hw
  | i :: rest, .mk isB closed children tail npn npnCb numPagesCb, w', o, h, hw, hd => by
    simp only [PW.updateAt] at h
    split at h
    · cases h
    · rename_i j hj
      split at h
      · cases h
      · rename_i child hch
        split at h
        · cases h
        · rename_i child' g'' hu
          simp only [Except.ok.injEq, Prod.mk.injEq] at h
          obtain ⟨rfl, rfl⟩ := h
          simp only [outsideFuts, hj, hch, List.mem_append] at hd
          simp only [WInv] at hw ⊢
          obtain ⟨⟨h1, h2, h3⟩, h4⟩ := hw
          have hchild : ∀ o', WInv gh fired ρ o' child → WInv gh' fired ρ o' child' := fun o' hc' =>
            (updateAt_preserves bad hfr hrg F g g'' hloc rest child child' o' hu hc'
              (fun x hx => hd x (Or.inr (Or.inl (Or.inr hx))))).1
          -- the size of the child: its `isBefore` and `numPagesCb` decide it; use any offset
          have hsz : childSize ρ child' = childSize ρ child := by
            -- the child satisfies the invariant at its own offset
            have : ∃ o', WInv gh fired ρ o' child := by
              have hsplit : children = children.take j ++ child :: children.drop (j + 1) := by
                have hjl := lt_of_getElem? hch
                have : children[j] = child := by
                  rw [List.getElem?_eq_getElem hjl] at hch; simpa using hch
                rw [← this]; simp
              rw [hsplit, WInvList_append] at h4
              simp only [WInvList] at h4
              exact ⟨_, h4.2.1⟩
            obtain ⟨o', ho'⟩ := this
            exact (updateAt_preserves bad hfr hrg F g g'' hloc rest child child' o' hu ho'
              (fun x hx => hd x (Or.inr (Or.inl (Or.inr hx))))).2
          obtain ⟨hl1, hl2⟩ := WInvList_set bad hfr hrg hsz hchild children j o hch h4
            (fun x hx => by
              rcases List.mem_append.mp hx with hx | hx
              · exact hd x (Or.inr (Or.inl (Or.inl hx)))
              · exact hd x (Or.inr (Or.inr hx)))
          refine ⟨⟨⟨h1, ?_, ?_⟩, hl1⟩, ?_⟩
          · intro hc hb
            obtain ⟨f, γ, hn, hg, hm⟩ := h2 hc hb
            refine ⟨f, γ, hn, hfr f γ hg (hd f (Or.inl ?_)), by rw [hl2]; exact hm⟩
            simp [hc, hb, hn]
          · rcases h3 with hb | hb | ⟨g0, γ, a, b, c, d, e⟩
            · exact Or.inl hb
            · exact Or.inr (Or.inl hb)
            · obtain ⟨γ', hg', hr'⟩ := hrg g0 γ b
              exact Or.inr (Or.inr ⟨g0, γ', a, hg', by rw [hr']; exact c, d, e⟩)
          · rfl

/-! ## the initial state, and one complete operation -/

theorem WInv_init (old : Bool) (hints : List Hint) (ρ : Rho) :
    WInv [{ m := fun _ => 0, pred := none, isRange := false }] [] ρ 0 (PState.init old hints).root := by
  simp only [PState.init, WInv, WLocal, WInvList, and_true]
  refine ⟨(by intro c hc; cases hc), ?_, Or.inr (Or.inl trivial)⟩
  intro _ _
  exact ⟨0, _, rfl, rfl, by simp [childrenSize, tailLen_nil]⟩

/-- `NextPageNumber` on any writer of the tree, as an operation of the program -/
theorem step_nextPageNumber_preserves {gh : List GFut} {fired : List (Nat × Int)} {ρ : Rho}
    {s s' : PState} {out : Outcome} (path : List Nat) (k : Nat)
    (hw : WInv gh fired ρ 0 s.root) (h : step s (.nextPageNumber path k) = .ok (s', out)) :
    WInv gh fired ρ 0 s'.root ∧ s'.g.heap.futs = s.g.heap.futs := by
  simp only [step] at h
  split at h
  · cases h; exact ⟨hw, rfl⟩
  · cases h
  · rename_i r g hu
    cases h
    have hloc : ∀ (o : Int) (wt wt' : PW), nextPageNumberHere k wt s.g = .ok (wt', g) → WInv gh fired ρ o wt →
        WInv gh fired ρ o wt' ∧ childSize ρ wt' = childSize ρ wt ∧ g.heap.futs = s.g.heap.futs := by
      intro o wt wt' hn hwt
      obtain ⟨isB, closed, children, tail, npn, npnCb, numPagesCb⟩ := wt
      cases closed with
      | true =>
        simp only [nextPageNumberHere, if_true, Except.ok.injEq, Prod.mk.injEq] at hn
        obtain ⟨rfl, rfl⟩ := hn
        exact ⟨hwt, rfl, rfl⟩
      | false =>
        obtain ⟨h1, h2⟩ := nextPageNumberHere_preserves k hwt rfl hn
        subst h2
        simp only [nextPageNumberHere, Bool.false_eq_true, if_false, Except.ok.injEq, Prod.mk.injEq] at hn
        obtain ⟨rfl, _⟩ := hn
        exact ⟨h1, rfl, rfl⟩
    -- the heap's futureInts are untouched whichever writer is reached
    have hf : g.heap.futs = s.g.heap.futs := by
      have : ∀ (path : List Nat) (w w' : PW), PW.updateAt (nextPageNumberHere k) path w s.g = .ok (w', g) →
          g.heap.futs = s.g.heap.futs := by
        intro path
        induction path with
        | nil =>
          intro w w' hu
          simp only [PW.updateAt] at hu
          obtain ⟨isB, closed, children, tail, npn, npnCb, numPagesCb⟩ := w
          cases closed <;> simp [nextPageNumberHere] at hu <;> obtain ⟨_, rfl⟩ := hu <;> rfl
        | cons i rest ih =>
          intro w w' hu
          obtain ⟨isB, closed, children, tail, npn, npnCb, numPagesCb⟩ := w
          simp only [PW.updateAt] at hu
          split at hu
          · cases hu
          · split at hu
            · cases hu
            · split at hu
              · cases hu
              · rename_i child' g'' hu'
                simp only [Except.ok.injEq, Prod.mk.injEq] at hu
                obtain ⟨_, rfl⟩ := hu
                exact ih _ _ hu'
      exact this path _ _ hu
    refine ⟨?_, hf⟩
    exact (updateAt_preserves (gh := gh) (gh' := gh) [] (fun _ _ h _ => h) (fun _ γ h => ⟨γ, h, rfl⟩)
      (nextPageNumberHere k) s.g g (fun o wt wt' hn hwt => ⟨(hloc o wt wt' hn hwt).1, (hloc o wt wt' hn hwt).2.1⟩)
      path s.root r 0 hu hw (fun _ _ => by simp)).1

/-! ## where this leaves `PageNumbersStatement`

Proved here: the invariant (`WInv`, with `HeapInv` of C16trsd for the heap), that the initial
state satisfies it (`WInv_init`, `heapInv_init`), its preservation on the writer an operation is
applied to for `NextPageNumber`, `NewRange` and `AppendPage*` (`…Here_preserves`; for
`AppendPage*` together with the statement that the callbacks handed over are logged with the
position of the appended page under `ρ`, or wait for exactly that value), the lifting of such a
local step to an operation addressed by a path (`updateAt_preserves`, given that no open writer
outside the addressed subtree looks at a changed ghost entry), and one complete operation
(`step_nextPageNumber_preserves`).

**Missing** (named, not proved):
1. `PW.close`/`closeChildren`/`closeRoot`: closing the open children in order, the merges
   (pages unchanged: `close_spec`), `fire_range` for the range's page count with
   `fired := (gid, n) :: fired` (needs `Cons` for the extended list, i.e. the restriction of the
   quantified `ρ` to `ρ gid = n`), the pending callbacks called with −1;
2. the distinctness invariant that discharges `hdist`/`outsideFuts`: the futureInts of the open
   writers are pairwise different and smaller than the heap's length (new ones are allocated
   at the end), `fired` only holds ids below the heap's length; its preservation;
3. `step` for `.append`/`.newRange` assembled from `appendHere_preserves`/
   `newRangeHere_preserves` and `updateAt_preserves` with (2);
4. the induction over the operation list carrying, besides `WInv`, for every pending or waiting
   user callback the page it belongs to (`nextOnPath`), and the evaluation at the final `ρ`
   (every range closed: `ρ` is the list of final sizes, offsets are indices in `flatten doc`),
   which turns the logged `m ρ` into `expectedLog`.
-/

/-- the tree side of `PageNumbersStatement` as far as it is proved (the missing cases are listed
    in the section comment above): the initial state satisfies heap and tree invariant for every
    `ρ`, and `NextPageNumber` on any writer keeps the tree invariant and the heap; for
    `AppendPage*` and `NewRange` see `appendHere_preserves`, `newRangeHere_preserves` and
    `updateAt_preserves` -/
theorem page_numbers_nested_partial (old : Bool) (hints : List Hint) (ρ : Rho) :
    HeapInv (PState.init old hints).g.heap.futs [{ m := fun _ => 0, pred := none, isRange := false }] [] [] ρ ∧
    WInv [{ m := fun _ => 0, pred := none, isRange := false }] [] ρ 0 (PState.init old hints).root ∧
    (∀ (gh : List GFut) (fired : List (Nat × Int)) (s s' : PState) (out : Outcome) (path : List Nat) (k : Nat),
      WInv gh fired ρ 0 s.root → step s (.nextPageNumber path k) = .ok (s', out) →
      WInv gh fired ρ 0 s'.root ∧ s'.g.heap.futs = s.g.heap.futs) :=
  ⟨heapInv_init, WInv_init old hints ρ, fun _ _ _ _ _ path k hw h => step_nextPageNumber_preserves path k hw h⟩

end PdfVerif.C16trsg

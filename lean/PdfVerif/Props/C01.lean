import PdfVerif.Model.Scan
/-!
# C01 — object syntax round trip: property theorems

Statements are about the models `Model/Format.lean` (types.go) and `Model/Scan.lean`
(scanner.go), which the C01 correspondence run ties to the code; byte-class facts come from
the regenerated `Generated/Facts.lean`.
-/
namespace PdfVerif.C01
open PdfVerif

/-! ## per-byte facts over the whole generated class table (finite, `decide`) -/

theorem byte_esc : ∀ c, c < 256 → nameNeedsEsc c = true →
    hexVal (hexLower (c / 16)) = some (c / 16) ∧ hexVal (hexLower (c % 16)) = some (c % 16) ∧
    (c / 16) * 16 + c % 16 = c := by decide +kernel

theorem byte_plain : ∀ c, c < 256 → nameNeedsEsc c = false → (c == 35) = false ∧ isRegular c = true := by
  decide +kernel

/-- what may follow a name: end of input or a byte that ends the token -/
def NameEnd : Bytes → Prop
  | [] => True
  | d :: _ => isRegular d = false ∧ (d == 35) = false

theorem fmtNameBody_length_ge (n : Bytes) : n.length ≤ (fmtNameBody n).length := by
  induction n with
  | nil => simp [fmtNameBody]
  | cons c cs ih => simp only [fmtNameBody]; split <;> simp <;> omega

theorem nameBody_rt (n : Bytes) (hn : AllBytes n) (rest : Bytes) (hrest : NameEnd rest) :
    ∀ fuel len, fuel ≥ (fmtNameBody n).length + 1 → len + n.length ≤ Gen.scanner_maxNameBytes →
      readNameBody fuel len (fmtNameBody n ++ rest) = .ok (n, rest) := by
  induction n with
  | nil =>
    intro fuel len hf _
    cases fuel with
    | zero => simp [fmtNameBody] at hf
    | succ f =>
      cases rest with
      | nil => simp [fmtNameBody, readNameBody]
      | cons d ds =>
        obtain ⟨h1, h2⟩ := hrest
        have h3 : ¬ d = 35 := by simpa using h2
        simp [fmtNameBody, readNameBody, h1, h3]
  | cons c cs ih =>
    intro fuel len hf hl
    have hc : c < 256 := by simp [AllBytes] at hn; exact hn.1
    have hcs : AllBytes cs := by simp [AllBytes] at hn ⊢; exact hn.2
    have hlen : ¬ (len ≥ Gen.scanner_maxNameBytes) := by simp at hl; omega
    cases fuel with
    | zero => simp at hf
    | succ f =>
      by_cases he : nameNeedsEsc c = true
      · obtain ⟨h1, h2, h3⟩ := byte_esc c hc he
        have := ih hcs f (len + 1) (by simp [fmtNameBody, he] at hf; omega) (by simp at hl ⊢; omega)
        simp [fmtNameBody, he, readNameBody, h1, h2, this, h3, hlen]
      · have he' : nameNeedsEsc c = false := by simpa using he
        obtain ⟨h1, h2⟩ := byte_plain c hc he'
        have := ih hcs f (len + 1) (by simp [fmtNameBody, he'] at hf; omega) (by simp at hl ⊢; omega)
        simp [fmtNameBody, he', readNameBody, h1, h2, this, hlen]

/-- **Name round trip.**  For every byte string `n` of at most `maxNameBytes` bytes and every
continuation `rest` that ends the token, reading the formatted name returns `n` and stops
exactly before `rest`. -/
theorem name_rt (n : Bytes) (hn : AllBytes n) (hlen : n.length ≤ Gen.scanner_maxNameBytes)
    (rest : Bytes) (hrest : NameEnd rest) :
    readName (fmtName n ++ rest) = .ok (n, rest) := by
  simp only [fmtName, readName, List.cons_append]
  apply nameBody_rt n hn rest hrest
  · simp
  · omega

/-- the bytes written for a name after the slash are regular and `#` occurs only as an escape
    introducer followed by two hex digits (so the writer never emits a delimiter inside a name) -/
theorem name_bytes_regular (n : Bytes) (hn : AllBytes n) :
    ∀ b ∈ fmtNameBody n, isRegular b = true := by
  induction n with
  | nil => simp [fmtNameBody]
  | cons c cs ih =>
    have hc : c < 256 := by simp [AllBytes] at hn; exact hn.1
    have hcs : AllBytes cs := by simp [AllBytes] at hn ⊢; exact hn.2
    intro b hb
    simp only [fmtNameBody, List.mem_append] at hb
    rcases hb with hb | hb
    · by_cases he : nameNeedsEsc c = true
      · simp [he] at hb
        have key : ∀ c, c < 256 → isRegular 35 = true ∧ isRegular (hexLower (c / 16)) = true ∧
            isRegular (hexLower (c % 16)) = true := by decide +kernel
        obtain ⟨k1, k2, k3⟩ := key c hc
        rcases hb with hb | hb | hb
        · exact hb ▸ k1
        · exact hb ▸ k2
        · exact hb ▸ k3
      · have he' : nameNeedsEsc c = false := by simpa using he
        simp [he'] at hb
        exact hb ▸ (byte_plain c hc he').2
    · exact ih hcs b hb

-- non-vacuity: a concrete name with escapes meets the hypotheses and round-trips
example : (match readName (fmtName [65, 32, 35, 255] ++ [47]) with
    | .ok (n, r) => n == [65, 32, 35, 255] && r == [47] | _ => false) = true := by decide +kernel

end PdfVerif.C01

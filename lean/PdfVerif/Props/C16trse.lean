import PdfVerif.Props.C16trsc
/-!
# C16 (fifth part) — what the caller may do around an append

Two rules of the writer that the caller can observe only by doing something unusual:

* **The pending callbacks are detached before they fire.**  `AppendPage*` takes the list of
  callbacks registered with `NextPageNumber`, leaves the writer with an empty list, and only
  then hands the callbacks to the futureInt (which may call them at once).  A callback that
  registers a further callback on the same writer therefore registers it for the page *after*
  the one being appended: in the model, that registration is the `nextPageNumber` operation
  right after the append (the harness translates programs with such callbacks this way), and
  it is not lost.
* **A page's attributes are taken by value at the append.**  `POp.append` carries an `Attrs`
  value; the node built from it is private to the tree (hoisting edits the node, never the
  caller's value).  Handing the same value to many pages is an ordinary program, so
  `page_tree_correct` applies to it: every such page keeps the attributes it was given.
-/
namespace PdfVerif.C16trse
open PdfVerif PdfVerif.TRSP PdfVerif.C16trs PdfVerif.C16trsc
open PdfVerif.Spec.TRSDoc
set_option linter.unusedSectionVars false
set_option linter.unusedSimpArgs false

/-! ## the pending list is detached before the callbacks fire -/

/-- what a successful append did with the callbacks: exactly the list that was pending before
    the call went to the futureInt of the page's number, the page number moved on, and the
    writer is left open with an EMPTY pending list -/
theorem append_hands_over {id : Nat} {a : Attrs} {w w' : PW} {g g' : G}
    (h : appendHere id a w g = .ok (w', g')) :
    ∃ f h1 f', w.npn = some f ∧ whenAvailableAll f w.npnCb g.heap = .ok h1 ∧
      incFut f h1 = .ok (f', g'.heap) ∧ w'.npn = some f' ∧ w'.npnCb = [] ∧
      w.closed = false ∧ w'.closed = false := by
  obtain ⟨isB, closed, children, tail, npn, npnCb, numPagesCb⟩ := w
  simp only [appendHere] at h
  split at h
  · cases h
  · rename_i hcl
    split at h
    · cases h
    · rename_i f
      split at h
      · cases h
      · rename_i h1 hw
        split at h
        · cases h
        · rename_i f' h2 hi
          split at h
          · cases h
          · rename_i tail2 ctx2 _
            split at h
            · cases h
              refine ⟨f, h1, f', rfl, hw, hi, rfl, rfl, ?_, ?_⟩ <;> simpa [PW.closed] using hcl
            · cases h

theorem append_detaches_pending {id : Nat} {a : Attrs} {w w' : PW} {g g' : G}
    (h : appendHere id a w g = .ok (w', g')) : w'.npnCb = [] := by
  obtain ⟨_, _, _, _, _, _, _, h5, _, _⟩ := append_hands_over h
  exact h5

/-- a registration that arrives while (or right after) the callbacks of a page fire is pending
    for the next page: it is the only entry of the fresh list -/
theorem registration_after_append_pending {id : Nat} {a : Attrs} {w w' : PW} {g g' : G}
    (h : appendHere id a w g = .ok (w', g')) (k : Nat) :
    ∃ w'', nextPageNumberHere k w' g' = .ok (w'', g') ∧ w''.npnCb = [.user k] ∧
      w''.npn = w'.npn ∧ w''.tail = w'.tail := by
  obtain ⟨_, _, _, _, _, _, _, h5, _, h7⟩ := append_hands_over h
  obtain ⟨isB, closed, children, tail, npn, npnCb, numPagesCb⟩ := w'
  simp only [PW.closed] at h7
  simp only [PW.npnCb] at h5
  subst h7; subst h5
  exact ⟨PW.mk isB false children tail npn [.user k] numPagesCb, by simp [nextPageNumberHere],
    by simp [PW.npnCb], rfl, rfl⟩

/-- … and the next append hands exactly that callback over -/
theorem registration_after_append_fires_next {id id2 : Nat} {a a2 : Attrs} {w w' w'' w3 : PW}
    {g g' g3 : G} (k : Nat) (h : appendHere id a w g = .ok (w', g'))
    (hn : nextPageNumberHere k w' g' = .ok (w'', g'))
    (h2 : appendHere id2 a2 w'' g' = .ok (w3, g3)) :
    ∃ f h1, w'.npn = some f ∧ whenAvailable f (.user k) g'.heap = .ok h1 := by
  obtain ⟨w2, hn2, hcb, hnpn, _⟩ := registration_after_append_pending h k
  rw [hn] at hn2
  cases hn2
  obtain ⟨f, h1, _, e1, e2, _⟩ := append_hands_over h2
  rw [hcb] at e2
  rw [hnpn] at e1
  refine ⟨f, h1, e1, ?_⟩
  simp only [whenAvailableAll] at e2
  split at e2
  · cases e2
  · rename_i h' hw
    cases e2
    exact hw

/-- the scenario of the report, run on the model: a callback that asks for the page after its
    own, on a document of three pages (the follow-up registrations are the `nextPageNumber`
    operations after the appends): 0, 1, 2, and −1 at Close -/
example :
    (match run (PState.init false [])
        [.nextPageNumber [] 0, .append [] 0 {}, .nextPageNumber [] 1, .append [] 1 {},
         .nextPageNumber [] 2, .append [] 2 {}, .nextPageNumber [] 3, .close []] with
      | .ok (s, _) => s.g.heap.log
      | .error _ => []) = [(0, 0), (1, 1), (2, 2), (3, -1)] := by decide +kernel

/-! ## attributes are taken by value -/

theorem flatten_pages {α : Type} : ∀ l : List α, flatten (l.map Item.page) = l
  | [] => by simp [flatten]
  | x :: xs => by simp [flatten, flattenItem, flatten_pages xs]

theorem specRun_appends (a : Attrs) : ∀ (ids : List Nat) (d : List (Item (Nat × Attrs))),
    specRun ((ids.map fun i => POp.append [] i a).zip (List.replicate ids.length Outcome.ok)) d
      = some (d ++ ids.map fun i => Item.page (i, normA a))
  | [], d => by simp [specRun]
  | i :: rest, d => by
    simp only [List.map_cons, List.length_cons, List.replicate_succ, List.zip_cons_cons, specRun,
      specStep, appendPage, Spec.TRSDoc.updateAt]
    rw [if_neg (by decide)]
    rw [specRun_appends a rest]
    simp

/-- **One attribute value for many pages.**  `n` pages are appended to the root, all with the
    same attribute value `a` (in Go: the same dictionary handed to `AppendPageDict` `n` times),
    every append is accepted, and the root is closed.  Then the written tree lists the `n`
    pages in order and EACH has the effective MediaBox, CropBox, Rotate, AA of `a` — whatever
    was hoisted, and whatever the tree did to the node of another page. -/
theorem same_value_pages_keep_attrs (old : Bool) (hints : List Hint) (a : Attrs) (n : Nat)
    (s s' : PState)
    (hrun : run (PState.init old hints) ((List.range n).map fun i => POp.append [] i a)
      = .ok (s, List.replicate n .ok))
    (hopen : s.result = none) (hclose : step s (.close []) = .ok (s', .ok)) :
    ∃ t, s'.result = some t ∧ effPages {} t = (List.range n).map (fun i => (i, normA a)) ∧
      RootOK t := by
  obtain ⟨doc, t, hdoc, hres, heff, hroot⟩ := page_tree_correct old hints _ s s' _ hrun hopen hclose
  refine ⟨t, hres, ?_, hroot⟩
  have hs := specRun_appends a (List.range n) []
  simp only [List.length_range, List.nil_append] at hs
  rw [hs] at hdoc
  cases hdoc
  rw [heff]
  have h := flatten_pages ((List.range n).map fun i => (i, normA a))
  rw [List.map_map] at h
  exact h

/-- the hypotheses of `same_value_pages_keep_attrs` are met, e.g. by 40 pages with a MediaBox,
    a CropBox and a rotation (the document of the report): all 40 keep them -/
example :
    let a : Attrs := { mediaBox := some [1], cropBox := some [2], rotate := some [0x39, 0x30] }
    (match run (PState.init false []) ((List.range 40).map fun i => POp.append [] i a) with
      | .ok (s, outs) =>
        (outs == List.replicate 40 .ok) &&
        (match step s (.close []) with
          | .ok (s', .ok) =>
            (match s'.result with
              | some t => effPages {} t == (List.range 40).map (fun i => (i, normA a))
              | none => false)
          | _ => false)
      | .error _ => false) = true := by decide +kernel

end PdfVerif.C16trse

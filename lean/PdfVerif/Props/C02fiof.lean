import PdfVerif.Props.C02fioe
/-!
# C02 (work package FIO) — the reader side of stream objects

`stream_dict_rt`: `ReadDict` on the dictionary `startWriting` writes (sorted entries, `/Length`
given as text: a number, a number patched over the twelve reserved blanks, or `r 0 R`);
`stream_obj_rt`: `ReadIndirectObject` on `N G obj`, that dictionary, `stream`, the bytes,
`endstream endobj` returns a stream object with exactly those bytes (`stream_extent`).
Built on C01's per-entry lemmas (`dict_entry`, `dloop_entry`, `dloop_ref`): `DictReadsK` is C01's
`DictReads` with an arbitrary continuation of the dictionary behind the entries.
-/
namespace PdfVerif.C02fiof
open PdfVerif PdfVerif.FIO PdfVerif.C01b PdfVerif.C01L PdfVerif.C01d PdfVerif.C02fioc PdfVerif.C02fiod PdfVerif.C02fioe

/-! ## `ReadDict`'s loop on a run of formatted entries followed by more of the dictionary -/

/-- like C01's `DictReads`, but the entries `kv` are followed by an arbitrary continuation `K`
    of the dictionary (the next key or `>>`), from which the loop continues to the result `R` -/
def DictReadsK (opt : FmtOpt) (kv : List (Bytes × Obj)) : Prop :=
  goodKV kv = true →
  ∀ d, d + depthKV kv ≤ Gen.scanner_maxScannerNestDepth →
  ∀ (acc : List (Bytes × Obj)) (K : Bytes) (c0 : Nat) (t0 : Bytes), K = c0 :: t0 → (c0 = 47 ∨ c0 = 62) →
    (∀ e ∈ kv, e.1 ∉ keysOf acc) → (keysOf kv).Nodup → acc.length + kv.length ≤ Gen.scanner_maxDictLen →
  ∀ body, (fmtDictPlain opt kv = some body ∨ fmtDictPretty opt kv = some body) →
  ∀ (R : Except Err (List (Bytes × Obj) × Bytes)),
    (∀ fuel', fuel' ≥ 3 * K.length + 1 → readDictLoop fuel' d (acc ++ rdKV kv) K = R) →
  ∀ fuel, fuel ≥ 3 * (body ++ K).length + 1 →
  readDictLoop fuel d acc (body ++ K) = R

theorem dictReadsK_nil (opt : FmtOpt) : DictReadsK opt [] := by
  intro _ d _ acc K c0 t0 _ _ _ _ _ body hbody R hR fuel hfuel
  have : body = [] := by rcases hbody with h | h <;> simpa [fmtDictPlain, fmtDictPretty] using h.symm
  subst this
  have := hR fuel (by simpa using hfuel)
  simpa [rdKV] using this

theorem dictBody_headK (opt : FmtOpt) (kv : List (Bytes × Obj)) (K : Bytes) (c0 : Nat) (t0 : Bytes)
    (hK : K = c0 :: t0) (hc0 : c0 = 47 ∨ c0 = 62) :
    ∀ body, (fmtDictPlain opt kv = some body ∨ fmtDictPretty opt kv = some body) →
      ∃ c t, body ++ K = c :: t ∧ (c = 47 ∨ c = 62) := by
  induction kv with
  | nil =>
    intro body h
    have : body = [] := by rcases h with h | h <;> simpa [fmtDictPlain, fmtDictPretty] using h.symm
    subst this
    exact ⟨c0, t0, by simpa using hK, hc0⟩
  | cons e es ih =>
    obtain ⟨k, v⟩ := e
    intro body h
    rcases h with h | h
    · obtain ⟨b, hb, hcase⟩ := (fmtDictPlain_cons_inv opt k v es body).mp h
      rcases hcase with ⟨_, rfl⟩ | ⟨_, a, ns1, _, rfl⟩
      · exact ih body (.inl hb)
      · exact ⟨47, _, rfl, .inl rfl⟩
    · obtain ⟨b, hb, hcase⟩ := (fmtDictPretty_cons_inv opt k v es body).mp h
      rcases hcase with ⟨_, rfl⟩ | ⟨_, a, ns1, _, rfl⟩
      · exact ih body (.inr hb)
      · exact ⟨47, _, rfl, .inl rfl⟩

theorem dictReadsK_cons (opt : FmtOpt) (k : Bytes) (v : Obj) (es : List (Bytes × Obj))
    (hA : ReadsBack opt v) (hC : DictReadsK opt es) : DictReadsK opt ((k, v) :: es) := by
  intro hg d hd acc K c0 t0 hK hc0 hdisj hnodup hlen body hbody R hR fuel hfuel
  simp [goodKV] at hg
  obtain ⟨⟨hgk, hgv⟩, hges⟩ := hg
  simp [depthKV] at hd
  have hnd := List.nodup_cons.mp (show (k :: keysOf es).Nodup from hnodup)
  simp at hlen
  have hkacc : k ∉ keysOf acc := hdisj (k, v) (by simp)
  have hnext : ∀ (acc' : List (Bytes × Obj)), keysOf acc' = keysOf acc ∨ keysOf acc' = keysOf acc ++ [k] →
      ∀ e ∈ es, e.1 ∉ keysOf acc' := by
    intro acc' hacc' e he
    have h1 := hdisj e (by simp [he])
    rcases hacc' with h | h <;> rw [h]
    · exact h1
    · simp
      refine ⟨h1, ?_⟩
      intro hek
      exact hnd.1 (hek ▸ List.mem_map.mpr ⟨e, he, rfl⟩)
  -- value null: nothing is written
  have hnull : v = .null → ∀ b, body = b →
      (fmtDictPlain opt es = some b ∨ fmtDictPretty opt es = some b) →
      readDictLoop fuel d acc (body ++ K) = R := by
    intro hv b hb hbb
    subst hv; subst hb
    refine hC hges d (by omega) acc K c0 t0 hK hc0 (hnext acc (.inl rfl)) hnd.2 (by omega)
      body hbb R ?_ fuel hfuel
    intro fuel' hf'
    have := hR fuel' hf'
    simpa [rdKV] using this
  -- value written
  have hval : v ≠ .null → ∀ (b tok : Bytes) (ns1 : Bool) (pre K' : Bytes),
      (fmtDictPlain opt es = some b ∨ fmtDictPretty opt es = some b) →
      fmtObj opt false v = some (tok, ns1) →
      body = fmtName k ++ pre ++ tok ++ K' →
      skipWS (pre ++ tok ++ K' ++ K) = (tok ++ (K' ++ K), false) →
      C01.NameEnd (pre ++ tok ++ K' ++ K) →
      (K' = b ∨ K' = 10 :: b) →
      Cont ns1 (K' ++ K) →
      readDictLoop fuel d acc (body ++ K) = R := by
    intro hv b tok ns1 pre K' hbb hf hbody' hskip hne hK' hcont
    obtain ⟨c, t, hct, hc⟩ := dictBody_headK opt es K c0 t0 hK hc0 b hbb
    have hskK : skipWS (K' ++ K) = (b ++ K, false) := by
      rcases hK' with h | h <;> subst h
      · rw [hct]; exact skipWS_tok c t (close_tokStart hc).1
      · rw [List.cons_append, skipWS_lf, hct]; exact skipWS_tok c t (close_tokStart hc).1
    have hname : readName (body ++ K) = .ok (k, pre ++ tok ++ K' ++ K) := by
      have := C01.name_rt k (allBytes_of_all (by simp [goodName] at hgk; simpa using hgk.1))
        (by simp [goodName] at hgk; exact hgk.2) _ hne
      rw [hbody']
      simpa using this
    refine dict_entry opt k v hgv hA d (by omega) tok ns1 hf (K' ++ K) (b ++ K)
      hcont c t hct hc hskK (by rcases hK' with h | h <;> subst h <;> simp) _ _ hname hskip acc hkacc (by omega)
      _ ?_ fuel ?_
    · intro fuel' hf'
      refine hC hges d (by omega) (acc ++ [(k, rd v)]) K c0 t0 hK hc0 (hnext _ (.inr (by simp [keysOf])))
        hnd.2 (by simp; omega) b hbb R ?_ fuel' hf'
      intro fuel'' hf''
      have := hR fuel'' hf''
      rw [rdKV_cons_nonnull k v es hv] at this
      simpa using this
    · rw [hbody'] at hfuel
      simp [fmtName] at hfuel ⊢
      omega
  rcases hbody with h | h
  · obtain ⟨b, hb, hcase⟩ := (fmtDictPlain_cons_inv opt k v es body).mp h
    rcases hcase with ⟨hv, rfl⟩ | ⟨hv, a, ns1, hfa, rfl⟩
    · exact hnull hv _ rfl (.inl hb)
    · obtain ⟨tok, c, t, hf, rfl, hcs, hshape⟩ := fmtObj_shape opt true v a ns1 hgv hfa
      have hcont : Cont ns1 (b ++ K) := by
        obtain ⟨c', t', hct', hc'⟩ := dictBody_headK opt es K c0 t0 hK hc0 b (.inl hb)
        rw [hct']; exact .inl ⟨(close_tokStart hc').1, fun _ => (close_tokStart hc').2⟩
      rcases hshape with ⟨rfl, hnr⟩ | ⟨_, rfl⟩
      · refine hval hv b _ ns1 [] b (.inl hb) hf (by simp) ?_ ?_ (.inl rfl) hcont
        · simp; exact skipWS_tok c _ (objStart_tokStart hcs)
        · have := nonreg_facts c (hnr rfl)
          exact ⟨hnr rfl, by simpa using this.2.2.1⟩
      · refine hval hv b _ ns1 [32] b (.inl hb) hf (by simp) ?_ ?_ (.inl rfl) hcont
        · simp [skipWS_sp]; exact skipWS_tok c _ (objStart_tokStart hcs)
        · exact ⟨space_facts.2.2.1, by decide⟩
  · obtain ⟨b, hb, hcase⟩ := (fmtDictPretty_cons_inv opt k v es body).mp h
    rcases hcase with ⟨hv, rfl⟩ | ⟨hv, a, ns1, hfa, rfl⟩
    · exact hnull hv _ rfl (.inr hb)
    · obtain ⟨tok, c, t, hf, rfl, hcs, hshape⟩ := fmtObj_shape opt false v a ns1 hgv hfa
      have hcont : Cont ns1 (10 :: b ++ K) := by
        obtain ⟨c', t', hct', hc'⟩ := dictBody_headK opt es K c0 t0 hK hc0 b (.inr hb)
        rw [List.cons_append, hct']; exact .inr ⟨.inr rfl, c', t', rfl, (close_tokStart hc').1⟩
      rcases hshape with ⟨rfl, _⟩ | ⟨h0, _⟩
      · refine hval hv b _ ns1 [32] (10 :: b) (.inr hb) hf (by simp) ?_ ?_ (.inr rfl) hcont
        · simp [skipWS_sp]; exact skipWS_tok c _ (objStart_tokStart hcs)
        · exact ⟨space_facts.2.2.1, by decide⟩
      · simp at h0

theorem dictReadsK_all (opt : FmtOpt) : (kv : List (Bytes × Obj)) → DictReadsK opt kv
  | [] => dictReadsK_nil opt
  | (k, v) :: es => dictReadsK_cons opt k v es (readsBack_all opt v) (dictReadsK_all opt es)

theorem decDigits_natDecAux : ∀ (f n : Nat), n < 10 ^ (f + 1) → decDigits (f + 1) n = natDecAux f n := by
  intro f
  induction f with
  | zero => intro n h; simp at h; simp [decDigits, natDecAux, h]
  | succ f ih =>
    intro n h
    rw [decDigits, natDecAux]
    split
    · rfl
    · rw [ih (n / 10) (by rw [Nat.pow_succ] at h; omega)]

theorem decOf_eq_natDec (n : Nat) : decOf n = natDec n := by
  unfold decOf natDec
  have h : n < 10 ^ (n + 1) := by
    have h1 : n + 1 < 10 ^ (n + 1) := Nat.lt_pow_self (by omega)
    omega
  rw [decDigits_natDecAux n n h]

/-! ## the `/Length` entry -/

/-- `value` is text that the loop of `ReadDict` reads as the value `lv` of a key, up to the next
    key or `>>` -/
structure LenVal (value : Bytes) (lv : Obj) : Prop where
  skip : ∀ x, skipWS (value ++ x) = (value ++ x, false)
  step : ∀ (f d : Nat) (acc : List (Bytes × Obj)) (inp key r1 K' t : Bytes) (c : Nat),
    readName inp = .ok (key, r1) → skipWS r1 = (value ++ K', false) →
    (K' = c :: t ∨ K' = 10 :: c :: t) → (c = 47 ∨ c = 62) →
    key ∉ keysOf acc → acc.length < Gen.scanner_maxDictLen →
    readDictLoop (f + 2) d acc inp = readDictLoop (f + 1) d (acc ++ [(key, lv)]) (c :: t)

theorem close_skip {K' t : Bytes} {c : Nat} (hK : K' = c :: t ∨ K' = 10 :: c :: t) (hc : c = 47 ∨ c = 62) :
    skipWS K' = (c :: t, false) := by
  rcases hK with h | h <;> subst h
  · exact skipWS_tok c t (close_tokStart hc).1
  · rw [skipWS_lf]; exact skipWS_tok c t (close_tokStart hc).1

theorem close_numstop {K' t : Bytes} {c : Nat} (hK : K' = c :: t ∨ K' = 10 :: c :: t) (hc : c = 47 ∨ c = 62) :
    NumStop true K' := by
  rcases hK with h | h <;> subst h
  · rcases hc with h | h <;> subst h <;> exact ⟨by decide, fun _ => by decide⟩
  · exact ⟨by decide, fun _ => by decide⟩

theorem skipWS_digit_head (v x : Bytes) (c : Nat) (t : Bytes) (h : v = c :: t) (hc : isDigit c = true ∨ c = 45) :
    skipWS (v ++ x) = (v ++ x, false) := by
  subst h
  have : tokStart c = true := by
    rcases hc with h | h
    · exact objStart_tokStart (objStart_digit h)
    · subst h; decide
  exact skipWS_tok c _ this

/-- a direct integer (the caller's `/Length`, or the length known when a short stream is closed) -/
theorem lenVal_int (l : Int) (hl : Int64Range l) : LenVal (intDec l) (.int l) := by
  obtain ⟨c, t, hct, hc⟩ := intDec_head l
  refine ⟨fun x => skipWS_digit_head _ x c t hct hc, ?_⟩
  intro f d acc inp key r1 K' t' c' h1 h2 hK hc' hk hlen
  exact dloop_entry (f + 1) d acc inp key r1 (intDec l ++ K') K' t' (.int l) c' h1 h2
    (readObject_int l hl K' (close_numstop hK hc') f d) (close_skip hK hc') hc' hk hlen

theorem skipWS_blanks (j : Nat) (x : Bytes) : skipWS (List.replicate j 32 ++ x) = skipWS x := by
  induction j with
  | zero => simp
  | succ j ih => simp [List.replicate_succ, skipWS_sp, ih]

/-- the patched placeholder: the length, then what is left of the twelve blanks -/
theorem lenVal_patched (n j : Nat) (hn : (n : Int) ≤ 9223372036854775807) :
    LenVal (natDec n ++ List.replicate j 32) (.int n) := by
  obtain ⟨c, t, hct, hc⟩ := natDec_head n
  refine ⟨fun x => ?_, ?_⟩
  · rw [List.append_assoc]; exact skipWS_digit_head _ _ c t hct (.inl hc)
  · intro f d acc inp key r1 K' t' c' h1 h2 hK hc' hk hlen
    have hi : intDec (n : Int) = natDec n := rfl
    have hstop : NumStop true (List.replicate j 32 ++ K') := by
      cases j with
      | zero => simpa using close_numstop hK hc'
      | succ j => simp [List.replicate_succ]; exact numstop_sp _ _
    have h3 := readObject_int (n : Int) ⟨by omega, hn⟩ (List.replicate j 32 ++ K') hstop f d
    rw [hi, ← List.append_assoc] at h3
    exact dloop_entry (f + 1) d acc inp key r1 _ _ t' (.int n) c' h1 h2 h3
      (by rw [skipWS_blanks]; exact close_skip hK hc') hc' hk hlen

/-- the indirect length `r 0 R` -/
theorem lenVal_ref (r : Nat) (hr : r < Gen.xref_maxXRefSize) :
    LenVal (natDec r ++ [32, 48, 32, 82]) (.ref r 0) := by
  obtain ⟨c, t, hct, hc⟩ := natDec_head r
  have hfit := xref_fits
  refine ⟨fun x => ?_, ?_⟩
  · rw [List.append_assoc]; exact skipWS_digit_head _ _ c t hct (.inl hc)
  · intro f d acc inp key r1 K' t' c' h1 h2 hK hc' hk hlen
    have hi : intDec (r : Int) = natDec r := rfl
    have h3 := readObject_int (r : Int) ⟨by omega, by omega⟩ (32 :: 48 :: 32 :: 82 :: K') (numstop_sp _ _) f d
    rw [hi] at h3
    have h2' : skipWS r1 = (natDec r ++ 32 :: 48 :: 32 :: 82 :: K', false) := by simpa using h2
    have h4 : skipWS (32 :: 48 :: 32 :: 82 :: K') = (48 :: 32 :: 82 :: K', false) := by
      rw [skipWS_sp]; exact skipWS_tok 48 _ (by decide)
    have h5 : readInteger (48 :: 32 :: 82 :: K') = .ok ((0 : Int), 32 :: 82 :: K') := by
      have := readInteger_natDec 0 (by omega) (32 :: 82 :: K') (numstop_sp _ _)
      simpa [natDec, natDecAux] using this
    have h6 : skipWS (32 :: 82 :: K') = (82 :: K', false) := by rw [skipWS_sp]; exact skipWS_R K'
    have hv : validRef (r : Int) (0 : Int) = true := by simp [validRef]; omega
    have := dloop_ref (f + 1) d acc inp key r1 _ _ _ _ _ (c' :: t') (r : Int) (0 : Int) 48 h1 h2' h3 h4
      (by omega) h5 h6 (close_skip hK hc') hk hlen
    rw [this, hv]
    simp

/-! ## the stream dictionary written by `startWriting` -/

/-- the entries `fmtDictLen` formats: the caller's dictionary without `/Length`, plus `/Length` -/
def sdKv0 (kv : List (Bytes × Obj)) : List (Bytes × Obj) :=
  (kv.filter fun e => e.1 != kLength) ++ [(kLength, Obj.int 0)]
def sdAll (kv : List (Bytes × Obj)) : List (Bytes × Obj) := sortedEntries (canonKV (sdKv0 kv))
/-- the entries written before `/Length` … -/
def sdBefore (kv : List (Bytes × Obj)) : List (Bytes × Obj) := (sdAll kv).takeWhile fun e => e.1 != kLength
/-- … and after it -/
def sdAfter (kv : List (Bytes × Obj)) : List (Bytes × Obj) := ((sdAll kv).dropWhile fun e => e.1 != kLength).drop 1

theorem split_at_key (k : Bytes) : ∀ (l : List (Bytes × Obj)), k ∈ keysOf l →
    ∃ x, l = l.takeWhile (fun e => e.1 != k) ++ x :: (l.dropWhile fun e => e.1 != k).drop 1 ∧ x.1 = k := by
  intro l
  induction l with
  | nil => intro h; simp [keysOf] at h
  | cons e es ih =>
    intro h
    by_cases he : e.1 = k
    · refine ⟨e, ?_, he⟩
      simp [List.takeWhile, List.dropWhile, he]
    · have hmem : k ∈ keysOf es := by
        simp [keysOf] at h ⊢
        rcases h with h | h
        · exact absurd h.symm he
        · exact h
      obtain ⟨x, hx, hxk⟩ := ih hmem
      refine ⟨x, ?_, hxk⟩
      have hb : (e.1 != k) = true := by simp [he]
      simp only [List.takeWhile, List.dropWhile, hb, List.cons_append]
      rw [← hx]

theorem keysOf_rdKV_sub : ∀ (l : List (Bytes × Obj)) (k : Bytes), k ∈ keysOf (rdKV l) → k ∈ keysOf l := by
  intro l
  induction l with
  | nil => intro k h; simp [rdKV, keysOf] at h
  | cons e es ih =>
    obtain ⟨k0, v⟩ := e
    intro k h
    by_cases hv : v = .null
    · subst hv
      simp only [rdKV] at h
      simp only [keysOf, List.map_cons, List.mem_cons]
      exact .inr (ih k h)
    · rw [rdKV_cons_nonnull k0 v es hv] at h
      simp only [keysOf, List.map_cons, List.mem_cons] at h ⊢
      rcases h with h | h
      · exact .inl h
      · exact .inr (ih k h)

theorem rdKV_length_le : ∀ (l : List (Bytes × Obj)), (rdKV l).length ≤ l.length := by
  intro l
  induction l with
  | nil => simp [rdKV]
  | cons e es ih =>
    obtain ⟨k0, v⟩ := e
    by_cases hv : v = .null
    · subst hv; simp only [rdKV, List.length_cons]; omega
    · rw [rdKV_cons_nonnull k0 v es hv]; simp only [List.length_cons]; omega

/-- what the sorted entry list of a good stream dictionary looks like -/
theorem sd_facts (kv : List (Bytes × Obj)) (hg : good (.dict (sdKv0 kv)) = true)
    (hd : depthOf (.dict (sdKv0 kv)) ≤ Gen.scanner_maxScannerNestDepth) :
    ∃ x, sdAll kv = sdBefore kv ++ x :: sdAfter kv ∧ x.1 = kLength ∧
      goodKV (sdBefore kv) = true ∧ goodKV (sdAfter kv) = true ∧
      (keysOf (sdBefore kv ++ x :: sdAfter kv)).Nodup ∧
      (sdBefore kv).length + 1 + (sdAfter kv).length ≤ Gen.scanner_maxDictLen ∧
      1 + depthKV (sdBefore kv) ≤ Gen.scanner_maxScannerNestDepth ∧
      1 + depthKV (sdAfter kv) ≤ Gen.scanner_maxScannerNestDepth := by
  have hgc := good_canon _ hg
  have hdc := depth_canon (.dict (sdKv0 kv))
  simp only [Obj.canon] at hgc hdc
  change good (.dict (sdAll kv)) = true at hgc
  change depthOf (.dict (sdAll kv)) ≤ _ at hdc
  simp [good] at hgc
  obtain ⟨⟨hgkv, hnd⟩, hlen⟩ := hgc
  simp only [depthOf] at hdc hd
  have hmem : kLength ∈ keysOf (sdAll kv) := by
    have hp := keysOf_perm (sortedEntries_perm (canonKV (sdKv0 kv)))
    rw [canonKV_keys] at hp
    apply hp.mem_iff.mpr
    simp [sdKv0, keysOf]
  obtain ⟨x, hx, hxk⟩ := split_at_key kLength (sdAll kv) hmem
  change sdAll kv = sdBefore kv ++ x :: sdAfter kv at hx
  rw [hx] at hgkv hnd hlen hdc
  rw [goodKV_iff] at hgkv
  have hdk := (depthKV_le (sdBefore kv ++ x :: sdAfter kv) _).mp (Nat.le_refl _)
  refine ⟨x, hx, hxk, ?_, ?_, hnd, ?_, ?_, ?_⟩
  · rw [goodKV_iff]; intro e he; exact hgkv e (by simp [he])
  · rw [goodKV_iff]; intro e he; exact hgkv e (by simp [he])
  · simp at hlen; omega
  · have : depthKV (sdBefore kv) ≤ depthKV (sdBefore kv ++ x :: sdAfter kv) := by
      rw [depthKV_le]; intro e he; exact hdk e (by simp [he])
    omega
  · have : depthKV (sdAfter kv) ≤ depthKV (sdBefore kv ++ x :: sdAfter kv) := by
      rw [depthKV_le]; intro e he; exact hdk e (by simp [he])
    omega

/-- **stream_dict_rt.**  `ReadDict` on the dictionary `startWriting` writes — the sorted entries
with the `/Length` value given as text (a decimal number, a number over the remains of the twelve
reserved blanks, or `r 0 R`) — returns the entries read back, with `/Length` ↦ the value. -/
theorem stream_dict_rt (opt : FmtOpt) (kv : List (Bytes × Obj)) (value : Bytes) (lv : Obj)
    (hv : LenVal value lv) (hg : good (.dict (sdKv0 kv)) = true)
    (hd : depthOf (.dict (sdKv0 kv)) ≤ Gen.scanner_maxScannerNestDepth)
    (bytes : Bytes) (off : Nat) (hf : fmtDictLen opt false kv value = some (bytes, off))
    (rest : Bytes) (fuel : Nat) (hfuel : fuel ≥ 3 * (bytes ++ rest).length + 2) :
    readDict fuel 0 (bytes ++ rest)
      = .ok (rdKV (sdBefore kv) ++ (kLength, lv) :: rdKV (sdAfter kv), rest) := by
  obtain ⟨x, hx, hxk, hgb, hga, hnd, hlen, hdb, hda⟩ := sd_facts kv hg hd
  unfold fmtDictLen at hf
  simp only [Bool.false_eq_true, ↓reduceIte] at hf
  change (match (if opt.pretty = true then fmtDictPretty opt (sdBefore kv) else fmtDictPlain opt (sdBefore kv)),
      (if opt.pretty = true then fmtDictPretty opt (sdAfter kv) else fmtDictPlain opt (sdAfter kv)) with
    | some b1, some b2 => _ | _, _ => none) = _ at hf
  split at hf
  · rename_i b1 b2 hb1 hb2
    simp only [Option.some.injEq, Prod.mk.injEq] at hf
    obtain ⟨hbytes, _⟩ := hf
    have hB1 : fmtDictPlain opt (sdBefore kv) = some b1 ∨ fmtDictPretty opt (sdBefore kv) = some b1 := by
      cases hp : opt.pretty <;> simp [hp] at hb1
      · exact .inl hb1
      · exact .inr hb1
    have hB2 : fmtDictPlain opt (sdAfter kv) = some b2 ∨ fmtDictPretty opt (sdAfter kv) = some b2 := by
      cases hp : opt.pretty <;> simp [hp] at hb2
      · exact .inl hb2
      · exact .inr hb2
    -- the text behind `<<`
    let nl : Bytes := if opt.pretty = true then [10] else []
    let K2 : Bytes := b2 ++ 62 :: 62 :: rest
    let K' : Bytes := nl ++ K2
    let K1 : Bytes := fmtName kLength ++ 32 :: (value ++ K')
    have hbr : bytes ++ rest = 60 :: 60 :: (nl ++ (b1 ++ K1)) := by
      rw [← hbytes]; simp [K1, K', K2, nl]
    obtain ⟨c2, t2, hct2, hc2⟩ := dictBody_head opt (sdAfter kv) rest b2 hB2
    have hK' : K' = c2 :: t2 ∨ K' = 10 :: c2 :: t2 := by
      show nl ++ K2 = _ ∨ nl ++ K2 = _
      cases hp : opt.pretty <;> simp [nl, hp, K2, hct2]
    have hK1 : K1 = 47 :: (fmtNameBody kLength ++ 32 :: (value ++ K')) := rfl
    obtain ⟨c1, t1, hct1, hc1⟩ := dictBody_headK opt (sdBefore kv) K1 47 _ hK1 (.inl rfl) b1 hB1
    have hsk : skipWS (nl ++ (b1 ++ K1)) = (b1 ++ K1, false) := by
      have h0 : skipWS (b1 ++ K1) = (b1 ++ K1, false) := by
        rw [hct1]; exact skipWS_tok c1 t1 (close_tokStart hc1).1
      cases hp : opt.pretty <;> simp [nl, hp, skipWS_lf, h0]
    obtain ⟨f, rfl⟩ : ∃ f, fuel = f + 1 := ⟨fuel - 1, by omega⟩
    have hlenbr : (bytes ++ rest).length = 2 + nl.length + (b1 ++ K1).length := by
      rw [hbr]; simp; omega
    rw [hbr, readDict]
    have hdd : ¬ (0 ≥ Gen.scanner_maxScannerNestDepth) := by decide
    simp only [hdd, if_false, hsk]
    -- keys
    have hkeys : keysOf (sdBefore kv ++ x :: sdAfter kv) = keysOf (sdBefore kv) ++ kLength :: keysOf (sdAfter kv) := by
      simp [keysOf, hxk]
    rw [hkeys] at hnd
    have hnd' := List.nodup_append.mp hnd
    have hLb : kLength ∉ keysOf (sdBefore kv) := fun h => hnd'.2.2 _ h _ (by simp) rfl
    have hndA := (List.nodup_cons.mp hnd'.2.1)
    -- the loop
    have hloop := dictReadsK_all opt (sdBefore kv) hgb 1 (by omega) [] K1 47 _ hK1 (.inl rfl)
      (by simp [keysOf]) hnd'.1 (by simp; omega) b1 hB1
      (.ok (rdKV (sdBefore kv) ++ (kLength, lv) :: rdKV (sdAfter kv), rest)) ?_ f (by omega)
    · rw [hloop]; rfl
    · intro fuel' hf'
      have hK1len : K1.length ≥ K2.length + 3 := by
        have h6 : 6 ≤ (fmtNameBody kLength).length := C01.fmtNameBody_length_ge kLength
        simp [K1, K', fmtName]; omega
      obtain ⟨g, rfl⟩ : ∃ g, fuel' = g + 2 := ⟨fuel' - 2, by omega⟩
      have hname : readName K1 = .ok (kLength, 32 :: (value ++ K')) :=
        C01.name_rt kLength (by intro b hb; simp [kLength] at hb; omega) (by simp [kLength, Gen.scanner_maxNameBytes])
          _ ⟨space_facts.2.2.1, by decide⟩
      have hr1 : skipWS (32 :: (value ++ K')) = (value ++ K', false) := by
        rw [skipWS_sp]; exact hv.skip K'
      have hkacc : kLength ∉ keysOf ([] ++ rdKV (sdBefore kv)) := by
        simp only [List.nil_append]
        exact fun h => hLb (keysOf_rdKV_sub _ _ h)
      have hacclen : ([] ++ rdKV (sdBefore kv)).length < Gen.scanner_maxDictLen := by
        have := rdKV_length_le (sdBefore kv); simp; omega
      rw [hv.step g 1 _ K1 kLength _ K' t2 c2 hname hr1 hK' hc2 hkacc hacclen]
      rw [← hct2]
      have hA := dictReads_all opt (sdAfter kv) hga 1 (by omega) ([] ++ rdKV (sdBefore kv) ++ [(kLength, lv)]) rest
        ?_ hndA.2 ?_ b2 hB2 (g + 1) (by show g + 1 ≥ 3 * K2.length + 1; omega)
      · rw [hA]; simp
      · intro e he hmem
        simp only [List.nil_append, keysOf, List.map_append, List.map_cons, List.map_nil, List.mem_append,
          List.mem_singleton] at hmem
        have hek : e.1 ∈ keysOf (sdAfter kv) := List.mem_map.mpr ⟨e, he, rfl⟩
        rcases hmem with h | h
        · exact hnd'.2.2 _ (keysOf_rdKV_sub _ _ h) _ (by simp [hek]) rfl
        · exact hndA.1 (h ▸ hek)
      · have := rdKV_length_le (sdBefore kv); simp; omega
  · simp at hf

/-! ## `ReadIndirectObject` on a stream object -/

/-- the `N G obj` header: `ReadIndirectObject` hands the content to `readTopObject` and expects
    `endobj` behind it -/
theorem readIndirectObject_body (num gen : Nat) (hnum : num < Gen.fio_maxXRefSize) (hgen : gen ≤ Gen.fio_maxGeneration)
    (content : Bytes) (hc : skipWS content = (content, false)) (off : Nat) (getInt : Obj → Except Err Int)
    (obj : RObj) (r5 r6 : Bytes)
    (htop : readTopObject content (off + (objHeader num gen).length) getInt = .ok (obj, r5))
    (hs : skipWS r5 = (r6, false)) (hend : isPrefixOf kwEndobj r6 = true) :
    readIndirectObject (objHeader num gen ++ content) off getInt = .ok (obj, num, gen, r6.drop 6) := by
  have e0 : objHeader num gen ++ content
      = decOf num ++ (32 :: (decOf gen ++ (32 :: 111 :: 98 :: 106 :: 10 :: content))) := by
    simp [objHeader, kObj]
  have e1 : readIntegerE (decOf num ++ (32 :: (decOf gen ++ (32 :: 111 :: 98 :: 106 :: 10 :: content))))
      = .ok ((num : Int), 32 :: (decOf gen ++ (32 :: 111 :: 98 :: 106 :: 10 :: content))) :=
    readIntegerE_decOf num (by simp [Gen.fio_maxXRefSize] at hnum; omega) _ (by simp [NumEnd, isDigit_32])
  have e2 : readIntegerE (32 :: (decOf gen ++ (32 :: 111 :: 98 :: 106 :: 10 :: content)))
      = .ok ((gen : Int), 32 :: 111 :: 98 :: 106 :: 10 :: content) := by
    rw [readIntegerE_ws 32 (.inl rfl)]
    exact readIntegerE_decOf gen (by simp [Gen.fio_maxGeneration] at hgen; omega) _ (by simp [NumEnd, isDigit_32])
  have e3 : skipWS (32 :: 111 :: 98 :: 106 :: 10 :: content) = (111 :: 98 :: 106 :: 10 :: content, false) := by
    rw [skipWS_sp]
    have h111 : isSpace 111 = false := by decide +kernel
    simp [skipWS, h111]
  have e4 : skipWS (10 :: content) = (content, false) := by rw [skipWS_lf, hc]
  have hlen : (objHeader num gen ++ content).length - content.length = (objHeader num gen).length := by simp
  unfold readIndirectObject
  rw [e0, e1]
  simp only [e2, e3]
  have hobj : isPrefixOf kwObj (111 :: 98 :: 106 :: 10 :: content) = true := by simp [kwObj, isPrefixOf]
  simp only [hobj, Bool.not_true, Bool.false_eq_true, ↓reduceIte, List.drop_succ_cons, List.drop_zero, e4]
  have hr' : (decide ((num : Int) < 0) || decide ((num : Int) ≥ (Gen.fio_maxXRefSize : Nat)) || decide ((gen : Int) < 0) ||
      decide ((gen : Int) > (Gen.fio_maxGeneration : Nat))) = false := by
    simp; omega
  simp only [hr', Bool.false_eq_true, ↓reduceIte]
  rw [← e0, hlen, htop]
  simp only [hs]
  cases obj with
  | stream d st ln => simp [hend]
  | plain v =>
    cases v <;> simp [hend]

theorem skipWS_kStream (x : Bytes) : skipWS (kStream ++ x) = (kw_stream ++ (10 :: x), false) := by
  have h : kStream ++ x = 10 :: 115 :: ([116, 114, 101, 97, 109] ++ (10 :: x)) := by simp [kStream]
  rw [h, skipWS_lf]
  have h115 : isSpace 115 = false := by decide +kernel
  exact skipWS_nonspace 115 _ h115 (by omega)

/-- **stream_obj_rt.**  `N G obj`, a dictionary that `ReadDict` reads as `rdict` with `/Length`
resolving to the number of bytes written, `stream`, the bytes, `endstream endobj`: the reader
returns a stream object whose extent is exactly the bytes written. -/
theorem stream_obj_rt (num gen : Nat) (hnum : num < Gen.fio_maxXRefSize) (hgen : gen ≤ Gen.fio_maxGeneration)
    (dictBytes body rest : Bytes) (rdict : List (Bytes × Obj)) (lv : Obj) (dt : Bytes) (hdt : dictBytes = 60 :: 60 :: dt)
    (hrd : ∀ rest' fuel, fuel ≥ 3 * (dictBytes ++ rest').length + 2 →
      readDict fuel 0 (dictBytes ++ rest') = .ok (rdict, rest'))
    (off : Nat) (getInt : Obj → Except Err Int)
    (hlv : dictGet rdict kLen = some lv) (hgi : getInt lv = .ok (body.length : Int))
    (hsz : off + (objHeader num gen ++ dictBytes ++ kStream ++ body).length < 9223372036854775808) :
    readIndirectObject (objHeader num gen ++ dictBytes ++ kStream ++ body ++ kEndstream ++ rest) off getInt
      = .ok (.stream (rdict.filter fun e => e.1 != kLen)
          (off + (objHeader num gen).length + dictBytes.length + 8) body.length, num, gen, 10 :: rest) := by
  have hcontent : objHeader num gen ++ dictBytes ++ kStream ++ body ++ kEndstream ++ rest
      = objHeader num gen ++ (dictBytes ++ (kStream ++ (body ++ [10] ++ kwEndstream ++ (kEndobj ++ rest)))) := by
    simp [kEndstream, kwEndstream, kEndobj]
  rw [hcontent]
  have hsk : skipWS (dictBytes ++ (kStream ++ (body ++ [10] ++ kwEndstream ++ (kEndobj ++ rest))))
      = (dictBytes ++ (kStream ++ (body ++ [10] ++ kwEndstream ++ (kEndobj ++ rest))), false) := by
    rw [hdt]; exact skipWS_tok 60 _ (by decide)
  have htop : readTopObject (dictBytes ++ (kStream ++ (body ++ [10] ++ kwEndstream ++ (kEndobj ++ rest))))
      (off + (objHeader num gen).length) getInt
      = .ok (.stream (rdict.filter fun e => e.1 != kLen)
          (off + (objHeader num gen).length + dictBytes.length + 8) body.length, kEndobj ++ rest) := by
    have hd := hrd (kStream ++ (body ++ [10] ++ kwEndstream ++ (kEndobj ++ rest)))
      (scanFuel (dictBytes ++ (kStream ++ (body ++ [10] ++ kwEndstream ++ (kEndobj ++ rest))))) (by simp [scanFuel])
    generalize hoff : off + (objHeader num gen).length = off'
    unfold readTopObject
    rw [hdt] at hd ⊢
    simp only [List.cons_append]
    simp only [List.cons_append] at hd
    rw [hd]
    simp only [skipWS_kStream]
    have hsw : startsWith (kw_stream ++ (10 :: (body ++ [10] ++ kwEndstream ++ (kEndobj ++ rest)))) kw_stream = true := by
      simp [startsWith, isPrefixOf_self]
    simp only [hsw, ↓reduceIte, hlv, hgi]
    have hnn : ((body.length : Int) ≥ 0) := by omega
    simp only [hnn, ↓reduceIte, Int.toNat_natCast]
    have hext := stream_extent body (kEndobj ++ rest)
      (off' + ((60 :: 60 :: (dt ++ (kStream ++ (body ++ [10] ++ kwEndstream ++ (kEndobj ++ rest))))).length
        - (kw_stream ++ (10 :: (body ++ [10] ++ kwEndstream ++ (kEndobj ++ rest)))).length))
      (by subst hoff; rw [hdt] at hsz; simp [kStream, kw_stream] at hsz ⊢; omega)
    have hshape : kw_stream ++ [10] ++ body ++ [10] ++ kwEndstream ++ (kEndobj ++ rest)
        = kw_stream ++ (10 :: (body ++ [10] ++ kwEndstream ++ (kEndobj ++ rest))) := by simp
    rw [hshape] at hext
    rw [hext]
    simp only [Except.ok.injEq, Prod.mk.injEq, RObj.stream.injEq, true_and, and_true]
    simp [kStream, kw_stream]
    omega
  have := readIndirectObject_body num gen hnum hgen _ hsk off getInt _ (kEndobj ++ rest)
    (101 :: ([110, 100, 111, 98, 106, 10] ++ rest)) htop (skipWS_endobj rest) (by simp [kwEndobj, isPrefixOf])
  simpa using this

end PdfVerif.C02fiof

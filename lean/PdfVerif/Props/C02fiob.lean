import PdfVerif.Model.FIOWriter
/-!
# C02 (work package FIO) — the writer state machine: `pos_invariant`, `put_once`

Statements are about `Model/FIOWriter.lean` (writer.go), which the FIO correspondence run ties
to the code: for every generated program the model produces the same file bytes as the real
`Writer` (or fails at the same operation).
-/
namespace PdfVerif.C02fiob
open PdfVerif PdfVerif.FIO

/-- the bytes `h` stand in `out` at offset `pos` -/
def At (out : Bytes) (pos : Nat) (h : Bytes) : Prop :=
  ∃ pre rest, out = pre ++ h ++ rest ∧ pre.length = pos

theorem At.append {out : Bytes} {pos : Nat} {h : Bytes} (ha : At out pos h) (bs : Bytes) :
    At (out ++ bs) pos h := by
  obtain ⟨pre, rest, h1, h2⟩ := ha
  exact ⟨pre, rest ++ bs, by simp [h1], h2⟩

theorem At.here (out h rest : Bytes) : At (out ++ (h ++ rest)) out.length h :=
  ⟨out, rest, by simp, rfl⟩

theorem At.end_le {out : Bytes} {pos : Nat} {h : Bytes} (ha : At out pos h) :
    pos + h.length ≤ out.length := by
  obtain ⟨pre, rest, h1, h2⟩ := ha
  subst h1; simp; omega

/-- overwriting bytes behind the end of `h` leaves `h` in place -/
theorem At.patch {out : Bytes} {pos : Nat} {h : Bytes} (ha : At out pos h) (p : Nat) (v : Bytes)
    (hp : pos + h.length ≤ p) : At (patchAt out p v) pos h := by
  obtain ⟨pre, rest, h1, h2⟩ := ha
  refine ⟨pre, (rest.take (p - (pos + h.length))) ++ v ++ out.drop (p + v.length), ?_, h2⟩
  unfold patchAt
  have : out.take p = pre ++ h ++ rest.take (p - (pos + h.length)) := by
    subst h1
    rw [List.take_append, List.take_of_length_le (by simp; omega)]
    simp [h2]
  rw [this]; simp

theorem patchAt_length (out : Bytes) (p : Nat) (v : Bytes) (h : p + v.length ≤ out.length) :
    (patchAt out p v).length = out.length := by
  unfold patchAt; simp; omega


/-! ## the invariant -/

/-- `pos_invariant`: the position counter is the length of the output, and every in-use entry
    (not in an object stream) records the offset at which `N G obj` for that number starts —
    or belongs to the stream that has been opened but not yet started, whose header will be
    written at the current position.  `patch` keeps what the seek-back of `Placeholder.Set`
    needs: the 12 reserved bytes exist and lie behind every object header. -/
structure Inv (s : WState) : Prop where
  pos_eq : s.pos = s.out.length
  entries : ∀ n e, s.xref.get n = some e → e.inStream = 0 → 0 ≤ e.pos →
    At s.out e.pos.toNat (objHeader n e.gen) ∨
    (∃ st, s.stm = some st ∧ st.started = false ∧ st.num = n ∧ st.gen = e.gen ∧ e.pos = (s.pos : Int))
  patch : ∀ st p, s.stm = some st → st.patchPos = some p →
    p + 12 ≤ s.out.length ∧
    ∀ n e, s.xref.get n = some e → e.inStream = 0 → 0 ≤ e.pos →
      e.pos.toNat + (objHeader n e.gen).length ≤ p
  below : ∀ n e, s.xref.get n = some e → n < s.nextRef
  npos : 0 < s.nextRef

theorem get_set (m : XMap) (n : Nat) (e : XEntry) (j : Nat) :
    (m.set n e).get j = if j = n then some e else m.get j := by
  simp only [XMap.get, XMap.set, List.lookup_cons]
  by_cases h : j = n
  · simp [h]
  · have : (j == n) = false := by simp [h]
    simp [h, this]

/-- `setXRef` succeeds exactly on numbers without an entry, adds that one entry and keeps
    `nextRef` above every number -/
theorem setXRef_ok {m : XMap} {nr num : Nat} {e : XEntry} {x : XMap} {n : Nat}
    (h : setXRef m nr num e = some (x, n)) :
    m.get num = none ∧ x = m.set num e ∧ nr ≤ n ∧ num < n := by
  unfold setXRef at h
  split at h
  · simp at h
  · rename_i hg
    simp only [Option.some.injEq, Prod.mk.injEq] at h
    obtain ⟨h1, h2⟩ := h
    refine ⟨hg, h1.symm, ?_, ?_⟩ <;> (subst h2; split <;> omega)

/-- **put_once** (first half): a number that already has an entry is refused -/
theorem setXRef_dup {m : XMap} {nr num : Nat} {e e' : XEntry} (h : m.get num = some e') :
    setXRef m nr num e = none := by
  simp [setXRef, h]

theorem init_inv (o : WOpts) (s : WState) (h : initState o = some s) : Inv s := by
  unfold initState at h
  cases hh : header o with
  | none => simp [hh] at h
  | some hd =>
    simp only [hh, Option.map_some, Option.some.injEq] at h
    subst h
    refine ⟨rfl, ?_, ?_, ?_, by simp⟩
    · intro n e hg hi hp
      simp only [XMap.get, List.lookup_cons, List.lookup_nil] at hg
      split at hg
      · simp at hg; subst hg; simp at hp
      · simp at hg
    · intro st p hs; simp at hs
    · intro n e hg
      simp only [XMap.get, List.lookup_cons, List.lookup_nil] at hg
      split at hg
      · rename_i hb; simp at hb; subst hb; simp
      · simp at hg

/-- writing bytes keeps the invariant when no opened-but-unstarted stream is waiting -/
theorem emit_inv {s : WState} (hi : Inv s) (bs : Bytes)
    (hst : ∀ st, s.stm = some st → st.started = true) : Inv (emit s bs) := by
  refine ⟨by simp [emit, hi.pos_eq], ?_, ?_, hi.below, hi.npos⟩
  · intro n e hg h0 hp
    rcases hi.entries n e hg h0 hp with ha | ⟨st, h1, h2, _⟩
    · exact .inl (ha.append bs)
    · have := hst st h1; simp [h2] at this
  · intro st p h1 h2
    obtain ⟨ha, hb⟩ := hi.patch st p h1 h2
    exact ⟨by simp [emit]; omega, hb⟩

/-- the invariant does not look at the ghost fields -/
theorem Inv.congr {s s' : WState} (hi : Inv s) (h1 : s'.out = s.out) (h2 : s'.pos = s.pos)
    (h3 : s'.xref = s.xref) (h4 : s'.nextRef = s.nextRef) (h5 : s'.stm = s.stm) : Inv s' :=
  ⟨by rw [h1, h2]; exact hi.pos_eq, by rw [h1, h2, h3, h5]; exact hi.entries,
   by rw [h1, h3, h5]; exact hi.patch, by rw [h3, h4]; exact hi.below, by rw [h4]; exact hi.npos⟩

theorem alloc_inv {s s' : WState} {r : Nat} (hi : Inv s) (h : alloc s = some (s', r)) :
    Inv s' ∧ s'.out = s.out ∧ s'.pos = s.pos ∧ s'.stm = s.stm ∧ s'.xref = s.xref ∧ s'.after = s.after ∧
      s'.opts = s.opts ∧ r = s.nextRef ∧ s'.nextRef = s.nextRef + 1 := by
  unfold alloc at h
  split at h
  · simp at h
  · simp only [Option.some.injEq, Prod.mk.injEq] at h
    obtain ⟨h1, h2⟩ := h
    subst h1
    refine ⟨⟨hi.pos_eq, hi.entries, hi.patch, ?_, by simp⟩, rfl, rfl, rfl, rfl, rfl, rfl, h2.symm, rfl⟩
    intro n e hg
    have := hi.below n e hg
    simp; omega

/-- `Put` of a plain object while no stream is open -/
theorem putPlain_inv {s s' : WState} {num gen : Nat} {o : Obj} (hi : Inv s) (hs : s.stm = none)
    (h : putPlain s num gen o = .ok s') :
    Inv s' ∧ s'.stm = none ∧ s'.after = s.after ∧ s'.opts = s.opts ∧ s.xref.get num = none := by
  unfold putPlain at h
  split at h
  · simp at h
  · rename_i x n hset
    obtain ⟨hnone, hx, hn1, hn2⟩ := setXRef_ok hset
    split at h
    · simp at h
    · rename_i body hb
      simp only [Except.ok.injEq] at h
      subst h
      refine ⟨⟨by simp [emit, hi.pos_eq], ?_, ?_, ?_, by have := hi.npos; simp [emit]; omega⟩, by simp [emit, hs], by simp [emit], by simp [emit], hnone⟩
      · intro n' e hg h0 hp
        simp only [emit] at hg ⊢
        rw [hx, get_set] at hg
        split at hg
        · rename_i heq
          simp only [Option.some.injEq] at hg
          subst hg; subst heq
          left
          simp only [hi.pos_eq, Int.toNat_natCast, List.append_assoc]
          exact At.here _ _ _
        · rcases hi.entries n' e hg h0 hp with ha | ⟨st, h1, _⟩
          · exact .inl (ha.append _)
          · simp [hs] at h1
      · intro st p h1; simp [emit, hs] at h1
      · intro n' e hg
        simp only [emit] at hg ⊢
        rw [hx, get_set] at hg
        split at hg
        · rename_i heq; subst heq; exact hn2
        · have := hi.below n' e hg; omega


theorem fmtDictLen_shape {opt : FmtOpt} {lit : Bool} {kv : List (Bytes × Obj)} {value bytes : Bytes} {off : Nat}
    (h : fmtDictLen opt lit kv value = some (bytes, off)) :
    ∃ pre post, bytes = pre ++ value ++ post ∧ off = pre.length := by
  unfold fmtDictLen at h
  simp only at h
  split at h
  · rename_i b1 b2 _ _
    simp only [Option.some.injEq, Prod.mk.injEq] at h
    obtain ⟨h1, h2⟩ := h
    exact ⟨_, (if opt.pretty = true then [10] else []) ++ b2 ++ [62, 62], by rw [← h1]; simp only [List.append_assoc], h2.symm⟩
  · simp at h

theorem openStream_inv {s s' : WState} {num gen : Nat} {dict : List (Bytes × Obj)} {ul : Option Int}
    (hi : Inv s) (h : openStream s num gen dict ul = .ok s') :
    Inv s' ∧ s.stm = none ∧ s'.after = s.after ∧ s'.opts = s.opts ∧ s.xref.get num = none ∧
      (∃ st, s'.stm = some st ∧ st.started = false) := by
  unfold openStream at h
  split at h
  · simp at h
  · rename_i hs
    split at h
    · simp at h
    · rename_i x n hset
      obtain ⟨hnone, hx, hn1, hn2⟩ := setXRef_ok hset
      simp only [Except.ok.injEq] at h
      subst h
      refine ⟨⟨hi.pos_eq, ?_, ?_, ?_, by have := hi.npos; simp only; omega⟩, hs, rfl, rfl, hnone, ⟨_, rfl, rfl⟩⟩
      · intro n' e hg h0 hp
        simp only at hg ⊢
        rw [hx, get_set] at hg
        split at hg
        · rename_i heq
          simp only [Option.some.injEq] at hg
          subst hg; subst heq
          right
          exact ⟨_, rfl, rfl, rfl, rfl, rfl⟩
        · rcases hi.entries n' e hg h0 hp with ha | ⟨st, h1, _⟩
          · exact .inl ha
          · simp [hs] at h1
      · intro st p h1 h2
        simp only [Option.some.injEq] at h1
        subst h1
        simp at h2
      · intro n' e hg
        simp only at hg ⊢
        rw [hx, get_set] at hg
        split at hg
        · rename_i heq; subst heq; exact hn2
        · have := hi.below n' e hg; omega

/-- `startWriting`: the pending header is written at the recorded position -/
theorem startWriting_inv {s s3 : WState} {st st' : OpenStm} {known : Option Nat}
    (hi : Inv s) (hs : s.stm = some st) (_hns : st.started = false)
    (h : startWriting s st known = .ok (s3, st')) :
    Inv { s3 with stm := some st' } ∧ st'.started = true ∧ s3.after = s.after ∧ s3.opts = s.opts ∧
      s3.xref = s.xref ∧ st'.userLen = st.userLen := by
  unfold startWriting at h
  simp only at h
  split at h
  · simp at h
  · rename_i s1 st1 value hsel
    -- what the selection of the /Length strategy leaves unchanged
    have hsame : s1.out = s.out ∧ s1.pos = s.pos ∧ s1.xref = s.xref ∧ s1.stm = s.stm ∧ s1.after = s.after ∧
        s1.opts = s.opts ∧ s.nextRef ≤ s1.nextRef ∧ st1.num = st.num ∧ st1.gen = st.gen ∧
        st1.userLen = st.userLen ∧ st1.patchPos = st.patchPos ∧
        ((st.userLen.isNone && known.isNone && s.opts.seekable) = true → value = blanks12 ∧ st1.lenRef = st.lenRef) := by
      split at hsel
      · simp only [Option.some.injEq, Prod.mk.injEq] at hsel
        obtain ⟨rfl, rfl, rfl⟩ := hsel
        rename_i l hl
        simp [hl]
      · split at hsel
        · simp only [Option.some.injEq, Prod.mk.injEq] at hsel
          obtain ⟨rfl, rfl, rfl⟩ := hsel
          simp_all
        · split at hsel
          · simp only [Option.some.injEq, Prod.mk.injEq] at hsel
            obtain ⟨rfl, rfl, rfl⟩ := hsel
            simp
          · rename_i hseek
            split at hsel
            · simp at hsel
            · rename_i sa r ha
              simp only [Option.some.injEq, Prod.mk.injEq] at hsel
              obtain ⟨rfl, rfl, rfl⟩ := hsel
              obtain ⟨_, h1, h2, h3, h4, h5, h6, _, h8⟩ := alloc_inv hi ha
              simp [h1, h2, h3, h4, h5, h6, h8, hseek]
    obtain ⟨ho, hp, hx, hstm, haf, hop, hnr, hnum, hgen, hul, hpp, hblank⟩ := hsame
    split at h
    · simp at h
    · rename_i dictBytes off hfd
      simp only [Except.ok.injEq, Prod.mk.injEq] at h
      obtain ⟨h3, hst'⟩ := h
      subst h3; subst hst'
      obtain ⟨pre, post, hdb, hoff⟩ := fmtDictLen_shape hfd
      have hpos1 : s1.pos = s.out.length := by rw [hp, hi.pos_eq]
      refine ⟨⟨?_, ?_, ?_, ?_, by have := hi.npos; simp [emit]; omega⟩, rfl, by simp [emit, haf], by simp [emit, hop], by simp [emit, hx], by simp [hul]⟩
      · simp [emit, hpos1, ho]; omega
      · intro n e hg h0 hpe
        simp only [emit, hx] at hg
        left
        simp only [emit, ho]
        rcases hi.entries n e hg h0 hpe with ha | ⟨st0, h1, _, h3, h4, h5⟩
        · exact (ha.append _).append _
        · rw [hs] at h1
          simp only [Option.some.injEq] at h1
          subst h1
          rw [h5, hi.pos_eq, Int.toNat_natCast, ← h3, ← h4]
          exact ⟨s.out, dictBytes ++ kStream ++ st1.buf, by simp, rfl⟩
      · intro st2 p h1 h2
        simp only [Option.some.injEq] at h1
        subst h1
        simp only at h2
        split at h2
        · rename_i hcond
          simp only [Option.some.injEq] at h2
          obtain ⟨hv, _⟩ := hblank hcond
          subst h2
          refine ⟨?_, ?_⟩
          · simp only [emit, ho, hdb, hv, hoff, hpos1]
            simp [blanks12]; omega
          · intro n e hg h0 hpe
            simp only [emit, hx] at hg
            rcases hi.entries n e hg h0 hpe with ha | ⟨st0, h1, _, h3, h4, h5⟩
            · have := ha.end_le; rw [hpos1]; omega
            · rw [hs] at h1
              simp only [Option.some.injEq] at h1
              subst h1
              rw [h5, hi.pos_eq, Int.toNat_natCast, hpos1, ← h3, ← h4]; omega
        · simp at h2
      · intro n e hg
        simp only [emit, hx] at hg ⊢
        have := hi.below n e hg; omega


theorem streamWrite_inv {s s' : WState} {p : Bytes} (hi : Inv s) (h : streamWrite s p = .ok s') :
    Inv s' ∧ s'.after = s.after ∧ s'.opts = s.opts ∧ (∃ st', s'.stm = some st') ∧
      (∀ n, s.xref.get n = s'.xref.get n) := by
  unfold streamWrite at h
  split at h
  · simp at h
  · rename_i st hs
    split at h
    · rename_i hst
      simp only [Except.ok.injEq] at h
      subst h
      exact ⟨emit_inv (hi.congr (s' := { s with sdata := s.sdata ++ p }) rfl rfl rfl rfl rfl) p
          (fun st0 h0 => by simp only [hs] at h0; cases h0; exact hst), rfl, rfl,
        ⟨st, by simp [emit, hs]⟩, fun _ => rfl⟩
    · rename_i hst
      have hst' : st.started = false := by simpa using hst
      split at h
      · simp only [Except.ok.injEq] at h
        subst h
        refine ⟨⟨hi.pos_eq, ?_, ?_, hi.below, hi.npos⟩, rfl, rfl, ⟨_, rfl⟩, fun _ => rfl⟩
        · intro n e hg h0 hp
          rcases hi.entries n e hg h0 hp with ha | ⟨st0, h1, h2, h3, h4, h5⟩
          · exact .inl ha
          · rw [hs] at h1; cases h1
            exact .inr ⟨_, rfl, hst', h3, h4, h5⟩
        · intro st2 p2 h1 h2
          simp only [Option.some.injEq] at h1
          subst h1
          exact hi.patch st p2 hs h2
      · split at h
        · simp at h
        · rename_i s1 st1 hsw
          simp only [Except.ok.injEq] at h
          subst h
          obtain ⟨hi1, hstarted, haf, hop, hx, _⟩ := startWriting_inv hi hs hst' hsw
          refine ⟨emit_inv (hi1.congr (s' := { s1 with stm := some st1, sdata := s.sdata ++ p }) rfl rfl rfl rfl rfl) p
              (fun st0 h0 => by simp at h0; subst h0; exact hstarted),
            by simp [emit, haf], by simp [emit, hop], ⟨st1, by simp [emit]⟩, fun n => by simp [emit, hx]⟩

/-- closing the bookkeeping of a started stream -/
theorem dropStm_inv {s : WState} (hi : Inv s) (hst : ∀ st, s.stm = some st → st.started = true) :
    Inv { s with stm := none } := by
  refine ⟨hi.pos_eq, ?_, ?_, hi.below, hi.npos⟩
  · intro n e hg h0 hp
    rcases hi.entries n e hg h0 hp with ha | ⟨st0, h1, h2, _⟩
    · exact .inl ha
    · have := hst st0 h1; simp [h2] at this
  · intro st p h1; simp at h1

/-- what the replay loop needs from the way deferred stream objects are written -/
def PutSOk (putS : WState → Nat → Nat → List (Bytes × Obj) → Option Int → Bytes → Except Err WState) : Prop :=
  ∀ {s s' : WState} {n g : Nat} {d : List (Bytes × Obj)} {ul : Option Int} {raw : Bytes},
    Inv s → s.stm = none → putS s n g d ul raw = .ok s' → Inv s' ∧ s'.stm = none ∧ s'.opts = s.opts

theorem replayWith_inv {putS} (hput : PutSOk putS) (l : List (Nat × Nat × PutObj)) :
    ∀ {s s' : WState}, Inv s → s.stm = none → replayWith putS s l = .ok s' →
      Inv s' ∧ s'.stm = none ∧ s'.opts = s.opts := by
  induction l with
  | nil => intro s s' hi hs h; simp [replayWith] at h; subst h; exact ⟨hi, hs, rfl⟩
  | cons x rest ih =>
    intro s s' hi hs h
    obtain ⟨num, gen, po⟩ := x
    cases po with
    | plain o =>
      simp only [replayWith] at h
      split at h
      · simp at h
      · rename_i s1 hp
        obtain ⟨hi1, hs1, _, hop1, _⟩ := putPlain_inv hi hs hp
        obtain ⟨a, b, c⟩ := ih hi1 hs1 h
        exact ⟨a, b, by rw [c, hop1]⟩
    | stream d ul raw =>
      simp only [replayWith] at h
      split at h
      · simp at h
      · rename_i s1 hp
        obtain ⟨hi1, hs1, hop1⟩ := hput hi hs hp
        obtain ⟨a, b, c⟩ := ih hi1 hs1 h
        exact ⟨a, b, by rw [c, hop1]⟩

theorem closeLength_inv {s s1 : WState} {st st1 : OpenStm} {len : Nat} (hi : Inv s) (hs : s.stm = some st)
    (hr : closeLength s st = .ok (s1, st1, len)) :
    ∃ stx, Inv { s1 with stm := some stx } ∧ stx.started = true ∧ s1.opts = s.opts := by
  unfold closeLength at hr
  split at hr
  · rename_i hstarted
    simp only at hr
    split at hr
    · simp only [Except.ok.injEq, Prod.mk.injEq] at hr
      obtain ⟨rfl, rfl, rfl⟩ := hr
      exact ⟨st, ⟨hi.pos_eq, by simpa [hs] using hi.entries, by simpa [hs] using hi.patch, hi.below, hi.npos⟩, hstarted, rfl⟩
    · rename_i p hlr hpp
      split at hr
      · simp at hr
      · rename_i hlen
        simp only [Except.ok.injEq, Prod.mk.injEq] at hr
        obtain ⟨rfl, rfl, rfl⟩ := hr
        obtain ⟨hp12, hends⟩ := hi.patch st p hs hpp
        have hvl : (decOf (s.pos - st.startPos)).length ≤ 12 := by omega
        have hlen' := patchAt_length s.out p (decOf (s.pos - st.startPos)) (by omega)
        refine ⟨st, ⟨?_, ?_, ?_, hi.below, hi.npos⟩, hstarted, rfl⟩
        · show s.pos = (patchAt s.out p (decOf (s.pos - st.startPos))).length
          rw [hlen', hi.pos_eq]
        · intro n e hg h0 hpe
          rcases hi.entries n e hg h0 hpe with ha | ⟨st0, h1, h2, _⟩
          · exact .inl (ha.patch p _ (hends n e hg h0 hpe))
          · rw [hs] at h1; cases h1; simp [hstarted] at h2
        · intro st2 p2 h1 h2
          simp only [Option.some.injEq] at h1
          subst h1
          rw [hpp] at h2; cases h2
          exact ⟨by simp [hlen']; exact hp12, hends⟩
    · simp only [Except.ok.injEq, Prod.mk.injEq] at hr
      obtain ⟨rfl, rfl, rfl⟩ := hr
      exact ⟨st, ⟨hi.pos_eq, by simpa [hs] using hi.entries, by simpa [hs] using hi.patch, hi.below, hi.npos⟩, hstarted, rfl⟩
  · rename_i hstarted
    have hst' : st.started = false := by simpa using hstarted
    simp only at hr
    split at hr
    · simp at hr
    · rename_i sx stx hsw
      simp only [Except.ok.injEq, Prod.mk.injEq] at hr
      obtain ⟨rfl, rfl, rfl⟩ := hr
      obtain ⟨hi1, hst1, _, hop, _, _⟩ := startWriting_inv hi hs hst' hsw
      exact ⟨_, hi1, hst1, hop⟩

theorem streamCloseWith_inv {putS} (hput : PutSOk putS) {s s' : WState} (hi : Inv s)
    (h : streamCloseWith putS s = .ok s') : Inv s' ∧ s'.stm = none ∧ s'.opts = s.opts := by
  unfold streamCloseWith at h
  split at h
  · simp at h
  · rename_i st hs
    split at h
    · simp at h
    · rename_i s1 st1 len hr
      obtain ⟨stx, hi1, hstx, hop1⟩ := closeLength_inv hi hs hr
      by_cases hc : lengthMismatch st.userLen len = true
      · simp [hc] at h
      · rw [if_neg hc] at h
        simp only at h
        have hi2 : Inv (emit { s1 with stm := some stx } (kEndstream ++ prettyNL s.opts)) :=
          emit_inv hi1 _ (fun st0 h0 => by simp at h0; subst h0; exact hstx)
        have hi3 := dropStm_inv hi2 (fun st0 h0 => by simp [emit] at h0; subst h0; exact hstx)
        have hi4 : ∀ sd, Inv ({ emit s1 (kEndstream ++ prettyNL s.opts) with stm := none, after := [], sdoc := sd } : WState) :=
          fun sd => ⟨hi3.pos_eq, hi3.entries, fun st2 p2 h1 => by simp at h1, hi3.below, hi3.npos⟩
        obtain ⟨a, b, c⟩ := replayWith_inv hput _ (hi4 _) rfl h
        exact ⟨a, b, by rw [c]; simp [emit, hop1]⟩

theorem putStreamWith_inv {close : WState → Except Err WState}
    (hclose : ∀ {s s' : WState}, Inv s → close s = .ok s' → Inv s' ∧ s'.stm = none ∧ s'.opts = s.opts)
    {s s' : WState} {num gen : Nat} {d : List (Bytes × Obj)} {ul : Option Int} {raw : Bytes}
    (hi : Inv s) (h : putStreamWith close s num gen d ul raw = .ok s') :
    Inv s' ∧ s'.stm = none ∧ s'.opts = s.opts := by
  unfold putStreamWith at h
  split at h
  · simp at h
  · rename_i s1 h1
    obtain ⟨i1, _, _, o1, _, _⟩ := openStream_inv hi h1
    split at h
    · simp at h
    · rename_i s2 h2
      obtain ⟨i2, _, o2, _, _⟩ := streamWrite_inv i1 h2
      obtain ⟨i3, b3, o3⟩ := hclose i2 h
      exact ⟨i3, b3, by rw [o3, o2, o1]⟩

theorem noDeferredStream_ok : PutSOk noDeferredStream := by
  intro s s' n g d ul raw _ _ h; simp [noDeferredStream] at h

theorem streamClose0_inv {s s' : WState} (hi : Inv s) (h : streamClose0 s = .ok s') :
    Inv s' ∧ s'.stm = none ∧ s'.opts = s.opts :=
  streamCloseWith_inv noDeferredStream_ok hi h

theorem putStream0_ok : PutSOk putStream0 := by
  intro s s' n g d ul raw hi _ h
  exact putStreamWith_inv (fun hi h => streamClose0_inv hi h) hi h

theorem streamClose_inv {s s' : WState} (hi : Inv s) (h : streamClose s = .ok s') :
    Inv s' ∧ s'.stm = none ∧ s'.opts = s.opts :=
  streamCloseWith_inv putStream0_ok hi h

theorem putStream_inv {s s' : WState} {num gen : Nat} {d : List (Bytes × Obj)} {ul : Option Int} {raw : Bytes}
    (hi : Inv s) (h : putStream s num gen d ul raw = .ok s') : Inv s' ∧ s'.stm = none ∧ s'.opts = s.opts :=
  putStreamWith_inv (fun hi h => streamClose_inv hi h) hi h

theorem put_inv {s s' : WState} {num gen : Nat} {o : PutObj} (hi : Inv s) (h : put s num gen o = .ok s') :
    Inv s' ∧ s'.opts = s.opts ∧ (s.stm = none → s'.stm = none) := by
  unfold put at h
  split at h
  · rename_i st hs
    simp only [Except.ok.injEq] at h
    subst h
    exact ⟨⟨hi.pos_eq, hi.entries, hi.patch, hi.below, hi.npos⟩, rfl, fun h0 => by simp [hs] at h0⟩
  · rename_i hs
    split at h
    · obtain ⟨a, b, _, d, _⟩ := putPlain_inv hi hs h
      exact ⟨a, d, fun _ => b⟩
    · obtain ⟨a, b, c⟩ := putStream_inv hi h
      exact ⟨a, c, fun _ => b⟩

theorem putAll_inv (l : List (Nat × Nat × Obj)) :
    ∀ {s s' : WState}, Inv s → s.stm = none → putAll s l = .ok s' → Inv s' ∧ s'.opts = s.opts ∧ s'.stm = none := by
  induction l with
  | nil => intro s s' hi hs h; simp [putAll] at h; subst h; exact ⟨hi, rfl, hs⟩
  | cons x rest ih =>
    intro s s' hi hs h
    obtain ⟨num, gen, o⟩ := x
    simp only [putAll] at h
    split at h
    · simp at h
    · rename_i s1 hp
      obtain ⟨i1, o1, n1⟩ := put_inv hi hp
      obtain ⟨a, b, c⟩ := ih i1 (n1 hs) h
      exact ⟨a, by rw [b, o1], c⟩

/-- entries for members of an object stream do not disturb the existing entries -/
theorem setEntries_ok (sRef : Nat) (l : List (Nat × Nat × Obj)) :
    ∀ {x x' : XMap} {n n' i : Nat}, setEntries sRef x n l i = some (x', n') → 0 < sRef →
      (∀ k e, x.get k = some e → x'.get k = some e) ∧
      (∀ k e, x'.get k = some e → x.get k = some e ∨ e.inStream = sRef) ∧
      (∀ k e, x'.get k = some e → x.get k = some e ∨ k < n') ∧ n ≤ n' := by
  induction l with
  | nil =>
    intro x x' n n' i h _
    simp only [setEntries, Option.some.injEq, Prod.mk.injEq] at h
    obtain ⟨rfl, rfl⟩ := h
    exact ⟨fun _ _ h => h, fun _ _ h => .inl h, fun _ _ h => .inl h, Nat.le_refl _⟩
  | cons a rest ih =>
    intro x x' n n' i h hpos
    obtain ⟨num, gen, o⟩ := a
    simp only [setEntries] at h
    split at h
    · simp at h
    · rename_i x1 n1 hset
      obtain ⟨hnone, hx, hn1, hn2⟩ := setXRef_ok hset
      obtain ⟨a1, a2, a3, a4⟩ := ih h hpos
      refine ⟨?_, ?_, ?_, by omega⟩
      · intro k e hk
        apply a1
        rw [hx, get_set]
        split
        · rename_i hkn; subst hkn; rw [hnone] at hk; cases hk
        · exact hk
      · intro k e hk
        rcases a2 k e hk with h1 | h1
        · rw [hx, get_set] at h1
          split at h1
          · simp only [Option.some.injEq] at h1; subst h1; exact .inr rfl
          · exact .inl h1
        · exact .inr h1
      · intro k e hk
        rcases a3 k e hk with h1 | h1
        · rw [hx, get_set] at h1
          split at h1
          · rename_i hkn; subst hkn; right; omega
          · exact .inl h1
        · exact .inr h1

theorem writeObjStmAt_inv {s s' : WState} {items : List (Nat × Nat × Obj)} {raw : Bytes}
    (hi : Inv s) (hs' : s.stm = none) (h : writeObjStmAt s items raw = .ok s') :
    Inv s' ∧ s'.stm = none ∧ s'.opts = s.opts := by
  unfold writeObjStmAt at h
  split at h
  · simp at h
  · rename_i s1 sRef ha
    obtain ⟨i1, ho, hp, hst, hx, _, hop, hr, hnr⟩ := alloc_inv hi ha
    split at h
    · simp at h
    · rename_i x n hse
      have hsRef : 0 < sRef := by rw [hr]; exact hi.npos
      obtain ⟨m1, m2, m3, m4⟩ := setEntries_ok sRef items hse hsRef
      split at h
      · simp at h
      · rename_i cnt first hoc
        have i2 : Inv { s1 with xref := x, nextRef := n } := by
          refine ⟨i1.pos_eq, ?_, ?_, ?_, by have := i1.npos; simp only; omega⟩
          · intro k e hg h0 hpe
            rcases m2 k e hg with h1 | h1
            · rcases i1.entries k e h1 h0 hpe with ha1 | ⟨st, hst1, _⟩
              · exact .inl ha1
              · rw [hst, hs'] at hst1; cases hst1
            · omega
          · intro st p hst1; simp only at hst1; rw [hst, hs'] at hst1; cases hst1
          · intro k e hg
            rcases m3 k e hg with h1 | h1
            · have := i1.below k e h1; simp only; omega
            · exact h1
        simp only at h
        split at h
        · simp at h
        · rename_i s2 h2
          obtain ⟨i3, _, _, o3, _, _⟩ := openStream_inv i2 h2
          split at h
          · simp at h
          · rename_i s3 h3
            obtain ⟨i4, _, o4, _, _⟩ := streamWrite_inv i3 h3
            obtain ⟨i5, n5, o5⟩ := streamClose_inv i4 h
            exact ⟨i5, n5, by rw [o5, o4, o3]; simp [hop]⟩

theorem foldl_max_ge (items : List (Nat × Nat × Obj)) : ∀ n, n ≤ items.foldl (fun n it => max n (it.1 + 1)) n := by
  induction items with
  | nil => intro n; simp
  | cons it rest ih => intro n; simp only [List.foldl_cons]; exact Nat.le_trans (Nat.le_max_left _ _) (ih _)

theorem reserveNumbers_inv {s : WState} (hi : Inv s) (items : List (Nat × Nat × Obj)) : Inv (reserveNumbers s items) := by
  have hge := foldl_max_ge items s.nextRef
  refine ⟨hi.pos_eq, hi.entries, hi.patch, ?_, ?_⟩
  · intro n e hg; have := hi.below n e hg; simp only [reserveNumbers]; omega
  · have := hi.npos; simp only [reserveNumbers]; omega

theorem writeObjStm_inv {s s' : WState} {items : List (Nat × Nat × Obj)} {raw : Bytes}
    (hi : Inv s) (hs' : s.stm = none) (h : writeObjStm s items raw = .ok s') :
    Inv s' ∧ s'.stm = none ∧ s'.opts = s.opts :=
  writeObjStmAt_inv (s := reserveNumbers s items) (reserveNumbers_inv hi items) hs' h

theorem writeObjStms_inv (fuel : Nat) : ∀ {s s' : WState} {items : List (Nat × Nat × Obj)} {raws : List Bytes},
    Inv s → s.stm = none → writeObjStms fuel s items raws = .ok s' → Inv s' ∧ s'.stm = none ∧ s'.opts = s.opts := by
  induction fuel with
  | zero => intro s s' items raws _ _ h; simp [writeObjStms] at h
  | succ fuel ih =>
    intro s s' items raws hi hs h
    simp only [writeObjStms] at h
    split at h
    · split at h
      · simp at h
      · rename_i s1 h1
        obtain ⟨a, b, c⟩ := writeObjStm_inv hi hs h1
        obtain ⟨a', b', c'⟩ := ih a b h
        exact ⟨a', b', by rw [c', c]⟩
    · exact writeObjStm_inv hi hs h

theorem writeCompressed_inv {s s' : WState} {items : List (Nat × Nat × Obj)} {raws : List Bytes}
    (hi : Inv s) (h : writeCompressed s items raws = .ok s') : Inv s' ∧ s'.opts = s.opts := by
  unfold writeCompressed at h
  split at h
  · simp at h
  · rename_i hs
    have hs' : s.stm = none := by simpa using hs
    split at h
    · simp at h
    · split at h
      · simp only [Except.ok.injEq] at h; subst h; exact ⟨hi, rfl⟩
      · split at h
        · obtain ⟨a, b, _⟩ := putAll_inv items hi hs' h
          exact ⟨a, b⟩
        · obtain ⟨a, _, c⟩ := writeObjStms_inv _ hi hs' h
          exact ⟨a, c⟩

theorem optPut_inv {s s' : WState} {o : Option Obj} {r : Option Nat} (hi : Inv s) (hs : s.stm = none)
    (h : optPut s o = .ok (s', r)) : Inv s' ∧ s'.stm = none ∧ s'.opts = s.opts := by
  unfold optPut at h
  split at h
  · simp only [Except.ok.injEq, Prod.mk.injEq] at h
    obtain ⟨rfl, _⟩ := h
    exact ⟨hi, hs, rfl⟩
  · split at h
    · simp at h
    · rename_i s1 r1 ha
      obtain ⟨i1, _, _, hst, _, _, hop, _, _⟩ := alloc_inv hi ha
      split at h
      · simp at h
      · rename_i s2 hp
        simp only [Except.ok.injEq, Prod.mk.injEq] at h
        obtain ⟨rfl, _⟩ := h
        obtain ⟨i2, o2, n2⟩ := put_inv i1 hp
        exact ⟨i2, n2 (by rw [hst, hs]), by rw [o2, hop]⟩

theorem close_inv {s s' : WState} {cat : Obj} {info : Option Obj} {tr : List (Bytes × Obj)} {raw : Bytes}
    (hi : Inv s) (h : close s cat info tr raw = .ok s') : Inv s' ∧ s'.opts = s.opts := by
  unfold close at h
  split at h
  · simp at h
  · rename_i hs
    have hs' : s.stm = none := by simpa using hs
    split at h
    · simp at h
    · rename_i s1 catRef h1
      obtain ⟨i1, n1, o1⟩ := optPut_inv hi hs' h1
      split at h
      · simp at h
      · rename_i s2 infoRef h2
        obtain ⟨i2, n2, o2⟩ := optPut_inv i1 n1 h2
        simp only at h
        split at h
        · split at h
          · simp at h
          · rename_i s3 ref ha
            obtain ⟨i3, _, _, _, _, _, o3, _, _⟩ := alloc_inv i2 ha
            split at h
            · simp at h
            · rename_i s4 h4
              obtain ⟨i4, _, _, o4, _, _⟩ := openStream_inv i3 h4
              split at h
              · simp at h
              · rename_i s5 h5
                obtain ⟨i5, _, o5, _, _⟩ := streamWrite_inv i4 h5
                split at h
                · simp at h
                · rename_i s6 h6
                  obtain ⟨i6, n6, o6⟩ := streamClose_inv i5 h6
                  simp only [Except.ok.injEq] at h
                  subst h
                  exact ⟨emit_inv i6 _ (fun st h0 => by rw [n6] at h0; cases h0),
                    by simp [emit]; rw [o6, o5, o4, o3, o2, o1]⟩
        · split at h
          · simp only [Except.ok.injEq] at h
            subst h
            refine ⟨emit_inv (emit_inv i2 _ (fun st h0 => by rw [n2] at h0; cases h0)) _
              (fun st h0 => by simp [emit, n2] at h0), by simp [emit]; rw [o2, o1]⟩
          · simp at h

/-- a failing `OpenStream` changes nothing but `nextRef` -/
theorem openStreamFail_fields {s s' : WState} {num gen : Nat} (h : openStreamFail s num gen = .ok s') :
    s.stm = none ∧ s.xref.get num = none ∧ ∃ n, s.nextRef ≤ n ∧ num < n ∧ s' = { s with nextRef := n } := by
  unfold openStreamFail at h
  split at h
  · simp at h
  · rename_i hs
    split at h
    · simp at h
    · rename_i x n hset
      obtain ⟨hnone, _, hn1, hn2⟩ := setXRef_ok hset
      simp only [Except.ok.injEq] at h
      exact ⟨hs, hnone, n, hn1, hn2, h.symm⟩

/-- an operation the model refuses leaves the state as it was -/
theorem rejected_fields {s s' : WState} {op : Op} (h : step s (.rejected op) = .ok s') : s' = s := by
  simp only [step] at h
  split at h
  · simp only [Except.ok.injEq] at h; exact h.symm
  · simp at h

theorem openStreamFail_inv {s s' : WState} {num gen : Nat} (hi : Inv s) (h : openStreamFail s num gen = .ok s') :
    Inv s' ∧ s'.opts = s.opts := by
  obtain ⟨_, _, n, hn1, _, rfl⟩ := openStreamFail_fields h
  refine ⟨⟨hi.pos_eq, hi.entries, hi.patch, ?_, by have := hi.npos; simp only; omega⟩, rfl⟩
  intro k e hg
  have := hi.below k e hg
  simp only; omega

theorem step_inv {s s' : WState} {op : Op} (hi : Inv s) (h : step s op = .ok s') : Inv s' ∧ s'.opts = s.opts := by
  cases op with
  | alloc =>
    simp only [step] at h
    split at h
    · rename_i s1 r ha
      simp only [Except.ok.injEq] at h
      subst h
      obtain ⟨i1, _, _, _, _, _, o1, _, _⟩ := alloc_inv hi ha
      exact ⟨i1, o1⟩
    · simp at h
  | put num gen o => obtain ⟨a, b, _⟩ := put_inv hi h; exact ⟨a, b⟩
  | openStream num gen dict ul => obtain ⟨a, _, _, b, _, _⟩ := openStream_inv hi h; exact ⟨a, b⟩
  | write p => obtain ⟨a, _, b, _, _⟩ := streamWrite_inv hi h; exact ⟨a, b⟩
  | closeStream => obtain ⟨a, _, b⟩ := streamClose_inv hi h; exact ⟨a, b⟩
  | writeCompressed items raw => exact writeCompressed_inv hi h
  | close cat info tr raw => exact close_inv hi h
  | openStreamFail num gen => exact openStreamFail_inv hi h
  | rejected op => rw [rejected_fields h]; exact ⟨hi, rfl⟩

theorem run_inv (ops : List Op) : ∀ {s s' : WState} {i : Nat}, Inv s → run s ops i = .ok s' → Inv s' := by
  induction ops with
  | nil => intro s s' i hi h; simp [run] at h; subst h; exact hi
  | cons op rest ih =>
    intro s s' i hi h
    simp only [run] at h
    split at h
    · simp at h
    · rename_i s1 h1
      exact ih (step_inv hi h1).1 h

/-- **pos_invariant.**  For every option set, every program (any operations in any order, any
objects, any stream bytes — i.e. any behaviour of the filters and ciphers) which the writer
model accepts: the position counter equals the number of bytes written, and every in-use
cross-reference entry that is not in an object stream records exactly the offset at which
`N G obj` for that number and generation starts in the output (for a stream that is still open
and has not been started, the offset at which it will start).  This includes the seek-back
patch of `/Length`, which overwrites bytes behind all object headers and preserves the length. -/
theorem pos_invariant (o : WOpts) (s0 s : WState) (ops : List Op)
    (h0 : initState o = some s0) (h : run s0 ops 0 = .ok s) :
    s.pos = s.out.length ∧
    ∀ n e, s.xref.get n = some e → e.inStream = 0 → 0 ≤ e.pos →
      At s.out e.pos.toNat (objHeader n e.gen) ∨
      (∃ st, s.stm = some st ∧ st.started = false ∧ st.num = n ∧ st.gen = e.gen ∧ e.pos = (s.pos : Int)) := by
  have hi := run_inv ops (init_inv o s0 h0) h
  exact ⟨hi.pos_eq, hi.entries⟩

/-- after `Close` no stream is open: every in-use entry points at its header -/
theorem pos_invariant_closed (o : WOpts) (s0 s : WState) (ops : List Op)
    (h0 : initState o = some s0) (h : run s0 ops 0 = .ok s) (hc : s.stm = none) :
    ∀ n e, s.xref.get n = some e → e.inStream = 0 → 0 ≤ e.pos →
      At s.out e.pos.toNat (objHeader n e.gen) := by
  intro n e hg hi0 hp
  rcases (pos_invariant o s0 s ops h0 h).2 n e hg hi0 hp with ha | ⟨st, h1, _⟩
  · exact ha
  · rw [hc] at h1; cases h1


-- non-vacuity: a program with a long stream on a seekable sink (12 reserved bytes, patched at
-- the close), an object put while the stream is open (deferred) and `Close` is accepted; the
-- deferred object 3 ends up at offset 1120 and `3 0 obj` stands there
def exOpts : WOpts := { version := 5, human := false, seekable := true, encrypted := false }
def exProg : List Op :=
  [.alloc, .alloc, .alloc, .put 1 0 (.plain (.int 5)), .openStream 2 0 [] none, .write (List.replicate 1030 65),
   .put 3 0 (.plain (.name [65])), .closeStream, .close (.dict [([84], .int 1)]) none [] []]
example : (match initState exOpts with
    | some s0 => (match run s0 exProg 0 with
      | .ok s => s.xref.get 3 == some ⟨0, 1120, 0⟩ && isPrefixOf (objHeader 3 0) (s.out.drop 1120) && s.stm.isNone
      | _ => false)
    | none => false) = true := by decide +kernel
-- the same on a sink that cannot seek: the length becomes indirect object 4, written after the stream
example : (match initState { exOpts with seekable := false } with
    | some s0 => (match run s0 exProg 0 with
      | .ok s => (s.xref.get 4).isSome && s.nextRef == 6
      | _ => false)
    | none => false) = true := by decide +kernel

/-! ## put_once: an entry, once made, is never changed; a second definition is refused -/

/-- every entry of `s` is still the entry of `s'` -/
def Mono (s s' : WState) : Prop := ∀ n e, s.xref.get n = some e → s'.xref.get n = some e

theorem Mono.refl (s : WState) : Mono s s := fun _ _ h => h
theorem Mono.trans {a b c : WState} (h1 : Mono a b) (h2 : Mono b c) : Mono a c :=
  fun n e h => h2 n e (h1 n e h)
theorem Mono.of_eq {s s' : WState} (h : s'.xref = s.xref) : Mono s s' := fun n e hg => by rw [h]; exact hg

theorem alloc_xref {s s' : WState} {r : Nat} (h : alloc s = some (s', r)) : s'.xref = s.xref := by
  unfold alloc at h
  split at h
  · simp at h
  · simp only [Option.some.injEq, Prod.mk.injEq] at h
    obtain ⟨rfl, _⟩ := h; rfl

theorem setXRef_mono {m x : XMap} {nr num n : Nat} {e : XEntry} (h : setXRef m nr num e = some (x, n)) :
    ∀ k e', m.get k = some e' → x.get k = some e' := by
  obtain ⟨hnone, hx, _, _⟩ := setXRef_ok h
  intro k e' hk
  rw [hx, get_set]
  split
  · rename_i hkn; subst hkn; rw [hnone] at hk; cases hk
  · exact hk

theorem putPlain_mono {s s' : WState} {num gen : Nat} {o : Obj} (h : putPlain s num gen o = .ok s') : Mono s s' := by
  unfold putPlain at h
  split at h
  · simp at h
  · rename_i x n hset
    split at h
    · simp at h
    · simp only [Except.ok.injEq] at h
      subst h
      exact fun k e hk => by simpa [emit] using setXRef_mono hset k e hk

theorem openStream_mono {s s' : WState} {num gen : Nat} {d : List (Bytes × Obj)} {ul : Option Int}
    (h : openStream s num gen d ul = .ok s') : Mono s s' := by
  unfold openStream at h
  split at h
  · simp at h
  · split at h
    · simp at h
    · rename_i x n hset
      simp only [Except.ok.injEq] at h
      subst h
      exact fun k e hk => setXRef_mono hset k e hk

theorem startWriting_xref {s s3 : WState} {st st' : OpenStm} {known : Option Nat}
    (h : startWriting s st known = .ok (s3, st')) : s3.xref = s.xref := by
  unfold startWriting at h
  simp only at h
  split at h
  · simp at h
  · rename_i s1 st1 value hsel
    have hx : s1.xref = s.xref := by
      split at hsel
      · simp only [Option.some.injEq, Prod.mk.injEq] at hsel; obtain ⟨rfl, _, _⟩ := hsel; rfl
      · split at hsel
        · simp only [Option.some.injEq, Prod.mk.injEq] at hsel; obtain ⟨rfl, _, _⟩ := hsel; rfl
        · split at hsel
          · simp only [Option.some.injEq, Prod.mk.injEq] at hsel; obtain ⟨rfl, _, _⟩ := hsel; rfl
          · split at hsel
            · simp at hsel
            · rename_i sa r ha
              simp only [Option.some.injEq, Prod.mk.injEq] at hsel
              obtain ⟨rfl, _, _⟩ := hsel
              exact alloc_xref ha
    split at h
    · simp at h
    · simp only [Except.ok.injEq, Prod.mk.injEq] at h
      obtain ⟨rfl, _⟩ := h
      simp [emit, hx]

theorem streamWrite_mono {s s' : WState} {p : Bytes} (h : streamWrite s p = .ok s') : Mono s s' := by
  unfold streamWrite at h
  split at h
  · simp at h
  · split at h
    · simp only [Except.ok.injEq] at h; subst h; exact Mono.of_eq rfl
    · split at h
      · simp only [Except.ok.injEq] at h; subst h; exact Mono.of_eq rfl
      · split at h
        · simp at h
        · rename_i s1 st1 hsw
          simp only [Except.ok.injEq] at h; subst h
          exact Mono.of_eq (by simp [emit, startWriting_xref hsw])

theorem replayWith_mono {putS}
    (hput : ∀ {s s' : WState} {n g : Nat} {d : List (Bytes × Obj)} {ul : Option Int} {raw : Bytes},
      putS s n g d ul raw = .ok s' → Mono s s')
    (l : List (Nat × Nat × PutObj)) : ∀ {s s' : WState}, replayWith putS s l = .ok s' → Mono s s' := by
  induction l with
  | nil => intro s s' h; simp [replayWith] at h; subst h; exact Mono.refl _
  | cons x rest ih =>
    intro s s' h
    obtain ⟨num, gen, po⟩ := x
    cases po with
    | plain o =>
      simp only [replayWith] at h
      split at h
      · simp at h
      · rename_i s1 hp; exact (putPlain_mono hp).trans (ih h)
    | stream d ul raw =>
      simp only [replayWith] at h
      split at h
      · simp at h
      · rename_i s1 hp; exact (hput hp).trans (ih h)

theorem closeLength_xref {s s1 : WState} {st st1 : OpenStm} {len : Nat}
    (h : closeLength s st = .ok (s1, st1, len)) : s1.xref = s.xref := by
  unfold closeLength at h
  split at h
  · simp only at h
    split at h
    · simp only [Except.ok.injEq, Prod.mk.injEq] at h; obtain ⟨rfl, _, _⟩ := h; rfl
    · split at h
      · simp at h
      · simp only [Except.ok.injEq, Prod.mk.injEq] at h; obtain ⟨rfl, _, _⟩ := h; rfl
    · simp only [Except.ok.injEq, Prod.mk.injEq] at h; obtain ⟨rfl, _, _⟩ := h; rfl
  · simp only at h
    split at h
    · simp at h
    · rename_i sx stx hsw
      simp only [Except.ok.injEq, Prod.mk.injEq] at h
      obtain ⟨rfl, _, _⟩ := h
      exact startWriting_xref hsw

theorem streamCloseWith_mono {putS}
    (hput : ∀ {s s' : WState} {n g : Nat} {d : List (Bytes × Obj)} {ul : Option Int} {raw : Bytes},
      putS s n g d ul raw = .ok s' → Mono s s')
    {s s' : WState} (h : streamCloseWith putS s = .ok s') : Mono s s' := by
  unfold streamCloseWith at h
  split at h
  · simp at h
  · split at h
    · simp at h
    · rename_i s1 st1 len hr
      split at h
      · simp at h
      · simp only at h
        have hx := closeLength_xref hr
        intro k e hk
        exact replayWith_mono hput _ h k e (by simpa [emit, hx] using hk)

theorem putStreamWith_mono {close : WState → Except Err WState}
    (hclose : ∀ {s s' : WState}, close s = .ok s' → Mono s s')
    {s s' : WState} {num gen : Nat} {d : List (Bytes × Obj)} {ul : Option Int} {raw : Bytes}
    (h : putStreamWith close s num gen d ul raw = .ok s') : Mono s s' := by
  unfold putStreamWith at h
  split at h
  · simp at h
  · rename_i s1 h1
    split at h
    · simp at h
    · rename_i s2 h2
      exact ((openStream_mono h1).trans (streamWrite_mono h2)).trans (hclose h)

theorem streamClose0_mono {s s' : WState} (h : streamClose0 s = .ok s') : Mono s s' :=
  streamCloseWith_mono (fun h => by simp [noDeferredStream] at h) h

theorem streamClose_mono {s s' : WState} (h : streamClose s = .ok s') : Mono s s' :=
  streamCloseWith_mono (fun h => putStreamWith_mono (fun h => streamClose0_mono h) h) h

theorem put_mono {s s' : WState} {num gen : Nat} {o : PutObj} (h : put s num gen o = .ok s') : Mono s s' := by
  unfold put at h
  split at h
  · simp only [Except.ok.injEq] at h; subst h; exact Mono.of_eq rfl
  · split at h
    · exact putPlain_mono h
    · exact putStreamWith_mono (fun h => streamClose_mono h) h

theorem putAll_mono (l : List (Nat × Nat × Obj)) : ∀ {s s' : WState}, putAll s l = .ok s' → Mono s s' := by
  induction l with
  | nil => intro s s' h; simp [putAll] at h; subst h; exact Mono.refl _
  | cons x rest ih =>
    intro s s' h
    obtain ⟨num, gen, o⟩ := x
    simp only [putAll] at h
    split at h
    · simp at h
    · rename_i s1 hp; exact (put_mono hp).trans (ih h)

theorem setEntries_mono (sRef : Nat) (l : List (Nat × Nat × Obj)) :
    ∀ {x x' : XMap} {n n' i : Nat}, setEntries sRef x n l i = some (x', n') →
      ∀ k e, x.get k = some e → x'.get k = some e := by
  induction l with
  | nil =>
    intro x x' n n' i h
    simp only [setEntries, Option.some.injEq, Prod.mk.injEq] at h
    obtain ⟨rfl, rfl⟩ := h
    exact fun _ _ h => h
  | cons a rest ih =>
    intro x x' n n' i h k e hk
    obtain ⟨num, gen, o⟩ := a
    simp only [setEntries] at h
    split at h
    · simp at h
    · rename_i x1 n1 hset
      exact ih h k e (setXRef_mono hset k e hk)

theorem writeObjStmAt_mono {s s' : WState} {items : List (Nat × Nat × Obj)} {raw : Bytes}
    (h : writeObjStmAt s items raw = .ok s') : Mono s s' := by
  unfold writeObjStmAt at h
  split at h
  · simp at h
  · rename_i s1 sRef ha
    split at h
    · simp at h
    · rename_i x n hse
      split at h
      · simp at h
      · simp only at h
        split at h
        · simp at h
        · rename_i s2 h2
          split at h
          · simp at h
          · rename_i s3 h3
            have m0 : Mono s { s1 with xref := x, nextRef := n } := by
              intro k e hk
              exact setEntries_mono sRef items hse k e (by rw [alloc_xref ha]; exact hk)
            exact ((m0.trans (openStream_mono h2)).trans (streamWrite_mono h3)).trans (streamClose_mono h)

theorem writeObjStm_mono {s s' : WState} {items : List (Nat × Nat × Obj)} {raw : Bytes}
    (h : writeObjStm s items raw = .ok s') : Mono s s' :=
  (Mono.of_eq (s := s) (s' := reserveNumbers s items) rfl).trans (writeObjStmAt_mono h)

theorem writeObjStms_mono (fuel : Nat) : ∀ {s s' : WState} {items : List (Nat × Nat × Obj)} {raws : List Bytes},
    writeObjStms fuel s items raws = .ok s' → Mono s s' := by
  induction fuel with
  | zero => intro s s' items raws h; simp [writeObjStms] at h
  | succ fuel ih =>
    intro s s' items raws h
    simp only [writeObjStms] at h
    split at h
    · split at h
      · simp at h
      · rename_i s1 h1; exact (writeObjStm_mono h1).trans (ih h)
    · exact writeObjStm_mono h

theorem writeCompressed_mono {s s' : WState} {items : List (Nat × Nat × Obj)} {raws : List Bytes}
    (h : writeCompressed s items raws = .ok s') : Mono s s' := by
  unfold writeCompressed at h
  split at h
  · simp at h
  · split at h
    · simp at h
    · split at h
      · simp only [Except.ok.injEq] at h; subst h; exact Mono.refl _
      · split at h
        · exact putAll_mono items h
        · exact writeObjStms_mono _ h

theorem optPut_mono {s s' : WState} {o : Option Obj} {r : Option Nat} (h : optPut s o = .ok (s', r)) : Mono s s' := by
  unfold optPut at h
  split at h
  · simp only [Except.ok.injEq, Prod.mk.injEq] at h; obtain ⟨rfl, _⟩ := h; exact Mono.refl _
  · split at h
    · simp at h
    · rename_i s1 r1 ha
      split at h
      · simp at h
      · rename_i s2 hp
        simp only [Except.ok.injEq, Prod.mk.injEq] at h
        obtain ⟨rfl, _⟩ := h
        exact (Mono.of_eq (alloc_xref ha)).trans (put_mono hp)

theorem close_mono {s s' : WState} {cat : Obj} {info : Option Obj} {tr : List (Bytes × Obj)} {raw : Bytes}
    (h : close s cat info tr raw = .ok s') : Mono s s' := by
  unfold close at h
  split at h
  · simp at h
  · split at h
    · simp at h
    · rename_i s1 catRef h1
      split at h
      · simp at h
      · rename_i s2 infoRef h2
        have m2 := (optPut_mono h1).trans (optPut_mono h2)
        simp only at h
        split at h
        · split at h
          · simp at h
          · rename_i s3 ref ha
            split at h
            · simp at h
            · rename_i s4 h4
              split at h
              · simp at h
              · rename_i s5 h5
                split at h
                · simp at h
                · rename_i s6 h6
                  simp only [Except.ok.injEq] at h; subst h
                  have := (((m2.trans (Mono.of_eq (alloc_xref ha))).trans (openStream_mono h4)).trans
                    (streamWrite_mono h5)).trans (streamClose_mono h6)
                  exact fun k e hk => by simpa [emit] using this k e hk
        · split at h
          · simp only [Except.ok.injEq] at h; subst h
            exact fun k e hk => by simpa [emit] using m2 k e hk
          · simp at h

theorem step_mono {s s' : WState} {op : Op} (h : step s op = .ok s') : Mono s s' := by
  cases op with
  | alloc =>
    simp only [step] at h
    split at h
    · rename_i s1 r ha
      simp only [Except.ok.injEq] at h; subst h
      exact Mono.of_eq (alloc_xref ha)
    · simp at h
  | put num gen o => exact put_mono h
  | openStream num gen dict ul => exact openStream_mono h
  | write p => exact streamWrite_mono h
  | closeStream => exact streamClose_mono h
  | writeCompressed items raw => exact writeCompressed_mono h
  | close cat info tr raw => exact close_mono h
  | openStreamFail num gen =>
    obtain ⟨_, _, n, _, _, rfl⟩ := openStreamFail_fields h
    exact Mono.of_eq rfl
  | rejected op => rw [rejected_fields h]; exact Mono.refl s

theorem run_mono (ops : List Op) : ∀ {s s' : WState} {i : Nat}, run s ops i = .ok s' → Mono s s' := by
  induction ops with
  | nil => intro s s' i h; simp [run] at h; subst h; exact Mono.refl _
  | cons op rest ih =>
    intro s s' i h
    simp only [run] at h
    split at h
    · simp at h
    · rename_i s1 h1; exact (step_mono h1).trans (ih h)

/-- **put_once.**  In every accepted program a cross-reference entry, once made, stays as it is
to the end (`run_mono`), and an operation that would define a number a second time is refused:
`Put`, `OpenStream` and every member of `WriteCompressed` go through `setXRef`, which fails on a
number that already has an entry. -/
theorem put_once (s s' : WState) (ops : List Op) (i : Nat) (h : run s ops i = .ok s')
    (n : Nat) (e : XEntry) (he : s.xref.get n = some e) :
    s'.xref.get n = some e ∧
    (∀ gen o, s.stm = none → ∃ err, put s n gen (.plain o) = .error err) ∧
    (∀ gen d ul, ∃ err, openStream s n gen d ul = .error err) := by
  refine ⟨run_mono ops h n e he, ?_, ?_⟩
  · intro gen o hs
    simp [put, hs, putPlain, setXRef_dup he]
  · intro gen d ul
    unfold openStream
    split
    · exact ⟨_, rfl⟩
    · simp [setXRef_dup he]


-- non-vacuity of `put_once`: after `Put 1` a second `Put 1` fails at operation 3
example : (match initState exOpts with
    | some s0 => (match run s0 [.alloc, .alloc, .put 1 0 (.plain (.int 5)), .put 1 0 (.plain (.int 6))] 0 with
      | .error (i, _) => i == 3
      | _ => false)
    | none => false) = true := by decide +kernel

/-- **openStream_fail_no_entry.**  An `OpenStream` that fails after entering its cross-reference
entry leaves no entry behind: the table, the output, the position, the open-stream state and the
queue are what they were; only `nextRef` may have been pushed past the number.  In particular the
number can be defined afterwards (the retry is not refused as a second definition), and nothing
points at the bytes written next. -/
theorem openStream_fail_no_entry {s s' : WState} {num gen : Nat} (h : step s (.openStreamFail num gen) = .ok s') :
    s'.xref = s.xref ∧ s'.xref.get num = none ∧ s'.out = s.out ∧ s'.pos = s.pos ∧ s'.stm = none ∧
      s'.after = s.after ∧ s.nextRef ≤ s'.nextRef ∧ num < s'.nextRef := by
  obtain ⟨hs, hnone, n, hn1, hn2, rfl⟩ := openStreamFail_fields (show openStreamFail s num gen = .ok s' from h)
  exact ⟨rfl, hnone, rfl, rfl, hs, rfl, hn1, hn2⟩

/-- after the failure the same number can be opened again -/
theorem openStream_retry_after_fail {s s1 : WState} {num gen : Nat} {d : List (Bytes × Obj)} {ul : Option Int}
    (h : step s (.openStreamFail num gen) = .ok s1) : ∃ s2, openStream s1 num gen d ul = .ok s2 := by
  obtain ⟨hs, hnone, n, _, _, rfl⟩ := openStreamFail_fields (show openStreamFail s num gen = .ok s1 from h)
  unfold openStream
  simp only [hs]
  simp [setXRef, hnone]

end PdfVerif.C02fiob

import PdfVerif.Props.C13ccf
/-!
# C13 (part 7) — ToUnicode: parent chains, `All` with the `Decode` filter
-/
namespace PdfVerif.C13ccg
open PdfVerif PdfVerif.CC PdfVerif.C13cc PdfVerif.C13ccb PdfVerif.C13ccc PdfVerif.C13ccd PdfVerif.C13ccf

/-! ## ToUnicode: parents, and `All` with its `Decode` filter -/

theorem tuLookup_cons (f : TUFile) (parents : TUChain) (bytes : Bytes) :
    tuLookup (f :: parents) bytes =
      match tuLookup [f] bytes with
      | some v => some v
      | none => tuLookup parents bytes := by
  simp only [tuLookup]
  cases findTUSingle bytes f.singles with
  | some v => rfl
  | none =>
    simp only
    cases findTURange bytes f.ranges with
    | some v => rfl
    | none => rfl

/-- **`tounicode_lookup` with a parent chain** (`usecmap`): the child's entries shadow the
parents', every other byte string gets the parents' answer. -/
theorem tounicode_lookup_parents (csr : CSR) (data : List (Nat × Text)) (f : TUFile) (codec : Codec)
    (parents : TUChain)
    (hc : newCodec csr = .ok codec) (h : newToUnicodeFile csr data = .ok f)
    (hfun : ∀ p ∈ data, ∀ q ∈ data, codec.appendCode p.1 = codec.appendCode q.1 → p.2 = q.2) :
    (∀ p ∈ data, ∃ bs, codec.appendCode p.1 = .ok bs ∧ tuLookup (f :: parents) bs = some p.2) ∧
    (∀ bs, (∀ p ∈ data, codec.appendCode p.1 ≠ .ok bs) → tuLookup (f :: parents) bs = tuLookup parents bs) := by
  obtain ⟨l1, l2⟩ := tounicode_lookup csr data f codec hc h hfun
  constructor
  · intro p hp
    obtain ⟨bs, h1, h2⟩ := l1 p hp
    exact ⟨bs, h1, by rw [tuLookup_cons, h2]⟩
  · intro bs hno
    rw [tuLookup_cons, l2 bs hno]

/-- **`tounicode_all`.**  `ToUnicodeFile.All` (with the `Decode` filter) on the file built by
`NewToUnicodeFile` yields exactly the pairs `(code, text)` of the map whose code is valid for
the codec — provided the enumeration budget is not exhausted. -/
theorem tounicode_all (csr : CSR) (data : List (Nat × Text)) (f : TUFile) (codec : Codec)
    (hc : newCodec csr = .ok codec) (h : newToUnicodeFile csr data = .ok f)
    (hb : tuRangesDemand f.ranges + f.singles.length ≤ Gen.limits_MaxCMapMappings) :
    ∃ out, tuAll [f] codec = .ok out ∧
      ∀ code v, (code, v) ∈ out ↔
        ∃ p ∈ data, p.2 = v ∧ ∃ bs, codec.appendCode p.1 = .ok bs ∧ codec.decode bs = .ok (code, bs.length, true) := by
  have hmem := tounicode_all_bytes csr data f codec hc h Gen.limits_MaxCMapMappings hb
    (by simp [Gen.limits_MaxCMapMappings, maxInt32])
  unfold tuAll
  simp only [List.reverse_cons, List.reverse_nil, List.nil_append]
  obtain ⟨out, ho, hm⟩ := decodeItems_spec codec (tuItemsFiles [f] Gen.limits_MaxCMapMappings) (by
    intro it hit
    obtain ⟨p, hp, h1, _⟩ := (hmem it.1 it.2).mp hit
    obtain ⟨bs', _, h2, _, _, h3, _⟩ := C12ccd.append_then_decode csr codec hc p.1
    rw [h1] at h2; injection h2 with h2; subst h2
    obtain ⟨code, n, v, hd, _⟩ := C12ccc.newCodec_decode_consumed csr codec hc it.1 h3
    exact ⟨_, hd⟩)
  refine ⟨out, ho, ?_⟩
  intro code v
  rw [hm]
  constructor
  · rintro ⟨bs, h1, h2⟩
    obtain ⟨p, hp, p1, p2⟩ := (hmem bs v).mp h1
    exact ⟨p, hp, p2, bs, p1, h2⟩
  · rintro ⟨p, hp, rfl, bs, h1, h2⟩
    exact ⟨bs, (hmem bs p.2).mpr ⟨p, hp, h1, rfl⟩, h2⟩

end PdfVerif.C13ccg

import PdfVerif.Lemmas.C01Num
/-!
# C01 (part b) — lexical round trips: strings and numbers

`string_rt_literal`, `string_rt_hex`, `string_rt` (model of `types.go:formatString` read by the
model of `scanner.go:ReadString/ReadHexString`), `int_rt`, `parseInt64_intDec`, `real_token_rt`,
`bool_null_rt`.  All statements are for every input, with the size caps the scanner enforces
as explicit hypotheses.
-/
namespace PdfVerif.C01b
open PdfVerif PdfVerif.C01L

/-! ## literal strings -/

/-- Invariant of the two passes of `formatString`: while `level ≤` the number of closing
parentheses still to come, the reader (at bracket level `level + 1`) reproduces the rest of
the string and stops exactly at the final `)`. -/
theorem strBody_rt (rest : Bytes) (s : Bytes) :
    ∀ (prev : Option Nat) (level len fuel : Nat),
      level ≤ countClose s →
      len + s.length ≤ Gen.scanner_maxStringBytes →
      fuel ≥ (fmtStrLoop prev level (countClose s) s).length + 2 →
      readStringBody fuel (level + 1) false len
        (fmtStrLoop prev level (countClose s) s ++ 41 :: rest) = .ok (s, rest) := by
  induction s with
  | nil =>
    intro prev level len fuel hl hlen hf
    cases fuel with
    | zero => omega
    | succ f =>
      simp [countClose] at hl
      have : ¬ (len > Gen.scanner_maxStringBytes) := by simp at hlen; omega
      simp [fmtStrLoop, readStringBody, this, hl]
  | cons c cs ih =>
    intro prev level len fuel hl hlen hf
    have hlen' : ¬ (len > Gen.scanner_maxStringBytes) := by simp at hlen; omega
    have hlen2 : len + 1 + cs.length ≤ Gen.scanner_maxStringBytes := by simp at hlen; omega
    cases fuel with
    | zero => omega
    | succ f =>
      by_cases h13 : c = 13
      · subst h13
        simp [fmtStrLoop, countClose] at hf hl ⊢
        simp [readStringBody, hlen']
        rw [ih (some 13) level (len+1) f hl hlen2 (by omega)]
        simp
      by_cases h10 : c = 10
      · subst h10
        simp [fmtStrLoop, countClose] at hf hl ⊢
        split at hf <;> rename_i hh <;> simp [hh] at hf ⊢ <;> simp [readStringBody, hlen'] <;>
          rw [ih (some 10) level (len+1) f hl hlen2 (by omega)] <;> simp
      by_cases h40 : c = 40
      · subst h40
        simp [fmtStrLoop, countClose] at hf hl ⊢
        split at hf <;> rename_i hh <;> simp [hh] at hf ⊢ <;> simp [readStringBody, hlen']
        · rw [ih (some 40) (level+1) (len+1) f (by omega) hlen2 (by omega)]; simp
        · rw [ih (some 40) level (len+1) f hl hlen2 (by omega)]; simp [isOct]
      by_cases h41 : c = 41
      · subst h41
        simp [fmtStrLoop, countClose] at hf hl ⊢
        split at hf <;> rename_i hh <;> simp [hh] at hf ⊢ <;> simp [readStringBody, hlen']
        · have hne : ¬ (level = 0) := by omega
          simp [hne]
          have := ih (some 41) (level-1) (len+1) f (by omega) hlen2 (by omega)
          rw [show level - 1 + 1 = level by omega] at this
          rw [this]; simp
        · rw [ih (some 41) level (len+1) f (by omega) hlen2 (by omega)]; simp [isOct]
      by_cases h92 : c = 92
      · subst h92
        simp [fmtStrLoop, countClose] at hf hl ⊢
        simp [readStringBody, hlen']
        rw [ih (some 92) level (len+1) f hl hlen2 (by omega)]; simp [isOct]
      · have hcc : countClose (c :: cs) = countClose cs := by simp [countClose, h41]
        rw [hcc] at hf hl ⊢
        simp [fmtStrLoop, h13, h10, h40, h41, h92] at hf ⊢
        simp [readStringBody, hlen', h13, h40, h41, h92]
        rw [ih (some c) level (len+1) f hl hlen2 (by omega)]; simp

/-- **Literal string round trip.**  For every byte string `s` of at most `maxStringBytes` bytes
and every continuation `rest`: `ReadString` on what `formatString` wrote after the opening
parenthesis returns `s` and stops exactly before `rest`.  Covers CR/LF escaping, backslash,
balanced and unbalanced parentheses. -/
theorem string_rt_literal (s : Bytes) (hlen : s.length ≤ Gen.scanner_maxStringBytes) (rest : Bytes) :
    ∃ body, fmtStrLiteral s = 40 :: body ∧ readString (body ++ rest) = .ok (s, rest) := by
  refine ⟨fmtStrLoop none 0 (countClose s) s ++ [41], by simp [fmtStrLiteral], ?_⟩
  have := strBody_rt rest s none 0 0 ((fmtStrLoop none 0 (countClose s) s ++ [41] ++ rest).length + 1)
    (by omega) (by omega) (by simp)
  simpa [readString] using this

example : (match readString ((fmtStrLiteral [40, 13, 10, 41, 41, 92, 40, 10, 0, 255]).drop 1 ++ [47]) with
    | .ok (s, r) => s == [40, 13, 10, 41, 41, 92, 40, 10, 0, 255] && r == [47] | _ => false) = true := by
  decide +kernel

/-! ## hexadecimal strings -/

theorem byte_hex : ∀ b, b < 256 →
    hexVal (hexLower (b / 16)) = some (b / 16) ∧ hexVal (hexLower (b % 16)) = some (b % 16) ∧
    hexLower (b / 16) ≠ 62 ∧ hexLower (b % 16) ≠ 62 ∧ 16 * (b / 16) + b % 16 = b := by
  decide +kernel

def hexBody (s : Bytes) : Bytes := s.flatMap (fun b => [hexLower (b / 16), hexLower (b % 16)])

theorem hexBody_rt (rest : Bytes) (s : Bytes) (hs : AllBytes s) :
    ∀ len, len + s.length ≤ Gen.scanner_maxStringBytes →
      readHexBody none len (hexBody s ++ 62 :: rest) = .ok (s, rest) := by
  induction s with
  | nil => intro len _; simp [hexBody, readHexBody]
  | cons b bs ih =>
    intro len hlen
    have hb : b < 256 := by simp at hs; exact hs.1
    have hbs : AllBytes bs := by simp at hs; exact hs.2
    obtain ⟨h1, h2, h3, h4, h5⟩ := byte_hex b hb
    have hl : ¬ (len ≥ Gen.scanner_maxStringBytes) := by simp at hlen; omega
    have := ih hbs (len + 1) (by simp at hlen; omega)
    simp only [hexBody] at this
    simp [hexBody, readHexBody, h1, h2, h3, h4, hl, this, h5]

/-- **Hex string round trip** (`fmt.Fprintf("<%x>")` read by `ReadHexString`). -/
theorem string_rt_hex (s : Bytes) (hs : AllBytes s) (hlen : s.length ≤ Gen.scanner_maxStringBytes)
    (rest : Bytes) :
    ∃ body, fmtStrHex s = 60 :: body ∧ readHexString (body ++ rest) = .ok (s, rest) := by
  refine ⟨hexBody s ++ [62], by simp [fmtStrHex, hexBody], ?_⟩
  have := hexBody_rt rest s hs 0 (by omega)
  simpa [readHexString] using this

example : (match readHexString ((fmtStrHex [0, 10, 255, 62, 60]).drop 1 ++ [47]) with
    | .ok (s, r) => s == [0, 10, 255, 62, 60] && r == [47] | _ => false) = true := by decide +kernel

/-- **String round trip through `ReadObject`**, for either value of `pretty` (literal or hex
form, whichever `formatString` chooses): the string object is read back and the scanner stops
exactly before `rest`. -/
theorem string_rt (pretty : Bool) (s : Bytes) (hs : AllBytes s)
    (hlen : s.length ≤ Gen.scanner_maxStringBytes) (rest : Bytes) (fuel depth : Nat) :
    readObject (fuel + 1) depth (fmtString pretty s ++ rest) = .ok (.str s, rest) := by
  unfold fmtString
  simp only []
  split
  · have hr := hexBody_rt rest s hs 0 (by omega)
    have hne : (hexBody s ++ 62 :: rest).head? ≠ some 60 := by
      cases s with
      | nil => simp [hexBody]
      | cons b bs =>
        have hb : b < 256 := by simp at hs; exact hs.1
        have : ∀ b, b < 256 → hexLower (b / 16) ≠ 60 := by decide +kernel
        simpa [hexBody] using this b hb
    have e : fmtStrHex s ++ rest = 60 :: (hexBody s ++ 62 :: rest) := by simp [fmtStrHex, hexBody]
    rw [e]
    generalize hexBody s ++ 62 :: rest = body at hr hne
    simp [readObject, startsWith, isPrefixOf, kw_null, kw_true, kw_false, isDigit, hne, readHexString]
    rw [hr]; rfl
  · obtain ⟨body, hb, hr⟩ := string_rt_literal s hlen rest
    rw [hb]
    simp [readObject, startsWith, isPrefixOf, kw_null, kw_true, kw_false, isDigit]
    rw [hr]; rfl

example : (match readObject 1 0 (fmtString true [0, 1, 2, 40] ++ [47]) with
    | .ok (.str s, r) => s == [0, 1, 2, 40] && r == [47] | _ => false) = true := by decide +kernel
example : (match readObject 1 0 (fmtString false [0, 1, 2, 40] ++ [47]) with
    | .ok (.str s, r) => s == [0, 1, 2, 40] && r == [47] | _ => false) = true := by decide +kernel

/-! ## integers -/

/-- int64 range -/
def Int64Range (i : Int) : Prop := -9223372036854775808 ≤ i ∧ i ≤ 9223372036854775807

theorem intDec_no_dot (i : Int) : (intDec i).contains 46 = false := by
  cases i with
  | ofNat n => exact natDec_no_byte n 46 (by decide)
  | negSucc n =>
    have := natDec_no_byte (n + 1) 46 (by decide)
    simp at this
    simp [intDec, this]

/-- **`parseInt64` range lemma**: the printed decimal form of `i` is accepted exactly when `i`
is an int64, and then yields `i`. -/
theorem parseInt64_intDec (i : Int) :
    parseInt64 (intDec i) =
      if -9223372036854775808 ≤ i ∧ i ≤ 9223372036854775807 then some i else none := by
  cases i with
  | ofNat n =>
    obtain ⟨d, t, hdt, hd⟩ := natDec_head n
    have hall := all_digits_natDec n
    have hv := digitsVal_natDec n
    simp only [intDec]
    rw [hdt] at hall hv ⊢
    rw [parseInt64_pos d t hd hall, hv]
    simp only [Int.ofNat_eq_natCast]
    split <;> split <;> first | rfl | omega
  | negSucc n =>
    simp only [intDec]
    rw [parseInt64_neg _ (natDec_ne_nil _) (all_digits_natDec _), digitsVal_natDec]
    split <;> split <;> first | rfl | omega

theorem intDec_length (i : Int) (hi : Int64Range i) : (intDec i).length ≤ 20 := by
  obtain ⟨h1, h2⟩ := hi
  cases i with
  | ofNat n =>
    have := natDec_length_le 19 n (by omega) (by simp at h2; omega)
    simp [intDec]; omega
  | negSucc n =>
    have := natDec_length_le 19 (n + 1) (by omega) (by omega)
    simp [intDec]; omega

/-- the number cap of `ReadNumber` (`maxNameBytes`) leaves room for every int64 -/
theorem int_fits_cap : 20 ≤ Gen.scanner_maxNameBytes := by decide

theorem scan_intDec (i : Int) (rest : Bytes) (hrest : NumStop true rest) :
    scanNumTok true false true (intDec i ++ rest) = (intDec i, rest) := by
  cases i with
  | ofNat n =>
    obtain ⟨d, t, hdt, hd⟩ := natDec_head n
    have hdig := natDec_digits n
    have hd' := (isDigit_iff d).mp hd
    simp only [intDec]
    rw [hdt] at hdig ⊢
    have h46 : ¬ d = 46 := by omega
    have h43 : ¬ d = 43 := by omega
    have h45 : ¬ d = 45 := by omega
    have := scan_digits true false t rest (fun c hc => hdig c (by simp [hc])) (by simpa using hrest)
    simp [scanNumTok, h46, h43, h45, hd, this]
  | negSucc n =>
    have := scan_digits true false (natDec (n + 1)) rest (natDec_digits _) (by simpa using hrest)
    simp [intDec, scanNumTok, this]

/-- **Integer round trip.**  For every int64 `i` and every continuation that does not continue
a number (end of input, or a byte that is neither a digit nor a dot), `ReadNumber` on
`strconv.FormatInt(i)` returns the integer `i` and stops exactly before `rest`. -/
theorem int_rt (i : Int) (hi : Int64Range i) (rest : Bytes) (hrest : NumStop true rest) :
    readNumber (intDec i ++ rest) = .ok (.int i, rest) := by
  have hl := intDec_length i hi
  have hc := int_fits_cap
  unfold readNumber
  rw [scan_intDec i rest hrest]
  simp only [intDec_no_dot, parseInt64_intDec]
  have : ¬ ((intDec i).length > Gen.scanner_maxNameBytes) := by omega
  obtain ⟨h1, h2⟩ := hi
  simp [this, h1, h2]

example : (match readNumber (intDec (-9223372036854775808) ++ [93]) with
    | .ok (.int i, r) => i == -9223372036854775808 && r == [93] | _ => false) = true := by decide +kernel

/-- outside int64 the same text is *not* read as an integer (it falls through to Real) -/
example : (match readNumber (intDec 9223372036854775808 ++ [93]) with
    | .ok (.real _, _) => true | _ => false) = true := by decide +kernel

/-! ## reals (as decimal tokens), keywords -/

/-- **Real token round trip.**  For every well-formed decimal token `t` (the model's stand-in
for `strconv.FormatFloat`), `ReadNumber` on what `doFormat` writes (`t`, with a dot appended if
it has none) returns exactly that token as a Real and stops before `rest`, for every
continuation that does not start with a digit. -/
theorem real_token_rt (t : Bytes) (ht : wfRealTok t = true)
    (hlen : (realToken t).length ≤ Gen.scanner_maxNameBytes)
    (rest : Bytes) (hrest : NumStop false rest) :
    readNumber (realToken t ++ rest) = .ok (.real (realToken t), rest) := by
  have shape : ∃ sgn ip fp, realToken t = sgn ++ ip ++ 46 :: fp ∧ (sgn = [] ∨ sgn = [45]) ∧
      (∀ c ∈ ip, isDigit c = true) ∧ (∀ c ∈ fp, isDigit c = true) ∧ (ip ≠ [] ∨ fp ≠ []) := by
    unfold wfRealTok at ht
    split at ht
    · rename_i u
      obtain ⟨ip, fp, h1, h2, h3, h4⟩ := unsigned_shape [45] u (.inr rfl) ht
      exact ⟨[45], ip, fp, h1, .inr rfl, h2, h3, h4⟩
    · obtain ⟨ip, fp, h1, h2, h3, h4⟩ := unsigned_shape [] t (.inl rfl) ht
      exact ⟨[], ip, fp, by simpa using h1, .inl rfl, h2, h3, h4⟩
  obtain ⟨sgn, ip, fp, hshape, hs, hip, hfp, hne⟩ := shape
  have htail := scan_real_tail ip fp rest hip hfp hrest
  have hscan : scanNumTok true false true (realToken t ++ rest) = (realToken t, rest) := by
    rw [hshape]
    rcases hs with hs | hs <;> subst hs
    · rw [scan_first_irrel]
      · simpa using htail
      · intro c hc
        cases ip with
        | nil => simp at hc; subst hc; decide
        | cons d ds =>
          simp at hc; subst hc
          have := (isDigit_iff d).mp (hip d (by simp))
          omega
    · have : [45] ++ ip ++ 46 :: fp ++ rest = 45 :: (ip ++ 46 :: fp ++ rest) := by simp
      rw [this]
      simp only [scanNumTok]
      simp at htail
      simp [htail]
  have hdot : (realToken t).contains 46 = true := by rw [hshape]; simp
  have hdig : (realToken t).any isDigit = true := by
    rw [hshape]
    simp only [List.any_append, List.any_cons, Bool.or_eq_true, List.any_eq_true]
    rcases hne with h | h
    · cases ip with
      | nil => exact absurd rfl h
      | cons d ds => left; right; exact ⟨d, by simp, hip d (by simp)⟩
    · cases fp with
      | nil => exact absurd rfl h
      | cons d ds => right; right; exact ⟨d, by simp, hfp d (by simp)⟩
  unfold readNumber
  rw [hscan]
  have : ¬ ((realToken t).length > Gen.scanner_maxNameBytes) := by omega
  have hdot' : 46 ∈ realToken t := by simpa using hdot
  simp [this, hdot', hdig]

example : wfRealTok [45, 48, 46, 53] = true ∧ wfRealTok [49, 48, 48] = true ∧ wfRealTok [46, 53] = true
    ∧ wfRealTok [46] = false ∧ wfRealTok [45] = false ∧ wfRealTok [49, 46, 50, 46] = false := by decide
example : (match readNumber (realToken [49, 48, 48] ++ [49, 46]) with
    | .ok (.real t, r) => t == [49, 48, 48, 46] && r == [49, 46] | _ => false) = false := by decide +kernel
example : (match readNumber (realToken [49, 48, 48] ++ [32, 49]) with
    | .ok (.real t, r) => t == [49, 48, 48, 46] && r == [32, 49] | _ => false) = true := by decide +kernel

/-- **Keywords.**  `null`, `true`, `false` are recognised by prefix, whatever follows. -/
theorem bool_null_rt (rest : Bytes) (fuel depth : Nat) :
    readObject (fuel + 1) depth (kw_null ++ rest) = .ok (.null, rest) ∧
    readObject (fuel + 1) depth (kw_true ++ rest) = .ok (.bool true, rest) ∧
    readObject (fuel + 1) depth (kw_false ++ rest) = .ok (.bool false, rest) := by
  simp [readObject, kw_null, kw_true, kw_false, startsWith, isPrefixOf]

end PdfVerif.C01b

import PdfVerif.Props.C16trs
/-!
# C16 (third part) — page-number callbacks report each page's final position

`NextPageNumber(cb)` registers a callback on a writer; the futureInt machinery of
`pagetree/future.go` (model: `Heap`, `updateFut`, `whenAvailable`, `incFut`) calls it with the
absolute 0-based number of the page appended next on that writer once all ranges before it are
closed, or with −1 if the writer is closed first.  The statements are about the program
(`nextOnPath`, `expectedLog`: which page a registration belongs to) and the final document of
`Spec/TRSDoc.lean` (`flatten doc`, the document of `page_tree_correct`: its position there).
-/
namespace PdfVerif.C16trsc
open PdfVerif PdfVerif.TRSP PdfVerif.C16trs
set_option linter.unusedSectionVars false
set_option linter.unusedSimpArgs false

/-! ## what the callbacks must report, stated on the program and the final document -/

/-- `p` is a prefix of `q` (the writer at `p` is `q`'s writer or one of its ancestors) -/
def isPrefix : List Nat → List Nat → Bool
  | [], _ => true
  | _ :: _, [] => false
  | a :: as, b :: bs => a == b && isPrefix as bs

/-- the page appended next on the writer at `path`: the id of the first accepted AppendPage on
    that path, unless the writer or one of its ancestors is closed first (or the program ends) -/
def nextOnPath (path : List Nat) : List (POp × Outcome) → Option Nat
  | [] => none
  | (.append p id _, o) :: rest =>
    if o = .ok ∧ p = path then some id else nextOnPath path rest
  | (.close p, o) :: rest =>
    if o ≠ .closed ∧ isPrefix p path = true then none else nextOnPath path rest
  | _ :: rest => nextOnPath path rest

/-- the value a callback must get: the 0-based position of its page in the final document
    (`final` = the page ids of the final document in order), or −1 -/
def valOf (final : List Nat) : Option Nat → Int
  | none => -1
  | some id => (final.idxOf id : Nat)

/-- all callback invocations a program must produce: one per NextPageNumber, with the position
    of the page appended next on the same writer -/
def expectedLog (final : List Nat) : List (POp × Outcome) → List (Nat × Int)
  | [] => []
  | (.nextPageNumber path k, _) :: rest => (k, valOf final (nextOnPath path rest)) :: expectedLog final rest
  | (.append _ _ _, _) :: rest => expectedLog final rest
  | (.newRange _, _) :: rest => expectedLog final rest
  | (.close _, _) :: rest => expectedLog final rest

/-- ids of the pages the program adds (accepted AppendPage operations, in program order) -/
def appendedIds : List (POp × Outcome) → List Nat
  | [] => []
  | (.append _ id _, o) :: rest => if o = .ok then id :: appendedIds rest else appendedIds rest
  | (.newRange _, _) :: rest => appendedIds rest
  | (.close _, _) :: rest => appendedIds rest
  | (.nextPageNumber _ _, _) :: rest => appendedIds rest

def isNewRange : POp → Bool
  | .newRange _ => true
  | _ => false

/-! ## futureInt when everything is known (no ranges) -/

theorem whenAvailableAll_known (x : Fut) (hx : x.numMissing = 0) : ∀ (ks : List Nat) (log : List (Nat × Int)),
    whenAvailableAll 0 (ks.map FCb.user) { futs := [x], log := log } =
      .ok { futs := [x], log := log ++ ks.map fun k => (k, x.val) }
  | [], log => by simp [whenAvailableAll]
  | k :: ks, log => by
    simp only [List.map_cons, whenAvailableAll, whenAvailable, List.getElem?_cons_zero, hx, if_true, callCb]
    rw [whenAvailableAll_known x hx ks]
    simp

theorem callAll_users (n : Int) : ∀ (ks : List Nat) (h : Heap),
    callAll (ks.map FCb.user) n h = .ok { h with log := h.log ++ ks.map fun k => (k, n) }
  | [], h => by simp [callAll]
  | k :: ks, h => by
    simp only [List.map_cons, callAll, callCb]
    rw [callAll_users n ks]
    simp

/-! ## programs without nested ranges -/

/-- the root writer of a program that never called NewRange -/
def flatRoot (closed : Bool) (tail : List PNode) (pend : List Nat) : PW :=
  PW.mk false closed [] tail (some 0) (pend.map FCb.user) []

def idsOf (tail : List PNode) : List Nat := (pagesOf tail).map (·.1)

/-- state of such a program: `pend` are the callbacks waiting for the root's next page, `ids` the
    pages added so far; the only futureInt is known and holds their number -/
structure FlatInv (s : PState) (closed : Bool) (pend ids : List Nat) : Prop where
  root : ∃ tail, s.root = flatRoot closed tail pend ∧ (closed = false → idsOf tail = ids)
  pendClosed : closed = true → pend = []
  heap : s.g.heap.futs = [{ val := (ids.length : Nat), numMissing := 0, cb := [] }]

theorem updateAt_flat_sub (f : PW → G → Except PErr (PW × G)) (i : Nat) (rest : List Nat) (closed : Bool)
    (tail : List PNode) (pend : List Nat) (g : G) :
    (flatRoot closed tail pend).updateAt f (i :: rest) g = .error .closed := by
  simp [flatRoot, PW.updateAt, subIndex]

theorem step_append_sub {s s' : PState} {closed : Bool} {pend ids : List Nat} (hinv : FlatInv s closed pend ids)
    {i : Nat} {rest : List Nat} {id : Nat} {a : Attrs} {o : Outcome}
    (h : step s (.append (i :: rest) id a) = .ok (s', o)) : s' = s ∧ o = .closed := by
  obtain ⟨tail, hr, _⟩ := hinv.root
  simp only [step, hr, updateAt_flat_sub] at h
  cases h; exact ⟨rfl, rfl⟩

theorem step_close_sub {s s' : PState} {closed : Bool} {pend ids : List Nat} (hinv : FlatInv s closed pend ids)
    {i : Nat} {rest : List Nat} {o : Outcome}
    (h : step s (.close (i :: rest)) = .ok (s', o)) : s' = s ∧ o = .closed := by
  obtain ⟨tail, hr, _⟩ := hinv.root
  simp only [step, hr, updateAt_flat_sub] at h
  cases h; exact ⟨rfl, rfl⟩

theorem step_npn_sub {s s' : PState} {closed : Bool} {pend ids : List Nat} (hinv : FlatInv s closed pend ids)
    {i : Nat} {rest : List Nat} {k : Nat} {o : Outcome}
    (h : step s (.nextPageNumber (i :: rest) k) = .ok (s', o)) :
    FlatInv s' closed pend ids ∧ s'.g.heap.log = s.g.heap.log ++ [(k, -1)] := by
  obtain ⟨tail, hr, hids⟩ := hinv.root
  simp only [step, hr, updateAt_flat_sub] at h
  cases h
  refine ⟨⟨⟨tail, by simp [logCb, hr], hids⟩, hinv.pendClosed, by simp [logCb, hinv.heap]⟩, by simp [logCb]⟩

theorem step_npn_root {s s' : PState} {closed : Bool} {pend ids : List Nat} (hinv : FlatInv s closed pend ids)
    {k : Nat} {o : Outcome} (h : step s (.nextPageNumber [] k) = .ok (s', o)) :
    (closed = false → FlatInv s' false (pend ++ [k]) ids ∧ s'.g.heap.log = s.g.heap.log) ∧
    (closed = true → FlatInv s' true [] ids ∧ s'.g.heap.log = s.g.heap.log ++ [(k, -1)]) := by
  obtain ⟨tail, hr, hids⟩ := hinv.root
  simp only [step, hr, PW.updateAt, flatRoot, nextPageNumberHere] at h
  cases closed with
  | false =>
    simp at h
    obtain ⟨h1, _⟩ := h
    subst h1
    refine ⟨fun _ => ⟨⟨⟨tail, by simp [flatRoot], hids⟩, by simp, hinv.heap⟩, rfl⟩, by simp⟩
  | true =>
    simp at h
    obtain ⟨h1, _⟩ := h
    subst h1
    have hp := hinv.pendClosed rfl
    subst hp
    refine ⟨by simp, fun _ => ⟨⟨⟨tail, by simp [flatRoot, hr], by simp⟩, by simp, by simp [hinv.heap]⟩, by simp⟩⟩

theorem mergeNodes_err_ne_closed {nodes : List PNode} {a b : Nat} {c : MCtx} {e : PErr}
    (h : mergeNodes nodes a b c = .error e) : e ≠ .closed := by
  unfold mergeNodes at h
  split at h
  · cases h; intro hc; cases hc
  · cases h

theorem appendLoop_err_ne_closed : ∀ (fuel : Nat) (t : List PNode) (c : MCtx) (e : PErr),
    appendLoop fuel t c = .error e → e ≠ .closed
  | 0, _, _, e, h => by simp [appendLoop] at h; subst h; intro hc; cases hc
  | fuel + 1, t, c, e, h => by
    unfold appendLoop at h
    dsimp only at h
    split at h
    · cases h
    · split at h
      · split at h
        · cases h
        · split at h
          · rename_i e' hm; cases h; exact mergeNodes_err_ne_closed hm
          · exact appendLoop_err_ne_closed fuel _ _ e h
      · cases h; intro hc; cases hc

theorem step_append_root {s s' : PState} {closed : Bool} {pend ids : List Nat} (hinv : FlatInv s closed pend ids)
    {id : Nat} {a : Attrs} {o : Outcome} (h : step s (.append [] id a) = .ok (s', o)) :
    (closed = true → s' = s ∧ o = .closed) ∧
    (closed = false → o = .ok ∧ FlatInv s' false [] (ids ++ [id]) ∧
      s'.g.heap.log = s.g.heap.log ++ pend.map fun k => (k, ((ids.length : Nat) : Int))) := by
  obtain ⟨tail, hr, hids⟩ := hinv.root
  have hheap : s.g.heap = { futs := [{ val := (ids.length : Nat), numMissing := 0, cb := [] }], log := s.g.heap.log } := by
    rw [← hinv.heap]
  cases closed with
  | true =>
    refine ⟨fun _ => ?_, by simp⟩
    simp only [step, hr, PW.updateAt, flatRoot, appendHere] at h
    simp at h
    exact ⟨h.1.symm, h.2.symm⟩
  | false =>
    refine ⟨by simp, fun _ => ?_⟩
    simp only [step, hr, PW.updateAt, flatRoot, appendHere] at h
    simp only [Bool.false_eq_true, if_false] at h
    rw [hheap, whenAvailableAll_known _ rfl] at h
    simp only [incFut, List.getElem?_cons_zero, List.isEmpty_nil, if_true, List.set_cons_zero] at h
    split at h
    · rename_i hu
      exfalso
      split at hu
      · rename_i e he; cases hu; exact appendLoop_err_ne_closed _ _ _ _ he rfl
      · split at hu <;> cases hu
    · cases h
    · rename_i r g hu
      split at hu
      · cases hu
      · rename_i tail2 ctx2 hl
        split at hu
        · cases hu
          cases h
          obtain ⟨sm, _⟩ := appendLoop_same _ _ _ _ _ hl
          refine ⟨rfl, ⟨⟨tail2, rfl, fun _ => ?_⟩, by simp, ?_⟩, rfl⟩
          · simp only [idsOf, sm.pages, pagesOf_append, pagesOf, effPages, List.map_append]
            have := hids rfl
            simp only [idsOf] at this
            rw [this]; simp
          · simp
        · cases hu

theorem advanceStart_err_ne_closed (a : List PNode) : ∀ (fuel start : Nat) (e : PErr),
    advanceStart a fuel start = .error e → e ≠ .closed
  | 0, _, e, h => by simp [advanceStart] at h; subst h; intro hc; cases hc
  | fuel + 1, start, e, h => by
    unfold advanceStart at h
    split at h
    · cases h
    · split at h
      · split at h
        · exact advanceStart_err_ne_closed a fuel _ e h
        · cases h
      · cases h; intro hc; cases hc

theorem mergeTrailing_err_ne_closed {a : List PNode} {c : MCtx} {e : PErr}
    (h : mergeTrailing a c = .error e) : e ≠ .closed := by
  unfold mergeTrailing at h
  dsimp only at h
  split at h
  · rename_i e' he; cases h; exact advanceStart_err_ne_closed _ _ _ _ he
  · exact mergeNodes_err_ne_closed h

theorem collapse_err_ne_closed : ∀ (fuel : Nat) (t : List PNode) (c : MCtx) (e : PErr),
    collapse fuel t c = .error e → e ≠ .closed
  | 0, _, _, e, h => by simp [collapse] at h; subst h; intro hc; cases hc
  | fuel + 1, t, c, e, h => by
    unfold collapse at h
    split at h
    · cases h
    · split at h
      · rename_i e' hm; cases h; exact mergeTrailing_err_ne_closed hm
      · exact collapse_err_ne_closed fuel _ _ e h

theorem step_close_root {s s' : PState} {closed : Bool} {pend ids : List Nat} (hinv : FlatInv s closed pend ids)
    {o : Outcome} (h : step s (.close []) = .ok (s', o)) :
    (closed = true → s' = s ∧ o = .closed) ∧
    (closed = false → o ≠ .closed ∧ FlatInv s' true [] ids ∧
      s'.g.heap.log = s.g.heap.log ++ pend.map fun k => (k, (-1 : Int))) := by
  obtain ⟨tail, hr, hids⟩ := hinv.root
  cases closed with
  | true =>
    refine ⟨fun _ => ?_, by simp⟩
    simp only [step, closeRoot, hr, flatRoot, PW.close] at h
    simp at h
    exact ⟨h.1.symm, h.2.symm⟩
  | false =>
    refine ⟨by simp, fun _ => ?_⟩
    -- evaluate Close of the root writer
    have hclose : ∀ g : G, (flatRoot false tail pend).close g =
        if (!depthsOK none tail) = true then .error .panicInv
        else .ok (PW.mk false true [] tail (some 0) [] [],
          { heap := { g.heap with log := g.heap.log ++ pend.map fun k => (k, (-1 : Int)) }, ctx := g.ctx }) := by
      intro g
      unfold flatRoot PW.close
      simp only [Bool.false_eq_true, if_false, closeChildren]
      cases tail with
      | nil => simp [merge, callAll, callAll_users]
      | cons x xs => simp [merge, callAll, callAll_users]
    simp only [step, closeRoot, hr, hclose] at h
    by_cases hdep : (!depthsOK none tail) = true
    · simp [hdep] at h
    · simp only [hdep, Bool.false_eq_true, if_false, PW.tail] at h
      split at h
      · rename_i hu
        exfalso
        split at hu
        · rename_i e he; cases hu; exact collapse_err_ne_closed _ _ _ _ he rfl
        · split at hu <;> cases hu
      · cases h
      · rename_i r g t hu
        cases h
        split at hu
        · cases hu
        · split at hu
          · cases hu
          · cases hu
            refine ⟨(by intro hc; cases hc), ⟨⟨[], rfl, by simp⟩, by simp, hinv.heap⟩, rfl⟩
      · rename_i r g hu
        cases h
        split at hu
        · cases hu
        · split at hu
          · cases hu
            refine ⟨(by intro hc; cases hc), ⟨⟨[], rfl, by simp⟩, by simp, hinv.heap⟩, rfl⟩
          · cases hu

def NoNewRange (ops : List POp) : Prop := ∀ op ∈ ops, isNewRange op = false

theorem run_cons {s s_end : PState} {op : POp} {rest : List POp} {outs : List Outcome}
    (h : run s (op :: rest) = .ok (s_end, outs)) :
    ∃ s1 o os, step s op = .ok (s1, o) ∧ run s1 rest = .ok (s_end, os) ∧ outs = o :: os := by
  simp only [run] at h
  split at h
  · cases h
  · rename_i s1 o hs
    split at h
    · cases h
    · rename_i s2 os hr
      cases h
      exact ⟨s1, o, os, hs, hr, rfl⟩

/-- on a closed root, and on any path that is not the root, no page is ever accepted -/
theorem nextOnPath_none : ∀ (rest : List POp) (s s_end : PState) (closed : Bool) (pend ids : List Nat)
    (outs : List Outcome) (path : List Nat), FlatInv s closed pend ids → NoNewRange rest →
    run s rest = .ok (s_end, outs) → (closed = true ∨ path ≠ []) →
    nextOnPath path (rest.zip outs) = none
  | [], _, _, _, _, _, outs, _, _, _, _, _ => by simp [nextOnPath]
  | op :: rest, s, s_end, closed, pend, ids, outs, path, hinv, hnr, hrun, hc => by
    obtain ⟨s1, o, os, hs, hr, rfl⟩ := run_cons hrun
    have hnr' : NoNewRange rest := fun x hx => hnr x (by simp [hx])
    simp only [List.zip_cons_cons]
    cases op with
    | newRange p => have := hnr (.newRange p) (by simp); simp [isNewRange] at this
    | append p id a =>
      cases p with
      | nil =>
        obtain ⟨h1, h2⟩ := step_append_root hinv hs
        cases closed with
        | true =>
          obtain ⟨e1, e2⟩ := h1 rfl
          subst e1 e2
          simp only [nextOnPath]
          simp
          exact nextOnPath_none rest _ s_end true pend ids os path hinv hnr' hr hc
        | false =>
          obtain ⟨e1, hinv1, _⟩ := h2 rfl
          subst e1
          have hp : path ≠ [] := by rcases hc with h | h; cases h; exact h
          have hp' : ¬ ([] = path) := fun h => hp h.symm
          simp only [nextOnPath, hp', and_false, if_false]
          exact nextOnPath_none rest s1 s_end false [] _ os path hinv1 hnr' hr (.inr hp)
      | cons i q =>
        obtain ⟨e1, e2⟩ := step_append_sub hinv hs
        subst e1 e2
        simp only [nextOnPath]
        simp
        exact nextOnPath_none rest _ s_end closed pend ids os path hinv hnr' hr hc
    | close p =>
      cases p with
      | nil =>
        obtain ⟨h1, h2⟩ := step_close_root hinv hs
        cases closed with
        | true =>
          obtain ⟨e1, e2⟩ := h1 rfl
          subst e1 e2
          simp only [nextOnPath]
          simp
          exact nextOnPath_none rest _ s_end true pend ids os path hinv hnr' hr hc
        | false =>
          obtain ⟨e1, _, _⟩ := h2 rfl
          simp only [nextOnPath, isPrefix]
          simp [e1]
      | cons i q =>
        obtain ⟨e1, e2⟩ := step_close_sub hinv hs
        subst e1 e2
        simp only [nextOnPath]
        simp
        exact nextOnPath_none rest _ s_end closed pend ids os path hinv hnr' hr hc
    | nextPageNumber p k =>
      simp only [nextOnPath]
      cases p with
      | nil =>
        obtain ⟨h1, h2⟩ := step_npn_root hinv hs
        cases closed with
        | true => exact nextOnPath_none rest s1 s_end true [] ids os path (h2 rfl).1 hnr' hr hc
        | false =>
          exact nextOnPath_none rest s1 s_end false _ ids os path (h1 rfl).1 hnr' hr hc
      | cons i q =>
        exact nextOnPath_none rest s1 s_end closed pend ids os path (step_npn_sub hinv hs).1 hnr' hr hc

theorem idxOf_middle (id : Nat) : ∀ (ids more : List Nat), id ∉ ids → (ids ++ id :: more).idxOf id = ids.length
  | [], more, _ => by simp [List.idxOf_cons]
  | x :: xs, more, h => by
    have hx : x ≠ id := by intro e; apply h; simp [e]
    have hn : id ∉ xs := by intro e; apply h; simp [e]
    simp only [List.cons_append, List.idxOf_cons, List.length_cons]
    have : (x == id) = false := by simpa using hx
    simp only [this, cond_false]
    rw [idxOf_middle id xs more hn]

/-- from any state of a program without nested ranges: when the remaining program has run and
    the root is closed, the log consists of what was logged before, the expectations of the
    callbacks that were waiting for the root's next page, and the expectations of the
    callbacks registered by the remaining program -/
theorem flat_run : ∀ (rest : List POp) (s s_end : PState) (closed : Bool) (pend ids : List Nat)
    (outs : List Outcome) (F : List Nat), FlatInv s closed pend ids → NoNewRange rest →
    run s rest = .ok (s_end, outs) → (∃ tail, s_end.root = flatRoot true tail []) →
    F = ids ++ appendedIds (rest.zip outs) → F.Nodup →
    List.Perm s_end.g.heap.log
      (s.g.heap.log ++ (pend.map fun k => (k, valOf F (nextOnPath [] (rest.zip outs)))) ++
        expectedLog F (rest.zip outs))
  | [], s, s_end, closed, pend, ids, outs, F, hinv, _, hrun, hend, _, _ => by
    simp only [run] at hrun
    cases hrun
    obtain ⟨tail, hr⟩ := hinv.root
    obtain ⟨tail', hr'⟩ := hend
    rw [hr.1] at hr'
    have hp : pend = [] := by
      cases pend with
      | nil => rfl
      | cons a b => simp [flatRoot] at hr'
    subst hp
    simp [expectedLog]
  | op :: rest, s, s_end, closed, pend, ids, outs, F, hinv, hnr, hrun, hend, hF, hnd => by
    obtain ⟨s1, o, os, hs, hr, rfl⟩ := run_cons hrun
    have hnr' : NoNewRange rest := fun x hx => hnr x (by simp [hx])
    simp only [List.zip_cons_cons] at hF ⊢
    cases op with
    | newRange p => have := hnr (.newRange p) (by simp); simp [isNewRange] at this
    | append p id a =>
      cases p with
      | nil =>
        obtain ⟨h1, h2⟩ := step_append_root hinv hs
        cases closed with
        | true =>
          obtain ⟨e1, e2⟩ := h1 rfl
          subst e1 e2
          have ih := flat_run rest _ s_end true pend ids os F hinv hnr' hr hend
            (by simpa [appendedIds] using hF) hnd
          simpa [nextOnPath, expectedLog] using ih
        | false =>
          obtain ⟨e1, hinv1, hlog⟩ := h2 rfl
          subst e1
          have hF' : F = (ids ++ [id]) ++ appendedIds (rest.zip os) := by
            simpa [appendedIds] using hF
          have ih := flat_run rest s1 s_end false [] (ids ++ [id]) os F hinv1 hnr' hr hend hF' hnd
          have hidx : F.idxOf id = ids.length := by
            rw [hF']
            simp only [List.append_assoc, List.singleton_append]
            apply idxOf_middle
            intro hmem
            rw [hF'] at hnd
            simp only [List.append_assoc, List.singleton_append] at hnd
            have := (List.nodup_append.mp hnd).2.2 id hmem id (by simp)
            exact this rfl
          simp only [nextOnPath, and_self, if_true, valOf, hidx, expectedLog]
          rw [hlog] at ih
          simpa using ih
      | cons i q =>
        obtain ⟨e1, e2⟩ := step_append_sub hinv hs
        subst e1 e2
        have ih := flat_run rest _ s_end closed pend ids os F hinv hnr' hr hend
          (by simpa [appendedIds] using hF) hnd
        simpa [nextOnPath, expectedLog] using ih
    | close p =>
      cases p with
      | nil =>
        obtain ⟨h1, h2⟩ := step_close_root hinv hs
        cases closed with
        | true =>
          obtain ⟨e1, e2⟩ := h1 rfl
          subst e1 e2
          have ih := flat_run rest _ s_end true pend ids os F hinv hnr' hr hend
            (by simpa [appendedIds] using hF) hnd
          simpa [nextOnPath, expectedLog] using ih
        | false =>
          obtain ⟨e1, hinv1, hlog⟩ := h2 rfl
          have ih := flat_run rest s1 s_end true [] ids os F hinv1 hnr' hr hend
            (by simpa [appendedIds] using hF) hnd
          rw [hlog] at ih
          simpa [nextOnPath, isPrefix, e1, valOf, expectedLog] using ih
      | cons i q =>
        obtain ⟨e1, e2⟩ := step_close_sub hinv hs
        subst e1 e2
        have ih := flat_run rest _ s_end closed pend ids os F hinv hnr' hr hend
          (by simpa [appendedIds] using hF) hnd
        simpa [nextOnPath, expectedLog] using ih
    | nextPageNumber p k =>
      have hF' : F = ids ++ appendedIds (rest.zip os) := by simpa [appendedIds] using hF
      cases p with
      | nil =>
        obtain ⟨h1, h2⟩ := step_npn_root hinv hs
        cases closed with
        | true =>
          obtain ⟨hinv1, hlog⟩ := h2 rfl
          have hp := hinv.pendClosed rfl
          subst hp
          have ih := flat_run rest s1 s_end true [] ids os F hinv1 hnr' hr hend hF' hnd
          have hnone := nextOnPath_none rest s1 s_end true [] ids os [] hinv1 hnr' hr (.inl rfl)
          rw [hlog] at ih
          simpa [nextOnPath, expectedLog, hnone, valOf] using ih
        | false =>
          obtain ⟨hinv1, hlog⟩ := h1 rfl
          have ih := flat_run rest s1 s_end false (pend ++ [k]) ids os F hinv1 hnr' hr hend hF' hnd
          rw [hlog] at ih
          simpa [nextOnPath, expectedLog] using ih
      | cons i q =>
        obtain ⟨hinv1, hlog⟩ := step_npn_sub hinv hs
        have ih := flat_run rest s1 s_end closed pend ids os F hinv1 hnr' hr hend hF' hnd
        have hnone := nextOnPath_none rest s1 s_end closed pend ids os (i :: q) hinv1 hnr' hr (.inr (by simp))
        rw [hlog] at ih
        simp only [nextOnPath, expectedLog, hnone]
        have hv : valOf F none = -1 := rfl
        rw [hv]
        refine ih.trans ?_
        simp only [List.append_assoc]
        apply List.Perm.append_left
        simp only [List.singleton_append]
        exact (List.perm_middle).symm


/-- the invariant along a run; `ids` grows by the accepted pages -/
theorem flat_inv_run : ∀ (rest : List POp) (s s_end : PState) (closed : Bool) (pend ids : List Nat)
    (outs : List Outcome), FlatInv s closed pend ids → NoNewRange rest → run s rest = .ok (s_end, outs) →
    ∃ c' p', FlatInv s_end c' p' (ids ++ appendedIds (rest.zip outs))
  | [], s, s_end, closed, pend, ids, outs, hinv, _, hrun => by
    simp only [run] at hrun
    cases hrun
    exact ⟨closed, pend, by simpa [appendedIds] using hinv⟩
  | op :: rest, s, s_end, closed, pend, ids, outs, hinv, hnr, hrun => by
    obtain ⟨s1, o, os, hs, hr, rfl⟩ := run_cons hrun
    have hnr' : NoNewRange rest := fun x hx => hnr x (by simp [hx])
    simp only [List.zip_cons_cons]
    cases op with
    | newRange p => have := hnr (.newRange p) (by simp); simp [isNewRange] at this
    | append p id a =>
      cases p with
      | nil =>
        obtain ⟨h1, h2⟩ := step_append_root hinv hs
        cases closed with
        | true =>
          obtain ⟨e1, e2⟩ := h1 rfl
          subst e1 e2
          simpa [appendedIds] using flat_inv_run rest _ s_end true pend ids os hinv hnr' hr
        | false =>
          obtain ⟨e1, hinv1, _⟩ := h2 rfl
          subst e1
          simpa [appendedIds] using flat_inv_run rest s1 s_end false [] _ os hinv1 hnr' hr
      | cons i q =>
        obtain ⟨e1, e2⟩ := step_append_sub hinv hs
        subst e1 e2
        simpa [appendedIds] using flat_inv_run rest _ s_end closed pend ids os hinv hnr' hr
    | close p =>
      cases p with
      | nil =>
        obtain ⟨h1, h2⟩ := step_close_root hinv hs
        cases closed with
        | true =>
          obtain ⟨e1, e2⟩ := h1 rfl
          subst e1 e2
          simpa [appendedIds] using flat_inv_run rest _ s_end true pend ids os hinv hnr' hr
        | false =>
          obtain ⟨_, hinv1, _⟩ := h2 rfl
          simpa [appendedIds] using flat_inv_run rest s1 s_end true [] ids os hinv1 hnr' hr
      | cons i q =>
        obtain ⟨e1, e2⟩ := step_close_sub hinv hs
        subst e1 e2
        simpa [appendedIds] using flat_inv_run rest _ s_end closed pend ids os hinv hnr' hr
    | nextPageNumber p k =>
      cases p with
      | nil =>
        obtain ⟨h1, h2⟩ := step_npn_root hinv hs
        cases closed with
        | true => simpa [appendedIds] using flat_inv_run rest s1 s_end true [] ids os (h2 rfl).1 hnr' hr
        | false => simpa [appendedIds] using flat_inv_run rest s1 s_end false _ ids os (h1 rfl).1 hnr' hr
      | cons i q =>
        simpa [appendedIds] using flat_inv_run rest s1 s_end closed pend ids os (step_npn_sub hinv hs).1 hnr' hr

theorem run_snoc : ∀ (ops : List POp) (s s1 s2 : PState) (outs : List Outcome) (op : POp) (o : Outcome),
    run s ops = .ok (s1, outs) → step s1 op = .ok (s2, o) → run s (ops ++ [op]) = .ok (s2, outs ++ [o])
  | [], s, s1, s2, outs, op, o, h1, h2 => by
    simp only [run] at h1
    cases h1
    simp [run, h2]
  | x :: xs, s, s1, s2, outs, op, o, h1, h2 => by
    obtain ⟨sa, oa, os, hs, hr, rfl⟩ := run_cons h1
    have := run_snoc xs sa s1 s2 os op o hr h2
    simp [run, hs, this]

theorem run_length : ∀ (ops : List POp) (s s1 : PState) (outs : List Outcome),
    run s ops = .ok (s1, outs) → outs.length = ops.length
  | [], s, s1, outs, h => by simp only [run] at h; cases h; rfl
  | x :: xs, s, s1, outs, h => by
    obtain ⟨sa, oa, os, hs, hr, rfl⟩ := run_cons h
    simp [run_length xs sa s1 os hr]

theorem flat_init (old : Bool) (hints : List Hint) : FlatInv (PState.init old hints) false [] [] :=
  ⟨⟨[], by simp [PState.init, flatRoot], by simp [idsOf, pagesOf]⟩, by simp, by simp [PState.init]⟩

/-- **page-number callbacks, programs without nested ranges** (`_partial`: NewRange excluded).
    For every program of AppendPage/AppendPageDict, Close and NextPageNumber operations (on the
    root or on non-existent writers, accepted or rejected) whose root `Close` then succeeds: the
    log of callback invocations is a permutation of `expectedLog` — every callback registered
    through NextPageNumber is called exactly once, with the 0-based position in the final
    document (`flatten doc`, the document of `page_tree_correct`) of the page appended next on
    its writer, or with −1 if the writer is closed before another page is added — and all
    invocations have happened when the root's `Close` returns. -/
theorem page_numbers_flat_partial (old : Bool) (hints : List Hint) (ops : List POp) (s s' : PState)
    (outs : List Outcome) (hflat : NoNewRange ops)
    (hrun : run (PState.init old hints) ops = .ok (s, outs)) (hopen : s.result = none)
    (hclose : step s (.close []) = .ok (s', .ok))
    (hnd : (appendedIds (ops.zip outs)).Nodup) :
    ∃ doc, specRun (ops.zip outs) [] = some doc ∧
      List.Perm s'.g.heap.log
        (expectedLog ((Spec.TRSDoc.flatten doc).map (·.1))
          ((ops ++ [POp.close []]).zip (outs ++ [Outcome.ok]))) := by
  obtain ⟨hok0, habs0⟩ := init_ok old hints
  obtain ⟨r1, _, _⟩ := run_sim ops _ s outs hok0 hrun hopen
  rw [habs0] at r1
  refine ⟨absW s.root, r1, ?_⟩
  obtain ⟨c, p, hinvs⟩ := flat_inv_run ops _ s false [] [] outs (flat_init old hints) hflat hrun
  simp only [List.nil_append] at hinvs
  -- the root is still open
  obtain ⟨hc1, hc2⟩ := step_close_root hinvs hclose
  have hcopen : c = false := by
    cases c with
    | false => rfl
    | true => have := (hc1 rfl).2; cases this
  subst hcopen
  obtain ⟨_, hinv', _⟩ := hc2 rfl
  obtain ⟨tail, hroot, hids⟩ := hinvs.root
  have hfl : (Spec.TRSDoc.flatten (absW s.root)).map (·.1) = appendedIds (ops.zip outs) := by
    rw [hroot]
    simp only [flatRoot, absW, absChildren, List.nil_append, flatten_pages]
    exact hids rfl
  rw [hfl]
  have hlen : outs.length = ops.length := run_length ops _ s outs hrun
  have hzip : (ops ++ [POp.close []]).zip (outs ++ [Outcome.ok]) = ops.zip outs ++ [(POp.close [], Outcome.ok)] := by
    rw [List.zip_append (by omega)]
    simp
  have hall := flat_run (ops ++ [POp.close []]) _ s' false [] [] (outs ++ [Outcome.ok])
    (appendedIds (ops.zip outs)) (flat_init old hints)
    (by intro x hx; simp at hx; rcases hx with hx | rfl; exact hflat x hx; rfl)
    (run_snoc ops _ s s' outs _ _ hrun hclose)
    (by obtain ⟨t, ht, _⟩ := hinv'.root; exact ⟨t, ht⟩)
    (by
      rw [hzip]
      have : ∀ l : List (POp × Outcome), appendedIds (l ++ [(POp.close [], Outcome.ok)]) = appendedIds l := by
        intro l
        induction l with
        | nil => simp [appendedIds]
        | cons x xs ih =>
          obtain ⟨op, o⟩ := x
          cases op <;> simp [appendedIds, ih]
      simp [this])
    hnd
  simpa [PState.init] using hall

/-! ## the full statement (nested ranges) -/

/-- `path` names a range of the document (the root for the empty path) -/
def resolves (path : List Nat) (d : List (Spec.TRSDoc.Item (Nat × Attrs))) : Bool :=
  (Spec.TRSDoc.updateAt (fun r => some r) path d).isSome

/-- every NextPageNumber of the program is called on a writer that exists at that moment
    (a Go program cannot do otherwise: it has no handle of a range before `NewRange` returned
    it) -/
def WellAddressed : List (POp × Outcome) → List (Spec.TRSDoc.Item (Nat × Attrs)) → Prop
  | [], _ => True
  | (op, o) :: rest, d =>
    (match op with
      | .nextPageNumber p _ => resolves p d = true
      | _ => True) ∧
    (if o = .closed then WellAddressed rest d
     else match specStep op d with
      | none => False
      | some d' => WellAddressed rest d')

/-- **The full statement of the page-number clause of C16** (any interleaving on nested
    writers).  `page_numbers_flat_partial` proves it for programs without NewRange;
    `Props/C16trsd.lean` proves the heap part that the general case needs (`cascade`).  The
    harness oracle (`callback` key) evaluates exactly this statement on the implementation for
    every generated program, and the model's callback log is compared with the implementation's
    in value and firing order. -/
def PageNumbersStatement : Prop :=
  ∀ (old : Bool) (hints : List Hint) (ops : List POp) (s s' : PState) (outs : List Outcome),
    run (PState.init old hints) ops = .ok (s, outs) → s.result = none →
    step s (.close []) = .ok (s', .ok) →
    (appendedIds (ops.zip outs)).Nodup → WellAddressed (ops.zip outs) [] →
    ∃ doc, specRun (ops.zip outs) [] = some doc ∧
      List.Perm s'.g.heap.log
        (expectedLog ((Spec.TRSDoc.flatten doc).map (·.1))
          ((ops ++ [POp.close []]).zip (outs ++ [Outcome.ok])))

-- non-vacuity of `page_numbers_flat_partial`: callbacks before the first page, between pages,
-- after the last page, on a writer that does not exist and after Close
def exFlat : List POp :=
  [.nextPageNumber [] 0, .append [] 10 {}, .append [] 11 {}, .nextPageNumber [] 1, .nextPageNumber [] 2,
   .nextPageNumber [3] 5, .append [] 12 {}, .nextPageNumber [] 3]

example : (match run (PState.init false []) exFlat with
    | .ok (s, outs) =>
      s.result.isNone && (appendedIds (exFlat.zip outs) == [10, 11, 12]) &&
      (match step s (.close []) with
        | .ok (s', .ok) => s'.g.heap.log == [(0, 0), (5, -1), (1, 2), (2, 2), (3, -1)]
        | _ => false)
    | _ => false) = true := by decide +kernel

end PdfVerif.C16trsc

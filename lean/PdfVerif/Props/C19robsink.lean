import PdfVerif.Model.ROBSink
/-!
# C19 — `sink_fault`: a failing sink is reported no later than `Close`

Over the model of `bufio.Writer` (`Model/ROBSink.lean`): the error field is sticky, every failing
call of the sink sets it in the same operation, and the final `Flush` of `Writer.Close` returns it.
So whatever the Writer wrote and whenever the sink failed (any call index, with or without a
partial write), some call no later than `Close` returns the sink's error.  What is *not* covered
here: that every Writer method passes the error of `w.w.Write` on (evaluated by the all-k
enumeration of the harness), and `Placeholder.Set`, which seeks and writes on the raw sink and
returns those errors directly.
-/
namespace PdfVerif.C19robsink
open PdfVerif PdfVerif.ROB

/-- the invariant: a failed sink call is never forgotten -/
def Inv (b : BW) : Prop := b.failed = true → b.err.isSome = true

theorem flush_inv (sink : Sink) (b : BW) (h : Inv b) :
    Inv (b.flush sink).1 ∧ ((b.flush sink).1.err.isSome = true → (b.flush sink).2 = (b.flush sink).1.err) := by
  unfold BW.flush
  cases he : b.err with
  | some e => simp only []; exact ⟨h, fun _ => he.symm⟩
  | none =>
    simp only []
    have hf : b.failed = false := by
      cases hb : b.failed with
      | false => rfl
      | true => have := h hb; rw [he] at this; cases this
    by_cases h0 : b.buf.length = 0
    · simp only [h0, if_true]
      exact ⟨h, fun hc => by rw [he] at hc; cases hc⟩
    · simp only [h0, if_false]
      cases hs : (sink b.calls b.buf).2 with
      | some e => simp [Inv]
      | none =>
        simp only []
        by_cases hshort : min (sink b.calls b.buf).1 b.buf.length < b.buf.length
        · simp [Inv, hshort]
        · simp [Inv, hshort, hf]

theorem write_inv (sink : Sink) : ∀ (fuel : Nat) (b : BW) (p : Bytes), Inv b →
    Inv (BW.write sink fuel b p).1 ∧
    ((BW.write sink fuel b p).1.err.isSome = true → (BW.write sink fuel b p).2 = (BW.write sink fuel b p).1.err ∨
      (BW.write sink fuel b p).2 = some .other) := by
  intro fuel
  induction fuel with
  | zero => intro b p h; exact ⟨h, fun _ => Or.inr rfl⟩
  | succ fuel ih =>
    intro b p h
    unfold BW.write
    cases he : b.err with
    | some e => simp only []; exact ⟨h, fun _ => Or.inl he.symm⟩
    | none =>
      simp only []
      have hf : b.failed = false := by
        cases hb : b.failed with
        | false => rfl
        | true => have := h hb; rw [he] at this; cases this
      by_cases hbig : p.length > b.size - b.buf.length
      · simp only [hbig, if_true]
        by_cases h0 : b.buf.length = 0
        · simp only [h0, if_true]
          apply ih
          intro hfl
          simp only [hf, Bool.false_or] at hfl
          exact hfl
        · simp only [h0, if_false]
          have F := flush_inv sink ⟨b.size, b.buf ++ p.take (b.size - b.buf.length), b.err, b.calls, b.out, b.failed⟩ (by
            intro hc; simp only [] at hc; rw [hf] at hc; cases hc)
          rw [he] at F
          generalize BW.flush sink ⟨b.size, b.buf ++ p.take (b.size - b.buf.length), none, b.calls, b.out, b.failed⟩ = r at F
          obtain ⟨b1, e1⟩ := r
          exact ih b1 _ F.1
      · simp only [hbig, if_false]
        refine ⟨?_, fun hc => ?_⟩
        · intro hc; simp only [] at hc; rw [hf] at hc; cases hc
        · simp at hc

/-- **sink_fault** (bufio layer): after any sequence of `Write` calls, if some call of the sink
    failed (error or short write) — at whatever call index — the final `Flush` of `Writer.Close`
    returns an error, namely the sticky one. -/
theorem sink_fault (sink : Sink) (fuel : Nat) : ∀ (ps : List Bytes) (b : BW), Inv b →
    (session sink fuel b ps).2.1.failed = true →
      (session sink fuel b ps).2.2.isSome = true ∧ (session sink fuel b ps).2.2 = (session sink fuel b ps).2.1.err := by
  intro ps
  induction ps with
  | nil =>
    intro b h hf
    simp only [session] at hf ⊢
    have F := flush_inv sink b h
    have hs := F.1 hf
    exact ⟨by rw [F.2 hs]; exact hs, F.2 hs⟩
  | cons p ps ih =>
    intro b h hf
    simp only [session] at hf ⊢
    have W := write_inv sink fuel b p h
    generalize BW.write sink fuel b p = r at W hf ⊢
    obtain ⟨b1, e⟩ := r
    exact ih b1 W.1 hf

-- non-vacuity: 16-byte buffer, three writes, the sink's second call fails after 3 bytes:
-- the third Write and the final Flush both return the error
example :
    let sink : Sink := fun k p => if k = 1 then (3, some .io) else (p.length, none)
    let r := session sink 100 (BW.new 16) [List.replicate 10 1, List.replicate 10 2, List.replicate 30 3, [4]]
    (r.1, r.2.2, r.2.1.failed) = ([none, none, some .io, some .io], some .io, true) := by decide +kernel

/-! ## a sink used directly (no `bufio.Writer` of the Writer in between) -/

/-- **direct_sink_fault**: over a directly used sink the property holds exactly as far as every
    call's error is looked at: if the code checks every call, the session reports an error as soon
    as some call has failed, and it is that call's error (the first failure).  This is a statement
    about the SHAPE of the code; that `writer.go` has this shape (every `Write`, `Seek`, `Flush` result
    is tested before the next call) is evaluated on the implementation by the all-k enumeration
    over direct sinks (`harness/rob_c19s.go`), not proved: the write sequences of `writeXRefTable`,
    `writeXRefStream` and the trailer are not modelled. -/
theorem direct_sink_fault (sink : Sink) (checked : Nat → Bool) (hall : ∀ k, checked k = true) :
    ∀ (ps : List Bytes) (k : Nat), (directSession sink checked k ps).2 = true →
      (directSession sink checked k ps).1.isSome = true := by
  intro ps
  induction ps with
  | nil => intro k h; simp [directSession] at h
  | cons p ps ih =>
    intro k h
    unfold directSession at h ⊢
    cases hs : (sink k p).2 with
    | none => rw [hs] at h; simp only [] at h ⊢; exact ih (k + 1) h
    | some e => simp only [hall k, if_true]; rfl

-- … and one unchecked call is enough to lose a one-off failure: three writes, the error of the second
-- one is not looked at (e.g. it is overwritten by the next `fmt.Fprintf` of a loop whose error is tested
-- once at the end), the sink fails only there: nothing is reported.  Behind `bufio.Writer` the same
-- program reports it (`sink_fault`).
example :
    let sink : Sink := fun k p => if k = 1 then (0, some .io) else (p.length, none)
    directSession sink (fun k => k != 1) 0 [[1], [2], [3]] = (none, true) := by decide +kernel

example :
    let sink : Sink := fun k p => if k = 1 then (0, some .io) else (p.length, none)
    directSession sink (fun _ => true) 0 [[1], [2], [3]] = (some .io, true) := by decide +kernel

end PdfVerif.C19robsink

import PdfVerif.Model.HISSeq
/-!
# C20 (part 2) — reading an object never fails with anything but `eof`/`malformed`

The scanner model (`Model/Scan.lean`, `Model/HISObj.lean`) is total by fuel; this file proves
that the fuel used (`objFuel`, three per input byte) is always enough and that the branch
marked "unreachable" in `readArrayLoop` is unreachable, so that **for every input** the result
of `ReadIndirectObject` is a value, `io.EOF` or a `MalformedFileError` — exactly the classes
`checkObjects` turns into `Broken`.  Hence the sequential scan never aborts while checking
objects (`checkObject_total`).
-/
namespace PdfVerif.C20hisb
open PdfVerif PdfVerif.HIS

/-- a result whose rest is at most `n` long and whose error, if any, is `eof` or `malformed` -/
def Good {α} (n : Nat) : Except Err (α × Bytes) → Prop
  | .ok (_, rest) => rest.length ≤ n
  | .error e => e = .eof ∨ e = .malformed

/-- the same with a strictly shorter rest (at least one byte was consumed) -/
def GoodLt {α} (n : Nat) : Except Err (α × Bytes) → Prop
  | .ok (_, rest) => rest.length < n
  | .error e => e = .eof ∨ e = .malformed

theorem Good.mono {α} {n m : Nat} {r : Except Err (α × Bytes)} (h : Good n r) (hnm : n ≤ m) : Good m r := by
  cases r with
  | error e => exact h
  | ok p => obtain ⟨a, rest⟩ := p; simp only [Good] at h ⊢; omega

theorem GoodLt.mono {α} {n m : Nat} {r : Except Err (α × Bytes)} (h : GoodLt n r) (hnm : n ≤ m) : GoodLt m r := by
  cases r with
  | error e => exact h
  | ok p => obtain ⟨a, rest⟩ := p; simp only [GoodLt] at h ⊢; omega

theorem Good.lt {α} {n m : Nat} {r : Except Err (α × Bytes)} (h : Good n r) (hnm : n < m) : GoodLt m r := by
  cases r with
  | error e => exact h
  | ok p => obtain ⟨a, rest⟩ := p; simp only [Good, GoodLt] at h ⊢; omega

theorem GoodLt.le {α} {n : Nat} {r : Except Err (α × Bytes)} (h : GoodLt n r) : Good n r := by
  cases r with
  | error e => exact h
  | ok p => obtain ⟨a, rest⟩ := p; simp only [Good, GoodLt] at h ⊢; omega

theorem Good.consRes {n : Nat} {r : Except Err (Bytes × Bytes)} (x : Nat) (h : Good n r) : Good n (consRes x r) := by
  cases r with
  | error e => exact h
  | ok p => obtain ⟨a, rest⟩ := p; exact h

theorem Good.map {α β} {n : Nat} {r : Except Err (α × Bytes)} (f : α → β) (h : Good n r) :
    Good n (r.map fun p => (f p.1, p.2)) := by
  cases r with
  | error e => exact h
  | ok p => obtain ⟨a, rest⟩ := p; exact h

theorem GoodLt.map {α β} {n : Nat} {r : Except Err (α × Bytes)} (f : α → β) (h : GoodLt n r) :
    GoodLt n (r.map fun p => (f p.1, p.2)) := by
  cases r with
  | error e => exact h
  | ok p => obtain ⟨a, rest⟩ := p; exact h

/-! ## the non-recursive readers -/

theorem skip_len : ∀ inp : Bytes, (skipWS inp).1.length ≤ inp.length ∧ (skipComment inp).1.length ≤ inp.length := by
  intro inp
  induction inp with
  | nil => simp [skipWS, skipComment]
  | cons c cs ih =>
    constructor
    · simp only [skipWS]
      split
      · have := ih.2; simp; omega
      · split
        · have := ih.1; simp; omega
        · simp
    · simp only [skipComment]
      split
      · have := ih.1; simp; omega
      · have := ih.2; simp; omega

theorem skipWS_len (inp : Bytes) : (skipWS inp).1.length ≤ inp.length := (skip_len inp).1

theorem good_readNameBody : ∀ (fuel len : Nat) (inp : Bytes), Good inp.length (readNameBody fuel len inp) := by
  intro fuel
  induction fuel with
  | zero => intro len inp; simp [readNameBody, Good]
  | succ f ih =>
    intro len inp
    cases inp with
    | nil => simp [readNameBody, Good]
    | cons c rest =>
      simp only [readNameBody]
      cases hterm : (c != 35 && !isRegular c) with
      | true => simp [Good]
      | false =>
        simp only [Bool.false_eq_true, if_false]
        by_cases hcap : len ≥ Gen.scanner_maxNameBytes
        · rw [if_pos hcap]; exact Or.inr rfl
        · rw [if_neg hcap]
          split
          · -- '#'
            split
            · rename_i h l rest'
              split
              · exact ((ih (len + 1) rest').mono (by simp; omega)).consRes _
              · exact ((ih (len + 1) (h :: l :: rest')).mono (by simp)).consRes _
            · exact ((ih (len + 1) rest).mono (by simp)).consRes _
          · exact ((ih (len + 1) rest).mono (by simp)).consRes _

theorem goodlt_readName (inp : Bytes) : GoodLt inp.length (readName inp) := by
  unfold readName
  split
  · rename_i rest
    exact (good_readNameBody _ 0 rest).lt (by simp)
  · simp [GoodLt]

theorem scanNumTok_len (a : Bool) : ∀ (inp : Bytes) (h f : Bool),
    (scanNumTok a h f inp).1.length + (scanNumTok a h f inp).2.length = inp.length := by
  intro inp
  induction inp with
  | nil => intro h f; simp [scanNumTok]
  | cons c cs ih =>
    intro h f
    simp only [scanNumTok]
    split
    · have := ih true false; simp; omega
    · split
      · have := ih h false; simp; omega
      · split
        · have := ih h false; simp; omega
        · simp

theorem goodlt_readNumber (c : Nat) (rest : Bytes)
    (hc : (isDigit c || c == 43 || c == 45 || c == 46) = true) :
    GoodLt (c :: rest).length (readNumber (c :: rest)) := by
  have hlen := scanNumTok_len true (c :: rest) false true
  have hne : (scanNumTok true false true (c :: rest)).1 ≠ [] := by
    simp only [scanNumTok]
    split
    · simp
    · split
      · simp
      · split
        · simp
        · rename_i h1 h2 h3
          simp at h1 h2 h3 hc
          rcases hc with ((hc | hc) | hc) | hc
          · exact absurd hc (by simpa using h3)
          · exact absurd hc h2.1
          · exact absurd hc h2.2
          · exact absurd hc h1
  unfold readNumber
  generalize scanNumTok true false true (c :: rest) = p at hlen hne
  obtain ⟨tok, r⟩ := p
  simp only at hlen hne ⊢
  have : tok.length > 0 := by cases tok with | nil => exact absurd rfl hne | cons _ _ => simp
  split
  · simp [GoodLt]
  · split
    · simp only [GoodLt]; omega
    · split
      · simp only [GoodLt]; omega
      · simp [GoodLt]

theorem good_readInteger (inp : Bytes) : Good inp.length (readInteger inp) := by
  unfold readInteger
  have h1 := skipWS_len inp
  generalize skipWS inp = q at h1
  obtain ⟨inp', b⟩ := q
  simp only at h1 ⊢
  have hlen := scanNumTok_len false inp' false true
  generalize scanNumTok false false true inp' = p at hlen
  obtain ⟨tok, r⟩ := p
  simp only at hlen ⊢
  split
  · simp [Good]
  · split
    · simp only [Good]; omega
    · simp [Good]

theorem readOctTail_len : ∀ (k o : Nat) (inp : Bytes), (readOctTail o k inp).2.length ≤ inp.length := by
  intro k
  induction k with
  | zero => intro o inp; simp [readOctTail]
  | succ k ih =>
    intro o inp
    cases inp with
    | nil => simp [readOctTail]
    | cons c cs =>
      simp only [readOctTail]
      split
      · have := ih ((o * 8 + (c - 48)) % 256) cs; simp; omega
      · simp

theorem good_readStringBody : ∀ (fuel level : Nat) (ign : Bool) (len : Nat) (inp : Bytes),
    inp.length + 1 ≤ fuel → Good inp.length (readStringBody fuel level ign len inp) := by
  intro fuel
  induction fuel with
  | zero => intro level ign len inp h; omega
  | succ f ih =>
    intro level ign len inp hf
    unfold readStringBody
    by_cases hcap : len > Gen.scanner_maxStringBytes
    · rw [if_pos hcap]; exact Or.inr rfl
    · rw [if_neg hcap]
      cases inp with
      | nil => simp [Good]
      | cons b rest =>
        have hr : rest.length + 1 ≤ f := by simp at hf; omega
        show Good (b :: rest).length (if (ign && b == 10) = true then _ else _)
        by_cases h1 : (ign && b == 10) = true
        · rw [if_pos h1]; exact (ih level false len rest hr).mono (by simp)
        rw [if_neg h1]
        by_cases h2 : (b == 40) = true
        · rw [if_pos h2]; exact ((ih (level + 1) false (len + 1) rest hr).mono (by simp)).consRes _
        rw [if_neg h2]
        by_cases h3 : (b == 41) = true
        · rw [if_pos h3]
          by_cases h3' : (level == 1) = true
          · rw [if_pos h3']; simp [Good]
          · rw [if_neg h3']; exact ((ih (level - 1) false (len + 1) rest hr).mono (by simp)).consRes _
        rw [if_neg h3]
        by_cases h4 : (b == 92) = true
        · rw [if_pos h4]
          cases rest with
          | nil => simp [Good]
          | cons esc rest' =>
            have hr' : rest'.length + 1 ≤ f := by simp at hr; omega
            have hlit : ∀ x, Good (b :: esc :: rest').length (consRes x (readStringBody f level false (len + 1) rest')) :=
              fun x => ((ih level false (len + 1) rest' hr').mono (by simp; omega)).consRes x
            show Good _ (if (esc == 110) = true then _ else _)
            by_cases e1 : (esc == 110) = true
            · rw [if_pos e1]; exact hlit _
            rw [if_neg e1]
            by_cases e2 : (esc == 114) = true
            · rw [if_pos e2]; exact hlit _
            rw [if_neg e2]
            by_cases e3 : (esc == 116) = true
            · rw [if_pos e3]; exact hlit _
            rw [if_neg e3]
            by_cases e4 : (esc == 98) = true
            · rw [if_pos e4]; exact hlit _
            rw [if_neg e4]
            by_cases e5 : (esc == 102) = true
            · rw [if_pos e5]; exact hlit _
            rw [if_neg e5]
            by_cases e6 : (esc == 10) = true
            · rw [if_pos e6]; exact (ih level false len rest' hr').mono (by simp; omega)
            rw [if_neg e6]
            by_cases e7 : (esc == 13) = true
            · rw [if_pos e7]; exact (ih level true len rest' hr').mono (by simp; omega)
            rw [if_neg e7]
            by_cases e8 : isOct esc = true
            · rw [if_pos e8]
              have hl := readOctTail_len 2 (esc - 48) rest'
              generalize readOctTail (esc - 48) 2 rest' = q at hl
              obtain ⟨v, r2⟩ := q
              simp only at hl ⊢
              exact ((ih level false (len + 1) r2 (by omega)).mono (by simp; omega)).consRes _
            · rw [if_neg e8]; exact hlit _
        rw [if_neg h4]
        by_cases h5 : (b == 13) = true
        · rw [if_pos h5]; exact ((ih level true (len + 1) rest hr).mono (by simp)).consRes _
        · rw [if_neg h5]; exact ((ih level false (len + 1) rest hr).mono (by simp)).consRes _

theorem good_readString (inp : Bytes) : Good inp.length (readString inp) := by
  unfold readString
  exact good_readStringBody _ 1 false 0 inp (by omega)

theorem good_readHexBody : ∀ (inp : Bytes) (p : Option Nat) (len : Nat), Good inp.length (readHexBody p len inp) := by
  intro inp
  induction inp with
  | nil => intro p len; simp [readHexBody, Good]
  | cons c cs ih =>
    intro p len
    simp only [readHexBody]
    split
    · split
      · split <;> simp [Good]
      · simp [Good]
    · split
      · exact (ih p len).mono (by simp)
      · split
        · exact (ih _ len).mono (by simp)
        · split
          · simp [Good]
          · exact ((ih none (len + 1)).mono (by simp)).consRes _

theorem good_readHexString (inp : Bytes) : Good inp.length (readHexString inp) := good_readHexBody inp none 0

/-! ## the recursive readers: the fuel is enough, the "unreachable" branch is unreachable -/

theorem Good.mapSnd {α β} {n : Nat} {r : Except Err (α × Bytes)} (g : α × Bytes → β × Bytes)
    (hg : ∀ p, (g p).2 = p.2) (h : Good n r) : Good n (r.map g) := by
  cases r with
  | error e => exact h
  | ok p =>
    show Good n (.ok (g p))
    have := hg p
    generalize g p = q at this
    obtain ⟨a, rest⟩ := q
    obtain ⟨a', rest'⟩ := p
    simp only at this
    subst this
    exact h

theorem GoodLt.mapSnd {α β} {n : Nat} {r : Except Err (α × Bytes)} (g : α × Bytes → β × Bytes)
    (hg : ∀ p, (g p).2 = p.2) (h : GoodLt n r) : GoodLt n (r.map g) := by
  cases r with
  | error e => exact h
  | ok p =>
    show GoodLt n (.ok (g p))
    have := hg p
    generalize g p = q at this
    obtain ⟨a, rest⟩ := q
    obtain ⟨a', rest'⟩ := p
    simp only at this
    subst this
    exact h

theorem Good.inComposite {α} {n : Nat} {r : Except Err (α × Bytes)} (h : Good n r) :
    Good n (r.mapError Err.inComposite) := by
  cases r with
  | ok p => exact h
  | error e =>
    show Good n (.error (Err.inComposite e))
    rcases h with rfl | rfl
    · exact Or.inr rfl
    · exact Or.inr rfl

/-- number of integers at the head of the (reversed) array under construction -/
def leadingInts : List Obj → Nat
  | .int _ :: rest => leadingInts rest + 1
  | _ => 0

def ObjClaim (f : Nat) : Prop :=
  ∀ d inp, 3 * inp.length + 1 ≤ f → GoodLt inp.length (readObject f d inp)
def ArrClaim (f : Nat) : Prop :=
  ∀ d inp, 3 * inp.length + 3 ≤ f → Good inp.length (readArray f d inp)
def ArrLoopClaim (f : Nat) : Prop :=
  ∀ d acc ints inp, ints ≤ leadingInts acc → 3 * inp.length + 2 ≤ f → Good inp.length (readArrayLoop f d acc ints inp)
def DictClaim (f : Nat) : Prop :=
  ∀ d inp, 1 ≤ f → 3 * inp.length ≤ f + 4 → GoodLt inp.length (readDict f d inp)
def DictLoopClaim (f : Nat) : Prop :=
  ∀ d acc inp, 3 * inp.length + 1 ≤ f → Good inp.length (readDictLoop f d acc inp)

theorem step_arr (f : Nat) (hl : ArrLoopClaim f) : ArrClaim (f + 1) := by
  intro d inp hf
  unfold readArray
  by_cases hd : d ≥ Gen.scanner_maxScannerNestDepth
  · rw [if_pos hd]; exact Or.inr rfl
  · rw [if_neg hd]
    exact (hl (d + 1) [] 0 inp (by simp [leadingInts]) (by omega)).inComposite

theorem step_dict (f : Nat) (hl : DictLoopClaim f) : DictClaim (f + 1) := by
  intro d inp _ hf
  unfold readDict
  by_cases hd : d ≥ Gen.scanner_maxScannerNestDepth
  · rw [if_pos hd]; exact Or.inr rfl
  · rw [if_neg hd]
    split
    · rename_i rest
      have hlen := skipWS_len rest
      split
      · exact Or.inr rfl
      · rename_i r hs
        rw [hs] at hlen
        simp only at hlen
        exact ((hl (d + 1) [] r (by simp at hf; omega)).inComposite).lt (by simp; omega)
    · exact Or.inr rfl

theorem leadingInts_two (acc : List Obj) (h : 2 ≤ leadingInts acc) :
    ∃ b a acc', acc = .int b :: .int a :: acc' := by
  match acc with
  | .int b :: .int a :: acc' => exact ⟨b, a, acc', rfl⟩
  | [] => simp [leadingInts] at h
  | [.int _] => simp [leadingInts] at h
  | .int _ :: .null :: _ => simp [leadingInts] at h
  | .int _ :: .nilArr :: _ => simp [leadingInts] at h
  | .int _ :: .bool _ :: _ => simp [leadingInts] at h
  | .int _ :: .real _ :: _ => simp [leadingInts] at h
  | .int _ :: .name _ :: _ => simp [leadingInts] at h
  | .int _ :: .str _ :: _ => simp [leadingInts] at h
  | .int _ :: .op _ :: _ => simp [leadingInts] at h
  | .int _ :: .ref _ _ :: _ => simp [leadingInts] at h
  | .int _ :: .arr _ :: _ => simp [leadingInts] at h
  | .int _ :: .dict _ :: _ => simp [leadingInts] at h
  | .null :: _ => simp [leadingInts] at h
  | .nilArr :: _ => simp [leadingInts] at h
  | .bool _ :: _ => simp [leadingInts] at h
  | .real _ :: _ => simp [leadingInts] at h
  | .name _ :: _ => simp [leadingInts] at h
  | .str _ :: _ => simp [leadingInts] at h
  | .op _ :: _ => simp [leadingInts] at h
  | .ref _ _ :: _ => simp [leadingInts] at h
  | .arr _ :: _ => simp [leadingInts] at h
  | .dict _ :: _ => simp [leadingInts] at h

theorem leadingInts_push (o : Obj) (acc : List Obj) (ints : Nat) (h : ints ≤ leadingInts acc) :
    (match o with | .int _ => ints + 1 | _ => 0) ≤ leadingInts (o :: acc) := by
  cases o <;> simp [leadingInts] <;> omega

theorem step_arrloop (f : Nat) (ho : ObjClaim f) (hl : ArrLoopClaim f) : ArrLoopClaim (f + 1) := by
  intro d acc ints inp hints hf
  unfold readArrayLoop
  have hlen := skipWS_len inp
  split
  · exact Or.inl rfl
  · exact Or.inl rfl
  · rename_i c rest hs
    rw [hs] at hlen
    simp only [List.length_cons] at hlen
    by_cases h93 : (c == 93) = true
    · rw [if_pos h93]
      by_cases hcap : acc.length > Gen.scanner_maxArrayLen
      · rw [if_pos hcap]; exact Or.inr rfl
      · rw [if_neg hcap]; simp only [Good]; omega
    rw [if_neg h93]
    by_cases hR : (decide (ints ≥ 2) && c == 82) = true
    · rw [if_pos hR]
      have h2 : 2 ≤ leadingInts acc := by simp at hR; omega
      obtain ⟨b, a, acc', rfl⟩ := leadingInts_two acc h2
      simp only
      exact (hl d _ 0 rest (by omega) (by omega)).mono (by omega)
    · rw [if_neg hR]
      have hobj := ho d (c :: rest) (by simp; omega)
      split
      · rename_i e he; rw [he] at hobj; exact hobj
      · rename_i o r he
        rw [he] at hobj
        simp only [GoodLt, List.length_cons] at hobj
        show Good _ (if acc.length > Gen.scanner_maxArrayLen then _ else _)
        by_cases hcap : acc.length > Gen.scanner_maxArrayLen
        · rw [if_pos hcap]; exact Or.inr rfl
        · rw [if_neg hcap]
          exact (hl d (o :: acc) _ r (leadingInts_push o acc ints hints) (by omega)).mono (by omega)

theorem step_obj (f : Nat) (ha : ArrClaim f) (hd : DictClaim f) : ObjClaim (f + 1) := by
  intro d inp hf
  unfold readObject
  cases inp with
  | nil => exact Or.inr rfl
  | cons c rest =>
    simp only
    by_cases k1 : startsWith (c :: rest) kw_null = true
    · rw [if_pos k1]; simp only [GoodLt, List.length_drop, List.length_cons]; omega
    rw [if_neg k1]
    by_cases k2 : startsWith (c :: rest) kw_true = true
    · rw [if_pos k2]; simp only [GoodLt, List.length_drop, List.length_cons]; omega
    rw [if_neg k2]
    by_cases k3 : startsWith (c :: rest) kw_false = true
    · rw [if_pos k3]; simp only [GoodLt, List.length_drop, List.length_cons]; omega
    rw [if_neg k3]
    by_cases k4 : (c == 47) = true
    · rw [if_pos k4]
      exact (goodlt_readName (c :: rest)).mapSnd _ (fun p => by obtain ⟨a, b⟩ := p; rfl)
    rw [if_neg k4]
    by_cases k5 : (isDigit c || c == 43 || c == 45 || c == 46) = true
    · rw [if_pos k5]; exact goodlt_readNumber c rest k5
    rw [if_neg k5]
    by_cases k6 : (c == 60 && rest.head? == some 60) = true
    · rw [if_pos k6]
      have hdict := hd d (c :: rest) (by simp at hf; omega) (by simp at hf ⊢; omega)
      split
      · rename_i e he; rw [he] at hdict; exact hdict
      · rename_i dd r he
        rw [he] at hdict
        simp only [GoodLt] at hdict
        have hlen := skipWS_len r
        generalize skipWS r = q at hlen
        obtain ⟨r', b⟩ := q
        simp only at hlen ⊢
        split
        · exact Or.inr rfl
        · simp only [GoodLt]; omega
    rw [if_neg k6]
    by_cases k7 : (c == 40) = true
    · rw [if_pos k7]
      exact ((good_readString rest).mapSnd _ (fun p => by obtain ⟨a, b⟩ := p; rfl)).lt (by simp)
    rw [if_neg k7]
    by_cases k8 : (c == 60) = true
    · rw [if_pos k8]
      exact ((good_readHexString rest).mapSnd _ (fun p => by obtain ⟨a, b⟩ := p; rfl)).lt (by simp)
    rw [if_neg k8]
    by_cases k9 : (c == 91) = true
    · rw [if_pos k9]
      exact ((ha d rest (by simp at hf; omega)).mapSnd _ (fun p => by obtain ⟨a, b⟩ := p; rfl)).lt (by simp)
    rw [if_neg k9]
    exact Or.inr rfl

theorem step_dictloop (f : Nat) (ho : ObjClaim f) (hl : DictLoopClaim f) : DictLoopClaim (f + 1) := by
  intro d acc inp hf
  unfold readDictLoop
  have hname := goodlt_readName inp
  split
  · split
    · simp only [Good, List.length_cons]; omega
    · exact Or.inr rfl
  · rename_i key r he
    rw [he] at hname
    simp only [GoodLt] at hname
    have h1 := skipWS_len r
    split
    · exact Or.inl rfl
    · rename_i r1 hs1
      rw [hs1] at h1
      simp only at h1
      have hobj := ho d r1 (by omega)
      split
      · rename_i e he2; rw [he2] at hobj; exact hobj
      · rename_i val r2 hv
        rw [hv] at hobj
        simp only [GoodLt] at hobj
        have h3 := skipWS_len r2
        split
        · exact Or.inl rfl
        · rename_i r3 hs3
          rw [hs3] at h3
          simp only at h3
          have leaf : ∀ (v : Obj) (r' : Bytes), r'.length + 2 ≤ inp.length →
              Good inp.length (if ((!acc.any fun e => e.fst == key) && decide (acc.length ≥ Gen.scanner_maxDictLen)) = true then
                Except.error Err.malformed else readDictLoop f d (dictInsert key v acc) r') := by
            intro v r' hr'
            split
            · exact Or.inr rfl
            · exact (hl d _ r' (by omega)).mono (by omega)
          simp only []
          split
          · rename_i a c tail
            by_cases hc : (c != 47 && c != 62) = true
            · rw [if_pos hc]
              have hint := good_readInteger (c :: tail)
              split
              · rename_i e hi; rw [hi] at hint; exact hint
              · rename_i b r4 hi
                rw [hi] at hint
                simp only [Good] at hint
                have h5 := skipWS_len r4
                split
                · exact Or.inl rfl
                · rename_i r5 hs5
                  rw [hs5] at h5
                  simp only [List.length_cons] at h5
                  have h6 := skipWS_len r5
                  split
                  · exact Or.inl rfl
                  · rename_i r6 hs6
                    rw [hs6] at h6
                    simp only at h6
                    exact leaf _ r6 (by simp only [List.length_cons] at hint h3; omega)
                · exact Or.inr rfl
            · rw [if_neg hc]
              exact leaf _ _ (by omega)
          · exact leaf _ _ (by omega)

/-- all five readers, by induction on the fuel -/
theorem all_claims : ∀ f, ObjClaim f ∧ ArrClaim f ∧ ArrLoopClaim f ∧ DictClaim f ∧ DictLoopClaim f
  | 0 => ⟨fun _ _ h => by omega, fun _ _ h => by omega, fun _ _ _ _ _ h => by omega,
          fun _ _ h => by omega, fun _ _ _ h => by omega⟩
  | f + 1 =>
    have ⟨ho, ha, hal, hd, hdl⟩ := all_claims f
    ⟨step_obj f ha hd, step_arr f hal, step_arrloop f ho hal, step_dict f hdl, step_dictloop f ho hdl⟩

/-- an error, if any, is `eof` or `malformed` -/
def TypedErr {α} (r : Except Err α) : Prop := ∀ e, r = .error e → e = .eof ∨ e = .malformed

theorem Good.typed {α} {n : Nat} {r : Except Err (α × Bytes)} (h : Good n r) : TypedErr r := by
  intro e he; subst he; exact h

/-- **`ReadObject` is typed and makes progress on every input** (with the fuel `objFuel`):
it returns a value and a strictly shorter rest, or fails with `eof`/`malformed`. -/
theorem readObject_good (d : Nat) (inp : Bytes) : GoodLt inp.length (readObject (objFuel inp) d inp) :=
  (all_claims (objFuel inp)).1 d inp (by unfold objFuel; omega)

theorem readDict_good (d : Nat) (inp : Bytes) : GoodLt inp.length (readDict (objFuel inp) d inp) :=
  (all_claims (objFuel inp)).2.2.2.1 d inp (by unfold objFuel; omega) (by unfold objFuel; omega)

theorem recoverExtent_typed (file : Bytes) (start : Nat) (limit : Option Nat := none) :
    TypedErr (recoverExtent file start limit) := by
  intro e he
  unfold recoverExtent at he
  repeat' (first | (cases he <;> first | exact Or.inl rfl | exact Or.inr rfl) | split at he | simp only [] at he)

theorem readStreamData_typed (file : Bytes) (pos : Nat) (declared : Option Nat) (limit : Option Nat := none) :
    TypedErr (readStreamData file pos declared limit) := by
  intro e he
  unfold readStreamData at he
  have hr := fun s => recoverExtent_typed file s limit e
  repeat' (first | (exact hr _ he) | (cases he <;> first | exact Or.inl rfl | exact Or.inr rfl) | split at he | simp only [] at he)
  repeat' (first | (cases he <;> first | exact Or.inl rfl | exact Or.inr rfl) | split at he | simp only [] at he)

theorem readInt_typed (inp : Bytes) : TypedErr (readInt inp) := by
  intro e he
  unfold readInt at he
  repeat' (first | (cases he <;> first | exact Or.inl rfl | exact Or.inr rfl) | split at he | simp only [] at he)

/-- a `getInt` whose own errors are `eof` or `malformed` (true of `makeSafeGetInt`, see
    `safeGetInt_typed`; a `getInt` that reports an I/O error makes `ReadStreamData` report it) -/
def TypedGetInt (getInt : Obj → Except Err Int) : Prop := ∀ o, TypedErr (getInt o)

theorem declaredOf_typed (getInt : Obj → Except Err Int) (hg : TypedGetInt getInt) (d : List (Bytes × Obj)) :
    TypedErr (declaredOf getInt d) := by
  intro e he
  unfold declaredOf at he
  split at he
  · cases he
  · rename_i o _
    have := hg o
    split at he
    · cases he
    · cases he
    · cases he
    · rename_i e' hne1 hne2 hget
      rcases this e' hget with rfl | rfl
      · exact absurd rfl hne2
      · exact absurd rfl hne1

theorem readObjectTop_typed (file : Bytes) (pos : Nat) (getInt : Obj → Except Err Int) (hg : TypedGetInt getInt)
    (scalarOnly : Bool) (limit : Option Nat := none) : TypedErr (readObjectTop file pos getInt scalarOnly limit) := by
  intro e he
  unfold readObjectTop at he
  repeat' (first | (cases he <;> first | exact Or.inl rfl | exact Or.inr rfl) | split at he | simp only [] at he)
  all_goals (
    cases he
    first
    | exact (readObject_good 0 _).le.typed _ (by assumption)
    | exact (readDict_good 0 _).le.typed _ (by assumption)
    | exact readStreamData_typed _ _ _ _ _ (by assumption)
    | exact declaredOf_typed getInt hg _ _ (by assumption))

/-- **`ReadIndirectObject` fails only with `eof` or `malformed`** — on every file, at every
position, in both modes, with every `getInt` whose own errors are of these two classes.  (These
are exactly the classes `checkObjects` turns into `Broken`; any other class would abort the scan.) -/
theorem readIndirect_typed (file : Bytes) (pos : Nat) (getInt : Obj → Except Err Int) (hg : TypedGetInt getInt)
    (scalarOnly : Bool) (limit : Option Nat := none) : TypedErr (readIndirect file pos getInt scalarOnly limit) := by
  intro e he
  unfold readIndirect at he
  repeat' (first | (cases he <;> first | exact Or.inl rfl | exact Or.inr rfl) | split at he | simp only [] at he)
  all_goals (
    cases he
    first
    | exact readInt_typed _ _ (by assumption)
    | exact readObjectTop_typed _ _ _ hg _ _ _ (by assumption))

/-- the `getInt` of `makeSafeGetInt` fails only with `eof` or `malformed` -/
theorem safeGetInt_typed (file : Bytes) (secs : List HIS.Section) : ∀ (fuel : Nat) (seen : List (Nat × Nat)) (o : Obj),
    TypedErr (safeGetInt file secs fuel seen o).2 := by
  intro fuel
  induction fuel with
  | zero => intro seen o e he; simp [safeGetInt] at he; exact Or.inr he.symm
  | succ fuel ih =>
    intro seen o e he
    unfold safeGetInt at he
    have hnested : TypedGetInt (fun _ => (Except.error Err.malformed : Except Err Int)) := by
      intro _ e' h'; cases h'; exact Or.inr rfl
    repeat' (first | (cases he <;> first | exact Or.inl rfl | exact Or.inr rfl) | split at he | simp only [] at he)
    all_goals first
      | exact ih _ _ _ he
      | (cases he; exact readIndirect_typed _ _ _ hnested _ none _ (by assumption))

/-- **The scan never aborts while checking objects.**  For every file, every set of located
sections and every located header, `checkObjects` either records the object with its type or
marks it `Broken`; it never returns an error (which is what would make `SequentialScan` fail
outright after `locateObjects` found something). -/
theorem checkObject_total (file : Bytes) (secs : List HIS.Section) (fo : FileObject) :
    ∃ c, checkObject file secs fo = .ok c := by
  unfold checkObject
  have ht := readIndirect_typed file fo.start (fun o => (safeGetInt file secs 12 [] o).2)
    (fun o => safeGetInt_typed file secs 12 [] o) false (nextStart secs fo.start)
  simp only []
  split
  · exact ⟨_, rfl⟩
  · exact ⟨_, rfl⟩
  · rename_i e h1 h2 h3
    rcases ht e h3 with rfl | rfl
    · exact absurd rfl h2
    · exact absurd rfl h1
  · exact ⟨_, rfl⟩

-- non-vacuity: a cut-off object is Broken, a complete one is listed with its type
example : (match checkObject (bytesOfString "1 0 obj\n<</A 1") [] { num := 1, gen := 0, start := 0 } with
    | .ok c => c.broken | _ => false) = true := by decide +kernel
example : (match checkObject (bytesOfString "1 0 obj\n<</Type/X>>\nendobj\n") [] { num := 1, gen := 0, start := 0 } with
    | .ok c => !c.broken && c.endPos == 26 && c.subtype == [88] | _ => false) = true := by decide +kernel

/-! ## a prefix that does not contain `endobj` is never read as a complete object -/

/-- `r` is what remains of `file` after some position -/
def IsSuffix (r file : Bytes) : Prop := ∃ q, r = file.drop q

theorem IsSuffix.drop {r file : Bytes} (h : IsSuffix r file) (k : Nat) : IsSuffix (r.drop k) file := by
  obtain ⟨q, rfl⟩ := h; exact ⟨q + k, by simp [List.drop_drop]⟩

theorem IsSuffix.tail {c : Nat} {r file : Bytes} (h : IsSuffix (c :: r) file) : IsSuffix r file := by
  have := h.drop 1; simpa using this

theorem skip_suffix : ∀ inp : Bytes, (∃ k, (skipWS inp).1 = inp.drop k) ∧ (∃ k, (skipComment inp).1 = inp.drop k) := by
  intro inp
  induction inp with
  | nil => exact ⟨⟨0, by simp [skipWS]⟩, ⟨0, by simp [skipComment]⟩⟩
  | cons c cs ih =>
    obtain ⟨⟨k1, h1⟩, ⟨k2, h2⟩⟩ := ih
    constructor
    · simp only [skipWS]
      split
      · exact ⟨k2 + 1, by simpa using h2⟩
      · split
        · exact ⟨k1 + 1, by simpa using h1⟩
        · exact ⟨0, by simp⟩
    · simp only [skipComment]
      split
      · exact ⟨k1 + 1, by simpa using h1⟩
      · exact ⟨k2 + 1, by simpa using h2⟩

theorem IsSuffix.skipWS {r file : Bytes} (h : IsSuffix r file) : IsSuffix (skipWS r).1 file := by
  obtain ⟨k, hk⟩ := (skip_suffix r).1
  rw [hk]; exact h.drop k

theorem scanNumTok_suffix (a : Bool) : ∀ (inp : Bytes) (h f : Bool), ∃ k, (scanNumTok a h f inp).2 = inp.drop k := by
  intro inp
  induction inp with
  | nil => intro h f; exact ⟨0, by simp [scanNumTok]⟩
  | cons c cs ih =>
    intro h f
    simp only [scanNumTok]
    split
    · obtain ⟨k, hk⟩ := ih true false; exact ⟨k + 1, by simpa using hk⟩
    · split
      · obtain ⟨k, hk⟩ := ih h false; exact ⟨k + 1, by simpa using hk⟩
      · split
        · obtain ⟨k, hk⟩ := ih h false; exact ⟨k + 1, by simpa using hk⟩
        · exact ⟨0, by simp⟩

theorem readInt_suffix {inp file : Bytes} (h : IsSuffix inp file) {i : Int} {r : Bytes}
    (hr : readInt inp = .ok (i, r)) : IsSuffix r file := by
  unfold readInt at hr
  split at hr
  · cases hr
  · rename_i inp' hs
    have hsuf : IsSuffix inp' file := by have := h.skipWS; rw [hs] at this; exact this
    obtain ⟨k, hk⟩ := scanNumTok_suffix false inp' false true
    simp only at hr
    split at hr
    · cases hr
    · split at hr
      · cases hr; rw [hk]; exact hsuf.drop k
      · cases hr

/-- **A successful `ReadIndirectObject` has seen the keyword `endobj`.** -/
theorem ok_implies_endobj (file : Bytes) (pos : Nat) (getInt : Obj → Except Err Int) (scalarOnly : Bool)
    (ind : Indirect) (h : readIndirect file pos getInt scalarOnly = .ok ind) :
    ∃ q, isPrefixOf kwEndobj (file.drop q) = true := by
  unfold readIndirect at h
  split at h
  · cases h
  · split at h
    · cases h
    · split at h
      · cases h
      · split at h
        · cases h
        · split at h
          · cases h
          · split at h
            · cases h
            · split at h
              · cases h
              · rename_i v p hv
                have hsuf0 : IsSuffix (skipWS (file.drop p)).1 file := IsSuffix.skipWS ⟨p, rfl⟩
                split at h
                · cases h
                · rename_i r hs
                  have hsuf : IsSuffix r file := by rw [hs] at hsuf0; exact hsuf0
                  simp only [] at h
                  split at h
                  · split at h
                    · rename_i hsw; obtain ⟨q, hq⟩ := hsuf; subst hq; exact ⟨q, hsw⟩
                    · split at h
                      · cases h
                      · rename_i b r2 hb
                        have hs2 := readInt_suffix hsuf hb
                        have hs3 := hs2.skipWS
                        split at h
                        · cases h
                        · rename_i r3 hs3'
                          rw [hs3'] at hs3
                          simp only at hs3
                          split at h
                          · rename_i r4
                            have hs5 := (hs3.tail).skipWS
                            split at h
                            · cases h
                            · rename_i r5 hs5'
                              rw [hs5'] at hs5
                              simp only at hs5
                              split at h
                              · cases h
                              · split at h
                                · rename_i hsw; obtain ⟨q, hq⟩ := hs5; subst hq; exact ⟨q, hsw⟩
                                · cases h
                          · cases h
                  · split at h
                    · rename_i hsw; obtain ⟨q, hq⟩ := hsuf; subst hq; exact ⟨q, hsw⟩
                    · cases h

/-- the bytes contain the keyword `endobj` nowhere -/
def NoEndobj (p : Bytes) : Prop := ∀ q, isPrefixOf kwEndobj (p.drop q) = false

/-- **Reading a prefix without `endobj` never succeeds, and fails with a typed error.**  For
every byte string `p` that does not contain the keyword `endobj` — in particular every strict
prefix of `N G obj … endobj` whose body does not contain the keyword — `ReadIndirectObject`
at any position returns `eof` or `malformed`: the object is reported as `Broken`, never as a
complete object and never as an error that aborts the scan. -/
theorem prefix_without_endobj_fails (p : Bytes) (hp : NoEndobj p) (pos : Nat)
    (getInt : Obj → Except Err Int) (hg : TypedGetInt getInt) (scalarOnly : Bool) :
    ∃ e, readIndirect p pos getInt scalarOnly = .error e ∧ (e = .eof ∨ e = .malformed) := by
  cases h : readIndirect p pos getInt scalarOnly with
  | error e => exact ⟨e, rfl, readIndirect_typed p pos getInt hg scalarOnly none e h⟩
  | ok ind =>
    obtain ⟨q, hq⟩ := ok_implies_endobj p pos getInt scalarOnly ind h
    rw [hp q] at hq; cases hq

/-- the full statement of DESIGN §5 C20 (1): every strict prefix of header ‖ body ‖ LF `endobj`
fails with `eof` or `malformed`.  Proved above for bodies that do not contain the keyword
`endobj` (`prefix_errors_typed_partial`); for a body that contains the keyword inside a string
or name the "never succeeds" half needs the prefix-stability of the whole parser and is not
proved (the typed half, `readIndirect_typed`, holds for all inputs). -/
def prefix_errors_typed : Prop :=
  ∀ (hdrBody : Bytes) (t : Nat), t < (hdrBody ++ 10 :: kwEndobj).length →
    (∃ ind, readIndirect (hdrBody ++ 10 :: kwEndobj) 0 (fun _ => .error .malformed) false = .ok ind ∧ ind.endPos = (hdrBody ++ 10 :: kwEndobj).length) →
    ∃ e, readIndirect ((hdrBody ++ 10 :: kwEndobj).take t) 0 (fun _ => .error .malformed) false = .error e ∧ (e = .eof ∨ e = .malformed)

theorem prefix_errors_typed_partial (hdrBody : Bytes) (hb : NoEndobj (hdrBody ++ [10, 101, 110, 100, 111, 98]))
    (t : Nat) (ht : t < (hdrBody ++ 10 :: kwEndobj).length) (getInt : Obj → Except Err Int) (hg : TypedGetInt getInt) :
    ∃ e, readIndirect ((hdrBody ++ 10 :: kwEndobj).take t) 0 getInt false = .error e ∧ (e = .eof ∨ e = .malformed) := by
  apply prefix_without_endobj_fails _ _ _ _ hg
  intro q
  -- a strict prefix of the whole is a prefix of the whole without its last byte
  have hpre : (hdrBody ++ 10 :: kwEndobj).take t = (hdrBody ++ [10, 101, 110, 100, 111, 98]).take t := by
    have : hdrBody ++ 10 :: kwEndobj = (hdrBody ++ [10, 101, 110, 100, 111, 98]) ++ [106] := by simp [kwEndobj]
    rw [this, List.take_append_of_le_length]
    simp [kwEndobj] at ht ⊢; omega
  rw [hpre]
  -- an occurrence in a prefix is an occurrence in the whole
  cases hocc : isPrefixOf kwEndobj (((hdrBody ++ [10, 101, 110, 100, 111, 98]).take t).drop q) with
  | false => rfl
  | true =>
    have key : ∀ (kw a : Bytes) (n : Nat), isPrefixOf kw (a.take n) = true → isPrefixOf kw a = true := by
      intro kw
      induction kw with
      | nil => intro a n _; rfl
      | cons k ks ih =>
        intro a n h
        cases a with
        | nil => simp [isPrefixOf] at h
        | cons x xs =>
          cases n with
          | zero => simp [isPrefixOf] at h
          | succ n =>
            simp only [List.take_succ_cons, isPrefixOf, Bool.and_eq_true] at h ⊢
            exact ⟨h.1, ih xs n h.2⟩
    have h2 := hb q
    rw [List.drop_take] at hocc
    have := key _ _ _ hocc
    rw [this] at h2; cases h2

-- non-vacuity: "7 0 obj\n[1 (x)]" has no `endobj`; every prefix of the complete object fails typed
example : NoEndobj (bytesOfString "7 0 obj\n[1 (x)]" ++ [10, 101, 110, 100, 111, 98]) := by
  intro q
  have : ∀ q, q < 24 → isPrefixOf kwEndobj ((bytesOfString "7 0 obj\n[1 (x)]" ++ [10, 101, 110, 100, 111, 98]).drop q) = false := by
    decide +kernel
  by_cases h : q < 24
  · exact this q h
  · have hl : (bytesOfString "7 0 obj\n[1 (x)]" ++ [10, 101, 110, 100, 111, 98]).length ≤ q := by
      have : (bytesOfString "7 0 obj\n[1 (x)]" ++ [10, 101, 110, 100, 111, 98]).length = 21 := by decide +kernel
      omega
    rw [List.drop_eq_nil_of_le hl]; rfl

end PdfVerif.C20hisb

import PdfVerif.Model.CCCodec
import PdfVerif.Spec.CCCodeSpace
/-!
# C12 — the character-code codec implements exactly its code space ranges (part 1)

Tree semantics: the unshared lookup tree built by `newTree` (Model/CCCodec.lean, mirroring
`font/charcode/codec.go`) decodes every input exactly as ISO 32000-2 9.7.6.3 prescribes
(Spec/CCCodeSpace.lean), for every range set that `newTree` accepts.
-/
namespace PdfVerif.C12cc
open PdfVerif PdfVerif.CC PdfVerif.Spec.CodeSpace

/-- byte `b` lies in the interval of `r` at position `d` -/
def containsAt (d b : Nat) (r : Range) : Bool := byteAt r.low d ≤ b && b ≤ byteAt r.high d

/-- recursive form of the reference semantics, following the input byte by byte: `S` are the
ranges that match the `d` bytes read so far; result = (bytes consumed from here on, valid) -/
def specFrom : (fuel : Nat) → CSR → (d : Nat) → Bytes → Nat × Bool
  | 0, _, _, _ => (0, false)
  | _ + 1, _, _, [] => (0, false)
  | fuel + 1, S, d, b :: s =>
    if (S.filter (containsAt d b)).isEmpty then (min (minLength S - (d + 1)) s.length + 1, false)
    else if numLeaves (S.filter (containsAt d b)) d == (S.filter (containsAt d b)).length then (1, true)
    else ((specFrom fuel (S.filter (containsAt d b)) (d + 1) s).1 + 1,
          (specFrom fuel (S.filter (containsAt d b)) (d + 1) s).2)

theorem overlapping_eq (S : CSR) (d lo hi b : Nat) (h1 : lo ≤ b) (h2 : b ≤ hi)
    (hb : ∀ y, lo < y → y ≤ hi → isBreak S d y = false) :
    overlapping S d lo hi = S.filter (containsAt d b) := by
  unfold overlapping
  apply List.filter_congr
  intro r hr
  have hlow : ∀ y, lo < y → y ≤ hi → byteAt r.low d ≠ y ∧ byteAt r.high d + 1 ≠ y := by
    intro y hy1 hy2
    have := hb y hy1 hy2
    simp only [isBreak, Bool.or_eq_false_iff, List.any_eq_false] at this
    have := this.2 r hr
    simp at this
    exact this
  simp only [containsAt]
  by_cases c1 : byteAt r.low d ≤ hi
  · by_cases c2 : byteAt r.high d ≥ lo
    · have e1 : byteAt r.low d ≤ b := by
        by_cases c : lo < byteAt r.low d
        · exact absurd rfl (hlow _ c c1).1
        · omega
      have e2 : b ≤ byteAt r.high d := by
        by_cases c : byteAt r.high d + 1 ≤ hi
        · exact absurd rfl (hlow _ (by omega) c).2
        · omega
      simp [c1, c2, e1, e2]
    · have : ¬ (b ≤ byteAt r.high d) := by omega
      simp [c2, this]
  · have : ¬ (byteAt r.low d ≤ b) := by omega
    simp [c1, this]


theorem nodeFor_dec (fuel : Nat) (S : CSR) (d lo hi b : Nat) (s : Bytes) (kid : Nat × Node)
    (hsel : overlapping S d lo hi = S.filter (containsAt d b))
    (ih : ∀ child cs s, AllBytes s → newTree fuel child (d + 1) = .ok cs → kidsDec cs s = specFrom fuel child (d + 1) s)
    (hs : AllBytes s)
    (h : nodeFor (fun c => newTree fuel c (d + 1)) S d (lo, hi) = .ok kid) :
    kid.1 = hi ∧ ((kid.2.dec s).1 + 1, (kid.2.dec s).2) = specFrom (fuel + 1) S d (b :: s) := by
  simp only [nodeFor, hsel] at h
  simp only [specFrom]
  split at h
  · rename_i h0
    injection h with h; subst h
    simp [h0, Node.dec]
  · rename_i h0
    split at h
    · rename_i h1
      injection h with h; subst h
      simp [h0, h1, Node.dec]
    · rename_i h1
      split at h
      · rename_i h2
        split at h
        · rename_i cs hcs
          injection h with h; subst h
          have := ih _ _ s hs hcs
          simp [h0, h1, Node.dec, this]
        · cases h
      · cases h

theorem kids_scan (fuel : Nat) (S : CSR) (d : Nat)
    (ih : ∀ child cs s, AllBytes s → newTree fuel child (d + 1) = .ok cs → kidsDec cs s = specFrom fuel child (d + 1) s) :
    ∀ n x lo, x + n = 257 → lo < x → (∀ y, lo < y → y < x → isBreak S d y = false) →
    ∀ kids, mapE (nodeFor (fun c => newTree fuel c (d + 1)) S d)
        (intervals (lo :: (List.range' x n).filter (isBreak S d))) = .ok kids →
    ∀ b s, lo ≤ b → b < 256 → AllBytes s → kidsDec kids (b :: s) = specFrom (fuel + 1) S d (b :: s) := by
  intro n
  induction n with
  | zero =>
    intro x lo hx hlo hnb kids hk b s hb1 hb2 hs
    have : isBreak S d 256 = true := by simp [isBreak]
    have := hnb 256 (by omega) (by omega)
    simp_all
  | succ n ihn =>
    intro x lo hx hlo hnb kids hk b s hb1 hb2 hs
    rw [List.range'_succ, List.filter_cons] at hk
    by_cases hp : isBreak S d x = true
    · simp only [hp, if_true, intervals, mapE] at hk
      split at hk
      · cases hk
      · rename_i kid hkid
        split at hk
        · cases hk
        · rename_i kids' hkids'
          injection hk with hk; subst hk
          by_cases hsel : b ≤ x - 1
          · have hov := overlapping_eq S d lo (x - 1) b hb1 hsel (by intro y h1 h2; exact hnb y h1 (by omega))
            obtain ⟨e1, e2⟩ := nodeFor_dec fuel S d lo (x - 1) b s kid hov ih hs hkid
            obtain ⟨k1, k2⟩ := kid
            simp only at e1; subst e1
            simp only [kidsDec, hsel, if_true]
            exact e2
          · obtain ⟨k1, k2⟩ := kid
            have e1 : k1 = x - 1 := by
              simp only [nodeFor] at hkid
              split at hkid
              · injection hkid with hkid; simpa using (congrArg Prod.fst hkid).symm
              · split at hkid
                · injection hkid with hkid; simpa using (congrArg Prod.fst hkid).symm
                · split at hkid
                  · split at hkid
                    · injection hkid with hkid; simpa using (congrArg Prod.fst hkid).symm
                    · cases hkid
                  · cases hkid
            subst e1
            simp only [kidsDec, hsel, if_false]
            exact ihn (x + 1) x (by omega) (by omega) (by intro y h1 h2; omega) kids' hkids' b s (by omega) hb2 hs
    · have hp' : isBreak S d x = false := by simpa using hp
      simp only [hp', Bool.false_eq_true, if_false] at hk
      exact ihn (x + 1) lo (by omega) (by omega)
        (by intro y h1 h2; by_cases h : y = x; subst h; exact hp'; exact hnb y h1 (by omega))
        kids hk b s hb1 hb2 hs


theorem kidsDec_nil (cs : List (Nat × Node)) : kidsDec cs [] = (0, false) := by
  cases cs <;> simp [kidsDec]

/-- **Tree semantics (recursive form).**  The unshared tree built by `newTree` consumes input
exactly like the byte-by-byte reference semantics over the ranges it was built from. -/
theorem tree_sem_rec : ∀ (fuel : Nat) (S : CSR) (d : Nat) (cs : List (Nat × Node)) (s : Bytes),
    newTree fuel S d = .ok cs → AllBytes s → kidsDec cs s = specFrom fuel S d s := by
  intro fuel
  induction fuel with
  | zero => intro S d cs s h; simp [newTree] at h
  | succ fuel ih =>
    intro S d cs s h hs
    simp only [newTree] at h
    split at h
    · cases h
    · cases s with
      | nil => simp [kidsDec_nil, specFrom]
      | cons b s =>
        have hb : b < 256 := by simp [AllBytes] at hs; exact hs.1
        have hs' : AllBytes s := by simp [AllBytes] at hs ⊢; exact hs.2
        have e : breaks S d = 0 :: (List.range' 1 256).filter (isBreak S d) := by
          have : isBreak S d 0 = true := by simp [isBreak]
          simp only [breaks, List.range_eq_range']
          rw [show (257 : Nat) = 256 + 1 from rfl, List.range'_succ, List.filter_cons]
          simp [this]
        rw [e] at h
        exact kids_scan fuel S d (fun child cs s hs hc => ih child (d + 1) cs s hc hs)
          256 1 0 rfl (by omega) (by intro y h1 h2; omega) cs h b s (by omega) hb hs'

/-! ## the flat reference semantics -/

theorem withinFirst_mono (lo hi s : List Nat) (k k' : Nat) (h : k ≤ k') :
    withinFirst lo hi s k' = true → withinFirst lo hi s k = true := by
  induction k generalizing lo hi s k' with
  | zero => intro _; simp [withinFirst]
  | succ k ih =>
    intro hk
    cases k' with
    | zero => omega
    | succ k' =>
      cases lo with
      | nil => simp [withinFirst] at hk
      | cons l lo =>
        cases hi with
        | nil => simp [withinFirst] at hk
        | cons hh hi =>
          cases s with
          | nil => simp [withinFirst] at hk
          | cons b s =>
            simp only [withinFirst, Bool.and_eq_true] at hk ⊢
            exact ⟨hk.1, ih lo hi s k' (by omega) hk.2⟩

theorem withinFirst_len (lo hi s : List Nat) (k : Nat) :
    withinFirst lo hi s k = true → k ≤ lo.length ∧ k ≤ hi.length ∧ k ≤ s.length := by
  induction k generalizing lo hi s with
  | zero => intro _; simp
  | succ k ih =>
    intro hk
    cases lo with
    | nil => simp [withinFirst] at hk
    | cons l lo =>
      cases hi with
      | nil => simp [withinFirst] at hk
      | cons hh hi =>
        cases s with
        | nil => simp [withinFirst] at hk
        | cons b s =>
          simp only [withinFirst, Bool.and_eq_true] at hk
          have := ih lo hi s hk.2
          simp; omega

/-- one more byte: position `k` -/
theorem withinFirst_succ (lo hi s : List Nat) (k : Nat) :
    withinFirst lo hi s (k + 1) =
      (withinFirst lo hi s k && decide (k < lo.length) && decide (k < hi.length) && decide (k < s.length) &&
        decide (byteAt lo k ≤ byteAt s k) && decide (byteAt s k ≤ byteAt hi k)) := by
  induction k generalizing lo hi s with
  | zero =>
    cases lo <;> cases hi <;> cases s <;> simp [withinFirst, byteAt]
  | succ k ih =>
    cases lo with
    | nil => simp [withinFirst]
    | cons l lo =>
      cases hi with
      | nil => simp [withinFirst]
      | cons hh hi =>
        cases s with
        | nil => simp [withinFirst]
        | cons b s =>
          rw [withinFirst, ih lo hi s]
          simp only [withinFirst, byteAt, List.length_cons, List.getElem?_cons_succ]
          simp only [Nat.add_lt_add_iff_right]
          rw [Bool.eq_iff_iff]
          simp only [Bool.and_eq_true, decide_eq_true_eq]
          constructor
          · rintro ⟨⟨a, b⟩, ⟨⟨⟨⟨⟨c, d⟩, e⟩, f⟩, g⟩, h⟩⟩; exact ⟨⟨⟨⟨⟨⟨⟨a, b⟩, c⟩, d⟩, e⟩, f⟩, g⟩, h⟩
          · rintro ⟨⟨⟨⟨⟨⟨⟨a, b⟩, c⟩, d⟩, e⟩, f⟩, g⟩, h⟩; exact ⟨⟨a, b⟩, ⟨⟨⟨⟨⟨c, d⟩, e⟩, f⟩, g⟩, h⟩⟩

theorem foldl_max_ge (l : List Nat) (a : Nat) : a ≤ l.foldl Nat.max a ∧ ∀ x ∈ l, x ≤ l.foldl Nat.max a := by
  induction l generalizing a with
  | nil => simp
  | cons y l ih =>
    simp only [List.foldl_cons, List.mem_cons]
    have := ih (Nat.max a y)
    constructor
    · exact Nat.le_trans (Nat.le_max_left a y) this.1
    · intro x hx
      rcases hx with rfl | hx
      · exact Nat.le_trans (Nat.le_max_right a x) this.1
      · exact this.2 x hx

theorem foldl_max_mem (l : List Nat) (a : Nat) : l.foldl Nat.max a = a ∨ l.foldl Nat.max a ∈ l := by
  induction l generalizing a with
  | nil => simp
  | cons y l ih =>
    simp only [List.foldl_cons, List.mem_cons]
    rcases ih (Nat.max a y) with h | h
    · rw [h]
      rcases Nat.le_total a y with c | c
      · right; left; exact Nat.max_eq_right c
      · left; exact Nat.max_eq_left c
    · right; right; exact h

theorem longestPartial_eq (csr : List CodeRange) (s : List Nat) (k : Nat) (hk : k ≤ s.length)
    (h1 : k = 0 ∨ ∃ r ∈ csr, r.matchesUpTo s k = true)
    (h2 : ∀ r ∈ csr, r.matchesUpTo s (k + 1) = false) :
    longestPartial csr s = k := by
  unfold longestPartial
  have hno : ∀ k', k < k' → ∀ r ∈ csr, r.matchesUpTo s k' = false := by
    intro k' hk' r hr
    cases h : r.matchesUpTo s k' with
    | false => rfl
    | true =>
      have := withinFirst_mono r.lo r.hi s (k + 1) k' (by omega) h
      have := h2 r hr
      simp_all [CodeRange.matchesUpTo]
  generalize hl : (List.filter (fun k => csr.any fun r => r.matchesUpTo s k) (List.range (s.length + 1))) = l
  have hle : ∀ x ∈ l, x ≤ k := by
    intro x hx
    rw [← hl] at hx
    simp only [List.mem_filter, List.mem_range, List.any_eq_true] at hx
    obtain ⟨_, r, hr, hm⟩ := hx
    by_cases c : k < x
    · have := hno x c r hr; simp_all
    · omega
  have hge := foldl_max_ge l 0
  rcases foldl_max_mem l 0 with h | h
  · rcases h1 with h1 | ⟨r, hr, hm⟩
    · omega
    · have : k ∈ l := by
        rw [← hl]; simp only [List.mem_filter, List.mem_range, List.any_eq_true]
        exact ⟨by omega, r, hr, hm⟩
      have := hge.2 k this
      omega
  · have := hle _ h
    rcases h1 with h1 | ⟨r, hr, hm⟩
    · omega
    · have : k ∈ l := by
        rw [← hl]; simp only [List.mem_filter, List.mem_range, List.any_eq_true]
        exact ⟨by omega, r, hr, hm⟩
      have := hge.2 k this
      omega

theorem decode_valid (csr : List CodeRange) (s : List Nat) (hs : s ≠ []) (r : CodeRange) (hr : r ∈ csr)
    (hm : r.startsCode s = true) (huniq : ∀ r' ∈ csr, r'.startsCode s = true → r'.len = r.len) :
    decode csr s = (r.len, true) := by
  unfold decode
  have : s.isEmpty = false := by cases s <;> simp_all
  simp only [this, Bool.false_eq_true, if_false]
  cases h : csr.find? fun r => r.startsCode s with
  | none =>
    rw [List.find?_eq_none] at h
    have := h r hr
    simp_all
  | some r' =>
    have h1 := List.mem_of_find?_eq_some h
    have h2 := List.find?_some h
    simp [huniq r' h1 h2]

theorem decode_invalid (csr : List CodeRange) (s : List Nat) (hs : s ≠ []) (k : Nat) (hk : k ≤ s.length)
    (hnone : ∀ r ∈ csr, r.startsCode s = false)
    (h1 : k = 0 ∨ ∃ r ∈ csr, r.matchesUpTo s k = true)
    (h2 : ∀ r ∈ csr, r.matchesUpTo s (k + 1) = false) :
    decode csr s =
      (Nat.min (shortest ((csr.filter fun r => r.matchesUpTo s k).map CodeRange.len)) s.length, false) := by
  unfold decode
  have : s.isEmpty = false := by cases s <;> simp_all
  simp only [this, Bool.false_eq_true, if_false]
  have : (csr.find? fun r => r.startsCode s) = none := by
    rw [List.find?_eq_none]; intro r hr; simp [hnone r hr]
  rw [this]
  simp only [longestPartial_eq csr s k hk h1 h2]


/-! ## from the recursive form to the flat reference semantics -/

theorem scan_find (f : Nat × Nat → Except CErr (Nat × Node)) (p : Nat → Bool) (h256 : p 256 = true) :
    ∀ n x lo, x + n = 257 → lo < x → (∀ y, lo < y → y < x → p y = false) →
    ∀ kids, mapE f (intervals (lo :: (List.range' x n).filter p)) = .ok kids →
    ∀ b, lo ≤ b → b < 256 →
      ∃ lo' hi' kid, lo' ≤ b ∧ b ≤ hi' ∧ (∀ y, lo' < y → y ≤ hi' → p y = false) ∧ f (lo', hi') = .ok kid := by
  intro n
  induction n with
  | zero =>
    intro x lo hx hlo hnb kids hk b hb1 hb2
    have := hnb 256 (by omega) (by omega)
    simp_all
  | succ n ihn =>
    intro x lo hx hlo hnb kids hk b hb1 hb2
    rw [List.range'_succ, List.filter_cons] at hk
    by_cases hp : p x = true
    · simp only [hp, if_true, intervals, mapE] at hk
      split at hk
      · cases hk
      · rename_i kid hkid
        split at hk
        · cases hk
        · rename_i kids' hkids'
          by_cases hsel : b ≤ x - 1
          · exact ⟨lo, x - 1, kid, hb1, hsel, fun y h1 h2 => hnb y h1 (by omega), hkid⟩
          · exact ihn (x + 1) x (by omega) (by omega) (by intro y h1 h2; omega) kids' hkids' b (by omega) hb2
    · have hp' : p x = false := by simpa using hp
      simp only [hp', Bool.false_eq_true, if_false] at hk
      exact ihn (x + 1) lo (by omega) (by omega)
        (by intro y h1 h2; by_cases h : y = x; subst h; exact hp'; exact hnb y h1 (by omega))
        kids hk b hb1 hb2

/-- what a successful `newTree` says about the ranges selected by one more byte -/
theorem newTree_step (fuel : Nat) (S : CSR) (d : Nat) (cs : List (Nat × Node))
    (h : newTree (fuel + 1) S d = .ok cs) (b : Nat) (hb : b < 256) :
    (∀ r ∈ S, d < r.low.length ∧ d < r.high.length) ∧
    ((S.filter (containsAt d b)).isEmpty = true ∨
     numLeaves (S.filter (containsAt d b)) d = (S.filter (containsAt d b)).length ∨
     ((S.filter (containsAt d b)).isEmpty = false ∧
      numLeaves (S.filter (containsAt d b)) d ≠ (S.filter (containsAt d b)).length ∧
      numLeaves (S.filter (containsAt d b)) d = 0 ∧
      ∃ cs', newTree fuel (S.filter (containsAt d b)) (d + 1) = .ok cs')) := by
  simp only [newTree] at h
  split at h
  · cases h
  · rename_i hg
    constructor
    · intro r hr
      simp only [Bool.not_eq_true', Bool.not_eq_false, List.all_eq_true, Bool.and_eq_true, decide_eq_true_eq] at hg
      exact hg r hr
    · have e : breaks S d = 0 :: (List.range' 1 256).filter (isBreak S d) := by
        have : isBreak S d 0 = true := by simp [isBreak]
        simp only [breaks, List.range_eq_range']
        rw [show (257 : Nat) = 256 + 1 from rfl, List.range'_succ, List.filter_cons]
        simp [this]
      rw [e] at h
      obtain ⟨lo', hi', kid, h1, h2, h3, h4⟩ := scan_find _ (isBreak S d) (by simp [isBreak]) 256 1 0 rfl (by omega)
        (by intro y h1 h2; omega) cs h b (by omega) hb
      have hov := overlapping_eq S d lo' hi' b h1 h2 h3
      simp only [nodeFor, hov] at h4
      split at h4
      · left; assumption
      · rename_i h0
        split at h4
        · right; left; rename_i h5; simpa using h5
        · rename_i h5
          split at h4
          · rename_i h6
            split at h4
            · rename_i cs' hcs'
              right; right
              exact ⟨by simpa using h0, by simpa using h5, by simpa using h6, cs', hcs'⟩
            · cases h4
          · cases h4

theorem foldl_min_eq (l : List Range) (a : Nat) :
    l.foldl (fun m r => if r.low.length < m then r.low.length else m) a =
      (l.map fun r => r.low.length).foldl Nat.min a := by
  induction l generalizing a with
  | nil => rfl
  | cons r l ih =>
    simp only [List.foldl_cons, List.map_cons]
    rw [ih]
    congr 1
    by_cases c : r.low.length < a
    · simp [c, Nat.min_def]; try omega
    · simp [c, Nat.min_def]; try omega

theorem shortest_eq_minLength (S : CSR) : shortest (S.map fun r => r.low.length) = minLength S := by
  cases S with
  | nil => rfl
  | cons r S => simp [shortest, minLength, foldl_min_eq]


def toSpecR (r : Range) : CodeRange := ⟨r.low, r.high⟩
def toSpec (csr : CSR) : List CodeRange := csr.map toSpecR

/-- partial match of length `k` of the model range `r` against `full` -/
def M (full : Bytes) (k : Nat) (r : Range) : Bool := withinFirst r.low r.high full k

theorem minLength_ge (S : CSR) (m : Nat) (h : ∀ r ∈ S, m ≤ r.low.length) (hm : m ≤ 1 ∨ S ≠ []) :
    m ≤ minLength S := by
  rw [← shortest_eq_minLength]
  cases S with
  | nil => simp [shortest]; rcases hm with h | h; exact h; exact absurd rfl h
  | cons r S =>
    simp only [List.map_cons, shortest]
    have h0 := h r (by simp)
    have hS : ∀ r' ∈ S, m ≤ r'.low.length := fun r' hr' => h r' (by simp [hr'])
    clear h hm
    generalize r.low.length = a at h0
    induction S generalizing a with
    | nil => simpa
    | cons r' S ih =>
      simp only [List.map_cons, List.foldl_cons]
      apply ih
      · intro x hx; exact hS x (by simp [hx])
      · have := hS r' (by simp)
        simp [Nat.min_def]; split <;> omega

theorem all_of_filter_length {α : Type} (p : α → Bool) (l : List α) (h : (l.filter p).length = l.length) :
    ∀ a ∈ l, p a = true := by
  induction l with
  | nil => simp
  | cons x l ih =>
    intro a ha
    simp only [List.filter_cons] at h
    by_cases hx : p x = true
    · simp only [hx, if_true, List.length_cons, Nat.add_right_cancel_iff] at h
      rcases List.mem_cons.mp ha with rfl | ha
      · exact hx
      · exact ih h a ha
    · simp only [hx, Bool.false_eq_true, if_false, List.length_cons] at h
      have := List.length_filter_le p l
      omega

theorem byteAt_append (pre : Bytes) (b : Nat) (rest : Bytes) : byteAt (pre ++ b :: rest) pre.length = b := by
  simp [byteAt]

theorem spec_rec (csr : CSR) :
    ∀ (fuel d : Nat) (pre s : Bytes) (S : CSR) (cs : List (Nat × Node)),
      newTree fuel S d = .ok cs → pre.length = d → AllBytes s → s ≠ [] →
      S = csr.filter (M (pre ++ s) d) →
      (∀ r ∈ csr, r.low.length ≤ d → M (pre ++ s) r.low.length r = false) →
      (d = 0 ∨ S ≠ []) →
      decode (toSpec csr) (pre ++ s) = (d + (specFrom fuel S d s).1, (specFrom fuel S d s).2) := by
  intro fuel
  induction fuel with
  | zero => intro d pre s S cs h; simp [newTree] at h
  | succ fuel ih =>
    intro d pre s S cs hT hpre hs hne hS hnofull hnonempty
    cases s with
    | nil => exact absurd rfl hne
    | cons b rest =>
      have hb : b < 256 := by simp [AllBytes] at hs; exact hs.1
      have hrest : AllBytes rest := by simp [AllBytes] at hs ⊢; exact hs.2
      obtain ⟨hguard, hcases⟩ := newTree_step fuel S d cs hT b hb
      -- the ranges selected by one more byte
      have hS' : S.filter (containsAt d b) = csr.filter (M (pre ++ b :: rest) (d + 1)) := by
        rw [hS, List.filter_filter]
        apply List.filter_congr
        intro r hr
        simp only [M, withinFirst_succ]
        cases hm : withinFirst r.low r.high (pre ++ b :: rest) d with
        | false => simp
        | true =>
          have hrS : r ∈ S := by rw [hS]; simp [List.mem_filter, hr, M, hm]
          have := hguard r hrS
          have hbd : byteAt (pre ++ b :: rest) d = b := by rw [← hpre]; exact byteAt_append pre b rest
          have hl : d < pre.length + (rest.length + 1) := by omega
          simp [containsAt, this.1, this.2, hbd, hl]
      have hmemS' : ∀ r, r ∈ S.filter (containsAt d b) ↔ r ∈ csr ∧ M (pre ++ b :: rest) (d + 1) r = true := by
        intro r; rw [hS']; simp [List.mem_filter]
      have hfull_len : (pre ++ b :: rest).length = d + 1 + rest.length := by simp; omega
      -- a full match must be among the selected ranges
      have hfullS' : ∀ r ∈ csr, M (pre ++ b :: rest) r.low.length r = true → r ∈ S.filter (containsAt d b) := by
        intro r hr hm
        by_cases c : r.low.length ≤ d
        · have := hnofull r hr c; simp_all
        · exact (hmemS' r).2 ⟨hr, withinFirst_mono _ _ _ (d + 1) _ (by omega) hm⟩
      have hspec_filter : ∀ k, ((toSpec csr).filter fun r => r.matchesUpTo (pre ++ b :: rest) k).map CodeRange.len =
          (csr.filter (M (pre ++ b :: rest) k)).map fun r => r.low.length := by
        intro k
        simp only [toSpec, List.filter_map, List.map_map]
        rfl
      by_cases hE : (S.filter (containsAt d b)).isEmpty = true
      · -- invalid: no range continues with `b`
        have hnil : S.filter (containsAt d b) = [] := by simpa using hE
        have hno : ∀ r ∈ csr, M (pre ++ b :: rest) (d + 1) r = false := by
          intro r hr
          cases h : M (pre ++ b :: rest) (d + 1) r with
          | false => rfl
          | true => have := (hmemS' r).2 ⟨hr, h⟩; simp [hnil] at this
        rw [decode_invalid (toSpec csr) (pre ++ b :: rest) (by simp) d (by omega)]
        · rw [hspec_filter, ← hS, shortest_eq_minLength]
          simp only [specFrom, hE, if_true]
          have hml : d + 1 ≤ minLength S := by
            apply minLength_ge
            · intro r hr; exact (hguard r hr).1
            · rcases hnonempty with h | h
              · left; omega
              · right; exact h
          simp only [hfull_len, Nat.min_def, Prod.mk.injEq, and_true]
          split <;> split <;> omega
        · intro r hr
          simp only [toSpec, List.mem_map] at hr
          obtain ⟨r', hr', rfl⟩ := hr
          cases h : (toSpecR r').startsCode (pre ++ b :: rest) with
          | false => rfl
          | true =>
            have := hfullS' r' hr' h
            simp [hnil] at this
        · rcases hnonempty with h | h
          · left; exact h
          · right
            obtain ⟨r, hr⟩ := List.exists_mem_of_ne_nil S h
            have : r ∈ csr ∧ M (pre ++ b :: rest) d r = true := by
              rw [hS] at hr; simpa [List.mem_filter] using hr
            exact ⟨toSpecR r, by simp [toSpec]; exact ⟨r, this.1, rfl⟩, this.2⟩
        · intro r hr
          simp only [toSpec, List.mem_map] at hr
          obtain ⟨r', hr', rfl⟩ := hr
          exact hno r' hr'
      · have hE' : (S.filter (containsAt d b)).isEmpty = false := by simpa using hE
        have hneS' : S.filter (containsAt d b) ≠ [] := by
          intro h; simp [h] at hE'
        by_cases hL : numLeaves (S.filter (containsAt d b)) d = (S.filter (containsAt d b)).length
        · -- valid code of length d+1
          have hall := all_of_filter_length _ _ hL
          obtain ⟨r0, hr0⟩ := List.exists_mem_of_ne_nil _ hneS'
          have hr0len : r0.low.length = d + 1 := by simpa using hall r0 hr0
          have hr0' := (hmemS' r0).1 hr0
          rw [decode_valid (toSpec csr) (pre ++ b :: rest) (by simp) (toSpecR r0)
            (by simp [toSpec]; exact ⟨r0, hr0'.1, rfl⟩)
            (by simp only [CodeRange.startsCode, CodeRange.matchesUpTo, CodeRange.len, toSpecR, hr0len]; exact hr0'.2)
            (by
              intro r' hr' hm
              simp only [toSpec, List.mem_map] at hr'
              obtain ⟨r'', hr'', rfl⟩ := hr'
              have := hfullS' r'' hr'' hm
              have := hall r'' this
              simp only [CodeRange.len, toSpecR, hr0len]
              simpa using this)]
          simp [specFrom, hE', hL, CodeRange.len, toSpecR, hr0len]
        · -- all selected ranges are longer: descend
          rcases hcases with h | h | ⟨_, _, h0, cs', hcs'⟩
          · simp [h] at hE'
          · exact absurd h hL
          · have hnoleaf : ∀ r ∈ S.filter (containsAt d b), r.low.length ≠ d + 1 := by
              intro r hr hlen
              have : (List.filter (fun r => r.low.length == d + 1) (S.filter (containsAt d b))) = [] := by
                simpa [numLeaves] using h0
              rw [List.filter_eq_nil_iff] at this
              have := this r hr
              simp [hlen] at this
            have hL' : (numLeaves (S.filter (containsAt d b)) d == (S.filter (containsAt d b)).length) = false := by
              simpa using hL
            have hnofull' : ∀ r ∈ csr, r.low.length ≤ d + 1 → M (pre ++ b :: rest) r.low.length r = false := by
              intro r hr hlen
              cases h : M (pre ++ b :: rest) r.low.length r with
              | false => rfl
              | true =>
                have h1 := hfullS' r hr h
                have h2 := hnoleaf r h1
                have h3 := (withinFirst_len _ _ _ _ ((hmemS' r).1 h1).2).1
                omega
            cases rest with
            | nil =>
              -- the input ends inside a code
              rw [decode_invalid (toSpec csr) (pre ++ [b]) (by simp) (d + 1) (by simp; omega)]
              · rw [hspec_filter, ← hS', shortest_eq_minLength]
                have hml : d + 2 ≤ minLength (S.filter (containsAt d b)) := by
                  apply minLength_ge
                  · intro r hr
                    have h2 := hnoleaf r hr
                    have h3 := (withinFirst_len _ _ _ _ ((hmemS' r).1 hr).2).1
                    omega
                  · right; exact hneS'
                simp only [specFrom, hE', hL', Bool.false_eq_true, if_false]
                have : (pre ++ [b]).length = d + 1 := by simp; omega
                simp only [this, Nat.min_def, Prod.mk.injEq]
                constructor
                · cases fuel <;> simp [specFrom] <;> omega
                · cases fuel <;> simp [specFrom]
              · intro r hr
                simp only [toSpec, List.mem_map] at hr
                obtain ⟨r', hr', rfl⟩ := hr
                cases h : (toSpecR r').startsCode (pre ++ [b]) with
                | false => rfl
                | true =>
                  have h1 := hfullS' r' hr' h
                  have h2 := hnoleaf r' h1
                  have h3 := (withinFirst_len _ _ _ _ ((hmemS' r').1 h1).2).1
                  have h4 : r'.low.length ≤ (pre ++ [b]).length := (withinFirst_len r'.low r'.high _ _ h).2.2
                  have h5 : (pre ++ [b]).length = d + 1 := by simp; omega
                  omega
              · right
                obtain ⟨r, hr⟩ := List.exists_mem_of_ne_nil _ hneS'
                have := (hmemS' r).1 hr
                exact ⟨toSpecR r, by simp [toSpec]; exact ⟨r, this.1, rfl⟩, this.2⟩
              · intro r hr
                cases h : r.matchesUpTo (pre ++ [b]) (d + 1 + 1) with
                | false => rfl
                | true =>
                  have h4 := (withinFirst_len _ _ _ _ h).2.2
                  simp at h4
                  omega
            | cons b2 rest2 =>
              have := ih (d + 1) (pre ++ [b]) (b2 :: rest2) (S.filter (containsAt d b)) cs' hcs'
                (by simp; omega) hrest (by simp)
                (by rw [hS']; simp)
                (by simpa using hnofull')
                (Or.inr hneS')
              simp only [List.append_assoc, List.singleton_append] at this
              rw [this]
              simp only [specFrom, hE', hL', Bool.false_eq_true, if_false]
              simp only [Prod.mk.injEq, and_true]
              omega


/-- **`tree_sem`.**  For every range set that `newTree` accepts (every valid prefix-free set,
see `newTree_ok_of_prefixFree`), and every byte string, the unshared lookup tree consumes
exactly the bytes ISO 32000-2 9.7.6.3 prescribes and reports validity accordingly. -/
theorem tree_sem (csr : CSR) (tree : List (Nat × Node)) (h : newTree 4 csr 0 = .ok tree)
    (s : Bytes) (hs : AllBytes s) :
    kidsDec tree s = decode (toSpec csr) s := by
  rw [tree_sem_rec 4 csr 0 tree s h hs]
  cases s with
  | nil => simp [specFrom, decode]
  | cons b rest =>
    have hb : b < 256 := by simp [AllBytes] at hs; exact hs.1
    have hg := (newTree_step 3 csr 0 tree h b hb).1
    have := spec_rec csr 4 0 [] (b :: rest) csr tree h rfl hs (by simp)
      (by rw [List.filter_eq_self.mpr]; intro r _; simp [M, withinFirst])
      (by intro r hr hl; have := (hg r hr).1; omega)
      (Or.inl rfl)
    simp only [List.nil_append, Nat.zero_add] at this
    rw [this]

/-- non-vacuity: the 83pv-RKSJ-H ranges (the example of 9.7.6.3) are accepted by `newTree` -/
example : (match newTree 4 [⟨[0x00], [0x80]⟩, ⟨[0x81, 0x40], [0x9f, 0xfc]⟩, ⟨[0xa0], [0xdf]⟩,
    ⟨[0xe0, 0x40], [0xfc, 0xfc]⟩] 0 with | .ok _ => true | .error _ => false) = true := by
  decide +kernel

end PdfVerif.C12cc

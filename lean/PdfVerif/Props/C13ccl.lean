import PdfVerif.Props.C13cck
/-!
# C13 (part 12) — `usecmap`: an embedded parent stream takes precedence over name lookup

`Extract` decides the parent of a CMap stream from the stream dictionary first: a `/UseCMap`
entry that refers to a stream yields the CMap extracted from that stream — whatever its name, in
particular also when it carries the name of a predefined CMap ("H", "Identity-H", …) and when the
PostScript body says `/H usecmap`.  Only a `/UseCMap` *name*, or (without `/UseCMap`) the
operand of `usecmap`, is looked up among the predefined CMaps.  The model `resolveParent`
(Model/CCCMap.lean) is compared with what the real `Extract` did on every usecmap case of the
harness (`CC useres`).
-/
namespace PdfVerif.C13ccl
open PdfVerif PdfVerif.CC

/-- an embedded stream parent wins over every name lookup -/
theorem stream_parent_takes_precedence (psName : Option Bool) :
    resolveParent .stream psName = .embedded := rfl

/-- the dictionary entry decides; the `usecmap` operand of the body is only consulted when
`/UseCMap` is absent -/
theorem dict_entry_decides (e : UseCMapEntry) (h : e ≠ .absent) (ps ps' : Option Bool) :
    resolveParent e ps = resolveParent e ps' := by
  cases e with
  | absent => exact absurd rfl h
  | name b => cases b <;> rfl
  | stream => rfl

/-- a predefined CMap is only ever installed through a name -/
theorem predefined_only_by_name (e : UseCMapEntry) (ps : Option Bool)
    (h : resolveParent e ps = .predefined) : e = .name true ∨ (e = .absent ∧ ps = some true) := by
  cases e with
  | absent =>
    cases ps with
    | none => simp [resolveParent] at h
    | some b => cases b <;> simp [resolveParent] at h ⊢
  | name b => cases b <;> simp [resolveParent] at h ⊢
  | stream => simp [resolveParent] at h

end PdfVerif.C13ccl

import PdfVerif.Model.ROBErr
/-!
# C05 — arbitrary bytes never crash, hang, leak or explode: walks that must end

Theorems over the walks of `Model/ROBErr.lean`, for every object graph / file content:

* `resolve_depth`, `resolve_fuel_suffices` — `resolvePath` follows at most `MaxExtractDepth`
  references, all distinct, and its loop needs no more iterations than that;
* `prevWalk_terminates` — the `/Prev` walk of `readXRef` visits every offset at most once and
  ends after at most `size` sections (pigeonhole on the `seen` set).

The size caps of the parser (strings, names, arrays, dictionaries, nesting) and "the parser model
never runs out of fuel" are proved by the C01 package over the same `Model/Scan.lean`
(`Props/C01g.lean`: `parse_total`, `readObject_consumes`; `Props/C01h.lean`: `parse_caps`,
`parse_depth_cap`, …) and are listed among this check's modules.  The buffer refinement and the
termination of `ScanBytes` are in `Props/C05robbuf.lean`, the inventory obligations in
`Props/C05robinv.lean`.
-/
namespace PdfVerif.C05rob
open PdfVerif PdfVerif.ROB

/-! ## `resolvePath` -/

/-- `CycleCheck.step` never lets the path grow beyond `MaxExtractDepth` -/
theorem cycleStep_depth (path : List Nat) (ref : Nat) (p' : List Nat)
    (h : cycleStep path ref = .ok p') : p'.length ≤ Gen.rob_limits_MaxExtractDepth ∧ p' = ref :: path ∧ ref ∉ path := by
  unfold cycleStep at h
  split at h
  · cases h
  · rename_i hc
    split at h
    · cases h
    · cases h
      refine ⟨by omega, rfl, ?_⟩
      simpa using hc

/-- **resolve depth ≤ `MaxExtractDepth`**: whatever the object graph (`get` is arbitrary), a
    successful `resolvePath` has followed at most `MaxExtractDepth` references, all distinct -/
theorem resolve_depth (get : Nat → Option (Nat ⊕ Nat)) :
    ∀ (fuel : Nat) (path : List Nat) (ref v : Nat) (p' : List Nat), path.Nodup →
      resolveLoop get fuel path ref = .ok (v, p') → p'.length ≤ Gen.rob_limits_MaxExtractDepth ∧ p'.Nodup := by
  intro fuel
  induction fuel with
  | zero => intro path ref v p' _ h; simp [resolveLoop] at h
  | succ fuel ih =>
    intro path ref v p' hnd h
    unfold resolveLoop at h
    cases hc : cycleStep path ref with
    | error e => rw [hc] at h; cases h
    | ok path1 =>
      rw [hc] at h
      obtain ⟨hlen, rfl, hnot⟩ := cycleStep_depth _ _ _ hc
      have hnd1 : (ref :: path).Nodup := List.nodup_cons.mpr ⟨hnot, hnd⟩
      simp only [] at h
      cases hg : get ref with
      | none => rw [hg] at h; cases h
      | some x =>
        rw [hg] at h
        cases x with
        | inr val => simp only [] at h; cases h; exact ⟨hlen, hnd1⟩
        | inl next => simp only [] at h; exact ih _ _ _ _ hnd1 h

/-- **the loop of `resolvePath` terminates**: `resolveFuel = MaxExtractDepth + 2` iterations
    always suffice — the out-of-fuel branch of the model is unreachable -/
theorem resolve_fuel_suffices (get : Nat → Option (Nat ⊕ Nat)) :
    ∀ (fuel : Nat) (path : List Nat) (ref : Nat), path.length ≤ Gen.rob_limits_MaxExtractDepth →
      Gen.rob_limits_MaxExtractDepth + 1 ≤ fuel + path.length →
      resolveLoop get fuel path ref ≠ .error "fuel" := by
  intro fuel
  induction fuel with
  | zero => intro path ref hp hf; omega
  | succ fuel ih =>
    intro path ref hp hf
    unfold resolveLoop
    cases hc : cycleStep path ref with
    | error e =>
      simp only []
      unfold cycleStep at hc
      split at hc
      · cases hc; simp
      · split at hc
        · cases hc; simp
        · cases hc
    | ok path1 =>
      obtain ⟨hl, rfl, _⟩ := cycleStep_depth _ _ _ hc
      simp only []
      cases hg : get ref with
      | none => simp
      | some x =>
        cases x with
        | inr val => simp
        | inl next =>
          simp only []
          exact ih _ _ hl (by simp; omega)

/-- `Resolve` as called by the library: empty path, `resolveFuel` -/
theorem resolve_terminates (get : Nat → Option (Nat ⊕ Nat)) (ref : Nat) :
    resolveLoop get resolveFuel [] ref ≠ .error "fuel" :=
  resolve_fuel_suffices get resolveFuel [] ref (by simp) (by simp [resolveFuel])

-- non-vacuity: a chain of exactly `MaxExtractDepth` references resolves, one more is refused,
-- a self-reference is a cycle
example : resolveLoop (fun r => if r < 256 then some (.inl (r + 1)) else some (.inr 7)) resolveFuel [] 1 matches .ok (7, _) := by
  decide +kernel
example : resolveLoop (fun r => if r < 257 then some (.inl (r + 1)) else some (.inr 7)) resolveFuel [] 1 matches .error "depth" := by
  decide +kernel
example : resolveLoop (fun r => some (.inl r)) resolveFuel [] 1 matches .error "cycle" := by decide +kernel

/-! ## the `/Prev` walk of `readXRef` -/

/-- pigeonhole: a duplicate-free list of numbers below `n` has at most `n` elements -/
theorem nodup_bounded_length : ∀ (n : Nat) (l : List Nat), l.Nodup → (∀ x ∈ l, x < n) → l.length ≤ n := by
  intro n
  induction n with
  | zero =>
    intro l _ hb
    cases l with
    | nil => simp
    | cons a t => exact absurd (hb a (by simp)) (by omega)
  | succ n ih =>
    intro l hnd hb
    by_cases hm : n ∈ l
    · have h1 := ih (l.erase n) (hnd.erase n) (by
        intro x hx
        have := (hnd.mem_erase_iff).mp hx
        have := hb x this.2
        omega)
      rw [List.length_erase_of_mem hm] at h1
      omega
    · have := ih l hnd (by
        intro x hx
        have := hb x hx
        have : x ≠ n := fun h => hm (h ▸ hx)
        omega)
      omega

/-- **the `/Prev` walk terminates** (DESIGN C04/C05 `prev_chain_terminates`): whatever the
    sections contain (`next` is arbitrary), with `size + 1` iterations the loop `for !seen[start]`
    of `readXRef` has ended; it never reads a section twice and reads at most `size` sections.
    The measure is the number of offsets in `[0, size)` not yet in `seen`. -/
theorem prevWalk_terminates (next : Nat → Option Nat) (size : Nat) :
    ∀ (fuel : Nat) (seen : List Nat) (start : Nat), seen.Nodup → (∀ x ∈ seen, x < size) → start < size →
      size + 1 ≤ fuel + seen.length →
      ∃ visited, prevWalk next size fuel seen start = some visited ∧ visited.Nodup ∧
        (∀ x ∈ visited, x < size) ∧ visited.length ≤ size := by
  intro fuel
  induction fuel with
  | zero =>
    intro seen start hnd hb _ hf
    have := nodup_bounded_length size seen hnd hb
    omega
  | succ fuel ih =>
    intro seen start hnd hb hs hf
    unfold prevWalk
    have fin : ∀ l : List Nat, l.Nodup → (∀ x ∈ l, x < size) →
        ∃ visited, some l.reverse = some visited ∧ visited.Nodup ∧ (∀ x ∈ visited, x < size) ∧ visited.length ≤ size := by
      intro l h1 h2
      refine ⟨l.reverse, rfl, (List.reverse_perm l).nodup_iff.2 h1, by simpa using h2, ?_⟩
      simpa using nodup_bounded_length size l h1 h2
    by_cases hc : seen.contains start = true
    · simp only [hc, if_true]
      exact fin seen hnd hb
    · simp only [hc, Bool.false_eq_true, if_false]
      have hnot : start ∉ seen := by simpa using hc
      have hnd' : (start :: seen).Nodup := List.nodup_cons.mpr ⟨hnot, hnd⟩
      have hb' : ∀ x ∈ start :: seen, x < size := by
        intro x hx
        rcases List.mem_cons.mp hx with rfl | hx
        · exact hs
        · exact hb x hx
      cases hn : next start with
      | none => simp only []; exact fin _ hnd' hb'
      | some p =>
        simp only []
        by_cases hp : p = 0 ∨ p ≥ size
        · simp only [hp, if_true]; exact fin _ hnd' hb'
        · simp only [hp, if_false]
          exact ih _ _ hnd' hb' (by omega) (by simp; omega)

/-- the walk as `readXRef` starts it: empty `seen`, `size + 1` iterations -/
theorem prevWalk_from_start (next : Nat → Option Nat) (size start : Nat) (hs : start < size) :
    ∃ visited, prevWalk next size (size + 1) [] start = some visited ∧ visited.Nodup ∧ visited.length ≤ size := by
  obtain ⟨v, h1, h2, _, h4⟩ := prevWalk_terminates next size (size + 1) [] start (by simp) (by simp) hs (by simp)
  exact ⟨v, h1, h2, h4⟩

-- non-vacuity: three sections whose /Prev entries form a loop 40 → 20 → 30 → 20 …
example : prevWalk (fun s => if s = 40 then some 20 else if s = 20 then some 30 else some 20) 100 101 [] 40
    = some [40, 20, 30] := by decide +kernel

/-! ## opening never yields "no reader, no error" -/

/-- **open_never_nil_nil** (former finding ROB-4, fixed as D32): in `NewReader` and in
    `MakeReader`, in every `ErrorHandling` mode, for every outcome of the catalog decode: when the
    function returns without a `*Reader` it returns an error. -/
theorem open_never_nil_nil (seq : Bool) (mode : Nat) (err : Option GoErr) (hasPages : Bool)
    (h : (catalogStep seq mode err hasPages).1 = true) : (catalogStep seq mode err hasPages).2.1.isSome = true := by
  unfold catalogStep at h ⊢
  cases err with
  | none =>
    cases hasPages <;> cases seq <;> simp [shouldExit] at h ⊢
    all_goals (split at h <;> simp_all)
  | some e =>
    cases hm : e.isMalformed <;> cases hasPages <;> cases seq <;> simp [shouldExit, hm] at h ⊢
    all_goals (repeat' split) <;> simp_all

example : catalogStep true 0 none false = (true, some errNoPages, false) := by decide

end PdfVerif.C05rob

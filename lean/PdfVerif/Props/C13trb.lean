import PdfVerif.Props.C13tr
import PdfVerif.Props.C12trb
import PdfVerif.Model.CCCMap
/-!
# C13 (translator bridge): the CC hand model of CMap ranges = the code GENERATED from font/cmap

`Model/CCCMap.lean` (on which `Props/C13cc*.lean` are proved) models `rangeIsValid` and `rangeIndex`
by structural recursion with natural-number arithmetic.  Both are proved equal here to the functions
`tools/extract` re-creates from font/cmap/{range,file}.go on every run, for **all** arguments
(`rangeIndex` checks its lengths first and never panics; the `int64` arithmetic of the Go code never
wraps because `acc ≤ MaxInt32` is a loop invariant).
-/
namespace PdfVerif.C13trb
open PdfVerif PdfVerif.Gen PdfVerif.Go PdfVerif.C13tr PdfVerif.C12trb

/-- **bridge**: hand model `rangeIsValid` = generated `rangeIsValid` (every pair of byte strings) -/
theorem rangeIsValid_bridge (first last : List UInt8) :
    cmap_rangeIsValid first last = some (CC.rangeIsValid (nat first) (nat last)) := by
  rw [rangeIsValid_spec]
  congr 1
  unfold CC.rangeIsValid
  simp only [nat_length]
  by_cases h : first.length = last.length ∧ 1 ≤ first.length
  · have c : (first.length != last.length || first.length == 0) = false := by
      generalize first.length = n at h ⊢
      generalize last.length = m at h ⊢
      simp only [Bool.or_eq_false_iff, bne_eq_false_iff_eq, beq_eq_false_iff_ne, ne_eq]
      omega
    simp only [c, Bool.false_eq_true, if_false]
    by_cases hv : CmapRangeValid first last
    · simp only [hv, decide_true]
      exact ((leAll_iff _ _ h.1).mpr hv.2.2).symm
    · simp only [hv, decide_false]
      cases hl : CC.leAll (nat first) (nat last)
      · rfl
      · exact absurd ⟨h.1, h.2, (leAll_iff _ _ h.1).mp hl⟩ hv
  · have c : (first.length != last.length || first.length == 0) = true := by
      generalize first.length = n at h ⊢
      generalize last.length = m at h ⊢
      simp only [Bool.or_eq_true, bne_iff_ne, ne_eq, beq_iff_eq]; omega
    have hv : ¬ CmapRangeValid first last := fun hv => h ⟨hv.1, hv.2.1⟩
    simp [c, hv]

/-! ### rangeIndex -/

def shift (p : UInt8 × Nat) : UInt8 × Nat := (p.1, p.2 + 1)

theorem zipIdx_succ (xs : List UInt8) (n : Nat) : xs.zipIdx (n + 1) = (xs.zipIdx n).map shift := by
  induction xs generalizing n with
  | nil => rfl
  | cons x xs ih => simp only [List.zipIdx_cons, List.map_cons, shift, ih (n + 1)]

theorem idxStep_shift (a b : UInt8) (f l : List UInt8) (x : UInt8) (k : Nat) (acc : Int) :
    idxStep (a :: f) (b :: l) x (k + 1) acc = idxStep f l x k acc := by
  simp [idxStep]

theorem idxScan_shift (a b : UInt8) (f l : List UInt8) (ps : List (UInt8 × Nat)) (acc : Int) :
    idxScan (a :: f) (b :: l) (ps.map shift) acc = idxScan f l ps acc := by
  induction ps generalizing acc with
  | nil => rfl
  | cons p ps ih =>
    obtain ⟨x, k⟩ := p
    simp only [List.map_cons, shift, idxScan, idxStep_shift]
    cases idxStep f l x k acc with
    | none => rfl
    | some v => simp only [Option.bind_some]; exact ih v

/-- the loop of the hand model = the exact mixed-radix scan of `C13tr` -/
theorem rangeIndexLoop_eq (f l c : List UInt8) (hf : f.length = c.length) (hl : l.length = c.length)
    (acc : Nat) (hacc : acc ≤ 2147483647) :
    CC.rangeIndexLoop (nat f) (nat l) (nat c) acc = (idxScan f l c.zipIdx (acc : Int)).map Int.toNat := by
  induction c generalizing f l acc with
  | nil =>
    have : f = [] := List.length_eq_zero_iff.mp hf
    subst this
    simp [CC.rangeIndexLoop, idxScan]
  | cons x xs ih =>
    match f, l, hf, hl with
    | a :: f, b :: l, hf, hl =>
      simp only [List.length_cons, Nat.add_right_cancel_iff] at hf hl
      simp only [nat_cons, CC.rangeIndexLoop, List.zipIdx_cons, idxScan, Nat.zero_add]
      have hsh : idxScan (a :: f) (b :: l) (List.map shift xs.zipIdx) = idxScan f l xs.zipIdx :=
        funext (idxScan_shift a b f l xs.zipIdx)
      rw [zipIdx_succ, hsh]
      unfold idxStep
      simp only [List.getD_cons_zero]
      have hx := x.toNat_lt
      have ha := a.toNat_lt
      have hb := b.toNat_lt
      by_cases hbox : x < a ∨ x > b
      · have : (decide (x.toNat < a.toNat) || decide (x.toNat > b.toNat)) = true := by
          rcases hbox with h | h
          · have := UInt8.lt_iff_toNat_lt.mp h; simp; omega
          · have := UInt8.lt_iff_toNat_lt.mp h; simp; omega
        simp [this, hbox]
      · have h1 : a.toNat ≤ x.toNat := UInt8.le_iff_toNat_le.mp (UInt8.not_lt.mp (fun h => hbox (Or.inl h)))
        have h2 : x.toNat ≤ b.toNat := UInt8.le_iff_toNat_le.mp (UInt8.not_lt.mp (fun h => hbox (Or.inr h)))
        have : (decide (x.toNat < a.toNat) || decide (x.toNat > b.toNat)) = false := by simp; omega
        simp only [this, Bool.false_eq_true, if_false, hbox]
        have ecast : ((acc * (b.toNat - a.toNat + 1) + (x.toNat - a.toNat) : Nat) : Int)
            = (acc : Int) * ((b.toNat : Int) - a.toNat + 1) + ((x.toNat : Int) - a.toNat) := by
          have e1 : ((b.toNat - a.toNat + 1 : Nat) : Int) = (b.toNat : Int) - a.toNat + 1 := by omega
          have e2 : ((x.toNat - a.toNat : Nat) : Int) = (x.toNat : Int) - a.toNat := by omega
          rw [Int.natCast_add, Int.natCast_mul, e1, e2]
        by_cases hgt : acc * (b.toNat - a.toNat + 1) + (x.toNat - a.toNat) > CC.maxInt32
        · have : (acc : Int) * ((b.toNat : Int) - a.toNat + 1) + ((x.toNat : Int) - a.toNat) > 2147483647 := by
            rw [← ecast]; unfold CC.maxInt32 at hgt; omega
          simp [hgt, this]
        · have hn : ¬ ((acc : Int) * ((b.toNat : Int) - a.toNat + 1) + ((x.toNat : Int) - a.toNat) > 2147483647) := by
            rw [← ecast]; unfold CC.maxInt32 at hgt; omega
          simp only [hgt, if_false, hn, Option.bind_some]
          rw [← ecast]
          exact ih f l hf hl _ (by unfold CC.maxInt32 at hgt; omega)

/-- **bridge**: hand model `rangeIndex` = generated `rangeIndex`, for all three byte strings
(`none` ↔ `ok = false`) -/
theorem rangeIndex_bridge (f l c : List UInt8) :
    cmap_rangeIndex f l c = some (match CC.rangeIndex (nat f) (nat l) (nat c) with
      | some v => ((v : Int), true)
      | none => (0, false)) := by
  rw [rangeIndex_eq]
  congr 1
  by_cases hlen : f.length = c.length ∧ l.length = c.length
  · have hL : CC.rangeIndex (nat f) (nat l) (nat c) = (idxScan f l c.zipIdx 0).map Int.toNat := by
      unfold CC.rangeIndex
      simp only [nat_length]
      have c0 : (f.length != c.length || l.length != c.length) = false := by simp [hlen.1, hlen.2]
      simp only [c0, Bool.false_eq_true, if_false]
      exact rangeIndexLoop_eq f l c hlen.1 hlen.2 0 (by omega)
    rw [hL]
    simp only [hlen, and_self, if_true]
    cases hs : idxScan f l c.zipIdx 0 with
    | none => rfl
    | some v =>
      have hv := idxScan_nonneg f l _ 0 v (by omega) hs
      simp only [Option.map_some]
      congr 1
      omega
  · have hL : CC.rangeIndex (nat f) (nat l) (nat c) = none := by
      unfold CC.rangeIndex
      simp only [nat_length]
      have c0 : (f.length != c.length || l.length != c.length) = true := by
        simp only [Bool.or_eq_true, bne_iff_ne, ne_eq]; omega
      simp [c0]
    rw [hL]
    simp [hlen]

/-! ### nextString (font/cmap/tu-mapping.go) -/

/-- what `nextString` does on the rune level: the last rune is incremented in `int32` arithmetic -/
def lastBump (inc : Int) : List Int → List Int
  | [] => []
  | [r] => [i32 (r + i32 inc)]
  | r :: rs => r :: lastBump inc rs

theorem set_last (rr : List Int) (h : rr ≠ []) (hl : rr.length < 9223372036854775808) :
    idx rr (i64 (len rr - 1)) = some (rr.getLast h) ∧
    ∀ v, Go.set rr (i64 (len rr - 1)) v = some (rr.dropLast ++ [v]) := by
  have hpos : 0 < rr.length := List.length_pos_iff.mpr h
  have e : i64 (len rr - 1) = ((rr.length - 1 : Nat) : Int) := by
    unfold len; rw [i64_of_bounds (by omega) (by omega)]; omega
  rw [e]
  constructor
  · rw [idx_natCast, List.getLast_eq_getElem, List.getElem?_eq_getElem (by omega)]
  · intro v
    unfold Go.set
    have : (0 : Int) ≤ ((rr.length - 1 : Nat) : Int) ∧ ((rr.length - 1 : Nat) : Int) < (rr.length : Int) := by omega
    simp only [this, and_self, if_true, Int.toNat_natCast]
    congr 1
    rw [List.set_eq_take_append_cons_drop]
    have : rr.length - 1 < rr.length := by omega
    simp only [this, if_true]
    rw [List.dropLast_eq_take, List.drop_of_length_le (by omega)]

theorem lastBump_eq (rr : List Int) (h : rr ≠ []) (inc : Int) :
    lastBump inc rr = rr.dropLast ++ [i32 (rr.getLast h + i32 inc)] := by
  induction rr with
  | nil => exact absurd rfl h
  | cons r rs ih =>
    cases rs with
    | nil => rfl
    | cons r' rs' =>
      have := ih (by simp)
      simp only [lastBump, List.dropLast_cons_cons, List.cons_append, List.getLast_cons (List.cons_ne_nil r' rs')]
      rw [this]

/-- **nextString** on the generated code: decode to runes, bump the last one (`int32` wrap), encode;
it never panics -/
theorem nextString_eq (s : List UInt8) (inc : Int) (hl : (runes s).length < 9223372036854775808) :
    cmap_nextString s inc = some (stringOfRunes (lastBump inc (runes s))) := by
  unfold cmap_nextString
  simp only [pure, bind]
  by_cases h : runes s = []
  · simp [h, len, lastBump, stringOfRunes]
  · have c : (len (runes s) == 0) = false := by
      have := List.length_pos_iff.mpr h
      unfold len; simp; omega
    simp only [c, Bool.false_eq_true, if_false]
    obtain ⟨h1, h2⟩ := set_last (runes s) h hl
    rw [h1]
    simp only [Option.bind_some]
    rw [h2, lastBump_eq _ h]
    rfl


theorem wrapInt32_eq (x : Int) : CC.wrapInt32 x = i32 x := rfl

theorem encodeRune_clamp (r : Int) : encodeRune r = encodeRune ((CC.runeToText r : Nat) : Int) := by
  unfold CC.runeToText
  by_cases h : r < 0 ∨ r > 1114111 ∨ (55296 ≤ r ∧ r ≤ 57343)
  · have c : (decide (r < 0) || decide (r > 1114111) || (decide (55296 ≤ r) && decide (r ≤ 57343))) = true := by
      simp only [Bool.or_eq_true, Bool.and_eq_true, decide_eq_true_eq]; omega
    simp only [c, if_true]
    have e : encodeRune r = [239, 191, 189] := by unfold encodeRune; simp [h]
    rw [e]
    decide
  · have c : (decide (r < 0) || decide (r > 1114111) || (decide (55296 ≤ r) && decide (r ≤ 57343))) = false := by
      cases hh : (decide (r < 0) || decide (r > 1114111) || (decide (55296 ≤ r) && decide (r ≤ 57343)))
      · rfl
      · simp only [Bool.or_eq_true, Bool.and_eq_true, decide_eq_true_eq] at hh; omega
    simp only [c, Bool.false_eq_true, if_false]
    congr 1
    omega

theorem decodeRune_nonneg (bs : List UInt8) : 0 ≤ (decodeRune bs).1 := by
  unfold decodeRune
  cases bs with
  | nil => simp
  | cons b0 rest =>
    simp only []
    repeat' split
    all_goals first | omega | (simp only []; omega) | exact Int.natCast_nonneg _

theorem runesFuel_nonneg (fuel : Nat) (bs : List UInt8) : ∀ r ∈ runesFuel fuel bs, 0 ≤ r := by
  induction fuel generalizing bs with
  | zero => intro r hr; simp [runesFuel] at hr
  | succ n ih =>
    intro r hr
    cases bs with
    | nil => simp [runesFuel] at hr
    | cons b rest =>
      simp only [runesFuel, List.mem_cons] at hr
      rcases hr with h | h
      · rw [h]; exact decodeRune_nonneg _
      · exact ih _ r h

/-- **bridge**: the bytes the generated `nextString` returns are the UTF-8 encoding of what the hand
model `CC.nextString` computes on the rune level (non-negative increments, as in the model) -/
theorem nextString_bridge (s : List UInt8) (inc : Nat) (hl : (runes s).length < 9223372036854775808) :
    cmap_nextString s (inc : Int) =
      some (stringOfRunes ((CC.nextString ((runes s).map Int.toNat) inc).map Int.ofNat)) := by
  rw [nextString_eq s inc hl]
  congr 1
  have hnn : ∀ r ∈ runes s, 0 ≤ r := runesFuel_nonneg _ _
  generalize runes s = rr at hnn
  unfold CC.nextString stringOfRunes
  induction rr with
  | nil => rfl
  | cons r rs ih =>
    have hr : 0 ≤ r := hnn r (by simp)
    have hrs : ∀ q ∈ rs, 0 ≤ q := fun q hq => hnn q (by simp [hq])
    cases rs with
    | nil =>
      simp only [lastBump, List.map_cons, List.map_nil, CC.bumpLast, List.flatMap_cons, List.flatMap_nil, List.append_nil]
      have e : ((r.toNat : Nat) : Int) = r := by omega
      rw [e, wrapInt32_eq, wrapInt32_eq]
      exact encodeRune_clamp _
    | cons r' rs' =>
      have := ih hrs
      simp only [lastBump, List.map_cons, CC.bumpLast, List.flatMap_cons] at this ⊢
      rw [this]
      congr 2
      show r = ((r.toNat : Nat) : Int)
      omega

example : cmap_nextString [0x41, 0xc3, 0xa9] 1 = some [0x41, 0xc3, 0xaa] := by decide +kernel

example : CC.rangeIndex [0, 0] [255, 255] [1, 2] = some 258 := by decide +kernel

end PdfVerif.C13trb

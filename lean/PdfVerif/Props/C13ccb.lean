import PdfVerif.Props.C13cc
/-!
# C13 (part 2) — `SetMapping` followed by `LookupCID`

The run compression of `File.SetMapping` (grouping by all-but-last byte, sorting, run detection;
`font/cmap/mapping.go`) is lossless: every output item only covers mapped codes with their
values (`out_sound`), every mapped code is covered (`out_complete`), hence `LookupCID` on the
built file returns the mapped CID for every mapped code and the notdef result otherwise
(`lookup_setMapping`), for every finite map.
-/
namespace PdfVerif.C13ccb
open PdfVerif PdfVerif.CC PdfVerif.C13cc

/-! ## run detection of `SetMapping` within one group -/

/-- what an output item says about the last byte `x` of a code with prefix `key` -/
def ItemCovers (key : Bytes) : Sum Single CRange → Nat → Nat → Prop
  | .inl s, x, v => s.code = key ++ [x] ∧ s.value = v
  | .inr r, x, v => ∃ x1 x2, r.first = key ++ [x1] ∧ r.last = key ++ [x2] ∧ x1 ≤ x ∧ x ≤ x2 ∧ x2 < 256 ∧
      v = u32 (r.value + (x - x1))

/-- the pending run `start … prev` of length `len` is backed by entries of `G` -/
def RunOK (G : List (Entry Nat)) (start prev : Entry Nat) (len : Nat) : Prop :=
  1 ≤ len ∧ prev.x = start.x + (len - 1) ∧ prev.x < 256 ∧
  ∀ j, j < len → ∃ e ∈ G, e.x = start.x + j ∧ e.val = u32 (start.val + j)

theorem u32_u32_add (a b : Nat) : u32 (u32 a + b) = u32 (a + b) := by
  simp [u32, Nat.add_mod]

theorem cidRuns_sound (key : Bytes) (G : List (Entry Nat)) :
    ∀ (rest : List (Entry Nat)) (start prev : Entry Nat) (len : Nat),
      RunOK G start prev len → (∀ e ∈ rest, e ∈ G ∧ e.x < 256) → prev.val = u32 (start.val + (len - 1)) →
      (∀ e ∈ rest, prev.x ≤ e.x) → List.Pairwise (fun a b : Entry Nat => a.x ≤ b.x) rest →
      (∀ e ∈ G, e.val < 4294967296) → start ∈ G →
      ∀ item ∈ cidRuns key start prev len rest, ∀ x v, ItemCovers key item x v → ∃ e ∈ G, e.x = x ∧ e.val = v := by
  intro rest
  induction rest with
  | nil =>
    intro start prev len hrun _ hpv _ _ hval hst item hitem x v hcov
    simp only [cidRuns, List.mem_singleton] at hitem
    subst hitem
    split at hcov
    · rename_i hlen
      obtain ⟨x1, x2, h1, h2, h3, h4, h5, h6⟩ := hcov
      simp only [List.append_cancel_left_eq, List.cons.injEq, and_true] at h1 h2
      subst h1 h2
      obtain ⟨r1, r2, r3, r4⟩ := hrun
      obtain ⟨e, he, e1, e2⟩ := r4 (x - start.x) (by omega)
      exact ⟨e, he, by omega, by rw [h6]; simpa using e2⟩
    · obtain ⟨h1, h2⟩ := hcov
      simp only [List.append_cancel_left_eq, List.cons.injEq, and_true] at h1
      exact ⟨start, hst, h1, h2⟩
  | cons e rest ih =>
    intro start prev len hrun hrest hpv hge hsorted hval hst item hitem x v hcov
    have he := hrest e (by simp)
    have hsorted' := (List.pairwise_cons.mp hsorted)
    simp only [cidRuns] at hitem
    split at hitem
    · -- the run ends before `e`
      rcases List.mem_cons.mp hitem with rfl | hitem
      · split at hcov
        · rename_i hlen
          obtain ⟨x1, x2, h1, h2, h3, h4, h5, h6⟩ := hcov
          simp only [List.append_cancel_left_eq, List.cons.injEq, and_true] at h1 h2
          subst h1 h2
          obtain ⟨r1, r2, r3, r4⟩ := hrun
          obtain ⟨e', he', e1, e2⟩ := r4 (x - start.x) (by omega)
          exact ⟨e', he', by omega, by rw [h6]; simpa using e2⟩
        · obtain ⟨h1, h2⟩ := hcov
          simp only [List.append_cancel_left_eq, List.cons.injEq, and_true] at h1
          exact ⟨start, hst, h1, h2⟩
      · refine ih e e 1 ⟨by omega, by simp, he.2, ?_⟩ (fun e' he' => hrest e' (by simp [he'])) ?_
          (fun e' he' => hsorted'.1 e' he') hsorted'.2 hval he.1 item hitem x v hcov
        · intro j hj
          have : j = 0 := by omega
          subst this
          exact ⟨e, he.1, by simp, by simp [u32, Nat.mod_eq_of_lt (hval e he.1)]⟩
        · simp [u32, Nat.mod_eq_of_lt (hval e he.1)]
    · rename_i hcont
      simp only [bne_iff_ne, ne_eq, Bool.or_eq_true, not_or, Decidable.not_not] at hcont
      obtain ⟨hx, hv⟩ := hcont
      obtain ⟨r1, r2, r3, r4⟩ := hrun
      have hpe := hge e (by simp)
      have hx' : e.x = prev.x + 1 := by
        by_cases h255 : prev.x = 255
        · rw [h255] at hx; simp at hx; omega
        · rw [hx]; apply Nat.mod_eq_of_lt; omega
      refine ih start e (len + 1) ⟨by omega, by omega, he.2, ?_⟩ (fun e' he' => hrest e' (by simp [he'])) ?_
        (fun e' he' => hsorted'.1 e' he') hsorted'.2 hval hst item hitem x v hcov
      · intro j hj
        by_cases hjl : j < len
        · exact r4 j hjl
        · have : j = len := by omega
          subst this
          refine ⟨e, he.1, by omega, ?_⟩
          rw [hv, hpv, u32_u32_add]; congr 1; omega
      · rw [hv, hpv, u32_u32_add]; congr 1; omega


theorem cidRuns_complete (key : Bytes) :
    ∀ (rest : List (Entry Nat)) (start prev : Entry Nat) (len : Nat),
      1 ≤ len → prev.x = start.x + (len - 1) → prev.x < 256 → prev.val = u32 (start.val + (len - 1)) →
      start.val < 4294967296 → (∀ e ∈ rest, e.x < 256 ∧ e.val < 4294967296 ∧ prev.x ≤ e.x) →
      List.Pairwise (fun a b : Entry Nat => a.x ≤ b.x) rest →
      (∀ j, j < len → ∃ item ∈ cidRuns key start prev len rest,
          ItemCovers key item (start.x + j) (u32 (start.val + j))) ∧
      (∀ e ∈ rest, ∃ item ∈ cidRuns key start prev len rest, ItemCovers key item e.x e.val) := by
  intro rest
  induction rest with
  | nil =>
    intro start prev len hlen hpx hp256 hpv hsv _ _
    refine ⟨?_, by simp⟩
    intro j hj
    simp only [cidRuns, List.mem_singleton, exists_eq_left]
    split
    · exact ⟨start.x, prev.x, rfl, rfl, by omega, by omega, hp256, by
          show u32 (start.val + j) = u32 (start.val + (start.x + j - start.x)); congr 1; omega⟩
    · have : j = 0 := by omega
      subst this
      exact ⟨rfl, by simp [u32, Nat.mod_eq_of_lt hsv]⟩
  | cons e rest ih =>
    intro start prev len hlen hpx hp256 hpv hsv hrest hsorted
    have he := hrest e (by simp)
    have hsorted' := (List.pairwise_cons.mp hsorted)
    simp only [cidRuns]
    split
    · -- the run ends before `e`
      obtain ⟨i1, i2⟩ := ih e e 1 (by omega) (by simp) he.1 (by simp [u32, Nat.mod_eq_of_lt he.2.1]) he.2.1
        (fun e' he' => ⟨(hrest e' (by simp [he'])).1, (hrest e' (by simp [he'])).2.1, hsorted'.1 e' he'⟩) hsorted'.2
      constructor
      · intro j hj
        refine ⟨_, List.mem_cons_self, ?_⟩
        split
        · exact ⟨start.x, prev.x, rfl, rfl, by omega, by omega, hp256, by
          show u32 (start.val + j) = u32 (start.val + (start.x + j - start.x)); congr 1; omega⟩
        · have : j = 0 := by omega
          subst this
          exact ⟨rfl, by simp [u32, Nat.mod_eq_of_lt hsv]⟩
      · intro e' he'
        rcases List.mem_cons.mp he' with rfl | he'
        · obtain ⟨item, hi, hc⟩ := i1 0 (by omega)
          refine ⟨item, List.mem_cons_of_mem _ hi, ?_⟩
          simpa [u32, Nat.mod_eq_of_lt he.2.1] using hc
        · obtain ⟨item, hi, hc⟩ := i2 e' he'
          exact ⟨item, List.mem_cons_of_mem _ hi, hc⟩
    · rename_i hcont
      simp only [bne_iff_ne, ne_eq, Bool.or_eq_true, not_or, Decidable.not_not] at hcont
      obtain ⟨hx, hv⟩ := hcont
      have hx' : e.x = prev.x + 1 := by
        by_cases h255 : prev.x = 255
        · rw [h255] at hx; simp at hx; omega
        · rw [hx]; apply Nat.mod_eq_of_lt; omega
      have hev : e.val = u32 (start.val + len) := by
        rw [hv, hpv, u32_u32_add]; congr 1; omega
      obtain ⟨i1, i2⟩ := ih start e (len + 1) (by omega) (by omega) he.1 (by simpa using hev) hsv
        (fun e' he' => ⟨(hrest e' (by simp [he'])).1, (hrest e' (by simp [he'])).2.1, hsorted'.1 e' he'⟩) hsorted'.2
      constructor
      · intro j hj; exact i1 j (by omega)
      · intro e' he'
        rcases List.mem_cons.mp he' with rfl | he'
        · obtain ⟨item, hi, hc⟩ := i1 len (by omega)
          refine ⟨item, hi, ?_⟩
          rw [hev]
          have : e'.x = start.x + len := by omega
          rw [this]; exact hc
        · exact i2 e' he'

/-! ## `rangeIndex` on codes that differ only in the last byte -/

theorem inBox_append (key : Bytes) (x1 x2 : Nat) (c : Bytes) :
    InBox (key ++ [x1]) (key ++ [x2]) c ↔ ∃ x, c = key ++ [x] ∧ x1 ≤ x ∧ x ≤ x2 := by
  induction key generalizing c with
  | nil =>
    cases c with
    | nil => simp [InBox]
    | cons b c =>
      cases c with
      | nil => simp [InBox]
      | cons _ _ => simp [InBox]
  | cons k key ih =>
    cases c with
    | nil => simp [InBox]
    | cons b c =>
      simp only [List.cons_append, InBox, ih, List.cons.injEq]
      constructor
      · rintro ⟨h1, h2, x, rfl, h3⟩; exact ⟨x, ⟨by omega, rfl⟩, h3⟩
      · rintro ⟨x, ⟨rfl, rfl⟩, h3⟩; exact ⟨Nat.le_refl _, Nat.le_refl _, x, rfl, h3⟩

theorem mixedIndex_append (key : Bytes) (x1 x2 x : Nat) :
    mixedIndex (key ++ [x1]) (key ++ [x2]) (key ++ [x]) = x - x1 := by
  induction key with
  | nil => simp [mixedIndex, boxCount]
  | cons k key ih => simp [mixedIndex, ih]

theorem rangeIndex_append (key : Bytes) (x1 x2 : Nat) (h2 : x2 < 256) (c : Bytes) (i : Nat) :
    rangeIndex (key ++ [x1]) (key ++ [x2]) c = some i ↔ ∃ x, c = key ++ [x] ∧ x1 ≤ x ∧ x ≤ x2 ∧ i = x - x1 := by
  by_cases hc : c = []
  · subst hc
    constructor
    · intro h; simp [rangeIndex] at h
    · rintro ⟨x, h, _⟩; simp at h
  · rw [rangeIndex_iff _ _ _ hc, inBox_append]
    constructor
    · rintro ⟨⟨x, rfl, h3, h4⟩, h5, _⟩
      exact ⟨x, rfl, h3, h4, by rw [← h5, mixedIndex_append]⟩
    · rintro ⟨x, rfl, h3, h4, rfl⟩
      exact ⟨⟨x, rfl, h3, h4⟩, mixedIndex_append key x1 x2 x, by simp [maxInt32]; omega⟩


/-! ## sorting and grouping -/

theorem mem_insertBy {α : Type} (lt : α → α → Bool) (a b : α) (l : List α) :
    b ∈ insertBy lt a l ↔ b = a ∨ b ∈ l := by
  induction l with
  | nil => simp [insertBy]
  | cons c l ih =>
    simp only [insertBy]
    split
    · simp
    · simp only [List.mem_cons, ih]
      constructor
      · rintro (h | h | h); exact .inr (.inl h); exact .inl h; exact .inr (.inr h)
      · rintro (h | h | h); exact .inr (.inl h); exact .inl h; exact .inr (.inr h)

theorem mem_sortBy {α : Type} (lt : α → α → Bool) (b : α) (l : List α) : b ∈ sortBy lt l ↔ b ∈ l := by
  induction l with
  | nil => simp [sortBy]
  | cons a l ih => simp [sortBy, mem_insertBy, ih]

theorem sorted_insertBy (a : Entry Nat) (l : List (Entry Nat))
    (h : List.Pairwise (fun a b : Entry Nat => a.x ≤ b.x) l) :
    List.Pairwise (fun a b : Entry Nat => a.x ≤ b.x) (insertBy (fun a b => decide (a.x < b.x)) a l) := by
  induction l with
  | nil => simp [insertBy]
  | cons c l ih =>
    have hc := List.pairwise_cons.mp h
    simp only [insertBy]
    split
    · rename_i hlt
      simp only [decide_eq_true_eq] at hlt
      refine List.pairwise_cons.mpr ⟨?_, h⟩
      intro b hb
      rcases List.mem_cons.mp hb with rfl | hb
      · omega
      · have := hc.1 b hb; omega
    · rename_i hlt
      simp only [decide_eq_true_eq, Nat.not_lt] at hlt
      refine List.pairwise_cons.mpr ⟨?_, ih hc.2⟩
      intro b hb
      rcases (mem_insertBy _ _ _ _).mp hb with rfl | hb
      · exact hlt
      · exact hc.1 b hb

theorem sorted_sortBy (l : List (Entry Nat)) :
    List.Pairwise (fun a b : Entry Nat => a.x ≤ b.x) (sortBy (fun a b => decide (a.x < b.x)) l) := by
  induction l with
  | nil => simp [sortBy]
  | cons a l ih => exact sorted_insertBy a _ ih

theorem mem_dedupSorted (a : Bytes) : ∀ (l : List Bytes), a ∈ dedupSorted l ↔ a ∈ l
  | [] => by simp [dedupSorted]
  | [b] => by simp [dedupSorted]
  | b :: c :: rest => by
    have ih := mem_dedupSorted a (c :: rest)
    simp only [dedupSorted]
    split
    · rename_i heq
      have : b = c := by simpa using heq
      subst this
      rw [ih]; simp
    · simp only [List.mem_cons] at ih ⊢
      rw [ih]

theorem mem_sortedKeys (es : List (Entry Nat)) (k : Bytes) : k ∈ sortedKeys es ↔ ∃ e ∈ es, e.key = k := by
  simp [sortedKeys, mem_dedupSorted, mem_sortBy]

theorem mem_groupOf (es : List (Entry Nat)) (k : Bytes) (e : Entry Nat) :
    e ∈ groupOf es k ↔ e ∈ es ∧ e.key = k := by
  simp [groupOf, mem_sortBy]


/-! ## the whole output of `SetMapping` -/

/-- what an output item says about a code -/
def Covers : Sum Single CRange → Bytes → Nat → Prop
  | .inl s, bytes, v => s.code = bytes ∧ s.value = v
  | .inr r, bytes, v => ∃ i, rangeIndex r.first r.last bytes = some i ∧ v = u32 (r.value + i)

/-- the singles and ranges in the order in which `SetMapping` appends them -/
def outOf (es : List (Entry Nat)) : List (Sum Single CRange) :=
  (sortedKeys es).flatMap fun key => cidRunsOfGroup key (groupOf es key)

theorem cidRuns_shape (key : Bytes) : ∀ (rest : List (Entry Nat)) (start prev : Entry Nat) (len : Nat),
    prev.x < 256 → (∀ e ∈ rest, e.x < 256) →
    ∀ item ∈ cidRuns key start prev len rest,
      (∃ x0 v, item = .inl ⟨key ++ [x0], v⟩) ∨ (∃ x1 x2 v, item = .inr ⟨key ++ [x1], key ++ [x2], v⟩ ∧ x2 < 256) := by
  intro rest
  induction rest with
  | nil =>
    intro start prev len hp _ item hitem
    simp only [cidRuns, List.mem_singleton] at hitem
    subst hitem
    split
    · exact .inr ⟨_, _, _, rfl, hp⟩
    · exact .inl ⟨_, _, rfl⟩
  | cons e rest ih =>
    intro start prev len hp hrest item hitem
    simp only [cidRuns] at hitem
    split at hitem
    · rcases List.mem_cons.mp hitem with rfl | hitem
      · split
        · exact .inr ⟨_, _, _, rfl, hp⟩
        · exact .inl ⟨_, _, rfl⟩
      · exact ih e e 1 (hrest e (by simp)) (fun e' he' => hrest e' (by simp [he'])) item hitem
    · exact ih start e (len + 1) (hrest e (by simp)) (fun e' he' => hrest e' (by simp [he'])) item hitem

theorem covers_iff (key : Bytes) (item : Sum Single CRange)
    (hshape : (∃ x0 v, item = .inl ⟨key ++ [x0], v⟩) ∨ (∃ x1 x2 v, item = .inr ⟨key ++ [x1], key ++ [x2], v⟩ ∧ x2 < 256))
    (bytes : Bytes) (v : Nat) :
    Covers item bytes v ↔ ∃ x, bytes = key ++ [x] ∧ ItemCovers key item x v := by
  rcases hshape with ⟨x0, v0, rfl⟩ | ⟨x1, x2, v0, rfl, h2⟩
  · simp only [Covers, ItemCovers]
    constructor
    · rintro ⟨rfl, rfl⟩; exact ⟨x0, rfl, rfl, rfl⟩
    · rintro ⟨x, rfl, h, rfl⟩; exact ⟨h, rfl⟩
  · simp only [Covers, ItemCovers]
    constructor
    · rintro ⟨i, hi, rfl⟩
      obtain ⟨x, rfl, h3, h4, rfl⟩ := (rangeIndex_append key x1 x2 h2 bytes i).mp hi
      exact ⟨x, rfl, x1, x2, rfl, rfl, h3, h4, h2, rfl⟩
    · rintro ⟨x, rfl, y1, y2, e1, e2, h3, h4, h5, rfl⟩
      simp only [List.append_cancel_left_eq, List.cons.injEq, and_true] at e1 e2
      subst e1 e2
      exact ⟨x - x1, (rangeIndex_append key x1 x2 h2 _ _).mpr ⟨x, rfl, h3, h4, rfl⟩, rfl⟩

/-- entries as `SetMapping` produces them: last bytes are bytes, CIDs are `uint32` -/
def EntriesOK (es : List (Entry Nat)) : Prop := ∀ e ∈ es, e.x < 256 ∧ e.val < 4294967296

theorem group_cases (es : List (Entry Nat)) (k : Bytes) (hes : EntriesOK es) :
    groupOf es k = [] ∨ ∃ e0 rest, groupOf es k = e0 :: rest ∧ (∀ e ∈ rest, e0.x ≤ e.x) ∧
      List.Pairwise (fun a b : Entry Nat => a.x ≤ b.x) rest ∧
      (∀ e ∈ e0 :: rest, e ∈ es ∧ e.key = k ∧ e.x < 256 ∧ e.val < 4294967296) := by
  cases hG : groupOf es k with
  | nil => exact .inl rfl
  | cons e0 rest =>
    right
    have hs : List.Pairwise (fun a b : Entry Nat => a.x ≤ b.x) (groupOf es k) := sorted_sortBy _
    rw [hG] at hs
    have hs' := List.pairwise_cons.mp hs
    refine ⟨e0, rest, rfl, hs'.1, hs'.2, ?_⟩
    intro e he
    have := (mem_groupOf es k e).mp (by rw [hG]; exact he)
    exact ⟨this.1, this.2, hes e this.1⟩

theorem out_sound (es : List (Entry Nat)) (hes : EntriesOK es) (item : Sum Single CRange) (hitem : item ∈ outOf es)
    (bytes : Bytes) (v : Nat) (hc : Covers item bytes v) : ∃ e ∈ es, bytes = e.key ++ [e.x] ∧ v = e.val := by
  simp only [outOf, List.mem_flatMap] at hitem
  obtain ⟨k, _, hitem⟩ := hitem
  rcases group_cases es k hes with hG | ⟨e0, rest, hG, h1, h2, h3⟩
  · simp [hG, cidRunsOfGroup] at hitem
  · rw [hG] at hitem
    simp only [cidRunsOfGroup] at hitem
    have hshape := cidRuns_shape k rest e0 e0 1 (h3 e0 (by simp)).2.2.1
      (fun e he => (h3 e (by simp [he])).2.2.1) item hitem
    obtain ⟨x, rfl, hic⟩ := (covers_iff k item hshape bytes v).mp hc
    have hv0 : u32 e0.val = e0.val := by simp [u32, Nat.mod_eq_of_lt (h3 e0 (by simp)).2.2.2]
    obtain ⟨e, he, e1, e2⟩ := cidRuns_sound k (e0 :: rest) rest e0 e0 1
      ⟨by omega, by simp, (h3 e0 (by simp)).2.2.1, by
        intro j hj
        have : j = 0 := by omega
        subst this
        exact ⟨e0, by simp, by simp, by simpa using hv0.symm⟩⟩
      (fun e he => ⟨by simp [he], (h3 e (by simp [he])).2.2.1⟩) (by simpa using hv0.symm) h1 h2
      (fun e he => (h3 e he).2.2.2) (by simp) item hitem x v hic
    have := h3 e he
    exact ⟨e, this.1, by rw [this.2.1, e1], e2.symm⟩

theorem out_complete (es : List (Entry Nat)) (hes : EntriesOK es) (e : Entry Nat) (he : e ∈ es) :
    ∃ item ∈ outOf es, Covers item (e.key ++ [e.x]) e.val := by
  have hk : e.key ∈ sortedKeys es := (mem_sortedKeys es e.key).mpr ⟨e, he, rfl⟩
  have heG : e ∈ groupOf es e.key := (mem_groupOf es e.key e).mpr ⟨he, rfl⟩
  rcases group_cases es e.key hes with hG | ⟨e0, rest, hG, h1, h2, h3⟩
  · rw [hG] at heG; simp at heG
  · rw [hG] at heG
    have hv0 : u32 e0.val = e0.val := by simp [u32, Nat.mod_eq_of_lt (h3 e0 (by simp)).2.2.2]
    obtain ⟨c1, c2⟩ := cidRuns_complete e.key rest e0 e0 1 (by omega) (by simp) (h3 e0 (by simp)).2.2.1
      (by simpa using hv0.symm) (h3 e0 (by simp)).2.2.2
      (fun e' he' => ⟨(h3 e' (by simp [he'])).2.2.1, (h3 e' (by simp [he'])).2.2.2, h1 e' he'⟩) h2
    have hmem : ∀ item, item ∈ cidRuns e.key e0 e0 1 rest → item ∈ outOf es := by
      intro item hi
      simp only [outOf, List.mem_flatMap]
      exact ⟨e.key, hk, by rw [hG]; exact hi⟩
    have hshape := fun item hi => cidRuns_shape e.key rest e0 e0 1 (h3 e0 (by simp)).2.2.1
      (fun e he => (h3 e (by simp [he])).2.2.1) item hi
    rcases List.mem_cons.mp heG with rfl | heG
    · obtain ⟨item, hi, hc⟩ := c1 0 (by omega)
      refine ⟨item, hmem item hi, (covers_iff _ item (hshape item hi) _ _).mpr ⟨e.x, rfl, ?_⟩⟩
      simpa [hv0] using hc
    · obtain ⟨item, hi, hc⟩ := c2 e heG
      exact ⟨item, hmem item hi, (covers_iff _ item (hshape item hi) _ _).mpr ⟨e.x, rfl, hc⟩⟩


/-! ## lookups in the file built by `SetMapping` -/

theorem findSingle_some (code : Bytes) (l : List Single) (v : Nat) (h : findSingle code l = some v) :
    ∃ s ∈ l, s.code = code ∧ s.value = v := by
  induction l with
  | nil => simp [findSingle] at h
  | cons s l ih =>
    simp only [findSingle] at h
    split at h
    · rename_i heq
      exact ⟨s, by simp, by simpa using heq, by simpa using h⟩
    · obtain ⟨s', hs', h'⟩ := ih h; exact ⟨s', by simp [hs'], h'⟩

theorem findSingle_none (code : Bytes) (l : List Single) (h : findSingle code l = none) :
    ∀ s ∈ l, s.code ≠ code := by
  induction l with
  | nil => simp
  | cons s l ih =>
    simp only [findSingle] at h
    split at h
    · cases h
    · rename_i hne
      intro s' hs'
      rcases List.mem_cons.mp hs' with rfl | hs'
      · simpa using hne
      · exact ih h s' hs'

theorem findRange_some (code : Bytes) (l : List CRange) (v : Nat) (h : findRange code l = some v) :
    ∃ r ∈ l, ∃ i, rangeIndex r.first r.last code = some i ∧ v = u32 (r.value + i) := by
  induction l with
  | nil => simp [findRange] at h
  | cons r l ih =>
    simp only [findRange] at h
    split at h
    · rename_i i hi
      exact ⟨r, by simp, i, hi, by simpa using h.symm⟩
    · obtain ⟨r', hr', h'⟩ := ih h; exact ⟨r', by simp [hr'], h'⟩

theorem findRange_none (code : Bytes) (l : List CRange) (h : findRange code l = none) :
    ∀ r ∈ l, rangeIndex r.first r.last code = none := by
  induction l with
  | nil => simp
  | cons r l ih =>
    simp only [findRange] at h
    split at h
    · cases h
    · rename_i hne
      intro r' hr'
      rcases List.mem_cons.mp hr' with rfl | hr'
      · exact hne
      · exact ih h r' hr'

theorem mem_lefts {α β : Type} (a : α) (l : List (Sum α β)) : a ∈ lefts l ↔ Sum.inl a ∈ l := by
  induction l with
  | nil => simp [lefts]
  | cons x l ih => cases x <;> simp [lefts, ih]

theorem mem_rights {α β : Type} (b : β) (l : List (Sum α β)) : b ∈ rights l ↔ Sum.inr b ∈ l := by
  induction l with
  | nil => simp [rights]
  | cons x l ih => cases x <;> simp [rights, ih]

/-- what the file itself (without parents and notdef entries) answers -/
def ownLookup (f : CMapFile) (bytes : Bytes) : Option Nat :=
  match findSingle bytes f.singles with
  | some v => some v
  | none => findRange bytes f.ranges

theorem lookupMapped_cons (f : CMapFile) (parents : Chain) (bytes : Bytes) :
    lookupMapped (f :: parents) bytes =
      match ownLookup f bytes with
      | some v => some v
      | none => lookupMapped parents bytes := by
  simp only [lookupMapped, ownLookup]
  cases findSingle bytes f.singles with
  | some v => rfl
  | none =>
    simp only
    cases findRange bytes f.ranges with
    | some v => rfl
    | none => rfl

/-- `LookupCID` of a file with parents: own mapping, else the ancestors' mapping, else the notdef
entries of the whole chain starting with the file's own -/
theorem lookupCID_cons (f : CMapFile) (parents : Chain) (bytes : Bytes) :
    lookupCID (f :: parents) bytes =
      match ownLookup f bytes with
      | some v => v
      | none => match lookupMapped parents bytes with
        | some v => v
        | none => lookupNotdef (f :: parents) bytes := by
  simp only [lookupCID, lookupMapped_cons]
  cases ownLookup f bytes with
  | some v => rfl
  | none => rfl

theorem own_of_entries (f : CMapFile) (es : List (Entry Nat)) (hes : EntriesOK es)
    (hfun : ∀ e ∈ es, ∀ e' ∈ es, e.key ++ [e.x] = e'.key ++ [e'.x] → e.val = e'.val)
    (hs : f.singles = lefts (outOf es)) (hr : f.ranges = rights (outOf es)) :
    (∀ e ∈ es, ownLookup f (e.key ++ [e.x]) = some e.val) ∧
    (∀ bytes, (∀ e ∈ es, bytes ≠ e.key ++ [e.x]) → ownLookup f bytes = none) := by
  have hsingle : ∀ bytes v, findSingle bytes f.singles = some v → ∃ e ∈ es, bytes = e.key ++ [e.x] ∧ v = e.val := by
    intro bytes v h
    obtain ⟨s, hs', h1, h2⟩ := findSingle_some bytes _ v h
    rw [hs, mem_lefts] at hs'
    exact out_sound es hes _ hs' bytes v ⟨h1, h2⟩
  have hrange : ∀ bytes v, findRange bytes f.ranges = some v → ∃ e ∈ es, bytes = e.key ++ [e.x] ∧ v = e.val := by
    intro bytes v h
    obtain ⟨r, hr', i, h1, h2⟩ := findRange_some bytes _ v h
    rw [hr, mem_rights] at hr'
    exact out_sound es hes _ hr' bytes v ⟨i, h1, h2⟩
  constructor
  · intro e he
    simp only [ownLookup]
    cases h1 : findSingle (e.key ++ [e.x]) f.singles with
    | some v =>
      obtain ⟨e', he', h2, h3⟩ := hsingle _ v h1
      simp only; rw [h3, hfun e he e' he' h2]
    | none =>
      simp only
      cases h2 : findRange (e.key ++ [e.x]) f.ranges with
      | some v =>
        obtain ⟨e', he', h3, h4⟩ := hrange _ v h2
        rw [h4, hfun e he e' he' h3]
      | none =>
        exfalso
        obtain ⟨item, hi, hc⟩ := out_complete es hes e he
        cases item with
        | inl s =>
          have := findSingle_none _ _ h1 s (by rw [hs, mem_lefts]; exact hi)
          exact this hc.1
        | inr r =>
          obtain ⟨i, hi', _⟩ := hc
          have := findRange_none _ _ h2 r (by rw [hr, mem_rights]; exact hi)
          rw [this] at hi'; cases hi'
  · intro bytes hno
    simp only [ownLookup]
    cases h1 : findSingle bytes f.singles with
    | some v => obtain ⟨e, he, h2, _⟩ := hsingle _ v h1; exact absurd h2 (hno e he)
    | none =>
      simp only
      cases h2 : findRange bytes f.ranges with
      | some v => obtain ⟨e, he, h3, _⟩ := hrange _ v h2; exact absurd h3 (hno e he)
      | none => rfl

theorem lookup_of_entries (f : CMapFile) (es : List (Entry Nat)) (hes : EntriesOK es)
    (hfun : ∀ e ∈ es, ∀ e' ∈ es, e.key ++ [e.x] = e'.key ++ [e'.x] → e.val = e'.val)
    (hs : f.singles = lefts (outOf es)) (hr : f.ranges = rights (outOf es)) :
    (∀ e ∈ es, lookupCID [f] (e.key ++ [e.x]) = e.val) ∧
    (∀ bytes, (∀ e ∈ es, bytes ≠ e.key ++ [e.x]) → lookupCID [f] bytes = lookupNotdef [f] bytes) := by
  obtain ⟨l1, l2⟩ := own_of_entries f es hes hfun hs hr
  constructor
  · intro e he; rw [lookupCID_cons, l1 e he]
  · intro bytes hno; rw [lookupCID_cons, l2 bytes hno]; simp [lookupMapped]

theorem splitLast_eq (buf key : Bytes) (x : Nat) (h : splitLast buf = some (key, x)) : buf = key ++ [x] := by
  induction buf generalizing key with
  | nil => simp [splitLast] at h
  | cons b bs ih =>
    cases bs with
    | nil => simp [splitLast] at h; obtain ⟨rfl, rfl⟩ := h; rfl
    | cons c cs =>
      simp only [splitLast, Option.map_eq_some_iff] at h
      obtain ⟨⟨k', x'⟩, h1, h2⟩ := h
      simp only [Prod.mk.injEq] at h2
      obtain ⟨rfl, rfl⟩ := h2
      have := ih k' h1
      simp [this]

/-- the entries computed by the first loop of `SetMapping` (no parent) -/
theorem cidEntries_spec (codec : Codec) : ∀ (data : List (Nat × Nat)) (es : List (Entry Nat)),
    cidEntries codec [] data = .ok es →
    (∀ e ∈ es, ∃ p ∈ data, codec.appendCode p.1 = .ok (e.key ++ [e.x]) ∧ e.val = p.2) ∧
    (∀ p ∈ data, ∃ e ∈ es, codec.appendCode p.1 = .ok (e.key ++ [e.x]) ∧ e.val = p.2) := by
  intro data
  induction data with
  | nil => intro es h; simp [cidEntries] at h; subst h; simp
  | cons p data ih =>
    intro es h
    obtain ⟨code, cid⟩ := p
    simp only [cidEntries] at h
    split at h
    · cases h
    · rename_i buf hbuf
      split at h
      · cases h
      · rename_i es' hes'
        simp only [List.isEmpty_nil, Bool.not_true, Bool.false_and, Bool.false_eq_true, if_false] at h
        split at h
        · cases h
        · rename_i key x hsplit
          injection h with h; subst h
          have hb := splitLast_eq buf key x hsplit
          obtain ⟨i1, i2⟩ := ih es' hes'
          constructor
          · intro e he
            rcases List.mem_cons.mp he with rfl | he
            · exact ⟨(code, cid), by simp, by simp [hbuf, hb], rfl⟩
            · obtain ⟨p, hp, h'⟩ := i1 e he; exact ⟨p, by simp [hp], h'⟩
          · intro p hp
            rcases List.mem_cons.mp hp with rfl | hp
            · exact ⟨⟨key, x, cid⟩, by simp, by simp [hbuf, hb], rfl⟩
            · obtain ⟨e, he, h'⟩ := i2 p hp; exact ⟨e, by simp [he], h'⟩

/-- **`lookup_setMapping`.**  For every finite map `data` (codes with pairwise different byte
strings or at least no conflicting values, CIDs `< 2^32`), the file built by `SetMapping`
(without parent) answers `LookupCID` for every mapped code with the mapped CID, and for every
other byte string with the notdef result. -/
theorem lookup_setMapping (f f' : CMapFile) (codec : Codec) (data : List (Nat × Nat))
    (h : setMapping f [] codec data = .ok f')
    (hcid : ∀ p ∈ data, p.2 < 4294967296)
    (hbytes : ∀ p ∈ data, ∀ bs, codec.appendCode p.1 = .ok bs → AllBytes bs)
    (hfun : ∀ p ∈ data, ∀ q ∈ data, codec.appendCode p.1 = codec.appendCode q.1 → p.2 = q.2) :
    (∀ p ∈ data, ∃ bs, codec.appendCode p.1 = .ok bs ∧ lookupCID [f'] bs = p.2) ∧
    (∀ bs, (∀ p ∈ data, codec.appendCode p.1 ≠ .ok bs) → lookupCID [f'] bs = lookupNotdef [f'] bs) := by
  unfold setMapping at h
  split at h
  · cases h
  · rename_i csr _
    split at h
    · cases h
    · rename_i es hes
      injection h with h
      obtain ⟨i1, i2⟩ := cidEntries_spec codec data es hes
      have hok : EntriesOK es := by
        intro e he
        obtain ⟨p, hp, h1, h2⟩ := i1 e he
        have := hbytes p hp _ h1
        refine ⟨this e.x (by simp), by rw [h2]; exact hcid p hp⟩
      have hfun' : ∀ e ∈ es, ∀ e' ∈ es, e.key ++ [e.x] = e'.key ++ [e'.x] → e.val = e'.val := by
        intro e he e' he' heq
        obtain ⟨p, hp, h1, h2⟩ := i1 e he
        obtain ⟨q, hq, h3, h4⟩ := i1 e' he'
        rw [h2, h4]
        exact hfun p hp q hq (by rw [h1, h3, heq])
      obtain ⟨l1, l2⟩ := lookup_of_entries f' es hok hfun' (by rw [← h]; rfl) (by rw [← h]; rfl)
      constructor
      · intro p hp
        obtain ⟨e, he, h1, h2⟩ := i2 p hp
        exact ⟨_, h1, by rw [l1 e he, h2]⟩
      · intro bs hno
        apply l2
        intro e he heq
        obtain ⟨p, hp, h1, _⟩ := i1 e he
        exact hno p hp (by rw [h1, heq])

end PdfVerif.C13ccb

import PdfVerif.Model.HISSeq
/-!
# C20 (part 3) — the marker matcher recognises every line-initial object header
-/
namespace PdfVerif.C20hisc
open PdfVerif PdfVerif.HIS

theorem spanP_append (p : Nat → Bool) : ∀ (a b : Bytes), (∀ x ∈ a, p x = true) →
    (match b with | [] => True | c :: _ => p c = false) → spanP p (a ++ b) = (a, b) := by
  intro a
  induction a with
  | nil =>
    intro b _ hb
    cases b with
    | nil => rfl
    | cons c cs => simp only [List.nil_append, spanP]; simp at hb; simp [hb]
  | cons x xs ih =>
    intro b ha hb
    have hx : p x = true := ha x (by simp)
    simp only [List.cons_append, spanP, hx, if_true]
    rw [ih b (fun y hy => ha y (by simp [hy])) hb]

/-- a line-initial object header: digits, marker white space, digits, marker white space, `obj` -/
def headerBytes (n w1 g w2 : Bytes) : Bytes := n ++ w1 ++ g ++ w2 ++ kwObj

theorem isPrefixOf_append (p x : Bytes) : isPrefixOf p (p ++ x) = true := by
  induction p with
  | nil => rfl
  | cons a as ih => simp [isPrefixOf, ih]

/-- **Every object header is recognised.**  For all digit strings `n`, `g` and all runs of
marker white space `w1`, `w2` (NUL, HT, FF, SP; all non-empty), followed by the end of the text or
a non-word byte, the body matcher returns the header with its exact length and digit strings. -/
theorem header_body_recognised (n w1 g w2 rest : Bytes)
    (hn : n ≠ []) (hw1 : w1 ≠ []) (hg : g ≠ []) (hw2 : w2 ≠ [])
    (hnd : ∀ x ∈ n, isDigit x = true) (hgd : ∀ x ∈ g, isDigit x = true)
    (hw1s : ∀ x ∈ w1, isMarkerWS x = true) (hw2s : ∀ x ∈ w2, isMarkerWS x = true)
    (hrest : wordEnd rest = true) :
    matchMarkerBody (headerBytes n w1 g w2 ++ rest)
      = some (n.length + w1.length + g.length + w2.length + 3, .obj n g) := by
  have ws_not_digit : ∀ x, isMarkerWS x = true → isDigit x = false := by
    intro x hx; simp [isMarkerWS] at hx; rcases hx with ((rfl | rfl) | rfl) | rfl <;> decide
  have digit_not_ws : ∀ x, isDigit x = true → isMarkerWS x = false := by
    intro x hx; simp [isDigit] at hx; simp [isMarkerWS]; omega
  have head_of : ∀ (l : Bytes), l ≠ [] → ∃ c t, l = c :: t := by
    intro l hl; cases l with | nil => exact absurd rfl hl | cons c t => exact ⟨c, t, rfl⟩
  obtain ⟨c1, t1, e1⟩ := head_of w1 hw1
  obtain ⟨c2, t2, e2⟩ := head_of g hg
  obtain ⟨c3, t3, e3⟩ := head_of w2 hw2
  have s1 : spanP isDigit (n ++ (w1 ++ (g ++ (w2 ++ (kwObj ++ rest))))) = (n, w1 ++ (g ++ (w2 ++ (kwObj ++ rest)))) := by
    apply spanP_append _ _ _ hnd
    rw [e1]; exact ws_not_digit c1 (hw1s c1 (by simp [e1]))
  have s2 : spanP isMarkerWS (w1 ++ (g ++ (w2 ++ (kwObj ++ rest)))) = (w1, g ++ (w2 ++ (kwObj ++ rest))) := by
    apply spanP_append _ _ _ hw1s
    rw [e2]; exact digit_not_ws c2 (hgd c2 (by simp [e2]))
  have s3 : spanP isDigit (g ++ (w2 ++ (kwObj ++ rest))) = (g, w2 ++ (kwObj ++ rest)) := by
    apply spanP_append _ _ _ hgd
    rw [e3]; exact ws_not_digit c3 (hw2s c3 (by simp [e3]))
  have s4 : spanP isMarkerWS (w2 ++ (kwObj ++ rest)) = (w2, kwObj ++ rest) := by
    apply spanP_append _ _ _ hw2s
    simp [kwObj, isMarkerWS]
  have hpre : isPrefixOf kwObj (kwObj ++ rest) = true := isPrefixOf_append _ _
  have hdrop : (kwObj ++ rest).drop 3 = rest := by simp [kwObj]
  unfold matchMarkerBody headerBytes
  simp only [List.append_assoc, s1, s2, s3, s4, hpre, hdrop, hrest]
  have b1 : n.isEmpty = false := by cases n with | nil => exact absurd rfl hn | cons _ _ => rfl
  have b2 : w1.isEmpty = false := by rw [e1]; rfl
  have b3 : g.isEmpty = false := by rw [e2]; rfl
  have b4 : w2.isEmpty = false := by rw [e3]; rfl
  simp [b1, b2, b3, b4]

/-- with any of the three end-of-line markers in front (or at the start of the text) the whole
    match and `countLeadingSpaces` are what `locateObjects` expects: the object starts right
    behind the end-of-line marker -/
theorem header_recognised (eol n w1 g w2 rest : Bytes)
    (heol : eol = [10] ∨ eol = [13] ∨ eol = [13, 10])
    (hn : n ≠ []) (hw1 : w1 ≠ []) (hg : g ≠ []) (hw2 : w2 ≠ [])
    (hnd : ∀ x ∈ n, isDigit x = true) (hgd : ∀ x ∈ g, isDigit x = true)
    (hw1s : ∀ x ∈ w1, isMarkerWS x = true) (hw2s : ∀ x ∈ w2, isMarkerWS x = true)
    (hrest : wordEnd rest = true) (atStart : Bool) :
    matchMarkerAt atStart (eol ++ (headerBytes n w1 g w2 ++ rest))
      = some (eol.length + (n.length + w1.length + g.length + w2.length + 3), eol.length, .obj n g) := by
  have hb := header_body_recognised n w1 g w2 rest hn hw1 hg hw2 hnd hgd hw1s hw2s hrest
  rcases heol with rfl | rfl | rfl
  · simp [matchMarkerAt, hb]
  · -- a lone CR: the first alternative (CR LF) does not apply because a header starts with a digit
    obtain ⟨c, t, e⟩ : ∃ c t, n = c :: t := by
      cases n with | nil => exact absurd rfl hn | cons c t => exact ⟨c, t, rfl⟩
    have hc : c ≠ 10 := by
      have := hnd c (by simp [e]); simp [isDigit] at this; omega
    subst e
    simp only [headerBytes, List.cons_append, List.nil_append, List.append_assoc] at hb ⊢
    simp [matchMarkerAt, hb, hc]
  · simp [matchMarkerAt, hb]

-- non-vacuity: CR LF "12 0 obj" LF
example : matchMarkerAt false ([13, 10] ++ (headerBytes [49, 50] [32] [48] [32] ++ [10]))
    = some (10, 2, .obj [49, 50] [48]) := by decide +kernel

/-! ## the leftmost match and what `locateObjects` records -/

theorem matchMarkerFrom_skip : ∀ (pre t : Bytes) (i : Nat),
    (∀ j, j < pre.length → matchMarkerAt (i + j == 0) ((pre ++ t).drop j) = none) →
    matchMarkerFrom i (pre ++ t) = matchMarkerFrom (i + pre.length) t := by
  intro pre
  induction pre with
  | nil => intro t i _; simp
  | cons c cs ih =>
    intro t i h
    have h0 := h 0 (by simp)
    simp only [Nat.add_zero, List.drop_zero, List.cons_append] at h0
    simp only [List.cons_append, matchMarkerFrom, h0]
    rw [ih t (i + 1)]
    · simp only [List.length_cons]; congr 1; omega
    · intro j hj
      have := h (j + 1) (by simp; omega)
      simp only [List.cons_append, List.drop_succ_cons] at this
      have e : (i + 1 + j == 0) = (i + (j + 1) == 0) := by congr 1; omega
      rw [e]; exact this

/-- **The leftmost header is found at its position.**  If no match starts inside `pre` and a
match starts at the head of `c :: t`, the search over `pre ++ c :: t` returns that match at
offset `pre.length`. -/
theorem marker_found_at (pre : Bytes) (c : Nat) (t : Bytes) (len lead : Nat) (m : Marker)
    (hpre : ∀ j, j < pre.length → matchMarkerAt (j == 0) ((pre ++ c :: t).drop j) = none)
    (hm : matchMarkerAt (pre.length == 0) (c :: t) = some (len, lead, m)) :
    (matchMarker (pre ++ c :: t)).map (fun r => (r.a, r.b, r.tag))
      = some (pre.length, pre.length + len, (lead, m)) := by
  unfold matchMarker
  rw [matchMarkerFrom_skip pre (c :: t) 0 (by intro j hj; simpa using hpre j hj)]
  simp only [Nat.zero_add, matchMarkerFrom, hm, Option.map]

theorem parseUint_ok (ds : Bytes) (bits : Nat) (h : digitsVal ds 0 < 2 ^ bits) :
    parseUint ds bits = some (digitsVal ds 0) := by
  simp [parseUint, h]

/-- **A recognised header is recorded at its offset**: `locateObjects` appends the object
(number and generation as written, any number of leading zeros) with `ObjStart = pos`. -/
theorem locStep_records (s : LocState) (pos : Nat) (n g : Bytes)
    (hn : digitsVal n 0 < Gen.his_xref_maxXRefSize) (hg : digitsVal g 0 < 65536) :
    (locStep s pos (.obj n g)).cur.objects.head? = some { num := digitsVal n 0, gen := digitsVal g 0, start := pos }
      ∧ (locStep s pos (.obj n g)).used = true := by
  have h32 : digitsVal n 0 < 2 ^ 32 := by
    have : Gen.his_xref_maxXRefSize ≤ 2 ^ 32 := by decide
    omega
  have h16 : digitsVal g 0 < 2 ^ 16 := by simpa using hg
  have hx : ¬ (digitsVal n 0 ≥ Gen.his_xref_maxXRefSize) := by omega
  simp only [locStep, parseUint_ok n 32 h32, parseUint_ok g 16 h16, hx, if_false]
  cases s.inTrailer <;> simp

end PdfVerif.C20hisc

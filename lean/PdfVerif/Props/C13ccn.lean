import PdfVerif.Props.C13ccm
import PdfVerif.Spec.CCToUnicode
/-!
# C13 (part 14) — the writers' blocks, the single-destination `bfrange` form, `GetMapping`

* `chunks` / `tuRangeChunks` split losslessly into non-empty blocks of at most `chunkSize` = 100
  entries (the limit of the CMap format which the reader enforces); `tuRangeChunks` also keeps
  `3k + 3 + len(values)` ≤ 400 for every entry after the first of a block, below the 500 slots of the
  PostScript reader's operand stack (fixes D-C13-1, D-C13-3).
* the single-destination `bfrange` form that `NewToUnicodeFile` chooses (fix D-C13-2) means the
  same under ISO 32000-2 9.10.3 (last BYTE incremented) as under the library's own reading
  (`nextString`: last RUNE incremented).
* the code space `GetMapping` uses is the union of the levels of the chain (fix D-C13-5).
-/
namespace PdfVerif.C13ccn
open PdfVerif PdfVerif.CC

/-! ## `chunks` -/

theorem chunksFuel_spec {α : Type} : ∀ (fuel : Nat) (x : List α), x.length < fuel →
    (chunksFuel fuel x).flatten = x ∧
    ∀ b ∈ chunksFuel fuel x, 1 ≤ b.length ∧ b.length ≤ Gen.cmap_chunkSize := by
  intro fuel
  induction fuel with
  | zero => intro x h; omega
  | succ fuel ih =>
    intro x hx
    simp only [chunksFuel]
    split
    · rename_i hge
      have hd : (x.drop Gen.cmap_chunkSize).length < fuel := by
        simp only [List.length_drop, Gen.cmap_chunkSize] at *; omega
      obtain ⟨i1, i2⟩ := ih _ hd
      constructor
      · simp only [List.flatten_cons, i1, List.take_append_drop]
      · intro b hb
        rcases List.mem_cons.mp hb with rfl | hb
        · simp only [List.length_take, Gen.cmap_chunkSize] at *; omega
        · exact i2 b hb
    · rename_i hlt
      split
      · rename_i he
        have : x = [] := by simpa using he
        subst this; simp
      · rename_i hne
        constructor
        · simp
        · intro b hb
          simp only [List.mem_singleton] at hb
          subst hb
          have : b ≠ [] := by intro h; subst h; simp at hne
          have := List.length_pos_iff.mpr this
          omega

/-- **`chunks` is lossless and every block has between 1 and `chunkSize` (= 100) entries** — for
every list: code space ranges, cidchar, cidrange, notdefchar, notdefrange, bfchar entries. -/
theorem chunks_spec {α : Type} (x : List α) :
    (chunks x).flatten = x ∧ ∀ b ∈ chunks x, 1 ≤ b.length ∧ b.length ≤ Gen.cmap_chunkSize :=
  chunksFuel_spec (x.length + 1) x (by omega)

/-- every block the CMap writer emits has at most 100 entries -/
theorem cmapBlockSizes_le (a b c d e : Nat) :
    ∀ kind ∈ cmapBlockSizes a b c d e, ∀ n ∈ kind, 1 ≤ n ∧ n ≤ 100 := by
  intro kind hk n hn
  simp only [cmapBlockSizes, List.mem_map] at hk
  obtain ⟨m, _, rfl⟩ := hk
  simp only [List.mem_map] at hn
  obtain ⟨blk, hb, rfl⟩ := hn
  have := (chunks_spec (List.replicate m ())).2 blk hb
  simpa [Gen.cmap_chunkSize] using this

/-- the sizes of the blocks of one kind add up to the number of entries -/
theorem cmapBlockSizes_sum (m : Nat) : ((chunks (List.replicate m ())).map List.length).sum = m := by
  have h := (chunks_spec (List.replicate m ())).1
  have : ((chunks (List.replicate m ())).flatten).length = m := by rw [h]; simp
  rw [List.length_flatten] at this
  exact this

/-! ## `tuRangeChunks` -/

/-- a block of value-list lengths that a reader with a 500-slot operand stack can take: at most
100 entries, and for every entry after the first `3k + 3 + len` ≤ 400 -/
def BlockOK (b : List Nat) : Prop :=
  b.length ≤ Gen.cmap_chunkSize ∧ ∀ k m, b[k]? = some m → k = 0 ∨ 3 * k + 3 + m ≤ 400

theorem tuRangeChunksLoop_spec : ∀ (lens cur : List Nat), BlockOK cur.reverse →
    (tuRangeChunksLoop lens cur).flatten = cur.reverse ++ lens ∧
    ∀ b ∈ tuRangeChunksLoop lens cur, b ≠ [] ∧ BlockOK b := by
  intro lens
  induction lens with
  | nil =>
    intro cur hc
    simp only [tuRangeChunksLoop]
    split
    · rename_i he
      have : cur = [] := by simpa using he
      subst this; simp
    · rename_i hne
      constructor
      · simp
      · intro b hb
        simp only [List.mem_singleton] at hb
        subst hb
        refine ⟨?_, hc⟩
        intro h; simp at h; subst h; simp at hne
  | cons m rest ih =>
    intro cur hc
    simp only [tuRangeChunksLoop]
    split
    · rename_i hcut
      have hsingle : BlockOK [m].reverse := by
        refine ⟨by simp [Gen.cmap_chunkSize], ?_⟩
        intro k v hk
        cases k with
        | zero => left; rfl
        | succ k => simp at hk
      obtain ⟨i1, i2⟩ := ih [m] hsingle
      constructor
      · simp only [List.flatten_cons, i1]; simp
      · intro b hb
        rcases List.mem_cons.mp hb with rfl | hb
        · refine ⟨?_, hc⟩
          simp only [Bool.and_eq_true, decide_eq_true_eq] at hcut
          intro h; simp at h; subst h; simp at hcut
        · exact i2 b hb
    · rename_i hcut
      have hok : BlockOK (m :: cur).reverse := by
        simp only [Bool.and_eq_true, decide_eq_true_eq, Bool.or_eq_true, not_and, not_or, Nat.not_lt,
          Nat.not_le] at hcut
        obtain ⟨h1, h2⟩ := hc
        simp only [List.length_reverse] at h1
        refine ⟨?_, ?_⟩
        · simp only [List.length_reverse, List.length_cons]
          by_cases h0 : cur.length > 0
          · have := (hcut h0).1; omega
          · simp [Gen.cmap_chunkSize]; omega
        · intro k v hk
          simp only [List.reverse_cons] at hk
          by_cases hlt : k < cur.reverse.length
          · rw [List.getElem?_append_left hlt] at hk
            exact h2 k v hk
          · rw [List.getElem?_append_right (by omega)] at hk
            have hk0 : k - cur.reverse.length = 0 := by
              cases hh : k - cur.reverse.length with
              | zero => rfl
              | succ n => rw [hh] at hk; simp at hk
            rw [hk0] at hk
            simp only [List.getElem?_cons_zero, Option.some.injEq] at hk
            subst hk
            simp only [List.length_reverse] at hlt hk0
            have hkeq : k = cur.length := by omega
            by_cases h0 : cur.length > 0
            · right; have := (hcut h0).2; omega
            · left; omega
      obtain ⟨i1, i2⟩ := ih (m :: cur) hok
      exact ⟨by rw [i1]; simp, i2⟩

/-- **`tuRangeChunks` is lossless; every block is non-empty, has at most 100 entries, and keeps
`3k + 3 + len(values)` ≤ 400 for every entry after the first** (the first entry of a block needs
`3 + len(values)` slots, at most 259 for the value lists `NewToUnicodeFile` builds). -/
theorem tuRangeChunks_spec (lens : List Nat) :
    (tuRangeChunks lens).flatten = lens ∧ ∀ b ∈ tuRangeChunks lens, b ≠ [] ∧ BlockOK b := by
  have := tuRangeChunksLoop_spec lens [] ⟨by simp, by intro k m h; simp at h⟩
  simpa [tuRangeChunks] using this

/-- with value lists of at most 256 strings (one per last byte) no entry needs more than 400 slots -/
theorem tuRangeChunks_stack (lens : List Nat) (hl : ∀ m ∈ lens, m ≤ 256) :
    ∀ b ∈ tuRangeChunks lens, ∀ k m, b[k]? = some m → 3 * k + 3 + m ≤ 400 := by
  intro b hb k m hk
  obtain ⟨hj, hok⟩ := tuRangeChunks_spec lens
  have hm : m ∈ lens := by
    rw [← hj]
    exact List.mem_flatten.mpr ⟨b, hb, List.mem_of_getElem? hk⟩
  rcases (hok b hb).2.2 k m hk with h0 | h
  · subst h0; have := hl m hm; omega
  · exact h

/-! ## the single-destination `bfrange` form means the same for a reader that follows 9.10.3 -/

open Spec.ToUnicode in
/-- incrementing the last BYTE of the UTF-16BE form of a scalar value (no overflow of that byte)
is incrementing the scalar value, and stays a scalar value -/
theorem encodeScalar_add (r j : Nat) (hr : IsScalar r) (h : r % 256 + j ≤ 255) :
    IsScalar (r + j) ∧ ∃ pre, encodeScalar r = pre ++ [r % 256] ∧ encodeScalar (r + j) = pre ++ [r % 256 + j] := by
  obtain ⟨h1, h2⟩ := hr
  constructor
  · refine ⟨by omega, by omega⟩
  · by_cases hb : r < 0x10000
    · have hb' : r + j < 0x10000 := by omega
      refine ⟨[r / 256], ?_, ?_⟩
      · simp [encodeScalar, hb]
      · simp only [encodeScalar, hb', if_true, List.cons_append, List.nil_append, List.cons.injEq, and_true]
        omega
    · have hb' : ¬ (r + j < 0x10000) := by omega
      refine ⟨[(0xD800 + (r - 0x10000) / 0x400) / 256, (0xD800 + (r - 0x10000) / 0x400) % 256,
        (0xDC00 + (r - 0x10000) % 0x400) / 256], ?_, ?_⟩
      · simp only [encodeScalar, hb, if_false, List.cons_append, List.nil_append, List.cons.injEq, and_true, true_and]
        omega
      · simp only [encodeScalar, hb', if_false, List.cons_append, List.nil_append, List.cons.injEq, and_true]
        omega

/-- the last UTF-16 unit the model's guard looks at has the low byte `r % 256` -/
theorem utf16Rune_last (r : Nat) (hr : Spec.ToUnicode.IsScalar r) :
    ∃ u, (utf16Rune r).getLast? = some u ∧ u % 256 = r % 256 := by
  obtain ⟨h1, h2⟩ := hr
  unfold utf16Rune
  by_cases hb : r < 0x10000
  · have : ¬ (0xD800 ≤ r ∧ r ≤ 0xDFFF) := h2
    have hs : (decide (0xD800 ≤ r) && decide (r ≤ 0xDFFF)) = false := by simpa using this
    simp [hb, hs]
  · simp only [hb, if_false, h1, if_true]
    refine ⟨0xDC00 + (r - 0x10000) % 0x400, by simp [List.getLast?], by omega⟩

open Spec.ToUnicode in
/-- **The compact `bfrange` form is read alike by the specification and by the library.**  When
`NewToUnicodeFile` (with the guard of fix D-C13-2) stores a run of `n` codes as
`<first> <last> <dst>`, then for every offset `j < n` the destination ISO 32000-2 9.10.3
prescribes — `dst` with its last byte incremented by `j` — is defined and is exactly the UTF-16BE
form of `nextString(dst, j)`, the text `Lookup`/`All` return (texts of scalar values). -/
theorem compact_bfrange_agrees (init : Text) (r n j : Nat) (hr : IsScalar r) (hj : j < n)
    (hg : tuLastByteOverflows (init ++ [r]) n = false) :
    compactDst (encode (init ++ [r])) n j = some (encode (nextString (init ++ [r]) j)) := by
  -- the guard: low byte of the last unit + (n-1) ≤ 255
  obtain ⟨u, hu, hlow⟩ := utf16Rune_last r hr
  have hguard : r % 256 + (n - 1) ≤ 255 := by
    unfold tuLastByteOverflows at hg
    have hl : (utf16Text (init ++ [r])).getLast? = some u := by
      simp only [utf16Text, List.flatMap_append, List.flatMap_cons, List.flatMap_nil, List.append_nil]
      rw [List.getLast?_append]
      simp [hu]
    rw [hl] at hg
    simp only [decide_eq_false_iff_not, Nat.not_lt] at hg
    omega
  obtain ⟨hs', pre, e1, e2⟩ := encodeScalar_add r j hr (by omega)
  -- nextString increments the last rune
  have hnext : nextString (init ++ [r]) j = init ++ [r + j] := by
    have hb : ∀ (l : Text), bumpLast j (l ++ [r]) = l ++ [runeToText (wrapInt32 ((r : Int) + wrapInt32 (j : Int)))] := by
      intro l
      induction l with
      | nil => simp [bumpLast]
      | cons a l ih =>
        cases hl : l ++ [r] with
        | nil => simp at hl
        | cons b t => simp only [List.cons_append, hl, bumpLast]; rw [← hl, ih]
    simp only [nextString, hb]
    suffices hh : runeToText (wrapInt32 ((r : Int) + wrapInt32 (j : Int))) = r + j by rw [hh]
    obtain ⟨h1, h2⟩ := hs'
    have hjw : wrapInt32 (j : Int) = j := by unfold wrapInt32; omega
    have hrw : wrapInt32 ((r : Int) + j) = r + j := by unfold wrapInt32; omega
    rw [hjw, hrw]
    unfold runeToText
    have : ¬ (((r : Int) + j < 0 || (r : Int) + j > 0x10FFFF || (0xD800 ≤ (r : Int) + j && (r : Int) + j ≤ 0xDFFF)) = true) := by
      simp only [Bool.or_eq_true, decide_eq_true_eq, Bool.and_eq_true, not_or, not_and]
      omega
    rw [if_neg this]
    exact Int.toNat_natCast (r + j)
  rw [hnext]
  simp only [encode, List.flatMap_append, List.flatMap_cons, List.flatMap_nil, List.append_nil, e1, e2]
  unfold compactDst
  simp only [List.reverse_append, List.reverse_cons, List.reverse_nil, List.nil_append, List.cons_append,
    List.singleton_append]
  simp only [show r % 256 + (n - 1) ≤ 255 from hguard, if_true, List.reverse_append, List.reverse_reverse,
    List.append_assoc]

/-! ## `GetMapping` uses the code space of the whole chain -/

/-- the code space `GetMapping` decodes with is the union of the code spaces of all levels -/
theorem isCodeOf_tuChain (chain : TUChain) (bs : Bytes) :
    C12ccf.IsCodeOf (tuChainCodeSpace chain) bs ↔ ∃ g ∈ chain, C12ccf.IsCodeOf g.csr bs := by
  simp only [C12ccf.IsCodeOf, tuChainCodeSpace, List.mem_flatMap]
  constructor
  · rintro ⟨r, ⟨g, hg, hr⟩, hc⟩; exact ⟨g, hg, r, hr, hc⟩
  · rintro ⟨g, hg, r, hr, hc⟩; exact ⟨r, ⟨g, hg, hr⟩, hc⟩

/-- non-vacuity / the witnesses of the audit: 101 code space ranges are written as blocks of 100
and 1; U+00FF,U+0100,U+0101 is not stored in the single-destination form any more -/
example : cmapBlockSizes 101 0 250 0 0 = [[100, 1], [], [100, 100, 50], [], []] := by decide +kernel
example : tuRunsOfGroup [] [⟨[], 0x20, [0xFF]⟩, ⟨[], 0x21, [0x100]⟩, ⟨[], 0x22, [0x101]⟩] =
    [.inr ⟨[0x20], [0x22], [[0xFF], [0x100], [0x101]]⟩] := by decide +kernel
example : tuRunsOfGroup [] [⟨[], 0x20, [0xFD]⟩, ⟨[], 0x21, [0xFE]⟩, ⟨[], 0x22, [0xFF]⟩] =
    [.inr ⟨[0x20], [0x22], [[0xFD]]⟩] := by decide +kernel

end PdfVerif.C13ccn

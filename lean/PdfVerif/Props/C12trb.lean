import PdfVerif.Props.C12tr
import PdfVerif.Model.CCCodec
/-!
# C12 (translator bridge): the CC hand model = the code GENERATED from font/charcode

`Model/CCCodec.lean` (on which `Props/C12cc*.lean` are proved) models `Range.IsValid`, `minLength`,
`canMerge` and `CodeSpaceRange.matchLen` by structural recursion over byte lists (`Nat < 256`).
Each is proved equal here to the function `tools/extract` re-creates from the Go source on every run
(`Gen.charcode_*`), on the domain on which the Go function does not panic.
-/
namespace PdfVerif.C12trb
open PdfVerif PdfVerif.Gen PdfVerif.Go PdfVerif.C12tr

/-- bytes of the generated code (`UInt8`) as bytes of the hand models (`Nat`) -/
def nat (bs : List UInt8) : Bytes := bs.map (·.toNat)
@[simp] theorem nat_length (bs : List UInt8) : (nat bs).length = bs.length := by simp [nat]
@[simp] theorem nat_nil : nat [] = [] := rfl
@[simp] theorem nat_cons (a : UInt8) (as : List UInt8) : nat (a :: as) = a.toNat :: nat as := rfl

/-- the hand-model range of a generated range -/
def mr (r : charcode_Range) : CC.Range := ⟨nat r.Low, nat r.High⟩

theorem forall_lt_succ (n : Nat) (Q : Nat → Prop) : (∀ k, k < n + 1 → Q k) ↔ Q 0 ∧ ∀ k, k < n → Q (k + 1) := by
  constructor
  · intro h; exact ⟨h 0 (by omega), fun k hk => h (k + 1) (by omega)⟩
  · rintro ⟨h0, hs⟩ k hk
    cases k with
    | zero => exact h0
    | succ k => exact hs k (by omega)

theorem leAll_iff (a b : List UInt8) (h : a.length = b.length) :
    CC.leAll (nat a) (nat b) = true ↔ ∀ k, k < a.length → a.getD k 0 ≤ b.getD k 0 := by
  induction a generalizing b with
  | nil => cases b with
    | nil => simp [CC.leAll]
    | cons _ _ => simp at h
  | cons x xs ih =>
    cases b with
    | nil => simp at h
    | cons y ys =>
      simp only [List.length_cons, Nat.add_right_cancel_iff] at h
      simp only [nat_cons, CC.leAll, Bool.and_eq_true, Bool.not_eq_true', decide_eq_false_iff_not, List.length_cons]
      rw [forall_lt_succ, ih ys h]
      simp only [List.getD_cons_zero, List.getD_cons_succ]
      have e : (¬ x.toNat > y.toNat) ↔ x ≤ y := by rw [UInt8.le_iff_toNat_le]; omega
      rw [e]

/-- **bridge**: hand model `Range.isValid` = generated `Range.IsValid` (every pair of byte strings) -/
theorem isValid_bridge (r : charcode_Range) :
    charcode_Range_IsValid r = some (CC.Range.isValid (mr r)) := by
  rw [isValid_spec]
  congr 1
  unfold CC.Range.isValid mr
  simp only [nat_length]
  by_cases h : r.Low.length = r.High.length ∧ 1 ≤ r.Low.length ∧ r.Low.length ≤ 4
  · have c : (r.Low.length != r.High.length || r.Low.length == 0 || decide (r.Low.length > 4)) = false := by
      generalize r.Low.length = n at h ⊢
      generalize r.High.length = m at h ⊢
      simp only [Bool.or_eq_false_iff, bne_eq_false_iff_eq, beq_eq_false_iff_ne, ne_eq, decide_eq_false_iff_not]
      omega
    simp only [c, Bool.false_eq_true, if_false]
    by_cases hv : RangeValid r
    · simp only [hv, decide_true]
      exact ((leAll_iff _ _ h.1).mpr hv.2.2.2).symm
    · simp only [hv, decide_false]
      cases hl : CC.leAll (nat r.Low) (nat r.High)
      · rfl
      · exact absurd ⟨h.1, h.2.1, h.2.2, (leAll_iff _ _ h.1).mp hl⟩ hv
  · have c : (r.Low.length != r.High.length || r.Low.length == 0 || decide (r.Low.length > 4)) = true := by
      generalize r.Low.length = n at h ⊢
      generalize r.High.length = m at h ⊢
      simp only [Bool.or_eq_true, bne_iff_ne, ne_eq, beq_iff_eq, decide_eq_true_eq]; omega
    have hv : ¬ RangeValid r := fun hv => h ⟨hv.1, hv.2.1, hv.2.2.1⟩
    simp [c, hv]

/-- **bridge**: hand model `minLength` = generated `minLength` (every code space range) -/
theorem minLength_bridge (csr : List charcode_Range) (hl : csr.length < 9223372036854775808) :
    charcode_minLength csr = some ((CC.minLength (csr.map mr) : Nat) : Int) := by
  rw [minLength_spec csr hl]
  congr 1
  cases csr with
  | nil => rfl
  | cons r rs =>
    simp only [List.map_cons, CC.minLength]
    have key : ∀ (l : List charcode_Range) (m : Nat),
        l.foldl (fun m q => min m (len q.Low)) (m : Int) =
        (((l.map mr).foldl (fun m r => if r.low.length < m then r.low.length else m) m : Nat) : Int) := by
      intro l
      induction l with
      | nil => intro m; rfl
      | cons q qs ih =>
        intro m
        simp only [List.foldl_cons, List.map_cons]
        have e : min (m : Int) (len q.Low) = ((if (mr q).low.length < m then (mr q).low.length else m : Nat) : Int) := by
          simp only [mr, nat_length, len]
          split <;> omega
        rw [e]
        exact ih _
    have := key rs r.Low.length
    simpa [mr, len] using this

theorem rangeMatches_iff (lo hi s : List UInt8) (h1 : lo.length ≤ hi.length) (h2 : lo.length ≤ s.length) :
    CC.rangeMatches (nat lo) (nat hi) (nat s) = true ↔
      ∀ k, k < lo.length → lo.getD k 0 ≤ s.getD k 0 ∧ s.getD k 0 ≤ hi.getD k 0 := by
  induction lo generalizing hi s with
  | nil => simp [CC.rangeMatches]
  | cons x xs ih =>
    cases hi with
    | nil => simp at h1
    | cons y ys =>
      cases s with
      | nil => simp at h2
      | cons b bs =>
        simp only [List.length_cons] at h1 h2
        simp only [nat_cons, CC.rangeMatches, List.length_cons]
        rw [forall_lt_succ]
        simp only [List.getD_cons_zero, List.getD_cons_succ]
        have e : (decide (b.toNat < x.toNat) || decide (b.toNat > y.toNat)) = false ↔ (x ≤ b ∧ b ≤ y) := by
          rw [UInt8.le_iff_toNat_le, UInt8.le_iff_toNat_le]
          simp only [Bool.or_eq_false_iff, decide_eq_false_iff_not]
          omega
        by_cases hb : x ≤ b ∧ b ≤ y
        · have := e.mpr hb
          simp only [this, Bool.false_eq_true, if_false]
          rw [ih ys bs (by omega) (by omega)]
          exact ⟨fun h => ⟨hb, h⟩, fun h => h.2⟩
        · have : (decide (b.toNat < x.toNat) || decide (b.toNat > y.toNat)) = true := by
            cases hh : (decide (b.toNat < x.toNat) || decide (b.toNat > y.toNat))
            · exact absurd (e.mp hh) hb
            · rfl
          simp only [this, if_true]
          constructor
          · intro h; cases h
          · intro h; exact absurd h.1 hb

/-- **bridge**: hand model `matchLen` = generated `matchLen` (ranges with `len High ≥ len Low`) -/
theorem matchLen_bridge (csr : List charcode_Range) (s : List UInt8)
    (hv : ∀ r ∈ csr, r.Low.length ≤ r.High.length) :
    charcode_CodeSpaceRange_matchLen csr s = some ((CC.matchLen (csr.map mr) (nat s) : Nat) : Int) := by
  rw [matchLen_spec csr s hv]
  congr 1
  induction csr with
  | nil => rfl
  | cons r rs ih =>
    have hr := hv r (by simp)
    have ih' := ih (fun q hq => hv q (by simp [hq]))
    simp only [List.map_cons, CC.matchLen, List.find?_cons, mr, nat_length]
    by_cases hlen : s.length < r.Low.length
    · have hn : ¬ prefixInBox r s := fun hp => by have := hp.1; omega
      simp only [hlen, if_true, hn, decide_false]
      exact ih'
    · simp only [hlen, if_false]
      by_cases hp : prefixInBox r s
      · have := (rangeMatches_iff r.Low r.High s hr (by omega)).mpr hp.2
        simp [hp, this, len]
      · have : CC.rangeMatches (nat r.Low) (nat r.High) (nat s) = false := by
          cases hm : CC.rangeMatches (nat r.Low) (nat r.High) (nat s)
          · rfl
          · exact absurd ⟨by omega, (rangeMatches_iff r.Low r.High s hr (by omega)).mp hm⟩ hp
        simp only [hp, decide_false, this, Bool.false_eq_true, if_false]
        exact ih'

theorem differs_cons (a b c d : UInt8) (rl rh sl sh : List UInt8) (k : Nat) :
    differs ⟨a :: rl, b :: rh⟩ ⟨c :: sl, d :: sh⟩ (k + 1) = differs ⟨rl, rh⟩ ⟨sl, sh⟩ k := by
  simp [differs]
theorem adjacent_cons (a b c d : UInt8) (rl rh sl sh : List UInt8) (k : Nat) :
    adjacent ⟨a :: rl, b :: rh⟩ ⟨c :: sl, d :: sh⟩ (k + 1) = adjacent ⟨rl, rh⟩ ⟨sl, sh⟩ k := by
  simp [adjacent]

theorem mergeScan_shift (a b c d : UInt8) (rl rh sl sh : List UInt8) (ks : List Nat) (seen : Bool) :
    mergeScan ⟨a :: rl, b :: rh⟩ ⟨c :: sl, d :: sh⟩ (ks.map (· + 1)) seen = mergeScan ⟨rl, rh⟩ ⟨sl, sh⟩ ks seen := by
  induction ks generalizing seen with
  | nil => rfl
  | cons k ks ih =>
    simp only [List.map_cons, mergeScan, differs_cons, adjacent_cons, ih]

theorem canMergeLoop_eq (rl rh sl sh : List UInt8) (n : Nat)
    (h1 : rl.length = n) (h2 : rh.length = n) (h3 : sl.length = n) (h4 : sh.length = n) (numAdj : Nat) :
    CC.canMergeLoop (nat rl) (nat rh) (nat sl) (nat sh) numAdj =
      mergeScan ⟨rl, rh⟩ ⟨sl, sh⟩ (List.range n) (decide (numAdj > 0)) := by
  induction n generalizing rl rh sl sh numAdj with
  | zero =>
    have : rl = [] := List.length_eq_zero_iff.mp h1
    subst this
    simp [CC.canMergeLoop, mergeScan]
  | succ n ih =>
    match rl, rh, sl, sh, h1, h2, h3, h4 with
    | a :: rl, b :: rh, c :: sl, d :: sh, h1, h2, h3, h4 =>
      simp only [List.length_cons, Nat.add_right_cancel_iff] at h1 h2 h3 h4
      rw [List.range_succ_eq_map]
      simp only [nat_cons, CC.canMergeLoop, mergeScan]
      have hm := mergeScan_shift a b c d rl rh sl sh (List.range n)
      have hmap : List.map Nat.succ (List.range n) = List.map (· + 1) (List.range n) := rfl
      rw [hmap, hm, hm]
      have hd : differs ⟨a :: rl, b :: rh⟩ ⟨c :: sl, d :: sh⟩ 0 = !(a.toNat == c.toNat && b.toNat == d.toNat) := by
        simp only [differs, List.getD_cons_zero]
        congr 1
        rw [Bool.eq_iff_iff]
        simp [UInt8.toNat_inj]
      have ha : adjacent ⟨a :: rl, b :: rh⟩ ⟨c :: sl, d :: sh⟩ 0 = (b.toNat + 1 == c.toNat) := by
        simp only [adjacent, List.getD_cons_zero]
        rw [Bool.eq_iff_iff]
        simp only [decide_eq_true_eq, beq_iff_eq]
        omega
      rw [hd, ha]
      cases hcd : (a.toNat == c.toNat && b.toNat == d.toNat)
      · simp only [Bool.false_eq_true, if_false, Bool.not_false, Bool.not_true]
        cases hadj : (b.toNat + 1 == c.toNat)
        · simp
        · by_cases hn : numAdj > 0
          · simp [hn]
          · simp only [Bool.not_true, Bool.false_or, hn, if_false, decide_false, Bool.false_eq_true]
            rw [ih rl rh sl sh h1 h2 h3 h4 (numAdj + 1)]
            simp
      · simp only [if_true, Bool.not_true]
        exact ih rl rh sl sh h1 h2 h3 h4 numAdj

/-- **bridge**: hand model `canMerge` = generated `canMerge` whenever the four bound strings have the
same length (the Go function panics on shorter `High`; the hand model does not model that) -/
theorem canMerge_bridge (r s : charcode_Range) (hl : r.Low.length < 4611686018427387904)
    (h2 : r.High.length = r.Low.length) (h3 : s.Low.length = r.Low.length) (h4 : s.High.length = r.Low.length) :
    charcode_canMerge r s = some (CC.canMerge (mr r) (mr s)) := by
  rw [canMerge_eq r s hl h2 h3 h4]
  congr 1
  unfold CC.canMerge mr
  simp only [nat_length]
  have c : (r.Low.length != s.Low.length) = false := by simp [h3]
  simp only [c, Bool.false_eq_true, if_false]
  rw [canMergeLoop_eq r.Low r.High s.Low s.High r.Low.length rfl h2 h3 h4 0]
  rfl

end PdfVerif.C12trb

import PdfVerif.Props.C13cci
/-!
# C13 (part 10) — enumeration across parent chains agrees with lookup
-/
namespace PdfVerif.C13ccj
open PdfVerif PdfVerif.CC PdfVerif.C13cc PdfVerif.C13ccb PdfVerif.C13ccc PdfVerif.C13ccd PdfVerif.C13ccf PdfVerif.C13cch PdfVerif.C13cci

/-! ## enumeration across parent chains -/

/-- some entry of the file covers `(bytes, v)` by the rule the lookup applies to it -/
def FileCovers (g : CMapFile) (bytes : Bytes) (v : Nat) : Prop :=
  (∃ r ∈ g.ranges, ∃ i, rangeIsValid r.first r.last = true ∧ rangeIndex r.first r.last bytes = some i ∧
      v = u32 (r.value + i)) ∨
  (∃ s ∈ g.singles, s.code = bytes ∧ s.value = v)

def fileDemand (g : CMapFile) : Nat := rangesDemand g.ranges + g.singles.length

def filesDemand : List CMapFile → Nat
  | [] => 0
  | g :: rest => fileDemand g + filesDemand rest

/-- the items of one file, given enough budget; and what is left of the budget -/
def fileItems (g : CMapFile) (budget : Nat) : List (Bytes × Nat) :=
  (allItemsRanges g.ranges budget).1 ++ (allItemsSingles g.singles (allItemsRanges g.ranges budget).2).1

theorem allItemsFiles_cons (g : CMapFile) (rest : List CMapFile) (budget : Nat) (hb : fileDemand g ≤ budget)
    (hb2 : budget ≤ maxInt32) :
    allItemsFiles (g :: rest) budget = fileItems g budget ++ allItemsFiles rest (budget - fileDemand g) := by
  simp only [allItemsFiles, fileItems, fileDemand] at *
  have a1 := (allItemsRanges_spec g.ranges budget (by omega) hb2).1
  have b1 := (allItemsSingles_spec g.singles (allItemsRanges g.ranges budget).2 (by rw [a1]; omega)).1
  rw [b1, a1]
  congr 2
  omega

theorem fileItems_covers (g : CMapFile) (budget : Nat) (hb : fileDemand g ≤ budget) (hb2 : budget ≤ maxInt32)
    (bytes : Bytes) (v : Nat) : (bytes, v) ∈ fileItems g budget ↔ FileCovers g bytes v := by
  have := allItems_covers g budget hb hb2 bytes v
  simpa [allItemsFiles, fileItems, FileCovers] using this

theorem allItemsFiles_append : ∀ (xs ys : List CMapFile) (budget : Nat), filesDemand xs ≤ budget → budget ≤ maxInt32 →
    allItemsFiles (xs ++ ys) budget = allItemsFiles xs budget ++ allItemsFiles ys (budget - filesDemand xs) := by
  intro xs
  induction xs with
  | nil => intro ys budget _ _; simp [allItemsFiles, filesDemand]
  | cons g xs ih =>
    intro ys budget hb hb2
    simp only [filesDemand] at hb
    rw [List.cons_append, allItemsFiles_cons g (xs ++ ys) budget (by omega) hb2,
      allItemsFiles_cons g xs budget (by omega) hb2, ih ys _ (by omega) (by omega)]
    simp only [List.append_assoc, filesDemand]
    congr 3
    omega

/-- the value a consumer that collects the enumeration into a map (later items win) ends up with -/
def lastValue (items : List (Bytes × Nat)) (bytes : Bytes) : Option Nat :=
  (items.reverse.find? fun it => it.1 == bytes).map Prod.snd

theorem lastValue_append (a b : List (Bytes × Nat)) (bytes : Bytes) :
    lastValue (a ++ b) bytes = match lastValue b bytes with
      | some v => some v
      | none => lastValue a bytes := by
  simp only [lastValue, List.reverse_append, List.find?_append]
  cases h : List.find? (fun it => it.1 == bytes) b.reverse with
  | some x => simp
  | none => simp

theorem lastValue_some (items : List (Bytes × Nat)) (bytes : Bytes) (v : Nat) (h : lastValue items bytes = some v) :
    (bytes, v) ∈ items := by
  simp only [lastValue, Option.map_eq_some_iff] at h
  obtain ⟨⟨b, w⟩, hf, rfl⟩ := h
  have h1 := List.mem_of_find?_eq_some hf
  have h2 := List.find?_some hf
  simp only [beq_iff_eq] at h2
  subst h2
  simpa using h1

theorem lastValue_none (items : List (Bytes × Nat)) (bytes : Bytes) (h : lastValue items bytes = none) :
    ∀ v, (bytes, v) ∉ items := by
  intro v hv
  simp only [lastValue, Option.map_eq_none_iff, List.find?_eq_none, List.mem_reverse] at h
  have := h (bytes, v) hv
  simp at this

/-- what `ownLookup` finds is covered, and a covered code is found (for non-empty codes) -/
theorem ownLookup_covers (g : CMapFile) (bytes : Bytes) (hne : bytes ≠ []) :
    (∀ v, ownLookup g bytes = some v → FileCovers g bytes v) ∧
    (ownLookup g bytes = none → ∀ v, ¬ FileCovers g bytes v) := by
  constructor
  · intro v h
    simp only [ownLookup] at h
    cases h1 : findSingle bytes g.singles with
    | some w =>
      rw [h1] at h; injection h with h; subst h
      obtain ⟨s, hs, e1, e2⟩ := findSingle_some bytes _ w h1
      exact .inr ⟨s, hs, e1, e2⟩
    | none =>
      rw [h1] at h
      obtain ⟨r, hr, i, e1, e2⟩ := findRange_some bytes _ v h
      exact .inl ⟨r, hr, i, rangeIsValid_of_rangeIndex _ _ bytes i hne e1, e1, e2⟩
  · intro h v hc
    simp only [ownLookup] at h
    cases h1 : findSingle bytes g.singles with
    | some w => rw [h1] at h; cases h
    | none =>
      rw [h1] at h
      rcases hc with ⟨r, hr, i, _, e1, _⟩ | ⟨s, hs, e1, _⟩
      · have := findRange_none bytes _ h r hr
        rw [this] at e1; cases e1
      · exact findSingle_none bytes _ h1 s hs e1

/-- the entries of one file do not contradict each other -/
def Functional (g : CMapFile) : Prop := ∀ bytes v v', FileCovers g bytes v → FileCovers g bytes v' → v = v'

theorem lastValue_fileItems (g : CMapFile) (budget : Nat) (hb : fileDemand g ≤ budget) (hb2 : budget ≤ maxInt32)
    (hf : Functional g) (bytes : Bytes) (hne : bytes ≠ []) :
    lastValue (fileItems g budget) bytes = ownLookup g bytes := by
  obtain ⟨c1, c2⟩ := ownLookup_covers g bytes hne
  cases hl : lastValue (fileItems g budget) bytes with
  | some v =>
    have hc := (fileItems_covers g budget hb hb2 bytes v).mp (lastValue_some _ _ _ hl)
    cases ho : ownLookup g bytes with
    | some w => rw [hf bytes v w hc (c1 w ho)]
    | none => exact absurd hc (c2 ho v)
  | none =>
    cases ho : ownLookup g bytes with
    | some w =>
      have := (fileItems_covers g budget hb hb2 bytes w).mpr (c1 w ho)
      exact absurd this (lastValue_none _ _ hl w)
    | none => rfl

/-- **Enumeration across a parent chain agrees with lookup.**  `File.All` enumerates the files of
the chain root first; a consumer that collects the items into a map (later items replace earlier
ones, as `maps.Collect` does) ends up, for every non-empty code, with exactly the value
`LookupCID` finds among the mapped entries of the chain (child entries shadow the parents') —
provided the entries within each file do not contradict each other and the enumeration budget is
not exhausted. -/
theorem all_chain_lookup : ∀ (chain : Chain) (budget : Nat), filesDemand chain.reverse ≤ budget → budget ≤ maxInt32 →
    (∀ g ∈ chain, Functional g) → ∀ bytes, bytes ≠ [] →
    lastValue (allItemsFiles chain.reverse budget) bytes = lookupMapped chain bytes := by
  intro chain
  induction chain with
  | nil => intro budget _ _ _ bytes _; simp [allItemsFiles, lastValue, lookupMapped]
  | cons f parents ih =>
    intro budget hb hb2 hfun bytes hne
    have hdem : ∀ (xs ys : List CMapFile), filesDemand (xs ++ ys) = filesDemand xs + filesDemand ys := by
      intro xs ys
      induction xs with
      | nil => simp [filesDemand]
      | cons x xs ihx => simp only [List.cons_append, filesDemand, ihx]; omega
    simp only [List.reverse_cons] at hb ⊢
    rw [hdem] at hb
    simp only [filesDemand, Nat.add_zero] at hb
    rw [allItemsFiles_append parents.reverse [f] budget (by omega) hb2]
    rw [allItemsFiles_cons f [] _ (by omega) (by omega)]
    simp only [allItemsFiles, List.append_nil]
    rw [lastValue_append, lastValue_fileItems f _ (by omega) (by omega) (hfun f (by simp)) bytes hne,
      lookupMapped_cons, ih budget (by omega) hb2 (fun g hg => hfun g (by simp [hg])) bytes hne]
    cases ownLookup f bytes <;> rfl


/-- the file built by `SetMapping` is functional (its entries never overlap with different values),
so `all_chain_lookup` applies to every chain of files built by `SetMapping` -/
theorem setMapping_functional (f f' : CMapFile) (parents : Chain) (codec : Codec) (data : List (Nat × Nat))
    (h : setMapping f parents codec data = .ok f')
    (hcid : ∀ p ∈ data, p.2 < 4294967296)
    (hbytes : ∀ p ∈ data, ∀ bs, codec.appendCode p.1 = .ok bs → AllBytes bs)
    (hfun : ∀ p ∈ data, ∀ q ∈ data, codec.appendCode p.1 = codec.appendCode q.1 → p.2 = q.2) :
    Functional f' := by
  unfold setMapping at h
  split at h
  · cases h
  · split at h
    · cases h
    · rename_i es hes
      injection h with h
      obtain ⟨i1, _⟩ := C13cce.cidEntries_spec_parents codec parents data es hes
      have hok : EntriesOK es := by
        intro e he
        obtain ⟨p, hp, h1, h2⟩ := i1 e he
        exact ⟨hbytes p hp _ h1 e.x (by simp), by rw [h2]; exact hcid p hp⟩
      have hs : f'.singles = lefts (outOf es) := by rw [← h]; rfl
      have hr : f'.ranges = rights (outOf es) := by rw [← h]; rfl
      have hsound : ∀ bytes v, FileCovers f' bytes v → ∃ e ∈ es, bytes = e.key ++ [e.x] ∧ v = e.val := by
        intro bytes v hc
        rcases hc with ⟨r, hr', i, _, e1, e2⟩ | ⟨s, hs', e1, e2⟩
        · rw [hr, mem_rights] at hr'
          exact out_sound es hok _ hr' bytes v ⟨i, e1, e2⟩
        · rw [hs, mem_lefts] at hs'
          exact out_sound es hok _ hs' bytes v ⟨e1, e2⟩
      intro bytes v v' c1 c2
      obtain ⟨e, he, b1, rfl⟩ := hsound bytes v c1
      obtain ⟨e', he', b2, rfl⟩ := hsound bytes v' c2
      obtain ⟨p, hp, p1, p2⟩ := i1 e he
      obtain ⟨q, hq, q1, q2⟩ := i1 e' he'
      rw [p2, q2]
      exact hfun p hp q hq (by rw [p1, q1, ← b1, ← b2])

end PdfVerif.C13ccj

import PdfVerif.Model.CNTBuf
/-!
# C15 (and C05) — the 512-byte buffer of the content scanner refines the whole-input model

`Model/CNTBuf.lean` models `scanner.{buf, pos, used, err}`, `refill` (one `Read` per call) and
the leaf operations on top of it for fault-free readers with *arbitrary chunking* (any sequence
of chunk sizes ≥ 1, `io.EOF` together with the last chunk or on its own).  With
`view s = buf[pos:] ++ unread` this file proves, for every chunking:

* `refill_spec` — `refill` keeps the invariant and `view`, reports an error only at the end of
  the data, and otherwise makes at least one more byte available unless the window is full;
* `peek_spec`, `readByte_spec`, `skipN_spec` — `Peek`/`ReadByte`/`SkipN` are head/tail/drop of
  `view`; `Peek` needs at most one refill;
* `peekN_spec` — `PeekN(n)` returns `view.take n`: the loop refills until the window is long
  enough (this is exactly what a peek that does not refill at the edge of the window gets wrong —
  the seeded defect of round 2);
* `skipWhiteSpace_spec` — `SkipWhiteSpace`/`SkipToEOL` compute the model's `skipWS`;
* `tryHex_spec` — the 3-byte peek of `ReadName`; `checkEIB_spec`, `iiLoopB_spec` — `checkEI` and
  the `EI` search of `readInlineImage` equal `checkEI`/`iiLoop` of `Model/CNTScan.lean`.

No loop runs out of fuel (`hang` is never produced): the refinement statements give the exact
results.
-/
namespace PdfVerif.C15cntu
open PdfVerif PdfVerif.CNT PdfVerif.CNTB

/-- invariant of the buffered scanner on a fault-free reader -/
structure Inv (s : BS) : Prop where
  pos_le : s.pos ≤ s.buf.length
  size : s.buf.length ≤ bufSize
  eof_rem : s.eof = true → s.rem = []

/-- bytes available in the window -/
def avail (s : BS) : Nat := s.buf.length - s.pos

theorem inv_init (data : Bytes) : Inv (BS.init data) := by
  constructor <;> simp [BS.init, bufSize]

theorem view_init (data : Bytes) : view (BS.init data) = data := by
  simp [view, BS.init]

theorem refill_eof (ch : Chunking) (s : BS) (he : s.eof = true) : refill ch s = (s, true) := by
  simp [refill, he]

theorem refill_empty (ch : Chunking) (s : BS) (he : s.eof = false) (hr : s.rem = []) :
    refill ch s = ({ buf := s.buf.drop s.pos, pos := 0, rem := [], calls := s.calls + 1, eof := true }, true) := by
  simp [refill, he, srcRead, hr]

/-- number of bytes one `Read` delivers into a window with `want` free bytes -/
def chunkLen (ch : Chunking) (calls want : Nat) : Nat := min (max 1 (ch.chunk calls)) want

theorem chunkLen_pos (ch : Chunking) (calls want : Nat) (h : 0 < want) : 1 ≤ chunkLen ch calls want := by
  have : 1 ≤ max 1 (ch.chunk calls) := Nat.le_max_left _ _
  simp only [chunkLen]; omega

theorem chunkLen_le (ch : Chunking) (calls want : Nat) : chunkLen ch calls want ≤ want := by
  simp only [chunkLen]; omega

theorem refill_data (ch : Chunking) (s : BS) (he : s.eof = false) (hr : s.rem ≠ [])
    (hw : 0 < bufSize - (s.buf.length - s.pos)) :
    refill ch s =
      ({ buf := s.buf.drop s.pos ++ s.rem.take (chunkLen ch s.calls (bufSize - (s.buf.length - s.pos))),
         pos := 0, rem := s.rem.drop (chunkLen ch s.calls (bufSize - (s.buf.length - s.pos))),
         calls := s.calls + 1,
         eof := ch.eofWithData && (s.rem.drop (chunkLen ch s.calls (bufSize - (s.buf.length - s.pos)))).isEmpty },
       false) := by
  have hr' : s.rem.isEmpty = false := by cases hs : s.rem with | nil => exact absurd hs hr | cons a t => rfl
  have hw' : ¬ (bufSize - (s.buf.length - s.pos) = 0) := by omega
  have hlen : 1 ≤ s.rem.length := by cases hs : s.rem with | nil => exact absurd hs hr | cons a t => simp
  have hn := chunkLen_pos ch s.calls _ hw
  have hemp : (s.rem.take (chunkLen ch s.calls (bufSize - (s.buf.length - s.pos)))).isEmpty = false := by
    cases ht : s.rem.take (chunkLen ch s.calls (bufSize - (s.buf.length - s.pos))) with
    | nil =>
      have : (s.rem.take (chunkLen ch s.calls (bufSize - (s.buf.length - s.pos)))).length = 0 := by rw [ht]; rfl
      simp only [List.length_take] at this
      omega
    | cons a t => rfl
  simp only [chunkLen] at hemp ⊢
  simp only [refill, he, Bool.false_eq_true, if_false, srcRead, hr', List.length_drop, hw', hemp,
    Bool.false_and]

theorem refill_full (ch : Chunking) (s : BS) (he : s.eof = false) (hr : s.rem ≠ [])
    (hw : bufSize - (s.buf.length - s.pos) = 0) :
    refill ch s = ({ buf := s.buf.drop s.pos, pos := 0, rem := s.rem, calls := s.calls + 1, eof := false }, false) := by
  have hr' : s.rem.isEmpty = false := by cases hs : s.rem with | nil => exact absurd hs hr | cons a t => rfl
  simp [refill, he, srcRead, hr', hw]

/-- **`refill`**: keeps the invariant and the remaining input; reports an error only at the end
of the data (without adding bytes); otherwise, if the window was not full, at least one byte
becomes available — for every chunking. -/
theorem refill_spec (ch : Chunking) (s : BS) (h : Inv s) :
    Inv (refill ch s).1 ∧ view (refill ch s).1 = view s ∧
    ((refill ch s).2 = true → s.rem = [] ∧ avail (refill ch s).1 = avail s ∧ (refill ch s).1.rem = []) ∧
    ((refill ch s).2 = false → avail s < bufSize → avail s < avail (refill ch s).1) := by
  have hsz := h.size
  have hpl := h.pos_le
  cases he : s.eof with
  | true =>
    rw [refill_eof ch s he]
    exact ⟨h, rfl, fun _ => ⟨h.eof_rem he, rfl, h.eof_rem he⟩, by simp⟩
  | false =>
    by_cases hr : s.rem = []
    · rw [refill_empty ch s he hr]
      refine ⟨⟨by simp, by simp; omega, by simp⟩, by simp [view, hr], ?_, by simp⟩
      intro _
      exact ⟨hr, by simp [avail], rfl⟩
    · by_cases hw : 0 < bufSize - (s.buf.length - s.pos)
      · rw [refill_data ch s he hr hw]
        have hn := chunkLen_pos ch s.calls _ hw
        have hn2 := chunkLen_le ch s.calls (bufSize - (s.buf.length - s.pos))
        have hlen : 1 ≤ s.rem.length := by cases hs : s.rem with | nil => exact absurd hs hr | cons a t => simp
        refine ⟨⟨by simp, ?_, ?_⟩, by simp [view], by simp, ?_⟩
        · simp only [List.length_append, List.length_take, List.length_drop]; omega
        · simp
        · intro _ _
          simp only [avail, List.length_append, List.length_take, List.length_drop, Nat.sub_zero]
          omega
      · -- the window is full: `Read` gets an empty slice
        rw [refill_full ch s he hr (by omega)]
        refine ⟨⟨by simp, by simp; omega, by simp⟩, by simp [view], by simp, ?_⟩
        intro _ hlt
        simp only [avail] at hlt
        omega

theorem view_of_getElem (s : BS) (c : Nat) (h : s.buf[s.pos]? = some c) :
    ∃ t, view s = c :: t ∧ s.pos < s.buf.length := by
  have hlt : s.pos < s.buf.length := by
    by_cases hl : s.pos < s.buf.length
    · exact hl
    · simp [List.getElem?_eq_none (by omega : s.buf.length ≤ s.pos)] at h
  have hc : s.buf[s.pos] = c := by
    rw [List.getElem?_eq_getElem hlt] at h
    simpa using h
  refine ⟨s.buf.drop (s.pos + 1) ++ s.rem, ?_, hlt⟩
  simp only [view]
  rw [List.drop_eq_getElem_cons hlt, hc]
  simp

/-- the head of the remaining input -/
def headRes (l : Bytes) : PeekRes :=
  match l with
  | [] => .eof
  | c :: _ => .byte c

/-- **`Peek`** refines "look at the head of the remaining input", whatever the chunking, and
never hangs (two iterations suffice: at most one refill is needed). -/
theorem peek_spec (ch : Chunking) : ∀ (fuel : Nat) (s : BS), Inv s → 2 ≤ fuel →
    Inv (peek ch fuel s).1 ∧ view (peek ch fuel s).1 = view s ∧ (peek ch fuel s).2 = headRes (view s) ∧
    (∀ c, (peek ch fuel s).2 = .byte c → (peek ch fuel s).1.pos < (peek ch fuel s).1.buf.length) := by
  intro fuel s h hf
  match fuel, hf with
  | f+2, _ =>
    rw [peek]
    cases hg : s.buf[s.pos]? with
    | some c =>
      obtain ⟨t, hv, hlt⟩ := view_of_getElem s c hg
      exact ⟨h, rfl, by rw [hv]; rfl, fun _ _ => hlt⟩
    | none =>
      simp only []
      have hpos : s.buf.length ≤ s.pos := by
        by_cases hl : s.pos < s.buf.length
        · rw [List.getElem?_eq_getElem hl] at hg; simp at hg
        · omega
      have hav : avail s = 0 := by simp [avail]; omega
      obtain ⟨r1, r2, r3, r4⟩ := refill_spec ch s h
      cases herr : (refill ch s).2 with
      | true =>
        have := r3 herr
        have hv : view s = [] := by
          simp only [view, this.1, List.append_nil]
          exact List.drop_eq_nil_of_le hpos
        have e : refill ch s = ((refill ch s).1, true) := by rw [← herr]
        rw [e]
        simp only [if_true]
        exact ⟨r1, r2, by rw [hv]; rfl, by intro c hc; simp at hc⟩
      | false =>
        have hgt := r4 herr (by rw [hav]; decide)
        have e : refill ch s = ((refill ch s).1, false) := by rw [← herr]
        rw [e]
        simp only [Bool.false_eq_true, if_false]
        -- now a byte is available
        generalize (refill ch s).1 = s1 at r1 r2 hgt
        have hlt : s1.pos < s1.buf.length := by simp only [avail] at hgt; omega
        rw [peek]
        have hg1 : s1.buf[s1.pos]? = some s1.buf[s1.pos] := List.getElem?_eq_getElem hlt
        rw [hg1]
        simp only []
        obtain ⟨t, hv, _⟩ := view_of_getElem s1 _ hg1
        exact ⟨r1, r2, by rw [← r2, hv]; rfl, fun _ _ => hlt⟩

/-- **`ReadByte`** consumes exactly the head of the remaining input. -/
theorem readByte_spec (ch : Chunking) (s : BS) (h : Inv s) :
    Inv (readByte ch s).1 ∧ (readByte ch s).2 = headRes (view s) ∧ view (readByte ch s).1 = (view s).tail := by
  obtain ⟨p1, p2, p3, p4⟩ := peek_spec ch 2 s h (Nat.le_refl _)
  unfold readByte
  cases hv : view s with
  | nil =>
    rw [hv] at p3
    simp only [headRes] at p3
    cases hp : peek ch 2 s with
    | mk s' r =>
      rw [hp] at p1 p2 p3
      simp only [] at p3
      subst p3
      simp only []
      exact ⟨p1, rfl, by rw [p2, hv]; rfl⟩
  | cons c t =>
    rw [hv] at p3
    simp only [headRes] at p3
    cases hp : peek ch 2 s with
    | mk s' r =>
      rw [hp] at p1 p2 p3 p4
      simp only [] at p1 p2 p3 p4
      subst p3
      have hlt := p4 c rfl
      simp only []
      refine ⟨⟨by simp; omega, p1.size, p1.eof_rem⟩, rfl, ?_⟩
      have : view s' = c :: t := by rw [p2, hv]
      have hd : s'.buf.drop s'.pos = s'.buf[s'.pos] :: s'.buf.drop (s'.pos + 1) := List.drop_eq_getElem_cons hlt
      simp only [view] at this ⊢
      rw [hd] at this
      simp only [List.cons_append, List.cons.injEq] at this
      simp [this.2]

theorem skipN_spec (ch : Chunking) : ∀ (n : Nat) (s : BS), Inv s →
    Inv (skipN ch n s) ∧ view (skipN ch n s) = (view s).drop n := by
  intro n
  induction n with
  | zero => intro s h; exact ⟨h, by simp [skipN]⟩
  | succ n ih =>
    intro s h
    obtain ⟨r1, _, r3⟩ := readByte_spec ch s h
    obtain ⟨i1, i2⟩ := ih (readByte ch s).1 r1
    rw [skipN]
    refine ⟨i1, ?_⟩
    rw [i2, r3]
    cases view s <;> simp

/-- **`PeekN(n)`** returns the first `n` bytes of the remaining input (fewer only at its end), for
every chunking — the loop refills until the window is long enough; `n + 1` iterations suffice
even if the reader delivers one byte at a time. -/
theorem peekN_spec (ch : Chunking) (n : Nat) (hn : n ≤ bufSize) : ∀ (fuel : Nat) (s : BS), Inv s →
    1 ≤ fuel → n + 1 ≤ fuel + avail s →
    Inv (peekN ch n fuel s).1 ∧ view (peekN ch n fuel s).1 = view s ∧
    (peekN ch n fuel s).2 = some ((view s).take n) := by
  intro fuel
  induction fuel with
  | zero => intro s _ h1; omega
  | succ f ih =>
    intro s h _ hf
    rw [peekN]
    by_cases hneed : s.pos + n > s.buf.length
    · simp only [hneed, if_true]
      have hav : avail s < n := by have := h.pos_le; simp only [avail]; omega
      obtain ⟨r1, r2, r3, r4⟩ := refill_spec ch s h
      cases herr : (refill ch s).2 with
      | true =>
        have e : refill ch s = ((refill ch s).1, true) := by rw [← herr]
        rw [e]
        simp only [if_true]
        obtain ⟨_, _, hrem⟩ := r3 herr
        refine ⟨r1, r2, ?_⟩
        rw [← r2]
        simp [view, hrem]
      | false =>
        have e : refill ch s = ((refill ch s).1, false) := by rw [← herr]
        rw [e]
        simp only [Bool.false_eq_true, if_false]
        have hgt := r4 herr (by omega)
        have hf1 : 1 ≤ f := by omega
        obtain ⟨i1, i2, i3⟩ := ih (refill ch s).1 r1 hf1 (by omega)
        exact ⟨i1, by rw [i2, r2], by rw [i3, r2]⟩
    · simp only [hneed, if_false]
      refine ⟨h, by simp, ?_⟩
      have : n ≤ (s.buf.drop s.pos).length := by simp; omega
      simp only [view]
      rw [List.take_append_of_le_length this]

/-! ## `SkipToEOL` and `SkipWhiteSpace` -/

/-- the input from the next CR or LF on -/
def toEOL : Bytes → Bytes
  | [] => []
  | c :: cs => if c == 10 || c == 13 then c :: cs else toEOL cs

theorem toEOL_le (l : Bytes) : (toEOL l).length ≤ l.length := by
  induction l with
  | nil => simp [toEOL]
  | cons c cs ih => simp only [toEOL]; split <;> simp <;> omega

theorem skipCmt_toEOL (l : Bytes) : skipCmt l = CNT.skipWS (toEOL l) := by
  induction l with
  | nil => simp [skipCmt, toEOL, CNT.skipWS]
  | cons c cs ih =>
    by_cases he : (c == 10 || c == 13) = true
    · have h37 : (c == 37) = false := by
        simp at he ⊢
        rcases he with e | e <;> simp [e]
      simp [skipCmt, toEOL, he, CNT.skipWS, h37]
    · simp [skipCmt, toEOL, he, ih]

theorem peek_pair (ch : Chunking) (s : BS) (h : Inv s) :
    ∃ s', peek ch 2 s = (s', headRes (view s)) ∧ Inv s' ∧ view s' = view s := by
  obtain ⟨p1, p2, p3, _⟩ := peek_spec ch 2 s h (Nat.le_refl _)
  exact ⟨(peek ch 2 s).1, by rw [← p3], p1, p2⟩

theorem skipToEOL_spec (ch : Chunking) : ∀ (fuel : Nat) (s : BS), Inv s → (view s).length + 1 ≤ fuel →
    (skipToEOL ch fuel s).2 = false ∧ Inv (skipToEOL ch fuel s).1 ∧
    view (skipToEOL ch fuel s).1 = toEOL (view s) := by
  intro fuel
  induction fuel with
  | zero => intro s _ hf; omega
  | succ f ih =>
    intro s h hf
    obtain ⟨s', hp, hi, hv⟩ := peek_pair ch s h
    rw [skipToEOL, hp]
    cases hvs : view s with
    | nil =>
      simp only [headRes]
      exact ⟨trivial, hi, by rw [hv, hvs]; rfl⟩
    | cons b t =>
      simp only [headRes]
      by_cases he : (b == 10 || b == 13) = true
      · simp only [he, if_true]
        exact ⟨trivial, hi, by rw [hv, hvs]; simp [toEOL, he]⟩
      · simp only [he, Bool.false_eq_true, if_false]
        obtain ⟨r1, _, r3⟩ := readByte_spec ch s' hi
        have hvt : view (readByte ch s').1 = t := by rw [r3, hv, hvs]; rfl
        obtain ⟨i1, i2, i3⟩ := ih (readByte ch s').1 r1 (by rw [hvt]; rw [hvs] at hf; simp at hf; omega)
        exact ⟨i1, i2, by rw [i3, hvt]; simp [toEOL, he]⟩

/-- **`SkipWhiteSpace`** (white space and comments) computes the model's `skipWS` of the remaining
input and reports `io.EOF` exactly when nothing is left; `len + 2` iterations suffice. -/
theorem skipWhiteSpace_spec (ch : Chunking) : ∀ (fuel : Nat) (s : BS), Inv s → (view s).length + 2 ≤ fuel →
    (skipWhiteSpace ch fuel s).2 = some (CNT.skipWS (view s)).isEmpty ∧ Inv (skipWhiteSpace ch fuel s).1 ∧
    view (skipWhiteSpace ch fuel s).1 = CNT.skipWS (view s) := by
  intro fuel
  induction fuel with
  | zero => intro s _ hf; omega
  | succ f ih =>
    intro s h hf
    obtain ⟨s', hp, hi, hv⟩ := peek_pair ch s h
    rw [skipWhiteSpace, hp]
    cases hvs : view s with
    | nil =>
      simp only [headRes]
      exact ⟨by simp [CNT.skipWS], hi, by rw [hv, hvs]; simp [CNT.skipWS]⟩
    | cons b t =>
      rw [hvs] at hf
      simp only [List.length_cons] at hf
      simp only [headRes]
      by_cases hsp : cSpace b = true
      · simp only [hsp, if_true]
        obtain ⟨r1, _, r3⟩ := readByte_spec ch s' hi
        have hvt : view (readByte ch s').1 = t := by rw [r3, hv, hvs]; rfl
        obtain ⟨i1, i2, i3⟩ := ih (readByte ch s').1 r1 (by rw [hvt]; omega)
        rw [hvt] at i1 i3
        exact ⟨by rw [i1]; simp [CNT.skipWS, hsp], i2, by rw [i3]; simp [CNT.skipWS, hsp]⟩
      · simp only [hsp, Bool.false_eq_true, if_false]
        by_cases h37 : (b == 37) = true
        · simp only [h37, if_true]
          have hb : b = 37 := by simpa using h37
          obtain ⟨e1, e2, e3⟩ := skipToEOL_spec ch f s' hi (by rw [hv, hvs]; simp; omega)
          have hte : toEOL (b :: t) = toEOL t := by subst hb; simp [toEOL]
          cases hst : skipToEOL ch f s' with
          | mk s2 hang =>
            rw [hst] at e1 e2 e3
            simp only [] at e1 e2 e3
            subst e1
            simp only []
            have hlen := toEOL_le t
            obtain ⟨i1, i2, i3⟩ := ih s2 e2 (by rw [e3, hv, hvs, hte]; omega)
            rw [e3, hv, hvs, hte] at i1 i3
            have hsk : CNT.skipWS (b :: t) = CNT.skipWS (toEOL t) := by
              simp [CNT.skipWS, hsp, h37, skipCmt_toEOL]
            exact ⟨by rw [i1, hsk], i2, by rw [i3, hsk]⟩
        · simp only [h37, Bool.false_eq_true, if_false]
          have hsk : CNT.skipWS (b :: t) = b :: t := by simp [CNT.skipWS, hsp, h37]
          exact ⟨by rw [hsk]; rfl, hi, by rw [hv, hvs, hsk]⟩

/-! ## `tryHex`, `checkEI` and the inline image search -/

theorem peekN3 (ch : Chunking) (s : BS) (h : Inv s) :
    ∃ s', peekN ch 3 4 s = (s', some ((view s).take 3)) ∧ Inv s' ∧ view s' = view s := by
  obtain ⟨p1, p2, p3⟩ := peekN_spec ch 3 (by decide) 4 s h (by decide) (by omega)
  exact ⟨(peekN ch 3 4 s).1, by rw [← p3], p1, p2⟩

/-- **`tryHex`**: the 3-byte peek sees `#` and two hex digits exactly when the remaining input
has them — also when they straddle the edge of the window — and then consumes the three bytes. -/
theorem tryHex_spec (ch : Chunking) (s : BS) (h : Inv s) :
    Inv (tryHex ch s).1 ∧ (tryHex ch s).2 = hex2 (view s).tail ∧
    view (tryHex ch s).1 = (match hex2 (view s).tail with
      | some _ => (view s).drop 3
      | none => view s) := by
  obtain ⟨s', hp, hi, hv⟩ := peekN3 ch s h
  unfold tryHex
  rw [hp]
  match hvs : view s with
  | [] => simp [hex2]; exact ⟨hi, by rw [hv, hvs]⟩
  | [a] => simp [hex2]; exact ⟨hi, by rw [hv, hvs]⟩
  | [a, b] => simp [hex2]; exact ⟨hi, by rw [hv, hvs]⟩
  | a :: hh :: l :: t =>
    simp only [List.take, List.tail_cons, hex2]
    cases h1 : hexVal hh with
    | none => simp only []; exact ⟨hi, trivial, by rw [hv, hvs]⟩
    | some x =>
      cases h2 : hexVal l with
      | none => simp only []; exact ⟨hi, trivial, by rw [hv, hvs]⟩
      | some y =>
        simp only []
        obtain ⟨k1, k2⟩ := skipN_spec ch 3 s' hi
        exact ⟨k1, trivial, by rw [k2, hv, hvs]⟩

theorem checkEI_take3 (l : Bytes) : checkEI (l.take 3) = checkEI l := by
  match l with
  | [] => rfl
  | [a] => rfl
  | [a, b] => rfl
  | a :: b :: c :: t => simp [checkEI]

theorem checkEIB_spec (ch : Chunking) (s : BS) (h : Inv s) :
    ∃ s', checkEIB ch s = (s', checkEI (view s)) ∧ Inv s' ∧ view s' = view s := by
  obtain ⟨s', hp, hi, hv⟩ := peekN3 ch s h
  refine ⟨s', ?_, hi, hv⟩
  simp [checkEIB, hp, checkEI_take3]

def resB : IIRes → IIB
  | .found d _ => .found d
  | .eof => .eof
  | .capped _ => .capped

def restOK (r : IIRes) (v : Bytes) : Prop :=
  match r with
  | .found _ rest => v = rest
  | .capped rest => v = rest
  | .eof => v = []

theorem resB_cons (b : Nat) (r : IIRes) : resB (r.cons b) = (resB r).cons b := by
  cases r <;> rfl

theorem restOK_cons (b : Nat) (r : IIRes) (v : Bytes) : restOK (r.cons b) v ↔ restOK r v := by
  cases r <;> rfl

/-- **The `EI` search of `readInlineImage`** on the buffered scanner finds what the whole-input
model finds — `checkEI`'s 3-byte peek refills at the edge of the window — and stops at the same
place, for every chunking; `len + 1` iterations suffice. -/
theorem iiLoopB_spec (ch : Chunking) : ∀ (fuel n prev : Nat) (s : BS), Inv s → (view s).length + 1 ≤ fuel →
    (iiLoopB ch fuel n prev s).2 = resB (iiLoop n prev (view s)) ∧ Inv (iiLoopB ch fuel n prev s).1 ∧
    restOK (iiLoop n prev (view s)) (view (iiLoopB ch fuel n prev s).1) := by
  intro fuel
  induction fuel with
  | zero => intro n prev s _ hf; omega
  | succ f ih =>
    intro n prev s h hf
    rw [iiLoopB]
    -- the optional checkEI
    obtain ⟨s1, hck, hi1, hv1⟩ : ∃ s1, (if (prev == 13 || prev == 10) = true then checkEIB ch s else (s, false)) =
        (s1, (prev == 13 || prev == 10) && checkEI (view s)) ∧ Inv s1 ∧ view s1 = view s := by
      by_cases hprev : (prev == 13 || prev == 10) = true
      · obtain ⟨s1, e, i, v⟩ := checkEIB_spec ch s h
        exact ⟨s1, by simp [hprev, e], i, v⟩
      · exact ⟨s, by simp [hprev], h, rfl⟩
    rw [hck]
    simp only []
    by_cases hei : ((prev == 13 || prev == 10) && checkEI (view s)) = true
    · simp only [hei, if_true]
      cases hvs : view s with
      | nil =>
        rw [hvs] at hei
        simp [iiLoop, hei, resB, restOK]
        exact ⟨hi1, by rw [hv1, hvs]⟩
      | cons b t =>
        rw [hvs] at hei
        simp [iiLoop, hei, resB, restOK]
        exact ⟨hi1, by rw [hv1, hvs]⟩
    · simp only [hei, Bool.false_eq_true, if_false]
      by_cases hcap : n > Gen.content_maxInlineImageBytes
      · simp only [hcap, if_true]
        cases hvs : view s with
        | nil =>
          rw [hvs] at hei
          simp [iiLoop, hcap, hei, resB, restOK]
          exact ⟨hi1, by rw [hv1, hvs]⟩
        | cons b t =>
          rw [hvs] at hei
          simp [iiLoop, hcap, hei, resB, restOK]
          exact ⟨hi1, by rw [hv1, hvs]⟩
      · simp only [hcap, if_false]
        obtain ⟨r1, r2, r3⟩ := readByte_spec ch s1 hi1
        cases hvs : view s with
        | nil =>
          rw [hvs] at hei
          rw [hv1, hvs] at r2 r3
          simp only [headRes] at r2
          cases hrb : readByte ch s1 with
          | mk s2 res =>
            rw [hrb] at r1 r2 r3
            simp only [] at r2 r3
            subst r2
            simp [iiLoop, hcap, hei, resB, restOK]
            exact ⟨r1, by simpa using r3⟩
        | cons b t =>
          rw [hvs] at hei hf
          rw [hv1, hvs] at r2 r3
          simp only [headRes, List.tail_cons] at r2 r3
          cases hrb : readByte ch s1 with
          | mk s2 res =>
            rw [hrb] at r1 r2 r3
            simp only [] at r1 r2 r3
            subst r2
            simp only []
            obtain ⟨i1, i2, i3⟩ := ih (n + 1) b s2 r1 (by rw [r3]; simp at hf; omega)
            rw [r3] at i1 i3
            have hl : iiLoop n prev (b :: t) = (iiLoop (n + 1) b t).cons b := by
              simp [iiLoop, hcap, hei]
            rw [hl, resB_cons, restOK_cons]
            cases hrec : iiLoopB ch f (n + 1) b s2 with
            | mk s3 r =>
              rw [hrec] at i1 i2 i3
              simp only [] at i1 i2 i3 ⊢
              exact ⟨by rw [i1], i2, i3⟩

end PdfVerif.C15cntu

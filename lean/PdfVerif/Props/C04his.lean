import PdfVerif.Model.HISXref
import PdfVerif.Spec.HISHistory
/-!
# C04 — the reader follows the specification for every history: property theorems (part 1)

`first_wins_eq_last_wins`, `abstract_get_spec`, `prev_chain_terminates`.
-/
namespace PdfVerif.C04his
open PdfVerif PdfVerif.HIS
open PdfVerif.Spec.HIS (Entry Section Revision History override applyAll sections current specGet)

/-! ## first entry wins (reader, newest section first) = last entry wins (spec, oldest first) -/

/-- the first section (in the given order) that mentions `k` decides -/
def firstIn {β} : List (List (Nat × β)) → Nat → Option β
  | [], _ => none
  | s :: ss, k => match s.lookup k with
    | some e => some e
    | none => firstIn ss k

theorem lookup_setIfAbsent {β} (m : List (Nat × β)) (n : Nat) (e : β) (k : Nat) :
    (setIfAbsent m n e).lookup k =
      match m.lookup k with
      | some x => some x
      | none => if k == n then some e else none := by
  unfold setIfAbsent
  cases hn : m.lookup n with
  | some x =>
    simp only
    cases hk : m.lookup k with
    | some y => rfl
    | none =>
      by_cases h : k = n
      · subst h; rw [hn] at hk; cases hk
      · simp [h]
  | none =>
    simp only [List.lookup_cons]
    by_cases h : k = n
    · subst h; simp [hn]
    · have : (k == n) = false := by simpa using h
      simp only [this]
      cases m.lookup k <;> simp

theorem lookup_fillSection {β} (s : List (Nat × β)) : ∀ (m : List (Nat × β)) (k : Nat),
    (fillSection m s).lookup k =
      match m.lookup k with
      | some x => some x
      | none => s.lookup k := by
  induction s with
  | nil => intro m k; simp [fillSection]; cases m.lookup k <;> rfl
  | cons p rest ih =>
    intro m k
    obtain ⟨n, e⟩ := p
    simp only [fillSection, ih, lookup_setIfAbsent, List.lookup_cons]
    cases m.lookup k with
    | some x => rfl
    | none =>
      by_cases h : k = n
      · subst h; simp
      · have : (k == n) = false := by simpa using h
        simp [this]

theorem lookup_fillAll {β} (ss : List (List (Nat × β))) : ∀ (m : List (Nat × β)) (k : Nat),
    (fillAll m ss).lookup k =
      match m.lookup k with
      | some x => some x
      | none => firstIn ss k := by
  induction ss with
  | nil => intro m k; simp [fillAll, firstIn]; cases m.lookup k <;> rfl
  | cons s ss ih =>
    intro m k
    simp only [fillAll, ih, lookup_fillSection, firstIn]
    cases m.lookup k <;> rfl

theorem applyAll_append {α} (ss : List (Section α)) : ∀ (st : Spec.HIS.State α) (s : Section α),
    applyAll st (ss ++ [s]) = override (applyAll st ss) s := by
  induction ss with
  | nil => intro st s; rfl
  | cons t ts ih => intro st s; simp only [List.cons_append, applyAll, ih]

/-- **first wins = last wins.**  The reader visits the cross-reference sections newest first
and keeps the first entry it sees for every object number (`fillAll`, the model of the
`xref[i] != nil` tests in `decodeXRefSection`/`decodeXRefStream`).  For every list of sections —
any number of them, any entries, free entries included, numbers repeated within and across
sections — the resulting map is the state the reference semantics computes by applying the
same sections oldest first, each one overriding the previous state. -/
theorem first_wins_eq_last_wins {α} (newestFirst : List (Section α)) (k : Nat) :
    (fillAll [] newestFirst).lookup k = applyAll (fun _ => none) newestFirst.reverse k := by
  induction newestFirst with
  | nil => simp [fillAll, applyAll]
  | cons s ss ih =>
    rw [List.reverse_cons, applyAll_append, override, ← ih]
    simp only [lookup_fillAll, List.lookup_nil, firstIn]
    cases s.lookup k <;> rfl

-- non-vacuity: three sections, object 1 redefined then freed, object 2 only in the oldest
example :
    let newest : Section String := [(1, .free 1)]
    let middle : Section String := [(1, .define 0 "b"), (3, .define 0 "c")]
    let oldest : Section String := [(0, .free 65535), (1, .define 0 "a"), (2, .define 0 "x")]
    ((fillAll [] [newest, middle, oldest]).lookup 1).isSome = true
    ∧ (match (fillAll [] [newest, middle, oldest]).lookup 2 with | some (.define 0 "x") => true | _ => false) = true := by
  decide

/-! ## the generation/free test of `Reader.get` against `specGet` -/

theorem lookup_map {β γ} (f : β → γ) (s : List (Nat × β)) (k : Nat) :
    (s.map fun p => (p.1, f p.2)).lookup k = (s.lookup k).map f := by
  induction s with
  | nil => rfl
  | cons p rest ih =>
    obtain ⟨n, e⟩ := p
    simp only [List.map_cons, List.lookup_cons]
    cases k == n <;> simp [ih]

/-- how a model entry is read as a specification entry, given the object `read e` found by
    following an in-use entry -/
def toSpec {α} (read : XEntry → α) (e : XEntry) : Entry α :=
  if e.pos < 0 then .free e.gen else .define e.gen (read e)

def mapSection {α} (read : XEntry → α) (s : List (Nat × XEntry)) : Section α :=
  s.map fun p => (p.1, toSpec read p.2)

def mapRevision {α} (read : XEntry → α) (r : List (Nat × XEntry) × Option (List (Nat × XEntry))) : Revision α :=
  { main := mapSection read r.1, stm := r.2.map (mapSection read) }

/-- the sections of a history in the order `readXRef` visits them: newest revision first,
    in each revision the table, then the `/XRefStm` section -/
def visitOrder {β} : List (List (Nat × β) × Option (List (Nat × β))) → List (List (Nat × β))
  | [] => []
  | (main, stm) :: older => (main :: (match stm with | some s => [s] | none => [])) ++ visitOrder older

theorem sections_reverse {α} (read : XEntry → α) (h : List (List (Nat × XEntry) × Option (List (Nat × XEntry)))) :
    (sections (h.map (mapRevision read))).reverse = (visitOrder h.reverse).map (mapSection read) := by
  induction h with
  | nil => rfl
  | cons r rs ih =>
    obtain ⟨main, stm⟩ := r
    have hv : ∀ (a b : List (List (Nat × XEntry) × Option (List (Nat × XEntry)))),
        visitOrder (a ++ b) = visitOrder a ++ visitOrder b := by
      intro a b
      induction a with
      | nil => rfl
      | cons x xs iha => obtain ⟨m, s⟩ := x; simp [visitOrder, iha]
    simp only [List.map_cons, sections, List.reverse_append, ih, List.reverse_cons, hv, List.map_append]
    congr 1
    cases stm <;> simp [mapRevision, Revision.sections, visitOrder]

theorem fillAll_map {α} (read : XEntry → α) (ss : List (List (Nat × XEntry))) (k : Nat) :
    (fillAll [] (ss.map (mapSection read))).lookup k = ((fillAll [] ss).lookup k).map (toSpec read) := by
  simp only [lookup_fillAll, List.lookup_nil]
  induction ss with
  | nil => rfl
  | cons s ss ih =>
    simp only [List.map_cons, firstIn, mapSection, lookup_map]
    cases s.lookup k with
    | some e => rfl
    | none => simpa [mapSection] using ih

/-- **The reader's answer on decoded sections is the specification's.**  Let a file's
revisions (oldest first) carry the decoded entries `h` (table and optional `/XRefStm` section per
revision).  `readXRef` fills its map in `visitOrder`; `Reader.get` then returns null when the
entry is missing, free or has another generation, and otherwise the object `read e` found at
the entry.  For every history, object number and generation this equals `specGet` of the
history whose entries are read the same way. -/
theorem abstract_get_spec {α} (read : XEntry → α)
    (h : List (List (Nat × XEntry) × Option (List (Nat × XEntry)))) (num gen : Nat) :
    (getDecision (fillAll [] (visitOrder h.reverse)) num gen).map read
      = specGet (h.map (mapRevision read)) num gen := by
  have key := first_wins_eq_last_wins ((visitOrder h.reverse).map (mapSection read)) num
  rw [fillAll_map, ← sections_reverse, List.reverse_reverse] at key
  unfold specGet current getDecision
  rw [← key]
  cases (fillAll [] (visitOrder h.reverse)).lookup num with
  | none => rfl
  | some e =>
    simp only [Option.map, toSpec]
    by_cases hp : e.pos < 0
    · simp [hp]
    · by_cases hg : e.gen = gen
      · simp [hp, hg]
      · have : (e.gen != gen) = true := by simpa using hg
        simp [hp, hg, this]

example : -- object 5: defined (gen 0), freed (gen 1), defined again with generation 1
    let h : List (List (Nat × XEntry) × Option (List (Nat × XEntry))) :=
      [([(5, ⟨100, 0, 0⟩)], none), ([(5, ⟨-1, 1, 0⟩)], none), ([(5, ⟨300, 1, 0⟩)], some [(7, ⟨0, 0, 9⟩)])]
    (getDecision (fillAll [] (visitOrder h.reverse)) 5 1).map (·.pos) = some 300
    ∧ (getDecision (fillAll [] (visitOrder h.reverse)) 5 0) = none
    ∧ (getDecision (fillAll [] (visitOrder h.reverse)) 7 0).map (·.inStream) = some 9 := by decide

/-! ## the `/Prev` chain terminates -/

/-- positions in `[0,size)` not yet marked -/
def unseen (size : Nat) (seen : List Int) : Nat :=
  ((List.range size).filter fun (x : Nat) => !seen.contains (x : Int)).length

theorem filter_length_mono {γ} (p q : γ → Bool) (l : List γ) (h : ∀ x, q x = true → p x = true) :
    (l.filter q).length ≤ (l.filter p).length := by
  induction l with
  | nil => simp
  | cons a l ih =>
    simp only [List.filter_cons]
    cases hq : q a with
    | true => simp [h a hq]; omega
    | false => cases p a <;> simp <;> omega

theorem filter_length_lt {γ} (p q : γ → Bool) (l : List γ) (h : ∀ x, q x = true → p x = true)
    (a : γ) (ha : a ∈ l) (hpa : p a = true) (hqa : q a = false) :
    (l.filter q).length < (l.filter p).length := by
  induction l with
  | nil => cases ha
  | cons b l ih =>
    simp only [List.filter_cons]
    rcases List.mem_cons.mp ha with rfl | hmem
    · have := filter_length_mono p q l h
      simp [hpa, hqa]; omega
    · have := ih hmem
      cases hq : q b with
      | true => simp [h b hq]; omega
      | false => cases p b <;> simp <;> omega

theorem unseen_mono (size : Nat) (seen seen' : List Int) (h : ∀ x ∈ seen, x ∈ seen') :
    unseen size seen' ≤ unseen size seen := by
  apply filter_length_mono
  intro x hx
  simp only [Bool.not_eq_true', List.contains_eq_mem, decide_eq_false_iff_not] at hx ⊢
  exact fun hm => hx (h _ hm)

theorem unseen_lt (size : Nat) (seen : List Int) (start : Int) (h0 : 0 ≤ start) (h1 : start < size)
    (hns : seen.contains start = false) : unseen size (start :: seen) < unseen size seen := by
  apply filter_length_lt _ _ _ _ start.toNat
  · simp; omega
  · have : ((start.toNat : Nat) : Int) = start := by omega
    simp only [this]; simpa using hns
  · have : ((start.toNat : Nat) : Int) = start := by omega
    simp [this]
  · intro x hx
    simp only [Bool.not_eq_true', List.contains_eq_mem, decide_eq_false_iff_not, List.mem_cons, not_or] at hx ⊢
    exact hx.2

/-- a step function only ever adds positions to the `seen` set -/
def SeenGrows {σ} (step : σ → List Int → Int → Except Err (σ × List Int × Option Int)) : Prop :=
  ∀ st seen start st' seen' nx, step st seen start = .ok (st', seen', nx) → ∀ x ∈ seen, x ∈ seen'

theorem prevLoop_isSome {σ} (size hdr : Nat) (step : σ → List Int → Int → Except Err (σ × List Int × Option Int))
    (hstep : SeenGrows step) :
    ∀ (fuel : Nat) (st : σ) (seen : List Int) (start : Int), 0 ≤ start → start < size →
      unseen size seen + 1 ≤ fuel → (prevLoop size hdr step fuel st seen start).isSome = true := by
  intro fuel
  induction fuel with
  | zero => intro st seen start _ _ hf; omega
  | succ fuel ih =>
    intro st seen start h0 h1 hf
    unfold prevLoop
    cases hc : seen.contains start with
    | true => simp
    | false =>
      simp only [Bool.false_eq_true, if_false]
      cases hs : step st (start :: seen) start with
      | error e => simp
      | ok r =>
        obtain ⟨st', seen', nx⟩ := r
        cases nx with
        | none => simp
        | some prev =>
          simp only
          split
          · simp
          · rename_i hrange
            simp only [Bool.or_eq_true, decide_eq_true_eq, not_or, Int.not_le, Int.not_le] at hrange
            apply ih
            · omega
            · omega
            · have h2 := unseen_lt size seen start h0 h1 hc
              have h3 := unseen_mono size (start :: seen) seen' (hstep _ _ _ _ _ _ hs)
              omega

/-- **The `/Prev` chain terminates.**  Whatever the sections contain (`step` is arbitrary, it
may fail, it may add an `/XRefStm` position to `seen`, its `/Prev` may point anywhere —
backwards, forwards, to itself), the loop of `readXRef` started at a position inside the file
finishes within `size + 1` iterations: every iteration marks a position of `[0,size)` that was
not marked before, and `/Prev` values outside the file are rejected. -/
theorem prev_chain_terminates {σ} (size hdr : Nat)
    (step : σ → List Int → Int → Except Err (σ × List Int × Option Int)) (hstep : SeenGrows step)
    (st : σ) (start : Int) (h0 : 0 ≤ start) (h1 : start < size) :
    (prevLoop size hdr step (size + 1) st [] start).isSome = true := by
  apply prevLoop_isSome size hdr step hstep
  · exact h0
  · exact h1
  · have := List.length_filter_le (fun (x : Nat) => !([] : List Int).contains (x : Int)) (List.range size)
    simp only [List.length_range] at this
    simp only [unseen]; omega

-- non-vacuity: a two-section cycle 10 → 20 → 10 stops after two steps, having counted both
example : prevLoop (σ := Nat) 100 0 (fun n seen start => .ok (n + 1, seen, some (if start = 10 then 20 else 10))) 101 0 [] 10
    = some (.ok 2) := by rfl

/-! ## what the reference semantics says (sanity of `Spec/HISHistory.lean` itself) -/

theorem sections_append {α} (h : History α) (r : Revision α) : sections (h ++ [r]) = sections h ++ r.sections := by
  induction h with
  | nil => simp [sections]
  | cons x xs ih => simp [sections, ih, List.append_assoc]

theorem applyAll_append_list {α} (a : List (Section α)) : ∀ (st : Spec.HIS.State α) (b : List (Section α)),
    applyAll st (a ++ b) = applyAll (applyAll st a) b := by
  induction a with
  | nil => intro st b; rfl
  | cons s ss ih => intro st b; simp only [List.cons_append, applyAll, ih]

/-- the newest revision's main section decides for every number it mentions -/
theorem current_newest {α} (h : History α) (r : Revision α) (n : Nat) (e : Entry α)
    (hn : r.main.lookup n = some e) : current (h ++ [r]) n = some e := by
  unfold current
  rw [sections_append, applyAll_append_list]
  unfold Revision.sections
  cases r.stm with
  | none => simp [applyAll, override, hn]
  | some s => simp [applyAll, override, hn]

/-- **Newest definition wins, with its generation.** -/
theorem specGet_newest_define {α} (h : History α) (r : Revision α) (n g : Nat) (v : α)
    (hn : r.main.lookup n = some (.define g v)) :
    specGet (h ++ [r]) n g = some v ∧ ∀ g', g' ≠ g → specGet (h ++ [r]) n g' = none := by
  unfold specGet
  rw [current_newest h r n _ hn]
  refine ⟨by simp, ?_⟩
  intro g' hg
  have : ¬ (g = g') := fun h => hg h.symm
  simp [this]

/-- **A newest free entry hides every older definition**, whatever the generation asked for. -/
theorem specGet_newest_free {α} (h : History α) (r : Revision α) (n g g' : Nat)
    (hn : r.main.lookup n = some (.free g)) : specGet (h ++ [r]) n g' = none := by
  unfold specGet
  rw [current_newest h r n _ hn]

/-- **A revision that does not mention a number leaves it as it was** (plain, non-hybrid revision). -/
theorem specGet_untouched {α} (h : History α) (r : Revision α) (n g : Nat)
    (hn : r.main.lookup n = none) (hs : r.stm = none) : specGet (h ++ [r]) n g = specGet h n g := by
  unfold specGet current
  rw [sections_append, applyAll_append_list]
  unfold Revision.sections
  rw [hs]
  simp [applyAll, override, hn]

/-- in a hybrid revision the `/XRefStm` section is consulted after the table and before `/Prev` -/
theorem specGet_hybrid_stm {α} (h : History α) (main stm : Section α) (n : Nat) (e : Entry α)
    (hm : main.lookup n = none) (hs : stm.lookup n = some e) :
    current (h ++ [{ main := main, stm := some stm }]) n = some e := by
  unfold current
  rw [sections_append, applyAll_append_list]
  simp [Revision.sections, applyAll, override, hm, hs]

theorem specGet_empty {α} (n g : Nat) : specGet ([] : History α) n g = none := rfl

end PdfVerif.C04his

import PdfVerif.Lemmas.CONCPair
import PdfVerif.Props.C18conc
/-!
# C18 — `pair_atomic`: the two views published by `StoreOrLoadPair`

`A`, `B` are the two Go types of a merged object (field / widget).  Under the discipline that
these two types are published only through `StoreOrLoadPair[A,B]` (`PairTypes`; `Decode` may
still *read* them — a cache hit — but its own frames publish other types), in every reachable
state and for every reference the two cache entries are either both absent or both present
**and are the two values one single call proposed together**: no interleaving mixes the halves
of two different decodes.  Consequently all calls return that one pair.
-/
namespace PdfVerif.C18concP
open PdfVerif PdfVerif.CONC

/-- the two entries of `r` are absent, or are the pair `(a, b)` which one call stored -/
def PairState (A B : Ty) (s : State) (r : Ref) : Prop :=
  (s.cache (r, A) = none ∧ s.cache (r, B) = none) ∨
  ∃ t a b, .pair t r A B a b (some (a, b)) ∈ s.hist ∧ s.cache (r, A) = some a ∧ s.cache (r, B) = some b

structure PAInv (A B : Ty) (s : State) : Prop where
  ty : ∀ t, TyOK A B (s.thr t)
  pairs : ∀ r, PairState A B s r

theorem pairCall_both_none (cfg : Cfg) (s : State) (t : Tid) (r : Ref) (A B : Ty) (a b : Val)
    (hAB : A ≠ B) (hA : s.cache (r, A) = none) (hB : s.cache (r, B) = none) :
    (pairCall cfg s t r A B a b).cache (r, A) = some a ∧
    (pairCall cfg s t r A B a b).cache (r, B) = some b ∧
    (pairCall cfg s t r A B a b).hist = .pair t r A B a b (some (a, b)) :: s.hist := by
  have hne : (r, B) ≠ (r, A) := by intro e; cases e; exact hAB rfl
  have hne' : (r, A) ≠ (r, B) := fun e => hne e.symm
  simp [pairCall, hA, hB, upd_apply, hne, hne']

theorem PAInv.step {cfg : Cfg} (hf : cfg.fixed = true) {A B : Ty} (hAB : A ≠ B) {s s' : State}
    {t : Tid} {a : Act} (hg : PairTypes A B (t, a)) (hi : PAInv A B s)
    (h : step cfg s t a = some s') : PAInv A B s' := by
  refine ⟨tyOK_step hg hi.ty h, ?_⟩
  intro r
  obtain ⟨evs, hh⟩ := step_hist_grows h
  have hle := step_le cfg hf s s' t a h
  by_cases hsame : s'.cache (r, A) = s.cache (r, A) ∧ s'.cache (r, B) = s.cache (r, B)
  · rcases hi.pairs r with hn | ⟨t0, a0, b0, hev, hA, hB⟩
    · left; rw [hsame.1, hsame.2]; exact hn
    · right
      exact ⟨t0, a0, b0, by rw [hh]; exact List.mem_append_right _ hev, by rw [hsame.1]; exact hA,
        by rw [hsame.2]; exact hB⟩
  · -- one of the two keys changed: this transition is StoreOrLoadPair[A,B] on r
    have hchg : ∃ k : Key, (k = (r, A) ∨ k = (r, B)) ∧ s'.cache k ≠ s.cache k := by
      by_cases h1 : s'.cache (r, A) = s.cache (r, A)
      · exact ⟨(r, B), .inr rfl, fun h2 => hsame ⟨h1, h2⟩⟩
      · exact ⟨(r, A), .inl rfl, h1⟩
    obtain ⟨k, hk, hne⟩ := hchg
    have hk2 : k.1 = r ∧ (k.2 = A ∨ k.2 = B) := by rcases hk with e | e <;> subst e <;> simp
    rcases step_cache_changes hf h k hne with ⟨tp, refs, path, rest, e, etp⟩ | ⟨r', A', B', a', b', ea, er, eab⟩
    · -- a Decode frame publishing under A or B: excluded by the discipline
      have := hi.ty t (.decFn tp refs path) (by rw [e]; simp) tp rfl
      rcases hk2.2 with e2 | e2
      · exact absurd (etp.symm.trans e2) this.1
      · exact absurd (etp.symm.trans e2) this.2
    · subst ea
      have hr : r' = r := er.symm.trans hk2.1
      subst hr
      have hAB' : A' = A ∧ B' = B := by
        rcases hg with h1 | ⟨n1, n2, n3, n4⟩
        · exact h1
        · rcases eab with e1 | e1 <;> rcases hk2.2 with e2 | e2
          · exact absurd (e1.symm.trans e2) n1
          · exact absurd (e1.symm.trans e2) n2
          · exact absurd (e1.symm.trans e2) n3
          · exact absurd (e1.symm.trans e2) n4
      obtain ⟨rfl, rfl⟩ := hAB'
      -- the changed key was absent before, so (by the invariant) both were
      have hnone : s.cache (r', A') = none ∧ s.cache (r', B') = none := by
        rcases hi.pairs r' with hn | ⟨t0, a0, b0, _, hA, hB⟩
        · exact hn
        · exfalso
          rcases hk with e | e <;> subst e
          · exact hne ((hle _ _ hA).trans hA.symm)
          · exact hne ((hle _ _ hB).trans hB.symm)
      simp only [CONC.step] at h
      split at h
      · cases h
        obtain ⟨h1, h2, h3⟩ := pairCall_both_none cfg s t r' A' B' a' b' hAB hnone.1 hnone.2
        right
        exact ⟨t, a', b', by rw [h3]; simp, h1, h2⟩
      · cases h

theorem PAInv.init (A B : Ty) : PAInv A B State.init :=
  ⟨by intro t f hf; simp [State.init] at hf, fun r => .inl ⟨rfl, rfl⟩⟩

/-- `pair_atomic`: in every reachable state of a system in which the types `A ≠ B` are published
only by `StoreOrLoadPair[A,B]`, the entries `(r, A)` and `(r, B)` are both absent or they are
the two halves which a single call stored together. -/
theorem pair_atomic (cfg : Cfg) (hf : cfg.fixed = true) (A B : Ty) (hAB : A ≠ B)
    (ls : List Label) (s : State) (hl : ∀ l ∈ ls, PairTypes A B l)
    (h : run cfg State.init ls = some s) (r : Ref) : PairState A B s r :=
  (run_inv cfg (PairTypes A B) (PAInv A B) (fun _ _ _ _ hg hi hs => hi.step hf hAB hg hs) ls
    State.init s hl (PAInv.init A B) h).pairs r

/-- no state shows one half without the other -/
theorem pair_halves_together (cfg : Cfg) (hf : cfg.fixed = true) (A B : Ty) (hAB : A ≠ B)
    (ls : List Label) (s : State) (hl : ∀ l ∈ ls, PairTypes A B l)
    (h : run cfg State.init ls = some s) (r : Ref) :
    (s.cache (r, A)).isSome = (s.cache (r, B)).isSome := by
  rcases pair_atomic cfg hf A B hAB ls s hl h r with ⟨h1, h2⟩ | ⟨_, _, _, _, h1, h2⟩ <;> simp [h1, h2]

/-- every `StoreOrLoadPair[A,B]` on `r` that returned, returned the pair which the first call
stored — a pair proposed together by one call (here additionally `PairOnDirect`, the hypothesis
of `agreement`) -/
theorem pair_result_is_one_proposal (cfg : Cfg) (hf : cfg.fixed = true) (A B : Ty) (hAB : A ≠ B)
    (ls : List Label) (s : State) (hl : ∀ l ∈ ls, PairTypes A B l)
    (hl' : ∀ l ∈ ls, PairOnDirect cfg l) (h : run cfg State.init ls = some s)
    (t : Tid) (r : Ref) (a b a' b' : Val) (he : .pair t r A B a b (some (a', b')) ∈ s.hist) :
    ∃ t0, .pair t0 r A B a' b' (some (a', b')) ∈ s.hist := by
  have hi := C18conc.inv_reachable cfg hf ls s hl' h
  have hev := hi.hist _ he
  rcases pair_atomic cfg hf A B hAB ls s hl h r with ⟨h1, _⟩ | ⟨t0, a0, b0, hmem, hA, hB⟩
  · have : s.cache (r, A) = some a' := hev.1
    rw [h1] at this; cases this
  · have e1 : s.cache (r, A) = some a' := hev.1
    have e2 : s.cache (r, B) = some b' := hev.2
    rw [hA] at e1; rw [hB] at e2; cases e1; cases e2
    exact ⟨t0, hmem⟩

/-- non-vacuity: two threads decode the same merged object, each via a decode function which
builds its own pair and publishes it with `StoreOrLoadPair[7,8]` (types 7, 8 are used by nothing
else; the decodes themselves run under types 0 and 1); the loser adopts the winner's pair. -/
example :
    let cfg : Cfg := ⟨fun _ => .direct, true⟩
    let ls : List Label :=
      [(0, .callDecode (.ref 1) 0 []), (1, .callDecode (.ref 1) 1 []), (0, .go), (1, .go),
       (0, .callPair 1 7 8 10 11), (1, .callPair 1 7 8 20 21)]
    (∀ l ∈ ls, PairTypes 7 8 l) ∧
    (run cfg State.init ls).map (fun s => s.hist.take 2)
      = some [.pair 1 1 7 8 20 21 (some (10, 11)), .pair 0 1 7 8 10 11 (some (10, 11))] := by
  refine ⟨?_, by decide⟩
  intro l hl
  simp at hl
  rcases hl with rfl | rfl | rfl | rfl | rfl | rfl <;> simp [PairTypes]

end PdfVerif.C18concP

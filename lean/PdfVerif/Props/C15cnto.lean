import PdfVerif.Props.C15cnt
/-!
# C15 — `ops_rt` and `split_rt` for operators with flat operands and comments

Continues `Props/C15cnt.lean`.
-/
namespace PdfVerif.C15cnto
open PdfVerif PdfVerif.CNT PdfVerif.C15cnt

/-- the written form of a flat operand starts with a byte that is neither white space nor `%` -/
theorem flat_first (o : Obj) (h : FlatOk o) (bs : Bytes) (hb : fmtArg o = some bs) :
    ∃ c tl, bs = c :: tl ∧ cSpace c = false ∧ (c == 37) = false := by
  have regfirst : ∀ (w : Bytes) (o' : Obj), RegTok w o' → ∃ c tl, w = c :: tl ∧ cSpace c = false ∧ (c == 37) = false := by
    intro w o' hw
    match w, hw.ne with
    | c :: tl, _ =>
      obtain ⟨k1, k2, _⟩ := reg_byte_any c (hw.reg c (by simp))
      exact ⟨c, tl, rfl, k1, k2⟩
  cases o with
  | null =>
    simp [fmtArg, format, copt, canonList, Obj.canon, fmtSeq, fmtObj, sep] at hb
    subst hb; exact regfirst _ _ regTok_null
  | nilArr =>
    simp [fmtArg, format, copt, canonList, Obj.canon, fmtSeq, fmtObj, sep] at hb
    subst hb; exact regfirst _ _ regTok_null
  | bool b =>
    cases b with
    | true =>
      simp [fmtArg, format, copt, canonList, Obj.canon, fmtSeq, fmtObj, sep] at hb
      subst hb; exact regfirst _ _ regTok_true
    | false =>
      simp [fmtArg, format, copt, canonList, Obj.canon, fmtSeq, fmtObj, sep] at hb
      subst hb; exact regfirst _ _ regTok_false
  | int i =>
    simp [fmtArg, format, copt, canonList, Obj.canon, fmtSeq, fmtObj, sep] at hb
    subst hb; exact regfirst _ _ h
  | real t =>
    simp [fmtArg, format, copt, canonList, Obj.canon, fmtSeq, fmtObj, sep] at hb
    subst hb; exact regfirst _ _ h
  | name n =>
    simp [fmtArg, format, copt, canonList, Obj.canon, fmtSeq, fmtObj] at hb
    subst hb
    exact ⟨47, _, rfl, by decide +kernel, by decide⟩
  | str s =>
    simp [fmtArg, format, copt, canonList, Obj.canon, fmtSeq, fmtObj, fmtString] at hb
    subst hb
    exact ⟨40, fmtStrLoop none 0 (countClose s) s ++ [41], by simp [fmtStrLiteral], by decide +kernel, by decide⟩
  | op o => exact absurd h (by simp [FlatOk])
  | ref a b => exact absurd h (by simp [FlatOk])
  | arr xs => exact absurd h (by simp [FlatOk])
  | dict kv => exact absurd h (by simp [FlatOk])

theorem fmtArgs_length (args : List Obj) : ∀ ab, fmtArgs args = some ab → args.length ≤ ab.length := by
  induction args with
  | nil => intro ab _; simp
  | cons a as ih =>
    intro ab hab
    simp only [fmtArgs] at hab
    cases hx : fmtArg a with
    | none => simp [hx] at hab
    | some x =>
      cases hy : fmtArgs as with
      | none => simp [hx, hy] at hab
      | some y =>
        simp [hx, hy] at hab
        subst hab
        have := ih y hy
        simp
        omega

/-- operators of the lexical layer: admissible name, fewer than `maxOperatorArgs` flat operands -/
structure FlatOp (op : Bytes × List Obj) : Prop where
  name : OpNameOk op.1
  args : ∀ a ∈ op.2, FlatOk a
  count : op.2.length < Gen.content_maxOperatorArgs

/-- an admissible name is not one of the pseudo-operator names (they contain `%`) -/
theorem opName_not_pseudo (name : Bytes) (h : OpNameOk name) :
    (name == Gen.content_OpRawContent) = false ∧ (name == Gen.content_OpInlineImage) = false := by
  have key : ∀ (lit : Bytes), (∃ b ∈ lit, cReg b = false) → (name == lit) = false := by
    intro lit ⟨b, hb, hr⟩
    simp
    intro he
    subst he
    have := h.reg b hb
    simp [hr] at this
  exact ⟨key _ ⟨37, by decide, by decide +kernel⟩, key _ ⟨37, by decide, by decide +kernel⟩⟩

theorem flat_opstep (op : Bytes × List Obj) (h : FlatOp op) (b : Bytes) (hb : fmtOp op.1 op.2 = some b) :
    OpStep b (op.1, op.2.map normA) := by
  obtain ⟨name, args⟩ := op
  obtain ⟨p1, p2⟩ := opName_not_pseudo name h.name
  simp only [fmtOp, p1, p2, Bool.false_eq_true, if_false] at hb
  cases hab : fmtArgs args with
  | none => simp [hab] at hb
  | some ab =>
    simp [hab] at hb
    subst hb
    refine ⟨ab ++ name, by simp, ?_⟩
    intro rest
    -- the first byte of the written operator is neither white space nor `%`
    have hfirst : ∃ c tl, ab ++ name = c :: tl ∧ cSpace c = false ∧ (c == 37) = false := by
      match args, hab, h.args with
      | [], hab, _ =>
        simp [fmtArgs] at hab
        subst hab
        match name, h.name.ne, h.name.reg with
        | c :: tl, _, hreg =>
          obtain ⟨k1, k2, _⟩ := reg_byte_any c (hreg c (by simp))
          exact ⟨c, tl, rfl, k1, k2⟩
      | a :: as, hab, hargs =>
        simp only [fmtArgs] at hab
        cases hx : fmtArg a with
        | none => simp [hx] at hab
        | some x =>
          cases hy : fmtArgs as with
          | none => simp [hx, hy] at hab
          | some y =>
            simp [hx, hy] at hab
            subst hab
            obtain ⟨c, tl, e, k1, k2⟩ := flat_first a (hargs a (by simp)) x hx
            subst e
            exact ⟨c, tl ++ 32 :: y ++ name, by simp, k1, k2⟩
    obtain ⟨c, tl, e, k1, k2⟩ := hfirst
    have hlen := fmtArgs_length args ab hab
    have hloop := scanLoop_flat args [] ab name rest ((ab ++ name ++ 10 :: rest).length + 1)
      h.args hab h.name (by simpa using h.count) (by simp; omega)
    have e2 : ab ++ name ++ 10 :: rest = c :: (tl ++ 10 :: rest) := by rw [e]; simp
    rw [e2] at hloop
    simp only [List.append_assoc] at e2 ⊢
    rw [e2]
    simp only [scanOne, skipSp, k1, k2, Bool.false_eq_true, if_false]
    simpa using hloop

/-! ## comments -/

/-- comments: `%` followed by bytes other than CR and LF, at most `maxNameBytes` in all -/
structure CommentOk (s : Bytes) : Prop where
  pct : s.head? = some 37
  noEOL : ∀ b ∈ s, b ≠ 10 ∧ b ≠ 13
  len : s.length ≤ Gen.content_maxNameBytes

theorem spanCmt_all (s rest : Bytes) (h : ∀ b ∈ s, b ≠ 10 ∧ b ≠ 13) : spanCmt (s ++ 10 :: rest) = (s, 10 :: rest) := by
  induction s with
  | nil => simp [spanCmt]
  | cons c cs ih =>
    have hc := h c (by simp)
    have := ih (fun b hb => h b (by simp [hb]))
    simp [spanCmt, hc.1, hc.2, this]

theorem comment_opstep (s : Bytes) (h : CommentOk s) :
    OpStep (s ++ [10]) (Gen.content_OpRawContent, [.str s]) := by
  refine ⟨s, rfl, ?_⟩
  intro rest
  match s, h.pct with
  | c :: tl, hp =>
    simp at hp
    subst hp
    have h37 : cSpace 37 = false := by decide +kernel
    have hl : ¬ (Gen.content_maxNameBytes < tl.length + 1) := by have := h.len; simp at this; omega
    have hs := spanCmt_all (37 :: tl) rest h.noEOL
    simp only [List.cons_append] at hs
    simp [scanOne, skipSp, h37, hs, hl]

/-! ## `ops_rt` and `split_rt` for the lexical layer -/

/-- operators of the lexical layer: flat operators and comments -/
def OpOk (op : Bytes × List Obj) : Prop :=
  FlatOp op ∨ (op.1 = Gen.content_OpRawContent ∧ ∃ s, op.2 = [.str s] ∧ CommentOk s)

/-- the operator as the scanner returns it -/
def normOp (op : Bytes × List Obj) : Bytes × List Obj := (op.1, op.2.map normA)

theorem opOk_step (op : Bytes × List Obj) (h : OpOk op) (b : Bytes) (hb : fmtOp op.1 op.2 = some b) :
    OpStep b (normOp op) := by
  rcases h with h | ⟨hn, s, ha, hc⟩
  · exact flat_opstep op h b hb
  · obtain ⟨name, args⟩ := op
    simp at hn ha
    subst hn ha
    simp [fmtOp] at hb
    subst hb
    simpa [normOp, normA] using comment_opstep s hc

/-- **`ops_rt` (lexical layer, full).**  For every sequence of operators whose names are
admissible tokens and whose operands are null, booleans, integers, reals, names and strings
(any bytes, below the scanner's caps), and comments: scanning what the content writer wrote
returns exactly the sequence (reals with their written token, nil arrays as null). -/
theorem ops_rt_flat (ops : List (Bytes × List Obj)) (hall : ∀ op ∈ ops, OpOk op) (bs : Bytes)
    (hb : fmtOps ops = some bs) : scan bs = some (ops.map normOp) :=
  scan_ops OpOk normOp opOk_step ops bs hall hb

theorem joinSegments_length (P : Bytes × List Obj → Prop) (N : Bytes × List Obj → Bytes × List Obj)
    (hP : ∀ op, P op → ∀ b, fmtOp op.1 op.2 = some b → OpStep b (N op))
    (segs : List (List (Bytes × List Obj))) : ∀ (bss : List Bytes),
    (∀ seg ∈ segs, ∀ op ∈ seg, P op) → segs.mapM fmtOps = some bss →
    segs.flatten.length ≤ (joinSegments bss).length := by
  induction segs with
  | nil => intro bss _ _; simp
  | cons seg segs ih =>
    intro bss hall hb
    simp only [List.mapM_cons] at hb
    cases hx : fmtOps seg with
    | none => simp [hx] at hb
    | some x =>
      cases hy : segs.mapM fmtOps with
      | none => simp [hx, hy] at hb
      | some ys =>
        simp [hx, hy] at hb
        subst hb
        have h1 := fmtOps_length seg P N hP x (hall seg (by simp)) hx
        have h2 := ih ys (fun s hs => hall s (by simp [hs])) hy
        match ys, h2 with
        | [], h2 => simp [joinSegments] at h2 ⊢; omega
        | y :: ys', h2 => simp [joinSegments] at h2 ⊢; omega

/-- `split_rt`, generic form at top level -/
theorem scan_join (P : Bytes × List Obj → Prop) (N : Bytes × List Obj → Bytes × List Obj)
    (hP : ∀ op, P op → ∀ b, fmtOp op.1 op.2 = some b → OpStep b (N op))
    (segs : List (List (Bytes × List Obj))) (bss : List Bytes)
    (hall : ∀ seg ∈ segs, ∀ op ∈ seg, P op) (hb : segs.mapM fmtOps = some bss) :
    scan (joinSegments bss) = some (segs.flatten.map N) := by
  have hlen := joinSegments_length P N hP segs bss hall hb
  have h := scan_segments P N hP segs bss hall hb [] ((joinSegments bss).length + 2 - segs.flatten.length)
  have e : (joinSegments bss).length + 2 - segs.flatten.length + segs.flatten.length = (joinSegments bss).length + 2 := by omega
  have e2 : (joinSegments bss).length + 2 - segs.flatten.length = ((joinSegments bss).length + 1 - segs.flatten.length) + 1 := by omega
  rw [e] at h
  rw [e2, scanAll_nil] at h
  simpa [scan] using h

/-- **`split_rt` (lexical layer, full).**  Splitting the sequence at operator boundaries into
any number of segments, writing each segment separately and scanning the segments joined by
newlines (as `page.SegmentsReader` does) yields the same operators as the unsplit stream. -/
theorem split_rt_flat (segs : List (List (Bytes × List Obj))) (hall : ∀ seg ∈ segs, ∀ op ∈ seg, OpOk op)
    (bss : List Bytes) (hb : segs.mapM fmtOps = some bss) (whole : Bytes) (hw : fmtOps segs.flatten = some whole) :
    scan (joinSegments bss) = scan whole ∧ scan whole = some (segs.flatten.map normOp) := by
  have h2 := ops_rt_flat segs.flatten (by
    intro op hop
    simp at hop
    obtain ⟨seg, hs, ho⟩ := hop
    exact hall seg hs op ho) whole hw
  exact ⟨by rw [h2]; exact scan_join OpOk normOp opOk_step segs bss hall hb, h2⟩

end PdfVerif.C15cnto

import PdfVerif.Props.C15cntn
/-!
# C15 — `ops_rt` and `split_rt` for arbitrarily nested operands

The composite stack of `Scan` against the recursive formatter `pdf.Format`: for every operand
built from flat operands (null, booleans, integers, reals, names, strings) by arrays and
dictionaries — any nesting up to `maxContentNestDepth`, any sizes up to the scanner's caps —
scanning the written form in *any* state of the stack machine delivers the operand to the
innermost open composite (`objT`/`seqT`/`dictT`, mutual structural induction over the object,
its element lists and its entry lists).  `opD_step` lifts this to one operator; `Props/C15cnti.lean`
adds inline images and states `ops_rt_deep`/`split_rt_deep`.
-/
namespace PdfVerif.C15cntm
open PdfVerif PdfVerif.CNT PdfVerif.C15cnt PdfVerif.C15cnto PdfVerif.C15cntd PdfVerif.C15cntn


mutual
/-- operands built from flat operands by arrays and dictionaries (within the size caps) -/
def GoodO : Obj → Prop
  | .arr xs => GoodL xs ∧ xs.length ≤ Gen.content_maxArrayLen
  | .dict kv => GoodKV kv ∧ (dataKV kv).length ≤ 2 * Gen.content_maxDictLen
  | o => FlatOk o
def GoodL : List Obj → Prop
  | [] => True
  | x :: xs => GoodO x ∧ GoodL xs
def GoodKV : List (Bytes × Obj) → Prop
  | [] => True
  | (k, v) :: r => AllBytes k ∧ k.length ≤ Gen.content_maxNameBytes ∧ GoodO v ∧ GoodKV r
/-- the operand as the scanner returns it -/
def normD : Obj → Obj
  | .arr xs => .arr (normDL xs)
  | .dict kv => .dict (mkDict (dataKV kv) [])
  | o => normA o
def normDL : List Obj → List Obj
  | [] => []
  | x :: xs => normD x :: normDL xs
/-- the contents of the dictionary frame before `>>` -/
def dataKV : List (Bytes × Obj) → List Obj
  | [] => []
  | (k, v) :: r =>
    match v with
    | .null => dataKV r
    | v => .name k :: normD v :: dataKV r
/-- number of tokens -/
def costO : Obj → Nat
  | .arr xs => costL xs + 2
  | .dict kv => costKV kv + 2
  | _ => 1
def costL : List Obj → Nat
  | [] => 0
  | x :: xs => costO x + costL xs
def costKV : List (Bytes × Obj) → Nat
  | [] => 0
  | (_, v) :: r =>
    match v with
    | .null => costKV r
    | v => 1 + costO v + costKV r
/-- nesting depth -/
def depthO : Obj → Nat
  | .arr xs => depthL xs + 1
  | .dict kv => depthKV kv + 1
  | _ => 0
def depthL : List Obj → Nat
  | [] => 0
  | x :: xs => max (depthO x) (depthL xs)
def depthKV : List (Bytes × Obj) → Nat
  | [] => 0
  | (_, v) :: r => max (depthO v) (depthKV r)
end

/-- where a completed value goes: to the innermost open composite, else to the operand list -/
def pushV (stk : List Frame) (args : List Obj) (v : Obj) : List Frame × List Obj :=
  match stk with
  | [] => ([], args ++ [v])
  | top :: below => ({ top with data := top.data ++ [v] } :: below, args)

/-- there is room for one more value -/
def CapOK (stk : List Frame) (args : List Obj) : Prop :=
  match stk with
  | [] => args.length < Gen.content_maxOperatorArgs
  | top :: _ => top.data.length < (if top.isDict then 2 * Gen.content_maxDictLen else Gen.content_maxArrayLen)

theorem deliver_push (stk : List Frame) (args : List Obj) (v : Obj) (hno : ∀ n, v ≠ .op n) (hcap : CapOK stk args) :
    deliver stk args v = .cont (pushV stk args v).1 (pushV stk args v).2 := by
  match stk with
  | [] =>
    simp only [CapOK] at hcap
    cases v <;> simp_all [deliver, pushV]
  | top :: below =>
    simp only [CapOK] at hcap
    have : ¬ ((if top.isDict then 2 * Gen.content_maxDictLen else Gen.content_maxArrayLen) ≤ top.data.length) := by omega
    simp [deliver, pushV, this]

theorem step_push (stk : List Frame) (args : List Obj) (v : Obj) (hno : ∀ n, v ≠ .op n) (hcap : CapOK stk args) :
    step stk args v = .cont (pushV stk args v).1 (pushV stk args v).2 := by
  rw [← deliver_push stk args v hno hcap]
  cases v <;> simp_all [step]

/-- atoms, in any context -/
theorem atomT (c : Obj) (h : FlatOk c) (ns : Bool) (bs : Bytes) (ns' : Bool) (stk : List Frame) (args : List Obj)
    (rest : Bytes) (fuel : Nat) (hb : fmtObj copt ns c = some (bs, ns')) (hend : ns' = true → TokEnd rest)
    (hcap : CapOK stk args) (hfuel : fuel ≥ 1) :
    scanLoop fuel stk args (bs ++ rest) =
      scanLoop (fuel - 1) (pushV stk args (normA c)).1 (pushV stk args (normA c)).2 rest := by
  match fuel, hfuel with
  | f+1, _ =>
    rw [scanLoop, atom_seq c h ns bs ns' hb rest hend]
    simp only [step_push stk args (normA c) (normA_not_op c h) hcap]
    simp

theorem goodKV_mem (kv : List (Bytes × Obj)) (h : GoodKV kv) : ∀ e ∈ kv, GoodO e.2 := by
  induction kv with
  | nil => intro e he; simp at he
  | cons x r ih =>
    obtain ⟨k, v⟩ := x
    intro e he
    simp at he
    rcases he with rfl | he
    · exact h.2.2.1
    · exact ih h.2.2.2 e he

theorem lastIsGtOp_good (kv : List (Bytes × Obj)) (h : GoodKV kv) : lastIsGtOp kv = false := by
  unfold lastIsGtOp
  split
  · rename_i k heq
    have hmem := List.mem_of_getLast? heq
    simp only [List.mem_filter] at hmem
    have := goodKV_mem kv h _ hmem.1
    simp [GoodO, FlatOk] at this
  · rfl

/-- with `needSep` set, the written form of any good object starts with a non-regular byte -/
theorem obj_head (y : Obj) (h : GoodO y) (bs : Bytes) (ns' : Bool) (hb : fmtObj copt true y = some (bs, ns')) :
    ∃ c tl, bs = c :: tl ∧ cReg c = false := by
  cases y with
  | arr xs =>
    simp only [fmtObj, copt, Bool.false_eq_true, if_false] at hb
    cases hbody : fmtSeq { pretty := false, content := true } false xs with
    | none => simp [hbody] at hb
    | some body => simp [hbody] at hb; exact ⟨91, _, hb.1.symm, by decide +kernel⟩
  | dict kv =>
    simp only [fmtObj, copt, Bool.false_eq_true, if_false] at hb
    cases hbody : fmtDictPlain { pretty := false, content := true } kv with
    | none => simp [hbody] at hb
    | some body => simp [hbody] at hb; exact ⟨60, _, hb.1.symm, by decide +kernel⟩
  | null => exact atom_head _ (by simpa [GoodO] using h) bs ns' hb
  | nilArr => exact atom_head _ (by simpa [GoodO] using h) bs ns' hb
  | bool b => exact atom_head _ (by simpa [GoodO] using h) bs ns' hb
  | int i => exact atom_head _ (by simpa [GoodO] using h) bs ns' hb
  | real t => exact atom_head _ (by simpa [GoodO] using h) bs ns' hb
  | name n => exact atom_head _ (by simpa [GoodO] using h) bs ns' hb
  | str s => exact atom_head _ (by simpa [GoodO] using h) bs ns' hb
  | op o => exact absurd h (by simp [GoodO, FlatOk])
  | ref a b => exact absurd h (by simp [GoodO, FlatOk])

theorem dataKV_even (kv : List (Bytes × Obj)) : (dataKV kv).length % 2 = 0 := by
  induction kv with
  | nil => simp [dataKV]
  | cons e r ih =>
    obtain ⟨k, v⟩ := e
    cases v <;> simp [dataKV] <;> omega

theorem depth_le_cons_l (x : Obj) (xs : List Obj) : depthO x ≤ depthL (x :: xs) ∧ depthL xs ≤ depthL (x :: xs) := by
  simp [depthL]; omega

mutual
/-- **Any nested operand, in any context of the stack machine**: scanning its written form
delivers `normD c` to the innermost open composite (or to the operand list) and leaves the rest
of the input. -/
theorem objT : ∀ (c : Obj) (ns : Bool) (bs : Bytes) (ns' : Bool) (stk : List Frame) (args : List Obj)
    (rest : Bytes) (fuel : Nat),
    GoodO c → fmtObj copt ns c = some (bs, ns') → (ns' = true → TokEnd rest) → CapOK stk args →
    stk.length + depthO c ≤ Gen.content_maxContentNestDepth → fuel ≥ costO c →
    scanLoop fuel stk args (bs ++ rest) =
      scanLoop (fuel - costO c) (pushV stk args (normD c)).1 (pushV stk args (normD c)).2 rest
  | .arr xs, ns, bs, ns', stk, args, rest, fuel, hg, hb, _, hcap, hdepth, hfuel => by
    unfold GoodO at hg
    simp only [fmtObj, copt, Bool.false_eq_true, if_false] at hb
    cases hbody : fmtSeq { pretty := false, content := true } false xs with
    | none => simp [hbody] at hb
    | some body =>
      simp [hbody] at hb
      obtain ⟨hb1, _⟩ := hb
      subst hb1
      simp only [depthO, costO] at hdepth hfuel ⊢
      match fuel, hfuel with
      | f+2, hf =>
        have hopen : step stk args (.op [91]) = .cont ({ isDict := false, data := [] } :: stk) args := by
          have : ¬ (Gen.content_maxContentNestDepth ≤ stk.length) := by omega
          simp [step, this]
        have hel := seqT xs false [] stk args body rest (f + 1) hg.1 hbody (by simpa using hg.2)
          (by omega) (by omega)
        have hclose : step ({ isDict := false, data := [] ++ normDL xs } :: stk) args (.op [93]) =
            .cont (pushV stk args (.arr (normDL xs))).1 (pushV stk args (.arr (normDL xs))).2 := by
          rw [← deliver_push stk args (.arr (normDL xs)) (by intro n; simp) hcap]
          simp [step]
        have e : (91 :: (body ++ [93])) ++ rest = 91 :: (body ++ 93 :: rest) := by simp
        rw [e, scanLoop, tok_open_arr]
        simp only [hopen]
        rw [hel]
        have hf2 : f + 1 - costL xs = (f - costL xs) + 1 := by omega
        rw [hf2, scanLoop, tok_close_arr]
        simp only [hclose, normD]
        congr 1
        omega
  | .dict kv, ns, bs, ns', stk, args, rest, fuel, hg, hb, _, hcap, hdepth, hfuel => by
    unfold GoodO at hg
    simp only [fmtObj, copt, Bool.false_eq_true, if_false] at hb
    cases hbody : fmtDictPlain { pretty := false, content := true } kv with
    | none => simp [hbody] at hb
    | some body =>
      simp [hbody, lastIsGtOp_good kv hg.1] at hb
      obtain ⟨hb1, _⟩ := hb
      subst hb1
      simp only [depthO, costO] at hdepth hfuel ⊢
      match fuel, hfuel with
      | f+2, hf =>
        have hopen : step stk args (.op [60, 60]) = .cont ({ isDict := true, data := [] } :: stk) args := by
          have : ¬ (Gen.content_maxContentNestDepth ≤ stk.length) := by omega
          simp [step, this]
        have hel := dictT kv [] stk args body rest (f + 1) hg.1 hbody (by simpa using hg.2)
          (by omega) (by omega)
        have hclose : step ({ isDict := true, data := [] ++ dataKV kv } :: stk) args (.op [62, 62]) =
            .cont (pushV stk args (.dict (mkDict (dataKV kv) []))).1 (pushV stk args (.dict (mkDict (dataKV kv) []))).2 := by
          rw [← deliver_push stk args (.dict (mkDict (dataKV kv) [])) (by intro n; simp) hcap]
          simp [step, dataKV_even kv]
        have e : (60 :: 60 :: (body ++ [62, 62])) ++ rest = 60 :: 60 :: (body ++ 62 :: 62 :: rest) := by simp
        rw [e, scanLoop, tok_open_dict]
        simp only [hopen]
        rw [hel]
        have hf2 : f + 1 - costKV kv = (f - costKV kv) + 1 := by omega
        rw [hf2, scanLoop, tok_close_dict]
        simp only [hclose, normD]
        congr 1
        omega
  | .null, ns, bs, ns', stk, args, rest, fuel, hg, hb, hend, hcap, _, hfuel => by
    simpa [costO, normD] using atomT .null (by simpa [GoodO] using hg) ns bs ns' stk args rest fuel hb hend hcap (by simpa [costO] using hfuel)
  | .nilArr, ns, bs, ns', stk, args, rest, fuel, hg, hb, hend, hcap, _, hfuel => by
    simpa [costO, normD] using atomT .nilArr (by simpa [GoodO] using hg) ns bs ns' stk args rest fuel hb hend hcap (by simpa [costO] using hfuel)
  | .bool b, ns, bs, ns', stk, args, rest, fuel, hg, hb, hend, hcap, _, hfuel => by
    simpa [costO, normD] using atomT (.bool b) (by simpa [GoodO] using hg) ns bs ns' stk args rest fuel hb hend hcap (by simpa [costO] using hfuel)
  | .int i, ns, bs, ns', stk, args, rest, fuel, hg, hb, hend, hcap, _, hfuel => by
    simpa [costO, normD] using atomT (.int i) (by simpa [GoodO] using hg) ns bs ns' stk args rest fuel hb hend hcap (by simpa [costO] using hfuel)
  | .real t, ns, bs, ns', stk, args, rest, fuel, hg, hb, hend, hcap, _, hfuel => by
    simpa [costO, normD] using atomT (.real t) (by simpa [GoodO] using hg) ns bs ns' stk args rest fuel hb hend hcap (by simpa [costO] using hfuel)
  | .name n, ns, bs, ns', stk, args, rest, fuel, hg, hb, hend, hcap, _, hfuel => by
    simpa [costO, normD] using atomT (.name n) (by simpa [GoodO] using hg) ns bs ns' stk args rest fuel hb hend hcap (by simpa [costO] using hfuel)
  | .str s, ns, bs, ns', stk, args, rest, fuel, hg, hb, hend, hcap, _, hfuel => by
    simpa [costO, normD] using atomT (.str s) (by simpa [GoodO] using hg) ns bs ns' stk args rest fuel hb hend hcap (by simpa [costO] using hfuel)
  | .op o, _, _, _, _, _, _, _, hg, _, _, _, _, _ => by
    exact absurd hg (by simp [GoodO, FlatOk])
  | .ref a b, _, _, _, _, _, _, _, hg, _, _, _, _, _ => by
    exact absurd hg (by simp [GoodO, FlatOk])
/-- the elements of an array, appended to its frame -/
theorem seqT : ∀ (xs : List Obj) (ns : Bool) (d : List Obj) (below : List Frame) (args : List Obj)
    (body rest : Bytes) (fuel : Nat),
    GoodL xs → fmtSeq copt ns xs = some body → d.length + xs.length ≤ Gen.content_maxArrayLen →
    below.length + 1 + depthL xs ≤ Gen.content_maxContentNestDepth → fuel ≥ costL xs →
    scanLoop fuel ({ isDict := false, data := d } :: below) args (body ++ 93 :: rest) =
      scanLoop (fuel - costL xs) ({ isDict := false, data := d ++ normDL xs } :: below) args (93 :: rest)
  | [], ns, d, below, args, body, rest, fuel, _, hb, _, _, _ => by
    simp [fmtSeq] at hb
    subst hb
    simp [costL, normDL]
  | x :: xs, ns, d, below, args, body, rest, fuel, hg, hb, hcap, hdepth, hfuel => by
    have h93 : cReg 93 = false := by decide +kernel
    simp only [GoodL] at hg
    simp only [fmtSeq] at hb
    cases hx : fmtObj copt ns x with
    | none => simp [hx] at hb
    | some p =>
      obtain ⟨a, ns1⟩ := p
      cases hy : fmtSeq copt ns1 xs with
      | none => simp [hx, hy] at hb
      | some b =>
        simp [hx, hy] at hb
        subst hb
        have hend : ns1 = true → TokEnd (b ++ 93 :: rest) := by
          intro hns
          subst hns
          match xs, hy, hg.2 with
          | [], hy, _ => simp [fmtSeq] at hy; subst hy; exact h93
          | y :: ys, hy, hgy =>
            simp only [fmtSeq] at hy
            cases hy1 : fmtObj copt true y with
            | none => simp [hy1] at hy
            | some q =>
              obtain ⟨c, ns2⟩ := q
              cases hy2 : fmtSeq copt ns2 ys with
              | none => simp [hy1, hy2] at hy
              | some c2 =>
                simp [hy1, hy2] at hy
                subst hy
                have := obj_head y hgy.1 c ns2 hy1
                simpa using tokEnd_of_head c (c2 ++ 93 :: rest) this
        have hd := depth_le_cons_l x xs
        simp only [costL] at hfuel ⊢
        have hx' := objT x ns a ns1 ({ isDict := false, data := d } :: below) args (b ++ 93 :: rest) fuel hg.1 hx hend
          (by simp [CapOK]; simp at hcap; omega) (by simp; omega) (by omega)
        have hxs := seqT xs ns1 (d ++ [normD x]) below args b rest (fuel - costO x) hg.2 hy
          (by simp at hcap ⊢; omega) (by omega) (by omega)
        have e : (a ++ b) ++ 93 :: rest = a ++ (b ++ 93 :: rest) := by simp
        rw [e, hx']
        simp only [pushV]
        rw [hxs]
        simp [normDL, Nat.sub_sub]
/-- the entries of a dictionary, appended to its frame -/
theorem dictT : ∀ (kv : List (Bytes × Obj)) (d : List Obj) (below : List Frame) (args : List Obj)
    (body rest : Bytes) (fuel : Nat),
    GoodKV kv → fmtDictPlain copt kv = some body → d.length + (dataKV kv).length ≤ 2 * Gen.content_maxDictLen →
    below.length + 1 + depthKV kv ≤ Gen.content_maxContentNestDepth → fuel ≥ costKV kv →
    scanLoop fuel ({ isDict := true, data := d } :: below) args (body ++ 62 :: 62 :: rest) =
      scanLoop (fuel - costKV kv) ({ isDict := true, data := d ++ dataKV kv } :: below) args (62 :: 62 :: rest)
  | [], d, below, args, body, rest, fuel, _, hb, _, _, _ => by
    simp [fmtDictPlain] at hb
    subst hb
    simp [costKV, dataKV]
  | (k, v) :: kv, d, below, args, body, rest, fuel, hg, hb, hcap, hdepth, hfuel => by
    have h62 : cReg 62 = false := by decide +kernel
    have h47 : cReg 47 = false := by decide +kernel
    simp only [GoodKV] at hg
    obtain ⟨hk1, hk2, hgv, hgr⟩ := hg
    by_cases hnull : v = .null
    · subst hnull
      rw [fmtDictPlain_cons_null] at hb
      simpa [dataKV, costKV] using dictT kv d below args body rest fuel hgr hb (by simpa [dataKV] using hcap)
        (by simp [depthKV] at hdepth; omega) (by simpa [costKV] using hfuel)
    · have hcost : costKV ((k, v) :: kv) = 1 + costO v + costKV kv := by
        cases v <;> first | rfl | exact absurd rfl hnull
      have hdat : dataKV ((k, v) :: kv) = .name k :: normD v :: dataKV kv := by
        cases v <;> first | rfl | exact absurd rfl hnull
      have hdep : depthO v ≤ depthKV ((k, v) :: kv) ∧ depthKV kv ≤ depthKV ((k, v) :: kv) := by
        simp [depthKV]; omega
      rw [fmtDictPlain_cons copt k v kv hnull] at hb
      cases hy : fmtDictPlain copt kv with
      | none => simp [hy] at hb
      | some b =>
        cases hx : fmtObj copt true v with
        | none => simp [hy, hx] at hb
        | some p =>
          obtain ⟨a, ns1⟩ := p
          simp [hy, hx] at hb
          subst hb
          have hend : TokEnd (b ++ 62 :: 62 :: rest) := by
            rcases dictBody_head kv b hy with hb0 | ⟨tl, hb1⟩
            · subst hb0; exact h62
            · subst hb1; exact h47
          have hkeyend : TokEnd (a ++ (b ++ 62 :: 62 :: rest)) :=
            tokEnd_of_head a _ (obj_head v hgv a ns1 hx)
          have htk := name_rt k hk1 hk2 (a ++ (b ++ 62 :: 62 :: rest)) hkeyend
          rw [hcost] at hfuel ⊢
          rw [hdat] at hcap ⊢
          match fuel, hfuel with
          | 0, hf => exact absurd hf (by omega)
          | f+1, hf =>
            have hs1 := step_in_frame { isDict := true, data := d } below args (.name k) (by intro n; simp)
              (by simp at hcap ⊢; omega)
            have hv := objT v true a ns1 ({ isDict := true, data := d ++ [.name k] } :: below) args
              (b ++ 62 :: 62 :: rest) f hgv hx (fun _ => hend)
              (by simp [CapOK]; simp at hcap; omega) (by simp; omega) (by omega)
            have hr := dictT kv (d ++ [.name k] ++ [normD v]) below args b rest (f - costO v) hgr hy
              (by simp at hcap ⊢; omega) (by omega) (by omega)
            have e : (fmtName k ++ (a ++ b)) ++ 62 :: 62 :: rest = fmtName k ++ (a ++ (b ++ 62 :: 62 :: rest)) := by simp
            rw [e, scanLoop, htk]
            simp only [hs1]
            rw [hv]
            simp only [pushV]
            rw [hr]
            have e2 : f + 1 - (1 + costO v + costKV kv) = f - costO v - costKV kv := by omega
            rw [e2]
            simp
end

/-! ## token counts are bounded by byte counts -/

mutual
theorem lenO : ∀ (c : Obj) (ns : Bool) (bs : Bytes) (ns' : Bool),
    GoodO c → fmtObj copt ns c = some (bs, ns') → costO c ≤ bs.length
  | .arr xs, ns, bs, ns', hg, hb => by
    unfold GoodO at hg
    simp only [fmtObj, copt, Bool.false_eq_true, if_false] at hb
    cases hbody : fmtSeq { pretty := false, content := true } false xs with
    | none => simp [hbody] at hb
    | some body =>
      simp [hbody] at hb
      have := lenL xs false body hg.1 hbody
      rw [← hb.1]
      simp [costO]
      omega
  | .dict kv, ns, bs, ns', hg, hb => by
    unfold GoodO at hg
    simp only [fmtObj, copt, Bool.false_eq_true, if_false] at hb
    cases hbody : fmtDictPlain { pretty := false, content := true } kv with
    | none => simp [hbody] at hb
    | some body =>
      simp [hbody, lastIsGtOp_good kv hg.1] at hb
      have := lenKV kv body hg.1 hbody
      rw [← hb.1]
      simp [costO]
      omega
  | .null, ns, bs, ns', hg, hb => by
    simpa [costO] using atom_bytes_pos .null (by simpa [GoodO] using hg) ns bs ns' hb
  | .nilArr, ns, bs, ns', hg, hb => by
    simpa [costO] using atom_bytes_pos .nilArr (by simpa [GoodO] using hg) ns bs ns' hb
  | .bool b, ns, bs, ns', hg, hb => by
    simpa [costO] using atom_bytes_pos (.bool b) (by simpa [GoodO] using hg) ns bs ns' hb
  | .int i, ns, bs, ns', hg, hb => by
    simpa [costO] using atom_bytes_pos (.int i) (by simpa [GoodO] using hg) ns bs ns' hb
  | .real t, ns, bs, ns', hg, hb => by
    simpa [costO] using atom_bytes_pos (.real t) (by simpa [GoodO] using hg) ns bs ns' hb
  | .name n, ns, bs, ns', hg, hb => by
    simpa [costO] using atom_bytes_pos (.name n) (by simpa [GoodO] using hg) ns bs ns' hb
  | .str s, ns, bs, ns', hg, hb => by
    simpa [costO] using atom_bytes_pos (.str s) (by simpa [GoodO] using hg) ns bs ns' hb
  | .op o, _, _, _, hg, _ => by exact absurd hg (by simp [GoodO, FlatOk])
  | .ref a b, _, _, _, hg, _ => by exact absurd hg (by simp [GoodO, FlatOk])
theorem lenL : ∀ (xs : List Obj) (ns : Bool) (body : Bytes),
    GoodL xs → fmtSeq copt ns xs = some body → costL xs ≤ body.length
  | [], _, body, _, _ => by simp [costL]
  | x :: xs, ns, body, hg, hb => by
    simp only [GoodL] at hg
    simp only [fmtSeq] at hb
    cases hx : fmtObj copt ns x with
    | none => simp [hx] at hb
    | some p =>
      obtain ⟨a, ns1⟩ := p
      cases hy : fmtSeq copt ns1 xs with
      | none => simp [hx, hy] at hb
      | some b =>
        simp [hx, hy] at hb
        subst hb
        have h1 := lenO x ns a ns1 hg.1 hx
        have h2 := lenL xs ns1 b hg.2 hy
        simp [costL]
        omega
theorem lenKV : ∀ (kv : List (Bytes × Obj)) (body : Bytes),
    GoodKV kv → fmtDictPlain copt kv = some body → costKV kv ≤ body.length
  | [], body, _, _ => by simp [costKV]
  | (k, v) :: kv, body, hg, hb => by
    simp only [GoodKV] at hg
    obtain ⟨_, _, hgv, hgr⟩ := hg
    by_cases hnull : v = .null
    · subst hnull
      rw [fmtDictPlain_cons_null] at hb
      simpa [costKV] using lenKV kv body hgr hb
    · have hcost : costKV ((k, v) :: kv) = 1 + costO v + costKV kv := by
        cases v <;> first | rfl | exact absurd rfl hnull
      rw [fmtDictPlain_cons copt k v kv hnull] at hb
      cases hy : fmtDictPlain copt kv with
      | none => simp [hy] at hb
      | some b =>
        cases hx : fmtObj copt true v with
        | none => simp [hy, hx] at hb
        | some p =>
          obtain ⟨a, ns1⟩ := p
          simp [hy, hx] at hb
          subst hb
          have h1 := lenO v true a ns1 hgv hx
          have h2 := lenKV kv b hgr hy
          rw [hcost]
          simp [fmtName]
          omega
end

/-! ## operands of an operator: arbitrary nesting -/

/-- operands covered: the canonical form (`SortedKeys` order in every dictionary, which is what
`pdf.Format` writes) is built from flat operands by arrays and dictionaries within the size
caps, nested at most `maxContentNestDepth` deep -/
def ArgD (a : Obj) : Prop := GoodO a.canon ∧ depthO a.canon ≤ Gen.content_maxContentNestDepth

theorem fmtArg_canon (a : Obj) (bs : Bytes) (hb : fmtArg a = some bs) :
    ∃ ns', fmtObj copt false a.canon = some (bs, ns') := by
  simp only [fmtArg, format, copt, Bool.false_eq_true, if_false, canonList, fmtSeq] at hb
  cases hx : fmtObj { pretty := false, content := true } false a.canon with
  | none => simp [hx] at hb
  | some p =>
    obtain ⟨x, ns⟩ := p
    simp [hx] at hb
    subst hb
    exact ⟨ns, hx⟩

theorem argD_step (a : Obj) (h : ArgD a) (acc : List Obj) (bs rest : Bytes) (fuel : Nat)
    (hb : fmtArg a = some bs) (hacc : acc.length < Gen.content_maxOperatorArgs) (hfuel : fuel ≥ costO a.canon) :
    scanLoop fuel [] acc (bs ++ 32 :: rest) =
      scanLoop (fuel - costO a.canon) [] (acc ++ [normD a.canon]) (32 :: rest) := by
  obtain ⟨ns', hb'⟩ := fmtArg_canon a bs hb
  have := objT a.canon false bs ns' [] acc (32 :: rest) fuel h.1 hb' (fun _ => tokEnd_32 rest)
    (by simpa [CapOK] using hacc) (by simpa using h.2) hfuel
  simpa [pushV] using this

theorem argD_bytes (a : Obj) (h : ArgD a) (bs : Bytes) (hb : fmtArg a = some bs) :
    costO a.canon ≤ bs.length ∧ ∃ c tl, bs = c :: tl ∧ cSpace c = false ∧ (c == 37) = false := by
  obtain ⟨ns', hb'⟩ := fmtArg_canon a bs hb
  refine ⟨lenO a.canon false bs ns' h.1 hb', ?_⟩
  have hg := h.1
  generalize a.canon = c at hg hb'
  have hb'' : fmtObj { pretty := false, content := true } false c = some (bs, ns') := hb'
  cases c with
  | arr xs =>
    simp only [fmtObj, copt, Bool.false_eq_true, if_false] at hb'
    cases hbody : fmtSeq { pretty := false, content := true } false xs with
    | none => simp [hbody] at hb'
    | some body => simp [hbody] at hb'; exact ⟨91, _, hb'.1.symm, by decide +kernel, by decide⟩
  | dict kv =>
    simp only [fmtObj, copt, Bool.false_eq_true, if_false] at hb'
    cases hbody : fmtDictPlain { pretty := false, content := true } kv with
    | none => simp [hbody] at hb'
    | some body => simp [hbody] at hb'; exact ⟨60, _, hb'.1.symm, by decide +kernel, by decide⟩
  | null => exact flat_first _ (by simpa [GoodO] using hg) bs (by simp [fmtArg, format, copt, canonList, Obj.canon, fmtSeq, hb''])
  | nilArr => exact flat_first _ (by simpa [GoodO] using hg) bs (by simp [fmtArg, format, copt, canonList, Obj.canon, fmtSeq, hb''])
  | bool b => exact flat_first _ (by simpa [GoodO] using hg) bs (by simp [fmtArg, format, copt, canonList, Obj.canon, fmtSeq, hb''])
  | int i => exact flat_first _ (by simpa [GoodO] using hg) bs (by simp [fmtArg, format, copt, canonList, Obj.canon, fmtSeq, hb''])
  | real t => exact flat_first _ (by simpa [GoodO] using hg) bs (by simp [fmtArg, format, copt, canonList, Obj.canon, fmtSeq, hb''])
  | name n => exact flat_first _ (by simpa [GoodO] using hg) bs (by simp [fmtArg, format, copt, canonList, Obj.canon, fmtSeq, hb''])
  | str s => exact flat_first _ (by simpa [GoodO] using hg) bs (by simp [fmtArg, format, copt, canonList, Obj.canon, fmtSeq, hb''])
  | op o => exact absurd hg (by simp [GoodO, FlatOk])
  | ref x y => exact absurd hg (by simp [GoodO, FlatOk])


/-! ## the token loop on operand lists -/

theorem scanLoop_argsD (args : List Obj) : ∀ (acc : List Obj) (ab : Bytes) (name rest : Bytes) (fuel : Nat),
    (∀ a ∈ args, ArgD a) → fmtArgs args = some ab → OpNameOk name →
    acc.length + args.length < Gen.content_maxOperatorArgs → fuel ≥ (args.map fun a => costO a.canon).sum + 1 →
    scanLoop fuel [] acc (ab ++ name ++ 10 :: rest) =
      .ok (name, acc ++ args.map fun a => normD a.canon) (10 :: rest) := by
  induction args with
  | nil =>
    intro acc ab name rest fuel _ hab hname hlen hfuel
    exact scanLoop_flat [] acc ab name rest fuel (by simp) hab hname hlen (by simpa using hfuel)
  | cons a as ih =>
    intro acc ab name rest fuel hall hab hname hlen hfuel
    simp only [fmtArgs] at hab
    cases hx : fmtArg a with
    | none => simp [hx] at hab
    | some x =>
      cases hy : fmtArgs as with
      | none => simp [hx, hy] at hab
      | some y =>
        simp [hx, hy] at hab
        subst hab
        have ha := hall a (by simp)
        simp only [List.map_cons, List.sum_cons] at hfuel
        have hstep := argD_step a ha acc x (y ++ name ++ 10 :: rest) fuel hx (by simp at hlen; omega) (by omega)
        have ih' := ih (acc ++ [normD a.canon]) y name rest (fuel - costO a.canon)
          (fun b hb => hall b (by simp [hb])) hy hname (by simp at hlen ⊢; omega) (by omega)
        have e1 : (x ++ 32 :: y) ++ name ++ 10 :: rest = x ++ 32 :: (y ++ name ++ 10 :: rest) := by simp
        rw [e1, hstep]
        have hpos : fuel - costO a.canon ≥ 1 := by omega
        match hf : fuel - costO a.canon, hpos with
        | g+1, _ =>
          rw [hf] at ih'
          rw [scanLoop] at ih' ⊢
          rw [scanToken_space 32 _ cSpace_32]
          simpa using ih'

theorem fmtArgs_costD (args : List Obj) : ∀ ab, (∀ a ∈ args, ArgD a) → fmtArgs args = some ab →
    (args.map fun a => costO a.canon).sum ≤ ab.length := by
  induction args with
  | nil => intro ab _ _; simp
  | cons a as ih =>
    intro ab hall hab
    simp only [fmtArgs] at hab
    cases hx : fmtArg a with
    | none => simp [hx] at hab
    | some x =>
      cases hy : fmtArgs as with
      | none => simp [hx, hy] at hab
      | some y =>
        simp [hx, hy] at hab
        subst hab
        have h1 := (argD_bytes a (hall a (by simp)) x hx).1
        have h2 := ih y (fun b hb => hall b (by simp [hb])) hy
        simp
        omega

/-- operators with arbitrarily nested operands -/
structure OpD (op : Bytes × List Obj) : Prop where
  name : OpNameOk op.1
  args : ∀ a ∈ op.2, ArgD a
  count : op.2.length < Gen.content_maxOperatorArgs

theorem opD_step (op : Bytes × List Obj) (h : OpD op) (b : Bytes) (hb : fmtOp op.1 op.2 = some b) :
    OpStep b (op.1, op.2.map fun a => normD a.canon) := by
  obtain ⟨name, args⟩ := op
  obtain ⟨p1, p2⟩ := opName_not_pseudo name h.name
  simp only [fmtOp, p1, p2, Bool.false_eq_true, if_false] at hb
  cases hab : fmtArgs args with
  | none => simp [hab] at hb
  | some ab =>
    simp [hab] at hb
    subst hb
    refine ⟨ab ++ name, by simp, ?_⟩
    intro rest
    have hfirst : ∃ c tl, ab ++ name = c :: tl ∧ cSpace c = false ∧ (c == 37) = false := by
      match args, hab, h.args with
      | [], hab, _ =>
        simp [fmtArgs] at hab
        subst hab
        match name, h.name.ne, h.name.reg with
        | c :: tl, _, hreg =>
          obtain ⟨k1, k2, _⟩ := reg_byte_any c (hreg c (by simp))
          exact ⟨c, tl, rfl, k1, k2⟩
      | a :: as, hab, hargs =>
        simp only [fmtArgs] at hab
        cases hx : fmtArg a with
        | none => simp [hx] at hab
        | some x =>
          cases hy : fmtArgs as with
          | none => simp [hx, hy] at hab
          | some y =>
            simp [hx, hy] at hab
            subst hab
            obtain ⟨c, tl, e, k1, k2⟩ := (argD_bytes a (hargs a (by simp)) x hx).2
            subst e
            exact ⟨c, tl ++ 32 :: y ++ name, by simp, k1, k2⟩
    obtain ⟨c, tl, e, k1, k2⟩ := hfirst
    have hcost := fmtArgs_costD args ab h.args hab
    have hloop := scanLoop_argsD args [] ab name rest ((ab ++ name ++ 10 :: rest).length + 1)
      h.args hab h.name (by simpa using h.count) (by simp; omega)
    have e2 : ab ++ name ++ 10 :: rest = c :: (tl ++ 10 :: rest) := by rw [e]; simp
    rw [e2] at hloop
    simp only [List.append_assoc] at e2 ⊢
    rw [e2]
    simp only [scanOne, skipSp, k1, k2, Bool.false_eq_true, if_false]
    simpa using hloop

end PdfVerif.C15cntm

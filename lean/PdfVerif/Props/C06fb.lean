import PdfVerif.Model.FBPredict
import PdfVerif.Model.FBCCITT
import PdfVerif.Model.FBParams
import PdfVerif.Props.C08fb
/-!
C06 (work package FB): round trips of the PNG/TIFF predictors, consistency of the CCITT code
tables, parameter round trip (`MakeFilter (Info f) ≈ f`) and `appendFilter` alignment.

Predictors (all theorems for ALL rows / data, by induction over the row and over the rows):
* `paeth_mem`, `paeth_lt`, `paeth_left_on_tie`, `paeth_spec`: the Paeth predictor returns one of its
  arguments, the nearest to `a+b-c`, ties in the order left, above, upper left;
* `png_row_rt`: for every filter tag (also tags outside 0–4), every `bytesPerPixel`, every
  previous row and every row, un-filtering the filtered row gives the row back;
* `png_rows_rt`, `png_rt`: the same for whole data through the writer's and reader's row framing,
  with ANY per-row choice of tags (predictor 15), incl. the zero padding of a final partial row;
* `tiff_row_rt`, `tiff_rows_rt`, `tiff_rt`: TIFF predictor 2 for 1, 2, 4, 8, 16 bits per component,
  any number of colours and columns, padding bits preserved, any initial `prevValues`;
* `predictor_rt`: for every parameter set accepted by `Params.Validate`.
-/
namespace PdfVerif.C06fb
open PdfVerif PdfVerif.FB


theorem paeth_mem (a b c : Nat) : paeth a b c = a ∨ paeth a b c = b ∨ paeth a b c = c := by
  unfold paeth; simp only []; split
  · exact Or.inl rfl
  · split
    · exact Or.inr (Or.inl rfl)
    · exact Or.inr (Or.inr rfl)

theorem paeth_lt (a b c : Nat) (ha : a < 256) (hb : b < 256) (hc : c < 256) : paeth a b c < 256 := by
  rcases paeth_mem a b c with h | h | h <;> omega

theorem pngPredict_lt (alg l u ul : Nat) (hl : l < 256) (hu : u < 256) (hul : ul < 256) :
    pngPredict alg l u ul < 256 := by
  unfold pngPredict
  split
  · omega
  · omega
  · omega
  · omega
  · exact paeth_lt _ _ _ hl hu hul
  · omega

theorem nth_lt (l : List Nat) (i : Nat) (h : AllBytes l) : nth l i < 256 := by
  unfold nth
  rw [List.getD_eq_getElem?_getD]
  cases hget : l[i]? with
  | none => simp
  | some v =>
    simp
    exact h v (List.mem_of_getElem? hget)

theorem neighbours_lt (bpp : Nat) (s ps pr : Bytes) (hs : AllBytes s) (hps : AllBytes ps) (hpr : AllBytes pr) :
    (pngNeighbours bpp s ps pr).1 < 256 ∧ (pngNeighbours bpp s ps pr).2.1 < 256 ∧ (pngNeighbours bpp s ps pr).2.2 < 256 := by
  unfold pngNeighbours
  refine ⟨?_, ?_, ?_⟩
  · simp only []; split
    · exact nth_lt _ _ hs
    · omega
  · simp only []
    cases pr with
    | nil => simp
    | cons u rest => simp; exact (allBytes_cons u rest).1 hpr |>.1
  · simp only []; split
    · exact nth_lt _ _ hps
    · omega

theorem png_go_rt (alg bpp : Nat) (cur : Bytes) : ∀ (s ps pr : Bytes), AllBytes s → AllBytes ps → AllBytes pr → AllBytes cur →
    pngUnfilterGo alg bpp s ps pr (pngFilterGo alg bpp s ps pr cur) = cur := by
  induction cur with
  | nil => intros; simp [pngFilterGo, pngUnfilterGo]
  | cons c rest ih =>
    intro s ps pr hs hps hpr hcur
    have hc : c < 256 := ((allBytes_cons c rest).1 hcur).1
    have hrest : AllBytes rest := ((allBytes_cons c rest).1 hcur).2
    obtain ⟨h1, h2, h3⟩ := neighbours_lt bpp s ps pr hs hps hpr
    have hp := pngPredict_lt alg _ _ _ h1 h2 h3
    simp only [pngFilterGo, pngUnfilterGo]
    generalize hP : pngPredict alg (pngNeighbours bpp s ps pr).1 (pngNeighbours bpp s ps pr).2.1 (pngNeighbours bpp s ps pr).2.2 = P at hp
    have hcc : ((c + 256 - P) % 256 + P) % 256 = c := by omega
    rw [hcc]
    congr 1
    apply ih
    · exact (allBytes_cons c s).2 ⟨hc, hs⟩
    · refine (allBytes_cons _ ps).2 ⟨?_, hps⟩
      cases pr with
      | nil => simp
      | cons u r => simp; exact ((allBytes_cons u r).1 hpr).1
    · cases pr with
      | nil => simp
      | cons u r => simp; exact ((allBytes_cons u r).1 hpr).2
    · exact hrest

theorem png_row_rt (alg bpp : Nat) (prev cur : Bytes) (hp : AllBytes prev) (hc : AllBytes cur) :
    pngUnfilterRow alg bpp prev (pngFilterRow alg bpp prev cur) = cur := by
  unfold pngUnfilterRow pngFilterRow
  exact png_go_rt alg bpp cur [] [] prev (by simp) (by simp) hp hc



theorem pngFilterGo_length (alg bpp : Nat) (cur : Bytes) : ∀ s ps pr, (pngFilterGo alg bpp s ps pr cur).length = cur.length := by
  induction cur with
  | nil => intros; simp [pngFilterGo]
  | cons c rest ih => intro s ps pr; simp [pngFilterGo, ih]

theorem pngFilterRow_length (alg bpp : Nat) (prev cur : Bytes) : (pngFilterRow alg bpp prev cur).length = cur.length :=
  pngFilterGo_length alg bpp cur [] [] prev

/-- the data as the writer sees it: whole rows, the last one zero padded -/
def padRows (rb : Nat) : Nat → Bytes → Bytes
  | 0, _ => []
  | fuel + 1, data =>
    if data.isEmpty then []
    else
      let row := data.take rb
      (row ++ List.replicate (rb - row.length) 0) ++ padRows rb fuel (data.drop rb)

theorem allBytes_take (l : Bytes) (n : Nat) (h : AllBytes l) : AllBytes (l.take n) :=
  fun b hb => h b (List.mem_of_mem_take hb)
theorem allBytes_drop (l : Bytes) (n : Nat) (h : AllBytes l) : AllBytes (l.drop n) :=
  fun b hb => h b (List.mem_of_mem_drop hb)
theorem allBytes_replicate0 (n : Nat) : AllBytes (List.replicate n 0) := by
  intro b hb; rw [List.mem_replicate] at hb; omega

theorem padRow_length (rb : Nat) (data : Bytes) :
    (data.take rb ++ List.replicate (rb - (data.take rb).length) 0).length = rb := by
  simp [List.length_take]; omega

theorem encRows_succ (g : Geo) (fuel : Nat) (tags prev data : Bytes) (hd : data.isEmpty = false) :
    encRows g (fuel + 1) tags prev data =
      encRow g (match tags with | [] => 0 | t :: _ => t) prev
        (data.take g.rowBytes ++ List.replicate (g.rowBytes - (data.take g.rowBytes).length) 0) ++
      encRows g fuel tags.tail (data.take g.rowBytes ++ List.replicate (g.rowBytes - (data.take g.rowBytes).length) 0)
        (data.drop g.rowBytes) := by
  conv => lhs; unfold encRows
  simp only [hd]; rfl

theorem take_app {α} (a b : List α) (n : Nat) (h : a.length = n) : (a ++ b).take n = a := by subst h; simp
theorem drop_app {α} (a b : List α) (n : Nat) (h : a.length = n) : (a ++ b).drop n = b := by subst h; simp

theorem png_rows_rt (g : Geo) (hpng : 10 ≤ g.predictor ∧ g.predictor ≤ 15) (hrb : 1 ≤ g.rowBytes) :
    ∀ (fuelE : Nat) (data prev tags : Bytes) (fuelD : Nat), AllBytes data → AllBytes prev →
      data.length < fuelE → (encRows g fuelE tags prev data).length < fuelD →
      decRows g fuelD prev (encRows g fuelE tags prev data) = (padRows g.rowBytes fuelE data, true) := by
  intro fuelE
  induction fuelE with
  | zero => intro data prev tags fuelD _ _ h; omega
  | succ fuel ih =>
    intro data prev tags fuelD hdata hprev hfe hfd
    have hp2 : g.predictor ≠ 2 := by omega
    cases hd : data.isEmpty with
    | true =>
      simp only [encRows, padRows, hd, if_true]
      cases fuelD with
      | zero => simp [decRows]
      | succ fd => simp [decRows]
    | false =>
      rw [encRows_succ g fuel tags prev data hd] at hfd ⊢
      simp only [padRows, hd]
      simp only [Bool.false_eq_true, if_false]
      generalize hrow : data.take g.rowBytes ++ List.replicate (g.rowBytes - (data.take g.rowBytes).length) 0 = row at *
      have hrowlen : row.length = g.rowBytes := by rw [← hrow]; exact padRow_length _ _
      have hrowB : AllBytes row := by
        rw [← hrow]; exact (allBytes_append _ _).2 ⟨allBytes_take _ _ hdata, allBytes_replicate0 _⟩
      generalize htag : (match tags with | [] => 0 | t :: _ => t) = tag at *
      generalize halg : (if g.predictor = 15 then tag else g.predictor - 10) = alg at *
      have henc : encRow g tag prev row = alg :: pngFilterRow alg g.bpp prev row := by
        simp [encRow, hp2, halg]
      generalize hE : encRow g tag prev row = E at *
      have hlen : E.length = g.rowBytes + 1 := by rw [henc]; simp [pngFilterRow_length, hrowlen]
      cases fuelD with
      | zero => omega
      | succ fd =>
        simp only [decRows, hp2, if_false]
        have hne : (E ++ encRows g fuel tags.tail row (List.drop g.rowBytes data)).isEmpty = false := by
          cases E with
          | nil => simp at hlen
          | cons e es => simp
        rw [hne]
        simp only [Bool.false_eq_true, if_false]
        have hge : ¬ ((E ++ encRows g fuel tags.tail row (List.drop g.rowBytes data)).length < g.rowBytes + 1) := by
          simp [hlen]
        rw [if_neg hge]
        have htake := take_app E (encRows g fuel tags.tail row (List.drop g.rowBytes data)) _ hlen
        have hdrop := drop_app E (encRows g fuel tags.tail row (List.drop g.rowBytes data)) _ hlen
        rw [htake, hdrop, henc]
        simp only []
        rw [png_row_rt alg g.bpp prev row hprev hrowB]
        have hdroplen : (List.drop g.rowBytes data).length < fuel := by
          have : data.length ≠ 0 := by
            intro h0; have := List.length_eq_zero_iff.1 h0; simp [this] at hd
          simp [List.length_drop]; omega
        have hfd' : (encRows g fuel tags.tail row (List.drop g.rowBytes data)).length < fd := by
          simp [List.length_append, hlen] at hfd; omega
        rw [ih (List.drop g.rowBytes data) row tags.tail fd (allBytes_drop _ _ hdata) hrowB hdroplen hfd']



theorem submod_addmod (c pv m : Nat) (hm : 0 < m) (hc : c < m) : ((c + m - pv % m) % m + pv) % m = c := by
  have hq : pv % m < m := Nat.mod_lt _ hm
  have h1 : ((c + m - pv % m) % m + pv) % m = ((c + m - pv % m) % m + pv % m) % m := by
    rw [Nat.add_mod, Nat.mod_mod]
  have h2 : ((c + m - pv % m) + pv % m) % m = ((c + m - pv % m) % m + pv % m) % m := by
    rw [Nat.add_mod, Nat.mod_mod]
  rw [h1, ← h2]
  have : c + m - pv % m + pv % m = c + m := by omega
  rw [this, Nat.add_mod_right, Nat.mod_eq_of_lt hc]

theorem nth_set_eq (l : List Nat) (k v : Nat) (h : k < l.length) : nth (l.set k v) k = v := by
  simp [nth, List.getD_eq_getElem?_getD, List.getElem?_set, h]

theorem nth_set_ne (l : List Nat) (k j v : Nat) (h : k ≠ j) : nth (l.set k v) j = nth l j := by
  simp [nth, List.getD_eq_getElem?_getD, List.getElem?_set, h]

/-- the two `prevValues` arrays agree wherever they will be read -/
def Agree (colors idx : Nat) (pvE pvD : List Nat) : Prop :=
  ∀ k, k < colors → (k < idx ∨ colors ≤ idx) → nth pvE k = nth pvD k

theorem tiffEncC_length (m colors n : Nat) (cs : List Nat) : ∀ idx pv,
    (tiffEncC m colors n idx pv cs).1.length = cs.length ∧ (tiffEncC m colors n idx pv cs).2.length = pv.length := by
  induction cs with
  | nil => intros; simp [tiffEncC]
  | cons c rest ih =>
    intro idx pv
    unfold tiffEncC
    split
    · have := ih (idx + 1) pv; simp [this]
    · have := ih (idx + 1) (pv.set (idx % colors) c); simp [this]

theorem tiffEncC_bound (m colors n : Nat) (hm : 0 < m) (cs : List Nat) : ∀ idx pv, (∀ c ∈ cs, c < m) →
    ∀ o ∈ (tiffEncC m colors n idx pv cs).1, o < m := by
  induction cs with
  | nil => intros _ _ _ o ho; simp [tiffEncC] at ho
  | cons c rest ih =>
    intro idx pv hcs o ho
    have hc : c < m := hcs c (by simp)
    have hrest : ∀ c ∈ rest, c < m := fun x hx => hcs x (by simp [hx])
    unfold tiffEncC at ho
    split at ho
    · simp at ho
      rcases ho with h | h
      · omega
      · exact ih _ _ hrest o h
    · simp at ho
      rcases ho with h | h
      · subst h; split
        · exact hc
        · exact Nat.mod_lt _ hm
      · exact ih _ _ hrest o h

theorem tiffC_rt (m colors n : Nat) (hm : 0 < m) (hcol : 0 < colors) (hn : colors ≤ n) (cs : List Nat) : ∀ idx pvE pvD,
    (∀ c ∈ cs, c < m) → pvE.length = colors → pvD.length = colors → Agree colors idx pvE pvD →
    (tiffDecC m colors n idx pvD (tiffEncC m colors n idx pvE cs).1).1 = cs ∧
    (tiffDecC m colors n idx pvD (tiffEncC m colors n idx pvE cs).1).2.length = colors ∧
    Agree colors (idx + cs.length) (tiffEncC m colors n idx pvE cs).2 (tiffDecC m colors n idx pvD (tiffEncC m colors n idx pvE cs).1).2 := by
  induction cs with
  | nil => intro idx pvE pvD _ hE hD hA; simp [tiffEncC, tiffDecC, hD]; exact hA
  | cons c rest ih =>
    intro idx pvE pvD hcs hE hD hA
    have hc : c < m := hcs c (by simp)
    have hrest : ∀ c ∈ rest, c < m := fun x hx => hcs x (by simp [hx])
    by_cases hni : n ≤ idx
    · have hA' : Agree colors (idx + 1) pvE pvD := fun k hk _ => hA k hk (Or.inr (by omega))
      obtain ⟨h1, h2, h3⟩ := ih (idx + 1) pvE pvD hrest hE hD hA'
      simp only [tiffEncC, hni, if_true, tiffDecC]
      refine ⟨by rw [h1], h2, ?_⟩
      have : idx + (c :: rest).length = idx + 1 + rest.length := by simp; omega
      rw [this]; exact h3
    · have hk : idx % colors < colors := Nat.mod_lt _ hcol
      -- value decoded at this position equals c
      have hval : (if idx < colors then (if idx < colors then c else (c + m - nth pvE (idx % colors) % m) % m)
                    else ((if idx < colors then c else (c + m - nth pvE (idx % colors) % m) % m) + nth pvD (idx % colors)) % m) = c := by
        by_cases hi : idx < colors
        · simp [hi]
        · simp only [hi, if_false]
          have := hA (idx % colors) hk (Or.inr (by omega))
          rw [← this]
          exact submod_addmod c _ m hm hc
      have hA' : Agree colors (idx + 1) (pvE.set (idx % colors) c) (pvD.set (idx % colors) c) := by
        intro k hkc hcond
        by_cases hkk : idx % colors = k
        · subst hkk; rw [nth_set_eq _ _ _ (by omega), nth_set_eq _ _ _ (by omega)]
        · rw [nth_set_ne _ _ _ _ hkk, nth_set_ne _ _ _ _ hkk]
          apply hA k hkc
          by_cases hi : idx < colors
          · have : idx % colors = idx := Nat.mod_eq_of_lt hi
            left; omega
          · right; omega
      obtain ⟨h1, h2, h3⟩ := ih (idx + 1) (pvE.set (idx % colors) c) (pvD.set (idx % colors) c) hrest (by simp [hE]) (by simp [hD]) hA'
      simp only [tiffEncC, hni, if_false, tiffDecC]
      rw [hval]
      refine ⟨by rw [h1], h2, ?_⟩
      have : idx + (c :: rest).length = idx + 1 + rest.length := by simp; omega
      rw [this]; exact h3

def subByte (bpc : Nat) : Prop := bpc = 1 ∨ bpc = 2 ∨ bpc = 4 ∨ bpc = 8

theorem unpack_length (bpc b : Nat) : (unpackByte bpc b).length = compsPerByte bpc := by
  unfold unpackByte compsPerByte; split <;> simp

theorem unpack_bound (bpc b : Nat) (hb : b < 256) (h : subByte bpc) : ∀ c ∈ unpackByte bpc b, c < 2 ^ bpc := by
  rcases h with h | h | h | h <;> subst h <;> simp [unpackByte] <;> omega

theorem pack_unpack (bpc b : Nat) (hb : b < 256) (h : subByte bpc) : packByte bpc (unpackByte bpc b) = b := by
  rcases h with h | h | h | h <;> subst h <;> simp [unpackByte, packByte] <;> omega

theorem unpack_pack (bpc : Nat) (h : subByte bpc) (cs : List Nat) (hl : cs.length = compsPerByte bpc)
    (hb : ∀ c ∈ cs, c < 2 ^ bpc) : unpackByte bpc (packByte bpc cs) = cs := by
  rcases h with h | h | h | h <;> subst h <;> simp [compsPerByte] at hl
  · match cs, hl with
    | [a, b, c, d, e, f, g, i], _ =>
      simp at hb
      obtain ⟨h1, h2, h3, h4, h5, h6, h7, h8⟩ := hb
      simp [unpackByte, packByte]
      refine ⟨?_, ?_, ?_, ?_, ?_, ?_, ?_, ?_⟩ <;> omega
  · match cs, hl with
    | [a, b, c, d], _ =>
      simp at hb
      obtain ⟨h1, h2, h3, h4⟩ := hb
      simp [unpackByte, packByte]
      refine ⟨?_, ?_, ?_, ?_⟩ <;> omega
  · match cs, hl with
    | [a, b], _ =>
      simp at hb
      obtain ⟨h1, h2⟩ := hb
      simp [unpackByte, packByte]
      refine ⟨?_, ?_⟩ <;> omega
  · match cs, hl with
    | [a], _ => simp [unpackByte, packByte]

theorem tiffBytes_length (dec : Bool) (bpc colors n : Nat) (row : Bytes) : ∀ idx pv,
    (tiffBytes dec bpc colors n idx pv row).length = row.length := by
  induction row with
  | nil => intros; simp [tiffBytes]
  | cons b rest ih => intro idx pv; simp [tiffBytes, ih]

theorem tiffBytes_rt (bpc colors n : Nat) (h : subByte bpc) (hcol : 0 < colors) (hn : colors ≤ n) (row : Bytes) :
    ∀ idx pvE pvD, AllBytes row → pvE.length = colors → pvD.length = colors → Agree colors idx pvE pvD →
    tiffBytes true bpc colors n idx pvD (tiffBytes false bpc colors n idx pvE row) = row := by
  induction row with
  | nil => intros; simp [tiffBytes]
  | cons b rest ih =>
    intro idx pvE pvD hrow hE hD hA
    have hb : b < 256 := ((allBytes_cons b rest).1 hrow).1
    have hrest : AllBytes rest := ((allBytes_cons b rest).1 hrow).2
    have hm : 0 < 2 ^ bpc := Nat.pow_pos (by omega)
    have hub := unpack_bound bpc b hb h
    obtain ⟨l1, l2⟩ := tiffEncC_length (2 ^ bpc) colors n (unpackByte bpc b) idx pvE
    have hbound := tiffEncC_bound (2 ^ bpc) colors n hm (unpackByte bpc b) idx pvE hub
    obtain ⟨r1, r2, r3⟩ := tiffC_rt (2 ^ bpc) colors n hm hcol hn (unpackByte bpc b) idx pvE pvD hub hE hD hA
    simp only [tiffBytes, Bool.false_eq_true, if_false, if_true]
    rw [unpack_pack bpc h _ (by rw [l1, unpack_length]) hbound]
    rw [r1, pack_unpack bpc b hb h]
    congr 1
    rw [unpack_length] at r3
    exact ih _ _ _ hrest (by rw [l2, hE]) r2 r3

theorem tiffBytes16_length (dec : Bool) (colors n : Nat) : ∀ (fuel : Nat) (row : Bytes) idx pv, row.length ≤ fuel →
    (tiffBytes16 dec colors n idx pv row).length = row.length := by
  intro fuel
  induction fuel with
  | zero => intro row idx pv h; have : row = [] := List.length_eq_zero_iff.1 (by omega); subst this; simp [tiffBytes16]
  | succ f ih =>
    intro row idx pv h
    match row with
    | [] => simp [tiffBytes16]
    | [b] => simp [tiffBytes16]
    | hi :: lo :: rest =>
      simp only [tiffBytes16]
      have e1 := (tiffEncC_length 65536 colors n [hi * 256 + lo] idx pv).1
      cases dec with
      | false =>
        simp only [Bool.false_eq_true, if_false]
        match hr : (tiffEncC 65536 colors n idx pv [hi * 256 + lo]).1, e1 with
        | [c], _ => simp; rw [ih rest _ _ (by simp at h; omega)]
      | true =>
        simp only [if_true]
        have e2 : (tiffDecC 65536 colors n idx pv [hi * 256 + lo]).1.length = 1 := by
          simp [tiffDecC]; split <;> simp
        match hr : (tiffDecC 65536 colors n idx pv [hi * 256 + lo]).1, e2 with
        | [c], _ => simp; rw [ih rest _ _ (by simp at h; omega)]

theorem tiffBytes16_rt (colors n : Nat) (hcol : 0 < colors) (hn : colors ≤ n) : ∀ (fuel : Nat) (row : Bytes),
    row.length ≤ fuel → ∀ idx pvE pvD, AllBytes row → pvE.length = colors → pvD.length = colors → Agree colors idx pvE pvD →
    tiffBytes16 true colors n idx pvD (tiffBytes16 false colors n idx pvE row) = row := by
  intro fuel
  induction fuel with
  | zero => intro row h; have : row = [] := List.length_eq_zero_iff.1 (by omega); subst this; intros; simp [tiffBytes16]
  | succ f ih =>
    intro row h idx pvE pvD hrow hE hD hA
    match row, hrow with
    | [], _ => simp [tiffBytes16]
    | [b], _ => simp [tiffBytes16]
    | hi :: lo :: rest, hrow =>
      have hhi : hi < 256 := ((allBytes_cons hi _).1 hrow).1
      have hlo : lo < 256 := ((allBytes_cons lo _).1 ((allBytes_cons hi _).1 hrow).2).1
      have hrest : AllBytes rest := ((allBytes_cons lo _).1 ((allBytes_cons hi _).1 hrow).2).2
      have hv : ∀ c ∈ [hi * 256 + lo], c < 65536 := by intro c hc; simp at hc; omega
      obtain ⟨l1, l2⟩ := tiffEncC_length 65536 colors n [hi * 256 + lo] idx pvE
      have hbound := tiffEncC_bound 65536 colors n (by omega) [hi * 256 + lo] idx pvE hv
      obtain ⟨r1, r2, r3⟩ := tiffC_rt 65536 colors n (by omega) hcol hn [hi * 256 + lo] idx pvE pvD hv hE hD hA
      simp only [tiffBytes16, Bool.false_eq_true, if_false]
      match hr : (tiffEncC 65536 colors n idx pvE [hi * 256 + lo]).1, l1 with
      | [c], _ =>
        have hc : c < 65536 := by have := hbound c; rw [hr] at this; exact this (by simp)
        simp only [tiffBytes16, if_true]
        have hcc : c / 256 * 256 + c % 256 = c := by omega
        rw [hcc]
        rw [hr] at r1 r2 r3
        rw [r1]
        simp only []
        have : (hi * 256 + lo) / 256 = hi := by omega
        have h2 : (hi * 256 + lo) % 256 = lo := by omega
        rw [this, h2]
        congr 2
        exact ih rest (by simp at h; omega) _ _ _ hrest (by rw [l2, hE]) r2 (by simpa using r3)

theorem agree_zero (colors : Nat) (hcol : 0 < colors) (pvE pvD : List Nat) : Agree colors 0 pvE pvD := by
  intro k hk h; omega

/-- TIFF predictor 2, one row, every bit depth: any two initial `prevValues` arrays -/
theorem tiff_row_rt (bpc colors columns : Nat) (hb : subByte bpc ∨ bpc = 16) (hcol : 1 ≤ colors) (hcols : 1 ≤ columns)
    (pvE pvD : List Nat) (hE : pvE.length = colors) (hD : pvD.length = colors) (row : Bytes) (hrow : AllBytes row) :
    tiffRow true bpc colors columns pvD (tiffRow false bpc colors columns pvE row) = row := by
  have hn : colors ≤ colors * columns := Nat.le_mul_of_pos_right _ hcols
  unfold tiffRow
  by_cases h16 : bpc = 16
  · simp only [h16, if_true]
    exact tiffBytes16_rt colors _ hcol hn row.length row (Nat.le_refl _) 0 pvE pvD hrow hE hD (agree_zero colors hcol _ _)
  · simp only [h16, if_false]
    have hs : subByte bpc := by rcases hb with h | h; exact h; exact absurd h h16
    exact tiffBytes_rt bpc colors _ hs hcol hn row 0 pvE pvD hrow hE hD (agree_zero colors hcol _ _)




theorem paeth_left_on_tie (a b c : Nat) (h1 : ((a : Int) + b - c - a).natAbs ≤ ((a : Int) + b - c - b).natAbs)
    (h2 : ((a : Int) + b - c - a).natAbs ≤ ((a : Int) + b - c - c).natAbs) : paeth a b c = a := by
  unfold paeth; simp only []; rw [if_pos ⟨h1, h2⟩]

/-- the value returned is nearest to `p = a + b - c` among the three -/
theorem paeth_spec (a b c : Nat) :
    let p : Int := (a : Int) + b - c
    (p - paeth a b c).natAbs ≤ (p - a).natAbs ∧ (p - paeth a b c).natAbs ≤ (p - b).natAbs ∧
    (p - paeth a b c).natAbs ≤ (p - c).natAbs := by
  intro p
  unfold paeth
  simp only []
  split
  · rename_i h; exact ⟨Nat.le_refl _, h.1, h.2⟩
  · rename_i h
    split
    · rename_i h2; refine ⟨?_, Nat.le_refl _, h2⟩; omega
    · rename_i h2; refine ⟨?_, ?_, Nat.le_refl _⟩ <;> omega

example : paeth 10 20 15 = 15 := by decide      -- p = 15: upper left is nearest
example : paeth 3 3 3 = 3 := by decide
example : paeth 100 50 75 = 75 := by decide

theorem tiffRow_length (dec : Bool) (bpc colors columns : Nat) (pv : List Nat) (row : Bytes) :
    (tiffRow dec bpc colors columns pv row).length = row.length := by
  unfold tiffRow; split
  · exact tiffBytes16_length dec colors _ row.length row 0 pv (Nat.le_refl _)
  · exact tiffBytes_length dec bpc colors _ row 0 pv

theorem replicate_length_self (n : Nat) : (List.replicate n 0 : List Nat).length = n := by simp

theorem tiff_rows_rt (g : Geo) (hp : g.predictor = 2) (hrb : 1 ≤ g.rowBytes)
    (hb : subByte g.bpc ∨ g.bpc = 16) (hcol : 1 ≤ g.colors) (hcols : 1 ≤ g.columns) :
    ∀ (fuelE : Nat) (data prev tags : Bytes) (fuelD : Nat) (prevD : Bytes), AllBytes data →
      data.length < fuelE → (encRows g fuelE tags prev data).length < fuelD →
      decRows g fuelD prevD (encRows g fuelE tags prev data) = (padRows g.rowBytes fuelE data, true) := by
  intro fuelE
  induction fuelE with
  | zero => intro data prev tags fuelD _ _ h; omega
  | succ fuel ih =>
    intro data prev tags fuelD prevD hdata hfe hfd
    cases hd : data.isEmpty with
    | true =>
      simp only [encRows, padRows, hd, if_true]
      cases fuelD with
      | zero => simp [decRows]
      | succ fd => simp [decRows]
    | false =>
      rw [encRows_succ g fuel tags prev data hd] at hfd ⊢
      simp only [padRows, hd]
      simp only [Bool.false_eq_true, if_false]
      generalize hrow : data.take g.rowBytes ++ List.replicate (g.rowBytes - (data.take g.rowBytes).length) 0 = row at *
      have hrowlen : row.length = g.rowBytes := by rw [← hrow]; exact padRow_length _ _
      have hrowB : AllBytes row := by
        rw [← hrow]; exact (allBytes_append _ _).2 ⟨allBytes_take _ _ hdata, allBytes_replicate0 _⟩
      have henc : ∀ tag, encRow g tag prev row = tiffRow false g.bpc g.colors g.columns (List.replicate g.colors 0) row := by
        intro tag; simp [encRow, hp]
      rw [henc] at hfd ⊢
      generalize hE : tiffRow false g.bpc g.colors g.columns (List.replicate g.colors 0) row = E at *
      have hlen : E.length = g.rowBytes := by rw [← hE, tiffRow_length, hrowlen]
      cases fuelD with
      | zero => omega
      | succ fd =>
        simp only [decRows, hp, if_true]
        have hne : (E ++ encRows g fuel tags.tail row (List.drop g.rowBytes data)).isEmpty = false := by
          cases E with
          | nil => simp at hlen; omega
          | cons e es => simp
        rw [hne]
        simp only [Bool.false_eq_true, if_false]
        have hge : ¬ ((E ++ encRows g fuel tags.tail row (List.drop g.rowBytes data)).length < g.rowBytes) := by
          simp [hlen]
        rw [if_neg hge]
        have htake := take_app E (encRows g fuel tags.tail row (List.drop g.rowBytes data)) _ hlen
        have hdrop := drop_app E (encRows g fuel tags.tail row (List.drop g.rowBytes data)) _ hlen
        rw [htake, hdrop, ← hE]
        rw [tiff_row_rt g.bpc g.colors g.columns hb hcol hcols _ _ (by simp) (by simp) row hrowB]
        have hdroplen : (List.drop g.rowBytes data).length < fuel := by
          have : data.length ≠ 0 := by
            intro h0; have := List.length_eq_zero_iff.1 h0; simp [this] at hd
          simp [List.length_drop]; omega
        have hfd' : (encRows g fuel tags.tail row (List.drop g.rowBytes data)).length < fd := by
          simp [List.length_append, hlen] at hfd; omega
        rw [ih (List.drop g.rowBytes data) row tags.tail fd row (allBytes_drop _ _ hdata) hdroplen hfd']

/-- whole rows are not changed by the padding -/
theorem padRows_whole (rb : Nat) (hrb : 1 ≤ rb) : ∀ (fuel : Nat) (data : Bytes), data.length < fuel →
    data.length % rb = 0 → padRows rb fuel data = data := by
  intro fuel
  induction fuel with
  | zero => intro data h; omega
  | succ f ih =>
    intro data hf hm
    cases hd : data.isEmpty with
    | true => simp [padRows, hd]; exact (List.isEmpty_iff.1 hd)
    | false =>
      have hne : data.length ≠ 0 := by
        intro h0; have := List.length_eq_zero_iff.1 h0; simp [this] at hd
      have hge : rb ≤ data.length := by
        rcases Nat.lt_or_ge data.length rb with h | h
        · rw [Nat.mod_eq_of_lt h] at hm; omega
        · exact h
      simp only [padRows, hd, Bool.false_eq_true, if_false]
      have h1 : (List.take rb data).length = rb := by simp [List.length_take]; omega
      rw [h1, Nat.sub_self]
      simp only [List.replicate_zero, List.append_nil]
      rw [ih (data.drop rb) (by simp [List.length_drop]; omega) (by
        simp [List.length_drop]
        have : data.length = (data.length - rb) + rb := by omega
        rw [this, Nat.add_mod_right] at hm; exact hm)]
      exact List.take_append_drop rb data

/-- **png_rt**: PNG predictors 10–15 (15 with ANY per-row tags), every geometry, all data -/
theorem png_rt (g : Geo) (hpng : 10 ≤ g.predictor ∧ g.predictor ≤ 15) (hrb : 1 ≤ g.rowBytes)
    (tags data : Bytes) (hdata : AllBytes data) :
    decodeStream g (encodeStream g tags data) = (padRows g.rowBytes (data.length + 1) data, true) := by
  unfold decodeStream encodeStream
  rw [if_neg (by omega), if_neg (by omega)]
  exact png_rows_rt g hpng hrb _ data _ tags _ hdata (allBytes_replicate0 _) (by omega) (by omega)

/-- **tiff_rt**: TIFF predictor 2 for 1/2/4/8/16 bits, all colours/columns, all data -/
theorem tiff_rt (g : Geo) (hp : g.predictor = 2) (hrb : 1 ≤ g.rowBytes)
    (hb : subByte g.bpc ∨ g.bpc = 16) (hcol : 1 ≤ g.colors) (hcols : 1 ≤ g.columns)
    (tags data : Bytes) (hdata : AllBytes data) :
    decodeStream g (encodeStream g tags data) = (padRows g.rowBytes (data.length + 1) data, true) := by
  unfold decodeStream encodeStream
  rw [if_neg (by omega), if_neg (by omega)]
  exact tiff_rows_rt g hp hrb hb hcol hcols _ data _ tags _ _ hdata (by omega) (by omega)

/-- **predictor_rt**: for every parameter set `Params.Validate` accepts and every data made of
whole rows, the reader returns exactly what was written (predictor 15: whatever tags the writer
chose). -/
theorem predictor_rt (p : PParams) (hv : p.validate = true) (tags data : Bytes) (hdata : AllBytes data)
    (hwhole : p.predictor ≠ 1 → data.length % p.geo.rowBytes = 0) :
    decodeStream p.geo (encodeStream p.geo tags data) = (data, true) := by
  by_cases h1 : p.predictor = 1
  · simp [decodeStream, encodeStream, PParams.geo, h1]
  · obtain ⟨hr, hpred, hrow⟩ := C08fb.validate_reached p hv h1
    obtain ⟨b1, b2, b3, b4, _⟩ := C08fb.predict_buffers_bounded p hv h1
    have hrb : 1 ≤ p.geo.rowBytes := by simp [PParams.geo]; omega
    have hw := hwhole h1
    have hpad := padRows_whole p.geo.rowBytes hrb (data.length + 1) data (by omega) hw
    rcases hpred with h2 | h2
    · have hg2 : p.geo.predictor = 2 := by simp [PParams.geo, h2]
      have hb : subByte p.geo.bpc ∨ p.geo.bpc = 16 := by
        have := hr.bpc
        simp only [PParams.geo, subByte]
        rcases this with h | h | h | h | h <;> rw [h] <;> simp
      have hcol : 1 ≤ p.geo.colors := by have := hr.colors; simp [PParams.geo]; omega
      have hcols : 1 ≤ p.geo.columns := by have := hr.columns; simp [PParams.geo]; omega
      rw [tiff_rt p.geo hg2 hrb hb hcol hcols tags data hdata, hpad]
    · have hg : 10 ≤ p.geo.predictor ∧ p.geo.predictor ≤ 15 := by simp [PParams.geo]; omega
      rw [png_rt p.geo hg hrb tags data hdata, hpad]

example : (⟨3, 8, 2, 14⟩ : PParams).validate = true := by decide
example : decodeStream (⟨3, 8, 2, 14⟩ : PParams).geo (encodeStream (⟨3, 8, 2, 14⟩ : PParams).geo [] [1, 2, 3, 250, 5, 6, 9, 8, 7, 6, 5, 4])
    = ([1, 2, 3, 250, 5, 6, 9, 8, 7, 6, 5, 4], true) := by decide



/-! ### parameter round trip -/


/-- the parameters that take effect: the documented shorthands resolved (0 ↦ default), fields
that are not used without a predictor cleared -/
def effFlate (f : FFlate) : FFlate :=
  if usingPredictor f.predictor then
    ⟨f.predictor, if f.colors = 0 then 1 else f.colors, if f.bpc = 0 then 8 else f.bpc, if f.columns = 0 then 1 else f.columns⟩
  else ⟨1, 0, 0, 0⟩

theorem lookup_toDict (f : FFlate) (hu : usingPredictor f.predictor = true) :
    getInt f.toDict kPredictor = some f.predictor ∧
    getInt f.toDict kColors = (if f.colors ≠ 0 ∧ f.colors ≠ 1 then some f.colors else none) ∧
    getInt f.toDict kBitsPerComponent = (if f.bpc ≠ 0 ∧ f.bpc ≠ 8 then some f.bpc else none) ∧
    getInt f.toDict kColumns = (if f.columns ≠ 0 ∧ f.columns ≠ 1 then some f.columns else none) ∧
    getInt f.toDict kEarlyChange = none := by
  unfold FFlate.toDict
  rw [if_pos hu]
  by_cases h1 : f.colors ≠ 0 ∧ f.colors ≠ 1 <;> by_cases h2 : f.bpc ≠ 0 ∧ f.bpc ≠ 8 <;> by_cases h3 : f.columns ≠ 0 ∧ f.columns ≠ 1 <;>
    simp [h1, h2, h3, getInt, dlookup, kPredictor, kColors, kBitsPerComponent, kColumns, kEarlyChange]

theorem params_rt_core (f : FFlate) (v : Nat)
    (hv : validateFlateLZW v f.predictor f.colors f.bpc f.columns = true) (hc : f.colors ≤ maxInt) :
    parseFlate f.toDict = effFlate f := by
  have hN : (Gen.filter_FlatePredictorNone : Int) = 1 := by decide
  have hm : maxInt = 9223372036854775807 := by decide
  replace hv := C08fb.validate_base_of_validate hv
  unfold validateFlateLZWBase at hv
  split at hv; · simp at hv
  rename_i hpv
  have hpv' : predictorValid f.predictor = true := by simpa using hpv
  have hcases := C08fb.predictorValid_cases _ hpv'
  by_cases hu : usingPredictor f.predictor = true
  · obtain ⟨l1, l2, l3, l4, _⟩ := lookup_toDict f hu
    have hne : f.predictor ≠ 0 ∧ f.predictor ≠ 1 := by simpa [usingPredictor, hN] using hu
    simp only [hu] at hv
    simp at hv
    have hpp : parsePredictor f.toDict = f.predictor := by
      unfold parsePredictor; rw [l1]; simp [hpv', hne.1]
    unfold parseFlate effFlate
    rw [hpp, hN, if_pos hne.2, if_pos hu]
    have hcol : parseColors f.toDict = (if f.colors = 0 then 1 else f.colors) := by
      unfold parseColors; rw [l2]
      by_cases h0 : f.colors = 0
      · simp [h0]
      · by_cases h1 : f.colors = 1
        · simp [h1]
        · simp [h0, h1]; omega
    have hbpc : parseBpc f.toDict = (if f.bpc = 0 then 8 else f.bpc) := by
      unfold parseBpc; rw [l3]
      by_cases h0 : f.bpc = 0
      · simp [h0]
      · by_cases h8 : f.bpc = 8
        · simp [h8]
        · simp [h0, h8]; omega
    have hcols : parseColumns f.toDict = (if f.columns = 0 then 1 else f.columns) := by
      unfold parseColumns; rw [l4]
      by_cases h0 : f.columns = 0
      · simp [h0]
      · by_cases h1 : f.columns = 1
        · simp [h1]
        · simp [h0, h1]; omega
    rw [hcol, hbpc, hcols]
  · have hu' : usingPredictor f.predictor = false := by simpa using hu
    have hd : f.toDict = [] := by unfold FFlate.toDict; simp [hu']
    unfold parseFlate effFlate
    rw [hd]
    simp [parsePredictor, getInt, dlookup, hu', hN]


/-- **params_rt (Flate)**: for every filter value and version accepted by `FilterFlate.validate`,
parsing the dictionary of `Info` gives the effective parameters back -/
theorem params_rt_parseFlate (f : FFlate) (v : Nat) (hv : f.validate v = true) (hc : f.colors ≤ maxInt) :
    parseFlate f.toDict = effFlate f := by
  unfold FFlate.validate at hv
  split at hv
  · simp at hv
  · exact params_rt_core f v hv hc


theorem dlookup_append (key : Bytes) (a b : Dict) :
    dlookup key (a ++ b) = (dlookup key a).or (dlookup key b) := by
  induction a with
  | nil => simp [dlookup]
  | cons kv rest ih =>
    obtain ⟨k, v⟩ := kv
    by_cases hk : k = key <;> simp [dlookup, hk, ih]

theorem dlookup_optEntry (key k : Bytes) (v : Obj) (c : Bool) :
    dlookup key (optEntry c k v) = if c = true ∧ k = key then some v else none := by
  cases c <;> by_cases hk : k = key <;> simp [optEntry, dlookup, hk]

def effCCITT (f : FCCITT) : FCCITT :=
  { f with k := if f.k < 0 then -1 else f.k, columns := if f.columns = 0 then 1728 else f.columns }

theorem lookups_ccitt (f : FCCITT) :
    getInt f.toDict kK = (if f.k ≠ 0 then some f.k else none) ∧
    getBool f.toDict kEndOfLine = (if f.endOfLine then some true else none) ∧
    getBool f.toDict kEncodedByteAlign = (if f.byteAlign then some true else none) ∧
    getInt f.toDict kColumns = (if f.columns ≠ 0 ∧ f.columns ≠ 1728 then some f.columns else none) ∧
    getInt f.toDict kRows = (if f.rows > 0 then some f.rows else none) ∧
    getBool f.toDict kEndOfBlock = (if f.ignoreEOB then some false else none) ∧
    getBool f.toDict kBlackIs1 = (if f.blackIs1 then some true else none) ∧
    getInt f.toDict kDamaged = (if f.damaged > 0 then some f.damaged else none) := by
  refine ⟨?_, ?_, ?_, ?_, ?_, ?_, ?_, ?_⟩ <;>
    simp only [FCCITT.toDict, getInt, getBool, dlookup_append, dlookup_optEntry] <;>
    simp [kK, kEndOfLine, kEncodedByteAlign, kColumns, kRows, kEndOfBlock, kBlackIs1, kDamaged] <;>
    (repeat' split) <;> simp_all

/-- **params_rt (CCITTFax)**: for every filter value accepted by `validate`,
`parseCCITTFax (Info f)` is `f` with the shorthands resolved (`Columns` 0 ↦ 1728, every negative
`K` ↦ -1 which selects the same Group 4 coder) -/
theorem params_rt_parseCCITT (f : FCCITT) (hv : f.validate = true) (hk : f.k ≤ maxInt) :
    parseCCITTFax f.toDict = effCCITT f := by
  have hm : maxInt = 9223372036854775807 := by decide
  have hdv : maxDimV = 1048576 := by decide
  have hdp : maxDimP = 1048576 := by decide
  simp [FCCITT.validate, hdv] at hv
  have hg : geoMax f.cols ≤ 65536 := by
    have hh : (Gen.limits_MaxImageHeight : Int) = 65536 := by decide
    unfold geoMax; rw [hh]; omega
  have hg1 : 1 ≤ geoMax f.cols := by unfold geoMax; omega
  obtain ⟨lK, lE, lA, lC, lR, lB, lI, lD⟩ := lookups_ccitt f
  rw [hm] at hk
  have e1 : parseK f.toDict = (if f.k < 0 then -1 else f.k) := by
    unfold parseK; rw [lK, hm]
    by_cases h0 : f.k = 0
    · simp [h0]
    · simp [h0]
      split
      · rfl
      · rw [if_neg (by omega)]
  have e2 : parseFlag f.toDict kEndOfLine = f.endOfLine := by
    unfold parseFlag; rw [lE]; cases f.endOfLine <;> simp
  have e3 : parseFlag f.toDict kEncodedByteAlign = f.byteAlign := by
    unfold parseFlag; rw [lA]; cases f.byteAlign <;> simp
  have e4 : parseDim f.toDict kColumns 1728 = (if f.columns = 0 then 1728 else f.columns) := by
    unfold parseDim; rw [lC, hdp]
    by_cases h0 : f.columns = 0
    · simp [h0]
    · by_cases h1 : f.columns = 1728
      · simp [h1]
      · simp [h0, h1]; omega
  have e5 : parseDim f.toDict kRows 0 = f.rows := by
    unfold parseDim; rw [lR, hdp]
    by_cases h0 : f.rows > 0
    · simp [h0]; omega
    · simp [h0]; omega
  have e6 : parseIgnoreEOB f.toDict = f.ignoreEOB := by
    unfold parseIgnoreEOB; rw [lB]; cases f.ignoreEOB <;> simp
  have e7 : parseFlag f.toDict kBlackIs1 = f.blackIs1 := by
    unfold parseFlag; rw [lI]; cases f.blackIs1 <;> simp
  have e8 : parseDim f.toDict kDamaged 0 = f.damaged := by
    unfold parseDim; rw [lD, hdp]
    by_cases h0 : f.damaged > 0
    · simp [h0]; omega
    · simp [h0]; omega
  have e9 : min f.rows (geoMax (if f.columns = 0 then 1728 else f.columns)) = f.rows := by
    have := hv.2.1.2
    unfold FCCITT.cols at this
    omega
  unfold parseCCITTFax effCCITT
  rw [e1, e2, e3, e4, e5, e6, e7, e8, e9]

def effLZW (f : FLZW) : FLZW :=
  ⟨(effFlate f.toFlate).predictor, (effFlate f.toFlate).colors, (effFlate f.toFlate).bpc, (effFlate f.toFlate).columns, f.offByOne⟩

/-- the predictor entries are read the same with or without a trailing `/EarlyChange` entry -/
theorem lzw_lookups (f : FLZW) :
    getInt f.toDict kPredictor = getInt f.toFlate.toDict kPredictor ∧
    getInt f.toDict kColors = getInt f.toFlate.toDict kColors ∧
    getInt f.toDict kBitsPerComponent = getInt f.toFlate.toDict kBitsPerComponent ∧
    getInt f.toDict kColumns = getInt f.toFlate.toDict kColumns ∧
    getInt f.toDict kEarlyChange = (if f.offByOne then none else some 0) := by
  unfold FLZW.toDict FFlate.toDict
  by_cases hu : usingPredictor f.toFlate.predictor = true <;>
  by_cases h1 : f.toFlate.colors ≠ 0 ∧ f.toFlate.colors ≠ 1 <;> by_cases h2 : f.toFlate.bpc ≠ 0 ∧ f.toFlate.bpc ≠ 8 <;>
  by_cases h3 : f.toFlate.columns ≠ 0 ∧ f.toFlate.columns ≠ 1 <;> cases ho : f.offByOne <;>
    simp [hu, h1, h2, h3, getInt, dlookup, kPredictor, kColors, kBitsPerComponent, kColumns, kEarlyChange]

/-- **params_rt (LZW)**, incl. `EarlyChange` -/
theorem params_rt_parseLZW (f : FLZW) (v : Nat) (hv : f.validate v = true) (hc : f.colors ≤ maxInt) :
    parseLZW f.toDict = effLZW f := by
  obtain ⟨l1, l2, l3, l4, l5⟩ := lzw_lookups f
  have hpf := params_rt_core f.toFlate v hv hc
  have e : parseFlate f.toDict = parseFlate f.toFlate.toDict := by
    unfold parseFlate parsePredictor parseColors parseBpc parseColumns
    rw [l1, l2, l3, l4]
  unfold parseLZW effLZW
  rw [e, hpf, l5]
  cases f.offByOne <;> simp


/-- **params_rt** at the `MakeFilter` level: `MakeFilter (Info f) ≈ f` for Flate, LZW, Compress
(which writes Flate from PDF 1.2 on and LZW with the default `EarlyChange` before) and CCITTFax -/
theorem params_rt_flate (f : FFlate) (v : Nat) (hv : f.validate v = true) (hc : f.colors ≤ maxInt) :
    makeFilter nFlate f.toDict = .ok (.flate (effFlate f)) := by
  have : makeFilter nFlate f.toDict = .ok (.flate (parseFlate f.toDict)) := by
    simp [makeFilter, nFlate, nASCII85, nASCIIHex, nRunLength]
  rw [this, params_rt_parseFlate f v hv hc]

theorem params_rt_lzw (f : FLZW) (v : Nat) (hv : f.validate v = true) (hc : f.colors ≤ maxInt) :
    makeFilter nLZW f.toDict = .ok (.lzw (effLZW f)) := by
  have : makeFilter nLZW f.toDict = .ok (.lzw (parseLZW f.toDict)) := by
    simp [makeFilter, nFlate, nASCII85, nASCIIHex, nRunLength, nLZW]
  rw [this, params_rt_parseLZW f v hv hc]

theorem params_rt_ccitt (f : FCCITT) (hv : f.validate = true) (hk : f.k ≤ maxInt) :
    makeFilter nCCITT f.toDict = .ok (.ccitt (effCCITT f)) := by
  have : makeFilter nCCITT f.toDict = .ok (.ccitt (parseCCITTFax f.toDict)) := by
    simp [makeFilter, nFlate, nASCII85, nASCIIHex, nRunLength, nLZW, nCCITT]
  rw [this, params_rt_parseCCITT f hv hk]

/-- the effective parameters select the same coder: same predictor stage … -/
theorem effFlate_same_coder (f : FFlate) (v : Nat) (hv : f.validate v = true) :
    (effFlate f).pparams = f.pparams := by
  unfold FFlate.validate at hv
  split at hv; · simp at hv
  replace hv := C08fb.validate_base_of_validate hv
  unfold validateFlateLZWBase at hv
  split at hv; · simp at hv
  have hN : (Gen.filter_FlatePredictorNone : Int) = 1 := by decide
  by_cases hu : usingPredictor f.predictor = true
  · have hne : f.predictor ≠ 0 ∧ f.predictor ≠ 1 := by simpa [usingPredictor, hN] using hu
    unfold effFlate FFlate.pparams predictParams
    rw [if_pos hu]
    simp only []
    by_cases h1 : f.colors = 0 <;> by_cases h2 : f.bpc = 0 <;> by_cases h3 : f.columns = 0 <;> simp [h1, h2, h3, hne.1]
  · have hu' : usingPredictor f.predictor = false := by simpa using hu
    simp only [hu'] at hv
    simp at hv
    have h0 : f.predictor = 0 ∨ f.predictor = 1 := by
      simp [usingPredictor, hN] at hu'; omega
    unfold effFlate FFlate.pparams predictParams
    rw [if_neg hu]
    rcases h0 with h | h <;> simp [h, hv.1, hv.2.1, hv.2.2]

/-- … and the same CCITT coder and geometry -/
theorem effCCITT_same_coder (f : FCCITT) :
    (effCCITT f).encParams.columns = f.encParams.columns ∧
    ((effCCITT f).k < 0 ↔ f.k < 0) ∧ ((effCCITT f).k = 0 ↔ f.k = 0) ∧ (0 < f.k → (effCCITT f).k = f.k) := by
  unfold effCCITT FCCITT.encParams FCCITT.cols
  refine ⟨?_, ?_, ?_, ?_⟩
  · by_cases h : f.columns = 0 <;> simp [h]
  · simp only []; split <;> omega
  · simp only []; split <;> omega
  · intro h; simp only []; rw [if_neg (by omega)]

example : (⟨12, 0, 0, 5⟩ : FFlate).validate 9 = true := by decide
example : parseFlate (⟨12, 0, 0, 5⟩ : FFlate).toDict = ⟨12, 1, 8, 5⟩ := by decide
example : parseCCITTFax (⟨-7, true, false, 0, 3, true, false, 0⟩ : FCCITT).toDict = ⟨-1, true, false, 1728, 3, true, false, 0⟩ := by decide

/-- the spelling of the dictionary keys and filter names used by the model -/
theorem names_spelled :
    kPredictor = nm "Predictor" ∧ kColors = nm "Colors" ∧ kBitsPerComponent = nm "BitsPerComponent" ∧
    kColumns = nm "Columns" ∧ kEarlyChange = nm "EarlyChange" ∧ kK = nm "K" ∧ kEndOfLine = nm "EndOfLine" ∧
    kEncodedByteAlign = nm "EncodedByteAlign" ∧ kRows = nm "Rows" ∧ kEndOfBlock = nm "EndOfBlock" ∧
    kBlackIs1 = nm "BlackIs1" ∧ kDamaged = nm "DamagedRowsBeforeError" ∧ kColorTransform = nm "ColorTransform" ∧
    kName = nm "Name" ∧ kFilter = nm "Filter" ∧ kDecodeParms = nm "DecodeParms" ∧
    nASCII85 = nm "ASCII85Decode" ∧ nASCIIHex = nm "ASCIIHexDecode" ∧ nRunLength = nm "RunLengthDecode" ∧
    nFlate = nm "FlateDecode" ∧ nLZW = nm "LZWDecode" ∧ nCCITT = nm "CCITTFaxDecode" ∧ nDCT = nm "DCTDecode" ∧
    nJBIG2 = nm "JBIG2Decode" ∧ nJPX = nm "JPXDecode" ∧ nCrypt = nm "Crypt" ∧ nIdentity = nm "Identity" ∧
    nStdCF = nm "StdCF" := by decide +kernel


end PdfVerif.C06fb

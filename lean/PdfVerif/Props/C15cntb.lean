import PdfVerif.Model.CNTState
/-!
# C15 — `State.ApplyOperator` / `State.ClosingOperators`: closing balances

Statements are about `Model/CNTState.lean` (graphics/content/state.go), which the C15
correspondence run ties to the code (`CNT apply` lines: same accepted prefix, same object
state, nesting, q-stack depth, closing operators, and the same result of applying them).
The operator table, the object/pair constants and the case lists are the regenerated
`Generated/FactsCNT.lean`; every fact about them below is proved by `decide` over the whole
table, so a change of the table re-checks all of them.

Main theorems:

* `run_inv` — the structural invariant `Inv` holds after every accepted operator sequence
  (for all sequences, all operands, all content types, strict and lenient versions);
* `no_panic` — `Pop` never indexes an empty q/Q stack on an accepted sequence;
* `closing_balances` — for every accepted sequence, the operators returned by
  `ClosingOperators` are all accepted by `ApplyOperator`, the nesting is empty afterwards, and
  `CanClose` succeeds (unless the stream is a Type 3 glyph still waiting for `d0`/`d1`);
* `ver_run_nested`, `ver_closed_nested` — with `Version > 0` (the Builder; D-C15-5) an accepted
  sequence is properly nested: replayed on an ordinary stack of open pairs (`nested`, defined
  without `State`) every closer finds its own opener on top; followed by `ClosingOperators`
  nothing stays open.  With `Version = 0` (readers) cross-nested pairs are tolerated as before.
-/
namespace PdfVerif.C15cntb
open PdfVerif PdfVerif.CNT

/-! ## the generated constants -/

theorem consts : Gen.content_ObjPage = 1 ∧ Gen.content_ObjPath = 2 ∧ Gen.content_ObjText = 4 ∧
    Gen.content_ObjClippingPath = 8 ∧ Gen.content_ObjType3Start = 16 ∧
    Gen.content_pairQ = 1 ∧ Gen.content_pairBT = 2 ∧ Gen.content_pairBMC = 3 ∧ Gen.content_pairBX = 4 := by
  decide

def infoOf (v : List Nat) : Info :=
  { allowed := v.getD 0 0, transition := v.getD 1 0, sets := v.getD 2 0, requires := v.getD 3 0 }

theorem lookupOp_mem (tbl : List (Bytes × List Nat)) (name : Bytes) (i : Info)
    (h : lookupOp tbl name = some i) : ∃ e ∈ tbl, e.1 = name ∧ i = infoOf e.2 := by
  induction tbl with
  | nil => simp [lookupOp] at h
  | cons e rest ih =>
    obtain ⟨k, v⟩ := e
    simp only [lookupOp] at h
    split at h
    · rename_i hk
      simp at hk
      refine ⟨(k, v), by simp, hk, ?_⟩
      simp at h
      simp [infoOf, ← h]
    · obtain ⟨e, he, h1, h2⟩ := ih h
      exact ⟨e, by simp [he], h1, h2⟩

/-- the operators with a fixed structural effect in `ApplyStateChanges` -/
def structural (name : Bytes) : Bool :=
  name == Gen.content_OpPushGraphicsState || name == Gen.content_OpPopGraphicsState ||
  name == Gen.content_OpTextBegin || name == Gen.content_OpTextEnd ||
  name == Gen.content_OpBeginMarkedContent || name == Gen.content_OpBeginMarkedContentWithProperties ||
  name == Gen.content_OpEndMarkedContent || name == Gen.content_OpBeginCompatibility ||
  name == Gen.content_OpEndCompatibility

/-! ## facts about the whole operator table (`decide` over `Gen.content_operators`) -/

/-- only `BT` enters a text object -/
theorem tbl_to_text : ∀ e ∈ Gen.content_operators,
    (infoOf e.2).transition = 4 → e.1 = Gen.content_OpTextBegin := by decide +kernel

/-- an operator which changes the object state and is allowed inside a text object is `ET`
    (or `BT`, which `TextBegin` rejects there) -/
theorem tbl_from_text : ∀ e ∈ Gen.content_operators,
    (infoOf e.2).transition ≠ 0 → (infoOf e.2).allowed &&& 4 ≠ 0 → e.1 = Gen.content_OpTextEnd := by
  decide +kernel

/-- transitions lead to page, path, text or clipping-path state, never back to the Type 3 start -/
theorem tbl_transitions : ∀ e ∈ Gen.content_operators,
    (infoOf e.2).transition = 0 ∨ (infoOf e.2).transition = 1 ∨ (infoOf e.2).transition = 2 ∨
    (infoOf e.2).transition = 4 ∨ (infoOf e.2).transition = 8 := by decide +kernel

theorem opInfo_q : opInfo Gen.content_OpPushGraphicsState = some ⟨5, 0, 0, 0⟩ := by decide +kernel
theorem opInfo_Q : opInfo Gen.content_OpPopGraphicsState = some ⟨5, 0, 0, 0⟩ := by decide +kernel
theorem opInfo_BT : opInfo Gen.content_OpTextBegin = some ⟨1, 4, 1024, 0⟩ := by decide +kernel
theorem opInfo_ET : opInfo Gen.content_OpTextEnd = some ⟨4, 1, 0, 0⟩ := by decide +kernel
theorem opInfo_BMC : opInfo Gen.content_OpBeginMarkedContent = some ⟨5, 0, 0, 0⟩ := by decide +kernel
theorem opInfo_BDC : opInfo Gen.content_OpBeginMarkedContentWithProperties = some ⟨5, 0, 0, 0⟩ := by decide +kernel
theorem opInfo_EMC : opInfo Gen.content_OpEndMarkedContent = some ⟨5, 0, 0, 0⟩ := by decide +kernel
theorem opInfo_BX : opInfo Gen.content_OpBeginCompatibility = some ⟨31, 0, 0, 0⟩ := by decide +kernel
theorem opInfo_EX : opInfo Gen.content_OpEndCompatibility = some ⟨31, 0, 0, 0⟩ := by decide +kernel
theorem opInfo_n : opInfo Gen.content_OpEndPath = some ⟨10, 1, 0, 0⟩ := by decide +kernel

theorem andNot_zero (x : Nat) : andNot 0 x = 0 := by simp [andNot]

/-! ## the invariant -/

/-- Structural invariant of `State`:
* inside a text object exactly one `BT` frame is open, outside none;
* the q/Q stack has one entry per open `q` frame;
* with `0 < Version < 2.0`, no `q` frame was opened inside the open text object;
* while a Type 3 glyph waits for `d0`/`d1` only `BX` frames can be open;
* frames are of the four kinds, the object state is one of the five. -/
structure Inv (s : St) : Prop where
  text_in : s.obj = 4 → s.nesting.count 2 = 1
  text_out : s.obj ≠ 4 → s.nesting.count 2 = 0
  stack_len : s.stack.length = s.nesting.count 1
  strict_q : s.strict = true → s.obj = 4 → ∀ k ∈ s.nesting.takeWhile (· != 2), k ≠ 1
  t3 : s.obj = 16 → ∀ k ∈ s.nesting, k = 4
  kinds : ∀ k ∈ s.nesting, k = 1 ∨ k = 2 ∨ k = 3 ∨ k = 4
  objs : s.obj = 1 ∨ s.obj = 2 ∨ s.obj = 4 ∨ s.obj = 8 ∨ s.obj = 16

/-- `NewState` establishes the invariant for every content type and version -/
theorem init_inv (ct : Nat) (strict ver : Bool) : Inv (initSt ct strict ver) := by
  by_cases h : ct = 5 <;> constructor <;>
    simp [initSt, h, Gen.content_ObjType3Start, Gen.content_ObjPage]

/-! ## what one accepted `ApplyOperator` call does to the modelled structure -/

theorem applySwitch_other (s s1 : St) (name : Bytes) (args : List Obj) (h : structural name = false)
    (hs : applySwitch s name args = .ok s1) :
    s1.obj = s.obj ∧ s1.nesting = s.nesting ∧ s1.stack = s.stack ∧ s1.strict = s.strict := by
  simp only [structural, Bool.or_eq_false_iff] at h
  obtain ⟨⟨⟨⟨⟨⟨⟨⟨h1, h2⟩, h3⟩, h4⟩, h5⟩, h6⟩, h7⟩, h8⟩, h9⟩ := h
  simp only [applySwitch, h1, h2, h3, h4, h5, h6, h7, h8, h9, Bool.false_eq_true, if_false, Bool.or_false] at hs
  repeat' (split at hs)
  all_goals (simp at hs; subst hs; simp)

theorem applyParams_skel (s : St) (name : Bytes) (args : List Obj) :
    (applyParams s name args).obj = s.obj ∧ (applyParams s name args).nesting = s.nesting ∧
    (applyParams s name args).stack = s.stack ∧ (applyParams s name args).strict = s.strict := by
  unfold applyParams
  repeat' split
  all_goals simp

/-- decomposition of an accepted call -/
theorem applyOperator_ok (s s' : St) (name : Bytes) (args : List Obj)
    (h : applyOperator s name args = .ok s') :
    (∀ i, opInfo name = some i → s.obj &&& i.allowed ≠ 0) ∧
    ∃ s0 s1, s0.obj = s.obj ∧ s0.nesting = s.nesting ∧ s0.stack = s.stack ∧ s0.strict = s.strict ∧
      applySwitch s0 name args = .ok s1 ∧
      s'.nesting = s1.nesting ∧ s'.stack = s1.stack ∧ s'.strict = s1.strict ∧
      s'.obj = (match opInfo name with
        | some i => if i.transition != 0 then i.transition else s1.obj
        | none => s1.obj) := by
  unfold applyOperator at h
  cases hop : opInfo name with
  | none =>
    simp only [hop] at h
    refine ⟨by simp, ?_⟩
    unfold applyStateChanges at h
    simp only [hop] at h
    cases hsw : applySwitch s name args with
    | error e => simp [hsw] at h
    | ok s1 =>
      simp only [hsw] at h
      have hp := applyParams_skel s1 name args
      refine ⟨s, s1, rfl, rfl, rfl, rfl, hsw, ?_⟩
      simp at h
      subst h
      simp [hp.1, hp.2.1, hp.2.2.1, hp.2.2.2]
  | some i =>
    simp only [hop] at h
    by_cases ha : s.obj &&& i.allowed = 0
    · simp [ha] at h
    · have ha' : (s.obj &&& i.allowed == 0) = false := by simpa using ha
      simp only [ha', Bool.false_eq_true, if_false] at h
      refine ⟨by intro j hj; cases hj; exact ha, ?_⟩
      have hasc : applyStateChanges s name args = .ok s' := by
        repeat' (split at h)
        all_goals first | exact h | (simp at h)
      unfold applyStateChanges at hasc
      simp only [hop] at hasc
      cases hsw : applySwitch { s with usable := s.usable ||| i.sets } name args with
      | error e => simp [hsw] at hasc
      | ok s1 =>
        simp only [hsw] at hasc
        refine ⟨{ s with usable := s.usable ||| i.sets }, s1, rfl, rfl, rfl, rfl, hsw, ?_⟩
        simp at hasc
        subst hasc
        by_cases ht : i.transition = 0
        · have hp := applyParams_skel s1 name args
          simp [ht, hp.1, hp.2.1, hp.2.2.1, hp.2.2.2]
        · have hp := applyParams_skel { s1 with obj := i.transition } name args
          simp [ht, hp.1, hp.2.1, hp.2.2.1, hp.2.2.2]

theorem takeWhile_erase_sub (p : Nat → Bool) (k : Nat) (hk : p k = true) (n : List Nat) :
    ∀ x ∈ (n.erase k).takeWhile p, x ∈ n.takeWhile p := by
  induction n with
  | nil => simp
  | cons a rest ih =>
    intro x hx
    by_cases hak : a = k
    · subst hak
      simp at hx
      simp [List.takeWhile, hk]
      exact .inr hx
    · have : (a == k) = false := by simpa using hak
      simp only [List.erase_cons, this] at hx
      by_cases hpa : p a = true
      · simp [List.takeWhile, hpa] at hx ⊢
        rcases hx with hx | hx
        · exact .inl hx
        · exact .inr (ih x hx)
      · simp [List.takeWhile, hpa] at hx

theorem count_erase_ne (n : List Nat) (a b : Nat) (h : a ≠ b) : (n.erase a).count b = n.count b := by
  induction n with
  | nil => simp
  | cons x rest ih =>
    by_cases hx : x = a
    · subst hx
      simp [List.count_cons, h]
    · have : (x == a) = false := by simpa using hx
      simp [List.erase_cons, this, List.count_cons, ih]

theorem count_erase_self (n : List Nat) (a : Nat) : (n.erase a).count a = n.count a - 1 := by
  induction n with
  | nil => simp
  | cons x rest ih =>
    by_cases hx : x = a
    · subst hx
      simp [List.count_cons]
    · have h1 : (x == a) = false := by simpa using hx
      simp [List.erase_cons, h1, List.count_cons, ih]

/-- a successful `popNesting` — tolerant or strict — removes the innermost frame of the kind -/
theorem popNesting_some (v : Bool) (n n' : List Nat) (k : Nat) (h : popNesting v n k = some n') :
    k ∈ n ∧ n' = n.erase k := by
  unfold popNesting at h
  cases v with
  | true =>
    simp only [if_true] at h
    cases n with
    | nil => simp at h
    | cons a rest =>
      simp only [] at h
      split at h
      · rename_i hak
        simp at hak h
        subst hak h
        simp
      · simp at h
  | false =>
    simp only [Bool.false_eq_true, if_false] at h
    split at h
    · rename_i hc
      simp at h hc
      exact ⟨hc, h.symm⟩
    · simp at h

/-- the frame on top is popped in both modes -/
theorem popNesting_head (v : Bool) (k : Nat) (rest : List Nat) : popNesting v (k :: rest) k = some rest := by
  cases v <;> simp [popNesting]

/-- with `Version > 0` only the frame on top is popped -/
theorem popNesting_ver (n n' : List Nat) (k : Nat) (h : popNesting true n k = some n') : n = k :: n' := by
  cases n with
  | nil => simp [popNesting] at h
  | cons a rest =>
    simp only [popNesting, if_true] at h
    split at h
    · rename_i hak
      simp at hak h
      subst hak h
      rfl
    · simp at h


/-- **One accepted operator preserves the invariant.** -/
theorem step_inv (s s' : St) (name : Bytes) (args : List Obj) (hinv : Inv s)
    (h : applyOperator s name args = .ok s') : Inv s' := by
  obtain ⟨hallow, s0, s1, e1, e2, e3, e4, hsw, f2, f3, f4, f1⟩ := applyOperator_ok s s' name args h
  by_cases hst : structural name = true
  · -- one of q Q BT ET BMC BDC EMC BX EX
    simp only [structural, Bool.or_eq_true, beq_iff_eq] at hst
    rcases hst with (((((((hq | hQ) | hBT) | hET) | hBMC) | hBDC) | hEMC) | hBX) | hEX
    · -- q
      subst hq
      have ha := hallow _ opInfo_q
      simp only [opInfo_q] at f1
      simp only [applySwitch, beq_self_eq_true, if_true] at hsw
      split at hsw
      · simp at hsw
      · rename_i hstr
        split at hsw
        · simp at hsw
        · simp at hsw
          subst hsw
          simp [e1, e2, e3, e4, Gen.content_pairQ] at f1 f2 f3 f4
          simp [e1, e4, Gen.content_ObjText] at hstr
          have hobj : s.obj = 1 ∨ s.obj = 4 := by
            rcases hinv.objs with o | o | o | o | o <;> simp [o] at ha <;> simp [o]
          constructor
          · intro ho; rw [f2]; simp [List.count_cons]; exact hinv.text_in (f1 ▸ ho)
          · intro ho; rw [f2]; simp [List.count_cons]; exact hinv.text_out (f1 ▸ ho)
          · rw [f2, f3]; simp [List.count_cons, hinv.stack_len]
          · intro hs ho
            rw [f4] at hs; rw [f1] at ho
            exact absurd ho (hstr hs)
          · intro ho; rw [f1] at ho
            rcases hobj with o | o <;> simp [o] at ho
          · intro k hk; rw [f2] at hk; simp at hk
            rcases hk with hk | hk
            · exact .inl hk
            · exact hinv.kinds k hk
          · rw [f1]; exact hinv.objs
    · -- Q
      subst hQ
      have ha := hallow _ opInfo_Q
      simp only [opInfo_Q] at f1
      simp only [applySwitch, show (Gen.content_OpPopGraphicsState == Gen.content_OpPushGraphicsState) = false by decide,
        beq_self_eq_true, if_true, Bool.false_eq_true, if_false] at hsw
      split at hsw
      · simp at hsw
      · rename_i hstr
        cases hpop : popNesting s0.ver s0.nesting Gen.content_pairQ with
        | none => simp [hpop] at hsw
        | some n' =>
          simp only [hpop] at hsw
          obtain ⟨hc, hn'⟩ := popNesting_some _ _ _ _ hpop
          subst hn'
          split at hsw
          · simp at hsw
          · rename_i sv below hstk
            simp at hsw
            subst hsw
            simp [e1, e2, e3, e4, Gen.content_pairQ] at f1 f2 f3 f4 hc hstk
            simp [e1, e4, Gen.content_ObjText] at hstr
            have hobj : s.obj = 1 ∨ s.obj = 4 := by
              rcases hinv.objs with o | o | o | o | o <;> simp [o] at ha <;> simp [o]
            constructor
            · intro ho; rw [f2, count_erase_ne _ _ _ (by decide)]; exact hinv.text_in (f1 ▸ ho)
            · intro ho; rw [f2, count_erase_ne _ _ _ (by decide)]; exact hinv.text_out (f1 ▸ ho)
            · rw [f2, f3, count_erase_self]
              have := hinv.stack_len
              rw [hstk] at this
              simp at this
              omega
            · intro hs ho
              rw [f4] at hs; rw [f1] at ho
              exact absurd ho (hstr hs)
            · intro ho; rw [f1] at ho
              rcases hobj with o | o <;> simp [o] at ho
            · intro k hk; rw [f2] at hk
              exact hinv.kinds k (List.mem_of_mem_erase hk)
            · rw [f1]; exact hinv.objs
    · -- BT
      subst hBT
      simp only [opInfo_BT] at f1
      simp only [applySwitch, show (Gen.content_OpTextBegin == Gen.content_OpPushGraphicsState) = false by decide,
        show (Gen.content_OpTextBegin == Gen.content_OpPopGraphicsState) = false by decide,
        beq_self_eq_true, if_true, Bool.false_eq_true, if_false] at hsw
      split at hsw
      · simp at hsw
      · rename_i hpage
        simp at hsw
        subst hsw
        simp [e1, e2, e3, e4, Gen.content_pairBT, Gen.content_ObjPage] at f1 f2 f3 f4 hpage
        have h0 := hinv.text_out (by rw [hpage]; decide)
        constructor
        · intro _; rw [f2]; simp [List.count_cons, h0]
        · intro ho; exact absurd f1 ho
        · rw [f2, f3]; simp [List.count_cons, hinv.stack_len]
        · intro _ _; rw [f2]; simp [List.takeWhile]
        · intro ho; rw [f1] at ho; simp at ho
        · intro k hk; rw [f2] at hk; simp at hk
          rcases hk with hk | hk
          · exact .inr (.inl hk)
          · exact hinv.kinds k hk
        · rw [f1]; simp
    · -- ET
      subst hET
      simp only [opInfo_ET] at f1
      simp only [applySwitch, show (Gen.content_OpTextEnd == Gen.content_OpPushGraphicsState) = false by decide,
        show (Gen.content_OpTextEnd == Gen.content_OpPopGraphicsState) = false by decide,
        show (Gen.content_OpTextEnd == Gen.content_OpTextBegin) = false by decide,
        beq_self_eq_true, if_true, Bool.false_eq_true, if_false] at hsw
      cases hpop : popNesting s0.ver s0.nesting Gen.content_pairBT with
      | none => simp [hpop] at hsw
      | some n' =>
        simp only [hpop] at hsw
        obtain ⟨hc, hn'⟩ := popNesting_some _ _ _ _ hpop
        subst hn'
        simp at hsw
        subst hsw
        simp [e1, e2, e3, e4, Gen.content_pairBT, Gen.content_ObjPage] at f1 f2 f3 f4 hc
        have ha := hallow _ opInfo_ET
        have hobj : s.obj = 4 := by
          rcases hinv.objs with o | o | o | o | o <;> simp [o] at ha <;> simp [o]
        have h1 := hinv.text_in hobj
        constructor
        · intro ho; rw [f1] at ho; simp at ho
        · intro _; rw [f2, count_erase_self, h1]
        · rw [f2, f3, count_erase_ne _ _ _ (by decide)]; exact hinv.stack_len
        · intro _ ho; rw [f1] at ho; simp at ho
        · intro ho; rw [f1] at ho; simp at ho
        · intro k hk; rw [f2] at hk
          exact hinv.kinds k (List.mem_of_mem_erase hk)
        · rw [f1]; simp
    · -- BMC
      subst hBMC
      have ha := hallow _ opInfo_BMC
      simp only [opInfo_BMC] at f1
      simp only [applySwitch, show (Gen.content_OpBeginMarkedContent == Gen.content_OpPushGraphicsState) = false by decide,
        show (Gen.content_OpBeginMarkedContent == Gen.content_OpPopGraphicsState) = false by decide,
        show (Gen.content_OpBeginMarkedContent == Gen.content_OpTextBegin) = false by decide,
        show (Gen.content_OpBeginMarkedContent == Gen.content_OpTextEnd) = false by decide,
        beq_self_eq_true, if_true, Bool.false_eq_true, if_false, Bool.true_or] at hsw
      simp at hsw
      subst hsw
      simp [e1, e2, e3, e4, Gen.content_pairBMC] at f1 f2 f3 f4
      have hobj : s.obj = 1 ∨ s.obj = 4 := by
        rcases hinv.objs with o | o | o | o | o <;> simp [o] at ha <;> simp [o]
      constructor
      · intro ho; rw [f2]; simp [List.count_cons]; exact hinv.text_in (f1 ▸ ho)
      · intro ho; rw [f2]; simp [List.count_cons]; exact hinv.text_out (f1 ▸ ho)
      · rw [f2, f3]; simp [List.count_cons, hinv.stack_len]
      · intro hs ho k hk
        rw [f2] at hk
        simp [List.takeWhile] at hk
        rcases hk with hk | hk
        · simp [hk]
        · exact hinv.strict_q (f4 ▸ hs) (f1 ▸ ho) k hk
      · intro ho; rw [f1] at ho
        rcases hobj with o | o <;> simp [o] at ho
      · intro k hk; rw [f2] at hk; simp at hk
        rcases hk with hk | hk
        · exact .inr (.inr (.inl hk))
        · exact hinv.kinds k hk
      · rw [f1]; exact hinv.objs
    · -- BDC
      subst hBDC
      have ha := hallow _ opInfo_BDC
      simp only [opInfo_BDC] at f1
      simp only [applySwitch, show (Gen.content_OpBeginMarkedContentWithProperties == Gen.content_OpPushGraphicsState) = false by decide,
        show (Gen.content_OpBeginMarkedContentWithProperties == Gen.content_OpPopGraphicsState) = false by decide,
        show (Gen.content_OpBeginMarkedContentWithProperties == Gen.content_OpTextBegin) = false by decide,
        show (Gen.content_OpBeginMarkedContentWithProperties == Gen.content_OpTextEnd) = false by decide,
        beq_self_eq_true, if_true, Bool.false_eq_true, if_false, Bool.or_true] at hsw
      simp at hsw
      subst hsw
      simp [e1, e2, e3, e4, Gen.content_pairBMC] at f1 f2 f3 f4
      have hobj : s.obj = 1 ∨ s.obj = 4 := by
        rcases hinv.objs with o | o | o | o | o <;> simp [o] at ha <;> simp [o]
      constructor
      · intro ho; rw [f2]; simp [List.count_cons]; exact hinv.text_in (f1 ▸ ho)
      · intro ho; rw [f2]; simp [List.count_cons]; exact hinv.text_out (f1 ▸ ho)
      · rw [f2, f3]; simp [List.count_cons, hinv.stack_len]
      · intro hs ho k hk
        rw [f2] at hk
        simp [List.takeWhile] at hk
        rcases hk with hk | hk
        · simp [hk]
        · exact hinv.strict_q (f4 ▸ hs) (f1 ▸ ho) k hk
      · intro ho; rw [f1] at ho
        rcases hobj with o | o <;> simp [o] at ho
      · intro k hk; rw [f2] at hk; simp at hk
        rcases hk with hk | hk
        · exact .inr (.inr (.inl hk))
        · exact hinv.kinds k hk
      · rw [f1]; exact hinv.objs
    · -- EMC
      subst hEMC
      have ha := hallow _ opInfo_EMC
      simp only [opInfo_EMC] at f1
      simp only [applySwitch, show (Gen.content_OpEndMarkedContent == Gen.content_OpPushGraphicsState) = false by decide,
        show (Gen.content_OpEndMarkedContent == Gen.content_OpPopGraphicsState) = false by decide,
        show (Gen.content_OpEndMarkedContent == Gen.content_OpTextBegin) = false by decide,
        show (Gen.content_OpEndMarkedContent == Gen.content_OpTextEnd) = false by decide,
        show (Gen.content_OpEndMarkedContent == Gen.content_OpBeginMarkedContent) = false by decide,
        show (Gen.content_OpEndMarkedContent == Gen.content_OpBeginMarkedContentWithProperties) = false by decide,
        beq_self_eq_true, if_true, Bool.false_eq_true, if_false, Bool.or_self] at hsw
      cases hpop : popNesting s0.ver s0.nesting Gen.content_pairBMC with
      | none => simp [hpop] at hsw
      | some n' =>
        simp only [hpop] at hsw
        obtain ⟨hc, hn'⟩ := popNesting_some _ _ _ _ hpop
        subst hn'
        simp at hsw
        subst hsw
        simp [e1, e2, e3, e4, Gen.content_pairBMC] at f1 f2 f3 f4
        have hobj : s.obj = 1 ∨ s.obj = 4 := by
          rcases hinv.objs with o | o | o | o | o <;> simp [o] at ha <;> simp [o]
        constructor
        · intro ho; rw [f2, count_erase_ne _ _ _ (by decide)]; exact hinv.text_in (f1 ▸ ho)
        · intro ho; rw [f2, count_erase_ne _ _ _ (by decide)]; exact hinv.text_out (f1 ▸ ho)
        · rw [f2, f3, count_erase_ne _ _ _ (by decide)]; exact hinv.stack_len
        · intro hs ho k hk
          rw [f2] at hk
          exact hinv.strict_q (f4 ▸ hs) (f1 ▸ ho) k (takeWhile_erase_sub _ 3 (by decide) _ k hk)
        · intro ho; rw [f1] at ho
          rcases hobj with o | o <;> simp [o] at ho
        · intro k hk; rw [f2] at hk
          exact hinv.kinds k (List.mem_of_mem_erase hk)
        · rw [f1]; exact hinv.objs
    · -- BX
      subst hBX
      simp only [opInfo_BX] at f1
      simp only [applySwitch, show (Gen.content_OpBeginCompatibility == Gen.content_OpPushGraphicsState) = false by decide,
        show (Gen.content_OpBeginCompatibility == Gen.content_OpPopGraphicsState) = false by decide,
        show (Gen.content_OpBeginCompatibility == Gen.content_OpTextBegin) = false by decide,
        show (Gen.content_OpBeginCompatibility == Gen.content_OpTextEnd) = false by decide,
        show (Gen.content_OpBeginCompatibility == Gen.content_OpBeginMarkedContent) = false by decide,
        show (Gen.content_OpBeginCompatibility == Gen.content_OpBeginMarkedContentWithProperties) = false by decide,
        show (Gen.content_OpBeginCompatibility == Gen.content_OpEndMarkedContent) = false by decide,
        beq_self_eq_true, if_true, Bool.false_eq_true, if_false, Bool.or_self] at hsw
      simp at hsw
      subst hsw
      simp [e1, e2, e3, e4, Gen.content_pairBX] at f1 f2 f3 f4
      constructor
      · intro ho; rw [f2]; simp [List.count_cons]; exact hinv.text_in (f1 ▸ ho)
      · intro ho; rw [f2]; simp [List.count_cons]; exact hinv.text_out (f1 ▸ ho)
      · rw [f2, f3]; simp [List.count_cons, hinv.stack_len]
      · intro hs ho k hk
        rw [f2] at hk
        simp [List.takeWhile] at hk
        rcases hk with hk | hk
        · simp [hk]
        · exact hinv.strict_q (f4 ▸ hs) (f1 ▸ ho) k hk
      · intro ho k hk; rw [f2] at hk; simp at hk
        rcases hk with hk | hk
        · exact hk
        · exact hinv.t3 (f1 ▸ ho) k hk
      · intro k hk; rw [f2] at hk; simp at hk
        rcases hk with hk | hk
        · exact .inr (.inr (.inr hk))
        · exact hinv.kinds k hk
      · rw [f1]; exact hinv.objs
    · -- EX
      subst hEX
      simp only [opInfo_EX] at f1
      simp only [applySwitch, show (Gen.content_OpEndCompatibility == Gen.content_OpPushGraphicsState) = false by decide,
        show (Gen.content_OpEndCompatibility == Gen.content_OpPopGraphicsState) = false by decide,
        show (Gen.content_OpEndCompatibility == Gen.content_OpTextBegin) = false by decide,
        show (Gen.content_OpEndCompatibility == Gen.content_OpTextEnd) = false by decide,
        show (Gen.content_OpEndCompatibility == Gen.content_OpBeginMarkedContent) = false by decide,
        show (Gen.content_OpEndCompatibility == Gen.content_OpBeginMarkedContentWithProperties) = false by decide,
        show (Gen.content_OpEndCompatibility == Gen.content_OpEndMarkedContent) = false by decide,
        show (Gen.content_OpEndCompatibility == Gen.content_OpBeginCompatibility) = false by decide,
        beq_self_eq_true, if_true, Bool.false_eq_true, if_false, Bool.or_self] at hsw
      cases hpop : popNesting s0.ver s0.nesting Gen.content_pairBX with
      | none => simp [hpop] at hsw
      | some n' =>
        simp only [hpop] at hsw
        obtain ⟨hc, hn'⟩ := popNesting_some _ _ _ _ hpop
        subst hn'
        simp at hsw
        subst hsw
        simp [e1, e2, e3, e4, Gen.content_pairBX] at f1 f2 f3 f4
        constructor
        · intro ho; rw [f2, count_erase_ne _ _ _ (by decide)]; exact hinv.text_in (f1 ▸ ho)
        · intro ho; rw [f2, count_erase_ne _ _ _ (by decide)]; exact hinv.text_out (f1 ▸ ho)
        · rw [f2, f3, count_erase_ne _ _ _ (by decide)]; exact hinv.stack_len
        · intro hs ho k hk
          rw [f2] at hk
          exact hinv.strict_q (f4 ▸ hs) (f1 ▸ ho) k (takeWhile_erase_sub _ 4 (by decide) _ k hk)
        · intro ho k hk; rw [f2] at hk
          exact hinv.t3 (f1 ▸ ho) k (List.mem_of_mem_erase hk)
        · intro k hk; rw [f2] at hk
          exact hinv.kinds k (List.mem_of_mem_erase hk)
        · rw [f1]; exact hinv.objs
  · -- any other operator (known or unknown): nesting and stack unchanged, the object state
    -- follows the table's transition
    have hst' : structural name = false := by simpa using hst
    obtain ⟨g1, g2, g3, g4⟩ := applySwitch_other s0 s1 name args hst' hsw
    have hn : s'.nesting = s.nesting := by rw [f2, g2, e2]
    have hk : s'.stack = s.stack := by rw [f3, g3, e3]
    have hs : s'.strict = s.strict := by rw [f4, g4, e4]
    have hne : name ≠ Gen.content_OpTextBegin ∧ name ≠ Gen.content_OpTextEnd := by
      simp only [structural, Bool.or_eq_false_iff, beq_eq_false_iff_ne] at hst'
      exact ⟨hst'.1.1.1.1.1.1.2, hst'.1.1.1.1.1.2⟩
    cases hop : opInfo name with
    | none =>
      simp only [hop] at f1
      have ho : s'.obj = s.obj := by rw [f1, g1, e1]
      constructor
      · intro h; rw [hn]; exact hinv.text_in (ho ▸ h)
      · intro h; rw [hn]; exact hinv.text_out (ho ▸ h)
      · rw [hn, hk]; exact hinv.stack_len
      · intro a b; rw [hn]; exact hinv.strict_q (hs ▸ a) (ho ▸ b)
      · intro a; rw [hn]; exact hinv.t3 (ho ▸ a)
      · rw [hn]; exact hinv.kinds
      · rw [ho]; exact hinv.objs
    | some i =>
      simp only [hop] at f1
      obtain ⟨e, hemem, hename, hei⟩ := lookupOp_mem _ _ _ hop
      have ha := hallow i hop
      by_cases ht : i.transition = 0
      · simp [ht] at f1
        have ho : s'.obj = s.obj := by rw [f1, g1, e1]
        constructor
        · intro h; rw [hn]; exact hinv.text_in (ho ▸ h)
        · intro h; rw [hn]; exact hinv.text_out (ho ▸ h)
        · rw [hn, hk]; exact hinv.stack_len
        · intro a b; rw [hn]; exact hinv.strict_q (hs ▸ a) (ho ▸ b)
        · intro a; rw [hn]; exact hinv.t3 (ho ▸ a)
        · rw [hn]; exact hinv.kinds
        · rw [ho]; exact hinv.objs
      · simp [ht] at f1
        -- the operator changes the object state: it is neither to nor from a text object
        have hnot4 : i.transition ≠ 4 := by
          intro h4
          exact hne.1 (hename ▸ tbl_to_text e hemem (hei ▸ h4))
        have hfrom : s.obj ≠ 4 := by
          intro h4
          have : i.allowed &&& 4 ≠ 0 := by rw [h4] at ha; rwa [Nat.and_comm] at ha
          exact hne.2 (hename ▸ tbl_from_text e hemem (hei ▸ ht) (hei ▸ this))
        have htr := tbl_transitions e hemem
        rw [← hei] at htr
        have hs'4 : s'.obj ≠ 4 := by rw [f1]; exact hnot4
        constructor
        · intro h; exact absurd h hs'4
        · intro _; rw [hn]; exact hinv.text_out hfrom
        · rw [hn, hk]; exact hinv.stack_len
        · intro _ b; exact absurd b hs'4
        · intro a; rw [f1] at a
          rcases htr with h | h | h | h | h <;> simp [h] at a ht
        · rw [hn]; exact hinv.kinds
        · rw [f1]
          rcases htr with h | h | h | h | h
          · exact absurd h ht
          · exact .inl h
          · exact .inr (.inl h)
          · exact .inr (.inr (.inl h))
          · exact .inr (.inr (.inr (.inl h)))

/-- **The invariant holds after every accepted operator sequence** (all sequences, all
operands, every start state satisfying it — in particular every `NewState`). -/
theorem run_inv (ops : List (Bytes × List Obj)) : ∀ (s s' : St), Inv s → run s ops = .ok s' → Inv s' := by
  induction ops with
  | nil => intro s s' hinv h; simp [run] at h; exact h ▸ hinv
  | cons op rest ih =>
    intro s s' hinv h
    obtain ⟨n, a⟩ := op
    simp only [run] at h
    cases hstep : applyOperator s n a with
    | error e => simp [hstep] at h
    | ok s1 =>
      simp only [hstep] at h
      exact ih s1 s' (step_inv s s1 n a hinv hstep) h


/-! ## no panic -/

theorem applySwitch_other_ok (s : St) (name : Bytes) (args : List Obj) (h : structural name = false) :
    ∃ s1, applySwitch s name args = .ok s1 := by
  simp only [structural, Bool.or_eq_false_iff] at h
  obtain ⟨⟨⟨⟨⟨⟨⟨⟨h1, h2⟩, h3⟩, h4⟩, h5⟩, h6⟩, h7⟩, h8⟩, h9⟩ := h
  simp only [applySwitch, h1, h2, h3, h4, h5, h6, h7, h8, h9, Bool.false_eq_true, if_false, Bool.or_false]
  repeat' split
  all_goals exact ⟨_, rfl⟩

theorem applySwitch_panic (s : St) (name : Bytes) (args : List Obj)
    (h : applySwitch s name args = .error .panic) :
    s.stack = [] ∧ Gen.content_pairQ ∈ s.nesting := by
  by_cases hst : structural name = true
  · simp only [structural, Bool.or_eq_true, beq_iff_eq] at hst
    rcases hst with (((((((hq | hQ) | hBT) | hET) | hBMC) | hBDC) | hEMC) | hBX) | hEX
    · subst hq
      simp only [applySwitch, beq_self_eq_true, if_true] at h
      repeat' (split at h)
      all_goals simp at h
    · subst hQ
      simp only [applySwitch, show (Gen.content_OpPopGraphicsState == Gen.content_OpPushGraphicsState) = false by decide,
        beq_self_eq_true, if_true, Bool.false_eq_true, if_false] at h
      split at h
      · simp at h
      · cases hpop : popNesting s.ver s.nesting Gen.content_pairQ with
        | none => simp [hpop] at h
        | some n' =>
          simp only [hpop] at h
          split at h
          · rename_i hs
            exact ⟨hs, (popNesting_some _ _ _ _ hpop).1⟩
          · simp at h
    · subst hBT
      simp only [applySwitch, show (Gen.content_OpTextBegin == Gen.content_OpPushGraphicsState) = false by decide,
        show (Gen.content_OpTextBegin == Gen.content_OpPopGraphicsState) = false by decide,
        beq_self_eq_true, if_true, Bool.false_eq_true, if_false] at h
      split at h <;> simp at h
    · subst hET
      simp only [applySwitch, show (Gen.content_OpTextEnd == Gen.content_OpPushGraphicsState) = false by decide,
        show (Gen.content_OpTextEnd == Gen.content_OpPopGraphicsState) = false by decide,
        show (Gen.content_OpTextEnd == Gen.content_OpTextBegin) = false by decide,
        beq_self_eq_true, if_true, Bool.false_eq_true, if_false] at h
      split at h <;> simp at h
    · subst hBMC
      simp [applySwitch, show (Gen.content_OpBeginMarkedContent == Gen.content_OpPushGraphicsState) = false by decide,
        show (Gen.content_OpBeginMarkedContent == Gen.content_OpPopGraphicsState) = false by decide,
        show (Gen.content_OpBeginMarkedContent == Gen.content_OpTextBegin) = false by decide,
        show (Gen.content_OpBeginMarkedContent == Gen.content_OpTextEnd) = false by decide] at h
    · subst hBDC
      simp [applySwitch, show (Gen.content_OpBeginMarkedContentWithProperties == Gen.content_OpPushGraphicsState) = false by decide,
        show (Gen.content_OpBeginMarkedContentWithProperties == Gen.content_OpPopGraphicsState) = false by decide,
        show (Gen.content_OpBeginMarkedContentWithProperties == Gen.content_OpTextBegin) = false by decide,
        show (Gen.content_OpBeginMarkedContentWithProperties == Gen.content_OpTextEnd) = false by decide] at h
    · subst hEMC
      simp only [applySwitch, show (Gen.content_OpEndMarkedContent == Gen.content_OpPushGraphicsState) = false by decide,
        show (Gen.content_OpEndMarkedContent == Gen.content_OpPopGraphicsState) = false by decide,
        show (Gen.content_OpEndMarkedContent == Gen.content_OpTextBegin) = false by decide,
        show (Gen.content_OpEndMarkedContent == Gen.content_OpTextEnd) = false by decide,
        show (Gen.content_OpEndMarkedContent == Gen.content_OpBeginMarkedContent) = false by decide,
        show (Gen.content_OpEndMarkedContent == Gen.content_OpBeginMarkedContentWithProperties) = false by decide,
        beq_self_eq_true, if_true, Bool.false_eq_true, if_false, Bool.or_self] at h
      split at h <;> simp at h
    · subst hBX
      simp [applySwitch, show (Gen.content_OpBeginCompatibility == Gen.content_OpPushGraphicsState) = false by decide,
        show (Gen.content_OpBeginCompatibility == Gen.content_OpPopGraphicsState) = false by decide,
        show (Gen.content_OpBeginCompatibility == Gen.content_OpTextBegin) = false by decide,
        show (Gen.content_OpBeginCompatibility == Gen.content_OpTextEnd) = false by decide,
        show (Gen.content_OpBeginCompatibility == Gen.content_OpBeginMarkedContent) = false by decide,
        show (Gen.content_OpBeginCompatibility == Gen.content_OpBeginMarkedContentWithProperties) = false by decide,
        show (Gen.content_OpBeginCompatibility == Gen.content_OpEndMarkedContent) = false by decide] at h
    · subst hEX
      simp only [applySwitch, show (Gen.content_OpEndCompatibility == Gen.content_OpPushGraphicsState) = false by decide,
        show (Gen.content_OpEndCompatibility == Gen.content_OpPopGraphicsState) = false by decide,
        show (Gen.content_OpEndCompatibility == Gen.content_OpTextBegin) = false by decide,
        show (Gen.content_OpEndCompatibility == Gen.content_OpTextEnd) = false by decide,
        show (Gen.content_OpEndCompatibility == Gen.content_OpBeginMarkedContent) = false by decide,
        show (Gen.content_OpEndCompatibility == Gen.content_OpBeginMarkedContentWithProperties) = false by decide,
        show (Gen.content_OpEndCompatibility == Gen.content_OpEndMarkedContent) = false by decide,
        show (Gen.content_OpEndCompatibility == Gen.content_OpBeginCompatibility) = false by decide,
        beq_self_eq_true, if_true, Bool.false_eq_true, if_false, Bool.or_self] at h
      split at h <;> simp at h
  · obtain ⟨s1, h1⟩ := applySwitch_other_ok s name args (by simpa using hst)
    rw [h1] at h
    simp at h

/-- `Pop` never indexes an empty q/Q stack in a state satisfying the invariant -/
theorem step_no_panic (s : St) (name : Bytes) (args : List Obj) (hinv : Inv s) :
    applyOperator s name args ≠ .error .panic := by
  intro h
  have key : ∀ s0 : St, s0.stack = s.stack → s0.nesting = s.nesting →
      applySwitch s0 name args ≠ .error .panic := by
    intro s0 e1 e2 hp
    obtain ⟨h1, h2⟩ := applySwitch_panic s0 name args hp
    rw [e1] at h1; rw [e2] at h2
    have := hinv.stack_len
    rw [h1] at this
    simp [Gen.content_pairQ] at this h2
    exact (List.count_eq_zero.mp this.symm) h2
  unfold applyOperator at h
  cases hop : opInfo name with
  | none =>
    simp only [hop] at h
    unfold applyStateChanges at h
    simp only [hop] at h
    cases hsw : applySwitch s name args with
    | error e =>
      simp [hsw] at h
      subst h
      exact key s rfl rfl hsw
    | ok s1 => simp [hsw] at h
  | some i =>
    simp only [hop] at h
    have hasc : applyStateChanges s name args = .error .panic := by
      repeat' (split at h)
      all_goals first | exact h | (simp at h)
    unfold applyStateChanges at hasc
    simp only [hop] at hasc
    cases hsw : applySwitch { s with usable := s.usable ||| i.sets } name args with
    | error e =>
      simp [hsw] at hasc
      subst hasc
      exact key { s with usable := s.usable ||| i.sets } rfl rfl hsw
    | ok s1 => simp [hsw] at hasc

/-- **No accepted or rejected sequence reaches the index-out-of-range branch of `Pop`.** -/
theorem no_panic (ops : List (Bytes × List Obj)) : ∀ (s : St), Inv s → run s ops ≠ .error .panic := by
  induction ops with
  | nil => intro s _ h; simp [run] at h
  | cons op rest ih =>
    intro s hinv h
    obtain ⟨n, a⟩ := op
    simp only [run] at h
    cases hstep : applyOperator s n a with
    | error e =>
      simp [hstep] at h
      subst h
      exact step_no_panic s n a hinv hstep
    | ok s1 =>
      simp only [hstep] at h
      exact ih s1 (step_inv s s1 n a hinv hstep) h

/-! ## the closing operators -/

theorem run_append (a b : List (Bytes × List Obj)) : ∀ (s s1 : St), run s a = .ok s1 → run s (a ++ b) = run s1 b := by
  induction a with
  | nil => intro s s1 h; simp [run] at h; simp [h]
  | cons op rest ih =>
    intro s s1 h
    obtain ⟨n, x⟩ := op
    simp only [run, List.cons_append] at h ⊢
    cases hstep : applyOperator s n x with
    | error e => simp [hstep] at h
    | ok s2 =>
      simp only [hstep] at h ⊢
      exact ih s2 s1 h

theorem apply_Q (s : St) (sv : Saved) (below : List Saved) (rest : List Nat)
    (h1 : s.obj = 1 ∨ s.obj = 4) (h2 : ¬ (s.strict = true ∧ s.obj = 4))
    (hn : s.nesting = 1 :: rest) (hs : s.stack = sv :: below) :
    applyOperator s Gen.content_OpPopGraphicsState [] =
      .ok { s with nesting := rest, stack := below, usable := sv.usable, dashEmpty := sv.dashEmpty } := by
  have hallow : ¬ (s.obj &&& 5 = 0) := by rcases h1 with h | h <;> simp [h]
  have hstr : (s.strict && s.obj == Gen.content_ObjText) = false := by
    simp [Gen.content_ObjText]; intro h; simpa [h] using h2
  have hstroke : isStrokeOp Gen.content_OpPopGraphicsState = false := by decide +kernel
  simp [applyOperator, opInfo_Q, hallow, hstroke, andNot_zero, applyStateChanges, applySwitch, hstr, hn, hs,
    popNesting_head, applyParams, Gen.content_pairQ,
    show (Gen.content_OpPopGraphicsState == Gen.content_OpPushGraphicsState) = false by decide,
    show (Gen.content_OpPopGraphicsState == Gen.content_OpSetLineDash) = false by decide]

theorem apply_ET (s : St) (rest : List Nat) (h1 : s.obj = 4) (hn : s.nesting = 2 :: rest) :
    applyOperator s Gen.content_OpTextEnd [] =
      .ok { s with nesting := rest, obj := 1, usable := andNot s.usable Gen.gfx_StateTextMatrix } := by
  have hstroke : isStrokeOp Gen.content_OpTextEnd = false := by decide +kernel
  simp [applyOperator, opInfo_ET, h1, hstroke, andNot_zero, applyStateChanges, applySwitch, hn,
    popNesting_head, applyParams, Gen.content_pairBT, Gen.content_ObjPage,
    show (Gen.content_OpTextEnd == Gen.content_OpPushGraphicsState) = false by decide,
    show (Gen.content_OpTextEnd == Gen.content_OpPopGraphicsState) = false by decide,
    show (Gen.content_OpTextEnd == Gen.content_OpTextBegin) = false by decide,
    show (Gen.content_OpTextEnd == Gen.content_OpSetLineDash) = false by decide]

theorem apply_EMC (s : St) (rest : List Nat) (h1 : s.obj = 1 ∨ s.obj = 4) (hn : s.nesting = 3 :: rest) :
    applyOperator s Gen.content_OpEndMarkedContent [] = .ok { s with nesting := rest } := by
  have hallow : ¬ (s.obj &&& 5 = 0) := by rcases h1 with h | h <;> simp [h]
  have hstroke : isStrokeOp Gen.content_OpEndMarkedContent = false := by decide +kernel
  simp [applyOperator, opInfo_EMC, hallow, hstroke, andNot_zero, applyStateChanges, applySwitch, hn,
    popNesting_head, applyParams, Gen.content_pairBMC,
    show (Gen.content_OpEndMarkedContent == Gen.content_OpPushGraphicsState) = false by decide,
    show (Gen.content_OpEndMarkedContent == Gen.content_OpPopGraphicsState) = false by decide,
    show (Gen.content_OpEndMarkedContent == Gen.content_OpTextBegin) = false by decide,
    show (Gen.content_OpEndMarkedContent == Gen.content_OpTextEnd) = false by decide,
    show (Gen.content_OpEndMarkedContent == Gen.content_OpBeginMarkedContent) = false by decide,
    show (Gen.content_OpEndMarkedContent == Gen.content_OpBeginMarkedContentWithProperties) = false by decide,
    show (Gen.content_OpEndMarkedContent == Gen.content_OpSetLineDash) = false by decide]

theorem apply_EX (s : St) (rest : List Nat) (h1 : s.obj = 1 ∨ s.obj = 4 ∨ s.obj = 16) (hn : s.nesting = 4 :: rest) :
    applyOperator s Gen.content_OpEndCompatibility [] = .ok { s with nesting := rest, compat := s.compat - 1 } := by
  have hallow : ¬ (s.obj &&& 31 = 0) := by rcases h1 with h | h | h <;> simp [h]
  have hstroke : isStrokeOp Gen.content_OpEndCompatibility = false := by decide +kernel
  simp [applyOperator, opInfo_EX, hallow, hstroke, andNot_zero, applyStateChanges, applySwitch, hn,
    popNesting_head, applyParams, Gen.content_pairBX,
    show (Gen.content_OpEndCompatibility == Gen.content_OpPushGraphicsState) = false by decide,
    show (Gen.content_OpEndCompatibility == Gen.content_OpPopGraphicsState) = false by decide,
    show (Gen.content_OpEndCompatibility == Gen.content_OpTextBegin) = false by decide,
    show (Gen.content_OpEndCompatibility == Gen.content_OpTextEnd) = false by decide,
    show (Gen.content_OpEndCompatibility == Gen.content_OpBeginMarkedContent) = false by decide,
    show (Gen.content_OpEndCompatibility == Gen.content_OpBeginMarkedContentWithProperties) = false by decide,
    show (Gen.content_OpEndCompatibility == Gen.content_OpEndMarkedContent) = false by decide,
    show (Gen.content_OpEndCompatibility == Gen.content_OpBeginCompatibility) = false by decide,
    show (Gen.content_OpEndCompatibility == Gen.content_OpSetLineDash) = false by decide]

theorem apply_n (s : St) (h1 : s.obj = 2 ∨ s.obj = 8) :
    applyOperator s Gen.content_OpEndPath [] = .ok { s with obj := 1, path := [] } := by
  have hallow : ¬ (s.obj &&& 10 = 0) := by rcases h1 with h | h <;> simp [h]
  have hstroke : isStrokeOp Gen.content_OpEndPath = false := by decide +kernel
  have hpaint : isPaintOp Gen.content_OpEndPath = true := by decide +kernel
  simp [applyOperator, opInfo_n, hallow, hstroke, hpaint, andNot_zero, applyStateChanges, applySwitch, applyParams,
    show (Gen.content_OpEndPath == Gen.content_OpPushGraphicsState) = false by decide,
    show (Gen.content_OpEndPath == Gen.content_OpPopGraphicsState) = false by decide,
    show (Gen.content_OpEndPath == Gen.content_OpTextBegin) = false by decide,
    show (Gen.content_OpEndPath == Gen.content_OpTextEnd) = false by decide,
    show (Gen.content_OpEndPath == Gen.content_OpBeginMarkedContent) = false by decide,
    show (Gen.content_OpEndPath == Gen.content_OpBeginMarkedContentWithProperties) = false by decide,
    show (Gen.content_OpEndPath == Gen.content_OpEndMarkedContent) = false by decide,
    show (Gen.content_OpEndPath == Gen.content_OpBeginCompatibility) = false by decide,
    show (Gen.content_OpEndPath == Gen.content_OpEndCompatibility) = false by decide,
    show (Gen.content_OpEndPath == Gen.content_OpMoveTo) = false by decide,
    show (Gen.content_OpEndPath == Gen.content_OpLineTo) = false by decide,
    show (Gen.content_OpEndPath == Gen.content_OpCurveTo) = false by decide,
    show (Gen.content_OpEndPath == Gen.content_OpCurveToV) = false by decide,
    show (Gen.content_OpEndPath == Gen.content_OpCurveToY) = false by decide,
    show (Gen.content_OpEndPath == Gen.content_OpClosePath) = false by decide,
    show (Gen.content_OpEndPath == Gen.content_OpRectangle) = false by decide,
    show (Gen.content_OpEndPath == Gen.content_OpSetLineDash) = false by decide]

/-- the operator list of the nesting frames -/
def nestClosers (n : List Nat) : List (Bytes × List Obj) := (n.filterMap closerOf).map fun c => (c, [])

/-- closing the open frames from the innermost outwards: every closer is accepted -/
theorem close_nesting : ∀ (n : Nat) (s : St), s.nesting.length = n → Inv s →
    (s.obj = 1 ∨ s.obj = 4 ∨ s.obj = 16) →
    ∃ s', run s (nestClosers s.nesting) = .ok s' ∧ s'.nesting = [] ∧ s'.obj = (if s.obj = 16 then 16 else 1) := by
  intro n
  induction n with
  | zero =>
    intro s hlen hinv hobj
    have hn : s.nesting = [] := List.eq_nil_of_length_eq_zero hlen
    refine ⟨s, by simp [hn, nestClosers, run], hn, ?_⟩
    rcases hobj with o | o | o
    · simp [o]
    · have := hinv.text_in o
      simp [hn] at this
    · simp [o]
  | succ m ih =>
    intro s hlen hinv hobj
    match hnest : s.nesting with
    | [] => simp [hnest] at hlen
    | k :: rest =>
      have hk := hinv.kinds k (by simp [hnest])
      have hrestlen : rest.length = m := by simp [hnest] at hlen; exact hlen
      -- after the first closer the state is `s1` with nesting `rest`
      have fin : ∀ (c : Bytes) (s1 : St), closerOf k = some c → applyOperator s c [] = .ok s1 →
          s1.nesting = rest → (s1.obj = if k = 2 then 1 else s.obj) →
          ∃ s', run s (nestClosers (k :: rest)) = .ok s' ∧ s'.nesting = [] ∧ s'.obj = (if s.obj = 16 then 16 else 1) := by
        intro c s1 hc happ hn1 ho1
        have hinv1 := step_inv s s1 c [] hinv happ
        have hobj1 : s1.obj = 1 ∨ s1.obj = 4 ∨ s1.obj = 16 := by
          rw [ho1]; split
          · exact .inl rfl
          · exact hobj
        obtain ⟨s', hr, hn', ho'⟩ := ih s1 (by rw [hn1]; exact hrestlen) hinv1 hobj1
        refine ⟨s', ?_, hn', ?_⟩
        · simp only [nestClosers, List.filterMap_cons, hc, List.map_cons, run, happ]
          rw [hn1] at hr
          exact hr
        · rw [ho', ho1]
          by_cases h2 : k = 2
          · simp [h2]
            have : s.obj = 4 := by
              by_cases hne : s.obj = 4
              · exact hne
              · have := hinv.text_out hne
                simp [hnest, h2] at this
            simp [this]
          · simp [h2]
      rcases hk with hk | hk | hk | hk
      · -- q frame
        subst hk
        have ho : s.obj = 1 ∨ s.obj = 4 := by
          rcases hobj with o | o | o
          · exact .inl o
          · exact .inr o
          · have := hinv.t3 o 1 (by simp [hnest])
            simp at this
        have hstrict : ¬ (s.strict = true ∧ s.obj = 4) := by
          intro ⟨a, b⟩
          have := hinv.strict_q a b 1 (by simp [hnest, List.takeWhile])
          simp at this
        have hstk : ∃ sv below, s.stack = sv :: below := by
          have := hinv.stack_len
          simp [hnest, List.count_cons] at this
          match hs : s.stack with
          | [] => simp [hs] at this
          | sv :: below => exact ⟨sv, below, rfl⟩
        obtain ⟨sv, below, hs⟩ := hstk
        exact fin Gen.content_OpPopGraphicsState _ (by decide) (apply_Q s sv below rest ho hstrict hnest hs) rfl (by simp)
      · -- BT frame
        subst hk
        have ho : s.obj = 4 := by
          by_cases hne : s.obj = 4
          · exact hne
          · have := hinv.text_out hne
            simp [hnest] at this
        exact fin Gen.content_OpTextEnd _ (by decide) (apply_ET s rest ho hnest) rfl (by simp)
      · -- BMC frame
        subst hk
        have ho : s.obj = 1 ∨ s.obj = 4 := by
          rcases hobj with o | o | o
          · exact .inl o
          · exact .inr o
          · have := hinv.t3 o 3 (by simp [hnest])
            simp at this
        exact fin Gen.content_OpEndMarkedContent _ (by decide) (apply_EMC s rest ho hnest) rfl (by simp)
      · -- BX frame
        subst hk
        exact fin Gen.content_OpEndCompatibility _ (by decide) (apply_EX s rest hobj hnest) rfl (by simp)

/-- **Closing balances.**  For every start state satisfying the invariant (every `NewState`)
and every operator sequence accepted by `ApplyOperator`, the operators returned by
`ClosingOperators`, appended to the sequence, are all accepted; afterwards no paired operator
is open, and `CanClose` succeeds unless the stream is a Type 3 glyph procedure in which neither
`d0` nor `d1` has been seen. -/
theorem closing_balances (s0 s : St) (ops : List (Bytes × List Obj)) (h0 : Inv s0)
    (hrun : run s0 ops = .ok s) :
    ∃ s', run s0 (ops ++ (closingOperators s).map fun c => (c, [])) = .ok s' ∧
      s'.nesting = [] ∧ closingOperators s' = [] ∧ (s.obj ≠ 16 → canClose s' = true) := by
  have hinv := run_inv ops s0 s h0 hrun
  rw [run_append ops _ s0 s hrun]
  have finish : ∀ s', s'.nesting = [] → s'.obj = (if s.obj = 16 then 16 else 1) ∨ s'.obj = 1 →
      s'.nesting = [] ∧ closingOperators s' = [] ∧ (s.obj ≠ 16 → canClose s' = true) := by
    intro s' hn ho
    refine ⟨hn, ?_, ?_⟩
    · rcases ho with ho | ho
      · by_cases h16 : s.obj = 16 <;>
          simp [closingOperators, hn, ho, h16, Gen.content_ObjPath, Gen.content_ObjClippingPath]
      · simp [closingOperators, hn, ho, Gen.content_ObjPath, Gen.content_ObjClippingPath]
    · intro h16
      rcases ho with ho | ho <;> simp [canClose, hn, ho, h16, Gen.content_ObjPage]
  by_cases hpath : s.obj = 2 ∨ s.obj = 8
  · -- an open path is ended first
    have happ := apply_n s hpath
    have hinv1 := step_inv s _ _ [] hinv happ
    obtain ⟨s', hr, hn', ho'⟩ := close_nesting _ { s with obj := 1, path := [] } rfl hinv1 (.inl rfl)
    refine ⟨s', ?_, finish s' hn' (.inr (by simpa using ho'))⟩
    have hcl : closingOperators s = Gen.content_OpEndPath :: s.nesting.filterMap closerOf := by
      rcases hpath with o | o <;> simp [closingOperators, o, Gen.content_ObjPath, Gen.content_ObjClippingPath]
    simp only [hcl, List.map_cons, run, happ]
    exact hr
  · have hobj : s.obj = 1 ∨ s.obj = 4 ∨ s.obj = 16 := by
      rcases hinv.objs with o | o | o | o | o
      · exact .inl o
      · exact absurd (.inl o) hpath
      · exact .inr (.inl o)
      · exact absurd (.inr o) hpath
      · exact .inr (.inr o)
    obtain ⟨s', hr, hn', ho'⟩ := close_nesting _ s rfl hinv hobj
    refine ⟨s', ?_, finish s' hn' (.inl ho')⟩
    have hcl : closingOperators s = s.nesting.filterMap closerOf := by
      have h2 : s.obj ≠ 2 := fun h => hpath (.inl h)
      have h8 : s.obj ≠ 8 := fun h => hpath (.inr h)
      simp [closingOperators, h2, h8, Gen.content_ObjPath, Gen.content_ObjClippingPath]
    rw [hcl]
    exact hr

/-! ## nesting discipline with `Version > 0` (the Builder): pairs are properly nested -/

/-- the pair an operator opens -/
def openerOf (name : Bytes) : Option Nat :=
  if name == Gen.content_OpPushGraphicsState then some Gen.content_pairQ
  else if name == Gen.content_OpTextBegin then some Gen.content_pairBT
  else if name == Gen.content_OpBeginMarkedContent || name == Gen.content_OpBeginMarkedContentWithProperties then
    some Gen.content_pairBMC
  else if name == Gen.content_OpBeginCompatibility then some Gen.content_pairBX
  else none

/-- the pair an operator closes -/
def closedBy (name : Bytes) : Option Nat :=
  if name == Gen.content_OpPopGraphicsState then some Gen.content_pairQ
  else if name == Gen.content_OpTextEnd then some Gen.content_pairBT
  else if name == Gen.content_OpEndMarkedContent then some Gen.content_pairBMC
  else if name == Gen.content_OpEndCompatibility then some Gen.content_pairBX
  else none

/-- one operator on an ordinary stack of open pairs (innermost first), written without reference
to `State`: an opener pushes its kind, a closer must find its own kind **on top** -/
def nestStep (stk : List Nat) (name : Bytes) : Option (List Nat) :=
  match openerOf name with
  | some k => some (k :: stk)
  | none =>
    match closedBy name with
    | some k =>
      (match stk with
       | k' :: rest => if k' == k then some rest else none
       | [] => none)
    | none => some stk

/-- proper nesting of a whole sequence, from the open pairs `stk` -/
def nested : List Nat → List (Bytes × List Obj) → Option (List Nat)
  | stk, [] => some stk
  | stk, (n, _) :: rest =>
    match nestStep stk n with
    | some stk' => nested stk' rest
    | none => none

theorem applySwitch_other_ver (s s1 : St) (name : Bytes) (args : List Obj) (h : structural name = false)
    (hs : applySwitch s name args = .ok s1) : s1.ver = s.ver := by
  simp only [structural, Bool.or_eq_false_iff] at h
  obtain ⟨⟨⟨⟨⟨⟨⟨⟨h1, h2⟩, h3⟩, h4⟩, h5⟩, h6⟩, h7⟩, h8⟩, h9⟩ := h
  simp only [applySwitch, h1, h2, h3, h4, h5, h6, h7, h8, h9, Bool.false_eq_true, if_false, Bool.or_false] at hs
  repeat' (split at hs)
  all_goals (simp at hs; subst hs; simp)

theorem applyParams_ver (s : St) (name : Bytes) (args : List Obj) : (applyParams s name args).ver = s.ver := by
  unfold applyParams
  repeat' split
  all_goals simp

/-- what `ApplyStateChanges`' switch does to the nesting stack when `Version > 0` -/
theorem applySwitch_nest (s s1 : St) (name : Bytes) (args : List Obj) (hv : s.ver = true)
    (h : applySwitch s name args = .ok s1) : nestStep s.nesting name = some s1.nesting ∧ s1.ver = true := by
  by_cases hst : structural name = true
  · simp only [structural, Bool.or_eq_true, beq_iff_eq] at hst
    rcases hst with (((((((hq | hQ) | hBT) | hET) | hBMC) | hBDC) | hEMC) | hBX) | hEX
    · subst hq
      simp only [applySwitch, beq_self_eq_true, if_true] at h
      repeat' (split at h)
      all_goals (simp at h)
      subst h
      exact ⟨by simp [nestStep, show openerOf Gen.content_OpPushGraphicsState = some Gen.content_pairQ from by decide], hv⟩
    · subst hQ
      simp only [applySwitch, show (Gen.content_OpPopGraphicsState == Gen.content_OpPushGraphicsState) = false by decide,
        beq_self_eq_true, if_true, Bool.false_eq_true, if_false] at h
      split at h
      · simp at h
      · cases hpop : popNesting s.ver s.nesting Gen.content_pairQ with
        | none => simp [hpop] at h
        | some n' =>
          simp only [hpop] at h
          rw [hv] at hpop
          have hn := popNesting_ver _ _ _ hpop
          split at h
          · simp at h
          · simp at h
            subst h
            exact ⟨by simp [nestStep, hn, show openerOf Gen.content_OpPopGraphicsState = none from by decide,
              show closedBy Gen.content_OpPopGraphicsState = some Gen.content_pairQ from by decide], hv⟩
    · subst hBT
      simp only [applySwitch, show (Gen.content_OpTextBegin == Gen.content_OpPushGraphicsState) = false by decide,
        show (Gen.content_OpTextBegin == Gen.content_OpPopGraphicsState) = false by decide,
        beq_self_eq_true, if_true, Bool.false_eq_true, if_false] at h
      split at h
      · simp at h
      · simp at h
        subst h
        exact ⟨by simp [nestStep, show openerOf Gen.content_OpTextBegin = some Gen.content_pairBT from by decide], hv⟩
    · subst hET
      simp only [applySwitch, show (Gen.content_OpTextEnd == Gen.content_OpPushGraphicsState) = false by decide,
        show (Gen.content_OpTextEnd == Gen.content_OpPopGraphicsState) = false by decide,
        show (Gen.content_OpTextEnd == Gen.content_OpTextBegin) = false by decide,
        beq_self_eq_true, if_true, Bool.false_eq_true, if_false] at h
      cases hpop : popNesting s.ver s.nesting Gen.content_pairBT with
      | none => simp [hpop] at h
      | some n' =>
        simp only [hpop] at h
        rw [hv] at hpop
        have hn := popNesting_ver _ _ _ hpop
        simp at h
        subst h
        exact ⟨by simp [nestStep, hn, show openerOf Gen.content_OpTextEnd = none from by decide,
          show closedBy Gen.content_OpTextEnd = some Gen.content_pairBT from by decide], hv⟩
    · subst hBMC
      simp [applySwitch, show (Gen.content_OpBeginMarkedContent == Gen.content_OpPushGraphicsState) = false by decide,
        show (Gen.content_OpBeginMarkedContent == Gen.content_OpPopGraphicsState) = false by decide,
        show (Gen.content_OpBeginMarkedContent == Gen.content_OpTextBegin) = false by decide,
        show (Gen.content_OpBeginMarkedContent == Gen.content_OpTextEnd) = false by decide] at h
      subst h
      exact ⟨by simp [nestStep, show openerOf Gen.content_OpBeginMarkedContent = some Gen.content_pairBMC from by decide], hv⟩
    · subst hBDC
      simp [applySwitch, show (Gen.content_OpBeginMarkedContentWithProperties == Gen.content_OpPushGraphicsState) = false by decide,
        show (Gen.content_OpBeginMarkedContentWithProperties == Gen.content_OpPopGraphicsState) = false by decide,
        show (Gen.content_OpBeginMarkedContentWithProperties == Gen.content_OpTextBegin) = false by decide,
        show (Gen.content_OpBeginMarkedContentWithProperties == Gen.content_OpTextEnd) = false by decide] at h
      subst h
      exact ⟨by simp [nestStep, show openerOf Gen.content_OpBeginMarkedContentWithProperties = some Gen.content_pairBMC from by decide], hv⟩
    · subst hEMC
      simp only [applySwitch, show (Gen.content_OpEndMarkedContent == Gen.content_OpPushGraphicsState) = false by decide,
        show (Gen.content_OpEndMarkedContent == Gen.content_OpPopGraphicsState) = false by decide,
        show (Gen.content_OpEndMarkedContent == Gen.content_OpTextBegin) = false by decide,
        show (Gen.content_OpEndMarkedContent == Gen.content_OpTextEnd) = false by decide,
        show (Gen.content_OpEndMarkedContent == Gen.content_OpBeginMarkedContent) = false by decide,
        show (Gen.content_OpEndMarkedContent == Gen.content_OpBeginMarkedContentWithProperties) = false by decide,
        beq_self_eq_true, if_true, Bool.false_eq_true, if_false, Bool.or_self] at h
      cases hpop : popNesting s.ver s.nesting Gen.content_pairBMC with
      | none => simp [hpop] at h
      | some n' =>
        simp only [hpop] at h
        rw [hv] at hpop
        have hn := popNesting_ver _ _ _ hpop
        simp at h
        subst h
        exact ⟨by simp [nestStep, hn, show openerOf Gen.content_OpEndMarkedContent = none from by decide,
          show closedBy Gen.content_OpEndMarkedContent = some Gen.content_pairBMC from by decide], hv⟩
    · subst hBX
      simp [applySwitch, show (Gen.content_OpBeginCompatibility == Gen.content_OpPushGraphicsState) = false by decide,
        show (Gen.content_OpBeginCompatibility == Gen.content_OpPopGraphicsState) = false by decide,
        show (Gen.content_OpBeginCompatibility == Gen.content_OpTextBegin) = false by decide,
        show (Gen.content_OpBeginCompatibility == Gen.content_OpTextEnd) = false by decide,
        show (Gen.content_OpBeginCompatibility == Gen.content_OpBeginMarkedContent) = false by decide,
        show (Gen.content_OpBeginCompatibility == Gen.content_OpBeginMarkedContentWithProperties) = false by decide,
        show (Gen.content_OpBeginCompatibility == Gen.content_OpEndMarkedContent) = false by decide] at h
      subst h
      exact ⟨by simp [nestStep, show openerOf Gen.content_OpBeginCompatibility = some Gen.content_pairBX from by decide], hv⟩
    · subst hEX
      simp only [applySwitch, show (Gen.content_OpEndCompatibility == Gen.content_OpPushGraphicsState) = false by decide,
        show (Gen.content_OpEndCompatibility == Gen.content_OpPopGraphicsState) = false by decide,
        show (Gen.content_OpEndCompatibility == Gen.content_OpTextBegin) = false by decide,
        show (Gen.content_OpEndCompatibility == Gen.content_OpTextEnd) = false by decide,
        show (Gen.content_OpEndCompatibility == Gen.content_OpBeginMarkedContent) = false by decide,
        show (Gen.content_OpEndCompatibility == Gen.content_OpBeginMarkedContentWithProperties) = false by decide,
        show (Gen.content_OpEndCompatibility == Gen.content_OpEndMarkedContent) = false by decide,
        show (Gen.content_OpEndCompatibility == Gen.content_OpBeginCompatibility) = false by decide,
        beq_self_eq_true, if_true, Bool.false_eq_true, if_false, Bool.or_self] at h
      cases hpop : popNesting s.ver s.nesting Gen.content_pairBX with
      | none => simp [hpop] at h
      | some n' =>
        simp only [hpop] at h
        rw [hv] at hpop
        have hn := popNesting_ver _ _ _ hpop
        simp at h
        subst h
        exact ⟨by simp [nestStep, hn, show openerOf Gen.content_OpEndCompatibility = none from by decide,
          show closedBy Gen.content_OpEndCompatibility = some Gen.content_pairBX from by decide], hv⟩
  · have hst' : structural name = false := by simpa using hst
    have h1 := applySwitch_other s s1 name args hst' h
    have h2 := applySwitch_other_ver s s1 name args hst' h
    simp only [structural, Bool.or_eq_false_iff] at hst'
    obtain ⟨⟨⟨⟨⟨⟨⟨⟨g1, g2⟩, g3⟩, g4⟩, g5⟩, g6⟩, g7⟩, g8⟩, g9⟩ := hst'
    refine ⟨?_, by rw [h2, hv]⟩
    simp [nestStep, openerOf, closedBy, g1, g2, g3, g4, g5, g6, g7, g8, g9, h1.2.1]

/-- one accepted operator with `Version > 0` is one step of the ordinary stack discipline -/
theorem step_nested (s s' : St) (name : Bytes) (args : List Obj) (hv : s.ver = true)
    (h : applyOperator s name args = .ok s') : nestStep s.nesting name = some s'.nesting ∧ s'.ver = true := by
  have key : ∀ s0 : St, s0.nesting = s.nesting → s0.ver = true →
      applyStateChanges s0 name args = .ok s' → nestStep s.nesting name = some s'.nesting ∧ s'.ver = true := by
    intro s0 e1 e2 hasc
    unfold applyStateChanges at hasc
    cases hop : opInfo name with
    | none =>
      simp only [hop] at hasc
      cases hsw : applySwitch s0 name args with
      | error e => simp [hsw] at hasc
      | ok s1 =>
        simp only [hsw] at hasc
        simp at hasc
        subst hasc
        obtain ⟨n1, n2⟩ := applySwitch_nest s0 s1 name args e2 hsw
        rw [e1] at n1
        exact ⟨by rw [(applyParams_skel s1 name args).2.1]; exact n1, by rw [applyParams_ver]; exact n2⟩
    | some i =>
      simp only [hop] at hasc
      cases hsw : applySwitch { s0 with usable := s0.usable ||| i.sets } name args with
      | error e => simp [hsw] at hasc
      | ok s1 =>
        simp only [hsw] at hasc
        simp at hasc
        subst hasc
        obtain ⟨n1, n2⟩ := applySwitch_nest { s0 with usable := s0.usable ||| i.sets } s1 name args e2 hsw
        simp only [] at n1
        rw [e1] at n1
        refine ⟨?_, ?_⟩
        · rw [(applyParams_skel _ name args).2.1]; split <;> exact n1
        · rw [applyParams_ver]; split <;> exact n2
  unfold applyOperator at h
  cases hop : opInfo name with
  | none =>
    simp only [hop] at h
    exact key s rfl hv h
  | some i =>
    simp only [hop] at h
    have hasc : applyStateChanges s name args = .ok s' := by
      repeat' (split at h)
      all_goals first | exact h | (simp at h)
    exact key s rfl hv hasc

/-- **Nesting discipline.**  With `Version > 0` (every state the Builder works on) an accepted
operator sequence is properly nested: replayed on an ordinary stack, every `Q`, `ET`, `EMC`, `EX`
finds its own opener on top, and the stack reached is the nesting stack of the state. -/
theorem ver_run_nested (ops : List (Bytes × List Obj)) : ∀ (s s' : St), s.ver = true → run s ops = .ok s' →
    nested s.nesting ops = some s'.nesting ∧ s'.ver = true := by
  induction ops with
  | nil =>
    intro s s' hv h
    simp [run] at h
    subst h
    exact ⟨rfl, hv⟩
  | cons op rest ih =>
    intro s s' hv h
    obtain ⟨n, a⟩ := op
    simp only [run] at h
    cases hstep : applyOperator s n a with
    | error e => simp [hstep] at h
    | ok s1 =>
      simp only [hstep] at h
      obtain ⟨n1, n2⟩ := step_nested s s1 n a hv hstep
      obtain ⟨i1, i2⟩ := ih s1 s' n2 h
      exact ⟨by simp only [nested, n1]; exact i1, i2⟩

/-- **Builder streams are properly nested and balanced.**  For every content type and every
version `> 0`: an operator sequence accepted from a fresh state, followed by the state's
`ClosingOperators`, is a properly nested sequence of pairs which leaves nothing open. -/
theorem ver_closed_nested (ct : Nat) (strict : Bool) (ops : List (Bytes × List Obj)) (s : St)
    (hrun : run (initSt ct strict true) ops = .ok s) :
    nested [] (ops ++ (closingOperators s).map fun c => (c, [])) = some [] := by
  obtain ⟨s', hr, hn, _, _⟩ := closing_balances (initSt ct strict true) s ops (init_inv ct strict true) hrun
  have := (ver_run_nested _ _ _ (by simp [initSt]) hr).1
  rw [hn] at this
  simpa [initSt] using this

/-! ## non-vacuity: concrete accepted sequences with open frames -/

/-- `q BT BMC /x BX` on a PDF 1.7 page: accepted, four frames open, closers `EX EMC ET Q` -/
example : (match run (initSt 0 true true) [([113], []), ([66, 84], []), ([66, 77, 67], [.name [120]]), ([66, 88], [])] with
    | .ok s => s.nesting == [4, 3, 2, 1] && closingOperators s == [[69, 88], [69, 77, 67], [69, 84], [81]]
    | .error _ => false) = true := by decide +kernel

/-- cross-nested `BT q ET` (PDF 2.0): the q frame survives the ET -/
example : (match run (initSt 0 false false) [([66, 84], []), ([113], []), ([69, 84], [])] with
    | .ok s => s.nesting == [1] && s.obj == 1
    | .error _ => false) = true := by decide +kernel

/-- the same with `Version > 0` (Builder, PDF 2.0): `ET` does not find `BT` on top — rejected -/
example : (match run (initSt 0 false true) [([66, 84], []), ([113], []), ([69, 84], [])] with
    | .ok _ => false
    | .error e => e == .nomatch) = true := by decide +kernel

/-- `BT BMC ET EMC` with `Version > 0`: rejected; with `Version = 0` (readers) tolerated -/
example : (match run (initSt 0 true true) [([66, 84], []), ([66, 77, 67], [.name [120]]), ([69, 84], []), ([69, 77, 67], [])],
      run (initSt 0 false false) [([66, 84], []), ([66, 77, 67], [.name [120]]), ([69, 84], []), ([69, 77, 67], [])] with
    | .error _, .ok s => s.nesting == []
    | _, _ => false) = true := by decide +kernel

/-- an open clipping path inside q: closers `n Q` -/
example : (match run (initSt 0 true true) [([113], []), ([109], [.int 0, .int 0]), ([108], [.int 1, .int 1]), ([87], [])] with
    | .ok s => s.obj == 8 && closingOperators s == [[110], [81]]
    | .error _ => false) = true := by decide +kernel

end PdfVerif.C15cntb

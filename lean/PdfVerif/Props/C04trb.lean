import PdfVerif.Props.C01tr
import PdfVerif.Props.C08tr
import PdfVerif.Model.HISReader
/-!
# C04/C20 (translator bridge): helpers of the HIS reader model = code GENERATED from the Go sources

`Model/HISReader.lean` uses two small pure functions of the library: the trailer-key filter
(`Name.isSecondClassName` / `isThirdClassName`, types.go) and the xref-stream entry cap
(`limits.MaxXRefEntries`).  Both are proved equal to the generated functions.
-/
namespace PdfVerif.C04trb
open PdfVerif PdfVerif.Gen PdfVerif.Go

def nat (bs : List UInt8) : Bytes := bs.map (·.toNat)

/-- **bridge**: `HIS.isSpecialName` = `isSecondClassName || isThirdClassName` of the generated code
(neither panics), for every name -/
theorem isSpecialName_bridge (k : List UInt8) :
    ∃ b2 b3, pdf_Name_isSecondClassName k = some b2 ∧ pdf_Name_isThirdClassName k = some b3 ∧
      HIS.isSpecialName (nat k) = (b2 || b3) := by
  refine ⟨_, _, C01tr.isSecondClassName_spec k, C01tr.isThirdClassName_spec k, ?_⟩
  unfold HIS.isSpecialName nat
  congr 1
  · rw [← List.map_take, List.any_map]
    congr 1
    funext c
    simp only [Function.comp]
    rw [Bool.eq_iff_iff]
    simp [← UInt8.toNat_inj]
  · match k with
    | [] => simp
    | [a] => simp
    | a :: b :: rest =>
      simp only [List.map_cons, List.take_succ_cons, List.take_zero]
      by_cases ha : a = 88 <;> by_cases hb : b = 88
      · subst ha; subst hb; simp
      · subst ha
        have : b.toNat ≠ 88 := fun h => hb (UInt8.toNat_inj.mp h)
        simp [hb, this]
      · have : a.toNat ≠ 88 := fun h => ha (UInt8.toNat_inj.mp h)
        simp [ha, this]
      · have : a.toNat ≠ 88 := fun h => ha (UInt8.toNat_inj.mp h)
        simp [ha, this]

/-- **bridge**: the entry cap of the HIS model = generated `limits.MaxXRefEntries` (lengths < 2⁵⁷) -/
theorem maxXRefEntries_bridge (rawLen : Nat) (hn : rawLen < 144115188075855872) :
    ((limits_XRefEntriesBase + limits_XRefEntriesPerByte * rawLen : Nat) : Int) = lim_MaxXRefEntries (rawLen : Int) := by
  rw [C08tr.maxXRefEntries_spec_partial (rawLen : Int) ⟨by omega, by omega⟩ (by omega)]
  unfold limits_XRefEntriesBase limits_XRefEntriesPerByte lim_XRefEntriesBase lim_XRefEntriesPerByte
  omega

end PdfVerif.C04trb

import PdfVerif.Props.C12ccc
/-!
# C12 (part 4) — `AppendCode` and the round trips

`AppendCode` on a node array that represents the tree equals the tree-level encoder; encoding
then decoding reproduces the code, decoding then re-encoding reproduces the consumed bytes.
-/
namespace PdfVerif.C12ccd
open PdfVerif PdfVerif.CC PdfVerif.C12cc PdfVerif.C12ccb PdfVerif.C12ccc PdfVerif.Spec.CodeSpace

/-! ## `AppendCode` on the tree -/

mutual
/-- bytes emitted after the byte that selected the node -/
def nodeEnc : Node → (code : Nat) → Bytes
  | .valid, _ => []
  | .invalid k, code => emitBytes k code
  | .sub cs, code => kidsEnc cs code
/-- `AppendCode` on a child list: the low byte of `code` selects the child -/
def kidsEnc : List (Nat × Node) → (code : Nat) → Bytes
  | [], code => [code % 256]
  | (hi, n) :: rest, code =>
    if code % 256 ≤ hi then (code % 256) :: nodeEnc n (code / 256) else kidsEnc rest code
end

mutual
/-- levels below a node -/
def nodeDepth : Node → Nat
  | .sub cs => kidsDepth cs
  | _ => 0
def kidsDepth : List (Nat × Node) → Nat
  | [] => 1
  | (_, n) :: rest => max (nodeDepth n + 1) (kidsDepth rest)
end

/-- the `switch next` of `Codec.AppendCode` -/
def contEnc (nodes : List LNode) (fuel next b code : Nat) : Except CErr Bytes :=
  if next == Gen.cc_validLeaf then .ok [b]
  else if next == Gen.cc_invalidConsume3 then .ok (b :: emitBytes 3 code)
  else if next == Gen.cc_invalidConsume2 then .ok (b :: emitBytes 2 code)
  else if next == Gen.cc_invalidConsume1 then .ok (b :: emitBytes 1 code)
  else if next == Gen.cc_invalidConsume0 then .ok [b]
  else
    match appendLoop nodes fuel next code with
    | .error e => .error e
    | .ok bs => .ok (b :: bs)

theorem appendLoop_succ (nodes : List LNode) (fuel cur code : Nat) :
    appendLoop nodes (fuel + 1) cur code =
      match scan nodes nodes.length cur (code % 256) with
      | none => .error .panic
      | some (_, node) => contEnc nodes fuel node.child (code % 256) (code / 256) := by
  rw [appendLoop]
  cases scan nodes nodes.length cur (code % 256) with
  | none => rfl
  | some p => obtain ⟨i, node⟩ := p; rfl

theorem appendLoop_miss (nodes : List LNode) (fuel cur code : Nat) (ln : LNode)
    (h : nodes[cur]? = some ln) (hb : ¬ code % 256 ≤ ln.bound) :
    appendLoop nodes (fuel + 1) cur code = appendLoop nodes (fuel + 1) (cur + 1) code := by
  rw [appendLoop_succ, appendLoop_succ, scan_miss nodes cur _ ln h hb]

mutual
theorem node_enc (nodes : List LNode) (n : Node) (c : Nat) (hr : childOK nodes n c = true) (hc : n.covers = true)
    (fuel b code : Nat) (hd : nodeDepth n ≤ fuel) :
    contEnc nodes fuel c b code = .ok (b :: nodeEnc n code) := by
  match n with
  | .valid =>
    simp only [childOK, beq_iff_eq] at hr
    simp [contEnc, hr, nodeEnc]
  | .invalid k =>
    simp only [childOK, Bool.and_eq_true, decide_eq_true_eq, beq_iff_eq] at hr
    obtain ⟨hk, hc⟩ := hr
    have : k = 0 ∨ k = 1 ∨ k = 2 ∨ k = 3 := by omega
    rcases this with rfl | rfl | rfl | rfl <;>
      simp [contEnc, hc, nodeEnc, Gen.cc_invalidConsume0, Gen.cc_invalidConsume1,
        Gen.cc_invalidConsume2, Gen.cc_invalidConsume3, Gen.cc_validLeaf, emitBytes]
  | .sub cs =>
    simp only [childOK, Bool.and_eq_true, bne_iff_ne, ne_eq, decide_eq_true_eq] at hr
    obtain ⟨⟨h0, hlt⟩, hrep⟩ := hr
    simp only [Node.covers] at hc
    simp only [nodeDepth] at hd
    have e : contEnc nodes fuel c b code =
        match appendLoop nodes fuel c code with
        | .error e => .error e
        | .ok bs => .ok (b :: bs) := by
      simp only [contEnc, Gen.cc_validLeaf, Gen.cc_invalidConsume0, Gen.cc_invalidConsume1,
        Gen.cc_invalidConsume2, Gen.cc_invalidConsume3, Gen.cc_maxNodes] at *
      have h1 : (c == 0) = false := by simpa using h0
      have h2 : (c == 65532) = false := by simp; omega
      have h3 : (c == 65533) = false := by simp; omega
      have h4 : (c == 65534) = false := by simp; omega
      have h5 : (c == 65535) = false := by simp; omega
      simp [h1, h2, h3, h4, h5]
    rw [e, kids_enc nodes cs c hrep hc fuel code hd]
    simp [nodeEnc]
theorem kids_enc (nodes : List LNode) (cs : List (Nat × Node)) (idx : Nat) (hr : reprOK nodes cs idx = true)
    (hc : kidsCover cs = true) (fuel code : Nat) (hd : kidsDepth cs ≤ fuel) :
    appendLoop nodes fuel idx code = .ok (kidsEnc cs code) := by
  match cs with
  | [] => simp [kidsCover] at hc
  | (hi, n) :: rest =>
    simp only [kidsDepth] at hd
    cases fuel with
    | zero => omega
    | succ fuel =>
      have hb : code % 256 < 256 := Nat.mod_lt _ (by omega)
      simp only [reprOK] at hr
      split at hr
      · cases hr
      · rename_i ln hln
        simp only [Bool.and_eq_true, beq_iff_eq] at hr
        obtain ⟨⟨hbound, hchild⟩, hrest⟩ := hr
        by_cases hsel : code % 256 ≤ hi
        · have hcov : n.covers = true := by
            cases rest with
            | nil => simp [kidsCover] at hc; exact hc.2
            | cons _ _ => simp [kidsCover] at hc; exact hc.1
          rw [appendLoop_succ, scan_hit nodes idx _ ln hln (by omega)]
          simp only
          rw [node_enc nodes n ln.child hchild hcov fuel _ _ (by omega)]
          simp [kidsEnc, hsel]
        · cases rest with
          | nil => simp [kidsCover] at hc; omega
          | cons kid rest' =>
            have hcov : kidsCover (kid :: rest') = true := by simp [kidsCover] at hc; exact hc.2
            rw [appendLoop_miss nodes fuel idx code ln hln (by omega)]
            rw [kids_enc nodes (kid :: rest') (idx + 1) hrest hcov (fuel + 1) code (by omega)]
            simp [kidsEnc, hsel]
end


/-! ## depth of the tree -/

theorem kidsDepth_le (cs : List (Nat × Node)) (m : Nat) (h : ∀ kid ∈ cs, nodeDepth kid.2 ≤ m) :
    kidsDepth cs ≤ m + 1 := by
  induction cs with
  | nil => simp [kidsDepth]
  | cons kid cs ih =>
    obtain ⟨hi, n⟩ := kid
    simp only [kidsDepth]
    have h1 := h (hi, n) (by simp)
    have h2 := ih (fun k hk => h k (by simp [hk]))
    simp only at h1
    omega

theorem newTree_depth : ∀ (fuel : Nat) (S : CSR) (d : Nat) (cs : List (Nat × Node)),
    newTree fuel S d = .ok cs → kidsDepth cs ≤ fuel := by
  intro fuel
  induction fuel with
  | zero => intro S d cs h; simp [newTree] at h
  | succ fuel ih =>
    intro S d cs h
    simp only [newTree] at h
    split at h
    · cases h
    · apply kidsDepth_le
      refine mapE_all _ (fun kid => nodeDepth kid.2 ≤ fuel) _ cs h ?_
      intro iv kid _ hkid
      simp only [nodeFor] at hkid
      split at hkid
      · injection hkid with hkid; subst hkid; simp [nodeDepth]
      · split at hkid
        · injection hkid with hkid; subst hkid; simp [nodeDepth]
        · split at hkid
          · split at hkid
            · rename_i cs' hcs'
              injection hkid with hkid; subst hkid
              simp only [nodeDepth]
              exact ih _ _ _ hcs'
            · cases hkid
          · cases hkid

/-! ## round trips on the tree -/

theorem emitBytes_length (k code : Nat) : (emitBytes k code).length = k := by
  induction k generalizing code with
  | zero => simp [emitBytes]
  | succ k ih => simp [emitBytes, ih]

theorem emitBytes_allBytes (k code : Nat) : AllBytes (emitBytes k code) := by
  induction k generalizing code with
  | zero => simp [emitBytes]
  | succ k ih =>
    simp only [emitBytes, allBytes_cons]
    exact ⟨Nat.mod_lt _ (by omega), ih _⟩

theorem codeValue_emitBytes (k code : Nat) : codeValue (emitBytes k code) = code % 256 ^ k := by
  induction k generalizing code with
  | zero => simp [emitBytes, codeValue, Nat.mod_one]
  | succ k ih =>
    simp only [emitBytes, codeValue, ih]
    rw [Nat.pow_succ, Nat.mul_comm (256 ^ k) 256, Nat.mod_mul]

theorem emitBytes_codeValue (t : Bytes) (h : AllBytes t) : emitBytes t.length (codeValue t) = t := by
  induction t with
  | nil => simp [emitBytes]
  | cons b t ih =>
    have hb : b < 256 := by simp [AllBytes] at h; exact h.1
    have ht : AllBytes t := by simp [AllBytes] at h ⊢; exact h.2
    simp only [List.length_cons, emitBytes, codeValue]
    have e1 : (b + 256 * codeValue t) % 256 = b := by omega
    have e2 : (b + 256 * codeValue t) / 256 = codeValue t := by omega
    rw [e1, e2, ih ht]

theorem kidsEnc_head (cs : List (Nat × Node)) (code : Nat) : ∃ t, kidsEnc cs code = (code % 256) :: t := by
  induction cs with
  | nil => exact ⟨[], rfl⟩
  | cons kid cs ih =>
    obtain ⟨hi, n⟩ := kid
    simp only [kidsEnc]
    split
    · exact ⟨_, rfl⟩
    · exact ih

mutual
theorem node_rt1 (n : Node) (code : Nat) :
    (n.dec (nodeEnc n code)).1 = (nodeEnc n code).length ∧
    codeValue (nodeEnc n code) = code % 256 ^ (nodeEnc n code).length ∧ AllBytes (nodeEnc n code) := by
  match n with
  | .valid => simp [nodeEnc, Node.dec, codeValue, Nat.mod_one]
  | .invalid k =>
    simp [nodeEnc, Node.dec, emitBytes_length, codeValue_emitBytes, emitBytes_allBytes]
  | .sub cs => simp only [nodeEnc, Node.dec]; exact kids_rt1 cs code
theorem kids_rt1 (cs : List (Nat × Node)) (code : Nat) :
    (kidsDec cs (kidsEnc cs code)).1 = (kidsEnc cs code).length ∧
    codeValue (kidsEnc cs code) = code % 256 ^ (kidsEnc cs code).length ∧ AllBytes (kidsEnc cs code) := by
  match cs with
  | [] => simp [kidsEnc, kidsDec, codeValue]; exact Nat.mod_lt _ (by omega)
  | (hi, n) :: rest =>
    simp only [kidsEnc]
    by_cases hsel : code % 256 ≤ hi
    · simp only [hsel, if_true, kidsDec, List.length_cons, codeValue, allBytes_cons]
      obtain ⟨a, b, c⟩ := node_rt1 n (code / 256)
      refine ⟨by omega, ?_, Nat.mod_lt _ (by omega), c⟩
      rw [b, Nat.pow_succ, Nat.mul_comm _ 256, Nat.mod_mul]
    · simp only [hsel, if_false]
      obtain ⟨a, b, c⟩ := kids_rt1 rest code
      refine ⟨?_, b, c⟩
      obtain ⟨t, ht⟩ := kidsEnc_head rest code
      rw [ht] at a ⊢
      simp only [kidsDec, hsel, if_false]
      exact a
end

mutual
/-- decoding did not run out of input before the code was complete -/
def nodeNotCut : Node → Bytes → Bool
  | .valid, _ => true
  | .invalid k, s => decide (k ≤ s.length)
  | .sub cs, s => kidsNotCut cs s
def kidsNotCut : List (Nat × Node) → Bytes → Bool
  | _, [] => false
  | [], _ :: _ => true
  | (hi, n) :: rest, b :: s => if b ≤ hi then nodeNotCut n s else kidsNotCut rest (b :: s)
end

mutual
theorem node_valid_notCut (n : Node) (s : Bytes) (h : (n.dec s).2 = true) : nodeNotCut n s = true := by
  match n with
  | .valid => simp [nodeNotCut]
  | .invalid k => simp [Node.dec] at h
  | .sub cs => simp only [Node.dec] at h; simp only [nodeNotCut]; exact kids_valid_notCut cs s h
theorem kids_valid_notCut (cs : List (Nat × Node)) (s : Bytes) (h : (kidsDec cs s).2 = true) : kidsNotCut cs s = true := by
  match cs, s with
  | cs, [] => simp [kidsDec_nil] at h
  | [], _ :: _ => simp [kidsNotCut]
  | (hi, n) :: rest, b :: s =>
    simp only [kidsDec] at h
    simp only [kidsNotCut]
    split
    · rename_i hsel; simp only [hsel, if_true] at h; exact node_valid_notCut n s h
    · rename_i hsel; simp only [hsel, if_false] at h; exact kids_valid_notCut rest (b :: s) h
end

theorem kidsDec_pos (cs : List (Nat × Node)) (b : Nat) (s : Bytes) : 1 ≤ (kidsDec cs (b :: s)).1 := by
  induction cs with
  | nil => simp [kidsDec]
  | cons k r ih =>
    obtain ⟨hi', n'⟩ := k
    simp only [kidsDec]
    split
    · simp
    · exact ih

mutual
theorem node_rt2 (n : Node) (s : Bytes) (hs : AllBytes s) (h : nodeNotCut n s = true) :
    nodeEnc n (codeValue (s.take (n.dec s).1)) = s.take (n.dec s).1 := by
  match n with
  | .valid => simp [nodeEnc, Node.dec]
  | .invalid k =>
    simp only [nodeNotCut, decide_eq_true_eq] at h
    simp only [nodeEnc, Node.dec, Nat.min_eq_left h]
    have := emitBytes_codeValue (s.take k) (fun b hb => hs b (List.mem_of_mem_take hb))
    simp only [List.length_take, Nat.min_eq_left h] at this
    exact this
  | .sub cs => simp only [nodeNotCut] at h; simp only [nodeEnc, Node.dec]; exact kids_rt2 cs s hs h
theorem kids_rt2 (cs : List (Nat × Node)) (s : Bytes) (hs : AllBytes s) (h : kidsNotCut cs s = true) :
    kidsEnc cs (codeValue (s.take (kidsDec cs s).1)) = s.take (kidsDec cs s).1 := by
  match cs, s with
  | cs, [] => cases cs <;> simp [kidsNotCut] at h
  | [], b :: s =>
    have hb : b < 256 := by simp [AllBytes] at hs; exact hs.1
    simp [kidsDec, kidsEnc, codeValue]; omega
  | (hi, n) :: rest, b :: s =>
    have hb : b < 256 := by simp [AllBytes] at hs; exact hs.1
    have hs' : AllBytes s := by simp [AllBytes] at hs ⊢; exact hs.2
    simp only [kidsNotCut] at h
    by_cases hsel : b ≤ hi
    · simp only [hsel, if_true] at h
      simp only [kidsDec, hsel, if_true, List.take_succ_cons, codeValue, kidsEnc]
      have e1 : (b + 256 * codeValue (s.take (n.dec s).1)) % 256 = b := by omega
      have e2 : (b + 256 * codeValue (s.take (n.dec s).1)) / 256 = codeValue (s.take (n.dec s).1) := by omega
      rw [e1, e2]
      simp only [hsel, if_true, node_rt2 n s hs' h]
    · simp only [hsel, if_false] at h
      have ih := kids_rt2 rest (b :: s) hs h
      simp only [kidsDec, hsel, if_false, kidsEnc]
      -- the selecting byte of the code is `b` again
      have hpos : 1 ≤ (kidsDec rest (b :: s)).1 := kidsDec_pos rest b s
      have hb' : codeValue (List.take (kidsDec rest (b :: s)).1 (b :: s)) % 256 = b := by
        obtain ⟨m, hm⟩ : ∃ m, (kidsDec rest (b :: s)).1 = m + 1 := ⟨_, (Nat.sub_add_cancel hpos).symm⟩
        rw [hm]; simp only [List.take_succ_cons, codeValue]; omega
      rw [hb']
      simp only [hsel, if_false]
      exact ih
end


/-! ## round trips of the codec -/

theorem codeValue_lt (t : Bytes) (h : AllBytes t) : codeValue t < 256 ^ t.length := by
  induction t with
  | nil => simp [codeValue]
  | cons b t ih =>
    have hb : b < 256 := by simp [AllBytes] at h; exact h.1
    have ht : AllBytes t := by simp [AllBytes] at h ⊢; exact h.2
    simp only [codeValue, List.length_cons, Nat.pow_succ]
    have := ih ht
    omega

theorem toSpec_wf (csr : CSR) (hv : ∀ r ∈ csr, r.isValid = true) : ∀ r ∈ toSpec csr, 1 ≤ r.len ∧ r.len ≤ 4 := by
  intro r hr
  simp only [toSpec, List.mem_map] at hr
  obtain ⟨r', hr', rfl⟩ := hr
  exact isValid_len r' (hv r' hr')

/-- **`append_decode`: encoding then decoding reproduces the code.**  For every accepted range
set and every `uint32` code, `AppendCode` emits 1 to 4 bytes, `Decode` consumes exactly these
bytes and returns the code again (the part of it that the emitted bytes hold). -/
theorem append_then_decode (csr : CSR) (c : Codec) (hC : newCodec csr = .ok c) (code : Nat) :
    ∃ bs v, c.appendCode code = .ok bs ∧ 1 ≤ bs.length ∧ bs.length ≤ 4 ∧ AllBytes bs ∧
      c.decode bs = .ok ((code % 4294967296) % 256 ^ bs.length, bs.length, v) := by
  obtain ⟨hv, tree, hT⟩ := newCodec_ok csr c hC
  have hR := (linearize_repr csr tree c hT hC).1
  have hcov := newTree_covers 4 csr 0 tree hT
  have henc := kids_enc c.nodes tree 0 hR hcov 4 (code % 4294967296) (newTree_depth 4 csr 0 tree hT)
  obtain ⟨r1, r2, r3⟩ := kids_rt1 tree (code % 4294967296)
  obtain ⟨t, ht⟩ := kidsEnc_head tree (code % 4294967296)
  have hne : kidsEnc tree (code % 4294967296) ≠ [] := by rw [ht]; simp
  have hlen4 : (kidsEnc tree (code % 4294967296)).length ≤ 4 := by
    have := (spec_bounds _ (toSpec_wf csr hv) _ hne).2.2
    rw [← tree_sem csr tree hT _ r3, r1] at this
    exact this
  refine ⟨kidsEnc tree (code % 4294967296), (kidsDec tree (kidsEnc tree (code % 4294967296))).2, henc, ?_, hlen4, r3, ?_⟩
  · rw [ht]; simp
  · unfold Codec.decode
    rw [kids_dec c.nodes tree 0 hR hcov _ r3 0 0, r1]
    rw [accum_eq _ 0 0 (fun b hb => r3 b (List.mem_of_mem_take hb)) (by simp) (by simp; omega)]
    simp [r2]

/-- **`decode_append`: decoding then re-encoding reproduces the consumed bytes** of every valid
code (for invalid codes see `decode_then_append_uncut`). -/
theorem decode_then_append (csr : CSR) (c : Codec) (hC : newCodec csr = .ok c) (s : Bytes) (hs : AllBytes s)
    (code n : Nat) (h : c.decode s = .ok (code, n, true)) :
    c.appendCode code = .ok (s.take n) := by
  obtain ⟨hv, tree, hT⟩ := newCodec_ok csr c hC
  have hR := (linearize_repr csr tree c hT hC).1
  have hcov := newTree_covers 4 csr 0 tree hT
  have hd := kids_dec c.nodes tree 0 hR hcov s hs 0 0
  unfold Codec.decode at h
  rw [hd] at h
  injection h with h
  simp only [Prod.mk.injEq, Nat.zero_add] at h
  obtain ⟨h1, h2, h3⟩ := h
  have hn4 : (kidsDec tree s).1 ≤ 4 := by
    rw [tree_sem csr tree hT s hs]
    by_cases he : s = []
    · subst he; simp [decode]
    · exact (spec_bounds _ (toSpec_wf csr hv) s he).2.2
  have htake : AllBytes (s.take (kidsDec tree s).1) := fun b hb => hs b (List.mem_of_mem_take hb)
  rw [accum_eq _ 0 0 htake (by simp) (by simp; omega)] at h1
  simp only [Nat.pow_zero, Nat.one_mul, Nat.zero_add] at h1
  have hlt : code < 4294967296 := by
    rw [← h1]
    have := codeValue_lt _ htake
    have h256 : 256 ^ (s.take (kidsDec tree s).1).length ≤ 256 ^ 4 :=
      Nat.pow_le_pow_right (by omega) (by simp; omega)
    omega
  unfold Codec.appendCode
  rw [Nat.mod_eq_of_lt hlt, kids_enc c.nodes tree 0 hR hcov 4 code (newTree_depth 4 csr 0 tree hT)]
  rw [← h1, ← h2, kids_rt2 tree s hs (kids_valid_notCut tree s h3)]


/-! ### invalid codes: the input must not have been cut short -/

mutual
/-- the largest number of bytes a sub-tree may still consume -/
def nodeBudget : Node → Nat
  | .valid => 0
  | .invalid k => k
  | .sub cs => kidsBudget cs
def kidsBudget : List (Nat × Node) → Nat
  | [] => 1
  | (_, n) :: rest => max (nodeBudget n + 1) (kidsBudget rest)
end

mutual
theorem node_notCut_of_len (n : Node) (s : Bytes) (h : nodeBudget n ≤ s.length) : nodeNotCut n s = true := by
  match n with
  | .valid => simp [nodeNotCut]
  | .invalid k => simp only [nodeBudget] at h; simp [nodeNotCut, h]
  | .sub cs => simp only [nodeBudget] at h; simp only [nodeNotCut]; exact kids_notCut_of_len cs s h
theorem kids_notCut_of_len (cs : List (Nat × Node)) (s : Bytes) (h : kidsBudget cs ≤ s.length) : kidsNotCut cs s = true := by
  match cs, s with
  | [], [] => simp [kidsBudget] at h
  | (_, _) :: _, [] => simp only [kidsBudget, List.length_nil] at h; omega
  | [], _ :: _ => simp [kidsNotCut]
  | (hi, n) :: rest, b :: s =>
    simp only [kidsBudget, List.length_cons] at h
    simp only [kidsNotCut]
    split
    · exact node_notCut_of_len n s (by omega)
    · exact kids_notCut_of_len rest (b :: s) (by simp only [List.length_cons]; omega)
end

theorem kidsBudget_le (cs : List (Nat × Node)) (m : Nat) (h : ∀ kid ∈ cs, nodeBudget kid.2 ≤ m) :
    kidsBudget cs ≤ m + 1 := by
  induction cs with
  | nil => simp [kidsBudget]
  | cons kid cs ih =>
    obtain ⟨hi, n⟩ := kid
    simp only [kidsBudget]
    have h1 := h (hi, n) (by simp)
    have h2 := ih (fun k hk => h k (by simp [hk]))
    simp only at h1
    omega

theorem minLength_le (S : CSR) (m : Nat) (hm : 1 ≤ m) (h : ∀ r ∈ S, r.low.length ≤ m) : minLength S ≤ m := by
  rw [← shortest_eq_minLength]
  cases S with
  | nil => simpa [shortest] using hm
  | cons r S =>
    simp only [List.map_cons, shortest]
    have := (foldl_min_bounds (S.map fun r => r.low.length) r.low.length 0 (by omega) (by simp)).2
    have := h r (by simp)
    omega

theorem newTree_budget : ∀ (fuel : Nat) (S : CSR) (d : Nat) (cs : List (Nat × Node)),
    newTree fuel S d = .ok cs → (∀ r ∈ S, r.low.length ≤ d + fuel) → kidsBudget cs ≤ fuel := by
  intro fuel
  induction fuel with
  | zero => intro S d cs h; simp [newTree] at h
  | succ fuel ih =>
    intro S d cs h hS
    simp only [newTree] at h
    split at h
    · cases h
    · apply kidsBudget_le
      refine mapE_all _ (fun kid => nodeBudget kid.2 ≤ fuel) _ cs h ?_
      intro iv kid _ hkid
      simp only [nodeFor] at hkid
      split at hkid
      · injection hkid with hkid; subst hkid
        have := minLength_le S (d + (fuel + 1)) (by omega) hS
        simp only [nodeBudget]; omega
      · split at hkid
        · injection hkid with hkid; subst hkid; simp [nodeBudget]
        · split at hkid
          · split at hkid
            · rename_i cs' hcs'
              injection hkid with hkid; subst hkid
              simp only [nodeBudget]
              refine ih _ _ _ hcs' ?_
              intro r hr
              have := hS r (List.mem_filter.mp hr).1
              omega
            · cases hkid
          · cases hkid

/-- **`decode_append` for every code, valid or not,** when the input holds at least four bytes
(so that no code can have been cut short): re-encoding the returned code reproduces exactly the
consumed bytes. -/
theorem decode_then_append_uncut (csr : CSR) (c : Codec) (hC : newCodec csr = .ok c) (s : Bytes) (hs : AllBytes s)
    (hlen : 4 ≤ s.length) (code n : Nat) (v : Bool) (h : c.decode s = .ok (code, n, v)) :
    c.appendCode code = .ok (s.take n) := by
  obtain ⟨hv, tree, hT⟩ := newCodec_ok csr c hC
  have hR := (linearize_repr csr tree c hT hC).1
  have hcov := newTree_covers 4 csr 0 tree hT
  have hd := kids_dec c.nodes tree 0 hR hcov s hs 0 0
  unfold Codec.decode at h
  rw [hd] at h
  injection h with h
  simp only [Prod.mk.injEq, Nat.zero_add] at h
  obtain ⟨h1, h2, _⟩ := h
  have hn4 : (kidsDec tree s).1 ≤ 4 := by
    rw [tree_sem csr tree hT s hs]
    by_cases he : s = []
    · subst he; simp [decode]
    · exact (spec_bounds _ (toSpec_wf csr hv) s he).2.2
  have htake : AllBytes (s.take (kidsDec tree s).1) := fun b hb => hs b (List.mem_of_mem_take hb)
  rw [accum_eq _ 0 0 htake (by simp) (by simp; omega)] at h1
  simp only [Nat.pow_zero, Nat.one_mul, Nat.zero_add] at h1
  have hlt : code < 4294967296 := by
    rw [← h1]
    have := codeValue_lt _ htake
    have h256 : 256 ^ (s.take (kidsDec tree s).1).length ≤ 256 ^ 4 :=
      Nat.pow_le_pow_right (by omega) (by simp; omega)
    omega
  have hbud := newTree_budget 4 csr 0 tree hT (fun r hr => by have := (isValid_len r (hv r hr)).2; omega)
  unfold Codec.appendCode
  rw [Nat.mod_eq_of_lt hlt, kids_enc c.nodes tree 0 hR hcov 4 code (newTree_depth 4 csr 0 tree hT)]
  rw [← h1, ← h2, kids_rt2 tree s hs (kids_notCut_of_len tree s (by omega))]

end PdfVerif.C12ccd

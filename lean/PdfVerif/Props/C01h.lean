import PdfVerif.Lemmas.C01Caps
import PdfVerif.Props.C01b
/-!
# C01/C05 (part h) — size caps of the scanner, for all inputs

Whatever `ReadObject` returns — on ANY input, well-formed or not — respects the caps of
`scanner.go`: names and number tokens ≤ `maxNameBytes`, strings ≤ `maxStringBytes` (literal and hex form
alike, including a hex string's final unpaired digit — former finding C05-H1, fixed), arrays ≤ `maxArrayLen`, dictionaries
≤ `maxDictLen` entries with keys ≤ `maxNameBytes`, integers in int64, references below
`maxXRefSize`/`maxGeneration`, nesting ≤ `maxScannerNestDepth`; recursively for every nested value.
(These statements are also listed under C05.)
-/
namespace PdfVerif.C01h
open PdfVerif PdfVerif.C01L

/-- **Caps, general form**: a value read at nesting depth `d ≤ maxScannerNestDepth` with any fuel
is within all caps (`capsOK`, recursively) and `d` plus its own depth is within the nesting limit. -/
theorem read_caps (f d : Nat) (inp : Bytes) (o : Obj) (r : Bytes)
    (h : readObject f d inp = .ok (o, r)) (hd : d ≤ Gen.scanner_maxScannerNestDepth) :
    capsOK o = true ∧ d + depthOf o ≤ Gen.scanner_maxScannerNestDepth :=
  (caps_all f).1 d inp o r h hd

/-- **Caps of `parseObject`** (a fresh scanner). -/
theorem parse_caps (inp : Bytes) (o : Obj) (r : Bytes) (h : parseObject inp = .ok (o, r)) :
    capsOK o = true ∧ depthOf o ≤ Gen.scanner_maxScannerNestDepth := by
  have := read_caps _ 0 inp o r h (Nat.zero_le _)
  exact ⟨this.1, by omega⟩

/-- `capsOK` holds for every element of a good array and every value of a good dictionary
    (so the statements below apply at every depth) -/
theorem capsOK_arr (xs : List Obj) (h : capsOK (.arr xs) = true) :
    xs.length ≤ Gen.scanner_maxArrayLen ∧ ∀ x ∈ xs, capsOK x = true := by
  simp only [capsOK, Bool.and_eq_true, decide_eq_true_eq] at h
  exact ⟨h.1, (capsList_iff xs).mp h.2⟩

theorem capsOK_dict (kv : List (Bytes × Obj)) (h : capsOK (.dict kv) = true) :
    kv.length ≤ Gen.scanner_maxDictLen ∧
      ∀ e ∈ kv, e.1.length ≤ Gen.scanner_maxNameBytes ∧ capsOK e.2 = true := by
  simp only [capsOK, Bool.and_eq_true, decide_eq_true_eq] at h
  exact ⟨h.1, (capsKV_iff kv).mp h.2⟩

/-- arrays: at most `maxArrayLen` elements -/
theorem parse_array_cap (inp : Bytes) (xs : List Obj) (r : Bytes)
    (h : parseObject inp = .ok (.arr xs, r)) : xs.length ≤ Gen.scanner_maxArrayLen :=
  (capsOK_arr xs (parse_caps inp _ r h).1).1

/-- dictionaries: at most `maxDictLen` entries, keys at most `maxNameBytes` bytes -/
theorem parse_dict_cap (inp : Bytes) (kv : List (Bytes × Obj)) (r : Bytes)
    (h : parseObject inp = .ok (.dict kv, r)) :
    kv.length ≤ Gen.scanner_maxDictLen ∧ ∀ e ∈ kv, e.1.length ≤ Gen.scanner_maxNameBytes := by
  have := capsOK_dict kv (parse_caps inp _ r h).1
  exact ⟨this.1, fun e he => (this.2 e he).1⟩

/-- names: at most `maxNameBytes` bytes -/
theorem parse_name_cap (inp n r : Bytes) (h : parseObject inp = .ok (.name n, r)) :
    n.length ≤ Gen.scanner_maxNameBytes := by
  simpa [capsOK] using (parse_caps inp _ r h).1

/-- strings: at most `maxStringBytes` bytes -/
theorem parse_string_cap (inp s r : Bytes) (h : parseObject inp = .ok (.str s, r)) :
    s.length ≤ Gen.scanner_maxStringBytes := by
  simpa [capsOK] using (parse_caps inp _ r h).1

/-- literal strings: `ReadString` never returns more than `maxStringBytes` bytes -/
theorem literal_string_cap (inp s r : Bytes) (h : readString inp = .ok (s, r)) :
    s.length ≤ Gen.scanner_maxStringBytes :=
  (readString_spec inp s r h).2

/-- hex strings: `ReadHexString` never returns more than `maxStringBytes` bytes — the cap applies
    to the final unpaired digit as well (before the fix of C05-H1 this file proved
    `hex_cap_exceeded`: `2·maxStringBytes + 1` digits gave `maxStringBytes + 1` bytes) -/
theorem hex_string_cap (inp s r : Bytes) (h : readHexString inp = .ok (s, r)) :
    s.length ≤ Gen.scanner_maxStringBytes :=
  (readHexString_spec inp s r h).2

/-- nesting: at most `maxScannerNestDepth` levels -/
theorem parse_depth_cap (inp : Bytes) (o : Obj) (r : Bytes) (h : parseObject inp = .ok (o, r)) :
    depthOf o ≤ Gen.scanner_maxScannerNestDepth :=
  (parse_caps inp o r h).2

/-! ### the caps are attained: values of exactly the cap size are accepted -/

/-- a literal string, a hex string and a name of exactly the cap size read back (the former
    findings C01-F2, C01-F3: regression theorems over the abstract generated constants) -/
theorem caps_attained (rest : Bytes) :
    (∀ s : Bytes, s.length = Gen.scanner_maxStringBytes →
      ∃ body, fmtStrLiteral s = 40 :: body ∧ readString (body ++ rest) = .ok (s, rest)) ∧
    (∀ s : Bytes, AllBytes s → s.length = Gen.scanner_maxStringBytes →
      ∃ body, fmtStrHex s = 60 :: body ∧ readHexString (body ++ rest) = .ok (s, rest)) ∧
    (∀ n : Bytes, AllBytes n → n.length = Gen.scanner_maxNameBytes → C01.NameEnd rest →
      readName (fmtName n ++ rest) = .ok (n, rest)) :=
  ⟨fun s hs => C01b.string_rt_literal s (by omega) rest,
   fun s hb hs => C01b.string_rt_hex s hb (by omega) rest,
   fun n hb hn hr => C01.name_rt n hb (by omega) rest hr⟩

-- non-vacuity: a nested value is read and is within the caps
example : (match parseObject [91, 60, 60, 47, 65, 91, 40, 120, 41, 93, 62, 62, 60, 48, 62, 93] with
    | .ok (o, []) => capsOK o && depthOf o == 3 | _ => false) = true := by decide +kernel

end PdfVerif.C01h

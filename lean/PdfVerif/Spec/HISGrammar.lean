/-!
# The lexical grammar of PDF objects as a relation between values and their conforming spellings

Written from ISO 32000-2 §7.2 (white space, comments, character classes) and §7.3.2–7.3.5
(numbers, literal and hexadecimal strings, names).  Core Lean, no import: it shares nothing with
`Model/` (not even the character-class table — `isWhite`/`isDelim` are Tables 1 and 2 of the
standard, and a theorem in `Props/C04hisc.lean` shows they agree with the table extracted from
`scanner.go`).

Each relation `XR value spelling` lists *every* way the standard allows the value to be written
(not the one way go-pdf's writer uses).
-/
namespace PdfVerif.Spec.Grammar

abbrev Bytes := List Nat

/-- Table 1: NUL, HT, LF, FF, CR, SP -/
def isWhite (c : Nat) : Bool := c == 0 || c == 9 || c == 10 || c == 12 || c == 13 || c == 32
/-- Table 2: ( ) < > [ ] { } / % -/
def isDelim (c : Nat) : Bool :=
  c == 40 || c == 41 || c == 60 || c == 62 || c == 91 || c == 93 || c == 123 || c == 125 || c == 47 || c == 37
def isRegularCh (c : Nat) : Bool := !isWhite c && !isDelim c
def isEolCh (c : Nat) : Bool := c == 10 || c == 13
def isOctCh (c : Nat) : Bool := 48 ≤ c && c ≤ 55
def isDigitCh (c : Nat) : Bool := 48 ≤ c && c ≤ 57

/-- value of a hexadecimal digit, upper or lower case -/
def hexDigit? (c : Nat) : Option Nat :=
  if 48 ≤ c ∧ c ≤ 57 then some (c - 48)
  else if 65 ≤ c ∧ c ≤ 70 then some (c - 55)
  else if 97 ≤ c ∧ c ≤ 102 then some (c - 87)
  else none

/-- §7.2.3/7.2.4: any sequence of white-space characters and comments (`%` up to and
    including the end-of-line marker) -/
inductive WsR : Bytes → Prop where
  | nil : WsR []
  | white (c : Nat) (w : Bytes) : isWhite c = true → WsR w → WsR (c :: w)
  | comment (body : Bytes) (eol : Nat) (w : Bytes) :
      (∀ b ∈ body, isEolCh b = false) → isEolCh eol = true → WsR w → WsR (37 :: (body ++ eol :: w))

/-- §7.3.5: a name after the solidus.  Every byte may be written as `#xx` (either case);
    a regular character other than `#` may be written as itself. -/
inductive NameR : Bytes → Bytes → Prop where
  | nil : NameR [] []
  | plain (c : Nat) (v s : Bytes) : c < 256 → isRegularCh c = true → c ≠ 35 → NameR v s → NameR (c :: v) (c :: s)
  | esc (c h l : Nat) (v s : Bytes) : c < 256 → hexDigit? h = some (c / 16) → hexDigit? l = some (c % 16) →
      NameR v s → NameR (c :: v) (35 :: h :: l :: s)

/-- what a spelling must not start with: the byte `c` -/
def notHead (c : Nat) : Bytes → Prop
  | [] => True
  | d :: _ => d ≠ c

def notOctHead : Bytes → Prop
  | [] => True
  | d :: _ => isOctCh d = false

/-- §7.3.4.2: the body of a literal string between the outer parentheses.  `StrR l v s`: at
    parenthesis depth `l` (1 = only the outer pair is open) the remaining spelling `s` denotes
    the remaining value `v` and closes all inner parentheses. -/
inductive StrR : Nat → Bytes → Bytes → Prop where
  | done : StrR 1 [] []
  /-- any byte except `(`, `)`, `\` and CR stands for itself (a raw LF is an end-of-line marker and reads as LF) -/
  | plain (l c : Nat) (v s : Bytes) : c < 256 → c ≠ 40 → c ≠ 41 → c ≠ 92 → c ≠ 13 → StrR l v s → StrR l (c :: v) (c :: s)
  /-- an end-of-line marker CR or CR LF inside a string is read as LF -/
  | rawCR (l : Nat) (v s : Bytes) : notHead 10 s → StrR l v s → StrR l (10 :: v) (13 :: s)
  | rawCRLF (l : Nat) (v s : Bytes) : StrR l v s → StrR l (10 :: v) (13 :: 10 :: s)
  /-- balanced parentheses need no escape -/
  | popen (l : Nat) (v s : Bytes) : StrR (l + 1) v s → StrR l (40 :: v) (40 :: s)
  | pclose (l : Nat) (v s : Bytes) : 1 ≤ l → StrR l v s → StrR (l + 1) (41 :: v) (41 :: s)
  /-- Table 3: \n \r \t \b \f -/
  | escN (l : Nat) (v s : Bytes) : StrR l v s → StrR l (10 :: v) (92 :: 110 :: s)
  | escR (l : Nat) (v s : Bytes) : StrR l v s → StrR l (13 :: v) (92 :: 114 :: s)
  | escT (l : Nat) (v s : Bytes) : StrR l v s → StrR l (9 :: v) (92 :: 116 :: s)
  | escB (l : Nat) (v s : Bytes) : StrR l v s → StrR l (8 :: v) (92 :: 98 :: s)
  | escF (l : Nat) (v s : Bytes) : StrR l v s → StrR l (12 :: v) (92 :: 102 :: s)
  /-- `\(`, `\)`, `\\`, and a backslash before any other character that is not part of an
      escape sequence is ignored -/
  | escSelf (l e : Nat) (v s : Bytes) : e < 256 →
      e ≠ 110 → e ≠ 114 → e ≠ 116 → e ≠ 98 → e ≠ 102 → e ≠ 10 → e ≠ 13 → isOctCh e = false →
      StrR l v s → StrR l (e :: v) (92 :: e :: s)
  /-- `\ddd`: one to three octal digits, high-order overflow ignored; fewer than three digits
      only if the next character is not an octal digit -/
  | oct3 (l d1 d2 d3 : Nat) (v s : Bytes) : d1 < 8 → d2 < 8 → d3 < 8 → StrR l v s →
      StrR l ((d1 * 64 + d2 * 8 + d3) % 256 :: v) (92 :: (48 + d1) :: (48 + d2) :: (48 + d3) :: s)
  | oct2 (l d1 d2 : Nat) (v s : Bytes) : d1 < 8 → d2 < 8 → notOctHead s → StrR l v s →
      StrR l ((d1 * 8 + d2) :: v) (92 :: (48 + d1) :: (48 + d2) :: s)
  | oct1 (l d1 : Nat) (v s : Bytes) : d1 < 8 → notOctHead s → StrR l v s →
      StrR l (d1 :: v) (92 :: (48 + d1) :: s)
  /-- a backslash at the end of a line continues the string on the next line -/
  | contLF (l : Nat) (v s : Bytes) : StrR l v s → StrR l v (92 :: 10 :: s)
  | contCRLF (l : Nat) (v s : Bytes) : StrR l v s → StrR l v (92 :: 13 :: 10 :: s)
  | contCR (l : Nat) (v s : Bytes) : notHead 10 s → StrR l v s → StrR l v (92 :: 13 :: s)

/-- §7.3.4.3: the body of a hexadecimal string between `<` and `>`: pairs of hex digits, white
    space anywhere, a missing final digit counts as 0.  The index is the pending first digit. -/
inductive HexR : Option Nat → Bytes → Bytes → Prop where
  | doneEven : HexR none [] []
  | doneOdd (h : Nat) : HexR (some h) [16 * h] []
  | white (p : Option Nat) (c : Nat) (v s : Bytes) : isWhite c = true → HexR p v s → HexR p v (c :: s)
  | hi (c d : Nat) (v s : Bytes) : hexDigit? c = some d → HexR (some d) v s → HexR none v (c :: s)
  | lo (c d h : Nat) (v s : Bytes) : hexDigit? c = some d → HexR none v s → HexR (some h) ((16 * h + d) :: v) (c :: s)

/-- decimal value of a digit string -/
def decVal : Bytes → Nat → Nat
  | [], acc => acc
  | c :: cs, acc => decVal cs (acc * 10 + (c - 48))

/-- §7.3.3: an integer is one or more decimal digits with an optional sign (leading zeros allowed) -/
inductive IntR : Int → Bytes → Prop where
  | unsigned (ds : Bytes) : ds ≠ [] → (∀ d ∈ ds, isDigitCh d = true) → IntR (decVal ds 0) ds
  | plus (ds : Bytes) : ds ≠ [] → (∀ d ∈ ds, isDigitCh d = true) → IntR (decVal ds 0) (43 :: ds)
  | minus (ds : Bytes) : ds ≠ [] → (∀ d ∈ ds, isDigitCh d = true) → IntR (-(decVal ds 0 : Int)) (45 :: ds)

/-- §7.3.3: a real is digits with one decimal point (leading, trailing or embedded) and an
    optional sign; at least one digit.  The relation describes the token only. -/
inductive RealTok : Bytes → Prop where
  | mk (sign ip fp : Bytes) : (sign = [] ∨ sign = [43] ∨ sign = [45]) →
      (∀ d ∈ ip, isDigitCh d = true) → (∀ d ∈ fp, isDigitCh d = true) → ip ++ fp ≠ [] →
      RealTok (sign ++ ip ++ 46 :: fp)

end PdfVerif.Spec.Grammar

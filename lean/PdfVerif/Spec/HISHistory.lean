/-!
# Reference semantics of revision histories (ISO 32000-2 §7.5.4, §7.5.6, §7.5.8.4)

Written from the standard only; shares no definition with `Model/`.  Values are a parameter `α`
(the driver instantiates it with strings, the theorems never look inside).

* A cross-reference *section* assigns to finitely many object numbers either
  `define gen v` (in use: generation and the object) or `free gen`.
* A *revision* (one incremental update) has a main section and, in a hybrid-reference file,
  a second section reached through `/XRefStm`.  §7.5.8.4: a reader looks an object up in the
  main (table) section first, then in the `/XRefStm` section, then in the previous revision
  (`/Prev`) — so within one revision the `/XRefStm` section is the *older* one.
* A *history* lists the revisions oldest first.  Applying the sections oldest to newest, each
  overriding what was there, gives the current state; a reference `n g R` denotes the object
  iff the newest entry for `n` is a definition with generation `g`, otherwise null (§7.3.10).
-/
namespace PdfVerif.Spec.HIS

inductive Entry (α : Type) where
  | define (gen : Nat) (v : α)
  | free (gen : Nat)
  deriving Repr

/-- one cross-reference section: a finite map, written as an association list
    (the first pair for a number is its entry) -/
abbrev Section (α : Type) := List (Nat × Entry α)

structure Revision (α : Type) where
  main : Section α
  stm : Option (Section α) := none     -- hybrid file: the section `/XRefStm` points to

/-- oldest revision first -/
abbrev History (α : Type) := List (Revision α)

/-- the sections of a revision in the order in which they take effect (oldest first) -/
def Revision.sections {α} (r : Revision α) : List (Section α) :=
  match r.stm with
  | some s => [s, r.main]
  | none => [r.main]

/-- all sections of a history, oldest first -/
def sections {α} : History α → List (Section α)
  | [] => []
  | r :: rs => r.sections ++ sections rs

/-- a state of the file: what each object number currently is -/
abbrev State (α : Type) := Nat → Option (Entry α)

/-- a newer section overrides the state on exactly the numbers it mentions -/
def override {α} (st : State α) (s : Section α) : State α :=
  fun n => match s.lookup n with
    | some e => some e
    | none => st n

/-- apply sections oldest to newest -/
def applyAll {α} : State α → List (Section α) → State α
  | st, [] => st
  | st, s :: ss => applyAll (override st s) ss

def current {α} (h : History α) : State α := applyAll (fun _ => none) (sections h)

/-- the value of the indirect reference `n g R` (`none` = the null object) -/
def specGet {α} (h : History α) (n g : Nat) : Option α :=
  match current h n with
  | some (.define g' v) => if g' = g then some v else none
  | _ => none

end PdfVerif.Spec.HIS

/-!
# ASCIIHexDecode — reference codec written from ISO 32000-1 §7.4.2

"The ASCIIHexDecode filter shall produce one byte of binary data for each pair of ASCII
hexadecimal digits (0–9 and A–F or a–f).  All white-space characters shall be ignored.  A
GREATER-THAN SIGN (3Eh) indicates EOD.  Any other characters shall cause an error.  If the
filter encounters the EOD marker after reading an odd number of hexadecimal digits, it shall
behave as if a 0 (zero) followed the last digit."

Independent of `Model/`: whole-string functions (strip, cut, pair up), no state machine, no
generated constants.
-/
namespace PdfVerif.Spec.AsciiHex

/-- white-space characters of ISO 32000-1 Table 1: NUL, HT, LF, FF, CR, SP -/
def isWhite (c : Nat) : Bool := c == 0 || c == 9 || c == 10 || c == 12 || c == 13 || c == 32

def digitVal (c : Nat) : Option Nat :=
  if 0x30 ≤ c ∧ c ≤ 0x39 then some (c - 0x30)
  else if 0x41 ≤ c ∧ c ≤ 0x46 then some (c - 0x41 + 10)
  else if 0x61 ≤ c ∧ c ≤ 0x66 then some (c - 0x61 + 10)
  else none

/-- the characters before the first `>`; `none` if there is no EOD marker -/
def upToEOD : List Nat → Option (List Nat)
  | [] => none
  | c :: cs => if c == 0x3E then some [] else (upToEOD cs).map (c :: ·)

def allDigits : List Nat → Option (List Nat)
  | [] => some []
  | c :: cs => match digitVal c, allDigits cs with
    | some d, some ds => some (d :: ds)
    | _, _ => none

def pairUp : List Nat → List Nat
  | [] => []
  | [d] => [d * 16]            -- odd count: as if a 0 followed
  | d :: e :: rest => (d * 16 + e) :: pairUp rest

def decode (s : List Nat) : Option (List Nat) :=
  match upToEOD s with
  | none => none
  | some body => (allDigits (body.filter (fun c => !isWhite c))).map pairUp

def upperDigit (n : Nat) : Nat := if n < 10 then 0x30 + n else 0x41 + (n - 10)

/-- a reference encoder: upper-case digits, no line breaks, EOD -/
def encode : List Nat → List Nat
  | [] => [0x3E]
  | b :: bs => upperDigit (b / 16) :: upperDigit (b % 16) :: encode bs

end PdfVerif.Spec.AsciiHex
